/-
  C15 end to end, second half — `--dry-run` of a patch whose single hunk is REJECTED: the sibling of `C18Run.C04_run_rejected`.

      patch --dry-run [-u] [-pN] [-F n] -i pname name

  in the situation of `C04_run_rejected` (tree with the target `name` — content `bytes`, mode `m`, writable — and the patch file
  `pname` = the text of a one-hunk unified diff whose hunk `locate_hunk` finds nowhere, nor reversed — or `-f`):

    * `C15_run_rejected_dry(_filler)` — exit status 1, THE SAME AS THE REAL RUN; the tree completely untouched: no reject file, the
      target not re-written; no reject file recorded in `RejectFiles`, no backup; the events are
      "checking file name", "Hunk #1 FAILED at n.", "1 out of 1 hunk FAILED" — the last WITHOUT a reject-file name;
    * `C04_run_rejected_out(_filler)` — the events of the REAL run, for comparison (`C04_run_rejected` does not state them):
      "patching file name", "Hunk #1 FAILED at n.", "1 out of 1 hunk FAILED -- saving rejects to file name.rej";
    * `C01_run_out`, `C15_run_dry_out` — the events of the two runs when the hunk fits (one event: "patching" / "checking file");
    * `C15_fidelity_one_hunk` — **exit status and verdicts of `--dry-run` = those of the real run, for both outcomes of a one-hunk
      patch** (the hunk is a valid script of the target: both 0; it can be placed nowhere: both 1), the tree untouched by the dry
      run.  "Verdicts" = the event list up to `verdict`, which forgets exactly what a dry run cannot have: the patching/checking
      flag of the announcement and the name of the reject file.

  Side conditions: those of `C04_run_rejected` (`RejOpts`), of which the dry run needs less — `rejWritten = []`, `name.rej` free,
  no `-b` / `--backup-if-mismatch` / `-r` do not matter when nothing is written (`C15_run_rejected_dry_filler` does not ask for
  them); they are kept in the combined statement, where the real run needs them.
-/
import PatchModel.Lemmas.RunA
import PatchModel.Props.C18Run
namespace PatchModel.C15Run
open PatchModel PatchModel.Section PatchModel.Run PatchModel.DriverFacts PatchModel.RunB PatchModel.C01 PatchModel.C18Run
  PatchModel.RunA

section
variable {o : Options} {s0 : DState} {name pname bytes : Bytes} {m pm : Nat}
  {filler : List Line} {old new oldt newt : Bytes} {h : Hunk}

/-- `C18Run.rejSection_of_diff` with the rest of the applier's verdict (what is printed), and for the options the dry run needs
    (`-b`, `-r`, `--backup-if-mismatch` free) -/
theorem rejSection_of_diff' (hob : BaseOpts o name) (hru : o.rejectFormat ≠ .context) (hs0 : CleanStart s0) (hname : name ≠ [])
    (htarget : s0.fs.lookup name = some (.file bytes m)) (hw : m &&& writeMask ≠ 0)
    (hd : UnifiedDiff filler old new oldt newt [h])
    (hloc : locateHunk (splitLines bytes) h o.ignoreWhitespace 0 o.maxFuzz 0 = none)
    (hrloc : o.force = true ∨ locateHunk (splitLines bytes) (reverseHunk h) o.ignoreWhitespace 0 o.maxFuzz 0 = none) :
    ∃ patch0 info par1 par2 r,
      BaseSection o (forced o) (loopStart s0 (diffLines filler old new oldt newt [h])) name bytes m patch0
        { patch0 with hunks := [h] } info par1 par2 r ∧
      r.failed = 1 ∧ r.skipped = false ∧ r.msgs = [Msg.hunk 1 "FAILED" (expectedLine h) 0 0] ∧
      r.rejBytes = rejText o.strip old new oldt newt h ∧
      render o.newlineOutput r.out = renderLines o.newlineOutput (splitLines bytes) ∧
      par2.s.eof = true := by
  have hfl : ∀ l ∈ filler, l.newline ≠ .none := by
    intro l hl
    have := hd.fillerPlain l hl
    unfold lfPlain at this
    simp only [Bool.and_eq_true, beq_iff_eq] at this
    rw [this.1]; simp
  have hfmt : forced o = .unknown ∨ forced o = .unified := by
    unfold forced; split
    · exact Or.inr rfl
    · exact Or.inl rfl
  obtain ⟨patch0, info, par1, par2, hhdr, hf, hop, hpre, hnm, hop0, hnp0, hot0, hnt0, hbody, heof⟩ :=
    parse_diffLines_names o.strip (forced o) hfmt filler old new oldt newt [h] 1 hd.fillerInert hfl hd.oldName.1 hd.newName.1
      hd.oldStamp.1 hd.newStamp.1 hd.nonEmpty hd.writable hd.change
  have hrev : (applyOptsOf o).reverse = false := hob.noReverse
  have hru' : rejectAsUnified (applyOptsOf o).rejectFormat ({ patch0 with hunks := [h] } : Patch).format = true := by
    show rejectAsUnified o.rejectFormat patch0.format = true
    rw [hf]
    cases hx : o.rejectFormat <;> first | rfl | exact absurd hx hru
  obtain ⟨r, hap, hrout, hrb, hrfail, hrskip, _, _, _, hrmsgs, hrtty, hrpatch⟩ :=
    applyPatch_reject_one (splitLines bytes) h { patch0 with hunks := [h] } (applyOptsOf o)
      (Option.map (fun l => List.map (fun a => !List.isEmpty a && List.head? a != some 110) l) s0.tty)
      hrev rfl hloc hrloc hru'
  refine ⟨patch0, info, par1, par2, r, ?_, hrfail, hrskip, hrmsgs, ?_,
    Render.render_of_map_line _ hrout (Render.linesTerminated_splitLines bytes), heof⟩
  · exact {
      operand := hob.operand, noOut := hob.noOut, pathNe := hname, cwd := hs0.cwd, hdr := hhdr,
      fmt := Or.inl hf, op := hop, pre := hpre, body := hbody, fmt2 := rfl, op2 := hop, newMode2 := hnm, file := htarget,
      writable := hw, root := hs0.root, noFault := hs0.noFault, apply := hap, ttyLeft := hrtty, patch := hrpatch }
  · rw [hrb, rejText, writeHeaderUnified]
    show headerLine "--- " patch0.oldPath patch0.oldTime ++ headerLine "+++ " patch0.newPath patch0.newTime ++ _ = _
    rw [hop0, hnp0, hot0, hnt0]

/-- **C15, the whole program under --dry-run on a unified diff whose hunk cannot be placed** (inert filler allowed in front of
    the header; any `-b`, `-r`, `--backup-if-mismatch`; whatever is at `name.rej`): exit status 1, nothing touched, the verdict
    reported without a reject-file name -/
theorem C15_run_rejected_dry_filler (hob : BaseOpts o name) (hof : FileOpts o pname) (hru : o.rejectFormat ≠ .context)
    (hdry : o.dryRun = true) (hs0 : CleanStart s0)
    (hname : name ≠ []) (hpn : pname ≠ []) (hpd : pname ≠ [45])
    (htarget : s0.fs.lookup name = some (.file bytes m)) (hw : m &&& writeMask ≠ 0)
    (hpatch : s0.fs.lookup pname = some (.file (patchText filler old new oldt newt [h]) pm))
    (hd : UnifiedDiff filler old new oldt newt [h])
    (hloc : locateHunk (splitLines bytes) h o.ignoreWhitespace 0 o.maxFuzz 0 = none)
    (hrloc : o.force = true ∨ locateHunk (splitLines bytes) (reverseHunk h) o.ignoreWhitespace 0 o.maxFuzz 0 = none) :
    (runPatch o s0).1 = 1 ∧
    (runPatch o s0).2.fs = s0.fs ∧
    (runPatch o s0).2.out = s0.out ++ [.file name true, .msg (.hunk 1 "FAILED" (expectedLine h) 0 0), .failed 1 1 false none] ∧
    (runPatch o s0).2.rejWritten = s0.rejWritten ∧ (runPatch o s0).2.backedUp = s0.backedUp ∧
    (runPatch o s0).2.trace = s0.trace ++ [.tmpCreate, .tmpUnlink, .tmpCreate, .tmpUnlink] := by
  obtain ⟨patch0, info, par1, par2, r, H, hfail, hskip, hmsgs, _, _, heof⟩ :=
    rejSection_of_diff' hob hru hs0 hname htarget hw hd hloc hrloc
  obtain ⟨s', hrun, hfs, htr, hbk, hrw, hhf, hout, hdone⟩ := processSection_rejected_dry H (by rw [hfail]; decide) hdry
  rw [runPatch_of_end hof hs0 hpn hpd hpatch hd s' par2 hrun hdone heof]
  refine ⟨by rw [hhf]; rfl, hfs, ?_, hrw, hbk, ?_⟩
  · show s'.out = _
    rw [hout, hfail, hskip, hmsgs]
    show s0.out ++ _ ++ _ ++ _ = _
    simp [List.append_assoc]
  · show s'.trace = _
    rw [htr]; show s0.trace ++ _ ++ _ = _
    simp [List.append_assoc]

/-- **the events of the real run** (`C18Run.C04_run_rejected_filler` with what is printed) -/
theorem C04_run_rejected_out_filler (ho : RejOpts o name pname) (hreal : o.dryRun = false) (hs0 : CleanStart s0)
    (hrw : s0.rejWritten = [])
    (hname : name ≠ []) (hdir : s0.fs.dirExists (parentOf name) = true)
    (hfree : s0.fs.lookup (name ++ str ".rej") = none)
    (hrdirs : DirsThere s0.fs (name ++ str ".rej")) (hrdir : s0.fs.dirExists (parentOf (name ++ str ".rej")) = true)
    (hpn : pname ≠ []) (hpd : pname ≠ [45])
    (htarget : s0.fs.lookup name = some (.file bytes m)) (hw : m &&& writeMask ≠ 0)
    (hpatch : s0.fs.lookup pname = some (.file (patchText filler old new oldt newt [h]) pm))
    (hd : UnifiedDiff filler old new oldt newt [h])
    (hloc : locateHunk (splitLines bytes) h o.ignoreWhitespace 0 o.maxFuzz 0 = none)
    (hrloc : o.force = true ∨ locateHunk (splitLines bytes) (reverseHunk h) o.ignoreWhitespace 0 o.maxFuzz 0 = none) :
    (runPatch o s0).1 = 1 ∧
    (runPatch o s0).2.out = s0.out ++ [.file name false, .msg (.hunk 1 "FAILED" (expectedLine h) 0 0),
                                       .failed 1 1 false (some (name ++ str ".rej"))] := by
  obtain ⟨patch0, info, par1, par2, r, H, hfail, hskip, hmsgs, _, _, heof⟩ :=
    rejSection_of_diff' ho.base ho.rejectUnified hs0 hname htarget hw hd hloc hrloc
  obtain ⟨s', hrun, _, _, _, _, hhf, hout, hdone⟩ := processSection_rejected H (by rw [hfail]; decide) ho.noBackup
    ho.noMismatchBackup ho.noRejectFile hreal hdir (by show s0.rejWritten.contains _ = false; rw [hrw]; rfl) hfree hrdirs hrdir
  rw [runPatch_of_end ho.file hs0 hpn hpd hpatch hd s' par2 hrun hdone heof]
  refine ⟨by rw [hhf]; rfl, ?_⟩
  show s'.out = _
  rw [hout, hfail, hskip, hmsgs]
  show s0.out ++ _ ++ _ ++ _ = _
  simp [List.append_assoc]

end

/-! ### the statements for a diff of `name` against itself in the working directory, no filler -/

/-- **C15, end to end, a rejected hunk.**  `patch --dry-run -i pname name` in the situation of `C04_run_rejected`: exit status 1 —
    as in the real run —, the tree untouched (no reject file), the verdict reported without a reject-file name -/
theorem C15_run_rejected_dry (o : Options) (s0 : DState) (name pname bytes oldt newt : Bytes) (m pm : Nat) (h : Hunk)
    (ho : RejOpts o name pname) (hdry : o.dryRun = true) (hs0 : CleanStart s0)
    (hn : flatName name) (hpn : pname ≠ []) (hpd : pname ≠ [45])
    (htarget : s0.fs.lookup name = some (.file bytes m)) (hw : m &&& writeMask ≠ 0)
    (hot : stampOk oldt) (hnt : stampOk newt)
    (hpatch : s0.fs.lookup pname = some (.file (diffText name name oldt newt [h]) pm))
    (hh : DiffHunks [h])
    (hloc : locateHunk (splitLines bytes) h o.ignoreWhitespace 0 o.maxFuzz 0 = none)
    (hrloc : o.force = true ∨ locateHunk (splitLines bytes) (reverseHunk h) o.ignoreWhitespace 0 o.maxFuzz 0 = none) :
    (runPatch o s0).1 = 1 ∧
    (runPatch o s0).2.fs = s0.fs ∧
    (runPatch o s0).2.out = s0.out ++ [.file name true, .msg (.hunk 1 "FAILED" (expectedLine h) 0 0), .failed 1 1 false none] ∧
    (runPatch o s0).2.rejWritten = s0.rejWritten ∧ (runPatch o s0).2.backedUp = s0.backedUp :=
  have := C15_run_rejected_dry_filler (filler := []) ho.base ho.file ho.rejectUnified hdry hs0 hn.1 hpn hpd htarget hw hpatch
    (unifiedDiff_of_flat hn hot hnt hh) hloc hrloc
  ⟨this.1, this.2.1, this.2.2.1, this.2.2.2.1, this.2.2.2.2.1⟩

theorem flat_rej {name : Bytes} (hn : flatName name) : ∀ c ∈ name ++ str ".rej", c ≠ SLASHB := by
  intro c hc
  rcases List.mem_append.1 hc with h1 | h1
  · exact hn.2.1 c h1
  · rw [str_rej] at h1
    intro e; subst e
    revert h1; decide

/-- the events of the real run of `C04_run_rejected` -/
theorem C04_run_rejected_out (o : Options) (s0 : DState) (name pname bytes oldt newt : Bytes) (m pm : Nat) (h : Hunk)
    (ho : RejOpts o name pname) (hreal : o.dryRun = false) (hs0 : CleanStart s0)
    (hrw : s0.rejWritten = [])
    (hn : flatName name) (hfree : s0.fs.lookup (name ++ str ".rej") = none) (hpn : pname ≠ []) (hpd : pname ≠ [45])
    (htarget : s0.fs.lookup name = some (.file bytes m)) (hw : m &&& writeMask ≠ 0)
    (hot : stampOk oldt) (hnt : stampOk newt)
    (hpatch : s0.fs.lookup pname = some (.file (diffText name name oldt newt [h]) pm))
    (hh : DiffHunks [h])
    (hloc : locateHunk (splitLines bytes) h o.ignoreWhitespace 0 o.maxFuzz 0 = none)
    (hrloc : o.force = true ∨ locateHunk (splitLines bytes) (reverseHunk h) o.ignoreWhitespace 0 o.maxFuzz 0 = none) :
    (runPatch o s0).1 = 1 ∧
    (runPatch o s0).2.out = s0.out ++ [.file name false, .msg (.hunk 1 "FAILED" (expectedLine h) 0 0),
                                       .failed 1 1 false (some (name ++ str ".rej"))] :=
  C04_run_rejected_out_filler (filler := []) ho hreal hs0 hrw hn.1 (dirExists_parent_of_noSlash s0.fs hn.2.1) hfree
    (dirsThere_flat s0.fs (flat_rej hn)) (dirExists_parent_of_noSlash s0.fs (flat_rej hn)) hpn hpd htarget hw hpatch
    (unifiedDiff_of_flat hn hot hnt hh) hloc hrloc

/-- the events of `C01_run` (the hunks fit): "patching file name", nothing else -/
theorem C01_run_out (o : Options) (s0 : DState) (name pname bytes oldt newt : Bytes) (m pm : Nat) (hs : List Hunk)
    (ho : RunOpts o name pname) (hreal : o.dryRun = false) (hs0 : CleanStart s0)
    (hn : flatName name) (hpn : pname ≠ []) (hpd : pname ≠ [45])
    (htarget : s0.fs.lookup name = some (.file bytes m)) (hw : m &&& writeMask ≠ 0)
    (hot : stampOk oldt) (hnt : stampOk newt)
    (hpatch : s0.fs.lookup pname = some (.file (diffText name name oldt newt hs) pm))
    (hh : DiffHunks hs) (hvalid : Valid (splitLines bytes) 0 0 hs) :
    (runPatch o s0).1 = 0 ∧ (runPatch o s0).2.out = s0.out ++ [.file name false] := by
  have hd := unifiedDiff_of_flat hn hot hnt hh
  obtain ⟨patch0, info, par1, par2, r, H, _, heof⟩ := plainSection_of_diff ho hs0 hn.1 htarget hw hd hvalid
  obtain ⟨s', hrun, _, _, hdone⟩ := processSection_clean H hreal (dirExists_parent_of_noSlash _ hn.2.1)
  rw [runPatch_of_section (filler := []) ho.file hs0 hpn hpd hpatch hd s' par2 false hrun hdone heof]
  exact ⟨rfl, hdone.out⟩

/-- the events of `C15_run_dry`: "checking file name", nothing else -/
theorem C15_run_dry_out (o : Options) (s0 : DState) (name pname bytes oldt newt : Bytes) (m pm : Nat) (hs : List Hunk)
    (ho : RunOpts o name pname) (hdry : o.dryRun = true) (hs0 : CleanStart s0)
    (hn : flatName name) (hpn : pname ≠ []) (hpd : pname ≠ [45])
    (htarget : s0.fs.lookup name = some (.file bytes m)) (hw : m &&& writeMask ≠ 0)
    (hot : stampOk oldt) (hnt : stampOk newt)
    (hpatch : s0.fs.lookup pname = some (.file (diffText name name oldt newt hs) pm))
    (hh : DiffHunks hs) (hvalid : Valid (splitLines bytes) 0 0 hs) :
    (runPatch o s0).1 = 0 ∧ (runPatch o s0).2.fs = s0.fs ∧ (runPatch o s0).2.out = s0.out ++ [.file name true] := by
  have hd := unifiedDiff_of_flat hn hot hnt hh
  obtain ⟨patch0, info, par1, par2, r, H, _, heof⟩ := plainSection_of_diff ho hs0 hn.1 htarget hw hd hvalid
  obtain ⟨s', hrun, hfs, _, hdone⟩ := processSection_clean_dry H hdry
  rw [runPatch_of_section (filler := []) ho.file hs0 hpn hpd hpatch hd s' par2 true hrun hdone heof]
  exact ⟨rfl, hfs, hdone.out⟩

/-! ### fidelity -/

/-- what a verdict says beyond what only a real run can say: the announcement without its patching/checking flag, the summary
    of the failures without the name of the reject file -/
def verdict : DEv → DEv
  | .file p _ => .file p false
  | .failed n t i _ => .failed n t i none
  | e => e

/-- the options with `--dry-run` added -/
abbrev dry (o : Options) : Options := { o with dryRun := true }

theorem rejOpts_dry {o : Options} {name pname : Bytes} (ho : RejOpts o name pname) : RejOpts (dry o) name pname :=
  { base := { operand := ho.base.operand, noOut := ho.base.noOut, noReverse := ho.base.noReverse, noDefine := ho.base.noDefine,
              fuzz := ho.base.fuzz, quiet := ho.base.quiet },
    noBackup := ho.noBackup, noMismatchBackup := ho.noMismatchBackup, noRejectFile := ho.noRejectFile,
    rejectUnified := ho.rejectUnified,
    file := { patchFile := ho.file.patchFile, noDir := ho.file.noDir, noHelp := ho.file.noHelp, noVersion := ho.file.noVersion,
              noContext := ho.file.noContext, noNormal := ho.file.noNormal, noEd := ho.file.noEd } }

theorem runOpts_of_rejOpts {o : Options} {name pname : Bytes} (ho : RejOpts o name pname) : RunOpts o name pname :=
  { plain := { operand := ho.base.operand, noOut := ho.base.noOut, noBackup := ho.noBackup, noReverse := ho.base.noReverse,
               noDefine := ho.base.noDefine, fuzz := ho.base.fuzz, quiet := ho.base.quiet },
    file := ho.file }

/-- **C15, fidelity for a one-hunk patch.**  `patch -i pname name` and `patch --dry-run -i pname name` on the same tree, `pname`
    a one-hunk unified diff of `name`, in BOTH outcomes — the hunk is a valid script of the target (`Valid`), or it can be placed
    nowhere (`locateHunk … = none`, and not reversed either, or `-f`):
    the dry run ends with the exit status of the real run (0, resp. 1), reports the same verdicts, and leaves the tree alone. -/
theorem C15_fidelity_one_hunk (o : Options) (s0 : DState) (name pname bytes oldt newt : Bytes) (m pm : Nat) (h : Hunk)
    (ho : RejOpts o name pname) (hreal : o.dryRun = false) (hs0 : CleanStart s0)
    (hrw : s0.rejWritten = [])
    (hn : flatName name) (hfree : s0.fs.lookup (name ++ str ".rej") = none) (hpn : pname ≠ []) (hpd : pname ≠ [45])
    (htarget : s0.fs.lookup name = some (.file bytes m)) (hw : m &&& writeMask ≠ 0)
    (hot : stampOk oldt) (hnt : stampOk newt)
    (hpatch : s0.fs.lookup pname = some (.file (diffText name name oldt newt [h]) pm))
    (hh : DiffHunks [h])
    (hcase : Valid (splitLines bytes) 0 0 [h] ∨
      (locateHunk (splitLines bytes) h o.ignoreWhitespace 0 o.maxFuzz 0 = none ∧
       (o.force = true ∨ locateHunk (splitLines bytes) (reverseHunk h) o.ignoreWhitespace 0 o.maxFuzz 0 = none))) :
    (runPatch (dry o) s0).1 = (runPatch o s0).1 ∧
    (runPatch (dry o) s0).2.out.map verdict = (runPatch o s0).2.out.map verdict ∧
    (runPatch (dry o) s0).2.fs = s0.fs ∧
    ((runPatch o s0).1 = 0 ∨ (runPatch o s0).1 = 1) := by
  rcases hcase with hvalid | ⟨hloc, hrloc⟩
  · have hr := C01_run_out o s0 name pname bytes oldt newt m pm [h] (runOpts_of_rejOpts ho) hreal hs0 hn hpn hpd htarget hw hot hnt
      hpatch hh hvalid
    have hd := C15_run_dry_out (dry o) s0 name pname bytes oldt newt m pm [h] (runOpts_of_rejOpts (rejOpts_dry ho)) rfl hs0 hn hpn hpd
      htarget hw hot hnt hpatch hh hvalid
    refine ⟨by rw [hd.1, hr.1], ?_, hd.2.1, Or.inl hr.1⟩
    rw [hd.2.2, hr.2]
    simp [verdict]
  · have hr := C04_run_rejected_out o s0 name pname bytes oldt newt m pm h ho hreal hs0 hrw hn hfree hpn hpd htarget hw hot hnt
      hpatch hh hloc hrloc
    have hd := C15_run_rejected_dry (dry o) s0 name pname bytes oldt newt m pm h (rejOpts_dry ho) rfl hs0 hn hpn hpd
      htarget hw hot hnt hpatch hh hloc hrloc
    refine ⟨by rw [hd.1, hr.1], ?_, hd.2.1, Or.inr hr.1⟩
    rw [hd.2.2.1, hr.2]
    simp [verdict]

/-! ## non-vacuity: concrete runs

The rejected run of `C18Run.Rejected` (`f` = "x\ny\nz\n", the diff changes `b` to `B` between `a` and `c`) and the clean run of
`C01.Instance` (`f` = "a\nb\nc\n", the same diff), with and without `--dry-run`.  Every hypothesis is discharged by evaluation in
the kernel; independently the executable model is run on the same states (`#guard`). -/
namespace Instance
open PatchModel.C01.Instance (name pname bytes oldt newt hk diffHunks)
open PatchModel.C18Run.Rejected (o xyz rejOpts)

abbrev sRej : DState := PatchModel.C18Run.Rejected.s0
abbrev sOk : DState := PatchModel.C01.Instance.s0

/-- **`C15_run_rejected_dry` applies** (all hypotheses discharged in the kernel): exit status 1, the tree untouched, the three
    events, nothing recorded -/
theorem rejected_dry_applies :
    (runPatch (dry o) sRej).1 = 1 ∧ (runPatch (dry o) sRej).2.fs = sRej.fs ∧
    (runPatch (dry o) sRej).2.out = [.file name true, .msg (.hunk 1 "FAILED" 1 0 0), .failed 1 1 false none] ∧
    (runPatch (dry o) sRej).2.rejWritten = [] ∧ (runPatch (dry o) sRej).2.backedUp = [] :=
  C15_run_rejected_dry (dry o) sRej name pname xyz oldt newt 0o644 0o644 hk (rejOpts_dry rejOpts) rfl ⟨rfl, rfl, rfl, rfl, rfl, rfl⟩
    (by decide) (by decide) (by decide) rfl (by decide) (by decide) (by decide) rfl diffHunks
    (by decide +kernel) (Or.inr (by decide +kernel))

/-- **`C15_fidelity_one_hunk` applies, the hunk is rejected**: both runs end with exit status 1 -/
theorem fidelity_rejected_applies :
    (runPatch (dry o) sRej).1 = (runPatch o sRej).1 ∧
    (runPatch (dry o) sRej).2.out.map verdict = (runPatch o sRej).2.out.map verdict ∧
    (runPatch (dry o) sRej).2.fs = sRej.fs ∧ ((runPatch o sRej).1 = 0 ∨ (runPatch o sRej).1 = 1) :=
  C15_fidelity_one_hunk o sRej name pname xyz oldt newt 0o644 0o644 hk rejOpts rfl ⟨rfl, rfl, rfl, rfl, rfl, rfl⟩ rfl
    (by decide) (by rw [str_rej]; decide) (by decide) (by decide) rfl (by decide) (by decide) (by decide) rfl diffHunks
    (Or.inr ⟨by decide +kernel, Or.inr (by decide +kernel)⟩)

/-- **… and when the hunk fits**: both runs end with exit status 0 -/
theorem fidelity_clean_applies :
    (runPatch (dry o) sOk).1 = (runPatch o sOk).1 ∧
    (runPatch (dry o) sOk).2.out.map verdict = (runPatch o sOk).2.out.map verdict ∧
    (runPatch (dry o) sOk).2.fs = sOk.fs ∧ ((runPatch o sOk).1 = 0 ∨ (runPatch o sOk).1 = 1) :=
  C15_fidelity_one_hunk o sOk name pname bytes oldt newt 0o644 0o644 hk rejOpts rfl ⟨rfl, rfl, rfl, rfl, rfl, rfl⟩ rfl
    (by decide) (by rw [str_rej]; decide) (by decide) (by decide) rfl (by decide) (by decide) (by decide) rfl diffHunks
    (Or.inl (validB_sound _ _ _ _ (by decide)))

-- independently: the executable model
#guard (runPatch (dry o) sRej).1 == 1 && (runPatch o sRej).1 == 1
#guard (runPatch (dry o) sRej).2.fs.nodes == sRej.fs.nodes
#guard ((runPatch (dry o) sRej).2.fs.lookup (str "f.rej")).isNone && ((runPatch o sRej).2.fs.lookup (str "f.rej")).isSome
#guard (runPatch (dry o) sRej).2.out == [.file name true, .msg (.hunk 1 "FAILED" 1 0 0), .failed 1 1 false none]
#guard (runPatch o sRej).2.out == [.file name false, .msg (.hunk 1 "FAILED" 1 0 0), .failed 1 1 false (some (str "f.rej"))]
#guard (runPatch (dry o) sRej).2.out.map verdict == (runPatch o sRej).2.out.map verdict
#guard (runPatch (dry o) sRej).2.trace == [.tmpCreate, .tmpUnlink, .tmpCreate, .tmpUnlink]
#guard (runPatch (dry o) sRej).2.rejWritten.isEmpty && (runPatch (dry o) sRej).2.backedUp.isEmpty
#guard (runPatch (dry o) sOk).1 == 0 && (runPatch o sOk).1 == 0 && (runPatch (dry o) sOk).2.fs.nodes == sOk.fs.nodes &&
  (runPatch (dry o) sOk).2.out == [.file name true] && (runPatch o sOk).2.out == [.file name false]
-- `-b`, `-r other`, `--backup-if-mismatch`, an existing `f.rej`: nothing of that matters to the dry run (`C15_run_rejected_dry_filler`)
def oAll : Options := { dry o with saveBackup := true, backupIfMismatch := .yes, rejectFile := str "other.rej" }
def sTaken : DState := { sRej with fs := { sRej.fs with nodes := sRej.fs.nodes ++ [(str "f.rej", .file (str "old\n") 0o600)] } }
#guard (runPatch oAll sTaken).1 == 1 && (runPatch oAll sTaken).2.fs.nodes == sTaken.fs.nodes &&
  (runPatch oAll sTaken).2.out == [.file name true, .msg (.hunk 1 "FAILED" 1 0 0), .failed 1 1 false none]

end Instance

end PatchModel.C15Run

#print axioms PatchModel.C15Run.C15_run_rejected_dry_filler
#print axioms PatchModel.C15Run.C15_run_rejected_dry
#print axioms PatchModel.C15Run.C04_run_rejected_out
#print axioms PatchModel.C15Run.C01_run_out
#print axioms PatchModel.C15Run.C15_run_dry_out
#print axioms PatchModel.C15Run.C15_fidelity_one_hunk
#print axioms PatchModel.C15Run.Instance.rejected_dry_applies
#print axioms PatchModel.C15Run.Instance.fidelity_rejected_applies
#print axioms PatchModel.C15Run.Instance.fidelity_clean_applies
