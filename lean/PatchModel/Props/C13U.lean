/-
  C13 — reject files are valid patches that carry exactly the failed changes: writing any hunk in unified or
  context form and reading it back never changes the change it denotes.
-/
import PatchModel.Spec.Diff
import PatchModel.Lemmas.Unified
namespace PatchModel.C13
open PatchModel

/-- printing a line number and reading it back -/
theorem number_roundtrip (n : Nat) (hn : (n : Int) ≤ i64Max / 4) (rest : Bytes) (cur : Int)
    (hrest : ∀ c, rest.head? = some c → isDigit c = false) :
    consumeLineNumber (intDigits (n : Int) ++ rest) cur = (true, (n : Int), rest) := by
  exact Unified.number_roundtrip n hn rest cur hrest

/-- the unified range line round trip -/
theorem unified_range_roundtrip (h : Hunk) (h0 : Hunk)
    (hos : 0 ≤ h.old.start) (hoc : 0 ≤ h.old.count) (hns : 0 ≤ h.new.start) (hnc : 0 ≤ h.new.count)
    (hob : h.old.start ≤ i64Max / 4) (hocb : h.old.count ≤ i64Max / 4) (hnb : h.new.start ≤ i64Max / 4) (hncb : h.new.count ≤ i64Max / 4) :
    parseUnifiedRange h0
      (str "@@ -" ++ intDigits h.old.start ++ (if h.old.count ≠ 1 then [44] ++ intDigits h.old.count else [])
        ++ str " +" ++ intDigits h.new.start ++ (if h.new.count ≠ 1 then [44] ++ intDigits h.new.count else [])
        ++ str " @@")
    = (true, { h0 with old := h.old, new := h.new }) := by
  exact Unified.unified_range_roundtrip h h0 hos hoc hns hnc hob hocb hnb hncb

/-- **unified round trip, exact**: any list of writable hunks, written by `write_hunk_as_unified` and followed by anything
    that is not itself a hunk, is read back by `parse_unified_patch` as those very hunks — operations, contents, ranges
    and the terminator class (LF, CR LF, none) of every line —, and the stream is left exactly at what followed.

    (Up to the fix "a line that came with CR LF is written with CR LF" the writer ended every line with LF and the hunks
    came back as `hs.map Hunk.normNl`, the LF/CRLF class forgotten; that statement is false now for hunks with CR LF lines
    — they come back as they are — and is kept in its true form as `unified_roundtrip_normNl`.
    `Hunk.writable` asks of every line that its content has no LF and does not end in CR — the invariant of the reader
    (C14 `splitLines_lf_noCR`) —, and that a missing newline is only said of the last line of a side.) -/
theorem unified_roundtrip (hs : List Hunk) (hne : hs ≠ []) (hw : ∀ h ∈ hs, h.writable = true)
    (tail : List Line) (ht : tailOkUnified tail = true) (lineNo : Nat) :
    ∃ par', parseUnifiedBody { s := { rest := splitLines (hs.flatMap writeHunkUnified) ++ tail }, lineNo := lineNo }
        = .ok (hs, par') ∧ par'.s.rest = tail := by
  exact Unified.unified_roundtrip hs hne hw tail ht lineNo

/-- the round trip with the LF/CRLF class forgotten (the statement of `unified_roundtrip` before the writer kept CR LF):
    a corollary of the exact one -/
theorem unified_roundtrip_normNl (hs : List Hunk) (hne : hs ≠ []) (hw : ∀ h ∈ hs, h.writable = true)
    (tail : List Line) (ht : tailOkUnified tail = true) (lineNo : Nat) :
    ∃ hs' par', parseUnifiedBody { s := { rest := splitLines (hs.flatMap writeHunkUnified) ++ tail }, lineNo := lineNo }
        = .ok (hs', par') ∧ hs'.map Hunk.normNl = hs.map Hunk.normNl ∧ par'.s.rest = tail := by
  exact Unified.unified_roundtrip_normNl hs hne hw tail ht lineNo

/-- a hunk with one CR LF terminated context line -/
def crlfHunk : Hunk := ⟨⟨1, 1⟩, ⟨1, 1⟩, [⟨SP, ⟨[97], .crlf⟩⟩]⟩

/-- the statement of `unified_roundtrip` before the fix (the hunks come back as `hs.map Hunk.normNl`) is false now:
    a hunk with a CR LF line comes back with its CR LF line -/
theorem unified_roundtrip_normNl_form_false :
    ¬ ∀ (hs : List Hunk), hs ≠ [] → (∀ h ∈ hs, h.writable = true) →
      ∀ (tail : List Line), tailOkUnified tail = true → ∀ (lineNo : Nat),
      ∃ par', parseUnifiedBody { s := { rest := splitLines (hs.flatMap writeHunkUnified) ++ tail }, lineNo := lineNo }
        = .ok (hs.map Hunk.normNl, par') ∧ par'.s.rest = tail := by
  intro hold
  have hw : ∀ h ∈ [crlfHunk], h.writable = true := by
    intro h hh
    simp only [List.mem_singleton] at hh
    subst hh
    decide
  obtain ⟨p1, h1, _⟩ := hold [crlfHunk] (by simp) hw [] rfl 1
  obtain ⟨p2, h2, _⟩ := unified_roundtrip [crlfHunk] (by simp) hw [] rfl 1
  rw [h2] at h1
  simp only [Except.ok.injEq, Prod.mk.injEq] at h1
  exact absurd h1.1 (by decide)

/-! ### a last line that ends in a bare CR -/

/-- NEW (`mark_as_unterminated`: the `\ No newline at end of file` marker keeps the CR of the line before it).
    **Unified round trip, exact, for a wider class of hunks** (`Unified.writableCR`: as `Hunk.writable`, but only a line
    that ends in LF must not end in CR — `Unified.okLine` in place of `plainLine`): a line without newline whose content
    ends in CR — the last line of a file that ends in a bare CR — is written `content LF` + marker, i.e. as a CR LF
    terminated line, and read back with its CR: the marker says that there is no newline after the line, so the CR is not
    part of one.  Before the change it came back without its CR (`c CR` as `c`), silently.
    `unified_roundtrip` is the special case of hunks none of whose lines ends in CR. -/
theorem unified_roundtrip_cr (hs : List Hunk) (hne : hs ≠ []) (hw : ∀ h ∈ hs, Unified.writableCR h = true)
    (tail : List Line) (ht : tailOkUnified tail = true) (lineNo : Nat) :
    ∃ par', parseUnifiedBody { s := { rest := splitLines (hs.flatMap writeHunkUnified) ++ tail }, lineNo := lineNo }
        = .ok (hs, par') ∧ par'.s.rest = tail :=
  Unified.unified_roundtrip_cr hs hne hw tail ht lineNo

/-- every writable hunk is in the wider class -/
theorem writableCR_of_writable (h : Hunk) (hw : h.writable = true) : Unified.writableCR h = true :=
  Unified.writableCR_of_writable hw

/-- the case by itself: a hunk whose last line is `content CR` without newline (whatever comes before it), in the text:
    that line stands there as `op content` + CR LF, followed by the marker line — and the hunk is read back as it is -/
theorem bare_cr_roundtrip (o nw : Range) (pre : List PatchLine) (op : UInt8) (content : Bytes)
    (hw : Unified.writableCR ⟨o, nw, pre ++ [⟨op, ⟨content ++ [CR], .none⟩⟩]⟩ = true)
    (tail : List Line) (ht : tailOkUnified tail = true) (lineNo : Nat) :
    splitLines (writeHunkUnified ⟨o, nw, pre ++ [⟨op, ⟨content ++ [CR], .none⟩⟩]⟩) =
        ⟨Unified.rangeText ⟨o, nw, pre ++ [⟨op, ⟨content ++ [CR], .none⟩⟩]⟩, .lf⟩ ::
          (Unified.bodyLinesG Unified.wire pre ++ [⟨op :: content, .crlf⟩, Unified.markerLine]) ∧
    ∃ par', parseUnifiedBody { s := { rest := splitLines (writeHunkUnified ⟨o, nw, pre ++ [⟨op, ⟨content ++ [CR], .none⟩⟩]⟩) ++ tail },
                               lineNo := lineNo }
        = .ok ([⟨o, nw, pre ++ [⟨op, ⟨content ++ [CR], .none⟩⟩]⟩], par') ∧ par'.s.rest = tail := by
  have hsp := Unified.writableCR_spec _ hw
  have htext := Unified.splitLines_hunksW [⟨o, nw, pre ++ [⟨op, ⟨content ++ [CR], .none⟩⟩]⟩]
    (fun h hh => by simp only [List.mem_singleton] at hh; subst hh; exact hsp.1.1)
    (fun h hh => by simp only [List.mem_singleton] at hh; subst hh; exact hsp.2)
  simp only [List.flatMap_cons, List.flatMap_nil, List.append_nil] at htext
  have hwire : Unified.wire ⟨content ++ [CR], .none⟩ = ⟨content, .crlf⟩ := by
    simp only [Unified.wire, if_true, Unified.mkLine_cr]
  have hbody : ∀ pre : List PatchLine, Unified.bodyLinesG Unified.wire (pre ++ [⟨op, ⟨content ++ [CR], .none⟩⟩]) =
      Unified.bodyLinesG Unified.wire pre ++ [⟨op :: content, .crlf⟩, Unified.markerLine] := by
    intro pre
    induction pre with
    | nil => simp [Unified.bodyLinesG, hwire]
    | cons a r ih => simp only [List.cons_append, Unified.bodyLinesG, ih, List.append_assoc]
  refine ⟨by rw [htext, Unified.hunkLinesG, hbody], ?_⟩
  have := unified_roundtrip_cr [⟨o, nw, pre ++ [⟨op, ⟨content ++ [CR], .none⟩⟩]⟩] (by simp)
    (fun h hh => by simp only [List.mem_singleton] at hh; subst hh; exact hw) tail ht lineNo
  simpa using this

/-- the hunk `@@ -1 +1 @@` / `-a CR` (no newline) / `+b`: the old last line of the file ends in a bare CR -/
def bareCrHunk : Hunk := ⟨⟨1, 1⟩, ⟨1, 1⟩, [⟨MINUS, ⟨[97, CR], .none⟩⟩, ⟨PLUS, ⟨[98], .lf⟩⟩]⟩

-- it is not `writable` (so `unified_roundtrip` said nothing about it) but it is in the wider class …
example : bareCrHunk.writable = false := by decide
example : Unified.writableCR bareCrHunk = true := by decide
-- … so it is read back as it is (kernel-checked instance of the theorem), CR included …
example : ∃ par', parseUnifiedBody { s := { rest := splitLines (writeHunkUnified bareCrHunk) }, lineNo := 1 }
    = .ok ([bareCrHunk], par') := by
  obtain ⟨par', h, _⟩ := unified_roundtrip_cr [bareCrHunk] (by simp)
    (fun h hh => by simp only [List.mem_singleton] at hh; subst hh; decide) [] rfl 1
  exact ⟨par', by simpa using h⟩
-- … the same by running the model (compiled evaluation), with the text it is read from
#guard writeHunkUnified bareCrHunk == str "@@ -1 +1 @@\n-a\r\n\\ No newline at end of file\n+b\n"
#guard (match parseUnifiedBody { s := { rest := splitLines (writeHunkUnified bareCrHunk) } } with
  | .ok (hs, _) => hs == [bareCrHunk]
  | _ => false)

/-- why a line that ends in LF must still not end in CR (`Unified.okLine`): the hunk with the line `a CR` + LF … -/
def lfCrHunk : Hunk := ⟨⟨1, 1⟩, ⟨1, 1⟩, [⟨SP, ⟨[97, CR], .lf⟩⟩]⟩

/-- … is written with the very bytes of the hunk with the line `a` + CR LF (`crlfHunk`), so it is read back as that one:
    the reader (C14 `splitLines_lf_noCR`) never makes a line `c CR` + LF, and no statement of the round trip can include it -/
theorem lf_line_ending_in_cr_not_faithful :
    writeHunkUnified lfCrHunk = writeHunkUnified crlfHunk ∧ lfCrHunk ≠ crlfHunk ∧
    ∃ par', parseUnifiedBody { s := { rest := splitLines (writeHunkUnified lfCrHunk) }, lineNo := 1 } = .ok ([crlfHunk], par') := by
  have e : writeHunkUnified lfCrHunk = writeHunkUnified crlfHunk := by
    simp [writeHunkUnified, lfCrHunk, crlfHunk, lineEnd]
  refine ⟨e, by decide, ?_⟩
  obtain ⟨par', h, _⟩ := unified_roundtrip [crlfHunk] (by simp)
    (fun h hh => by simp only [List.mem_singleton] at hh; subst hh; decide) [] rfl 1
  rw [e]
  exact ⟨par', by simpa using h⟩

/-- the text of emitted hunks, line by line: the range line, then every hunk line with the terminator it came with
    (`Unified.wireNl`: CR LF for a `.crlf` line, LF otherwise), a line without newline followed by the marker line -/
theorem unified_text_lines (hs : List Hunk) (hw : ∀ h ∈ hs, h.writable = true) :
    splitLines (hs.flatMap writeHunkUnified) = hs.flatMap Unified.hunkLines := by
  exact Unified.splitLines_hunks hs (fun h hh => (Unified.writable_spec h (hw h hh)).1)
    (fun h hh => (Unified.writable_spec h (hw h hh)).2.2.2.2.1)

/-- in that text the line after a hunk line is a `\` line exactly when the hunk line lacks its newline
    (`rest`: the hunk lines that follow, `after`: what follows the hunk — a range line or the tail) -/
theorem marker_follows_iff_none (pl : PatchLine) (rest : List PatchLine) (after : List Line)
    (hops : ∀ x ∈ rest, x.op = SP ∨ x.op = PLUS ∨ x.op = MINUS) (hafter : Unified.AfterOK after) :
    (∃ l, (Unified.bodyLines (pl :: rest) ++ after)[1]? = some l ∧ l.content.head? = some BACKSLASH) ↔
      pl.line.newline = .none := by
  exact Unified.marker_follows_iff_none pl rest after hops hafter

/-- **only the marker makes a hunk line end without newline**: whatever the text is — the last line of a patch whose own
    final newline went missing included —, if none of its lines begins with a backslash then no line of the hunks
    `parse_unified_patch` reads from it has `newline = .none`.  (Before the fix the last line of such a text was taken
    for a line without newline.) -/
theorem none_only_by_marker (par : Parser) (hs : List Hunk) (par' : Parser)
    (h : parseUnifiedBody par = .ok (hs, par'))
    (hnb : ∀ l ∈ par.s.rest, l.content.head? ≠ some BACKSLASH) :
    ∀ hk ∈ hs, ∀ pl ∈ hk.lines, pl.line.newline ≠ .none := by
  exact Unified.parseUnifiedBody_noNone par hs par' h hnb

/-- **the final newline of the patch text does not matter**: `parse_unified_patch` reads the same hunks (or fails in the same
    way) from a text and from that text without the newline of its last line (`c`: the content of the last line, `ls`: the
    lines before it).  (Before the fix the last line of such a text came back as a line without newline.)
    `hcr` (with the model, D85): the text without that newline does not end in a bare CR — that CR is what is left of a
    CR LF, not a byte of the line: `unified_final_cr_is_crlf`. -/
theorem unified_final_newline_irrelevant (ls : List Line) (c : Bytes) (n : Nat) (hls : ∀ l ∈ ls, l.newline ≠ .none)
    (hcr : c.getLast? ≠ some CR) :
    (parseUnifiedBody ⟨⟨ls ++ [⟨c, .none⟩], false, false⟩, n⟩).map (·.1)
      = (parseUnifiedBody ⟨⟨ls ++ [⟨c, .lf⟩], false, false⟩, n⟩).map (·.1) := by
  exact Unified.parseUnifiedBody_final_newline ls c n hls hcr

/-- NEW (D85): **a CR at the very end of the patch text is what is left of a CR LF**: `parse_unified_patch` reads the same hunks
    (or fails in the same way) from a text that ends in a bare CR and from that text with the LF after it.  Together with
    `unified_final_newline_irrelevant`: the LF of the last line of the patch text never matters. -/
theorem unified_final_cr_is_crlf (ls : List Line) (c : Bytes) (n : Nat) (hls : ∀ l ∈ ls, l.newline ≠ .none) :
    (parseUnifiedBody ⟨⟨ls ++ [⟨c ++ [CR], .none⟩], false, false⟩, n⟩).map (·.1)
      = (parseUnifiedBody ⟨⟨ls ++ [⟨c, .crlf⟩], false, false⟩, n⟩).map (·.1) := by
  exact Unified.parseUnifiedBody_final_cr ls c n hls

-- why `unified_final_newline_irrelevant` needs `hcr`: `@@ -0,0 +1 @@` / `+a CR`, the newline of the last line missing, is read
-- as the added line `a` + CR LF; with the last line as `+a CR` + LF (a line the reader never makes, C14 `splitLines_lf_noCR`)
-- the added line is `a CR` + LF
#guard (match parseUnifiedBody ⟨⟨[⟨str "@@ -0,0 +1 @@", .lf⟩, ⟨[PLUS, 97, CR], .none⟩], false, false⟩, 1⟩,
              parseUnifiedBody ⟨⟨[⟨str "@@ -0,0 +1 @@", .lf⟩, ⟨[PLUS, 97, CR], .lf⟩], false, false⟩, 1⟩ with
  | .ok (h1, _), .ok (h2, _) =>
    h1 == [⟨⟨0, 0⟩, ⟨1, 1⟩, [⟨PLUS, ⟨[97], .crlf⟩⟩]⟩] && h2 == [⟨⟨0, 0⟩, ⟨1, 1⟩, [⟨PLUS, ⟨[97, CR], .lf⟩⟩]⟩]
  | _, _ => false)

/-- the reject writer's format choice: unified when asked for, or by default for unified and git input; context otherwise -/
theorem reject_format_choice (fmt : RejectFormat) (pf : Format) :
    rejectAsUnified fmt pf = true ↔
      (fmt = .unified ∨ (fmt = .default ∧ (pf = .unified ∨ pf = .git))) := by
  unfold rejectAsUnified
  simp

/-- the reject bytes of a run are the header followed by the rejected hunks, in their original order, each written by the
    formatter of the chosen format (context hunks separated by the stars line) -/
theorem reject_bytes_layout (file : List Line) (p0 : Patch) (o : ApplyOpts) (tty : Option (List Bool)) (r : ApplyResult)
    (hr : applyPatch file p0 o tty = .ok r) (hne : r.rejected ≠ []) :
    (rejectAsUnified o.rejectFormat r.patch.format = true →
      r.rejBytes = writeHeaderUnified r.patch ++ (r.rejected.map (·.2)).flatMap writeHunkUnified) ∧
    (rejectAsUnified o.rejectFormat r.patch.format = false →
      ∃ body, ctxRejectBody (r.rejected.map (·.2)) = .ok body ∧
        r.rejBytes = str "*** " ++ r.patch.oldPath
            ++ (if r.patch.oldTime ≠ [] ∧ r.patch.oldPath ≠ devNull then [TAB] ++ r.patch.oldTime else []) ++ [NL]
          ++ str "--- " ++ r.patch.newPath
            ++ (if r.patch.newTime ≠ [] ∧ r.patch.newPath ≠ devNull then [TAB] ++ r.patch.newTime else []) ++ [NL]
          ++ starsLine ++ body) ∧
    List.Pairwise (· < ·) (r.rejected.map (·.1)) := by
  exact Unified.reject_bytes_layout file p0 o tty r hr hne

end PatchModel.C13
