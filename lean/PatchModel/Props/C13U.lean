/-
  C13 — reject files are valid patches that carry exactly the failed changes: writing any hunk in unified or
  context form and reading it back never changes the change it denotes.
-/
import PatchModel.Spec.Diff
import PatchModel.Lemmas.Unified
namespace PatchModel.C13
open PatchModel

/-- printing a line number and reading it back -/
theorem number_roundtrip (n : Nat) (hn : (n : Int) ≤ i64Max / 4) (rest : Bytes) (cur : Int)
    (hrest : ∀ c, rest.head? = some c → isDigit c = false) :
    consumeLineNumber (intDigits (n : Int) ++ rest) cur = (true, (n : Int), rest) := by
  exact Unified.number_roundtrip n hn rest cur hrest

/-- the unified range line round trip -/
theorem unified_range_roundtrip (h : Hunk) (h0 : Hunk)
    (hos : 0 ≤ h.old.start) (hoc : 0 ≤ h.old.count) (hns : 0 ≤ h.new.start) (hnc : 0 ≤ h.new.count)
    (hob : h.old.start ≤ i64Max / 4) (hocb : h.old.count ≤ i64Max / 4) (hnb : h.new.start ≤ i64Max / 4) (hncb : h.new.count ≤ i64Max / 4) :
    parseUnifiedRange h0
      (str "@@ -" ++ intDigits h.old.start ++ (if h.old.count ≠ 1 then [44] ++ intDigits h.old.count else [])
        ++ str " +" ++ intDigits h.new.start ++ (if h.new.count ≠ 1 then [44] ++ intDigits h.new.count else [])
        ++ str " @@")
    = (true, { h0 with old := h.old, new := h.new }) := by
  exact Unified.unified_range_roundtrip h h0 hos hoc hns hnc hob hocb hnb hncb

/-- **unified round trip**: any list of writable hunks, written by `write_hunk_as_unified` and followed by anything that
    is not itself a hunk, is read back by `parse_unified_patch` as the same hunks (LF/CRLF class forgotten), and the
    stream is left exactly at what followed. -/
theorem unified_roundtrip (hs : List Hunk) (hne : hs ≠ []) (hw : ∀ h ∈ hs, h.writable = true)
    (tail : List Line) (ht : tailOkUnified tail = true) (lineNo : Nat) :
    ∃ par', parseUnifiedBody { s := { rest := splitLines (hs.flatMap writeHunkUnified) ++ tail }, lineNo := lineNo }
        = .ok (hs.map Hunk.normNl, par') ∧ par'.s.rest = tail := by
  exact Unified.unified_roundtrip hs hne hw tail ht lineNo

/-- the reject writer's format choice: unified when asked for, or by default for unified and git input; context otherwise -/
theorem reject_format_choice (fmt : RejectFormat) (pf : Format) :
    rejectAsUnified fmt pf = true ↔
      (fmt = .unified ∨ (fmt = .default ∧ (pf = .unified ∨ pf = .git))) := by
  unfold rejectAsUnified
  simp

/-- the reject bytes of a run are the header followed by the rejected hunks, in their original order, each written by the
    formatter of the chosen format (context hunks separated by the stars line) -/
theorem reject_bytes_layout (file : List Line) (p0 : Patch) (o : ApplyOpts) (tty : Option (List Bool)) (r : ApplyResult)
    (hr : applyPatch file p0 o tty = .ok r) (hne : r.rejected ≠ []) :
    (rejectAsUnified o.rejectFormat r.patch.format = true →
      r.rejBytes = writeHeaderUnified r.patch ++ (r.rejected.map (·.2)).flatMap writeHunkUnified) ∧
    (rejectAsUnified o.rejectFormat r.patch.format = false →
      ∃ body, ctxRejectBody (r.rejected.map (·.2)) = .ok body ∧
        r.rejBytes = str "*** " ++ r.patch.oldPath
            ++ (if r.patch.oldTime ≠ [] ∧ r.patch.oldPath ≠ devNull then [TAB] ++ r.patch.oldTime else []) ++ [NL]
          ++ str "--- " ++ r.patch.newPath
            ++ (if r.patch.newTime ≠ [] ∧ r.patch.newPath ≠ devNull then [TAB] ++ r.patch.newTime else []) ++ [NL]
          ++ starsLine ++ body) ∧
    List.Pairwise (· < ·) (r.rejected.map (·.1)) := by
  exact Unified.reject_bytes_layout file p0 o tty r hr hne

end PatchModel.C13
