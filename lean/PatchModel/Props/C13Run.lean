/-
  C13 end to end — a reject file written by one run is a patch the program itself applies.

  Run 1 (`C18Run.C04_run_rejected`): `patch -i pname name`, the one hunk `h` of the diff fits nowhere in `name`: exit status 1 and
  `name.rej` holds `diffText name name oldt newt [h]` — the two header lines and the hunk as `write_hunk_as_unified` writes it.
  Run 2: `patch -i <a file with the bytes of that reject file> name2`, in ANY tree in which the flat file `name2` holds bytes of
  which `[h]` is a valid script: exit status 0, `name2` holds `splice (splitLines bytes2) 0 [h]` (mode kept), nothing else differs.

    * `C13_reject_is_a_patch` — one statement about the two runs: the second run is quantified over every option set / start
      state / target / patch-file name that satisfies the hypotheses of `C01.C01_run_filler`; what ties it to the first run is the
      hypothesis that its patch file holds THE BYTES THE FIRST RUN LEFT IN `name.rej` (read off the final tree of run 1);
    * `C13_reject_applies_in_place` — the second run made in the tree the first run left (in any clean state whose tree agrees
      with it): `patch -i name.rej name2` for another file `name2` of the original tree.

  The header of the reject file names `name`, not `name2`: with the file operand given the names in the header are not used
  (`C01_run_filler` allows any plain names), so no condition relates `name2` to `name`.  Composition of `C04_run_rejected`
  (conclusion about the bytes of the reject file) with `C01_run_filler`; side conditions are exactly theirs.
-/
import PatchModel.Props.C18Run
namespace PatchModel.C13Run
open PatchModel PatchModel.Section PatchModel.Run PatchModel.DriverFacts PatchModel.RunB PatchModel.C01 PatchModel.C18Run

/-- **C13, a reject file is a patch (two runs).**  After the rejected run of `C04_run_rejected` the file `name.rej` holds bytes
    `rb` such that: whenever a run `patch -i pname2 name2` (options `RunOpts`, real run, clean start) is made in a tree where
    `pname2` holds exactly `rb` and the flat, writable file `name2` holds bytes of whose lines `[h]` is a valid script, that run
    ends with exit status 0, `name2` holds the result of applying `h` (its mode kept) and no other path differs. -/
theorem C13_reject_is_a_patch (o : Options) (s0 : DState) (name pname bytes oldt newt : Bytes) (m pm : Nat) (h : Hunk)
    (ho : RejOpts o name pname) (hstrip : o.strip ≤ 0) (hreal : o.dryRun = false) (hs0 : CleanStart s0)
    (hrw : s0.rejWritten = [])
    (hn : flatName name) (hfree : s0.fs.lookup (name ++ str ".rej") = none) (hpn : pname ≠ []) (hpd : pname ≠ [45])
    (htarget : s0.fs.lookup name = some (.file bytes m)) (hw : m &&& writeMask ≠ 0)
    (hot : stampOk oldt) (hnt : stampOk newt)
    (hpatch : s0.fs.lookup pname = some (.file (diffText name name oldt newt [h]) pm))
    (hh : DiffHunks [h])
    (hloc : locateHunk (splitLines bytes) h o.ignoreWhitespace 0 o.maxFuzz 0 = none)
    (hrloc : o.force = true ∨ locateHunk (splitLines bytes) (reverseHunk h) o.ignoreWhitespace 0 o.maxFuzz 0 = none) :
    -- run 1
    (runPatch o s0).1 = 1 ∧
    ∃ rb rm, (runPatch o s0).2.fs.lookup (name ++ str ".rej") = some (.file rb rm) ∧
      -- run 2, on the bytes of that reject file
      ∀ (o2 : Options) (s2 : DState) (name2 pname2 bytes2 : Bytes) (m2 pm2 : Nat),
        RunOpts o2 name2 pname2 → o2.dryRun = false → CleanStart s2 → flatName name2 → pname2 ≠ [] → pname2 ≠ [45] →
        s2.fs.lookup name2 = some (.file bytes2 m2) → m2 &&& writeMask ≠ 0 →
        s2.fs.lookup pname2 = some (.file rb pm2) →
        Valid (splitLines bytes2) 0 0 [h] →
        (runPatch o2 s2).1 = 0 ∧
        (runPatch o2 s2).2.fs.lookup name2 =
          some (.file (Render.renderText o2.newlineOutput (splice (splitLines bytes2) 0 [h])) m2) ∧
        ∀ q, q ≠ name2 → (runPatch o2 s2).2.fs.lookup q = s2.fs.lookup q := by
  have h1 := C04_run_rejected o s0 name pname bytes oldt newt m pm h ho hstrip hreal hs0 hrw hn hfree hpn hpd htarget hw hot hnt
    hpatch hh hloc hrloc
  refine ⟨h1.1, diffText name name oldt newt [h], _, h1.2.2.1, ?_⟩
  intro o2 s2 name2 pname2 bytes2 m2 pm2 ho2 hreal2 hs2 hn2 hpn2 hpd2 htarget2 hw2 hpatch2 hvalid
  exact C01_run_filler (filler := []) (old := name) (new := name) (oldt := oldt) (newt := newt) ho2 hreal2 hs2 hn2.1
    (dirExists_parent_of_noSlash s2.fs hn2.2.1) hpn2 hpd2 htarget2 hw2 hpatch2 (unifiedDiff_of_flat hn hot hnt hh) hvalid

/-- **C13, the reject file applied where it lies.**  Run 1 as above, in a tree that also holds the flat, writable file `name2`
    (≠ `name`, ≠ `name.rej`) of whose lines `[h]` is a valid script.  Run 2, `patch -i name.rej name2`, made in the tree run 1
    left (any clean state `s2` whose tree agrees with it at every path): exit status 0, `name2` holds the result of applying `h`
    with its mode; `name` is as run 1 left it, the reject file is still there, nothing else differs from the tree of run 1. -/
theorem C13_reject_applies_in_place (o o2 : Options) (s0 s2 : DState) (name pname name2 bytes bytes2 oldt newt : Bytes)
    (m pm m2 : Nat) (h : Hunk)
    (ho : RejOpts o name pname) (hstrip : o.strip ≤ 0) (hreal : o.dryRun = false) (hs0 : CleanStart s0)
    (hrw : s0.rejWritten = [])
    (hn : flatName name) (hfree : s0.fs.lookup (name ++ str ".rej") = none) (hpn : pname ≠ []) (hpd : pname ≠ [45])
    (htarget : s0.fs.lookup name = some (.file bytes m)) (hw : m &&& writeMask ≠ 0)
    (hot : stampOk oldt) (hnt : stampOk newt)
    (hpatch : s0.fs.lookup pname = some (.file (diffText name name oldt newt [h]) pm))
    (hh : DiffHunks [h])
    (hloc : locateHunk (splitLines bytes) h o.ignoreWhitespace 0 o.maxFuzz 0 = none)
    (hrloc : o.force = true ∨ locateHunk (splitLines bytes) (reverseHunk h) o.ignoreWhitespace 0 o.maxFuzz 0 = none)
    -- the second file and the second run
    (hn2 : flatName name2) (hne : name2 ≠ name) (hner : name2 ≠ name ++ str ".rej")
    (htarget2 : s0.fs.lookup name2 = some (.file bytes2 m2)) (hw2 : m2 &&& writeMask ≠ 0)
    (hvalid : Valid (splitLines bytes2) 0 0 [h])
    (ho2 : RunOpts o2 name2 (name ++ str ".rej")) (hreal2 : o2.dryRun = false) (hs2 : CleanStart s2)
    (htree : ∀ q, s2.fs.lookup q = (runPatch o s0).2.fs.lookup q) :
    (runPatch o s0).1 = 1 ∧ (runPatch o2 s2).1 = 0 ∧
    (runPatch o2 s2).2.fs.lookup name2 = some (.file (Render.renderText o2.newlineOutput (splice (splitLines bytes2) 0 [h])) m2) ∧
    (runPatch o2 s2).2.fs.lookup name = some (.file (renderLines o.newlineOutput (splitLines bytes)) m) ∧
    (∃ rm, (runPatch o2 s2).2.fs.lookup (name ++ str ".rej") = some (.file (diffText name name oldt newt [h]) rm)) ∧
    ∀ q, q ≠ name2 → q ≠ name → q ≠ name ++ str ".rej" → (runPatch o2 s2).2.fs.lookup q = s0.fs.lookup q := by
  have h1 := C04_run_rejected o s0 name pname bytes oldt newt m pm h ho hstrip hreal hs0 hrw hn hfree hpn hpd htarget hw hot hnt
    hpatch hh hloc hrloc
  obtain ⟨e1, rb, rm, hrb, hrun2⟩ := C13_reject_is_a_patch o s0 name pname bytes oldt newt m pm h ho hstrip hreal hs0 hrw hn hfree
    hpn hpd htarget hw hot hnt hpatch hh hloc hrloc
  have hrbe : rb = diffText name name oldt newt [h] := by
    have := hrb.symm.trans h1.2.2.1
    simp only [Option.some.injEq, Node.file.injEq] at this
    exact this.1
  have hpne : name ++ str ".rej" ≠ [] := by rw [str_rej]; simp
  have hpd2 : name ++ str ".rej" ≠ [45] := by
    intro e
    have := congrArg List.length e
    rw [str_rej] at this; simp at this
  obtain ⟨r0, r1, r2⟩ := hrun2 o2 s2 name2 (name ++ str ".rej") bytes2 m2 rm ho2 hreal2 hs2 hn2 hpne hpd2
    (by rw [htree, h1.2.2.2 name2 hne hner]; exact htarget2) hw2 (by rw [htree]; exact hrb) hvalid
  refine ⟨e1, r0, r1, ?_, ⟨rm, ?_⟩, ?_⟩
  · rw [r2 name (Ne.symm hne), htree]; exact h1.2.1
  · rw [r2 _ (Ne.symm hner), htree, hrb, hrbe]
  · intro q hq2 hq hqr
    rw [r2 q hq2, htree, h1.2.2.2 q hq hqr]

/-! ## non-vacuity: the two runs, concretely

Tree: `f` = "x\ny\nz\n", `g` = "a\nb\nc\n" (0600), `p.diff` = the diff of `C01.Instance` (`b` → `B` between `a` and `c`), named
for `f`.  Run 1, `patch -i p.diff f`: the hunk fits nowhere in `f` — exit status 1, `f.rej`.  Run 2, `patch -i f.rej g`: the
hunk fits `g` — exit status 0, `g` = "a\nB\nc\n".  Every hypothesis is discharged by evaluation in the kernel; independently the
executable model makes the two runs one after the other (`#guard`). -/
namespace Instance
open PatchModel.C01.Instance (name pname bytes oldt newt hk diffHunks)
open PatchModel.C18Run.Rejected (o xyz rej rejOpts)

def nameG : Bytes := [103]                                   -- "g"
def s0 : DState :=
  { fs := { nodes := [(name, .file xyz 0o644), (nameG, .file bytes 0o600), (pname, .file (diffText name name oldt newt [hk]) 0o644)] } }
/-- run 2: `patch -i f.rej g` -/
def o2 : Options := { defaultOptions with fileToPatch := nameG, patchFile := rej }
/-- the state run 2 starts in: a fresh process in the tree run 1 left -/
def s2 : DState := { fs := (runPatch o s0).2.fs }
def result : Bytes := [97, 10, 66, 10, 99, 10]               -- "a\nB\nc\n"
#guard nameG == str "g" && rej == str "f.rej" && result == str "a\nB\nc\n"

theorem runOpts2 : RunOpts o2 nameG (name ++ str ".rej") :=
  { plain := { operand := rfl, noOut := rfl, noBackup := rfl, noReverse := rfl, noDefine := rfl, fuzz := by decide, quiet := rfl },
    file := { patchFile := by rw [str_rej]; rfl, noDir := rfl, noHelp := rfl, noVersion := rfl, noContext := rfl, noNormal := rfl,
              noEd := rfl } }

/-- **`C13_reject_applies_in_place` applies** (all hypotheses discharged in the kernel, `CleanStart s2` included: the tree run 1
    left is evaluated): run 1 ends with 1, run 2 with 0; `g` = "a\nB\nc\n" (0600), `f` as it was, `f.rej` still the diff -/
theorem applies :
    (runPatch o s0).1 = 1 ∧ (runPatch o2 s2).1 = 0 ∧
    (runPatch o2 s2).2.fs.lookup nameG = some (.file result 0o600) ∧
    (runPatch o2 s2).2.fs.lookup name = some (.file xyz 0o644) ∧
    (∃ rm, (runPatch o2 s2).2.fs.lookup rej = some (.file (diffText name name oldt newt [hk]) rm)) ∧
    ∀ q, q ≠ nameG → q ≠ name → q ≠ rej → (runPatch o2 s2).2.fs.lookup q = s0.fs.lookup q := by
  have e : name ++ str ".rej" = rej := by rw [str_rej]; rfl
  have h := C13_reject_applies_in_place o o2 s0 s2 name pname nameG xyz bytes oldt newt 0o644 0o644 0o600 hk rejOpts (by decide) rfl
    ⟨rfl, rfl, rfl, rfl, rfl, rfl⟩ rfl (by decide) (by rw [e]; decide) (by decide) (by decide) rfl (by decide) (by decide)
    (by decide) rfl diffHunks (by decide +kernel) (Or.inr (by decide +kernel))
    (by decide) (by decide) (by rw [e]; decide) rfl (by decide) (validB_sound _ _ _ _ (by decide)) runOpts2 rfl
    ⟨rfl, rfl, rfl, rfl, rfl, by decide +kernel⟩ (fun _ => rfl)
  have hm : Render.renderText o2.newlineOutput (splice (splitLines bytes) 0 [hk]) = result := by decide
  have hx : renderLines o.newlineOutput (splitLines xyz) = xyz := by decide
  rw [e, hm, hx] at h
  exact h

/-- the two-run statement itself, applied to a second run in a DIFFERENT tree (only `g` and a copy `q.diff` of the reject file) -/
def sOther (rb : Bytes) : DState := { fs := { nodes := [(nameG, .file bytes 0o600), (pname, .file rb 0o644)] } }
theorem applies_elsewhere :
    (runPatch o s0).1 = 1 ∧
    ∃ rb rm, (runPatch o s0).2.fs.lookup rej = some (.file rb rm) ∧
      (runPatch { o2 with patchFile := pname } (sOther rb)).1 = 0 ∧
      (runPatch { o2 with patchFile := pname } (sOther rb)).2.fs.lookup nameG = some (.file result 0o600) := by
  have e : name ++ str ".rej" = rej := by rw [str_rej]; rfl
  obtain ⟨h1, rb, rm, hrb, h2⟩ := C13_reject_is_a_patch o s0 name pname xyz oldt newt 0o644 0o644 hk rejOpts (by decide) rfl
    ⟨rfl, rfl, rfl, rfl, rfl, rfl⟩ rfl (by decide) (by rw [e]; decide) (by decide) (by decide) rfl (by decide) (by decide)
    (by decide) rfl diffHunks (by decide +kernel) (Or.inr (by decide +kernel))
  rw [e] at hrb
  refine ⟨h1, rb, rm, hrb, ?_⟩
  have h3 := h2 { o2 with patchFile := pname } (sOther rb) nameG pname bytes 0o600 0o644
    { plain := { operand := rfl, noOut := rfl, noBackup := rfl, noReverse := rfl, noDefine := rfl, fuzz := by decide, quiet := rfl },
      file := { patchFile := rfl, noDir := rfl, noHelp := rfl, noVersion := rfl, noContext := rfl, noNormal := rfl, noEd := rfl } }
    rfl ⟨rfl, rfl, rfl, rfl, rfl, rfl⟩ (by decide) (by decide) (by decide) rfl (by decide) rfl (validB_sound _ _ _ _ (by decide))
  have hm : Render.renderText o2.newlineOutput (splice (splitLines bytes) 0 [hk]) = result := by decide
  exact ⟨h3.1, by rw [← hm]; exact h3.2.1⟩

-- independently: the executable model, the two runs one after the other
#guard (runPatch o s0).1 == 1
#guard (runPatch o s0).2.fs.lookup (str "f.rej") ==
  some (.file (str "--- f\t2020\n+++ f\t2021\n@@ -1,3 +1,3 @@\n a\n-b\n+B\n c\n") 0o644)
#guard (runPatch o2 s2).1 == 0
#guard (runPatch o2 s2).2.fs.lookup (str "g") == some (.file (str "a\nB\nc\n") 0o600)
#guard (runPatch o2 s2).2.fs.lookup (str "f") == some (.file (str "x\ny\nz\n") 0o644)
#guard (runPatch o2 s2).2.fs.lookup (str "f.rej") == (runPatch o s0).2.fs.lookup (str "f.rej")
#guard (runPatch o2 s2).2.fs.lookup pname == s0.fs.lookup pname && (runPatch o2 s2).2.fs.nodes.length == 4
#guard (runPatch o2 s2).2.out == [.file nameG false]
-- without the operand the reject file names `f` — to which the hunk still does not apply
#guard (runPatch { o2 with fileToPatch := [] } s2).1 == 1

end Instance

end PatchModel.C13Run

#print axioms PatchModel.C13Run.C13_reject_is_a_patch
#print axioms PatchModel.C13Run.C13_reject_applies_in_place
#print axioms PatchModel.C13Run.Instance.applies
#print axioms PatchModel.C13Run.Instance.applies_elsewhere
