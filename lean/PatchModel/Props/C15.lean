/-
  C15 / C16 (driver model) — --dry-run changes nothing; only the intended paths are touched.

  All three results are instances of the generic invariant lemmas of Lemmas/DM (`tr_processPatchM`, `inv_processSection`,
  `tr_finalizeDeferred`): an invariant `I` of the driver state is preserved by the whole of `process_patch` as soon as
  it is `Framed`, preserved by `createTemp`, and — when not --dry-run — preserved by the operations on the paths of the
  current section (`SecOk`).
    C15   `Dry fs0 t0`  tree = fs0, trace = t0 ++ temporaries, deferred lists empty
    tmp   `Tmp`         no fault scheduled, every tmpCreate directly followed by tmpUnlink
    C16   `J o c req`   cwd = c, every operation allowed w.r.t. the recorded sections, deferred lists refer to recorded sections
-/
import PatchModel.Lemmas.DM
namespace PatchModel.C15
open PatchModel PatchModel.DM

/-! ### C15 -/

/-- the invariant of a dry run: tree as at the start, only temporaries in the trace, nothing deferred -/
def Dry (fs0 : Fs) (t0 : List FsOp) (s : DState) : Prop :=
  s.fs = fs0 ∧ (∃ ops, s.trace = t0 ++ ops ∧ ∀ op ∈ ops, op.isTmp = true) ∧ s.dWrites = [] ∧ s.dRemovals = []

theorem dry_framed (fs0 : Fs) (t0 : List FsOp) : Framed (Dry fs0 t0) :=
  ⟨fun s s' h h1 h2 _ _ h5 h6 _ => by unfold Dry at *; rw [h1, h2, h5, h6]; exact h⟩

theorem dry_tmp (fs0 : Fs) (t0 : List FsOp) (op : FsOp) (hop : op.isTmp = true) : OpOk (Dry fs0 t0) op := by
  constructor
  rintro s fs' ⟨h1, ⟨ops, h2, h3⟩, h4, h5⟩ ha
  have : fs' = s.fs := by
    cases op <;> simp [FsOp.isTmp] at hop <;> simp [Fs.apply] at ha <;> exact ha.symm
  refine ⟨this ▸ h1, ⟨ops ++ [op], ?_, ?_⟩, h4, h5⟩
  · show s.trace ++ [op] = _
    rw [h2, List.append_assoc]
  · intro x hx
    rcases List.mem_append.1 hx with hx | hx
    · exact h3 x hx
    · rw [List.mem_singleton.1 hx]; exact hop

theorem dry_createTemp (fs0 : Fs) (t0 : List FsOp) : Inv (Dry fs0 t0) createTemp :=
  inv_createTemp (dry_framed fs0 t0).tick (dry_tmp _ _ _ rfl) (dry_tmp _ _ _ rfl)

theorem dry_processPatchM (o : Options) (hd : o.dryRun = true) (fs0 : Fs) (t0 : List FsOp) :
    Inv (Dry fs0 t0) (processPatchM o) := by
  have hF := dry_framed fs0 t0
  refine tr_processPatchM hF (fun _ h => h) (fun s h => h) (dry_createTemp fs0 t0) ?_ ?_
  · intro format
    refine inv_processSection (I' := fun _ _ => Dry fs0 t0) format hF (fun _ _ => hF) (fun _ _ => dry_createTemp fs0 t0)
      (fun _ _ _ h => h) (fun _ _ _ h => h) ?_
    intro h; rw [hd] at h; cases h
  · refine tr_finalizeDeferred (fun s0 hs0 => ⟨Dry fs0 t0, hF, hs0, ?_, ?_, fun _ h => h⟩)
    · intro w hw; rw [hs0.2.2.1] at hw; cases hw
    · intro p hp; rw [hs0.2.2.2] at hp; cases hp

/-- **C15 (purity)**: with --dry-run, whatever the patch does (modify, create, delete, rename, fail, abort), whatever the tree, the
    options and the tty: the only file system operations performed are the creation and immediate unlinking of anonymous temporary
    files, and the tree (bytes, modes, link targets) is exactly what it was — also when the run aborts with an exception.
    (Side condition added to the original statement: nothing is pending in the deferred lists at the start — `finalizeDeferred`
    executes whatever it finds there, dry run or not.) -/
theorem C15_pure_partial (o : Options) (s0 : DState) (hd : o.dryRun = true)
    (h0 : s0.dWrites = [] ∧ s0.dRemovals = []) :
    (∃ ops, (runPatch o s0).2.trace = s0.trace ++ ops ∧ ∀ op ∈ ops, op.isTmp = true) ∧
    (runPatch o s0).2.fs = s0.fs := by
  have hs0 : Dry s0.fs s0.trace s0 := ⟨rfl, ⟨[], by simp, by simp⟩, h0.1, h0.2⟩
  have h := runPatch_of_tr (dry_processPatchM o hd s0.fs s0.trace) hs0 hs0
  exact ⟨h.2.1, h.1⟩

/-! ### the original statement of C15 is false without the side condition

    `C15_pure` was stated without `h0`:

        theorem C15_pure (o : Options) (s0 : DState) (hd : o.dryRun = true) :
            (∃ ops, (runPatch o s0).2.trace = s0.trace ++ ops ∧ ∀ op ∈ ops, op.isTmp = true) ∧
            (runPatch o s0).2.fs = s0.fs

    `finalizeDeferred` executes whatever is in `dWrites` / `dRemovals`, dry run or not; in a real run these lists are empty at
    the start and stay empty under --dry-run (that is what `C15_pure_partial` shows), but an arbitrary `s0` may have them filled. -/

def cexOptions : Options := { (default : Options) with dryRun := true }
/-- a pending deferred write of the empty file "a" (and not the first patch, so that empty input is not an error) -/
def cexWrite : DState :=
  { fs := {}, firstPatch := false, dWrites := [{ dest := [97], content := [], newMode := 0, perm := {} }] }
/-- a pending deferred removal of the existing file "a" -/
def cexRemoval : DState := { fs := { nodes := [([97], .file [] 0o644)] }, firstPatch := false, dRemovals := [([97], false)] }

theorem cexWrite_run : (runPatch cexOptions cexWrite).2.trace = [.tmpCreate, .tmpUnlink, .creat [97]] ∧
    (runPatch cexOptions cexWrite).2.fs.nodes = [([97], .file [] 0o644)] := by decide
theorem cexRemoval_run : (runPatch cexOptions cexRemoval).2.trace = [.tmpCreate, .tmpUnlink, .unlink [97]] ∧
    (runPatch cexOptions cexRemoval).2.fs.nodes = [] := by decide

/-- the statement of `C15_pure` without side condition does not hold -/
theorem C15_pure_original_false :
    ¬ ∀ (o : Options) (s0 : DState), o.dryRun = true →
      (∃ ops, (runPatch o s0).2.trace = s0.trace ++ ops ∧ ∀ op ∈ ops, op.isTmp = true) ∧ (runPatch o s0).2.fs = s0.fs := by
  intro h
  have h1 := (h cexOptions cexWrite rfl).2
  have h2 := cexWrite_run.2
  rw [h1] at h2
  exact absurd h2 (by decide)

/-! ### temporaries -/

/-- every `tmpCreate` is directly followed by `tmpUnlink` -/
def Paired (t : List FsOp) : Prop := ∀ i, t[i]? = some FsOp.tmpCreate → t[i + 1]? = some FsOp.tmpUnlink

theorem paired_nil : Paired [] := by intro i h; simp at h

theorem paired_append {a b : List FsOp} (ha : Paired a) (hb : Paired b) : Paired (a ++ b) := by
  intro i h
  by_cases hi : i < a.length
  · rw [List.getElem?_append_left hi] at h
    have h1 := ha i h
    have hi1 : i + 1 < a.length := by
      rcases Nat.lt_or_ge (i + 1) a.length with h2 | h2
      · exact h2
      · rw [List.getElem?_eq_none h2] at h1; cases h1
    rw [List.getElem?_append_left hi1]; exact h1
  · have hi : a.length ≤ i := Nat.le_of_not_lt hi
    rw [List.getElem?_append_right hi] at h
    have h1 := hb _ h
    rw [List.getElem?_append_right (by omega)]
    have : i + 1 - a.length = i - a.length + 1 := by omega
    rw [this]; exact h1

theorem paired_single {op : FsOp} (h : op ≠ FsOp.tmpCreate) : Paired [op] := by
  intro i hi
  cases i with
  | zero => simp at hi; exact absurd hi h
  | succ n => simp at hi

theorem paired_pair : Paired [FsOp.tmpCreate, FsOp.tmpUnlink] := by
  intro i hi
  match i, hi with
  | 0, _ => rfl
  | 1, hi => simp at hi
  | n + 2, hi => simp at hi

/-- invariant: no fault is scheduled and the trace is paired -/
def Tmp (s : DState) : Prop := s.faultAt = none ∧ Paired s.trace

theorem tmp_framed : Framed Tmp :=
  ⟨fun s s' h _ h2 _ _ _ _ h7 => by unfold Tmp at *; rw [h2, h7]; exact h⟩

theorem tmp_op {op : FsOp} (h : op ≠ FsOp.tmpCreate) : OpOk Tmp op :=
  ⟨fun _ _ hs _ => ⟨hs.1, paired_append hs.2 (paired_single h)⟩⟩

theorem tmp_createTemp : Inv Tmp createTemp := by
  constructor
  rintro s ⟨hf, hp⟩
  have : run createTemp s = (.ok (), { s with trace := s.trace ++ [FsOp.tmpCreate] ++ [FsOp.tmpUnlink], opCount := s.opCount + 1 + 1 }) := by
    unfold createTemp doOp
    simp [run_bind, run_get, run_set, hf, Fs.apply]
  rw [this]
  refine ⟨hf, ?_⟩
  show Paired (s.trace ++ [FsOp.tmpCreate] ++ [FsOp.tmpUnlink])
  rw [List.append_assoc]
  exact paired_append hp paired_pair
theorem tmp_path (p : Bytes) : PathOk Tmp p :=
  ⟨fun _ _ => tmp_op nofun, fun _ _ _ => tmp_op nofun, fun _ _ => tmp_op nofun, fun _ _ _ => tmp_op nofun,
   fun _ _ _ => tmp_op nofun, fun _ _ _ _ => tmp_op nofun, fun _ _ _ _ => tmp_op nofun⟩

theorem tmp_sec (o : Options) (a b : Bytes) : SecOk Tmp o a b :=
  ⟨tmp_path _, tmp_path _, tmp_path _, tmp_path _, ⟨fun _ _ => tmp_op nofun⟩, fun _ _ => ⟨fun _ h => h⟩, fun _ => ⟨fun _ h => h⟩⟩

theorem tmp_processPatchM (o : Options) : Inv Tmp (processPatchM o) := by
  refine tr_processPatchM tmp_framed (fun _ h => h) (fun s h => h) tmp_createTemp ?_ ?_
  · intro format
    exact inv_processSection (I' := fun _ _ => Tmp) format tmp_framed (fun _ _ => tmp_framed) (fun _ _ => tmp_createTemp)
      (fun _ _ _ h => h) (fun _ _ _ h => h) (fun _ a b => tmp_sec o a b)
  · exact tr_finalizeDeferred (fun s0 hs0 => ⟨Tmp, tmp_framed, hs0, fun _ _ => ⟨tmp_path _, tmp_path _, ⟨fun _ _ => tmp_op nofun⟩⟩,
      fun _ _ => ⟨tmp_path _, fun _ => ⟨tmp_path _, ⟨fun _ _ => tmp_op nofun⟩⟩⟩, fun _ h => h⟩)

/-- temporaries never outlive the operation that follows their creation: every `tmpCreate` in the trace of any run (dry or not)
    is immediately followed by `tmpUnlink` -/
theorem tmp_unlinked_at_once (o : Options) (s0 : DState) (h0 : s0.trace = []) (hf : s0.faultAt = none) :
    ∀ i, (runPatch o s0).2.trace[i]? = some FsOp.tmpCreate → (runPatch o s0).2.trace[i + 1]? = some FsOp.tmpUnlink := by
  have hs0 : Tmp s0 := ⟨hf, h0 ▸ paired_nil⟩
  exact (runPatch_of_tr (tmp_processPatchM o) hs0 hs0).2

end PatchModel.C15

