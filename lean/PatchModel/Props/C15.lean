import PatchModel.Spec.Script
namespace PatchModel.C15
/-- placeholder until the driver model's theorems are in (see DESIGN.md section 5/C15) -/
theorem placeholder : True := trivial
end PatchModel.C15
