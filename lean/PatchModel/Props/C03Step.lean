/-
  C03 lifted to the hunk loop of apply_patch.
-/
import PatchModel.Props.C02Apply
namespace PatchModel.C03
open PatchModel

/-- lifted to the hunk loop: outside the "skip remaining hunks" state, a well-formed hunk that has an admissible
    placement in the not yet consumed part of the file is applied (appended to `applied`), never rejected -/
theorem C03_step (file : List Line) (o : ApplyOpts) (p : Patch) (s : AState) (num : Nat) (h : Hunk) (q f : Nat)
    (hwf : h.WF) (hc : h.old.count ≠ 0) (hskip : s.skip = false) (hD : o.define = [])
    (hcur : s.cursor ≤ q) (hadm : admissibleB file h o.ignoreWhitespace o.maxFuzz q f = true) :
    ∃ s' loc, locateHunk file h o.ignoreWhitespace s.offErr o.maxFuzz s.cursor = some loc ∧
      finishHunk file o p s num h (some loc) = .ok s' ∧
      s'.applied = s.applied ++ [(num, loc)] ∧ s'.rejected = s.rejected ∧ loc.fuzz ≤ (f : Int) := by
  obtain ⟨loc, hloc, hfz⟩ := locate_complete file h o.ignoreWhitespace s.offErr o.maxFuzz s.cursor q f hwf hc hcur hadm
  have hok := C02.locatorSound file o.ignoreWhitespace o.maxFuzz h s.offErr s.cursor hwf
  rw [hloc] at hok
  obtain ⟨s', hs'⟩ := Apply.finishHunk_total (p := p) (s := s) (num := num) hwf hD hok
  refine ⟨s', loc, hloc, hs', ?_⟩
  rcases Apply.finishHunk_ok hs' with ⟨l, _, _, _, hl, _, _, _, _, _, happ, hrej, _⟩ | ⟨hno, _⟩
  · cases hl; exact ⟨happ, hrej, hfz⟩
  · rcases hno with hno | hno
    · rw [hskip] at hno; cases hno
    · cases hno

end PatchModel.C03
