/-
  C03 lifted to the hunk loop of apply_patch.
-/
import PatchModel.Props.C02Apply
namespace PatchModel.C03
open PatchModel

/-- lifted to the hunk loop: outside the "skip remaining hunks" state, a well-formed hunk that has an admissible
    placement in the not yet consumed part of the file is applied (appended to `applied`), never rejected -/
theorem C03_step (file : List Line) (o : ApplyOpts) (p : Patch) (s : AState) (num : Nat) (h : Hunk) (q f : Nat)
    (hwf : h.WF) (hc : h.old.count ≠ 0) (hskip : s.skip = false) (hD : o.define = [])
    (hcur : s.cursor ≤ q) (hadm : admissibleB file h o.ignoreWhitespace o.maxFuzz q f = true) :
    ∃ s' loc, locateHunk file h o.ignoreWhitespace s.offErr o.maxFuzz s.cursor = some loc ∧
      finishHunk file o p s num h (some loc) = .ok s' ∧
      s'.applied = s.applied ++ [(num, loc)] ∧ s'.rejected = s.rejected ∧ loc.fuzz ≤ (f : Int) := by
  obtain ⟨loc, hloc, hfz⟩ := locate_complete file h o.ignoreWhitespace s.offErr o.maxFuzz s.cursor q f hwf hc hcur hadm
  have hok := C02.locatorSound file o.ignoreWhitespace o.maxFuzz h s.offErr s.cursor hwf
  rw [hloc] at hok
  obtain ⟨s', hs'⟩ := Apply.finishHunk_total (p := p) (s := s) (num := num) hwf hD hok
  refine ⟨s', loc, hloc, hs', ?_⟩
  rcases Apply.finishHunk_ok hs' with ⟨l, _, _, _, hl, _, _, _, _, _, happ, hrej, _⟩ | ⟨hno, _⟩
  · cases hl; exact ⟨happ, hrej, hfz⟩
  · rcases hno with hno | hno
    · rw [hskip] at hno; cases hno
    · cases hno

/-! ### D99, a concrete instance: context at the end of a hunk which fuzz ignores need not be in the file

The file is `a b c d`; the hunk `@@ -2,4 +2,4 @@` has the lines ` b`, `-c`, `+C`, ` d`, ` e`: its last context line `e` would be line 5
of a file of four lines.  With fuzz 1 the last line of the hunk is not compared (the longer, trailing context is trimmed first), and
the hunk is placed at line 2 although its old side reaches one line beyond the end of the file. -/
namespace D99
def ln (c : UInt8) : Line := ⟨[c], .lf⟩
/-- a b c d -/
def file : List Line := [ln 97, ln 98, ln 99, ln 100]
/-- `@@ -2,4 +2,4 @@`: ` b`, `-c`, `+C`, ` d`, ` e` -/
def hunk : Hunk := ⟨⟨2, 4⟩, ⟨2, 4⟩, [⟨SP, ln 98⟩, ⟨MINUS, ln 99⟩, ⟨PLUS, ln 67⟩, ⟨SP, ln 100⟩, ⟨SP, ln 101⟩]⟩
def patch : Patch := { hunks := [hunk] }

theorem hunk_WF : hunk.WF := by unfold Hunk.WF; decide

/-- the placement at index 1 reaches beyond the end of the file; it is admissible with fuzz 1 (one trailing line ignored), with fuzz 0
    nothing is, anywhere -/
theorem admissible : 1 + (oldOf hunk.lines).length = file.length + 1 ∧ fuzzPair hunk.lines 1 = (0, 1) ∧
    admissibleB file hunk false 2 1 1 = true ∧ allAdmissible file hunk false 0 0 = [] ∧
    nextCursor file hunk 1 = file.length := by decide

/-- `locate_hunk` finds it at line index 1 with fuzz 1 (offset 0) -/
theorem located : locateHunk file hunk false 0 2 0 = some ⟨1, 1, 0⟩ := by decide

/-- … as `locate_complete` says it must, the fuzz being least -/
example : ∃ loc, locateHunk file hunk false 0 2 0 = some loc ∧ loc.fuzz ≤ 1 :=
  locate_complete file hunk false 0 2 0 1 1 hunk_WF (by decide) (by decide) admissible.2.2.1

/-- `apply_patch` (`-F 2`, the default) writes `a b C d`: the line `e` is not written, nothing of the file is lost, nothing is rejected -/
theorem applied : ∃ r, applyPatch file patch {} none = .ok r ∧
    r.out = [.fromFile 0 (ln 97), .fromFile 1 (ln 98), .fromPatch (ln 67), .fromFile 3 (ln 100)] ∧
    r.out = spliceAt file 0 [(hunk, 1)] ∧
    render .lf r.out = [97, 10, 98, 10, 67, 10, 100, 10] ∧
    r.applied = [(0, ⟨1, 1, 0⟩)] ∧ r.rejected = [] ∧ r.failed = 0 ∧
    r.msgs = [.hunk 1 "succeeded" 2 1 0] :=
  ⟨_, rfl, by decide⟩

#guard (match applyPatch file patch {} none with
        | .ok r => render .lf r.out == str "a\nb\nC\nd\n"
        | .error _ => false)
#guard locateHunk file hunk false 0 2 0 == some ⟨1, 1, 0⟩
-- with `-F 0` the hunk is rejected
#guard locateHunk file hunk false 0 0 0 == none

end D99

end PatchModel.C03
