/-
  C03 lifted to the hunk loop of apply_patch.
-/
import PatchModel.Props.C02Apply
namespace PatchModel.C03
open PatchModel

/-- lifted to the hunk loop: outside the "skip remaining hunks" state, a well-formed hunk that has an admissible
    placement in the not yet consumed part of the file is applied (appended to `applied`), never rejected -/
theorem C03_step (file : List Line) (o : ApplyOpts) (p : Patch) (s : AState) (num : Nat) (h : Hunk) (q f : Nat)
    (hwf : h.WF) (hc : h.old.count ≠ 0) (hskip : s.skip = false) (hD : o.define = [])
    (hcur : s.cursor ≤ q) (hadm : admissibleB file h o.ignoreWhitespace o.maxFuzz q f = true) :
    ∃ s' loc, locateHunk file h o.ignoreWhitespace s.offErr o.maxFuzz s.cursor = some loc ∧
      finishHunk file o p s num h (some loc) = .ok s' ∧
      s'.applied = s.applied ++ [(num, loc)] ∧ s'.rejected = s.rejected ∧ loc.fuzz ≤ (f : Int) := by
  obtain ⟨loc, hloc, hfz⟩ := locate_complete file h o.ignoreWhitespace s.offErr o.maxFuzz s.cursor q f hwf hc hcur hadm
  have hok := C02.locatorSound file o.ignoreWhitespace o.maxFuzz h s.offErr s.cursor hwf
  rw [hloc] at hok
  obtain ⟨s', hs'⟩ := Apply.finishHunk_total (p := p) (s := s) (num := num) hwf hD hok
  refine ⟨s', loc, hloc, hs', ?_⟩
  rcases Apply.finishHunk_ok hs' with ⟨l, _, _, _, hl, _, _, _, _, _, happ, hrej, _⟩ | ⟨hno, _⟩
  · cases hl; exact ⟨happ, hrej, hfz⟩
  · rcases hno with hno | hno
    · rw [hskip] at hno; cases hno
    · cases hno

/-! ### D99, a concrete instance: context at the end of a hunk which fuzz ignores need not be in the file

The file is `a b c d`; the hunk `@@ -2,4 +2,4 @@` has the lines ` b`, `-c`, `+C`, ` d`, ` e`: its last context line `e` would be line 5
of a file of four lines.  With fuzz 1 the last line of the hunk is not compared (the longer, trailing context is trimmed first), and
the hunk is placed at line 2 although its old side reaches one line beyond the end of the file. -/
namespace D99
def ln (c : UInt8) : Line := ⟨[c], .lf⟩
/-- a b c d -/
def file : List Line := [ln 97, ln 98, ln 99, ln 100]
/-- `@@ -2,4 +2,4 @@`: ` b`, `-c`, `+C`, ` d`, ` e` -/
def hunk : Hunk := ⟨⟨2, 4⟩, ⟨2, 4⟩, [⟨SP, ln 98⟩, ⟨MINUS, ln 99⟩, ⟨PLUS, ln 67⟩, ⟨SP, ln 100⟩, ⟨SP, ln 101⟩]⟩
def patch : Patch := { hunks := [hunk] }

theorem hunk_WF : hunk.WF := by unfold Hunk.WF; decide

/-- the placement at index 1 reaches beyond the end of the file; it is admissible with fuzz 1 (one trailing line ignored), with fuzz 0
    nothing is, anywhere -/
theorem admissible : 1 + (oldOf hunk.lines).length = file.length + 1 ∧ fuzzPair hunk.lines 1 = (0, 1) ∧
    admissibleB file hunk false 2 1 1 = true ∧ allAdmissible file hunk false 0 0 = [] ∧
    nextCursor file hunk 1 = file.length := by decide

/-- `locate_hunk` finds it at line index 1 with fuzz 1 (offset 0) -/
theorem located : locateHunk file hunk false 0 2 0 = some ⟨1, 1, 0⟩ := by decide

/-- … as `locate_complete` says it must, the fuzz being least -/
example : ∃ loc, locateHunk file hunk false 0 2 0 = some loc ∧ loc.fuzz ≤ 1 :=
  locate_complete file hunk false 0 2 0 1 1 hunk_WF (by decide) (by decide) admissible.2.2.1

/-- `apply_patch` (`-F 2`, the default) writes `a b C d`: the line `e` is not written, nothing of the file is lost, nothing is rejected -/
theorem applied : ∃ r, applyPatch file patch {} none = .ok r ∧
    r.out = [.fromFile 0 (ln 97), .fromFile 1 (ln 98), .fromPatch (ln 67), .fromFile 3 (ln 100)] ∧
    r.out = spliceAt file 0 [(hunk, 1)] ∧
    render .lf r.out = [97, 10, 98, 10, 67, 10, 100, 10] ∧
    r.applied = [(0, ⟨1, 1, 0⟩)] ∧ r.rejected = [] ∧ r.failed = 0 ∧
    r.msgs = [.hunk 1 "succeeded" 2 1 0] :=
  ⟨_, rfl, by decide⟩

#guard (match applyPatch file patch {} none with
        | .ok r => render .lf r.out == str "a\nb\nC\nd\n"
        | .error _ => false)
#guard locateHunk file hunk false 0 2 0 == some ⟨1, 1, 0⟩
-- with `-F 0` the hunk is rejected
#guard locateHunk file hunk false 0 0 0 == none

/-! #### D109: the very end of the file is a position too

Follow-up of D99: when fuzz ignores the WHOLE old side of a hunk (the old side is trailing context only, behind an addition), no line of
the file is compared, and the hunk may be placed at the very end of the file — also of an empty file.  Before D109 the scan never
looked at position `file.length` (and `admissibleB` had the conjunct `p < file.length` to match). -/

/-- the empty file -/
def file0 : List Line := []
/-- `@@ -1,2 +1,3 @@`: `+x`, ` a`, ` b` -/
def hunk0 : Hunk := ⟨⟨1, 2⟩, ⟨1, 3⟩, [⟨PLUS, ln 120⟩, ⟨SP, ln 97⟩, ⟨SP, ln 98⟩]⟩
def patch0 : Patch := { hunks := [hunk0] }

theorem hunk0_WF : hunk0.WF := by unfold Hunk.WF; decide

/-- position 0 of the empty file — its end — is admissible with fuzz 2 (both context lines ignored), and is the only admissible
    placement within `-F 2` -/
theorem eof_admissible : fuzzPair hunk0.lines 2 = (0, 2) ∧ admissibleB file0 hunk0 false 2 0 2 = true ∧
    allAdmissible file0 hunk0 false 2 0 = [(0, 2)] ∧ nextCursor file0 hunk0 0 = 0 := by decide

/-- `locate_hunk` finds it there, with fuzz 2 -/
theorem eof_located : locateHunk file0 hunk0 false 0 2 0 = some ⟨0, 2, 0⟩ := by decide

/-- … as `locate_complete` says it must -/
example : ∃ loc, locateHunk file0 hunk0 false 0 2 0 = some loc ∧ loc.fuzz ≤ 2 :=
  locate_complete file0 hunk0 false 0 2 0 0 2 hunk0_WF (by decide) (by decide) eof_admissible.2.1

/-- `apply_patch` (`-F 2`, the default) writes the one line `x` -/
theorem eof_applied : ∃ r, applyPatch file0 patch0 {} none = .ok r ∧
    r.out = [.fromPatch (ln 120)] ∧
    r.out = spliceAt file0 0 [(hunk0, 0)] ∧
    render .lf r.out = [120, 10] ∧
    r.applied = [(0, ⟨0, 2, 0⟩)] ∧ r.rejected = [] ∧ r.failed = 0 ∧
    r.msgs = [.hunk 1 "succeeded" 1 2 0] :=
  ⟨_, rfl, by decide⟩

/-- p q r -/
def file3 : List Line := [ln 112, ln 113, ln 114]
/-- `@@ -4 +4,2 @@`: `+x`, ` a` — stated behind the last line of the file -/
def hunk3 : Hunk := ⟨⟨4, 1⟩, ⟨4, 2⟩, [⟨PLUS, ln 120⟩, ⟨SP, ln 97⟩]⟩
def patch3 : Patch := { hunks := [hunk3] }

theorem hunk3_WF : hunk3.WF := by unfold Hunk.WF; decide

/-- index 3 — the end of the file — is admissible with fuzz 1; with fuzz 0 nothing is; with fuzz 1 every position is (nothing is
    left to compare), the scan starts at the stated line, which is the end of the file -/
theorem end_admissible : admissibleB file3 hunk3 false 1 3 1 = true ∧ allAdmissible file3 hunk3 false 0 0 = [] ∧
    allAdmissible file3 hunk3 false 1 0 = [(0, 1), (1, 1), (2, 1), (3, 1)] ∧
    candidates (searchStart 3 0 file3.length) 0 file3.length = [3, 2, 1, 0] := by decide

theorem end_located : locateHunk file3 hunk3 false 0 1 0 = some ⟨3, 1, 0⟩ := by decide

/-- `apply_patch -F 1` appends `x`: `p q r x` -/
theorem end_applied : ∃ r, applyPatch file3 patch3 { maxFuzz := 1 } none = .ok r ∧
    r.out = [.fromFile 0 (ln 112), .fromFile 1 (ln 113), .fromFile 2 (ln 114), .fromPatch (ln 120)] ∧
    r.out = spliceAt file3 0 [(hunk3, 3)] ∧
    render .lf r.out = [112, 10, 113, 10, 114, 10, 120, 10] ∧
    r.applied = [(0, ⟨3, 1, 0⟩)] ∧ r.rejected = [] ∧ r.failed = 0 ∧
    r.msgs = [.hunk 1 "succeeded" 4 1 0] :=
  ⟨_, rfl, by decide⟩

#guard locateHunk file0 hunk0 false 0 2 0 == some ⟨0, 2, 0⟩
#guard locateHunk file0 hunk0 false 0 1 0 == none
#guard (match applyPatch file0 patch0 {} none with
        | .ok r => render .lf r.out == str "x\n"
        | .error _ => false)
#guard locateHunk file3 hunk3 false 0 1 0 == some ⟨3, 1, 0⟩
#guard locateHunk file3 hunk3 false 0 0 0 == none
#guard (match applyPatch file3 patch3 { maxFuzz := 1 } none with
        | .ok r => render .lf r.out == str "p\nq\nr\nx\n"
        | .error _ => false)

end D99

end PatchModel.C03
