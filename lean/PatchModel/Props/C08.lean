import PatchModel.Spec.Script
namespace PatchModel.C08
/-- placeholder until the checked-arithmetic / cost theorems are in (see DESIGN.md section 5/C08) -/
theorem placeholder : True := trivial
end PatchModel.C08
