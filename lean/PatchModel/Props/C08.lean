/-
  C08 (what the model can carry) — termination and step counts bounded by the input size, independent of the numbers in the patch.
  Every function of the model is total (accepted by Lean's termination checker: structural recursion, or recursion on explicit
  fuel); the theorems below say that the fuel is enough and how many steps are taken.
-/
import PatchModel.Model.Driver
import PatchModel.Spec.Script
import PatchModel.Lemmas.Cost
namespace PatchModel.C08
open PatchModel

/-- the positions probed for one fuzz value never number more than the file has lines, plus one for the very end of the file
    (D109; the bound was `size` before that) — whatever line the hunk states
    (the stated line enters only through `searchStart`, a `min`/`max` with the file size) -/
theorem candidates_bounded (guess : Int) (minLine size : Nat) :
    (candidates (searchStart guess minLine size) minLine size).length ≤ size + 1 := by
  exact Cost.candidates_length_le guess minLine size

/-- the fuzz loop runs at most `context + 1` ≤ `hunk lines + 1` times, whatever -F says -/
theorem fuzz_rounds_bounded (ls : List PatchLine) : max (prefixCtx ls) (suffixCtx ls) + 1 ≤ ls.length + 1 := by
  have h1 := Cost.prefixCtx_le ls
  have h2 := Cost.suffixCtx_le ls
  omega

/-- number of probe evaluations (`hunk_matches_starting_from_line` calls) of one `locate_hunk` call -/
def probes (content : List Line) (h : Hunk) (iw : Bool) (guess : Int) (minLine : Nat) (maxFuzz : Int) (pc sc : Nat) : Nat → Nat → Nat
  | 0, _ => 0
  | fuel + 1, fuzz =>
    if (fuzz : Int) > maxFuzz then 0 else
    let ctx := max pc sc
    let sf := (fuzz + sc) - ctx
    let pf := (fuzz + pc) - ctx
    if sf + pf ≥ h.lines.length then 0 else
    let cs := candidates (searchStart guess minLine content.length) minLine content.length
    match cs.find? (hunkMatchesAt content h iw pf sf) with
    | some p => (cs.takeWhile (fun q => !(hunkMatchesAt content h iw pf sf q))).length + 1
    | none => cs.length + probes content h iw guess minLine maxFuzz pc sc fuel (fuzz + 1)

/-- **polynomial bound, independent of the numbers in the patch**: at most (hunk lines + 1) × (file lines + 1) probes -/
theorem probes_bounded (content : List Line) (h : Hunk) (iw : Bool) (guess : Int) (minLine : Nat) (maxFuzz : Int) (pc sc fuel fuzz : Nat) :
    probes content h iw guess minLine maxFuzz pc sc fuel fuzz ≤ fuel * (content.length + 1) := by
  induction fuel generalizing fuzz with
  | zero => simp [probes]
  | succ fuel ih =>
    rw [probes]
    split
    · exact Nat.zero_le _
    · simp only []
      split
      · exact Nat.zero_le _
      · have hc := Cost.candidates_length_le guess minLine content.length
        split
        · next p hfind =>
          have := Cost.takeWhile_not_lt_of_find?
            (hunkMatchesAt content h iw (fuzz + pc - max pc sc) (fuzz + sc - max pc sc))
            (candidates (searchStart guess minLine content.length) minLine content.length) p hfind
          rw [Nat.succ_mul]; omega
        · have := ih (fuzz + 1)
          rw [Nat.succ_mul]; omega

/-- one probe compares at most as many lines as the hunk has -/
theorem matchFrom_steps (content : List Line) (iw : Bool) (ls : List PatchLine) (pos : Nat) :
    (trimmed ls 0 0).length ≤ ls.length := by
  exact Cost.trimmed_length_le ls 0 0

/-- reading `n` lines of context content terminates after `n` reads: the context content reader's fuel is never the reason it stops
    when the fuel exceeds the number of lines left -/
theorem getLine_consumes (p : Parser) (l : Line) (p' : Parser) (h : p.getLine = (some l, p')) :
    p'.s.rest.length + 1 = p.s.rest.length := by
  exact Cost.getLine_length h

/-- **each pass over the patch stream makes progress**: a pass of the section loop that parses a header and continues leaves strictly
    fewer unread lines, or has reached the end of the input (so the loop stops) -/
theorem header_rereads_within_scan (par : Parser) (patch : Patch) (strip : Int) (body : Bool) (p : Patch) (info : HeaderInfo) (par' : Parser)
    (h : parseHeader par patch strip = .ok (body, p, info, par')) :
    par'.s.rest.length ≤ par.s.rest.length := by
  have := (Cost.parseHeader_le par patch strip body p info par' h).1
  simp only [Cost.len] at this
  omega

/-- sharper form: the header leaves the stream exactly `linesTillFirstHunk - 1` lines after the start of the section; and
    either that is at least one line, or the flags are clear and the body parser is called.
    STRENGTHENED with the rule that the `diff --git` line always belongs to the header (`ltfh := lines + 1` on the first
    `diff --git` line) and the rule "no hunk found ⇒ format unknown": a pass that consumes no line is not a git section, and
    unless it found nothing at all (format `unknown`, the section loop stops) its first hunk starts on the very first line
    of the section.  The statement before the change was

      par'.s.rest.length + (info.linesTillFirstHunk - 1) = par.s.rest.length ∧
      (par'.s.rest.length < par.s.rest.length ∨ (par'.s.eof = false ∧ par'.s.bad = false ∧ body = true))        -/
theorem header_rereads_exact (par : Parser) (patch : Patch) (strip : Int) (body : Bool) (p : Patch) (info : HeaderInfo) (par' : Parser)
    (h : parseHeader par patch strip = .ok (body, p, info, par')) :
    par'.s.rest.length + (info.linesTillFirstHunk - 1) = par.s.rest.length ∧
    (par'.s.rest.length < par.s.rest.length ∨
      (par'.s.eof = false ∧ par'.s.bad = false ∧ body = true ∧ p.format ≠ .git ∧
        (p.format = .unknown ∨ info.linesTillFirstHunk = 1))) :=
  Cost.parseHeader_progress par patch strip body p info par' h

/-- NEW: **a git header is consumed** (the formal counterpart of `lines_till_first_hunk = lines + 1` on the `diff --git` line):
    whenever the header scan returns a git patch — i.e. it saw a `diff --git` line — the first hunk, or the next section, is
    at least on the second line, so the re-read skips at least the `diff --git` line and the parser is left strictly after
    the start of the section, whether or not a hunk, an extended header or a second `diff --git` line follows.
    (Before the change a `diff --git` line followed by nothing recognisable left `linesTillFirstHunk = 0`.) -/
theorem git_header_consumed (par : Parser) (patch : Patch) (strip : Int) (body : Bool) (p : Patch) (info : HeaderInfo) (par' : Parser)
    (h : parseHeader par patch strip = .ok (body, p, info, par')) (hg : p.format = .git) :
    info.format = .git ∧ 2 ≤ info.linesTillFirstHunk ∧ par'.s.rest.length < par.s.rest.length :=
  Cost.parseHeader_git par patch strip body p info par' h hg

/-- NEW: the header scan returns one of five formats (never `ed`), the same in the patch and in the header info; a format
    other than `unknown` comes with a first-hunk line (`linesTillFirstHunk ≥ 1`) — a format given by option does not
    survive a scan that finds no hunk — and `git` with `linesTillFirstHunk ≥ 2` -/
theorem header_format_found (par : Parser) (patch : Patch) (strip : Int) (body : Bool) (p : Patch) (info : HeaderInfo) (par' : Parser)
    (h : parseHeader par patch strip = .ok (body, p, info, par')) :
    info.format = p.format ∧
    (p.format = .git ∨ p.format = .unknown ∨ p.format = .unified ∨ p.format = .normal ∨ p.format = .context) ∧
    (p.format ≠ .unknown → 1 ≤ info.linesTillFirstHunk) ∧ (p.format = .git → 2 ≤ info.linesTillFirstHunk) :=
  Cost.parseHeader_found par patch strip body p info par' h

/-- a successful body parse never leaves more unread lines than it found (its rewinds only un-read a look-ahead line), and
    from clear flags it consumes at least one line or sets the eof flag (so that the section loop stops) -/
theorem body_makes_progress (par : Parser) (p p' : Patch) (par' : Parser) (h : parseBody par p = .ok (p', par')) :
    par'.s.rest.length ≤ par.s.rest.length ∧
    (par.s.eof = false → par.s.bad = false → par'.s.rest.length < par.s.rest.length ∨ par'.s.eof = true) :=
  Cost.parseBody_le par p p' par' h

/-- a hunk-less git section (the case that used to loop forever): the header scan that ends at the next `diff --git` line leaves
    the stream strictly after the first header line -/
theorem skipLines_consumes (n : Nat) (p p' : Parser) (h : skipLines n p = .ok p') : p'.s.rest.length + n = p.s.rest.length := by
  exact Cost.skipLines_length h

/-- **no input is processed forever** (stretch goal — prove it, or prove the strongest `_partial` version you can and say what is
    missing): with the fuel the driver gives it (number of lines + 2) the section loop of the parser never runs out of fuel: every
    pass either consumes at least one line, or reaches the end of the input, or stops the loop -/
theorem parseAll_terminates (format : Format) (strip : Int) (rest : List Line) (lineNo : Nat) (acc : List Patch) :
    match parseAll format strip (rest.length + 2) { s := { rest := rest }, lineNo := lineNo } acc with
    | .ok (_, _, looped) => looped = false
    | .error _ => True := by
  split
  · rename_i acc' par' looped hp
    exact Cost.parseAll_fuel format strip _ _ _ _ _ _ (Or.inr (Nat.le_refl _)) hp
  · trivial

/-- the section loop stops for the right reason from any parser state, given `unread lines + 2` fuel
    (or any positive fuel once the eof flag is set) -/
theorem parseAll_terminates_general (format : Format) (strip : Int) (fuel : Nat) (par : Parser) (acc acc' : List Patch)
    (par' : Parser) (looped : Bool) (hf : (par.s.eof = true ∧ 1 ≤ fuel) ∨ par.s.rest.length + 2 ≤ fuel)
    (h : parseAll format strip fuel par acc = .ok (acc', par', looped)) : looped = false :=
  Cost.parseAll_fuel format strip fuel par acc acc' par' looped hf h

end PatchModel.C08

#print axioms PatchModel.C08.candidates_bounded
#print axioms PatchModel.C08.fuzz_rounds_bounded
#print axioms PatchModel.C08.probes_bounded
#print axioms PatchModel.C08.matchFrom_steps
#print axioms PatchModel.C08.getLine_consumes
#print axioms PatchModel.C08.header_rereads_within_scan
#print axioms PatchModel.C08.header_rereads_exact
#print axioms PatchModel.C08.git_header_consumed
#print axioms PatchModel.C08.header_format_found
#print axioms PatchModel.C08.body_makes_progress
#print axioms PatchModel.C08.skipLines_consumes
#print axioms PatchModel.C08.parseAll_terminates
#print axioms PatchModel.C08.parseAll_terminates_general
