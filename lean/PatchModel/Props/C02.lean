/-
  C02 — a hunk is applied only where its old lines really are.
  Property theorems only; helper lemmas live in PatchModel/Lemmas.
-/
import PatchModel.Spec.Script
import PatchModel.Lemmas.Ws
import PatchModel.Lemmas.Locate
namespace PatchModel.C02
open PatchModel

/-- the `-l` comparison is exactly "equal after collapsing blank runs and dropping trailing blanks",
    for all pairs of byte strings -/
theorem ws_spec (a b : Bytes) : miw a b = true ↔ normWs a = normWs b :=
  miw_iff_normWs a b

/-- `matches` is the spec relation `lineEqB` -/
theorem lineMatches_spec (a b : Line) (iw : Bool) : lineMatches a b iw = lineEqB iw a b :=
  lineMatches_eq_lineEqB a b iw

/-- whatever `locate_hunk` returns for a hunk with an old side is an admissible placement at or after `min_line` -/
theorem locate_sound (file : List Line) (h : Hunk) (iw : Bool) (offset maxFuzz : Int) (minLine : Nat) (loc : Location)
    (hloc : locateHunk file h iw offset maxFuzz minLine = some loc) (hc : h.old.count ≠ 0) :
    ∃ p f : Nat, loc.line = (p : Int) ∧ loc.fuzz = (f : Int) ∧ minLine ≤ p ∧
      admissibleB file h iw maxFuzz p f = true ∧
      loc.offset = (p : Int) - (expectedLine h - 1 + offset) := by
  obtain ⟨p, f, e, h1, _, h2, _⟩ := locateHunk_some file h iw offset maxFuzz minLine loc hc hloc
  subst e
  exact ⟨p, f, rfl, rfl, h1, h2, rfl⟩

/-- a context-free insertion goes to its stated line, inside the file, never before the cursor -/
theorem locate_insertion (file : List Line) (h : Hunk) (iw : Bool) (offset maxFuzz : Int) (minLine : Nat) (loc : Location)
    (hloc : locateHunk file h iw offset maxFuzz minLine = some loc) (hc : h.old.count = 0) :
    loc.fuzz = 0 ∧ loc.offset = 0 ∧ loc.line = expectedLine h - 1 + offset ∧
      (minLine : Int) ≤ loc.line ∧ loc.line ≤ (file.length : Int) := by
  unfold locateHunk at hloc
  simp only [hc, if_true] at hloc
  split at hloc
  · cases hloc
  · split at hloc
    · cases hloc
    · next hr =>
      injection hloc with hloc
      subst hloc
      refine ⟨rfl, rfl, rfl, ?_, ?_⟩ <;> simp only <;> omega

end PatchModel.C02
