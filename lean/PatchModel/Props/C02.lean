import PatchModel.Spec.Place
namespace PatchModel.C02
theorem placeholder : True := trivial
end PatchModel.C02
