/-
  C01 (apply_patch level) — applying a diff reproduces the new file exactly.
-/
import PatchModel.Spec.Script
import PatchModel.Lemmas.Valid
import PatchModel.Props.C03
import PatchModel.Lemmas.ApplyLoop
namespace PatchModel.C01
open PatchModel PatchModel.Script

/-! ### helpers: the locator and the hunk loop on a valid script -/

theorem lines_ne_nil_of_count {h : Hunk} (hw : h.WF) (hc : h.old.count ≠ 0) : h.lines ≠ [] := by
  intro e
  apply hc
  rw [hw.2.1, e]; rfl

/-- under the head conditions of `Valid` the locator returns the stated place, fuzz 0, offset 0 -/
theorem locate_inplace (file : List Line) (h : Hunk) (iw : Bool) (maxFuzz : Int) (c p : Nat)
    (hw : h.WF) (hp : h.pos0 = (p : Int)) (hcp : c ≤ p)
    (hold : (file.drop p).take (oldOf h.lines).length = oldOf h.lines)
    (hfit : p + (oldOf h.lines).length ≤ file.length)
    (hex : ¬ (h.old.count = 0 ∧ h.old.start = 0 ∧ file ≠ []))
    (hF : 0 ≤ maxFuzz) :
    locateHunk file h iw 0 maxFuzz c = some ⟨p, 0, 0⟩ := by
  have hg : expectedLine h - 1 + 0 = (p : Int) := by
    unfold Hunk.pos0 at hp; omega
  by_cases hc : h.old.count = 0
  · exact C03.locate_insertion_exact file h iw 0 maxFuzz c p hc hg hcp (by omega)
      (fun hh => hex ⟨hc, hh.1, hh.2⟩)
  · exact C03.locate_exact file h iw 0 maxFuzz c p hw hc hg hcp
      (admissible_of_inplace file h iw maxFuzz p hF (lines_ne_nil_of_count hw hc) hold hfit
        (by have := hw.2.1; omega))

/-- the placements a valid script states, numbered from `num` -/
def statedFrom (num : Nat) (hs : List Hunk) : List (Nat × Location) :=
  (hs.zipIdx num).map fun (h, i) => (i, ⟨h.pos0, 0, 0⟩)

/-- the hunk loop on a valid script: every hunk is written at its stated place -/
theorem applyRest_valid (file : List Line) (o : ApplyOpts) (pt : Patch)
    (hD : o.define = []) (hF : 0 ≤ o.maxFuzz) :
    ∀ (c : Nat) (d : Int) (hs : List Hunk), Valid file c d hs →
    ∀ (s : AState) (num : Nat), s.cursor = c → s.offErr = 0 → s.skip = false →
    ∃ s', applyRest file o pt s num hs = .ok s' ∧
      (s'.out ++ copyRange file s'.cursor (file.length - s'.cursor)).map Out.line =
        s.out.map Out.line ++ splice file c hs ∧
      s'.rejected = s.rejected ∧ s'.rejBytes = s.rejBytes ∧ s'.perfect = s.perfect ∧ s'.skip = false ∧
      s'.applied = s.applied ++ statedFrom num hs ∧
      (o.verbose = false → s'.msgs = s.msgs) ∧ s.msgs <+: s'.msgs ∧ s'.tty = s.tty := by
  intro c d hs hv
  induction hv with
  | nil c d hc =>
    intro s num hcur _ hsk
    refine ⟨s, rfl, ?_, rfl, rfl, rfl, hsk, by simp [statedFrom], fun _ => rfl, List.prefix_refl _, rfl⟩
    rw [List.map_append, copyRange_map_line, hcur, splice]
    rw [List.take_of_length_le (by simp)]
  | cons c d h hs p hw hp hcp hold hfit hnew hex hv' ih =>
    intro s num hcur hoff hsk
    have hloc := locate_inplace file h o.ignoreWhitespace o.maxFuzz c p hw hp hcp hold hfit hex hF
    obtain ⟨s1, e1, a1, a2, a3, a4, a5, a6, a7, a8, a9, a10, a11, _⟩ :=
      finishHunk_inplace file o pt s num h p hD hsk hw.1 hfit
    obtain ⟨s2, e2, b1, b2, b3, b4, b5, b6, b7, b8, b9⟩ := ih s1 (num + 1) a2 (a3.trans hoff) a4
    refine ⟨s2, ?_, ?_, b2.trans a7, b3.trans a6, b4.trans a5, b5, ?_,
      fun hv => (b7 hv).trans (a9 hv), a10.trans b8, b9.trans a11⟩
    · simp only [applyRest, hoff, hcur, hloc, e1, e2]
    · have hp0 : h.pos0.toNat = p := by rw [hp]; simp
      rw [b1, a1, splice, hp0, hcur]
      simp only [List.map_append, copyRange_map_line,
        hunkOutput_map_line file h.lines p hw.1 hold hfit, List.append_assoc]
    · rw [b6, a8]
      simp [statedFrom, List.zipIdx_cons, hp]


/-- the placements a valid script states: hunk i at its stated line, fuzz 0, offset 0 -/
def statedPlacements (hs : List Hunk) : List (Nat × Location) :=
  hs.zipIdx.map fun (h, i) => (i, ⟨h.pos0, 0, 0⟩)

/-- the `finish` closure of `applyPatch` -/
def finishRes (file : List Line) (p : Patch) (s : AState) : ApplyResult :=
  { out := s.out ++ copyRange file s.cursor (file.length - s.cursor), rejBytes := s.rejBytes,
    failed := s.rejected.length, skipped := s.skip, perfect := s.perfect, rejected := s.rejected,
    applied := s.applied, msgs := s.msgs, patch := p, tty := s.tty }

/-- the first iteration (done separately by `apply_patch`) followed by the loop is the loop from hunk 0 -/
theorem first_then_rest {α : Type} (file : List Line) (o : ApplyOpts) (pt : Patch) (s : AState) (h0 : Hunk)
    (rest : List Hunk) (F : AState → α) :
    (match finishHunk file o pt s 0 h0 (locateHunk file h0 o.ignoreWhitespace s.offErr o.maxFuzz s.cursor) with
      | .error e => (Except.error e : Except Exn α)
      | .ok s2 => match applyRest file o pt s2 1 rest with
        | .error e => .error e
        | .ok s3 => .ok (F s3)) =
    (match applyRest file o pt s 0 (h0 :: rest) with
      | .error e => .error e
      | .ok s3 => .ok (F s3)) := by
  simp only [applyRest]
  cases finishHunk file o pt s 0 h0 _ <;> rfl

/-- `apply_patch` on a valid script (with or without -R: `hs` is the script after the optional reversal) -/
theorem applyPatch_valid (file : List Line) (hs : List Hunk) (p0 : Patch) (o : ApplyOpts) (tty : Option (List Bool))
    (hv : Valid file 0 0 hs) (hp : (if o.reverse then reversePatch p0 else p0).hunks = hs)
    (hD : o.define = []) (hF : 0 ≤ o.maxFuzz) :
    ∃ r, applyPatch file p0 o tty = .ok r ∧
      r.out.map Out.line = splice file 0 hs ∧
      r.rejected = [] ∧ r.failed = 0 ∧ r.rejBytes = [] ∧ r.perfect = true ∧ r.skipped = false ∧
      r.applied = statedPlacements hs ∧
      (o.verbose = false → r.msgs = []) ∧ r.tty = tty ∧
      r.patch = (if o.reverse then reversePatch p0 else p0) := by
  unfold applyPatch
  simp only []
  generalize (if o.reverse = true then reversePatch p0 else p0) = p at hp ⊢
  cases hs with
  | nil =>
    rw [hp]
    refine ⟨_, rfl, ?_⟩
    simp [copyRange_map_line, splice, statedPlacements]
  | cons h0 rest =>
    rw [hp]
    simp only []
    cases hv with
    | cons _ _ _ _ q hw hq hcq hold hfit hnew hex hv' =>
    have hloc := locate_inplace file h0 o.ignoreWhitespace o.maxFuzz 0 q hw hq hcq hold hfit hex hF
    have hsc : shouldCheckReversed (some ⟨q, 0, 0⟩) o = false := by simp [shouldCheckReversed]
    rw [hloc, hsc]
    simp only [Bool.false_eq_true, if_false]
    obtain ⟨s3, e, b1, b2, b3, b4, b5, b6, b7, b8, b9⟩ :=
      applyRest_valid file o p hD hF 0 0 (h0 :: rest)
        (Valid.cons 0 0 h0 rest q hw hq hcq hold hfit hnew hex hv') ({ tty := tty } : AState) 0 rfl rfl rfl
    have := first_then_rest file o p ({ tty := tty } : AState) h0 rest
      (finishRes file p)
    simp only [hloc] at this
    refine ⟨finishRes file p s3, ?_, ?_, b2, ?_, b3, b4, b5, ?_, ?_, b9, rfl⟩
    · refine Eq.trans this ?_
      rw [e]
    · simpa [finishRes] using b1
    · simp [finishRes, b2]
    · simpa [finishRes, statedFrom, statedPlacements] using b6
    · intro hvb; exact b7 hvb

/-- **C01 core**: for every file and every valid script (a diff of that file: any number of hunks, any context
    width, missing final newlines, repeated lines elsewhere in the file), with any `-F ≥ 0`, with or without `-l`,
    `-N`, `-t`, `-f`, any newline mode, with or without a tty: `apply_patch` returns, its output is exactly the
    intended new file, every hunk lands at its stated line with fuzz 0 and offset 0 (even when the same text also
    occurs elsewhere), nothing is rejected, no question is asked, and nothing is printed unless --verbose. -/
theorem C01_core (file : List Line) (hs : List Hunk) (p0 : Patch) (o : ApplyOpts) (tty : Option (List Bool))
    (hv : Valid file 0 0 hs) (hp : p0.hunks = hs)
    (hD : o.define = []) (hR : o.reverse = false) (hF : 0 ≤ o.maxFuzz) :
    ∃ r, applyPatch file p0 o tty = .ok r ∧
      r.out.map Out.line = splice file 0 hs ∧
      r.rejected = [] ∧ r.failed = 0 ∧ r.rejBytes = [] ∧ r.perfect = true ∧ r.skipped = false ∧
      r.applied = statedPlacements hs ∧
      (o.verbose = false → r.msgs = []) ∧ r.tty = tty := by
  obtain ⟨r, h1, h2, h3, h4, h5, h6, h7, h8, h9, h10, _⟩ :=
    applyPatch_valid file hs p0 o tty hv (by simp [hR, hp]) hD hF
  exact ⟨r, h1, h2, h3, h4, h5, h6, h7, h8, h9, h10⟩

/-- bytes level: the output file is the intended new file as text (`Render.renderText`: every line as it is in the mode, except
    that a line without newline which is not the last one gets the newline of the mode — the writer's rule, D97; before it the
    right-hand side was `renderLines`, and a `Valid` script could glue an added line to an unterminated one, see
    `C01_bytes_glue` below) -/
theorem C01_bytes (file : List Line) (hs : List Hunk) (p0 : Patch) (o : ApplyOpts) (tty : Option (List Bool))
    (hv : Valid file 0 0 hs) (hp : p0.hunks = hs)
    (hD : o.define = []) (hR : o.reverse = false) (hF : 0 ≤ o.maxFuzz) :
    ∃ r, applyPatch file p0 o tty = .ok r ∧
      render o.newlineOutput r.out = Render.renderText o.newlineOutput (splice file 0 hs) := by
  obtain ⟨r, h1, h2, _⟩ := C01_core file hs p0 o tty hv hp hD hR hF
  exact ⟨r, h1, Render.render_eq_renderText_of_map_line _ (ApplyLoop.applyPatch_noBare hD h1) h2⟩

/-- bytes level, the intended new file a text whose only possibly unterminated line is the last (every file as read by
    `splitLines` is one: `Render.linesTerminated_splitLines`): the output is its lines rendered one by one -/
theorem C01_bytes_terminated (file : List Line) (hs : List Hunk) (p0 : Patch) (o : ApplyOpts) (tty : Option (List Bool))
    (hv : Valid file 0 0 hs) (hp : p0.hunks = hs)
    (hD : o.define = []) (hR : o.reverse = false) (hF : 0 ≤ o.maxFuzz)
    (hnew : Render.LinesTerminated (splice file 0 hs)) :
    ∃ r, applyPatch file p0 o tty = .ok r ∧
      render o.newlineOutput r.out = renderLines o.newlineOutput (splice file 0 hs) := by
  obtain ⟨r, h1, h2⟩ := C01_bytes file hs p0 o tty hv hp hD hR hF
  exact ⟨r, h1, by rw [h2, Render.renderText_eq_renderLines _ _ hnew]⟩

/-- the new file given as bytes -/
theorem C01_bytes_new (file : List Line) (hs : List Hunk) (p0 : Patch) (o : ApplyOpts) (tty : Option (List Bool))
    (newBytes : Bytes)
    (hv : Valid file 0 0 hs) (hp : p0.hunks = hs)
    (hD : o.define = []) (hR : o.reverse = false) (hF : 0 ≤ o.maxFuzz)
    (hnew : splice file 0 hs = splitLines newBytes) :
    ∃ r, applyPatch file p0 o tty = .ok r ∧
      render o.newlineOutput r.out = renderLines o.newlineOutput (splitLines newBytes) := by
  obtain ⟨r, h1, h2⟩ := C01_bytes_terminated file hs p0 o tty hv hp hD hR hF
    (by rw [hnew]; exact Render.linesTerminated_splitLines newBytes)
  exact ⟨r, h1, by rw [h2, hnew]⟩

/-- why `C01_bytes` speaks of `renderText`: the file "c" (no final newline) and the `Valid` one-hunk script " c" (no newline), "+d\n".
    The intended lines are "c" (unterminated) and "d\n"; their bytes one by one would be "cd\n", the output is "c\nd\n". -/
def glueFile : List Line := [⟨[99], .none⟩]
def glueHunk : Hunk :=
  { old := ⟨1, 1⟩, new := ⟨1, 2⟩, lines := [⟨SP, ⟨[99], .none⟩⟩, ⟨PLUS, ⟨[100], .lf⟩⟩] }

theorem C01_bytes_glue :
    validB glueFile 0 0 [glueHunk] = true ∧
    splice glueFile 0 [glueHunk] = [⟨[99], .none⟩, ⟨[100], .lf⟩] ∧
    renderLines .lf (splice glueFile 0 [glueHunk]) = [99, 100, 10] ∧
    Render.renderText .lf (splice glueFile 0 [glueHunk]) = [99, 10, 100, 10] ∧
    (∃ r, applyPatch glueFile { hunks := [glueHunk] } { newlineOutput := .lf } none = .ok r ∧
      render .lf r.out = [99, 10, 100, 10]) := by
  refine ⟨by decide, by decide, by decide, by decide, ?_⟩
  have hv : Valid glueFile 0 0 [glueHunk] := by
    refine Valid.cons 0 0 glueHunk [] 0 ?_ (by decide) (by decide) (by decide) (by decide) (by decide) (by decide) ?_
    · refine ⟨?_, by decide, by decide⟩
      intro pl hpl
      simp only [glueHunk, List.mem_cons, List.mem_nil_iff, or_false] at hpl
      rcases hpl with rfl | rfl
      · exact Or.inl rfl
      · exact Or.inr (Or.inl rfl)
    · exact Valid.nil _ _ (by decide)
  obtain ⟨r, h1, h2⟩ := C01_bytes glueFile [glueHunk] { hunks := [glueHunk] } { newlineOutput := .lf } none hv rfl rfl rfl
    (by decide)
  exact ⟨r, h1, h2.trans (by decide)⟩

/-! ### non-vacuity: a valid script exists for every pair of files -/

def commonPrefixLen : List Line → List Line → Nat
  | a :: as, b :: bs => if a = b then commonPrefixLen as bs + 1 else 0
  | _, _ => 0

/-- one hunk: common prefix and suffix trimmed, no context — except that a pure insertion at the very top of a
    non-empty file carries the first old line as context (the zero-context form of it is known finding D2) -/
def diffTrim (a b : List Line) : List Hunk :=
  if a = b then [] else
  let pre := commonPrefixLen a b
  let a' := a.drop pre
  let b' := b.drop pre
  let suf := commonPrefixLen a'.reverse b'.reverse
  let dels := a'.take (a'.length - suf)
  let adds := b'.take (b'.length - suf)
  if pre = 0 ∧ dels = [] ∧ a ≠ [] then
    -- insertion at the top of a non-empty file: keep one line of trailing context
    match a with
    | first :: _ =>
      [{ old := ⟨1, 1⟩, new := ⟨1, adds.length + 1⟩,
         lines := adds.map (⟨PLUS, ·⟩) ++ [⟨SP, first⟩] }]
    | [] => []
  else
    [{ old := ⟨if dels = [] then pre else pre + 1, dels.length⟩,
       new := ⟨if adds = [] then pre else pre + 1, adds.length⟩,
       lines := dels.map (⟨MINUS, ·⟩) ++ adds.map (⟨PLUS, ·⟩) }]

theorem cpl_le : ∀ (a b : List Line), commonPrefixLen a b ≤ a.length ∧ commonPrefixLen a b ≤ b.length
  | [], _ => by simp [commonPrefixLen]
  | _ :: _, [] => by simp [commonPrefixLen]
  | x :: as, y :: bs => by
    have := cpl_le as bs
    simp only [commonPrefixLen]
    split <;> simp <;> omega

theorem cpl_take : ∀ (a b : List Line), a.take (commonPrefixLen a b) = b.take (commonPrefixLen a b)
  | [], _ => by simp [commonPrefixLen]
  | _ :: _, [] => by simp [commonPrefixLen]
  | x :: as, y :: bs => by
    have := cpl_take as bs
    simp only [commonPrefixLen]
    split
    · next h => simp [h, this]
    · simp

theorem oldOf_dels_adds (D A : List Line) :
    oldOf (D.map (⟨MINUS, ·⟩) ++ A.map (⟨PLUS, ·⟩)) = D := by
  induction D with
  | nil =>
    induction A with
    | nil => rfl
    | cons x A ih => simp [oldOf]
  | cons x D ih => simp only [List.map_cons, List.cons_append]; rw [oldOf_cons_minus rfl, ih]

theorem newOf_dels_adds (D A : List Line) :
    newOf (D.map (⟨MINUS, ·⟩) ++ A.map (⟨PLUS, ·⟩)) = A := by
  induction D with
  | nil =>
    induction A with
    | nil => rfl
    | cons x A ih => simp only [List.map_cons, List.map_nil, List.nil_append] at ih ⊢; rw [newOf_cons_plus rfl, ih]
  | cons x D ih => simp only [List.map_cons, List.cons_append]; rw [newOf_cons_minus rfl, ih]

theorem opsOK_dels_adds (D A : List Line) : OpsOK (D.map (⟨MINUS, ·⟩) ++ A.map (⟨PLUS, ·⟩)) := by
  intro pl hpl
  rcases List.mem_append.1 hpl with h | h
  · obtain ⟨_, _, rfl⟩ := List.mem_map.1 h; right; right; rfl
  · obtain ⟨_, _, rfl⟩ := List.mem_map.1 h; right; left; rfl

theorem valid_single (a P D A S : List Line) (ha : a = P ++ D ++ S)
    (hex : ¬ (D = [] ∧ P = [] ∧ a ≠ [])) :
    let h : Hunk := { old := ⟨if D = [] then P.length else P.length + 1, D.length⟩,
                      new := ⟨if A = [] then P.length else P.length + 1, A.length⟩,
                      lines := D.map (⟨MINUS, ·⟩) ++ A.map (⟨PLUS, ·⟩) }
    Valid a 0 0 [h] ∧ splice a 0 [h] = P ++ A ++ S := by
  intro h
  have ho : oldOf h.lines = D := oldOf_dels_adds D A
  have hn : newOf h.lines = A := newOf_dels_adds D A
  have hpos : h.pos0 = (P.length : Int) := by
    show (if ((D.length : Nat) : Int) = 0 then (if D = [] then (P.length : Int) else P.length + 1) + 1
      else (if D = [] then (P.length : Int) else P.length + 1)) - 1 = _
    cases D <;> simp <;> omega
  have hnpos : h.newPos0 = (P.length : Int) := by
    show (if ((A.length : Nat) : Int) = 0 then (if A = [] then (P.length : Int) else P.length + 1) + 1
      else (if A = [] then (P.length : Int) else P.length + 1)) - 1 = _
    cases A <;> simp <;> omega
  constructor
  · refine Valid.cons 0 0 h [] P.length ⟨opsOK_dels_adds D A, by rw [ho], by rw [hn]⟩ hpos (Nat.zero_le _)
      ?_ ?_ (by rw [hnpos]; omega) ?_ (Valid.nil _ _ ?_)
    · rw [ho, ha, List.append_assoc, List.drop_left, List.take_left]
    · rw [ho, ha]; simp
    · intro ⟨h1, h2, h3⟩
      have hD : D = [] := by
        have : ((D.length : Nat) : Int) = 0 := h1
        exact List.length_eq_zero_iff.1 (by omega)
      have : (if D = [] then (P.length : Int) else P.length + 1) = 0 := h2
      rw [if_pos hD] at this
      exact hex ⟨hD, List.length_eq_zero_iff.1 (by omega), h3⟩
    · rw [ho, ha]; simp
  · have hp0 : h.pos0.toNat = P.length := by rw [hpos]; simp
    simp only [splice, hp0, ho, hn]
    rw [ha]
    simp [List.append_assoc]

theorem oldOf_adds_ctx (first : Line) (A : List Line) :
    oldOf (A.map (⟨PLUS, ·⟩) ++ [⟨SP, first⟩]) = [first] := by
  induction A with
  | nil => rfl
  | cons x A ih => simp only [List.map_cons, List.cons_append]; rw [oldOf_cons_plus rfl, ih]

theorem newOf_adds_ctx (first : Line) (A : List Line) :
    newOf (A.map (⟨PLUS, ·⟩) ++ [⟨SP, first⟩]) = A ++ [first] := by
  induction A with
  | nil => rfl
  | cons x A ih => simp only [List.map_cons, List.cons_append]; rw [newOf_cons_plus rfl, ih]

theorem valid_top (first : Line) (t A : List Line) :
    let h : Hunk := { old := ⟨1, 1⟩, new := ⟨1, A.length + 1⟩,
                      lines := A.map (⟨PLUS, ·⟩) ++ [⟨SP, first⟩] }
    Valid (first :: t) 0 0 [h] ∧ splice (first :: t) 0 [h] = A ++ first :: t := by
  intro h
  have ho : oldOf h.lines = [first] := oldOf_adds_ctx first A
  have hn : newOf h.lines = A ++ [first] := newOf_adds_ctx first A
  have hops : OpsOK h.lines := by
    intro pl hpl
    rcases List.mem_append.1 hpl with h | h
    · obtain ⟨_, _, rfl⟩ := List.mem_map.1 h; right; left; rfl
    · rw [List.mem_singleton.1 h]; left; rfl
  have hpos : h.pos0 = ((0 : Nat) : Int) := rfl
  have hnpos : h.newPos0 = 0 := by
    show (if (A.length : Int) + 1 = 0 then (1 : Int) + 1 else 1) - 1 = 0
    rw [if_neg (by omega)]; rfl
  constructor
  · refine Valid.cons 0 0 h [] 0 ⟨hops, by rw [ho]; rfl, by rw [hn]; simp; rfl⟩ hpos (Nat.le_refl _)
      ?_ ?_ (by rw [hnpos]; rfl) ?_ (Valid.nil _ _ ?_)
    · rw [ho]; rfl
    · rw [ho]; simp
    · intro ⟨h1, _, _⟩
      have : (1 : Int) = 0 := h1
      omega
    · rw [ho]; simp
  · have hp0 : h.pos0.toNat = 0 := rfl
    simp only [splice, hp0, ho, hn]
    simp

/-- the hunk list of `diffTrim` as a function of the trimmed pieces -/
def trimCore (a : List Line) (pre : Nat) (dels adds : List Line) : List Hunk :=
  if pre = 0 ∧ dels = [] ∧ a ≠ [] then
    match a with
    | first :: _ =>
      [{ old := ⟨1, 1⟩, new := ⟨1, adds.length + 1⟩,
         lines := adds.map (⟨PLUS, ·⟩) ++ [⟨SP, first⟩] }]
    | [] => []
  else
    [{ old := ⟨if dels = [] then pre else pre + 1, dels.length⟩,
       new := ⟨if adds = [] then pre else pre + 1, adds.length⟩,
       lines := dels.map (⟨MINUS, ·⟩) ++ adds.map (⟨PLUS, ·⟩) }]

theorem trimCore_valid (a b P D A S : List Line) (ha : a = P ++ D ++ S) (hb : b = P ++ A ++ S) :
    Valid a 0 0 (trimCore a P.length D A) ∧ splice a 0 (trimCore a P.length D A) = b := by
  unfold trimCore
  split
  · next hc =>
    obtain ⟨hP, hD, hne⟩ := hc
    have hP' : P = [] := List.length_eq_zero_iff.1 hP
    subst hP' hD
    simp only [List.nil_append, List.append_nil] at ha hb
    subst ha
    cases a with
    | nil => exact absurd rfl hne
    | cons first t =>
      simp only []
      rw [hb]
      exact valid_top first t A
  · next hc =>
    rw [hb]
    exact valid_single a P D A S ha (fun ⟨h1, h2, h3⟩ => hc ⟨by rw [h2]; rfl, h1, h3⟩)

/-- both files are `common prefix ++ middle ++ common suffix` -/
theorem trim_shape (a b : List Line) :
    let pre := commonPrefixLen a b
    let a' := a.drop pre
    let b' := b.drop pre
    let suf := commonPrefixLen a'.reverse b'.reverse
    ∃ P S : List Line, P.length = pre ∧
      a = P ++ a'.take (a'.length - suf) ++ S ∧
      b = P ++ b'.take (b'.length - suf) ++ S := by
  intro pre a' b' suf
  have hle := cpl_le a b
  have hP : a.take pre = b.take pre := cpl_take a b
  have hS : a'.drop (a'.length - suf) = b'.drop (b'.length - suf) := by
    have := cpl_take a'.reverse b'.reverse
    rw [List.take_reverse, List.take_reverse] at this
    exact List.reverse_inj.1 this
  refine ⟨a.take pre, a'.drop (a'.length - suf), by rw [List.length_take]; omega, ?_, ?_⟩
  · rw [List.append_assoc, List.take_append_drop, List.take_append_drop]
  · rw [hS, hP, List.append_assoc, List.take_append_drop, List.take_append_drop]

theorem diffTrim_valid (a b : List Line) : Valid a 0 0 (diffTrim a b) ∧ splice a 0 (diffTrim a b) = b := by
  by_cases hab : a = b
  · simp only [diffTrim, if_pos hab]
    exact ⟨Valid.nil _ _ (Nat.zero_le _), by simp [splice, hab]⟩
  · have e : diffTrim a b = trimCore a (commonPrefixLen a b)
        ((a.drop (commonPrefixLen a b)).take ((a.drop (commonPrefixLen a b)).length -
          commonPrefixLen (a.drop (commonPrefixLen a b)).reverse (b.drop (commonPrefixLen a b)).reverse))
        ((b.drop (commonPrefixLen a b)).take ((b.drop (commonPrefixLen a b)).length -
          commonPrefixLen (a.drop (commonPrefixLen a b)).reverse (b.drop (commonPrefixLen a b)).reverse)) := by
      simp only [diffTrim, if_neg hab, trimCore]
    rw [e]
    obtain ⟨P, S, hl, ha, hb⟩ := trim_shape a b
    have key := trimCore_valid a b P _ _ S ha hb
    rw [hl] at key
    exact key

end PatchModel.C01
