/-
  C11 — a patch stream is the sum of its sections; surrounding text is ignored (parser level).
-/
import PatchModel.Spec.Inert
import PatchModel.Spec.Diff
import PatchModel.Lemmas.Inert
namespace PatchModel.C11
open PatchModel PatchModel.Inert

/-
  `inert_step` / `inert_step_git` AS FIRST STATED ARE FALSE: nothing was assumed about `st.thisLooks`, but the line
  after a line that looked like a unified range is taken as the first body line when it starts with "+", "-" or " ",
  and the line after a line that looked like a normal range when it starts with "> " or "< " — `inertLine` excludes
  neither.  Counterexamples (`#eval`, both with `patch := {}`, `isGit := false`; the first one also with `isGit := true`):

    headerStep { par := ⟨⟨[], false, false⟩, 1⟩, patch := {}, thisLooks := .unified } (str " foo") 0
      = .ok (st', false)  with st'.patch.format = .unified          (inertLine (str " foo") = inertGitLine (str " foo") = true)
    headerStep { par := ⟨⟨[], false, false⟩, 1⟩, patch := {}, thisLooks := .normal } (str "> foo") 0
      = .ok (st', false)  with st'.patch.format = .normal           (inertLine (str "> foo") = true)

  (Unchanged by the reordering of `headerStep` — the "first body line" test for the unified format now comes before the
  keyword tests, which matters only for lines that are NOT inert (`--- x`, `+++ y`); the `#guard`s below evaluate as before.)

  Minimal repair: the hypothesis `st.thisLooks = .unknown` (true at the start of a scan, after every header keyword
  line and after every inert line).  `Inert.headerStep_inert` has the weaker `thisLooks ∉ {unified, normal}`.

  theorem inert_step (st : HState) (l : Bytes) (strip : Int) (hi : inertLine l = true) (hg : st.isGit = false) :
      headerStep st l strip = .ok ({ st with lines := st.lines + 1, thisLooks := .unknown }, true)
  theorem inert_step_git (st : HState) (l : Bytes) (strip : Int) (hi : inertGitLine l = true) (hg : st.isGit = true) :
      headerStep st l strip = .ok ({ st with lines := st.lines + 1, thisLooks := .unknown }, true)
-/

-- the counterexamples, evaluated: the scan stops (`false`) and commits to a format
#guard inertLine (str " foo") && inertGitLine (str " foo") && inertLine (str "> foo")
#guard match headerStep { par := { s := { rest := [] } }, patch := {}, thisLooks := .unified } (str " foo") 0 with
  | .ok (s, c) => !c && s.patch.format == .unified | _ => false
#guard match headerStep { par := { s := { rest := [] } }, patch := {}, thisLooks := .unified, isGit := true } (str " foo") 0 with
  | .ok (s, c) => !c && s.patch.format == .unified | _ => false
#guard match headerStep { par := { s := { rest := [] } }, patch := {}, thisLooks := .normal } (str "> foo") 0 with
  | .ok (s, c) => !c && s.patch.format == .normal | _ => false

/-- an inert line is skipped by the header scan: nothing changes but the line counter (the "what did the previous
    line look like" marker stays reset) — outside a git section, when the previous line was no range line -/
theorem inert_step_partial (st : HState) (l : Bytes) (strip : Int) (hi : inertLine l = true) (hg : st.isGit = false)
    (hl : st.thisLooks = .unknown) :
    headerStep st l strip = .ok ({ st with lines := st.lines + 1, thisLooks := .unknown }, true) :=
  headerStep_inert st l strip hi hg (hl ▸ calm_unknown)

/-- the same inside a git section for lines that are no extended header either -/
theorem inert_step_git_partial (st : HState) (l : Bytes) (strip : Int) (hi : inertGitLine l = true)
    (_hg : st.isGit = true) (hl : st.thisLooks = .unknown) :
    headerStep st l strip = .ok ({ st with lines := st.lines + 1, thisLooks := .unknown }, true) :=
  headerStep_inertGit st l strip hi (hl ▸ calm_unknown)

/-
  `headerLoop_filler` as first stated is false for the same reason (first filler line after a range line):

  theorem headerLoop_filler (strip : Int) (filler : List Line) (hin : ∀ l ∈ filler, inertLine l.content = true)
      (hterm : ∀ l ∈ filler, l.newline ≠ .none)
      (st : HState) (hg : st.isGit = false) (hflags : st.par.s.eof = false ∧ st.par.s.bad = false)
      (rest : List Line) (hrest : st.par.s.rest = filler ++ rest) (fuel : Nat) :
      headerLoop strip (fuel + filler.length) st = headerLoop strip fuel { st with … }

  Repair: the hypothesis `hl : st.thisLooks = .unknown ∨ filler = []`; the conclusion is unchanged.
-/

/-- the header loop over a block of inert lines followed by anything: same as the loop started after the block, with the
    line counter advanced -/
theorem headerLoop_filler_partial (strip : Int) (filler : List Line) (hin : ∀ l ∈ filler, inertLine l.content = true)
    (hterm : ∀ l ∈ filler, l.newline ≠ .none)
    (st : HState) (hg : st.isGit = false) (hl : st.thisLooks = .unknown ∨ filler = [])
    (hflags : st.par.s.eof = false ∧ st.par.s.bad = false)
    (rest : List Line) (hrest : st.par.s.rest = filler ++ rest) (fuel : Nat) :
    headerLoop strip (fuel + filler.length) st =
      headerLoop strip fuel { st with par := { s := { st.par.s with rest := rest }, lineNo := st.par.lineNo + filler.length },
                                      lines := st.lines + filler.length,
                                      thisLooks := if filler = [] then st.thisLooks else .unknown } :=
  headerLoop_skip strip filler st (by simpa [inertFor, hg] using hin) hterm
    (hl.elim (fun h => Or.inr (h ▸ calm_unknown)) Or.inl) hflags.1 hflags.2 rest hrest fuel

/-- the same inside a git section -/
theorem headerLoop_filler_git (strip : Int) (filler : List Line) (hin : ∀ l ∈ filler, inertGitLine l.content = true)
    (hterm : ∀ l ∈ filler, l.newline ≠ .none)
    (st : HState) (hg : st.isGit = true) (hl : st.thisLooks = .unknown ∨ filler = [])
    (hflags : st.par.s.eof = false ∧ st.par.s.bad = false)
    (rest : List Line) (hrest : st.par.s.rest = filler ++ rest) (fuel : Nat) :
    headerLoop strip (fuel + filler.length) st =
      headerLoop strip fuel { st with par := { s := { st.par.s with rest := rest }, lineNo := st.par.lineNo + filler.length },
                                      lines := st.lines + filler.length,
                                      thisLooks := if filler = [] then st.thisLooks else .unknown } :=
  headerLoop_skip strip filler st (by simpa [inertFor, hg] using hin) hterm
    (hl.elim (fun h => Or.inr (h ▸ calm_unknown)) Or.inl) hflags.1 hflags.2 rest hrest fuel

/-- text that is only filler is "only garbage": the scan finds no format, so the section loop stops there
    ("Hmm... Ignoring the trailing garbage") without producing a patch -/
theorem filler_only_unknown (strip : Int) (filler : List Line) (hin : ∀ l ∈ filler, inertLine l.content = true)
    (hterm : ∀ l ∈ filler, l.newline ≠ .none) (lineNo : Nat) :
    ∃ body info par', parseHeader { s := { rest := filler }, lineNo := lineNo } {} strip = .ok (body, {}, info, par') :=
  ⟨_, _, _, parseHeader_filler strip { s := { rest := filler }, lineNo := lineNo } {} hin hterm rfl rfl⟩

/-- … more precisely: the body is to be parsed (there is none), no line leads to a first hunk, the format is unknown
    and the parser is back at the start of the text with clean flags -/
theorem filler_only_unknown_exact (strip : Int) (filler : List Line) (hin : ∀ l ∈ filler, inertLine l.content = true)
    (hterm : ∀ l ∈ filler, l.newline ≠ .none) (lineNo : Nat) :
    parseHeader { s := { rest := filler }, lineNo := lineNo } {} strip =
      .ok (true, {}, { linesTillFirstHunk := 0, format := .unknown }, { s := { rest := filler }, lineNo := lineNo }) :=
  parseHeader_filler strip { s := { rest := filler }, lineNo := lineNo } {} hin hterm rfl rfl

/-- NEW with the `foundFirstHunk` rule of `parseHeader` (the formal counterpart of the fix in `parse_patch_header`):
    a format given by option (-u / -c / -n, in fact ANY initial format) does not survive a scan that finds no hunk.
    Over a stream of inert lines only, the header scan returns the patch it was given with `format = unknown` — exactly
    the result of auto-detection — so the driver treats the text as trailing garbage instead of handing it to a body
    parser.  (Before the change the result had `format = fmt`, and `parseAll fmt` went on to `parseBody`.) -/
theorem forced_format_trailing_garbage (fmt : Format) (strip : Int) (filler : List Line)
    (hin : ∀ l ∈ filler, inertLine l.content = true) (hterm : ∀ l ∈ filler, l.newline ≠ .none) (lineNo : Nat) :
    parseHeader { s := { rest := filler }, lineNo := lineNo } { format := fmt } strip =
      .ok (true, { format := .unknown }, { linesTillFirstHunk := 0, format := .unknown },
           { s := { rest := filler }, lineNo := lineNo }) :=
  parseHeader_filler strip { s := { rest := filler }, lineNo := lineNo } { format := fmt } hin hterm rfl rfl

/-- the statement asked for, for the three formats an option can force -/
theorem forced_format_trailing_garbage' (fmt : Format) (_hf : fmt = .unified ∨ fmt = .context ∨ fmt = .normal)
    (strip : Int) (filler : List Line)
    (hin : ∀ l ∈ filler, inertLine l.content = true) (hterm : ∀ l ∈ filler, l.newline ≠ .none) (lineNo : Nat) :
    ∃ body p info par', parseHeader { s := { rest := filler }, lineNo := lineNo } { format := fmt } strip
        = .ok (body, p, info, par') ∧ p.format = .unknown ∧ info.format = .unknown :=
  ⟨_, _, _, _, forced_format_trailing_garbage fmt strip filler hin hterm lineNo, rfl, rfl⟩

/-- the same for any patch record the scan is started with (all other fields come back untouched) -/
theorem forced_format_trailing_garbage_any (pt : Patch) (strip : Int) (par : Parser)
    (hin : ∀ l ∈ par.s.rest, inertLine l.content = true) (hterm : ∀ l ∈ par.s.rest, l.newline ≠ .none)
    (hflags : par.s.eof = false ∧ par.s.bad = false) :
    parseHeader par pt strip = .ok (true, { pt with format := .unknown }, { linesTillFirstHunk := 0, format := .unknown }, par) :=
  parseHeader_filler strip par pt hin hterm hflags.1 hflags.2

/-- trailing filler after the last section does not change what the section loop returns —
    STRENGTHENED: for every format option (was: only for `format = unknown`, i.e. auto-detection) -/
theorem parseAll_trailing_filler (format : Format) (strip : Int) (filler : List Line)
    (hin : ∀ l ∈ filler, inertLine l.content = true)
    (hterm : ∀ l ∈ filler, l.newline ≠ .none) (acc : List Patch) (lineNo : Nat) (fuel : Nat) :
    ∃ par', parseAll format strip (fuel + 1) { s := { rest := filler }, lineNo := lineNo } acc = .ok (acc, par', false) := by
  refine ⟨{ s := { rest := filler }, lineNo := lineNo }, ?_⟩
  rw [parseAll, parseHeader_filler strip { s := { rest := filler }, lineNo := lineNo } { format := format } hin hterm rfl rfl]
  simp

end PatchModel.C11

#print axioms PatchModel.C11.inert_step_partial
#print axioms PatchModel.C11.inert_step_git_partial
#print axioms PatchModel.C11.headerLoop_filler_partial
#print axioms PatchModel.C11.headerLoop_filler_git
#print axioms PatchModel.C11.filler_only_unknown
#print axioms PatchModel.C11.filler_only_unknown_exact
#print axioms PatchModel.C11.forced_format_trailing_garbage
#print axioms PatchModel.C11.forced_format_trailing_garbage'
#print axioms PatchModel.C11.forced_format_trailing_garbage_any
#print axioms PatchModel.C11.parseAll_trailing_filler
