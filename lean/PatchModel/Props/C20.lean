/-
  C20 — `-D SYM` output is a correct conditional merge of old and new.
-/
import PatchModel.Spec.Script
import PatchModel.Spec.Cpp
import PatchModel.Lemmas.Cpp
import PatchModel.Lemmas.Render
import PatchModel.Props.C03
import PatchModel.Lemmas.ApplyLoop
namespace PatchModel.C20
open PatchModel PatchModel.Cpp

theorem fuzzPair_zero (ls : List PatchLine) : fuzzPair ls 0 = (0, 0) := by
  unfold fuzzPair
  simp only [Prod.mk.injEq]
  constructor <;> omega

theorem lineEqB_self (iw : Bool) (a : Line) : lineEqB iw a a = true := by
  simp [lineEqB]

theorem oldOf_length_le (ls : List PatchLine) : (oldOf ls).length ≤ ls.length := by
  unfold oldOf; rw [List.length_map]; exact List.length_filter_le _ _

/-- a hunk whose old side is literally in the file at `p` may be laid there with fuzz 0 -/
theorem admissible_of_exact (file : List Line) (h : Hunk) (iw : Bool) (maxFuzz : Int) (p : Nat)
    (hF : 0 ≤ maxFuzz) (hne : (oldOf h.lines).length ≠ 0)
    (hfile : (file.drop p).take (oldOf h.lines).length = oldOf h.lines)
    (hle : p + (oldOf h.lines).length ≤ file.length) :
    admissibleB file h iw maxFuzz p 0 = true := by
  unfold admissibleB
  simp only [fuzzPair_zero]
  have hlen := oldOf_length_le h.lines
  simp only [Bool.and_eq_true, decide_eq_true_eq, List.all_eq_true, List.mem_range, Bool.or_eq_true]
  refine ⟨⟨⟨⟨by simpa using hF, by omega⟩, by omega⟩, by omega⟩, ?_⟩
  intro i hi
  right
  have h1 : (oldOf h.lines)[i]? = file[p + i]? := by
    conv => lhs; rw [← hfile]
    rw [List.getElem?_take]; simp [hi]
  have h2 : (oldOf h.lines)[i]? = some (oldOf h.lines)[i] := List.getElem?_eq_getElem hi
  rw [← h1, h2]
  exact lineEqB_self iw _

/-- under the hypotheses of `Valid.cons` the locator returns the stated place with fuzz 0 and offset 0 -/
theorem locate_valid (file : List Line) (h : Hunk) (iw : Bool) (maxFuzz : Int) (c p : Nat)
    (hF : 0 ≤ maxFuzz) (hwf : h.WF) (hpos : h.pos0 = (p : Int)) (hcp : c ≤ p)
    (hfile : (file.drop p).take (oldOf h.lines).length = oldOf h.lines)
    (hle : p + (oldOf h.lines).length ≤ file.length)
    (hD2 : ¬ (h.old.count = 0 ∧ h.old.start = 0 ∧ file ≠ [])) :
    locateHunk file h iw 0 maxFuzz c = some ⟨p, 0, 0⟩ := by
  have hg : expectedLine h - 1 + 0 = (p : Int) := by
    unfold Hunk.pos0 at hpos; omega
  by_cases hc : h.old.count = 0
  · exact C03.locate_insertion_exact file h iw 0 maxFuzz c p hc hg hcp (by omega) (fun ⟨a, b⟩ => hD2 ⟨hc, a, b⟩)
  · have hne : (oldOf h.lines).length ≠ 0 := by
      intro h0; apply hc; rw [hwf.2.1, h0]; rfl
    exact C03.locate_exact file h iw 0 maxFuzz c p hwf hc hg hcp
      (admissible_of_exact file h iw maxFuzz p hF hne hfile hle)

theorem drop_split {α : Type} (file : List α) (c p n : Nat) (old : List α) (hcp : c ≤ p)
    (hfile : (file.drop p).take n = old) :
    file.drop c = (file.drop c).take (p - c) ++ (old ++ file.drop (p + n)) := by
  have h1 : file.drop c = (file.drop c).take (p - c) ++ (file.drop c).drop (p - c) :=
    (List.take_append_drop _ _).symm
  have h2 : (file.drop c).drop (p - c) = file.drop p := by
    rw [List.drop_drop]; congr 1; omega
  have h3 : file.drop p = (file.drop p).take n ++ (file.drop p).drop n := (List.take_append_drop _ _).symm
  have h4 : (file.drop p).drop n = file.drop (p + n) := by rw [List.drop_drop]
  rw [h2, h3, h4, hfile] at h1
  exact h1

/-- the hunk loop under `-D sym` on a valid script -/
theorem applyRest_define (file : List Line) (o : ApplyOpts) (pt : Patch) (sym : Bytes)
    (hsym : sym ≠ []) (hD : o.define = sym) (hF : 0 ≤ o.maxFuzz)
    (hfileD : ∀ l ∈ file, notDirective sym l) :
    ∀ (hs : List Hunk) (s : AState) (num c : Nat) (d0 : Int), Valid file c d0 hs →
      s.skip = false → s.offErr = 0 → s.rejected = [] → s.cursor = c →
      (∀ h ∈ hs, ∀ pl ∈ h.lines, pl.line.newline ≠ .none) →
      (∀ h ∈ hs, ∀ pl ∈ h.lines, notDirective sym pl.line) →
      ∃ s' outs, applyRest file o pt s num hs = .ok s' ∧ s'.rejected = [] ∧ s'.cursor ≤ file.length ∧
        s'.out = s.out ++ outs ∧
        ∀ d, Seg sym d (outs.map Out.line ++ file.drop s'.cursor) (if d then splice file c hs else file.drop c) := by
  intro hs
  induction hs with
  | nil =>
    intro s num c d0 hv hskip hoff hrej hcur _ _
    cases hv with
    | nil _ _ hc =>
      refine ⟨s, [], rfl, hrej, by omega, by simp, ?_⟩
      intro d
      have hpl : Seg sym d (file.drop c) (file.drop c) :=
        Seg.plain sym d _ (fun l hl => hfileD l (List.mem_of_mem_drop hl))
      cases d <;> simpa [splice, hcur] using hpl
  | cons h hs ih =>
    intro s num c d0 hv hskip hoff hrej hcur hT hDir
    cases hv with
    | cons _ _ _ _ p hwf hpos hcp hfile hle hnew hD2 hv' =>
      have hloc := locate_valid file h o.ignoreWhitespace o.maxFuzz c p hF hwf hpos hcp hfile hle hD2
      obtain ⟨outsH, hw, hsegH⟩ := writeDefineHunk_seg' file sym h.lines p hwf.1
        (hT h List.mem_cons_self) (hDir h List.mem_cons_self) hfile
      obtain ⟨s1, hfin, h1skip, h1off, h1rej, h1cur, h1out⟩ :=
        finishHunk_define file o pt s num h p _ sym outsH hsym hD hskip hoff hrej (by omega) hw
      obtain ⟨s', outsR, hrest, hrej', hcur', hout', hsegR⟩ :=
        ih s1 (num + 1) (p + (oldOf h.lines).length) _ hv' h1skip h1off h1rej h1cur
          (fun h' hh => hT h' (List.mem_cons_of_mem _ hh)) (fun h' hh => hDir h' (List.mem_cons_of_mem _ hh))
      refine ⟨s', copyRange file c (p - c) ++ outsH ++ outsR, ?_, hrej', hcur', ?_, ?_⟩
      · rw [applyRest, hoff, hcur, hloc]
        simp only [hfin, hrest]
      · rw [hout', h1out, hcur]; simp
      · intro d
        have hA : Seg sym d ((file.drop c).take (p - c)) ((file.drop c).take (p - c)) :=
          Seg.plain sym d _ (fun l hl => hfileD l (List.mem_of_mem_drop (List.mem_of_mem_take hl)))
        have hall := Seg.append hA (Seg.append (hsegH d) (hsegR d))
        have hpos' : h.pos0.toNat = p := by rw [hpos]; rfl
        have hsplit := drop_split file c p _ _ hcp hfile
        simp only [List.map_append, Render.copyRange_map_line, List.append_assoc]
        cases d
        · simp only [Bool.false_eq_true, if_false] at hall ⊢
          rw [← hsplit] at hall; exact hall
        · simp only [if_true] at hall ⊢
          simp only [splice, hpos', List.append_assoc]; exact hall


theorem groupedGo_ctx (st : Nat) (ctx : List Line) : groupedGo st (ctx.map (⟨SP, ·⟩)) = true := by
  induction ctx generalizing st with
  | nil => rfl
  | cons l ctx ih => rw [List.map_cons, groupedGo.eq_def]; simpa using ih 0

theorem groupedGo_ctx_append (ctx : List Line) (rest : List PatchLine) :
    groupedGo 0 (ctx.map (⟨SP, ·⟩) ++ rest) = groupedGo 0 rest := by
  induction ctx with
  | nil => rfl
  | cons l ctx ih => rw [List.map_cons, List.cons_append, groupedGo.eq_def]; simpa using ih

theorem groupedGo_plus_ctx (st : Nat) (hst : st = 0 ∨ st = 1 ∨ st = 2 ∨ st = 3) (adds ctx : List Line) :
    groupedGo st (adds.map (⟨PLUS, ·⟩) ++ ctx.map (⟨SP, ·⟩)) = true := by
  induction adds generalizing st with
  | nil => exact groupedGo_ctx st ctx
  | cons l adds ih =>
    rw [List.map_cons, List.cons_append, groupedGo.eq_def]
    rcases hst with rfl | rfl | rfl | rfl <;>
      simp [PLUS_ne_SP, PLUS_ne_MINUS_p] <;> apply ih <;> simp

theorem groupedGo_minus_plus_ctx (st : Nat) (hst : st = 0 ∨ st = 1) (dels adds ctx : List Line) :
    groupedGo st (dels.map (⟨MINUS, ·⟩) ++ (adds.map (⟨PLUS, ·⟩) ++ ctx.map (⟨SP, ·⟩))) = true := by
  induction dels generalizing st with
  | nil => exact groupedGo_plus_ctx st (by omega) adds ctx
  | cons l dels ih =>
    rw [List.map_cons, List.cons_append, groupedGo.eq_def]
    rcases hst with rfl | rfl <;> simp [MINUS_ne_SP] <;> apply ih <;> simp

/-- **C20**: for every file and every valid script whose lines are all terminated and free of the four directives
    (NO assumption on the order of '-' and '+' lines inside a hunk: since `write_define_hunk` distinguishes the `#else`
    of an `#ifndef` from the `#else` of an `#ifdef`, runs like `- + - +` are merged correctly too), with `-D sym`: apply_patch returns; read by a preprocessor with `sym` defined the output is exactly the new file,
    with `sym` undefined exactly the original; in particular every conditional opened is closed (`cppEval` is `some`),
    and nothing is rejected. Covers hunks at the first and last line, creation from an empty file (file = []),
    deletion of everything (splice = []). -/
theorem C20_merge (file : List Line) (hs : List Hunk) (p0 : Patch) (o : ApplyOpts) (tty : Option (List Bool)) (sym : Bytes)
    (hv : Valid file 0 0 hs) (hp : p0.hunks = hs)
    (hsym : sym ≠ []) (hD : o.define = sym) (hR : o.reverse = false) (hF : 0 ≤ o.maxFuzz)
    (hfileT : ∀ l ∈ file, l.newline ≠ .none)
    (hpatchT : ∀ h ∈ hs, ∀ pl ∈ h.lines, pl.line.newline ≠ .none)
    (hfileD : ∀ l ∈ file, notDirective sym l)
    (hpatchD : ∀ h ∈ hs, ∀ pl ∈ h.lines, notDirective sym pl.line) :
    ∃ r, applyPatch file p0 o tty = .ok r ∧
      cppEval sym true (r.out.map Out.line) = some (splice file 0 hs) ∧
      cppEval sym false (r.out.map Out.line) = some file ∧
      r.rejected = [] := by
  have _ := hfileT  -- implied by `Valid` + `hpatchT` for every line a hunk touches; not needed otherwise
  subst hp
  have hfin : ∀ (s : AState) (outs : List Out) (c : Nat), s.rejected = [] → s.cursor ≤ file.length →
      s.out = outs →
      (∀ d, Seg sym d (outs.map Out.line ++ file.drop s.cursor) (if d then splice file c p0.hunks else file.drop c)) →
      c = 0 →
      cppEval sym true ((s.out ++ copyRange file s.cursor (file.length - s.cursor)).map Out.line)
          = some (splice file 0 p0.hunks) ∧
        cppEval sym false ((s.out ++ copyRange file s.cursor (file.length - s.cursor)).map Out.line) = some file ∧
        s.rejected = [] := by
    intro s outs c hrej hcur hout hseg hc0
    subst hc0
    have hcopy : (copyRange file s.cursor (file.length - s.cursor)).map Out.line = file.drop s.cursor := by
      rw [Render.copyRange_map_line]
      apply List.take_of_length_le
      rw [List.length_drop]; omega
    rw [List.map_append, hcopy, hout]
    exact ⟨by simpa using (hseg true).eval, by simpa using (hseg false).eval, hrej⟩
  unfold applyPatch
  simp only [hR, Bool.false_eq_true, if_false]
  cases hhs : p0.hunks with
  | nil =>
    rw [hhs] at hv
    refine ⟨_, rfl, ?_⟩
    have := hfin { tty := tty } [] 0 rfl (by simp) rfl (by
      intro d
      have hpl : Seg sym d file file := Seg.plain sym d _ hfileD
      rw [hhs]
      cases d <;> simpa [splice] using hpl) rfl
    simpa [hhs] using this
  | cons h0 rest =>
    rw [hhs] at hv hpatchT hpatchD
    have hv0 := hv
    cases hv with
    | cons _ _ _ _ p hwf hpos hcp hfile hle hnew hD2 hv' =>
      have hloc := locate_valid file h0 o.ignoreWhitespace o.maxFuzz 0 p hF hwf hpos hcp hfile hle hD2
      obtain ⟨s', outs, hrest, hrej', hcur', hout', hseg⟩ :=
        applyRest_define file o p0 sym hsym hD hF hfileD (h0 :: rest) { tty := tty } 0 0 0 hv0 rfl rfl rfl rfl
          hpatchT hpatchD
      rw [applyRest] at hrest
      simp only [hloc] at hrest ⊢
      have hsc : shouldCheckReversed (some ⟨(p : Int), 0, 0⟩) o = false := by simp [shouldCheckReversed]
      simp only [hsc, Bool.false_eq_true, if_false]
      cases hf : finishHunk file o p0 { tty := tty } 0 h0 (some ⟨(p : Int), 0, 0⟩) with
      | error e => rw [hf] at hrest; simp at hrest
      | ok s2 =>
        rw [hf] at hrest
        simp only at hrest ⊢
        rw [hrest]
        refine ⟨_, rfl, ?_⟩
        have := hfin s' outs 0 hrej' hcur' (by simpa using hout') (by rw [hhs]; exact hseg) rfl
        simpa [hhs] using this

/-- lines common to both versions appear once, outside any conditional: every original line that is not deleted is
    written exactly once and directly evaluates to itself whether or not `sym` is defined — stated on one hunk:
    a context line of a placed hunk is preceded by a closing `#endif` whenever a conditional is open. -/
theorem defineLoop_context_outside (file : List Line) (sym : Bytes) (pl : PatchLine) (rest : List PatchLine)
    (cur : Nat) (st : DefState) (w : DefW) (l : Line)
    (hop : pl.op = SP) (hl : file[cur]? = some l) :
    defineLoop file sym (pl :: rest) cur st w =
      defineLoop file sym rest (cur + 1) .outside
        ((if st ≠ .outside then w.directive dEndif (terminatorOf l) else w).line (.fromFile cur l)) := by
  have hne : (cur == file.length) = false := by
    have := (List.getElem?_eq_some_iff.1 hl).1
    simp; omega
  rw [defineLoop.eq_def]
  simp [hop, hl, hne]

/-- all three diff emitters and both orders of `hunk_from_context_parts` only produce grouped hunks: a run of
    deletions followed by a run of additions is grouped (a fact about `grouped`; `C20_merge` no longer needs it) -/
theorem grouped_minus_plus (ctx1 : List Line) (dels adds : List Line) (ctx2 : List Line) :
    grouped (ctx1.map (⟨SP, ·⟩) ++ dels.map (⟨MINUS, ·⟩) ++ adds.map (⟨PLUS, ·⟩) ++ ctx2.map (⟨SP, ·⟩)) = true := by
  unfold grouped
  rw [List.append_assoc, List.append_assoc, groupedGo_ctx_append]
  exact groupedGo_minus_plus_ctx 0 (by omega) dels adds ctx2

/-! ### non-vacuity on the case the old state machine got wrong: the alternating hunk `-a +b -c +d` -/

/-- a line that does not start with `#` is none of the four directives, whatever the symbol -/
theorem notDirective_of_head (sym : Bytes) (c : UInt8) (cs : Bytes) (nl : NewLine) (hc : c ≠ 35) :
    notDirective sym ⟨c :: cs, nl⟩ := by
  unfold notDirective dIfdef dIfndef dElse dEndif
  rw [str_ifdef, str_ifndef, str_else, str_endif]
  simp [hc]

def altA : Line := ⟨[97], .lf⟩
def altB : Line := ⟨[98], .lf⟩
def altC : Line := ⟨[99], .lf⟩
def altD : Line := ⟨[100], .lf⟩
/-- `@@ -1,2 +1,2 @@  -a +b -c +d` -/
def altHunk : Hunk := ⟨⟨1, 2⟩, ⟨1, 2⟩, [⟨MINUS, altA⟩, ⟨PLUS, altB⟩, ⟨MINUS, altC⟩, ⟨PLUS, altD⟩]⟩
def altFile : List Line := [altA, altC]

/-- the alternating hunk is NOT grouped: the old `C20_merge` said nothing about it -/
example : grouped altHunk.lines = false := by decide

theorem altValid : Valid altFile 0 0 [altHunk] :=
  Valid.cons 0 0 altHunk [] 0 (by unfold Hunk.WF; decide) (by decide) (by decide) (by decide) (by decide) (by decide) (by decide)
    (Valid.nil _ _ (by decide))

example : splice altFile 0 [altHunk] = [altB, altD] := by decide

/-- all hypotheses of `C20_merge` hold for the file `a c` and the hunk `-a +b -c +d`, for every non-empty symbol;
    so with `-D sym` the output evaluates to `b d` when `sym` is defined and to `a c` when it is not -/
example (sym : Bytes) (hsym : sym ≠ []) :
    ∃ r, applyPatch altFile { hunks := [altHunk] } { define := sym } none = .ok r ∧
      cppEval sym true (r.out.map Out.line) = some [altB, altD] ∧
      cppEval sym false (r.out.map Out.line) = some [altA, altC] ∧
      r.rejected = [] := by
  have hs : splice altFile 0 [altHunk] = [altB, altD] := by decide
  have := C20_merge altFile [altHunk] { hunks := [altHunk] } { define := sym } none sym altValid rfl hsym rfl rfl
    (by show (0 : Int) ≤ 2; decide) (by decide) (by decide)
    (by intro l hl
        simp only [altFile, List.mem_cons, List.mem_nil_iff, or_false] at hl
        rcases hl with rfl | rfl <;> exact notDirective_of_head sym _ _ _ (by decide))
    (by intro h hh pl hpl
        simp only [List.mem_cons, List.mem_nil_iff, or_false] at hh
        subst hh
        simp only [altHunk, List.mem_cons, List.mem_nil_iff, or_false] at hpl
        rcases hpl with rfl | rfl | rfl | rfl <;> exact notDirective_of_head sym _ _ _ (by decide))
  rw [hs] at this
  exact this

/-- the state machine itself on `-a +b -c +d`: it passes through all of inIfndef, inElseOfIfndef, inIfndef (again,
    after `#endif` / `#ifndef`), inElseOfIfndef and ends with one open conditional -/
example : (defineLoop altFile [88] altHunk.lines 0 .outside {}).map (fun r => (r.2.1, r.2.2)) =
    some (2, DefState.inElseOfIfndef) := by decide

/-- **C20 at the level of bytes**: under the hypotheses of `C20_merge` (all lines terminated) the file written is the lines of the
    merge one by one — the writer's rule has nothing to add — so a preprocessor reading them gets what `C20_merge` says -/
theorem C20_merge_bytes (file : List Line) (hs : List Hunk) (p0 : Patch) (o : ApplyOpts) (tty : Option (List Bool)) (sym : Bytes)
    (hv : Valid file 0 0 hs) (hp : p0.hunks = hs)
    (hsym : sym ≠ []) (hD : o.define = sym) (hR : o.reverse = false) (hF : 0 ≤ o.maxFuzz)
    (hfileT : ∀ l ∈ file, l.newline ≠ .none)
    (hpatchT : ∀ h ∈ hs, ∀ pl ∈ h.lines, pl.line.newline ≠ .none)
    (hfileD : ∀ l ∈ file, notDirective sym l)
    (hpatchD : ∀ h ∈ hs, ∀ pl ∈ h.lines, notDirective sym pl.line) :
    ∃ r, applyPatch file p0 o tty = .ok r ∧
      render o.newlineOutput r.out = renderLines o.newlineOutput (r.out.map Out.line) ∧
      (∀ x ∈ r.out, x.line.newline ≠ .none) ∧
      cppEval sym true (r.out.map Out.line) = some (splice file 0 hs) ∧
      cppEval sym false (r.out.map Out.line) = some file := by
  obtain ⟨r, h1, h2, h3, _⟩ := C20_merge file hs p0 o tty sym hv hp hsym hD hR hF hfileT hpatchT hfileD hpatchD
  have hT := ApplyLoop.applyPatch_all_terminated hfileT (by rw [hp]; exact hpatchT) h1
  exact ⟨r, h1, Render.render_of_all_terminated _ hT, hT, h2, h3⟩

/-! ### the writer's rule (D97) under `-D`: a directive is never glued to an unterminated line -/

theorem renderNewline_is_newline (mode : NewlineOutput) (nl : NewLine) (h : nl ≠ .none) :
    renderNewline mode nl = [NL] ∨ renderNewline mode nl = [CR, NL] := by
  cases nl <;> cases mode <;> simp_all [renderNewline]

/-- wherever a directive item (a directive line, or a bare terminator of `write_define_hunk`) is written behind an item whose
    line has no newline — inside a hunk, between two hunks, behind a copied last line of the file — the bytes of that line are
    followed by a newline (LF, or CR LF) and only then by the text of the directive: `write_define_hunk` writes its own
    terminator inside a hunk (a bare item, to which the writer adds nothing), the line writer adds one everywhere else -/
theorem unterminated_line_then_directive (mode : NewlineOutput) (pre : List Out) (o : Out) (t : Bytes) (nl : NewLine)
    (rest : List Out) (hn : o.line.newline = .none) (hnl : nl ≠ .none) :
    ∃ a sep b, (sep = [NL] ∨ sep = [CR, NL]) ∧
      render mode (pre ++ [o] ++ Out.directive ⟨t, nl⟩ :: rest) = a ++ o.line.content ++ sep ++ t ++ b := by
  obtain ⟨a, ha⟩ : ∃ a, render mode (pre ++ [o]) = a ++ o.line.content := by
    refine ⟨render mode pre ++ renderLines mode ((Render.glueL pre [o]).map Out.line), ?_⟩
    rw [Render.render_append, Render.render_singleton, Render.renderLine_of_none mode o.line hn]
  obtain ⟨tl, htl⟩ := Render.terminateInner_cons_head (Out.directive ⟨t, nl⟩) rest
  have hd : render mode (Out.directive ⟨t, nl⟩ :: rest) =
      t ++ renderNewline mode nl ++ renderLines mode (tl.map Out.line) := by
    rw [render, htl]; simp [Out.line, renderLine]
  by_cases hb : (Out.directive ⟨t, nl⟩).isBare = true
  · have ht : t = [] := by simpa [Out.isBare] using hb
    refine ⟨a, renderNewline mode nl, renderLines mode (tl.map Out.line), renderNewline_is_newline mode nl hnl, ?_⟩
    rw [Render.render_append, Render.glueL_of_bare (by intro x hx; simp at hx; rw [← hx]; exact hb), ha, hd, ht]
    simp
  · have hb' : (Out.directive ⟨t, nl⟩).isBare = false := by simpa using hb
    refine ⟨a, renderNewline mode .lf, renderNewline mode nl ++ renderLines mode (tl.map Out.line),
      renderNewline_is_newline mode .lf (by simp), ?_⟩
    rw [(Render.render_terminates_inner mode pre o _ rest hn hb').1, ha, hd]
    simp

/-- "a\nc" (no final newline), `-D X`, the hunk ` c` (no newline) `+d`: `write_define_hunk` writes its own terminator behind "c"
    and the writer adds no second one -/
theorem define_behind_unterminated_context :
    ∃ r, applyPatch [⟨[97], .lf⟩, ⟨[99], .none⟩]
        { hunks := [⟨⟨2, 1⟩, ⟨2, 2⟩, [⟨SP, ⟨[99], .none⟩⟩, ⟨PLUS, ⟨[100], .lf⟩⟩]⟩] } { define := [88] } none = .ok r ∧
      render .lf r.out = [97, 10, 99, 10] ++ dIfdef [88] ++ [10, 100, 10] ++ dEndif ++ [10] := by
  refine ⟨_, rfl, ?_⟩
  rw [show dIfdef [88] = [35, 105, 102, 100, 101, 102, 32, 88] from by unfold dIfdef; rw [str_ifdef]; rfl,
    show dEndif = [35, 101, 110, 100, 105, 102] from by unfold dEndif; rw [str_endif]]
  decide

/-- the same file, the insertion `+d` behind its last line (no context): the copied line "c" is followed directly by the `#ifdef` of the
    hunk; the writer puts the newline between them (it used to be "c#ifdef X") -/
theorem define_behind_unterminated_copy :
    ∃ r, applyPatch [⟨[97], .lf⟩, ⟨[99], .none⟩]
        { hunks := [⟨⟨2, 0⟩, ⟨3, 1⟩, [⟨PLUS, ⟨[100], .lf⟩⟩]⟩] } { define := [88] } none = .ok r ∧
      render .lf r.out = [97, 10, 99, 10] ++ dIfdef [88] ++ [10, 100, 10] ++ dEndif ++ [10] := by
  refine ⟨_, rfl, ?_⟩
  rw [show dIfdef [88] = [35, 105, 102, 100, 101, 102, 32, 88] from by unfold dIfdef; rw [str_ifdef]; rfl,
    show dEndif = [35, 101, 110, 100, 105, 102] from by unfold dEndif; rw [str_endif]]
  decide

end PatchModel.C20
