/-
  C06 end to end — an applied patch is run AGAIN, for the whole modelled program (`runPatch` = `main` after option parsing) on the
  TEXT of a unified diff:

      patch -N [-u] [-pN] [-F n] [--newline-output=…] -i pname name          (`o.ignoreReversed = true`)
      patch -t [-u] [-pN] [-F n] [--newline-output=…] -i pname name          (`o.batch = true`)

  The tree of `C05.C05_run`: the target `name` holds the NEW file (content `newbytes`, whose lines are
  `splice (splitLines bytes) 0 (h1 :: rest)`, mode `m`, writable) and the patch file `pname` holds the text of the unified diff
  (hunks `h1 :: rest`, a `Valid` script of `splitLines bytes`) that led from `bytes` to `newbytes` — applied FORWARD once more (no
  `-R`), the first hunk no longer fitting at its stated line (`C06.FirstHunkNoLongerFits`).

  * `-N` (`C06_run_N_filler`, `C06_run_N`): the patch is recognised as applied and ignored — exit status 1; the target is
    re-written with its own lines (`renderLines o.newlineOutput (splitLines newbytes)`: its own bytes when the output mode keeps its
    terminators, `C06_run_N_bytes`), mode kept; `name.rej` is a new file with the header and ALL hunks, unshifted and unreversed
    (for a flat name and `-p0`: the text of the diff itself); no other path differs; the log says "reversed (or previously
    applied) patch detected", "skipping patch", "n out of n hunks ignored".
  * `-t` (`C06_run_t_filler`, `C06_run_t`, `C06_run_t_bytes`): `-R` is assumed — exit status 0, the target holds the OLD file's
    lines (`C05_run`'s conclusion, reached through the "assume -R" branch of `apply_patch`: the applier hands back
    `reversePatch p0` and the driver goes on with that), mode kept, nothing else differs; the log says "reversed … detected",
    "assuming -R".

  Composition of `RunV.C06_N_full` / `RunV.C06_t_full` (= `C06.C06_N` / `C06.C06_t` with the reject bytes, the failure count,
  "perfect" and the patch handed back), `C18Run.parse_diffLines_names` / `RunR.parse_diffLines_modes` (header + body of the text),
  `RunV.processSection_vrejected` / `RunV.processSection_vclean` and `C18Run.runPatch_of_end`.

  Hypotheses in addition to those of `C05_run` (with `o.reverse = false`: `C01.RunOpts`):
  * `C06.FirstHunkNoLongerFits (splitLines newbytes) h1 (applyOptsOf o)` — REQUIRED, the inherently ambiguous case: a first hunk
    that still fits exactly at its stated line of the new file (` x`, `+x` on a file of `x`s) IS applied a second time, `-N` or
    not (`Ambiguous`, evaluated: exit status 0, a third `x`).  Not a defect.
    Since fix 3f5edfc (a reversed hunk without old lines is no evidence of a reversed patch: D82) the definition has a third
    conjunct for a first hunk WITHOUT a new side (a removal without context, `@@ -7 +6,0 @@`): such a hunk must not be found
    anywhere in reach — `h1.new.count ≠ 0 ∨ locateHunk … h1 … = none`.  Otherwise it is applied a second time (`ContextFree`
    below, evaluated; `C06.C06_old_statement_false`: the statements with the old definition `C06.FirstHunkNoLongerFitsOld` are
    false of the model).  Known finding D84, inherent: nothing in such a hunk tells "already applied" from "the lines have moved".
    For a first hunk with a new side the definition is what it was (`C06.firstHunkNoLongerFits_of_old`).
  * `o.force = false` (`-f` switches the probe off: the hunks are tried forward and rejected one by one).
  * `-N`: `o.rejectFile = []`, `o.rejectFormat ≠ .context`, `s0.rejWritten = []`, `name.rej` free, its directories there (a flat
    name: `C06_run_N`).  NOT needed: anything about `--backup-if-mismatch` (the patch was skipped: no backup is due).
  * `-t`: `o.ignoreReversed = false` (`-N` wins over `-t`).
  * `changeStart` (in `DiffHunks` / `UnifiedDiff`): as in `C05_run`, it gives the reversed-D2 exclusion.
-/
import PatchModel.Props.C05Run
import PatchModel.Props.C17Run
import PatchModel.Props.C06
import PatchModel.Lemmas.RunV
namespace PatchModel.C06Run
open PatchModel PatchModel.Section PatchModel.Run PatchModel.RunR PatchModel.DriverFacts PatchModel.RunB PatchModel.RunV
  PatchModel.C01 PatchModel.C18Run PatchModel.C17Run

section
variable {o : Options} {s0 : DState} {name pname bytes newbytes : Bytes} {m pm : Nat}
  {filler : List Line} {old new oldt newt : Bytes} {h1 : Hunk} {rest : List Hunk}

theorem fillerTerminated (hd : UnifiedDiff filler old new oldt newt (h1 :: rest)) : ∀ l ∈ filler, l.newline ≠ .none := by
  intro l hl
  have := hd.fillerPlain l hl
  unfold lfPlain at this
  simp only [Bool.and_eq_true, beq_iff_eq] at this
  rw [this.1]; simp

theorem forcedOk (o : Options) : forced o = .unknown ∨ forced o = .unified := by
  unfold forced; split
  · exact Or.inr rfl
  · exact Or.inl rfl

/-! ## `-N` -/

/-- header scan, body parse and the applier's verdict for the one section of the diff, run again with `-N` -/
theorem againSection_N (ho : RunOpts o name pname) (hN : o.ignoreReversed = true) (hf : o.force = false)
    (hru : o.rejectFormat ≠ .context) (hs0 : CleanStart s0) (hname : name ≠ [])
    (htarget : s0.fs.lookup name = some (.file newbytes m))
    (hd : UnifiedDiff filler old new oldt newt (h1 :: rest)) (hvalid : Valid (splitLines bytes) 0 0 (h1 :: rest))
    (hnew : splitLines newbytes = splice (splitLines bytes) 0 (h1 :: rest))
    (hamb : C06.FirstHunkNoLongerFits (splitLines newbytes) h1 (applyOptsOf o)) :
    ∃ patch0 info par1 par2 r,
      VSection o (forced o) (loopStart s0 (diffLines filler old new oldt newt (h1 :: rest))) name newbytes m patch0
        { patch0 with hunks := h1 :: rest } { patch0 with hunks := h1 :: rest } info par1 par2 r ∧
      r.failed = (h1 :: rest).length ∧ r.skipped = true ∧
      r.rejBytes = rejTextAll o.strip old new oldt newt (h1 :: rest) ∧
      r.msgs = [Msg.reversedDetected false, Msg.skippingPatch] ∧
      render o.newlineOutput r.out = renderLines o.newlineOutput (splitLines newbytes) ∧
      par2.s.eof = true := by
  obtain ⟨patch0, info, par1, par2, hhdr, hfm, hop, hpre, hnm, hop0, hnp0, hot0, hnt0, hbody, heof⟩ :=
    parse_diffLines_names o.strip (forced o) (forcedOk o) filler old new oldt newt (h1 :: rest) 1 hd.fillerInert
      (fillerTerminated hd) hd.oldName.1 hd.newName.1 hd.oldStamp.1 hd.newStamp.1 hd.nonEmpty hd.writable hd.change
  have hru' : rejectAsUnified (applyOptsOf o).rejectFormat ({ patch0 with hunks := h1 :: rest } : Patch).format = true := by
    show rejectAsUnified o.rejectFormat patch0.format = true
    rw [hfm]
    cases hx : o.rejectFormat <;> first | rfl | exact absurd hx hru
  rw [hnew] at hamb
  obtain ⟨r, hap, hrout, hrskip, _, hrfail, hrb, _, _, hrmsgs, hrtty, hrpatch⟩ :=
    C06_N_full (splitLines bytes) h1 rest { patch0 with hunks := h1 :: rest } (applyOptsOf o)
      (Option.map (fun l => List.map (fun a => !List.isEmpty a && List.head? a != some 110) l) s0.tty)
      hvalid (noReversedD2_of_valid hvalid hd.change) rfl hamb hN hf ho.plain.noReverse ho.plain.fuzz hru'
  refine ⟨patch0, info, par1, par2, r, ?_, hrfail, hrskip, ?_, hrmsgs ho.plain.quiet,
    Render.render_of_map_line _ (hrout.trans hnew.symm) (Render.linesTerminated_splitLines newbytes), heof⟩
  · exact {
      operand := ho.plain.operand, noOut := ho.plain.noOut, pathNe := hname, cwd := hs0.cwd, hdr := hhdr,
      fmt := Or.inl hfm, op := hop, pre := hpre, body := hbody, file := htarget,
      root := hs0.root, noFault := hs0.noFault, apply := by rw [hnew]; exact hap, ttyLeft := hrtty,
      patch := hrpatch, fmt3 := rfl, op3 := hop, newMode3 := hnm }
  · rw [hrb, rejTextAll, writeHeaderUnified]
    show headerLine "--- " patch0.oldPath patch0.oldTime ++ headerLine "+++ " patch0.newPath patch0.newTime ++ _ = _
    rw [hop0, hnp0, hot0, hnt0]

/-- **C06, the whole program on the text of a unified diff, the applied patch run again with `-N`** -/
theorem C06_run_N_filler (ho : RunOpts o name pname) (hN : o.ignoreReversed = true) (hf : o.force = false)
    (hrf : o.rejectFile = []) (hru : o.rejectFormat ≠ .context) (hreal : o.dryRun = false)
    (hs0 : CleanStart s0) (hrw : s0.rejWritten = [])
    (hname : name ≠ []) (hdir : s0.fs.dirExists (parentOf name) = true)
    (hfree : s0.fs.lookup (name ++ str ".rej") = none)
    (hrdirs : DirsThere s0.fs (name ++ str ".rej")) (hrdir : s0.fs.dirExists (parentOf (name ++ str ".rej")) = true)
    (hpn : pname ≠ []) (hpd : pname ≠ [45])
    (htarget : s0.fs.lookup name = some (.file newbytes m)) (hw : m &&& writeMask ≠ 0)
    (hpatch : s0.fs.lookup pname = some (.file (patchText filler old new oldt newt (h1 :: rest)) pm))
    (hd : UnifiedDiff filler old new oldt newt (h1 :: rest)) (hvalid : Valid (splitLines bytes) 0 0 (h1 :: rest))
    (hnew : splitLines newbytes = splice (splitLines bytes) 0 (h1 :: rest))
    (hamb : C06.FirstHunkNoLongerFits (splitLines newbytes) h1 (applyOptsOf o)) :
    (runPatch o s0).1 = 1 ∧
    (runPatch o s0).2.fs.lookup name = some (.file (renderLines o.newlineOutput (splitLines newbytes)) m) ∧
    (runPatch o s0).2.fs.lookup (name ++ str ".rej") =
      some (.file (rejTextAll o.strip old new oldt newt (h1 :: rest)) (0o666 - (0o666 &&& s0.fs.umask))) ∧
    (∀ q, q ≠ name → q ≠ name ++ str ".rej" → (runPatch o s0).2.fs.lookup q = s0.fs.lookup q) ∧
    (runPatch o s0).2.out = s0.out ++ [.file name false, .msg (.reversedDetected false), .msg .skippingPatch,
      .failed (h1 :: rest).length (h1 :: rest).length true (some (name ++ str ".rej"))] := by
  obtain ⟨patch0, info, par1, par2, r, H, hfail, hskip, hrb, hmsgs, hrender, heof⟩ :=
    againSection_N ho hN hf hru hs0 hname htarget hd hvalid hnew hamb
  obtain ⟨s', hrun, hfs, _, _, _, hhf, hout, hdone⟩ := processSection_vrejected H hw (by rw [hfail]; simp)
    (by rw [hskip]; simp) ho.plain.noBackup hrf hreal hdir (by show s0.rejWritten.contains _ = false; rw [hrw]; rfl)
    hfree hrdirs hrdir
  rw [runPatch_of_end ho.file hs0 hpn hpd hpatch hd s' par2 hrun hdone heof]
  have hpr : name ≠ name ++ str ".rej" := by
    intro e
    have := congrArg List.length e
    rw [str_rej] at this; simp at this
  refine ⟨by rw [hhf]; rfl, ?_, ?_, ?_, ?_⟩
  · show s'.fs.lookup name = _
    rw [hfs, Fs.lookup_set_self, hrender]
  · show s'.fs.lookup _ = _
    rw [hfs, Fs.lookup_set_ne _ _ _ _ hpr.symm, Fs.lookup_set_self, hrb]
  · intro q hq hqr
    show s'.fs.lookup q = _
    rw [hfs, Fs.lookup_set_ne _ _ _ _ hq, Fs.lookup_set_ne _ _ _ _ hqr]
  · show s'.out = _
    rw [hout, hmsgs, hfail, hskip]
    show s0.out ++ _ ++ _ ++ _ = _
    simp [List.append_assoc]

/-! ## `-t` -/

/-- header scan, body parse and the applier's verdict for the one section of the diff, run again with `-t` -/
theorem againSection_t (ho : RunOpts o name pname) (hN : o.ignoreReversed = false) (ht : o.batch = true) (hf : o.force = false)
    (hs0 : CleanStart s0) (hname : name ≠ [])
    (htarget : s0.fs.lookup name = some (.file newbytes m))
    (hd : UnifiedDiff filler old new oldt newt (h1 :: rest)) (hvalid : Valid (splitLines bytes) 0 0 (h1 :: rest))
    (hnew : splitLines newbytes = splice (splitLines bytes) 0 (h1 :: rest))
    (hamb : C06.FirstHunkNoLongerFits (splitLines newbytes) h1 (applyOptsOf o)) :
    ∃ patch0 patch3 info par1 par2 r,
      VSection o (forced o) (loopStart s0 (diffLines filler old new oldt newt (h1 :: rest))) name newbytes m patch0
        { patch0 with hunks := h1 :: rest } patch3 info par1 par2 r ∧
      r.failed = 0 ∧ r.perfect = true ∧
      r.msgs = [Msg.reversedDetected false, Msg.assumingR] ∧
      render o.newlineOutput r.out = renderLines o.newlineOutput (splitLines bytes) ∧
      par2.s.eof = true := by
  obtain ⟨patch0, info, par1, par2, hhdr, hfm, hop, hpre, _, _, hom, _, hbody, heof⟩ :=
    parse_diffLines_modes o.strip (forced o) (forcedOk o) filler old new oldt newt (h1 :: rest) 1 hd.fillerInert
      (fillerTerminated hd) hd.oldName.1 hd.newName.1 hd.oldStamp.1 hd.newStamp.1 hd.nonEmpty hd.writable hd.change
  rw [hnew] at hamb
  obtain ⟨r, hap, hrout, hrfail, hrperf, _, hrmsgs, hrtty, hrpatch⟩ :=
    C06_t_full (splitLines bytes) h1 rest { patch0 with hunks := h1 :: rest } (applyOptsOf o)
      (Option.map (fun l => List.map (fun a => !List.isEmpty a && List.head? a != some 110) l) s0.tty)
      hvalid (noReversedD2_of_valid hvalid hd.change) rfl hamb hN ht hf ho.plain.noReverse ho.plain.noDefine ho.plain.fuzz
  refine ⟨patch0, reversePatch { patch0 with hunks := h1 :: rest }, info, par1, par2, r, ?_, hrfail, hrperf,
    hrmsgs ho.plain.quiet, Render.render_of_map_line _ hrout (Render.linesTerminated_splitLines bytes), heof⟩
  exact {
    operand := ho.plain.operand, noOut := ho.plain.noOut, pathNe := hname, cwd := hs0.cwd, hdr := hhdr,
    fmt := Or.inl hfm, op := hop, pre := hpre, body := hbody, file := htarget,
    root := hs0.root, noFault := hs0.noFault, apply := by rw [hnew]; exact hap, ttyLeft := hrtty,
    patch := hrpatch, fmt3 := rfl,
    op3 := by show (match patch0.operation with | .delete => Operation.add | .add => .delete | o => o) = .change
              rw [hop],
    newMode3 := hom }

/-- **C06, the whole program on the text of a unified diff, the applied patch run again with `-t`**: `-R` is assumed, the old
    file comes back -/
theorem C06_run_t_filler (ho : RunOpts o name pname) (hN : o.ignoreReversed = false) (ht : o.batch = true)
    (hf : o.force = false) (hreal : o.dryRun = false) (hs0 : CleanStart s0)
    (hname : name ≠ []) (hdir : s0.fs.dirExists (parentOf name) = true) (hpn : pname ≠ []) (hpd : pname ≠ [45])
    (htarget : s0.fs.lookup name = some (.file newbytes m)) (hw : m &&& writeMask ≠ 0)
    (hpatch : s0.fs.lookup pname = some (.file (patchText filler old new oldt newt (h1 :: rest)) pm))
    (hd : UnifiedDiff filler old new oldt newt (h1 :: rest)) (hvalid : Valid (splitLines bytes) 0 0 (h1 :: rest))
    (hnew : splitLines newbytes = splice (splitLines bytes) 0 (h1 :: rest))
    (hamb : C06.FirstHunkNoLongerFits (splitLines newbytes) h1 (applyOptsOf o)) :
    (runPatch o s0).1 = 0 ∧
    (runPatch o s0).2.fs.lookup name = some (.file (renderLines o.newlineOutput (splitLines bytes)) m) ∧
    (∀ q, q ≠ name → (runPatch o s0).2.fs.lookup q = s0.fs.lookup q) ∧
    (runPatch o s0).2.out = s0.out ++ [.file name false, .msg (.reversedDetected false), .msg .assumingR] := by
  obtain ⟨patch0, patch3, info, par1, par2, r, H, hfail, hperf, hmsgs, hrender, heof⟩ :=
    againSection_t ho hN ht hf hs0 hname htarget hd hvalid hnew hamb
  obtain ⟨s', hrun, hfs, _, _, _, hhf, hout, hdone⟩ := processSection_vclean H hw hfail (by rw [hperf]; simp)
    ho.plain.noBackup hreal hdir
  rw [runPatch_of_end ho.file hs0 hpn hpd hpatch hd s' par2 hrun hdone heof]
  have hnfl : s'.hadFailure = false := by rw [hhf]; exact hs0.noFailure
  refine ⟨by rw [hnfl]; rfl, ?_, ?_, ?_⟩
  · show s'.fs.lookup name = _
    rw [hfs, Fs.lookup_set_self, hrender]
  · intro q hq
    show s'.fs.lookup q = _
    rw [hfs, Fs.lookup_set_ne _ _ _ _ hq]
  · show s'.out = _
    rw [hout, hmsgs]
    show s0.out ++ _ ++ _ = _
    simp [List.append_assoc]

end

/-! ### the statements for a diff of `name` against itself in the working directory, no filler -/

/-- **C06, end to end, `-N`.**  `patch -N -i pname name` (no `-p`, or `-p0`) in a tree whose target `name` already holds the result
    of the diff in `pname`: exit status 1; the target holds its own lines again, mode kept; `name.rej` — a new file — holds the
    text of the diff (header and all hunks); nothing else in the tree differs; the log is as stated. -/
theorem C06_run_N (o : Options) (s0 : DState) (name pname bytes newbytes oldt newt : Bytes) (m pm : Nat)
    (h1 : Hunk) (rest : List Hunk)
    (ho : RunOpts o name pname) (hN : o.ignoreReversed = true) (hf : o.force = false)
    (hrf : o.rejectFile = []) (hru : o.rejectFormat ≠ .context) (hstrip : o.strip ≤ 0) (hreal : o.dryRun = false)
    (hs0 : CleanStart s0) (hrw : s0.rejWritten = [])
    (hn : flatName name) (hfree : s0.fs.lookup (name ++ str ".rej") = none) (hpn : pname ≠ []) (hpd : pname ≠ [45])
    (htarget : s0.fs.lookup name = some (.file newbytes m)) (hw : m &&& writeMask ≠ 0)
    (hot : stampOk oldt) (hnt : stampOk newt)
    (hpatch : s0.fs.lookup pname = some (.file (diffText name name oldt newt (h1 :: rest)) pm))
    (hh : DiffHunks (h1 :: rest)) (hvalid : Valid (splitLines bytes) 0 0 (h1 :: rest))
    (hnew : splitLines newbytes = splice (splitLines bytes) 0 (h1 :: rest))
    (hamb : C06.FirstHunkNoLongerFits (splitLines newbytes) h1 (applyOptsOf o)) :
    (runPatch o s0).1 = 1 ∧
    (runPatch o s0).2.fs.lookup name = some (.file (renderLines o.newlineOutput (splitLines newbytes)) m) ∧
    (runPatch o s0).2.fs.lookup (name ++ str ".rej") =
      some (.file (diffText name name oldt newt (h1 :: rest)) (0o666 - (0o666 &&& s0.fs.umask))) ∧
    (∀ q, q ≠ name → q ≠ name ++ str ".rej" → (runPatch o s0).2.fs.lookup q = s0.fs.lookup q) ∧
    (runPatch o s0).2.out = s0.out ++ [.file name false, .msg (.reversedDetected false), .msg .skippingPatch,
      .failed (h1 :: rest).length (h1 :: rest).length true (some (name ++ str ".rej"))] := by
  have hrfl : ∀ c ∈ name ++ str ".rej", c ≠ SLASHB := by
    intro c hc
    rcases List.mem_append.1 hc with h | h
    · exact hn.2.1 c h
    · rw [str_rej] at h
      intro e; subst e
      revert h; decide
  have := C06_run_N_filler (filler := []) ho hN hf hrf hru hreal hs0 hrw hn.1 (dirExists_parent_of_noSlash s0.fs hn.2.1) hfree
    (dirsThere_flat s0.fs hrfl) (dirExists_parent_of_noSlash s0.fs hrfl) hpn hpd htarget hw hpatch
    (unifiedDiff_of_flat hn hot hnt hh) hvalid hnew hamb
  rw [rejTextAll_flat (h1 :: rest) hn hstrip hot.1 hnt.1] at this
  exact this

/-- **C06, end to end, `-N`, in bytes**: when the output mode keeps the terminators of the target, the target is byte for byte
    what it was -/
theorem C06_run_N_bytes (o : Options) (s0 : DState) (name pname bytes newbytes oldt newt : Bytes) (m pm : Nat)
    (h1 : Hunk) (rest : List Hunk)
    (ho : RunOpts o name pname) (hN : o.ignoreReversed = true) (hf : o.force = false)
    (hrf : o.rejectFile = []) (hru : o.rejectFormat ≠ .context) (hstrip : o.strip ≤ 0) (hreal : o.dryRun = false)
    (hs0 : CleanStart s0) (hrw : s0.rejWritten = [])
    (hn : flatName name) (hfree : s0.fs.lookup (name ++ str ".rej") = none) (hpn : pname ≠ []) (hpd : pname ≠ [45])
    (htarget : s0.fs.lookup name = some (.file newbytes m)) (hw : m &&& writeMask ≠ 0)
    (hot : stampOk oldt) (hnt : stampOk newt)
    (hpatch : s0.fs.lookup pname = some (.file (diffText name name oldt newt (h1 :: rest)) pm))
    (hh : DiffHunks (h1 :: rest)) (hvalid : Valid (splitLines bytes) 0 0 (h1 :: rest))
    (hnew : splitLines newbytes = splice (splitLines bytes) 0 (h1 :: rest))
    (hamb : C06.FirstHunkNoLongerFits (splitLines newbytes) h1 (applyOptsOf o))
    (hnl : C05.KeepsTerminators o.newlineOutput newbytes) :
    (runPatch o s0).1 = 1 ∧
    (runPatch o s0).2.fs.lookup (name ++ str ".rej") =
      some (.file (diffText name name oldt newt (h1 :: rest)) (0o666 - (0o666 &&& s0.fs.umask))) ∧
    (∀ q, q ≠ name ++ str ".rej" → (runPatch o s0).2.fs.lookup q = s0.fs.lookup q) := by
  obtain ⟨e1, e2, e3, e4, _⟩ := C06_run_N o s0 name pname bytes newbytes oldt newt m pm h1 rest ho hN hf hrf hru hstrip hreal hs0
    hrw hn hfree hpn hpd htarget hw hot hnt hpatch hh hvalid hnew hamb
  refine ⟨e1, e3, ?_⟩
  intro q hq
  by_cases hqn : q = name
  · rw [hqn, e2, C05.renderLines_splitLines hnl, htarget]
  · exact e4 q hqn hq

/-- **C06, end to end, `-t`.**  `patch -t -i pname name` in a tree whose target `name` already holds the result of the diff in
    `pname`: exit status 0; the target holds the OLD file's lines, mode kept; nothing else in the tree differs. -/
theorem C06_run_t (o : Options) (s0 : DState) (name pname bytes newbytes oldt newt : Bytes) (m pm : Nat)
    (h1 : Hunk) (rest : List Hunk)
    (ho : RunOpts o name pname) (hN : o.ignoreReversed = false) (ht : o.batch = true) (hf : o.force = false)
    (hreal : o.dryRun = false) (hs0 : CleanStart s0)
    (hn : flatName name) (hpn : pname ≠ []) (hpd : pname ≠ [45])
    (htarget : s0.fs.lookup name = some (.file newbytes m)) (hw : m &&& writeMask ≠ 0)
    (hot : stampOk oldt) (hnt : stampOk newt)
    (hpatch : s0.fs.lookup pname = some (.file (diffText name name oldt newt (h1 :: rest)) pm))
    (hh : DiffHunks (h1 :: rest)) (hvalid : Valid (splitLines bytes) 0 0 (h1 :: rest))
    (hnew : splitLines newbytes = splice (splitLines bytes) 0 (h1 :: rest))
    (hamb : C06.FirstHunkNoLongerFits (splitLines newbytes) h1 (applyOptsOf o)) :
    (runPatch o s0).1 = 0 ∧
    (runPatch o s0).2.fs.lookup name = some (.file (renderLines o.newlineOutput (splitLines bytes)) m) ∧
    (∀ q, q ≠ name → (runPatch o s0).2.fs.lookup q = s0.fs.lookup q) ∧
    (runPatch o s0).2.out = s0.out ++ [.file name false, .msg (.reversedDetected false), .msg .assumingR] :=
  C06_run_t_filler (filler := []) ho hN ht hf hreal hs0 hn.1 (dirExists_parent_of_noSlash s0.fs hn.2.1) hpn hpd htarget hw
    hpatch (unifiedDiff_of_flat hn hot hnt hh) hvalid hnew hamb

/-- **C06, end to end, `-t`, in bytes**: the target gets the old file back, byte for byte -/
theorem C06_run_t_bytes (o : Options) (s0 : DState) (name pname bytes newbytes oldt newt : Bytes) (m pm : Nat)
    (h1 : Hunk) (rest : List Hunk)
    (ho : RunOpts o name pname) (hN : o.ignoreReversed = false) (ht : o.batch = true) (hf : o.force = false)
    (hreal : o.dryRun = false) (hs0 : CleanStart s0)
    (hn : flatName name) (hpn : pname ≠ []) (hpd : pname ≠ [45])
    (htarget : s0.fs.lookup name = some (.file newbytes m)) (hw : m &&& writeMask ≠ 0)
    (hot : stampOk oldt) (hnt : stampOk newt)
    (hpatch : s0.fs.lookup pname = some (.file (diffText name name oldt newt (h1 :: rest)) pm))
    (hh : DiffHunks (h1 :: rest)) (hvalid : Valid (splitLines bytes) 0 0 (h1 :: rest))
    (hnew : splitLines newbytes = splice (splitLines bytes) 0 (h1 :: rest))
    (hamb : C06.FirstHunkNoLongerFits (splitLines newbytes) h1 (applyOptsOf o))
    (hnl : C05.KeepsTerminators o.newlineOutput bytes) :
    (runPatch o s0).1 = 0 ∧
    (runPatch o s0).2.fs.lookup name = some (.file bytes m) ∧
    (∀ q, q ≠ name → (runPatch o s0).2.fs.lookup q = s0.fs.lookup q) := by
  obtain ⟨e1, e2, e3, _⟩ := C06_run_t o s0 name pname bytes newbytes oldt newt m pm h1 rest ho hN ht hf hreal hs0 hn hpn hpd
    htarget hw hot hnt hpatch hh hvalid hnew hamb
  rw [C05.renderLines_splitLines hnl] at e2
  exact ⟨e1, e2, e3⟩

instance (B : List Line) (h : Hunk) (o : ApplyOpts) : Decidable (C06.FirstHunkNoLongerFits B h o) := by
  unfold C06.FirstHunkNoLongerFits; infer_instance
instance (B : List Line) (h : Hunk) (o : ApplyOpts) : Decidable (C06.FirstHunkNoLongerFitsOld B h o) := by
  unfold C06.FirstHunkNoLongerFitsOld; infer_instance

/-! ### non-vacuity: concrete runs

The instance of `C05Run`: `f` = "a\nB\nc\n" (mode 0644) — the NEW file —, `p.diff` = the one-hunk unified diff that changes `b` to
`B` in "a\nb\nc\n"; options `-N -i p.diff f` and `-t -i p.diff f`.  Every hypothesis is discharged by evaluation in the kernel;
independently the executable model is run on the same state (`#guard`: executable tests, not proofs). -/
namespace InstanceAgain
open PatchModel.C05.InstanceR (name pname bytes newbytes oldt newt hk s0 holdsNew)

def oN : Options := { PatchModel.C01.Instance.o with ignoreReversed := true }          -- -N -i p.diff f
def ot : Options := { PatchModel.C01.Instance.o with batch := true }                   -- -t -i p.diff f
def rej : Bytes := [102, 46, 114, 101, 106]                 -- "f.rej"
#guard rej == str "f.rej" && PatchModel.C01.Instance.o.reverse == false

theorem runOptsN : RunOpts oN name pname :=
  { plain := { operand := rfl, noOut := rfl, noBackup := rfl, noReverse := rfl, noDefine := rfl, fuzz := by decide, quiet := rfl },
    file := { patchFile := rfl, noDir := rfl, noHelp := rfl, noVersion := rfl, noContext := rfl, noNormal := rfl, noEd := rfl } }
theorem runOptsT : RunOpts ot name pname :=
  { plain := { operand := rfl, noOut := rfl, noBackup := rfl, noReverse := rfl, noDefine := rfl, fuzz := by decide, quiet := rfl },
    file := { patchFile := rfl, noDir := rfl, noHelp := rfl, noVersion := rfl, noContext := rfl, noNormal := rfl, noEd := rfl } }

/-- the first hunk no longer fits the new file at its stated line (its old side has `b`, the file has `B`) -/
theorem noLongerFits (o : ApplyOpts) (hw : o.ignoreWhitespace = false) (hfz : o.maxFuzz = 2) :
    C06.FirstHunkNoLongerFits (splitLines newbytes) hk o := by
  refine Or.inl ⟨by decide, ?_⟩
  rw [hw, hfz]
  decide +kernel

/-- **`C06_run_N` applies** (all hypotheses discharged in the kernel): exit status 1, `f` as it was, `f.rej` = the text of the
    diff, nothing else touched; "reversed (or previously applied) patch detected", "skipping patch", "1 out of 1 hunk ignored" -/
theorem applies_N :
    (runPatch oN s0).1 = 1 ∧
    (runPatch oN s0).2.fs.lookup name = some (.file newbytes 0o644) ∧
    (runPatch oN s0).2.fs.lookup rej = some (.file (diffText name name oldt newt [hk]) 0o644) ∧
    (∀ q, q ≠ name → q ≠ rej → (runPatch oN s0).2.fs.lookup q = s0.fs.lookup q) ∧
    (runPatch oN s0).2.out = [.file name false, .msg (.reversedDetected false), .msg .skippingPatch,
      .failed 1 1 true (some rej)] := by
  have e : name ++ str ".rej" = rej := by rw [str_rej]; rfl
  have h := C06_run_N oN s0 name pname bytes newbytes oldt newt 0o644 0o644 hk [] runOptsN rfl rfl rfl (by decide) (by decide)
    rfl ⟨rfl, rfl, rfl, rfl, rfl, rfl⟩ rfl (by decide) (by rw [e]; decide) (by decide) (by decide) rfl (by decide) (by decide)
    (by decide) rfl C01.Instance.diffHunks (validB_sound _ _ _ _ (by decide)) holdsNew (noLongerFits _ rfl rfl)
  have hm : renderLines oN.newlineOutput (splitLines newbytes) = newbytes := by decide
  rw [e, hm] at h
  exact h

/-- **`C06_run_t_bytes` applies**: exit status 0, `f` = "a\nb\nc\n" again, nothing else touched -/
theorem applies_t :
    (runPatch ot s0).1 = 0 ∧
    (runPatch ot s0).2.fs.lookup name = some (.file bytes 0o644) ∧
    (∀ q, q ≠ name → (runPatch ot s0).2.fs.lookup q = s0.fs.lookup q) :=
  C06_run_t_bytes ot s0 name pname bytes newbytes oldt newt 0o644 0o644 hk [] runOptsT rfl rfl rfl
    rfl ⟨rfl, rfl, rfl, rfl, rfl, rfl⟩ (by decide) (by decide) (by decide) rfl (by decide) (by decide)
    (by decide) rfl C01.Instance.diffHunks (validB_sound _ _ _ _ (by decide)) holdsNew (noLongerFits _ rfl rfl) (by decide)

/-- … with its log -/
example : (runPatch ot s0).2.out = [.file name false, .msg (.reversedDetected false), .msg .assumingR] :=
  (C06_run_t ot s0 name pname bytes newbytes oldt newt 0o644 0o644 hk [] runOptsT rfl rfl rfl
    rfl ⟨rfl, rfl, rfl, rfl, rfl, rfl⟩ (by decide) (by decide) (by decide) rfl (by decide) (by decide)
    (by decide) rfl C01.Instance.diffHunks (validB_sound _ _ _ _ (by decide)) holdsNew (noLongerFits _ rfl rfl)).2.2.2

-- independently: the executable model on the same state
#guard (runPatch oN s0).1 == 1
#guard (runPatch oN s0).2.fs.lookup name == some (.file (str "a\nB\nc\n") 0o644)
#guard (runPatch oN s0).2.fs.lookup (str "f.rej") ==
  some (.file (str "--- f\t2020\n+++ f\t2021\n@@ -1,3 +1,3 @@\n a\n-b\n+B\n c\n") 0o644)
#guard (runPatch oN s0).2.fs.lookup pname == s0.fs.lookup pname && (runPatch oN s0).2.fs.nodes.length == 3
#guard (runPatch oN s0).2.trace == [.tmpCreate, .tmpUnlink, .tmpCreate, .tmpUnlink, .creat (str "f.rej"),
  .write (str "f.rej") (diffText name name oldt newt [hk]), .creat name, .write name (str "a\nB\nc\n"), .chmod name 0o644]
#guard (runPatch oN s0).2.out == [.file name false, .msg (.reversedDetected false), .msg .skippingPatch,
  .failed 1 1 true (some (str "f.rej"))]
#guard (runPatch ot s0).1 == 0
#guard (runPatch ot s0).2.fs.lookup name == some (.file (str "a\nb\nc\n") 0o644)
#guard (runPatch ot s0).2.fs.nodes.length == 2
#guard (runPatch ot s0).2.trace == [.tmpCreate, .tmpUnlink, .tmpCreate, .tmpUnlink, .creat name,
  .write name (str "a\nb\nc\n"), .chmod name 0o644]
#guard (runPatch ot s0).2.out == [.file name false, .msg (.reversedDetected false), .msg .assumingR]
-- `-N` wins over `-t`
#guard (runPatch { oN with batch := true } s0).1 == 1

end InstanceAgain

/-! ### `FirstHunkNoLongerFits` is REQUIRED: the inherently ambiguous case

`f` = "x\n"; the diff adds a second `x` after the first (` x`, `+x`).  Applied, `f` = "x\nx\n" — and the hunk still fits exactly at
line 1 of that file: run again, with or without `-N`, it is applied again (exit status 0, a third `x`).  Every other hypothesis of
`C06_run_N` holds.  No program can tell; not a defect. -/
namespace Ambiguous
def name : Bytes := [102]
def pname : Bytes := [112, 46, 100, 105, 102, 102]
def t : Bytes := [116]
def x : Line := ⟨[120], .lf⟩
def hk : Hunk := ⟨⟨1, 1⟩, ⟨1, 2⟩, [⟨SP, x⟩, ⟨PLUS, x⟩]⟩
def bytes : Bytes := [120, 10]
def newbytes : Bytes := [120, 10, 120, 10]
def s0 : DState :=
  { fs := { nodes := [(name, .file newbytes 0o644), (pname, .file (diffText name name t t [hk]) 0o644)] } }

/-- every hypothesis about the script holds — but the first hunk still fits -/
theorem others_hold : Valid (splitLines bytes) 0 0 [hk] ∧ splitLines newbytes = splice (splitLines bytes) 0 [hk] ∧
    DiffHunks [hk] ∧ ¬ C06.FirstHunkNoLongerFits (splitLines newbytes) hk (applyOptsOf InstanceAgain.oN) :=
  ⟨validB_sound _ _ _ _ (by decide), by decide, ⟨by decide, by decide, by decide⟩, by decide +kernel⟩

#guard (runPatch InstanceAgain.oN s0).1 == 0
#guard (runPatch InstanceAgain.oN s0).2.fs.lookup name == some (.file (str "x\nx\nx\n") 0o644)
#guard ((runPatch InstanceAgain.oN s0).2.fs.lookup (str "f.rej")).isNone
end Ambiguous

/-! ### the third conjunct of `FirstHunkNoLongerFits` is REQUIRED: a removal without context that is found again (D84)

`f` = "a \n}\na \n}\n{\nfoo\nc\n" is what `@@ -7 +6,0 @@` / `-foo` made of "a \n}\na \n}\n{\nfoo\nfoo\nc\n".  Run again: line 7 is `c`, but line
6 is the other `foo` — the hunk is found there (offset -1) and applied, with `-N`, with `-t`, with neither: exit status 0, no
`.rej`, no "reversed" message.  Every other hypothesis of `C06_run_N` holds, and so does the OLD `FirstHunkNoLongerFits`.  Without
the other `foo` in reach (`f` = "a \n}\na \n}\n{\nc\n") the patch is recognised as before: the hunk itself is not found at all. -/
namespace ContextFree
open PatchModel.C06.D84 (hk orig again once)
def name : Bytes := [102]
def pname : Bytes := [112, 46, 100, 105, 102, 102]
def t : Bytes := [116]
def bytes : Bytes := renderLines .lf orig
def newbytes : Bytes := renderLines .lf again
def s0 : DState :=
  { fs := { nodes := [(name, .file newbytes 0o644), (pname, .file (diffText name name t t [hk]) 0o644)] } }
def s1 : DState :=
  { fs := { nodes := [(name, .file (renderLines .lf once) 0o644), (pname, .file (diffText name name t t [hk]) 0o644)] } }
#guard newbytes == str "a \n}\na \n}\n{\nfoo\nc\n" && bytes == str "a \n}\na \n}\n{\nfoo\nfoo\nc\n"
#guard diffText name name t t [hk] == str "--- f\tt\n+++ f\tt\n@@ -7 +6,0 @@\n-foo\n"

/-- every hypothesis about the script holds, and the old `FirstHunkNoLongerFits` — but not the new one: the hunk, which has no new
    side, is found (at line 6) -/
theorem others_hold : Valid (splitLines bytes) 0 0 [hk] ∧ splitLines newbytes = splice (splitLines bytes) 0 [hk] ∧
    DiffHunks [hk] ∧ C06.FirstHunkNoLongerFitsOld (splitLines newbytes) hk (applyOptsOf InstanceAgain.oN) ∧
    hk.new.count = 0 ∧ locateHunk (splitLines newbytes) hk false 0 2 0 = some ⟨5, 0, -1⟩ ∧
    ¬ C06.FirstHunkNoLongerFits (splitLines newbytes) hk (applyOptsOf InstanceAgain.oN) :=
  ⟨validB_sound _ _ _ _ (by decide), by decide, ⟨by decide, by decide, by decide⟩, by decide +kernel, rfl, by decide +kernel,
    by decide +kernel⟩

#guard (runPatch InstanceAgain.oN s0).1 == 0
#guard (runPatch InstanceAgain.oN s0).2.fs.lookup name == some (.file (str "a \n}\na \n}\n{\nc\n") 0o644)
#guard ((runPatch InstanceAgain.oN s0).2.fs.lookup (str "f.rej")).isNone
#guard (runPatch InstanceAgain.oN s0).2.out == [.file name false, .msg (.hunk 1 "succeeded" 6 0 (-1))]
#guard (runPatch InstanceAgain.ot s0).1 == 0 &&
  (runPatch InstanceAgain.ot s0).2.fs.lookup name == some (.file (str "a \n}\na \n}\n{\nc\n") 0o644) &&
  (runPatch InstanceAgain.ot s0).2.out == [.file name false, .msg (.hunk 1 "succeeded" 6 0 (-1))]
-- the removed text not in reach: recognised (`loc.isNone && rloc.isSome`), `-N` skips, `-t` puts a `foo` back (as line 7)
#guard (runPatch InstanceAgain.oN s1).1 == 1 &&
  (runPatch InstanceAgain.oN s1).2.out == [.file name false, .msg (.reversedDetected false), .msg .skippingPatch,
    .failed 1 1 true (some (str "f.rej"))]
#guard (runPatch InstanceAgain.ot s1).1 == 0 &&
  (runPatch InstanceAgain.ot s1).2.out == [.file name false, .msg (.reversedDetected false), .msg .assumingR] &&
  (runPatch InstanceAgain.ot s1).2.fs.lookup name == some (.file (str "a \n}\na \n}\n{\nc\nfoo\n") 0o644)
end ContextFree

/-! ### a removal which was skipped, or failed, removes nothing (D110)

`-E` (or `--posix` leaving an empty file behind): `f` is there and empty, the patch removes the one line `a` of `f` (new name
`/dev/null`).  The removal has been applied before: with `-N` it is recognised as such and skipped; with `-f` its hunk fails.  Either
way the output is empty — it is the file as it was —, and before the fix "only a patch which was applied removes the file" that was
taken for the result of the removal: the empty file `f` was unlinked.  A concrete instance, evaluated in the kernel. -/
namespace SkippedRemoval
def name : Bytes := [102]                                  -- "f"
def pname : Bytes := [112, 46, 100, 105, 102, 102]         -- "p.diff"
def text : Bytes :=
  [45, 45, 45, 32, 102, 9, 116, 10, 43, 43, 43, 32, 47, 100, 101, 118, 47, 110, 117, 108, 108, 9, 116, 10,
   64, 64, 32, 45, 49, 32, 43, 48, 44, 48, 32, 64, 64, 10, 45, 97, 10]
#guard name == str "f" && pname == str "p.diff" && text == str "--- f\tt\n+++ /dev/null\tt\n@@ -1 +0,0 @@\n-a\n"
def s0 : DState := { fs := { nodes := [(name, .file [] 0o644), (pname, .file text 0o644)] } }
/-- `-N -E -i p.diff f` -/
def oN : Options := { defaultOptions with fileToPatch := name, patchFile := pname, ignoreReversed := true, removeEmptyFiles := .yes }
/-- `-f -E -i p.diff f` -/
def oF : Options := { defaultOptions with fileToPatch := name, patchFile := pname, force := true, removeEmptyFiles := .yes }

/-- **a delete section which is skipped (`-N`: previously applied) leaves the existing empty target in place**: exit status 1, the
    patch is reported as skipped, `f` is still there (empty, mode kept), no `unlink` in the trace -/
theorem skipped_removal_keeps_empty_file :
    (runPatch oN s0).1 = 1 ∧
    (runPatch oN s0).2.fs.lookup name = some (.file [] 0o644) ∧
    (∀ op ∈ (runPatch oN s0).2.trace, ∀ q, op ≠ FsOp.unlink q) ∧
    DEv.msg .skippingPatch ∈ (runPatch oN s0).2.out := by
  refine ⟨by decide +kernel, by decide +kernel, ?_, by decide +kernel⟩
  have : ((runPatch oN s0).2.trace.all fun op => match op with | .unlink _ => false | _ => true) = true := by decide +kernel
  intro op hop q e
  have := List.all_eq_true.1 this op hop
  rw [e] at this
  cases this

/-- the same for a removal whose hunk failed (`-f`: no question, no reversal): exit status 1, `f` still there, no `unlink` -/
theorem failed_removal_keeps_empty_file :
    (runPatch oF s0).1 = 1 ∧
    (runPatch oF s0).2.fs.lookup name = some (.file [] 0o644) ∧
    (∀ op ∈ (runPatch oF s0).2.trace, ∀ q, op ≠ FsOp.unlink q) := by
  refine ⟨by decide +kernel, by decide +kernel, ?_⟩
  have : ((runPatch oF s0).2.trace.all fun op => match op with | .unlink _ => false | _ => true) = true := by decide +kernel
  intro op hop q e
  have := List.all_eq_true.1 this op hop
  rw [e] at this
  cases this

/-- and the removal still removes: `f` holds the line, the patch applies: `f` is unlinked -/
def s1 : DState := { fs := { nodes := [(name, .file [97, 10] 0o644), (pname, .file text 0o644)] } }
theorem applied_removal_removes :
    (runPatch oN s1).1 = 0 ∧ (runPatch oN s1).2.fs.lookup name = none ∧ FsOp.unlink name ∈ (runPatch oN s1).2.trace := by
  refine ⟨by decide +kernel, by decide +kernel, by decide +kernel⟩
end SkippedRemoval

end PatchModel.C06Run

#print axioms PatchModel.C06Run.againSection_N
#print axioms PatchModel.C06Run.againSection_t
#print axioms PatchModel.C06Run.C06_run_N_filler
#print axioms PatchModel.C06Run.C06_run_t_filler
#print axioms PatchModel.C06Run.C06_run_N
#print axioms PatchModel.C06Run.C06_run_N_bytes
#print axioms PatchModel.C06Run.C06_run_t
#print axioms PatchModel.C06Run.C06_run_t_bytes
#print axioms PatchModel.C06Run.InstanceAgain.applies_N
#print axioms PatchModel.C06Run.InstanceAgain.applies_t
#print axioms PatchModel.C06Run.Ambiguous.others_hold
#print axioms PatchModel.C06Run.ContextFree.others_hold
#print axioms PatchModel.C06Run.SkippedRemoval.skipped_removal_keeps_empty_file
#print axioms PatchModel.C06Run.SkippedRemoval.failed_removal_keeps_empty_file
#print axioms PatchModel.C06Run.SkippedRemoval.applied_removal_removes
#print axioms PatchModel.RunV.C06_N_full
#print axioms PatchModel.RunV.C06_t_full
