/-
  C01 end to end for the NORMAL diff format — the whole modelled program (`runPatch` = `main` after option parsing) on the TEXT of
  the output of `diff` without options:

      patch [-n] [-pN] [-F n] [--newline-output=…] -i pname name

  where the tree holds the target `name` (content `bytes`, mode `m`, writable) and the patch file `pname`, whose content is
  `normalDiffText hs`: for every hunk the command line `s[,e]{a|c|d}t[,f]`, the removed lines as `< line`, `---` (between the two
  sides of a `c` command only), the added lines as `> line`, and `\ No newline at end of file` after a last line that has no
  terminator — POSIX "diff Default Output Format" / GNU diff.  `hs` is a `Valid` script of `splitLines bytes` made of
  context-free hunks (`NormalHunk`: removals then additions, nothing else).  Then the exit status is 0, `name` holds
  `splice (splitLines bytes) 0 hs` rendered, with its mode, and no other path of the tree differs (`C01_run_normal`, and
  `C01_run_normal_top` for a diff that starts by removing the first lines of the file); with --dry-run the exit status is 0 and
  the tree is untouched (`C15_run_normal_dry`, `C15_run_normal_top_dry`).

  There is no writer for this format in the model (rejects are written as unified or context diffs), so the text is DEFINED
  here (`normalRangeText`, `normalHunkText`, `normalDiffText`); `#guard`s below compare it with what GNU diff prints.

  Composition of: `RunN.parse_normalLines` (header scan `RunN.parseHeader_normal` + the round trip
  `RunN.parseNormalBody_hunks` of the body parser on the lines of the text, to the end of the input, end-of-file flag set),
  `C01.applyPatch_valid` through `plainSection_of_valid`, `Section.processSection_clean(_dry)`, and the closed forms of
  `sectionLoop` / `processPatchM` in Lemmas/Run.lean.

  A normal diff names no file: THE FILE OPERAND IS REQUIRED (`PlainOpts.operand`; without it the program asks for a name or, with
  --batch / --force, skips the patch: `Instance.noOperand` below).

  Side conditions, and why (evaluated cases at the end of the file):
  * `changeStart hs` (`C01_run_normal`) — a first command `NdM` with M = 0 (the first lines of the file are removed) or `0aN`
    makes the header scan infer the operation "delete" / "add", and `process_patch` takes other branches for those than the
    "change" path.
      - The first is what `diff` prints whenever the first line of a file goes, so it has its own theorems:
        `C01_run_normal_top` / `C15_run_normal_top_dry` (`NormalDiffTop`: `deleteStart hs`), same conclusion, with one more
        hypothesis which IS needed — `hkeep`: something is left of the file, or `-E` is off.  When NOTHING is left (`1,Nd0` of a
        file of N lines) and empty files are removed (`-E`, which `main` turns on outside POSIX mode) the target is removed, not
        left empty (`NormalScope.all`: evaluated counterexample; without `-E` it is left empty: `all_applies`).  The same
        happens for the unified `@@ -1,N +0,0 @@`; GNU patch removes such a file only if `-E` is given or the header says so.
      - The second on a non-empty file is the recorded finding D2 (insertion at line 0 is rejected: exit status 1), which `Valid`
        excludes by its own last conjunct — nothing had to be added for it here; on an EMPTY file it is valid and the run gives the
        intended result (`NormalScope.intoEmpty`, evaluated) but goes through the "add" branch: not covered by a theorem.
  * `NormalHunk`: what the text can carry — line numbers in 0 … 2^61 - 1 (the cap of `consume_line_number`), hunk lines
    without a line feed inside and without a CR at the end unless they end in CR LF (`plainN`: CR LF lines ARE covered,
    `NormalScope.crlf_applies`), a missing terminator only on the last line of a side (it is marked after that side:
    `NormalInstance.applies_noNewline`).
  * no `-u`, `-c`, `-e` (`NormalFileOpts`: with `-u` / `-c` a normal diff is "not a patch", exit status 2 —
    `NormalScope.forcedUnified`); `-n` may be given or not (`forcedN`).
  * `pname ≠ "-"`, root, directory of the target in the tree (`C01_run_normal_flat`: a name without slash): as for `C01_run`.

  Nothing false was found on the way: the round trip (`RunN.parseNormalBody_hunks`) and both end-to-end statements hold for
  every `Valid` script of `NormalHunk`s; no hypothesis had to be added because the model misbehaved, apart from `hkeep`.
-/
import PatchModel.Props.C01Run
import PatchModel.Lemmas.RunN
namespace PatchModel.C01
open PatchModel PatchModel.Section PatchModel.Run PatchModel.DriverFacts PatchModel.RunN

/-! ### the text of a normal diff (POSIX diff, "Diff Default Output Format") -/

/-- one side of a command line: `start`, or `start,last` when the range has more than one line.  (For a range of no lines —
    the old side of `a`, the new side of `d` — `start` is the line AFTER which the other side's lines go.) -/
def normalSide (r : Range) : Bytes :=
  intDigits r.start ++ (if 1 < r.count then [44] ++ intDigits (r.start + r.count - 1) else [])

/-- `a`: nothing removed; `d`: nothing added; `c` otherwise -/
def normalCommand (h : Hunk) : UInt8 := if h.old.count = 0 then 97 else if h.new.count = 0 then 100 else 99

/-- the command line, without its terminator: `8a12,15`, `5,7c8,10`, `5,7d3` -/
def normalRangeText (h : Hunk) : Bytes := normalSide h.old ++ [normalCommand h] ++ normalSide h.new

/-- the lines of one side, each after its marker (`<` or `>`) and a blank, with its own terminator (CR LF or LF); a last line
    without terminator is written with LF and followed by the `\ No newline at end of file` line -/
def normalSideText (mk : UInt8) (ls : List Line) : Bytes :=
  (ls.flatMap fun l => [mk, SP] ++ l.content ++ lineEnd l) ++ (if lastNone ls then noNewlineMarker else [])

/-- one hunk of a normal diff -/
def normalHunkText (h : Hunk) : Bytes :=
  normalRangeText h ++ [NL]
    ++ normalSideText 60 (oldOf h.lines)
    ++ (if h.old.count ≠ 0 ∧ h.new.count ≠ 0 then str "---\n" else [])
    ++ normalSideText 62 (newOf h.lines)

/-- the bytes of a normal diff (it has no header) -/
def normalDiffText (hs : List Hunk) : Bytes := hs.flatMap normalHunkText

/-- a hunk a normal diff can state: a run of removed lines followed by a run of added lines and nothing else (no context), the
    counts of the two ranges being the lengths of the two runs; at least one line; line numbers the text can carry
    (0 … 2^61 - 1, the last line of a range included); only the last line of a side may lack its terminator; the lines
    survive being written (`plainN`: no line feed inside, no CR at the end unless the line ends in CR LF) -/
structure NormalHunk (h : Hunk) : Prop where
  shape : h.lines = (oldOf h.lines).map (PatchLine.mk MINUS) ++ (newOf h.lines).map (PatchLine.mk PLUS)
  oldCount : h.old.count = ((oldOf h.lines).length : Int)
  newCount : h.new.count = ((newOf h.lines).length : Int)
  nonEmpty : h.lines ≠ []
  oldStart : 0 ≤ h.old.start
  newStart : 0 ≤ h.new.start
  oldBound : h.old.start + h.old.count ≤ i64Max / 4
  newBound : h.new.start + h.new.count ≤ i64Max / 4
  oldTerm : ∀ l ∈ (oldOf h.lines).dropLast, l.newline ≠ .none
  newTerm : ∀ l ∈ (newOf h.lines).dropLast, l.newline ≠ .none
  plain : ∀ pl ∈ h.lines, plainN pl.line

theorem NormalHunk.toShape {h : Hunk} (n : NormalHunk h) : NormalShape h :=
  ⟨n.shape, n.oldCount, n.newCount, n.nonEmpty, n.oldStart, n.newStart, n.oldBound, n.newBound, n.oldTerm, n.newTerm⟩

instance (l : Line) : Decidable (plainN l) := by unfold plainN; infer_instance

instance (h : Hunk) : Decidable (NormalHunk h) :=
  decidable_of_iff (NormalShape h ∧ ∀ pl ∈ h.lines, plainN pl.line)
    ⟨fun ⟨s, p⟩ => ⟨s.shape, s.oldCount, s.newCount, s.nonEmpty, s.oldStart, s.newStart, s.oldBound, s.newBound, s.oldTerm,
        s.newTerm, p⟩,
     fun n => ⟨n.toShape, n.plain⟩⟩

/-! ### the text, as lines -/

theorem flatMap_congr' {α β} {f g : α → List β} : ∀ (l : List α), (∀ a ∈ l, f a = g a) → l.flatMap f = l.flatMap g
  | [], _ => rfl
  | a :: l, h => by
    rw [List.flatMap_cons, List.flatMap_cons, h a List.mem_cons_self,
      flatMap_congr' l (fun x hx => h x (List.mem_cons_of_mem _ hx))]

theorem normalRangeText_eq (h : Hunk) : normalRangeText h = rangeTextN h := by
  unfold normalRangeText rangeTextN normalSide sideText normalCommand cmdOf
  simp only [List.append_assoc, List.singleton_append]

theorem normalSideText_eq (mk : UInt8) (ls : List Line) :
    normalSideText mk ls = (ls.map (wireSide mk) ++ markerIf ls).flatMap wireBytes := by
  unfold normalSideText markerIf
  rw [List.flatMap_append, List.flatMap_map]
  congr 1
  · apply flatMap_congr'
    intro l _
    show _ = wireBytes (wireSide mk l)
    rw [wireBytes, lineEnd_wireSide]
    simp [wireSide, SP]
  · split
    · rw [Unified.noNewlineMarker_eq]; rfl
    · rfl

theorem normalHunkText_eq (h : Hunk) : normalHunkText h = (hunkLinesN h).flatMap wireBytes := by
  unfold normalHunkText hunkLinesN bodyLinesN
  rw [normalRangeText_eq, normalSideText_eq, normalSideText_eq]
  have hsep : (if h.old.count ≠ 0 ∧ h.new.count ≠ 0 then str "---\n" else []) = (sepLines h).flatMap wireBytes := by
    unfold sepLines
    split
    · rw [str_dashes_nl]; rfl
    · rfl
  rw [hsep]
  have hr : wireBytes ⟨rangeTextN h, .lf⟩ = rangeTextN h ++ [NL] := rfl
  simp only [List.flatMap_cons, List.flatMap_append, List.append_assoc, List.append_nil, hr]

/-- **the bytes of a normal diff are read as its lines** -/
theorem splitLines_normalDiffText (hs : List Hunk) (hn : ∀ h ∈ hs, NormalHunk h) :
    splitLines (normalDiffText hs) = hs.flatMap hunkLinesN := by
  unfold normalDiffText
  have : hs.flatMap normalHunkText = (hs.flatMap hunkLinesN).flatMap wireBytes := by
    rw [List.flatMap_assoc]
    apply flatMap_congr'
    intro h _
    exact normalHunkText_eq h
  rw [this]
  exact splitLines_hunksN hs (fun h hh => (hn h hh).plain)

/-! ### the options -/

/-- where the patch comes from, and no format but "normal" forced: `patch [-n] … -i pname` -/
structure NormalFileOpts (o : Options) (pname : Bytes) : Prop where
  patchFile : o.patchFile = pname
  noDir : o.directory = []
  noHelp : o.showHelp = false
  noVersion : o.showVersion = false
  noContext : o.asContext = false
  noUnified : o.asUnified = false
  noEd : o.asEd = false

/-- `patch [-n] [-pN] [-F n] [--newline-output=…] -i pname name` -/
structure NormalRunOpts (o : Options) (name pname : Bytes) : Prop where
  plain : PlainOpts o name
  file : NormalFileOpts o pname

/-- the format the options force: normal with `-n`, none otherwise -/
abbrev forcedN (o : Options) : Format := if o.asNormal then .normal else .unknown

theorem diffFormat_normal (o : Options) (hc : o.asContext = false) (hu : o.asUnified = false) (he : o.asEd = false) :
    diffFormatFromOptions o = .ok (forcedN o) := by
  unfold diffFormatFromOptions forcedN
  simp only [hc, hu, he, Bool.false_eq_true, if_false]
  split <;> rfl

section
variable {o : Options} {s0 : DState} {name pname bytes : Bytes} {m pm : Nat} {hs : List Hunk}

/-- the script of a normal diff: not empty, hunks the format can state, and the first command neither `NdM` with M = 0 nor
    `0aN` (see the head of the file) -/
structure NormalDiff (hs : List Hunk) : Prop where
  nonEmpty : hs ≠ []
  hunks : ∀ h ∈ hs, NormalHunk h
  change : changeStart hs = true

/-- header scan, body parse and the applier's verdict for the one section of the diff -/
theorem plainSection_of_normal (ho : NormalRunOpts o name pname) (hs0 : CleanStart s0) (hname : name ≠ [])
    (htarget : s0.fs.lookup name = some (.file bytes m)) (hw : m &&& writeMask ≠ 0)
    (hd : NormalDiff hs) (hvalid : Valid (splitLines bytes) 0 0 hs) :
    ∃ patch0 info par1 par2 r,
      PlainSection o (forcedN o) (loopStart s0 (hs.flatMap hunkLinesN)) name bytes m patch0
        { patch0 with hunks := hs } info par1 par2 r ∧
      render o.newlineOutput r.out = Render.renderText o.newlineOutput (splice (splitLines bytes) 0 hs) ∧
      par2.s.eof = true := by
  have hfmt : forcedN o = .unknown ∨ forcedN o = .normal := by
    unfold forcedN; split
    · exact Or.inr rfl
    · exact Or.inl rfl
  obtain ⟨patch0, info, par1, par2, hhdr, hf, hop, hpre, _, hnm, hbody, heof⟩ :=
    parse_normalLines o.strip (forcedN o) hfmt hs 1 hd.nonEmpty (fun h hh => (hd.hunks h hh).toShape) hd.change
  obtain ⟨r, H, hrender⟩ := plainSection_of_valid o (forcedN o) (loopStart s0 (hs.flatMap hunkLinesN)) name bytes m
    patch0 info par1 par2 hs ho.plain hname hs0.cwd hhdr (Or.inr (Or.inr hf)) hop hpre hnm hbody htarget hw hs0.root hvalid
    hs0.noFault
  exact ⟨patch0, info, par1, par2, r, H, hrender, heof⟩

/-- from the closed form of the one section to the closed form of the run -/
theorem runPatch_of_sectionN (ho : NormalFileOpts o pname) (hs0 : CleanStart s0) (hpn : pname ≠ []) (hpd : pname ≠ [45])
    (hpatch : s0.fs.lookup pname = some (.file (normalDiffText hs) pm))
    (hh : ∀ h ∈ hs, NormalHunk h) (s' : DState) (par2 : Parser) (dry : Bool)
    (hrun : (processSection o (forcedN o)).run (loopStart s0 (hs.flatMap hunkLinesN)) = (.ok true, s'))
    (hdone : SectionDone (loopStart s0 (hs.flatMap hunkLinesN)) s' name par2 dry)
    (heof : par2.s.eof = true) :
    runPatch o s0 = (0, s') := by
  have hloop := sectionLoop_one o (forcedN o) (hs.flatMap hunkLinesN).length _ s' rfl hrun
    (by rw [hdone.par]; exact heof)
  have hrunP := run_processPatchM o s0 s' pname (normalDiffText hs) pm (forcedN o) ho.noDir ho.patchFile hpn hpd
    hs0.cwd hpatch hs0.root (diffFormat_normal o ho.noContext ho.noUnified ho.noEd)
    (by rw [splitLines_normalDiffText hs hh]; exact hloop)
    (by rw [hdone.dWrites]; exact hs0.noWrites) (by rw [hdone.dRemovals]; exact hs0.noRemovals)
  rw [runPatch_of_run o s0 s' ho.noHelp ho.noVersion hrunP]
  have : s'.hadFailure = false := by rw [hdone.hadFailure]; exact hs0.noFailure
  rw [this]; rfl

end

/-- **C01, the whole program on the text of a normal diff.**  `patch [-n] -i pname name` in a tree with the target `name` and
    the patch file `pname` = `normalDiffText hs`, `hs` a valid script of the target's lines made of context-free hunks: exit
    status 0, the target holds the intended result with its old mode, nothing else in the tree differs. -/
theorem C01_run_normal (o : Options) (s0 : DState) (name pname bytes : Bytes) (m pm : Nat) (hs : List Hunk)
    (ho : NormalRunOpts o name pname) (hreal : o.dryRun = false) (hs0 : CleanStart s0)
    (hname : name ≠ []) (hdir : s0.fs.dirExists (parentOf name) = true) (hpn : pname ≠ []) (hpd : pname ≠ [45])
    (htarget : s0.fs.lookup name = some (.file bytes m)) (hw : m &&& writeMask ≠ 0)
    (hpatch : s0.fs.lookup pname = some (.file (normalDiffText hs) pm))
    (hd : NormalDiff hs) (hvalid : Valid (splitLines bytes) 0 0 hs) :
    (runPatch o s0).1 = 0 ∧
    (runPatch o s0).2.fs.lookup name = some (.file (Render.renderText o.newlineOutput (splice (splitLines bytes) 0 hs)) m) ∧
    ∀ q, q ≠ name → (runPatch o s0).2.fs.lookup q = s0.fs.lookup q := by
  obtain ⟨patch0, info, par1, par2, r, H, hrender, heof⟩ := plainSection_of_normal ho hs0 hname htarget hw hd hvalid
  obtain ⟨s', hrun, hfs, _, hdone⟩ := processSection_clean H hreal hdir
  rw [runPatch_of_sectionN ho.file hs0 hpn hpd hpatch hd.hunks s' par2 false hrun hdone heof]
  refine ⟨rfl, ?_, ?_⟩
  · show s'.fs.lookup name = _
    rw [hfs, Fs.lookup_set_self, hrender]
  · intro q hq
    show s'.fs.lookup q = _
    rw [hfs, Fs.lookup_set_ne _ _ _ _ hq]

/-- **C15 sibling: the same run under --dry-run** — exit status 0, the tree untouched -/
theorem C15_run_normal_dry (o : Options) (s0 : DState) (name pname bytes : Bytes) (m pm : Nat) (hs : List Hunk)
    (ho : NormalRunOpts o name pname) (hdry : o.dryRun = true) (hs0 : CleanStart s0)
    (hname : name ≠ []) (hpn : pname ≠ []) (hpd : pname ≠ [45])
    (htarget : s0.fs.lookup name = some (.file bytes m)) (hw : m &&& writeMask ≠ 0)
    (hpatch : s0.fs.lookup pname = some (.file (normalDiffText hs) pm))
    (hd : NormalDiff hs) (hvalid : Valid (splitLines bytes) 0 0 hs) :
    (runPatch o s0).1 = 0 ∧ (runPatch o s0).2.fs = s0.fs := by
  obtain ⟨patch0, info, par1, par2, r, H, _, heof⟩ := plainSection_of_normal ho hs0 hname htarget hw hd hvalid
  obtain ⟨s', hrun, hfs, _, hdone⟩ := processSection_clean_dry H hdry
  rw [runPatch_of_sectionN ho.file hs0 hpn hpd hpatch hd.hunks s' par2 true hrun hdone heof]
  exact ⟨rfl, hfs⟩

/-- the same for a target in the working directory (a name without slash): its directory is always there -/
theorem C01_run_normal_flat (o : Options) (s0 : DState) (name pname bytes : Bytes) (m pm : Nat) (hs : List Hunk)
    (ho : NormalRunOpts o name pname) (hreal : o.dryRun = false) (hs0 : CleanStart s0)
    (hname : name ≠ []) (hflat : ∀ c ∈ name, c ≠ SLASHB) (hpn : pname ≠ []) (hpd : pname ≠ [45])
    (htarget : s0.fs.lookup name = some (.file bytes m)) (hw : m &&& writeMask ≠ 0)
    (hpatch : s0.fs.lookup pname = some (.file (normalDiffText hs) pm))
    (hd : NormalDiff hs) (hvalid : Valid (splitLines bytes) 0 0 hs) :
    (runPatch o s0).1 = 0 ∧
    (runPatch o s0).2.fs.lookup name = some (.file (Render.renderText o.newlineOutput (splice (splitLines bytes) 0 hs)) m) ∧
    ∀ q, q ≠ name → (runPatch o s0).2.fs.lookup q = s0.fs.lookup q :=
  C01_run_normal o s0 name pname bytes m pm hs ho hreal hs0 hname (dirExists_parent_of_noSlash s0.fs hflat) hpn hpd htarget hw
    hpatch hd hvalid

/-! ### a first command that removes the first lines of the file: `NdM` with M = 0

The header scan infers the operation "delete" from the `0` (`Header.inferredOp`); `process_patch` then removes the target instead
of writing it if the result is empty and empty files are to be removed (`-E`, which `main` turns on outside POSIX mode).  So the
theorem asks that something is left of the file, or that `-E` is off (`hkeep`); `NormalScope.all` below is the excluded case. -/

/-- the first command is `NdM` with M = 0 -/
def deleteStart (hs : List Hunk) : Bool :=
  match hs with
  | h :: _ => h.new.start == 0
  | [] => false

/-- a normal diff that starts with the removal of the first lines of the file -/
structure NormalDiffTop (hs : List Hunk) : Prop where
  hunks : ∀ h ∈ hs, NormalHunk h
  top : deleteStart hs = true

theorem NormalDiffTop.nonEmpty {hs : List Hunk} (hd : NormalDiffTop hs) : hs ≠ [] := by
  intro e; have := hd.top; rw [e] at this; cases this

theorem NormalDiffTop.firstOp {hs : List Hunk} (hd : NormalDiffTop hs) : RunN.firstOp hs = .delete := by
  cases hs with
  | nil => exact absurd rfl hd.nonEmpty
  | cons h hs' =>
    have : h.new.start = 0 := by simpa [deleteStart] using hd.top
    show Header.inferredOp h = .delete
    unfold Header.inferredOp; rw [if_pos this]

section
variable {o : Options} {s0 : DState} {name pname bytes : Bytes} {m pm : Nat} {hs : List Hunk}

/-- header scan, body parse and the applier's verdict for the one section of such a diff -/
theorem topSection_of_normal (ho : NormalRunOpts o name pname) (hs0 : CleanStart s0) (hname : name ≠ [])
    (htarget : s0.fs.lookup name = some (.file bytes m)) (hw : m &&& writeMask ≠ 0)
    (hd : NormalDiffTop hs) (hvalid : Valid (splitLines bytes) 0 0 hs)
    (hkeep : o.removeEmptyFiles ≠ .yes ∨ Render.renderText o.newlineOutput (splice (splitLines bytes) 0 hs) ≠ []) :
    ∃ patch0 info par1 par2 r,
      TopSection o (forcedN o) (loopStart s0 (hs.flatMap hunkLinesN)) name bytes m patch0
        { patch0 with hunks := hs } info par1 par2 r ∧
      render o.newlineOutput r.out = Render.renderText o.newlineOutput (splice (splitLines bytes) 0 hs) ∧
      par2.s.eof = true := by
  have hfmt : forcedN o = .unknown ∨ forcedN o = .normal := by
    unfold forcedN; split
    · exact Or.inr rfl
    · exact Or.inl rfl
  obtain ⟨patch0, info, par1, par2, hhdr, hf, hop, hpre, _, hnm, hnp, hbody, heof⟩ :=
    parse_normalLines_op o.strip (forcedN o) hfmt hs 1 hd.nonEmpty (fun h hh => (hd.hunks h hh).toShape)
  rw [hd.firstOp] at hop
  have hrev : (applyOptsOf o).reverse = false := ho.plain.noReverse
  obtain ⟨r, hap, hrout, _, hrfail, _, hrperf, hrskip, _, hrmsgs, hrtty, hrpatch⟩ :=
    applyPatch_valid (splitLines bytes) hs { patch0 with hunks := hs } (applyOptsOf o)
      (Option.map (fun l => List.map (fun a => !List.isEmpty a && List.head? a != some 110) l) s0.tty)
      hvalid (by rw [hrev]; rfl) ho.plain.noDefine ho.plain.fuzz
  have hrender : render o.newlineOutput r.out = Render.renderText o.newlineOutput (splice (splitLines bytes) 0 hs) := by
    exact C01.render_of_lines _ ho.plain.noDefine hap hrout
  refine ⟨patch0, info, par1, par2, r, ?_, hrender, heof⟩
  exact {
    operand := ho.plain.operand, noOut := ho.plain.noOut, noBackup := ho.plain.noBackup, pathNe := hname, cwd := hs0.cwd,
    hdr := hhdr, fmt := Or.inr (Or.inr hf), op := hop, pre := hpre, body := hbody, fmt2 := rfl, op2 := hop,
    newMode2 := hnm, newPath2 := hnp, file := htarget, writable := hw, root := hs0.root, noFault := hs0.noFault,
    apply := hap, failed := hrfail, perfect := hrperf, skipped := hrskip, msgs := hrmsgs ho.plain.quiet, ttyLeft := hrtty,
    patch := by rw [hrpatch, hrev]; rfl,
    keep := by
      intro hE
      rw [hrender]
      rcases hkeep with h | h
      · exact absurd (by simpa using hE) h
      · cases hx : Render.renderText o.newlineOutput (splice (splitLines bytes) 0 hs) with
        | nil => exact absurd hx h
        | cons _ _ => rfl }

end

/-- **C01, the whole program on the text of a normal diff that starts with `NdM`, M = 0** (the first lines of the file are removed):
    exit status 0, the target holds the intended result with its old mode, nothing else in the tree differs — provided
    something is left of the file or `-E` is off -/
theorem C01_run_normal_top (o : Options) (s0 : DState) (name pname bytes : Bytes) (m pm : Nat) (hs : List Hunk)
    (ho : NormalRunOpts o name pname) (hreal : o.dryRun = false) (hs0 : CleanStart s0)
    (hname : name ≠ []) (hdir : s0.fs.dirExists (parentOf name) = true) (hpn : pname ≠ []) (hpd : pname ≠ [45])
    (htarget : s0.fs.lookup name = some (.file bytes m)) (hw : m &&& writeMask ≠ 0)
    (hpatch : s0.fs.lookup pname = some (.file (normalDiffText hs) pm))
    (hd : NormalDiffTop hs) (hvalid : Valid (splitLines bytes) 0 0 hs)
    (hkeep : o.removeEmptyFiles ≠ .yes ∨ Render.renderText o.newlineOutput (splice (splitLines bytes) 0 hs) ≠ []) :
    (runPatch o s0).1 = 0 ∧
    (runPatch o s0).2.fs.lookup name = some (.file (Render.renderText o.newlineOutput (splice (splitLines bytes) 0 hs)) m) ∧
    ∀ q, q ≠ name → (runPatch o s0).2.fs.lookup q = s0.fs.lookup q := by
  obtain ⟨patch0, info, par1, par2, r, H, hrender, heof⟩ := topSection_of_normal ho hs0 hname htarget hw hd hvalid hkeep
  obtain ⟨s', hrun, hfs, hdone⟩ := processSection_top H hreal hdir
  rw [runPatch_of_sectionN ho.file hs0 hpn hpd hpatch hd.hunks s' par2 false hrun hdone heof]
  refine ⟨rfl, ?_, ?_⟩
  · show s'.fs.lookup name = _
    rw [hfs, Fs.lookup_set_self, hrender]
  · intro q hq
    show s'.fs.lookup q = _
    rw [hfs, Fs.lookup_set_ne _ _ _ _ hq]

/-- the --dry-run sibling -/
theorem C15_run_normal_top_dry (o : Options) (s0 : DState) (name pname bytes : Bytes) (m pm : Nat) (hs : List Hunk)
    (ho : NormalRunOpts o name pname) (hdry : o.dryRun = true) (hs0 : CleanStart s0)
    (hname : name ≠ []) (hpn : pname ≠ []) (hpd : pname ≠ [45])
    (htarget : s0.fs.lookup name = some (.file bytes m)) (hw : m &&& writeMask ≠ 0)
    (hpatch : s0.fs.lookup pname = some (.file (normalDiffText hs) pm))
    (hd : NormalDiffTop hs) (hvalid : Valid (splitLines bytes) 0 0 hs)
    (hkeep : o.removeEmptyFiles ≠ .yes ∨ Render.renderText o.newlineOutput (splice (splitLines bytes) 0 hs) ≠ []) :
    (runPatch o s0).1 = 0 ∧ (runPatch o s0).2.fs = s0.fs := by
  obtain ⟨patch0, info, par1, par2, r, H, _, heof⟩ := topSection_of_normal ho hs0 hname htarget hw hd hvalid hkeep
  obtain ⟨s', hrun, hfs, hdone⟩ := processSection_top_dry H hdry
  rw [runPatch_of_sectionN ho.file hs0 hpn hpd hpatch hd.hunks s' par2 true hrun hdone heof]
  exact ⟨rfl, hfs⟩

/-! ### non-vacuity: concrete runs

`f` = "a\nb\nc\n" (mode 0644), `p.diff` = a normal diff, options `-i p.diff f`.  For a `c`, a `d` and an `a` command, and for a
diff with all three, every hypothesis of `C01_run_normal` is discharged by evaluation in the kernel (`decide` / `rfl`), the
theorem is applied, and — independently — the executable model is run on the same state (`#guard`: compiled evaluation, an
executable test, not a proof).  The texts are compared with what GNU diff prints for the same pairs of files. -/
namespace NormalInstance

def name : Bytes := [102]                                  -- "f"
def pname : Bytes := [112, 46, 100, 105, 102, 102]         -- "p.diff"
def bytes : Bytes := [97, 10, 98, 10, 99, 10]              -- "a\nb\nc\n"
def o : Options := { defaultOptions with fileToPatch := name, patchFile := pname }
def mk (fb : Bytes) (hs : List Hunk) : DState :=
  { fs := { nodes := [(name, .file fb 0o644), (pname, .file (normalDiffText hs) 0o644)] } }

/-- `2c2`: line 2 `b` becomes `B` -/
def hc : Hunk := ⟨⟨2, 1⟩, ⟨2, 1⟩, [⟨MINUS, ⟨[98], .lf⟩⟩, ⟨PLUS, ⟨[66], .lf⟩⟩]⟩
/-- `2d1`: line 2 `b` is removed (it would go after line 1 of the new file) -/
def hd : Hunk := ⟨⟨2, 1⟩, ⟨1, 0⟩, [⟨MINUS, ⟨[98], .lf⟩⟩]⟩
/-- `2a3,4`: `x` and `y` are added after line 2 (they are lines 3 to 4 of the new file) -/
def ha : Hunk := ⟨⟨2, 0⟩, ⟨3, 2⟩, [⟨PLUS, ⟨[120], .lf⟩⟩, ⟨PLUS, ⟨[121], .lf⟩⟩]⟩

#guard name == str "f" && pname == str "p.diff" && bytes == str "a\nb\nc\n"
-- the texts are what `diff` prints
#guard normalDiffText [hc] == str "2c2\n< b\n---\n> B\n"
#guard normalDiffText [hd] == str "2d1\n< b\n"
#guard normalDiffText [ha] == str "2a3,4\n> x\n> y\n"

theorem runOpts : NormalRunOpts o name pname :=
  { plain := { operand := rfl, noOut := rfl, noBackup := rfl, noReverse := rfl, noDefine := rfl, fuzz := by decide, quiet := rfl },
    file := { patchFile := rfl, noDir := rfl, noHelp := rfl, noVersion := rfl, noContext := rfl, noUnified := rfl, noEd := rfl } }

theorem diff_c : NormalDiff [hc] := { nonEmpty := by decide, hunks := by decide, change := by decide }
theorem diff_d : NormalDiff [hd] := { nonEmpty := by decide, hunks := by decide, change := by decide }
theorem diff_a : NormalDiff [ha] := { nonEmpty := by decide, hunks := by decide, change := by decide }

/-- **`2c2`: the theorem applies** (all hypotheses discharged in the kernel) and promises "a\nB\nc\n" -/
theorem applies_c :
    (runPatch o (mk bytes [hc])).1 = 0 ∧
    (runPatch o (mk bytes [hc])).2.fs.lookup name = some (.file [97, 10, 66, 10, 99, 10] 0o644) ∧
    ∀ q, q ≠ name → (runPatch o (mk bytes [hc])).2.fs.lookup q = (mk bytes [hc]).fs.lookup q := by
  have h := C01_run_normal o (mk bytes [hc]) name pname bytes 0o644 0o644 [hc] runOpts rfl ⟨rfl, rfl, rfl, rfl, rfl, rfl⟩
    (by decide) (by decide) (by decide) (by decide) rfl (by decide) rfl diff_c (validB_sound _ _ _ _ (by decide))
  have hm : Render.renderText o.newlineOutput (splice (splitLines bytes) 0 [hc]) = [97, 10, 66, 10, 99, 10] := by decide
  rw [hm] at h
  exact h

/-- **`2d1`**: "a\nc\n" -/
theorem applies_d :
    (runPatch o (mk bytes [hd])).1 = 0 ∧
    (runPatch o (mk bytes [hd])).2.fs.lookup name = some (.file [97, 10, 99, 10] 0o644) ∧
    ∀ q, q ≠ name → (runPatch o (mk bytes [hd])).2.fs.lookup q = (mk bytes [hd]).fs.lookup q := by
  have h := C01_run_normal o (mk bytes [hd]) name pname bytes 0o644 0o644 [hd] runOpts rfl ⟨rfl, rfl, rfl, rfl, rfl, rfl⟩
    (by decide) (by decide) (by decide) (by decide) rfl (by decide) rfl diff_d (validB_sound _ _ _ _ (by decide))
  have hm : Render.renderText o.newlineOutput (splice (splitLines bytes) 0 [hd]) = [97, 10, 99, 10] := by decide
  rw [hm] at h
  exact h

/-- **`2a3,4`**: "a\nb\nx\ny\nc\n" -/
theorem applies_a :
    (runPatch o (mk bytes [ha])).1 = 0 ∧
    (runPatch o (mk bytes [ha])).2.fs.lookup name = some (.file [97, 10, 98, 10, 120, 10, 121, 10, 99, 10] 0o644) ∧
    ∀ q, q ≠ name → (runPatch o (mk bytes [ha])).2.fs.lookup q = (mk bytes [ha]).fs.lookup q := by
  have h := C01_run_normal o (mk bytes [ha]) name pname bytes 0o644 0o644 [ha] runOpts rfl ⟨rfl, rfl, rfl, rfl, rfl, rfl⟩
    (by decide) (by decide) (by decide) (by decide) rfl (by decide) rfl diff_a (validB_sound _ _ _ _ (by decide))
  have hm : Render.renderText o.newlineOutput (splice (splitLines bytes) 0 [ha]) = [97, 10, 98, 10, 120, 10, 121, 10, 99, 10] := by
    decide
  rw [hm] at h
  exact h

/-- the --dry-run sibling applies as well (the `c` diff; `-n` given for a change) -/
theorem applies_dry :
    (runPatch { o with dryRun := true, asNormal := true } (mk bytes [hc])).1 = 0 ∧
    (runPatch { o with dryRun := true, asNormal := true } (mk bytes [hc])).2.fs = (mk bytes [hc]).fs :=
  C15_run_normal_dry { o with dryRun := true, asNormal := true } (mk bytes [hc]) name pname bytes 0o644 0o644 [hc]
    { plain := { operand := rfl, noOut := rfl, noBackup := rfl, noReverse := rfl, noDefine := rfl, fuzz := by decide, quiet := rfl },
      file := { patchFile := rfl, noDir := rfl, noHelp := rfl, noVersion := rfl, noContext := rfl, noUnified := rfl, noEd := rfl } }
    rfl ⟨rfl, rfl, rfl, rfl, rfl, rfl⟩ (by decide) (by decide) (by decide) rfl (by decide) rfl diff_c
    (validB_sound _ _ _ _ (by decide))

/-- a file of eight lines and a diff with all three commands: `2,3c2` (b, c → X), `5a5,6` (p, q after e), `7d7` (g removed) -/
def bytes8 : Bytes := [97, 10, 98, 10, 99, 10, 100, 10, 101, 10, 102, 10, 103, 10, 104, 10]
def m1 : Hunk := ⟨⟨2, 2⟩, ⟨2, 1⟩, [⟨MINUS, ⟨[98], .lf⟩⟩, ⟨MINUS, ⟨[99], .lf⟩⟩, ⟨PLUS, ⟨[88], .lf⟩⟩]⟩
def m2 : Hunk := ⟨⟨5, 0⟩, ⟨5, 2⟩, [⟨PLUS, ⟨[112], .lf⟩⟩, ⟨PLUS, ⟨[113], .lf⟩⟩]⟩
def m3 : Hunk := ⟨⟨7, 1⟩, ⟨7, 0⟩, [⟨MINUS, ⟨[103], .lf⟩⟩]⟩
/-- "a\nX\nd\ne\np\nq\nf\nh\n" -/
def result8 : Bytes := [97, 10, 88, 10, 100, 10, 101, 10, 112, 10, 113, 10, 102, 10, 104, 10]

#guard bytes8 == str "a\nb\nc\nd\ne\nf\ng\nh\n" && result8 == str "a\nX\nd\ne\np\nq\nf\nh\n"
#guard normalDiffText [m1, m2, m3] == str "2,3c2\n< b\n< c\n---\n> X\n5a5,6\n> p\n> q\n7d7\n< g\n"

theorem applies_all :
    (runPatch o (mk bytes8 [m1, m2, m3])).1 = 0 ∧
    (runPatch o (mk bytes8 [m1, m2, m3])).2.fs.lookup name = some (.file result8 0o644) ∧
    ∀ q, q ≠ name → (runPatch o (mk bytes8 [m1, m2, m3])).2.fs.lookup q = (mk bytes8 [m1, m2, m3]).fs.lookup q := by
  have h := C01_run_normal o (mk bytes8 [m1, m2, m3]) name pname bytes8 0o644 0o644 [m1, m2, m3] runOpts rfl
    ⟨rfl, rfl, rfl, rfl, rfl, rfl⟩ (by decide) (by decide) (by decide) (by decide) rfl (by decide) rfl
    { nonEmpty := by decide, hunks := by decide, change := by decide } (validB_sound _ _ _ _ (by decide))
  have hm : Render.renderText o.newlineOutput (splice (splitLines bytes8) 0 [m1, m2, m3]) = result8 := by decide
  rw [hm] at h
  exact h

/-- a target that does not end in a newline: "a\nb", `2c2` with the marker after the old line; the new line has its newline -/
def hn : Hunk := ⟨⟨2, 1⟩, ⟨2, 1⟩, [⟨MINUS, ⟨[98], .none⟩⟩, ⟨PLUS, ⟨[66], .lf⟩⟩]⟩
#guard normalDiffText [hn] == str "2c2\n< b\n\\ No newline at end of file\n---\n> B\n"

theorem applies_noNewline :
    (runPatch o (mk [97, 10, 98] [hn])).1 = 0 ∧
    (runPatch o (mk [97, 10, 98] [hn])).2.fs.lookup name = some (.file [97, 10, 66, 10] 0o644) := by
  have h := C01_run_normal o (mk [97, 10, 98] [hn]) name pname [97, 10, 98] 0o644 0o644 [hn] runOpts rfl
    ⟨rfl, rfl, rfl, rfl, rfl, rfl⟩ (by decide) (by decide) (by decide) (by decide) rfl (by decide) rfl
    { nonEmpty := by decide, hunks := by decide, change := by decide } (validB_sound _ _ _ _ (by decide))
  have hm : Render.renderText o.newlineOutput (splice (splitLines [97, 10, 98]) 0 [hn]) = [97, 10, 66, 10] := by decide
  rw [hm] at h
  exact ⟨h.1, h.2.1⟩

-- independently: the executable model on the same states (executable tests)
#guard (runPatch o (mk bytes [hc])).1 == 0
#guard (runPatch o (mk bytes [hc])).2.fs.lookup name == some (.file (str "a\nB\nc\n") 0o644)
#guard (runPatch o (mk bytes [hc])).2.fs.lookup pname == (mk bytes [hc]).fs.lookup pname
#guard (runPatch o (mk bytes [hc])).2.par.s.eof && (runPatch o (mk bytes [hc])).2.par.s.rest.isEmpty   -- the loop stopped on the flag
#guard (runPatch o (mk bytes [hc])).2.out == [.file name false]
#guard (runPatch o (mk bytes [hc])).2.trace == [.tmpCreate, .tmpUnlink, .tmpCreate, .tmpUnlink, .creat name,
                                                .write name (str "a\nB\nc\n"), .chmod name 0o644]
#guard (runPatch o (mk bytes [hd])).1 == 0 &&
  (runPatch o (mk bytes [hd])).2.fs.lookup name == some (.file (str "a\nc\n") 0o644)
#guard (runPatch o (mk bytes [ha])).1 == 0 &&
  (runPatch o (mk bytes [ha])).2.fs.lookup name == some (.file (str "a\nb\nx\ny\nc\n") 0o644)
#guard (runPatch o (mk bytes8 [m1, m2, m3])).1 == 0 &&
  (runPatch o (mk bytes8 [m1, m2, m3])).2.fs.lookup name == some (.file result8 0o644)
#guard (runPatch o (mk (str "a\nb") [hn])).1 == 0 &&
  (runPatch o (mk (str "a\nb") [hn])).2.fs.lookup name == some (.file (str "a\nB\n") 0o644)
#guard (runPatch { o with dryRun := true } (mk bytes [hc])).1 == 0 &&
  (runPatch { o with dryRun := true } (mk bytes [hc])).2.fs.lookup name == some (.file bytes 0o644)
#guard (runPatch { o with asNormal := true } (mk bytes [hc])).1 == 0 &&
  (runPatch { o with asNormal := true } (mk bytes [hc])).2.fs.lookup name == some (.file (str "a\nB\nc\n") 0o644)
-- a mode other than 0644 is kept
#guard (runPatch o { fs := { nodes := [(name, .file bytes 0o755), (pname, .file (normalDiffText [hc]) 0o444)] } }).2.fs.lookup name
  == some (.file (str "a\nB\nc\n") 0o755)

/-- **the file operand is needed**: without it (`patch -i p.diff`) there is no name to go by — nobody at the terminal to ask:
    exit status 2; with --batch the patch is skipped: exit status 1; the target is untouched both times -/
def noOperand : Options := { o with fileToPatch := [] }
#guard (runPatch noOperand (mk bytes [hc])).1 == 2 &&
  (runPatch noOperand (mk bytes [hc])).2.fs.lookup name == some (.file bytes 0o644)
#guard (runPatch { noOperand with batch := true } (mk bytes [hc])).1 == 1 &&
  (runPatch { noOperand with batch := true } (mk bytes [hc])).2.fs.lookup name == some (.file bytes 0o644)

end NormalInstance

/-! ### the scope conditions, evaluated (executable tests) -/
namespace NormalScope
open NormalInstance

/-- `1d0`: the first line is removed.  `changeStart` fails (the header scan infers "delete" from the `0`): not an instance of
    `C01_run_normal` but of `C01_run_normal_top` -/
def top : Hunk := ⟨⟨1, 1⟩, ⟨0, 0⟩, [⟨MINUS, ⟨[97], .lf⟩⟩]⟩
/-- `3c2` after it: c → C -/
def top2 : Hunk := ⟨⟨3, 1⟩, ⟨2, 1⟩, [⟨MINUS, ⟨[99], .lf⟩⟩, ⟨PLUS, ⟨[67], .lf⟩⟩]⟩
#guard normalDiffText [top] == str "1d0\n< a\n"
#guard normalDiffText [top, top2] == str "1d0\n< a\n3c2\n< c\n---\n> C\n"
#guard validB (splitLines bytes) 0 0 [top] && decide (NormalHunk top) && !changeStart [top] && deleteStart [top]

/-- the options as `main` leaves them outside POSIX mode: empty files are removed -/
def oE : Options := { o with removeEmptyFiles := .yes }

/-- **`C01_run_normal_top` applies** (`patch -i p.diff f` with the default `-E`; all hypotheses discharged in the kernel):
    `1d0` + `3c2` on "a\nb\nc\n" give "b\nC\n" -/
theorem top_applies :
    (runPatch oE (mk bytes [top, top2])).1 = 0 ∧
    (runPatch oE (mk bytes [top, top2])).2.fs.lookup name = some (.file [98, 10, 67, 10] 0o644) ∧
    ∀ q, q ≠ name → (runPatch oE (mk bytes [top, top2])).2.fs.lookup q = (mk bytes [top, top2]).fs.lookup q := by
  have hm : Render.renderText oE.newlineOutput (splice (splitLines bytes) 0 [top, top2]) = [98, 10, 67, 10] := by decide
  have h := C01_run_normal_top oE (mk bytes [top, top2]) name pname bytes 0o644 0o644 [top, top2]
    { plain := { operand := rfl, noOut := rfl, noBackup := rfl, noReverse := rfl, noDefine := rfl, fuzz := by decide, quiet := rfl },
      file := { patchFile := rfl, noDir := rfl, noHelp := rfl, noVersion := rfl, noContext := rfl, noUnified := rfl, noEd := rfl } }
    rfl ⟨rfl, rfl, rfl, rfl, rfl, rfl⟩ (by decide) (by decide) (by decide) (by decide) rfl (by decide) rfl
    { hunks := by decide, top := by decide } (validB_sound _ _ _ _ (by decide)) (Or.inr (by rw [hm]; decide))
  rw [hm] at h
  exact h

#guard (runPatch oE (mk bytes [top, top2])).1 == 0 &&
  (runPatch oE (mk bytes [top, top2])).2.fs.lookup name == some (.file (str "b\nC\n") 0o644)
#guard (runPatch o (mk bytes [top])).1 == 0 &&
  (runPatch o (mk bytes [top])).2.fs.lookup name == some (.file (str "b\nc\n") 0o644)
#guard (runPatch { oE with dryRun := true } (mk bytes [top])).1 == 0 &&
  (runPatch { oE with dryRun := true } (mk bytes [top])).2.fs.lookup name == some (.file bytes 0o644)

/-- `1,3d0`: everything is removed — the case `hkeep` of `C01_run_normal_top` excludes.  Without `-E` (and in POSIX mode) the
    file is left empty, which is `splice` (and an instance: `all_applies`); with `-E` — what `main` sets outside POSIX mode — it
    is REMOVED, as for the unified `@@ -1,3 +0,0 @@` (GNU patch leaves an empty file behind for a diff without header unless `-E`
    is given on the command line) -/
def all : Hunk := ⟨⟨1, 3⟩, ⟨0, 0⟩, [⟨MINUS, ⟨[97], .lf⟩⟩, ⟨MINUS, ⟨[98], .lf⟩⟩, ⟨MINUS, ⟨[99], .lf⟩⟩]⟩
#guard normalDiffText [all] == str "1,3d0\n< a\n< b\n< c\n"
#guard validB (splitLines bytes) 0 0 [all] && decide (NormalHunk all) && !changeStart [all] && deleteStart [all]

theorem all_applies :
    (runPatch o (mk bytes [all])).1 = 0 ∧ (runPatch o (mk bytes [all])).2.fs.lookup name = some (.file [] 0o644) := by
  have hm : Render.renderText o.newlineOutput (splice (splitLines bytes) 0 [all]) = [] := by decide
  have h := C01_run_normal_top o (mk bytes [all]) name pname bytes 0o644 0o644 [all] runOpts
    rfl ⟨rfl, rfl, rfl, rfl, rfl, rfl⟩ (by decide) (by decide) (by decide) (by decide) rfl (by decide) rfl
    { hunks := by decide, top := by decide } (validB_sound _ _ _ _ (by decide)) (Or.inl (by decide))
  rw [hm] at h
  exact ⟨h.1, h.2.1⟩

#guard (runPatch o (mk bytes [all])).1 == 0 && (runPatch o (mk bytes [all])).2.fs.lookup name == some (.file [] 0o644)
-- `hkeep` is needed: with `-E` and nothing left the conclusion of the theorem is false — the target is gone
#guard (runPatch oE (mk bytes [all])).1 == 0 && ((runPatch oE (mk bytes [all])).2.fs.lookup name).isNone

/-- `0a1` on an EMPTY file: valid, `changeStart` fails ("add" is inferred), the run gives the intended result -/
def intoEmpty : Hunk := ⟨⟨0, 0⟩, ⟨1, 1⟩, [⟨PLUS, ⟨[120], .lf⟩⟩]⟩
#guard normalDiffText [intoEmpty] == str "0a1\n> x\n"
#guard validB (splitLines []) 0 0 [intoEmpty] && decide (NormalHunk intoEmpty) && !changeStart [intoEmpty]
#guard (runPatch o (mk [] [intoEmpty])).1 == 0 &&
  (runPatch o (mk [] [intoEmpty])).2.fs.lookup name == some (.file (str "x\n") 0o644)

/- `0a1` on a NON-empty file — what `diff` prints when a line is put in front of the first — is the recorded finding D2: the
    hunk is rejected (exit status 1, the target untouched).  `Valid` excludes it (its last conjunct), so it is not an instance. -/
#guard !validB (splitLines bytes) 0 0 [intoEmpty]
#guard (runPatch o (mk bytes [intoEmpty])).1 == 1 &&
  (runPatch o (mk bytes [intoEmpty])).2.fs.lookup name == some (.file bytes 0o644)

/-- with `-u` the text is not a patch: exit status 2 (`NormalFileOpts.noUnified`); the same with `-c` and with `-e` -/
def forcedUnified : Options := { o with asUnified := true }
#guard (runPatch forcedUnified (mk bytes [hc])).1 == 2 &&
  (runPatch forcedUnified (mk bytes [hc])).2.fs.lookup name == some (.file bytes 0o644)
#guard (runPatch { o with asContext := true } (mk bytes [hc])).1 == 2 &&
  (runPatch { o with asContext := true } (mk bytes [hc])).2.fs.lookup name == some (.file bytes 0o644)
#guard (runPatch { o with asEd := true } (mk bytes [hc])).1 == 2 &&
  (runPatch { o with asEd := true } (mk bytes [hc])).2.fs.lookup name == some (.file bytes 0o644)

/-- CR LF lines are covered: `f` = "a\r\nb\r\n", `2c2` with CR LF hunk lines, `--newline-output=keep` -/
def crlf : Hunk := ⟨⟨2, 1⟩, ⟨2, 1⟩, [⟨MINUS, ⟨[98], .crlf⟩⟩, ⟨PLUS, ⟨[66], .crlf⟩⟩]⟩
#guard normalDiffText [crlf] == str "2c2\n< b\r\n---\n> B\r\n"

theorem crlf_applies :
    (runPatch { o with newlineOutput := .keep } (mk [97, 13, 10, 98, 13, 10] [crlf])).1 = 0 ∧
    (runPatch { o with newlineOutput := .keep } (mk [97, 13, 10, 98, 13, 10] [crlf])).2.fs.lookup name =
      some (.file [97, 13, 10, 66, 13, 10] 0o644) := by
  have h := C01_run_normal { o with newlineOutput := .keep } (mk [97, 13, 10, 98, 13, 10] [crlf]) name pname
    [97, 13, 10, 98, 13, 10] 0o644 0o644 [crlf]
    { plain := { operand := rfl, noOut := rfl, noBackup := rfl, noReverse := rfl, noDefine := rfl, fuzz := by decide, quiet := rfl },
      file := { patchFile := rfl, noDir := rfl, noHelp := rfl, noVersion := rfl, noContext := rfl, noUnified := rfl, noEd := rfl } }
    rfl ⟨rfl, rfl, rfl, rfl, rfl, rfl⟩ (by decide) (by decide) (by decide) (by decide) rfl (by decide) rfl
    { nonEmpty := by decide, hunks := by decide, change := by decide } (validB_sound _ _ _ _ (by decide))
  have hm : Render.renderText NewlineOutput.keep (splice (splitLines [97, 13, 10, 98, 13, 10]) 0 [crlf]) =
      [97, 13, 10, 66, 13, 10] := by decide
  exact ⟨h.1, by rw [← hm]; exact h.2.1⟩

#guard (runPatch { o with newlineOutput := .keep } (mk (str "a\r\nb\r\n") [crlf])).1 == 0 &&
  (runPatch { o with newlineOutput := .keep } (mk (str "a\r\nb\r\n") [crlf])).2.fs.lookup name ==
    some (.file (str "a\r\nB\r\n") 0o644)

end NormalScope

end PatchModel.C01

#print axioms PatchModel.RunN.parseNormalRange_rangeTextN
#print axioms PatchModel.RunN.parseNormalBody_hunks
#print axioms PatchModel.RunN.parseHeader_normal
#print axioms PatchModel.RunN.parse_normalLines
#print axioms PatchModel.C01.splitLines_normalDiffText
#print axioms PatchModel.C01.C01_run_normal
#print axioms PatchModel.C01.C15_run_normal_dry
#print axioms PatchModel.C01.C01_run_normal_flat
#print axioms PatchModel.C01.C01_run_normal_top
#print axioms PatchModel.C01.C15_run_normal_top_dry
#print axioms PatchModel.C01.NormalScope.top_applies
#print axioms PatchModel.C01.NormalScope.all_applies
#print axioms PatchModel.C01.NormalInstance.applies_c
#print axioms PatchModel.C01.NormalInstance.applies_d
#print axioms PatchModel.C01.NormalInstance.applies_a
#print axioms PatchModel.C01.NormalInstance.applies_dry
#print axioms PatchModel.C01.NormalInstance.applies_all
#print axioms PatchModel.C01.NormalInstance.applies_noNewline
#print axioms PatchModel.C01.NormalScope.crlf_applies
