/-
  C02 / C03 at the level of apply_patch (statements; proofs in progress)
-/
import PatchModel.Lemmas.Apply
import PatchModel.Props.C02
import PatchModel.Props.C03
namespace PatchModel.C02
open PatchModel

/-- index of the original line an output item was copied from -/
def fileIdx : Out → Option Nat
  | .fromFile i _ => some i
  | _ => none

/-- original line `i` lies under a '-' line of one of the placements -/
def deletedB (pls : List (Hunk × Nat)) (i : Nat) : Bool :=
  pls.any fun (h, p) => decide (p ≤ i) &&
    (match (h.lines.filter (·.op != PLUS))[i - p]? with
     | some pl => pl.op == MINUS
     | none => false)

theorem fileIdx_eq : fileIdx = Splice.Out.srcIdx := by
  funext o; cases o <;> rfl

theorem deletedB_eq (pls : List (Hunk × Nat)) (i : Nat) : deletedB pls i = Splice.delB pls i := rfl

/-- the admissibility predicate includes "the old side fits in the file, but for the lines at its end which fuzz ignores" (D99) and
    "the hunk starts inside the file or at its very end" (D109: the end only if fuzz ignores the whole old side) -/
theorem admissibleB_fit {file : List Line} {h : Hunk} {iw : Bool} {maxFuzz : Int} {p f : Nat}
    (hadm : admissibleB file h iw maxFuzz p f = true) :
    p + (oldOf h.lines).length ≤ file.length + (fuzzPair h.lines f).2 ∧ p ≤ file.length := by
  obtain ⟨_, _, _, h1, h2, _⟩ := (admissibleB_iff file h iw maxFuzz p f).1 hadm
  exact ⟨h1, h2⟩

/-- without fuzz the old side of an admissible placement lies inside the file -/
theorem admissibleB_fit_zero {file : List Line} {h : Hunk} {iw : Bool} {maxFuzz : Int} {p : Nat}
    (hadm : admissibleB file h iw maxFuzz p 0 = true) : p + (oldOf h.lines).length ≤ file.length := by
  have := (admissibleB_fit hadm).1
  rw [fuzzPair_snd] at this
  omega

/-- whatever of an admissible placement lies beyond the end of the file is context, not a deletion -/
theorem admissibleB_tail {file : List Line} {h : Hunk} {iw : Bool} {maxFuzz : Int} {p f : Nat}
    (hadm : admissibleB file h iw maxFuzz p f = true) :
    ∀ k, file.length ≤ p + k → Splice.delAt h.lines k = false := by
  intro k hk
  unfold Splice.delAt
  split
  · next pl hpl =>
    rw [admissible_beyond_SP file h iw maxFuzz p f hadm k hk pl hpl]
    decide
  · rfl

/-- C02 at the locator level (`locate_sound`, `locate_insertion`) in the form the hunk loop uses -/
theorem locatorSound (file : List Line) (iw : Bool) (maxFuzz : Int) : Apply.LocatorSound file iw maxFuzz := by
  intro h off minLine hwf l hl
  by_cases hc : h.old.count = 0
  · obtain ⟨_, _, h3, h4, h5⟩ := locate_insertion file h iw off maxFuzz minLine l hl hc
    have hlen : (oldOf h.lines).length = 0 := by have := hwf.2.1; omega
    refine ⟨l.line.toNat, by omega, by omega, by omega, fun k _ => Splice.delAt_of_ge (by omega),
      fun hne => absurd hc hne⟩
  · obtain ⟨p, f, h1, _, h3, h4, _⟩ := locate_sound file h iw off maxFuzz minLine l hl hc
    exact ⟨p, h1, h3, by have := (admissibleB_fit h4).2; omega, admissibleB_tail h4, fun _ => ⟨f, h4⟩⟩

/-- every item tagged "original line i" really carries the bytes and terminator of line i -/
theorem spliceAt_fromFile (file : List Line) (c : Nat) (pls : List (Hunk × Nat)) :
    ∀ o ∈ spliceAt file c pls, ∀ i l, o = Out.fromFile i l → file[i]? = some l :=
  Splice.spliceAt_faithful file pls c

/-- original lines appear in order, each at most once -/
theorem spliceAt_sorted (file : List Line) (c : Nat) (pls : List (Hunk × Nat))
    (h : increasingB file c pls = true) :
    ((spliceAt file c pls).filterMap fileIdx).Pairwise (· < ·) := by
  rw [fileIdx_eq]
  exact Splice.srcIdxs_spliceAt_sorted file pls c h

/-- an original line at or after the cursor is in the output iff no applied hunk deletes it -/
theorem spliceAt_complete (file : List Line) (c : Nat) (pls : List (Hunk × Nat))
    (h : increasingB file c pls = true)
    (hops : ∀ hp ∈ pls, ∀ pl ∈ hp.1.lines, pl.op = SP ∨ pl.op = PLUS ∨ pl.op = MINUS) :
    ∀ i, c ≤ i → i < file.length →
      (i ∈ (spliceAt file c pls).filterMap fileIdx ↔ deletedB pls i = false) := by
  intro i h1 h2
  rw [fileIdx_eq, deletedB_eq]
  exact Splice.mem_srcIdxs_spliceAt file pls c h hops i h1 h2

/-- **C02 at the level of apply_patch**: for every file, every sequence of well-formed hunks (any line numbers, any
    order, overlapping), every -F, with and without -l, -R, -N, -t, -f and every tty answer stream: if
    `apply_patch` returns, its output is the splice of the file with a list of placements that are in increasing
    order, non-overlapping, starting inside the file (and reaching beyond its end only with context lines at the end of the hunk which
    fuzz ignores, D99: `increasingB` / `spliceAt` go on from `nextCursor`), and each admissible. -/
theorem C02_apply (file : List Line) (p0 : Patch) (o : ApplyOpts) (tty : Option (List Bool)) (r : ApplyResult)
    (hwf : ∀ h ∈ p0.hunks, h.WF) (hD : o.define = [])
    (hr : applyPatch file p0 o tty = .ok r) :
    ∃ pls : List (Hunk × Nat),
      r.out = spliceAt file 0 pls ∧ increasingB file 0 pls = true ∧
      pls.length = r.applied.length ∧
      (∀ hp ∈ pls, hp.1 ∈ r.patch.hunks ∧ hp.1.WF) ∧
      (∀ hp ∈ pls, hp.1.old.count ≠ 0 →
        ∃ f : Nat, admissibleB file hp.1 o.ignoreWhitespace o.maxFuzz hp.2 f = true) :=
  Apply.applyPatch_splice (locatorSound file _ _) hwf hD hr

end PatchModel.C02

