import PatchModel.Spec.Script
namespace PatchModel.C18
/-- placeholder until the driver model's theorems are in (see DESIGN.md section 5/C18) -/
theorem placeholder : True := trivial
end PatchModel.C18
