/-
  C18 / C04 (exit status) / C09 (driver model).
-/
import PatchModel.Model.Driver
import PatchModel.Lemmas.DriverFacts
namespace PatchModel.C18
open PatchModel PatchModel.DriverFacts

/-- backup name: prefix + path + suffix per -B / -z, ".orig" appended when neither is given -/
theorem backupName_spec (o : Options) (p : Bytes) :
    (o.backupPrefix = [] → o.backupSuffix = [] → backupName o p = p ++ str ".orig") ∧
    (o.backupPrefix ≠ [] ∨ o.backupSuffix ≠ [] → backupName o p = o.backupPrefix ++ p ++ o.backupSuffix) := by
  unfold backupName
  cases h1 : o.backupPrefix <;> cases h2 : o.backupSuffix <;> simp

/-- the first backup of an existing regular file moves its bytes and mode to the backup name; the target path is then free -/
theorem makeBackupFor_existing (o : Options) (p : Bytes) (s : DState) (b : Bytes) (m : Nat)
    (hnot : ¬ s.backedUp.contains (backupName o p) = true)
    (hfile : s.fs.lookup (absPath s p) = some (.file b m))
    (hdir : s.fs.dirExists (parentOf (absPath s (backupName o p))) = true)
    (hne : absPath s (backupName o p) ≠ absPath s p)
    (hf : s.faultAt = none) :
    ∃ s', (makeBackupFor o p).run s = (.ok (), s') ∧
      s'.fs.lookup (absPath s (backupName o p)) = some (.file b m) ∧
      s'.fs.lookup (absPath s p) = none ∧
      s'.backedUp.contains (backupName o p) = true ∧
      s'.trace = s.trace ++ [FsOp.rename (absPath s p) (absPath s (backupName o p))] := by
  have hst := Fs.stat_of_file hfile
  have happ : s.fs.apply (.rename (absPath s p) (absPath s (backupName o p))) =
      .ok ((s.fs.erase (absPath s p)).set (absPath s (backupName o p)) (.file b m)) := by
    simp only [Fs.apply, hfile, hdir]; rfl
  refine ⟨{ s with backedUp := s.backedUp ++ [backupName o p],
                   fs := (s.fs.erase (absPath s p)).set (absPath s (backupName o p)) (.file b m),
                   trace := s.trace ++ [FsOp.rename (absPath s p) (absPath s (backupName o p))],
                   opCount := s.opCount + 1 }, ?_, ?_, ?_, ?_, ?_⟩
  · rw [makeBackupFor_run, if_neg hnot, hst, if_pos (by rfl)]
    exact doOp_run_ok hf happ
  · exact Fs.lookup_set_self _ _ _
  · show (Fs.set _ _ _).lookup _ = none
    rw [Fs.lookup_set_ne _ _ _ _ (Ne.symm hne), Fs.lookup_erase_self]
  · simp
  · rfl

set_option linter.unusedVariables false in
/-- a target that does not exist yields an empty backup file -/
theorem makeBackupFor_absent (o : Options) (p : Bytes) (s : DState)
    (hnot : ¬ s.backedUp.contains (backupName o p) = true)
    (habs : s.fs.stat (absPath s p) = none)
    (hnone : s.fs.stat (absPath s (backupName o p)) = none) (hnl : s.fs.lookup (absPath s (backupName o p)) = none)
    (hdir : s.fs.dirExists (parentOf (absPath s (backupName o p))) = true)
    (hf : s.faultAt = none) :
    ∃ s' m, (makeBackupFor o p).run s = (.ok (), s') ∧
      s'.fs.lookup (absPath s (backupName o p)) = some (.file [] m) := by
  have happ : s.fs.apply (.creat (absPath s (backupName o p))) =
      .ok (s.fs.set (absPath s (backupName o p)) (.file [] (0o666 - (0o666 &&& s.fs.umask)))) := by
    simp only [Fs.apply, hnone, hdir]; rfl
  refine ⟨{ s with backedUp := s.backedUp ++ [backupName o p],
                   fs := s.fs.set (absPath s (backupName o p)) (.file [] (0o666 - (0o666 &&& s.fs.umask))),
                   trace := s.trace ++ [FsOp.creat (absPath s (backupName o p))],
                   opCount := s.opCount + 1 }, (0o666 - (0o666 &&& s.fs.umask)), ?_, ?_⟩
  · rw [makeBackupFor_run, if_neg hnot, habs, if_neg (by simp)]
    exact doOp_run_ok hf happ
  · exact Fs.lookup_set_self _ _ _

/-- several patches for one file: only the first backup is made — a later call for the same backup name does nothing at all -/
theorem makeBackupFor_again (o : Options) (p : Bytes) (s : DState) (hin : s.backedUp.contains (backupName o p) = true) :
    (makeBackupFor o p).run s = (.ok (), s) := by
  rw [makeBackupFor_run, if_pos hin]

/-! ### the backup is made right before the write — also for deferred (git) writes

    `write_patched_result_to_file` makes the backup itself (the caller only says whether one is due), after `make_writable` and before
    the file is re-created; for a deferred write the request is recorded (`DeferredWrite.backup`) and `DeferredWriter::finalize` does
    the same steps.  `DriverFacts.writeNow` is that common sequence. -/

/-- what `DeferredWriter::finalize` does for one deferred write -/
def finalizeWrite (o : Options) (w : DeferredWrite) : DM Unit := do
  ensureParentDirs w.dest
  writeNow o w.dest w.perm w.backup w.content w.newMode

/-- `DeferredWriter::finalize`: `finalizeWrite` for every deferred write in turn, then the removals -/
theorem finalizeDeferred_writes (o : Options) :
    finalizeDeferred o = (do
      let s ← get
      for w in s.dWrites do finalizeWrite o w
      for p in s.dRemovals do
        if !(s.dWrites.any (·.dest == p)) then removeFileAndEmptyParents p) := by
  rw [finalizeDeferred_eq]
  simp only [finalizeWrite, bind_assoc]

/-- the operations of `pre; writeNow …` where `pre` only creates directories: `pre ++ bk ++ post` with
    * `pre`: `mkdir`s and the `chmod` that makes a read-only target writable,
    * `bk`: the backup — the `rename` of the target to its backup name, or the `creat` of an empty backup —, or nothing,
    * `post`: the `creat` of the target, followed by its `write` and the `chmod` of the permission callback;
    **if a backup is due (`sb`, and none was made for this name before), nothing happens to the target before the backup operation
    has succeeded**; if none is due, none is made; on success the target has been created -/
theorem writeNow_backup_first {pre : DM Unit} (o : Options) (out : Bytes) (perm : PermResult) (sb : Bool) (content : Bytes) (nm : Nat)
    (hk : ∀ s s1 r, pre.run s = (r, s1) → s1.cwd = s.cwd ∧ s1.backedUp = s.backedUp)
    (ht : TrExt (fun op => ∃ d, op = FsOp.mkdir d) pre)
    (s s' : DState) (r : Except Exn Unit)
    (h : (pre >>= fun _ => writeNow o out perm sb content nm).run s = (r, s')) :
    ∃ pre bk post, s'.trace = s.trace ++ pre ++ bk ++ post ∧
      (∀ op ∈ pre, (∃ d, op = FsOp.mkdir d) ∨ ∃ m, op = FsOp.chmod (absPath s out) m) ∧
      (bk = [] ∨ bk = [FsOp.rename (absPath s out) (absPath s (backupName o out))] ∨
        bk = [FsOp.creat (absPath s (backupName o out))]) ∧
      (post = [] ∨ ∃ rest, post = FsOp.creat (absPath s out) :: rest ∧
        ∀ op ∈ rest, (∃ b, op = FsOp.write (absPath s out) b) ∨ ∃ m, op = FsOp.chmod (absPath s out) m) ∧
      (sb = true → s.backedUp.contains (backupName o out) = false → bk = [] → post = []) ∧
      (sb = false ∨ s.backedUp.contains (backupName o out) = true → bk = []) ∧
      (r = .ok () → post ≠ []) := by
  rw [run_bind] at h
  split at h
  · next _ s1 h1 =>
    obtain ⟨c1, b1⟩ := hk _ _ _ h1
    obtain ⟨D, t1, hD⟩ := ht.run h1
    obtain ⟨-, W, B, C, t, hW, hB, hC, hfirst, hnone, hok, -⟩ := writeNow_shape _ _ _ _ _ _ h
    rw [absPath_cwd c1] at hW hC
    rw [absPath_cwd c1, absPath_cwd c1] at hB
    rw [b1] at hfirst hnone
    refine ⟨D ++ W, B, C, by rw [t, t1]; simp only [List.append_assoc], ?_, hB, hC, hfirst, hnone, hok⟩
    intro op hop
    rcases List.mem_append.1 hop with h | h
    · exact Or.inl (hD op h)
    · rcases hW with rfl | ⟨m, rfl⟩
      · cases h
      · rw [List.mem_singleton.1 h]; exact Or.inr ⟨m, rfl⟩
  · next e s1 h1 =>
    cases h
    obtain ⟨D, t1, hD⟩ := ht.run h1
    exact ⟨D, [], [], by rw [t1]; simp, fun op hop => Or.inl (hD op hop), Or.inl rfl, Or.inl rfl, fun _ _ _ => rfl,
      fun _ => rfl, fun he => (by cases he)⟩

/-- **`DeferredWriter::finalize` backs up before it writes**: for a deferred write with `backup = true` whose backup name has not been
    used yet, the first operation that is neither a `mkdir` nor the `chmod` of `make_writable` is the backup (`rename` of the
    destination to the backup name, or `creat` of an empty backup); only then is the destination created.  Without a backup request
    (or when the backup exists already) no backup operation is made. -/
theorem finalize_backup_first (o : Options) (w : DeferredWrite) (s s' : DState) (r : Except Exn Unit)
    (h : (finalizeWrite o w).run s = (r, s')) :
    ∃ pre bk post, s'.trace = s.trace ++ pre ++ bk ++ post ∧
      (∀ op ∈ pre, (∃ d, op = FsOp.mkdir d) ∨ ∃ m, op = FsOp.chmod (absPath s w.dest) m) ∧
      (bk = [] ∨ bk = [FsOp.rename (absPath s w.dest) (absPath s (backupName o w.dest))] ∨
        bk = [FsOp.creat (absPath s (backupName o w.dest))]) ∧
      (post = [] ∨ ∃ rest, post = FsOp.creat (absPath s w.dest) :: rest ∧
        ∀ op ∈ rest, (∃ b, op = FsOp.write (absPath s w.dest) b) ∨ ∃ m, op = FsOp.chmod (absPath s w.dest) m) ∧
      (w.backup = true → s.backedUp.contains (backupName o w.dest) = false → bk = [] → post = []) ∧
      (w.backup = false ∨ s.backedUp.contains (backupName o w.dest) = true → bk = []) ∧
      (r = .ok () → post ≠ []) :=
  writeNow_backup_first o w.dest w.perm w.backup w.content w.newMode
    (fun _ _ _ h1 => ⟨ensureParentDirs_keeps (·.cwd) (fun _ _ _ _ => rfl) _ h1,
      ensureParentDirs_keeps (·.backedUp) (fun _ _ _ _ => rfl) _ h1⟩)
    (ensureParentDirs_trExt (fun d => ⟨d, rfl⟩) w.dest) s s' r h

/-- the same for the immediate write of `write_patched_result_to_file` (anything but a git patch, or a git deletion): the backup
    is made by `writePatchedResult` itself, after `make_writable` and before the file is re-created -/
theorem direct_write_backup_first (o : Options) (p : Patch) (out : Bytes) (perm : PermResult) (sb : Bool) (content : Bytes)
    (hc : (p.format == .git && p.operation != .delete) = false) (s s' : DState) (r : Except Exn Unit)
    (h : (writePatchedResult o p out perm sb content).run s = (r, s')) :
    ∃ pre bk post, s'.trace = s.trace ++ pre ++ bk ++ post ∧
      (∀ op ∈ pre, (∃ d, op = FsOp.mkdir d) ∨ ∃ m, op = FsOp.chmod (absPath s out) m) ∧
      (bk = [] ∨ bk = [FsOp.rename (absPath s out) (absPath s (backupName o out))] ∨
        bk = [FsOp.creat (absPath s (backupName o out))]) ∧
      (post = [] ∨ ∃ rest, post = FsOp.creat (absPath s out) :: rest ∧
        ∀ op ∈ rest, (∃ b, op = FsOp.write (absPath s out) b) ∨ ∃ m, op = FsOp.chmod (absPath s out) m) ∧
      (sb = true → s.backedUp.contains (backupName o out) = false → bk = [] → post = []) ∧
      (sb = false ∨ s.backedUp.contains (backupName o out) = true → bk = []) ∧
      (r = .ok () → post ≠ []) := by
  rw [writePatchedResult_direct o p out perm sb content hc] at h
  refine writeNow_backup_first o out perm sb content p.newMode ?_ ?_ s s' r h
  · intro s s1 r h1
    split at h1
    · exact ⟨ensureParentDirs_keeps (·.cwd) (fun _ _ _ _ => rfl) _ h1,
        ensureParentDirs_keeps (·.backedUp) (fun _ _ _ _ => rfl) _ h1⟩
    · cases h1; exact ⟨rfl, rfl⟩
  · have := ensureParentDirs_trExt (A := fun op => ∃ d, op = FsOp.mkdir d) (fun d => ⟨d, rfl⟩)
    spec_walk (good_ext _)

end PatchModel.C18

#print axioms PatchModel.C18.backupName_spec
#print axioms PatchModel.C18.makeBackupFor_existing
#print axioms PatchModel.C18.makeBackupFor_absent
#print axioms PatchModel.C18.makeBackupFor_again
#print axioms PatchModel.C18.finalizeDeferred_writes
#print axioms PatchModel.C18.writeNow_backup_first
#print axioms PatchModel.C18.finalize_backup_first
#print axioms PatchModel.C18.direct_write_backup_first
