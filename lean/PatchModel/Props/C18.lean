/-
  C18 / C04 (exit status) / C09 (driver model).
-/
import PatchModel.Model.Driver
import PatchModel.Lemmas.DriverFacts
import PatchModel.Lemmas.Cpp
namespace PatchModel.C18
open PatchModel PatchModel.DriverFacts

/-- backup name: prefix + path + suffix per -B / -z, ".orig" appended when neither is given -/
theorem backupName_spec (o : Options) (p : Bytes) :
    (o.backupPrefix = [] → o.backupSuffix = [] → backupName o p = p ++ str ".orig") ∧
    (o.backupPrefix ≠ [] ∨ o.backupSuffix ≠ [] → backupName o p = o.backupPrefix ++ p ++ o.backupSuffix) := by
  unfold backupName
  cases h1 : o.backupPrefix <;> cases h2 : o.backupSuffix <;> simp

theorem backupName_ne_nil (o : Options) (p : Bytes) : backupName o p ≠ [] := by
  have h0 : str ".orig" = [46, 111, 114, 105, 103] := by
    unfold str String.toUTF8; rw [Cpp.byteArray_toList_eq_data]; rfl
  unfold backupName
  cases h1 : o.backupPrefix <;> cases h2 : o.backupSuffix <;> simp [h0]

/-! ### `Backup::make_backup_for` — now: `ensure_parent_directories(backup name)` first (`-B bak/`)

    `makeBackupFor_after_dirs` / `makeBackupFor_absent_after_dirs` are the general statements: whatever
    `ensure_parent_directories` did (its operations are `mkdir`s of directory prefixes of the backup name, and nothing that was
    in the tree is lost: `DriverFacts.ensureParentDirs_shape`), the backup operation follows.  The two special cases spelled
    out: all directories of the backup name are there already (`makeBackupFor_existing` / `_absent`: the statements as they
    were, with that hypothesis added), and exactly one directory, missing (`makeBackupFor_existing_mkdir`: `-B bak/` in a tree
    without `bak`). -/

/-- `rename a b` in the model: needs `a` to be there, the directory of `b` to be a directory, and `b` not to be a directory (what is
    renamed is a file: a directory is only replaced by a directory, EISDIR); whatever else is at `b` is replaced -/
theorem apply_rename_nondir {fs : Fs} {a b : Bytes} {n : Node} (h : fs.lookup a = some n)
    (hdir : fs.dirExists (parentOf b) = true) (hnd : ∀ m, fs.lookup b ≠ some (.dir m)) :
    fs.apply (.rename a b) = .ok ((fs.erase a).set b n) := by
  simp only [Fs.apply, h, hdir, Bool.not_true, Bool.false_eq_true, if_false]
  rw [if_neg]
  intro hc
  split at hc
  · cases hc
  · next _ _ m hb _ => exact absurd hb (hnd m)
  · cases hc

/-- the directory part of a non-empty path is not the path -/
theorem parentOf_ne_self {p : Bytes} (hp : p ≠ []) : parentOf p ≠ p := by
  intro e
  have h1 : (p.reverse.dropWhile (· != SLASHB)).length ≤ p.length := by
    have := (List.dropWhile_sublist (l := p.reverse) (· != SLASHB)).length_le
    simpa using this
  have h2 : 0 < p.length := List.length_pos_iff.2 hp
  have h3 := congrArg List.length e
  unfold parentOf at h3
  simp only [List.length_reverse, List.length_drop] at h3
  omega

theorem absPath_ne_nil (s : DState) {p : Bytes} (hp : p ≠ []) : absPath s p ≠ [] := by
  unfold absPath
  split
  · exact hp
  · simp

/-- the backup of an existing regular file, after `ensure_parent_directories` has led from `s` (with the bookkeeping done) to `s1`.
    CHANGED with the model change "a file is not renamed onto a directory" (`Fs.apply (.rename …)`: EISDIR): `hnd`, the backup name is
    not that of a directory, is new -/
theorem makeBackupFor_after_dirs (o : Options) (p : Bytes) (s s1 : DState) (b : Bytes) (m : Nat)
    (hnot : ¬ s.backedUp.contains (backupName o p) = true)
    (hens : (ensureParentDirs (backupName o p)).run { s with backedUp := s.backedUp ++ [backupName o p] } = (.ok (), s1))
    (hfile : s1.fs.lookup (absPath s p) = some (.file b m))
    (hdir : s1.fs.dirExists (parentOf (absPath s (backupName o p))) = true)
    (hnd : ∀ m', s1.fs.lookup (absPath s (backupName o p)) ≠ some (.dir m'))
    (hne : absPath s (backupName o p) ≠ absPath s p)
    (hf : s.faultAt = none) :
    ∃ s', (makeBackupFor o p).run s = (.ok (), s') ∧
      s'.fs.lookup (absPath s (backupName o p)) = some (.file b m) ∧
      s'.fs.lookup (absPath s p) = none ∧
      s'.backedUp.contains (backupName o p) = true ∧
      s'.trace = s1.trace ++ [FsOp.rename (absPath s p) (absPath s (backupName o p))] := by
  have hnf : notFileAt s p = false :=
    notFileAt_of_grown_file (s := s) (ensureParentDirs_shape _ hens).2.2.2 hfile
  obtain ⟨⟨fs', t, n, rfl⟩, -⟩ := ensureParentDirs_shape _ hens
  have hfile : fs'.lookup (absPath s p) = some (.file b m) := hfile
  have hdir : fs'.dirExists (parentOf (absPath s (backupName o p))) = true := hdir
  have hnd : ∀ m', fs'.lookup (absPath s (backupName o p)) ≠ some (.dir m') := hnd
  have hst := Fs.stat_of_file hfile
  have happ : fs'.apply (.rename (absPath s p) (absPath s (backupName o p))) =
      .ok ((fs'.erase (absPath s p)).set (absPath s (backupName o p)) (.file b m)) :=
    apply_rename_nondir hfile hdir hnd
  refine ⟨{ s with backedUp := s.backedUp ++ [backupName o p],
                   fs := (fs'.erase (absPath s p)).set (absPath s (backupName o p)) (.file b m),
                   trace := t ++ [FsOp.rename (absPath s p) (absPath s (backupName o p))],
                   opCount := n + 1 }, ?_, ?_, ?_, ?_, ?_⟩
  · rw [makeBackupFor_run, if_neg (by rw [hnf]; simp), if_neg hnot, hens]
    simp only []
    have e1 : ∀ q, absPath { s with backedUp := s.backedUp ++ [backupName o p], fs := fs', trace := t, opCount := n } q = absPath s q :=
      fun _ => rfl
    simp only [e1]
    rw [hst, if_pos (by rfl)]
    exact doOp_run_ok (s := { s with backedUp := s.backedUp ++ [backupName o p], fs := fs', trace := t, opCount := n }) hf happ
  · exact Fs.lookup_set_self _ _ _
  · show (Fs.set _ _ _).lookup _ = none
    rw [Fs.lookup_set_ne _ _ _ _ (Ne.symm hne), Fs.lookup_erase_self]
  · simp
  · rfl

/-- the first backup of an existing regular file moves its bytes and mode to the backup name; the target path is then free.
    (The directories of the backup name are all there: `hdirs`, new — the statement was without it, when `make_backup_for` did not
    look at them; without it the operations may start with `mkdir`s: `makeBackupFor_existing_mkdir`.  `hnd`, new: the backup name is
    not that of a directory — a file is not renamed onto a directory any more.) -/
theorem makeBackupFor_existing (o : Options) (p : Bytes) (s : DState) (b : Bytes) (m : Nat)
    (hnot : ¬ s.backedUp.contains (backupName o p) = true)
    (hfile : s.fs.lookup (absPath s p) = some (.file b m))
    (hdirs : ∀ d ∈ dirPrefixes (backupName o p), (s.fs.lookup (absPath s d)).isSome = true)
    (hdir : s.fs.dirExists (parentOf (absPath s (backupName o p))) = true)
    (hnd : ∀ m', s.fs.lookup (absPath s (backupName o p)) ≠ some (.dir m'))
    (hne : absPath s (backupName o p) ≠ absPath s p)
    (hf : s.faultAt = none) :
    ∃ s', (makeBackupFor o p).run s = (.ok (), s') ∧
      s'.fs.lookup (absPath s (backupName o p)) = some (.file b m) ∧
      s'.fs.lookup (absPath s p) = none ∧
      s'.backedUp.contains (backupName o p) = true ∧
      s'.trace = s.trace ++ [FsOp.rename (absPath s p) (absPath s (backupName o p))] :=
  makeBackupFor_after_dirs o p s
    { s with backedUp := s.backedUp ++ [backupName o p], opCount := s.opCount + (dirPrefixes (backupName o p)).length } b m hnot
    (ensureParentDirs_run_exist (backupName o p) { s with backedUp := s.backedUp ++ [backupName o p] } (backupName_ne_nil o p) hf hdirs)
    hfile hdir hnd hne hf

/-- **`-B bak/` and no directory `bak` yet**: the backup name has exactly one directory `d`, which is missing (its own parent is
    there): `make_backup_for` creates it and then moves the file there — `mkdir d`, `rename p (backup name)` -/
theorem makeBackupFor_existing_mkdir (o : Options) (p d : Bytes) (s : DState) (b : Bytes) (m : Nat)
    (hnot : ¬ s.backedUp.contains (backupName o p) = true)
    (hfile : s.fs.lookup (absPath s p) = some (.file b m))
    (hd : dirPrefixes (backupName o p) = [d])
    (hnew : s.fs.lookup (absPath s d) = none)
    (hpar : s.fs.dirExists (parentOf (absPath s d)) = true)
    (hin : parentOf (absPath s (backupName o p)) = absPath s d)
    (hnd : ∀ m', s.fs.lookup (absPath s (backupName o p)) ≠ some (.dir m'))
    (hne : absPath s (backupName o p) ≠ absPath s p)
    (hf : s.faultAt = none) :
    ∃ s', (makeBackupFor o p).run s = (.ok (), s') ∧
      s'.fs.lookup (absPath s (backupName o p)) = some (.file b m) ∧
      s'.fs.lookup (absPath s p) = none ∧
      s'.backedUp.contains (backupName o p) = true ∧
      s'.trace = s.trace ++ [FsOp.mkdir (absPath s d), FsOp.rename (absPath s p) (absPath s (backupName o p))] := by
  have hpd : absPath s p ≠ absPath s d := by
    intro e; rw [e, hnew] at hfile; cases hfile
  have hbd : absPath s (backupName o p) ≠ absPath s d := by
    rw [← hin]; exact (parentOf_ne_self (absPath_ne_nil s (backupName_ne_nil o p))).symm
  obtain ⟨s', h1, h2, h3, h4, h5⟩ := makeBackupFor_after_dirs o p s
    { s with backedUp := s.backedUp ++ [backupName o p],
             fs := s.fs.set (absPath s d) (.dir (0o777 - (0o777 &&& s.fs.umask))),
             trace := s.trace ++ [.mkdir (absPath s d)], opCount := s.opCount + 1 } b m hnot
    (ensureParentDirs_run_one (backupName o p) d { s with backedUp := s.backedUp ++ [backupName o p] } (backupName_ne_nil o p) hf hd
      hnew hpar)
    (by show (Fs.set s.fs (absPath s d) _).lookup _ = _
        rw [Fs.lookup_set_ne _ _ _ _ hpd]; exact hfile)
    (by show Fs.dirExists (Fs.set s.fs (absPath s d) _) _ = true
        rw [hin]; unfold Fs.dirExists
        rw [Fs.lookup_set_self]; simp)
    (by intro m'
        show (Fs.set s.fs (absPath s d) _).lookup _ ≠ _
        rw [Fs.lookup_set_ne _ _ _ _ hbd]; exact hnd m')
    hne hf
  exact ⟨s', h1, h2, h3, h4, by rw [h5]; show (s.trace ++ [_]) ++ [_] = _; rw [List.append_assoc]; rfl⟩

/-- the hypotheses of `makeBackupFor_existing_mkdir` can be met: `-B bak/`, the file `f`, a tree without `bak` -/
example : ∃ s', (makeBackupFor { defaultOptions with backupPrefix := [98, 97, 107, 47] } [102]).run
      { fs := { nodes := [([102], .file [97, 10] 0o644)] } } = (.ok (), s') ∧
    s'.fs.lookup [98, 97, 107, 47, 102] = some (.file [97, 10] 0o644) ∧ s'.fs.lookup [102] = none ∧
    s'.trace = [FsOp.mkdir [98, 97, 107], FsOp.rename [102] [98, 97, 107, 47, 102]] := by
  obtain ⟨s', h1, h2, h3, -, h5⟩ := makeBackupFor_existing_mkdir { defaultOptions with backupPrefix := [98, 97, 107, 47] } [102]
    [98, 97, 107] { fs := { nodes := [([102], .file [97, 10] 0o644)] } } [97, 10] 0o644 (by decide) (by decide) (by decide) (by decide)
    (by decide) (by decide) (fun m' h => by rw [show Fs.lookup _ _ = none from by decide] at h; cases h) (by decide) rfl
  exact ⟨s', h1, h2, h3, h5⟩

/-- a target that does not exist yields an empty backup file, after `ensure_parent_directories` has led to `s1`.
    CHANGED with the model change `remove_symbolic_link` (D95): `hnl`, the backup name is not that of a symbolic link, is new — `hnone`
    allows a dangling link, which is now removed first: `makeBackupFor_missing_replaces_link` below is the statement for a link.
    (`make_way_for`, D101, removes a regular file of that name as well — `hnone` excludes that: `makeBackupFor_missing_replaces_file`.) -/
theorem makeBackupFor_absent_after_dirs (o : Options) (p : Bytes) (s s1 : DState)
    (hnot : ¬ s.backedUp.contains (backupName o p) = true)
    (hens : (ensureParentDirs (backupName o p)).run { s with backedUp := s.backedUp ++ [backupName o p] } = (.ok (), s1))
    (habs : s1.fs.stat (absPath s p) = none)
    (hnone : s1.fs.stat (absPath s (backupName o p)) = none)
    (hnl : ∀ t, s1.fs.lookup (absPath s (backupName o p)) ≠ some (.symlink t))
    (hdir : s1.fs.dirExists (parentOf (absPath s (backupName o p))) = true)
    (hf : s.faultAt = none) :
    ∃ s' m, (makeBackupFor o p).run s = (.ok (), s') ∧
      s'.fs.lookup (absPath s (backupName o p)) = some (.file [] m) ∧
      s'.trace = s1.trace ++ [FsOp.creat (absPath s (backupName o p))] := by
  have hnf : notFileAt s p = false :=
    notFileAt_of_none (stat_none_of_grown (fs := s.fs) (ensureParentDirs_shape _ hens).2.2.2 habs)
  obtain ⟨⟨fs', t, n, rfl⟩, -⟩ := ensureParentDirs_shape _ hens
  have habs : fs'.stat (absPath s p) = none := habs
  have hnone : fs'.stat (absPath s (backupName o p)) = none := hnone
  have hdir : fs'.dirExists (parentOf (absPath s (backupName o p))) = true := hdir
  have hnl : ∀ t, fs'.lookup (absPath s (backupName o p)) ≠ some (.symlink t) := hnl
  have happ : fs'.apply (.creat (absPath s (backupName o p))) =
      .ok (fs'.set (absPath s (backupName o p)) (.file [] (0o666 - (0o666 &&& fs'.umask)))) := by
    simp only [Fs.apply, hnone, hdir]; rfl
  refine ⟨{ s with backedUp := s.backedUp ++ [backupName o p],
                   fs := fs'.set (absPath s (backupName o p)) (.file [] (0o666 - (0o666 &&& fs'.umask))),
                   trace := t ++ [FsOp.creat (absPath s (backupName o p))],
                   opCount := n + 1 }, (0o666 - (0o666 &&& fs'.umask)), ?_, ?_, rfl⟩
  · rw [makeBackupFor_run, if_neg (by rw [hnf]; simp), if_neg hnot, hens]
    simp only []
    have e1 : ∀ q, absPath { s with backedUp := s.backedUp ++ [backupName o p], fs := fs', trace := t, opCount := n } q = absPath s q :=
      fun _ => rfl
    simp only [e1]
    have hnf : ∀ b m, fs'.lookup (absPath s (backupName o p)) ≠ some (.file b m) := fun b m h => by
      rw [Fs.stat_of_file h] at hnone; cases hnone
    rw [habs, if_neg (by simp), if_neg (by
      rw [inWayAt_of_free (s := { s with backedUp := s.backedUp ++ [backupName o p], fs := fs', trace := t, opCount := n }) hnl hnf]
      simp)]
    exact doOp_run_ok (s := { s with backedUp := s.backedUp ++ [backupName o p], fs := fs', trace := t, opCount := n }) hf happ
  · exact Fs.lookup_set_self _ _ _

/-- a target that does not exist yields an empty backup file (the directories of the backup name are all there: `hdirs`, new) -/
theorem makeBackupFor_absent (o : Options) (p : Bytes) (s : DState)
    (hnot : ¬ s.backedUp.contains (backupName o p) = true)
    (habs : s.fs.stat (absPath s p) = none)
    (hnone : s.fs.stat (absPath s (backupName o p)) = none)
    (hnl : ∀ t, s.fs.lookup (absPath s (backupName o p)) ≠ some (.symlink t))
    (hdirs : ∀ d ∈ dirPrefixes (backupName o p), (s.fs.lookup (absPath s d)).isSome = true)
    (hdir : s.fs.dirExists (parentOf (absPath s (backupName o p))) = true)
    (hf : s.faultAt = none) :
    ∃ s' m, (makeBackupFor o p).run s = (.ok (), s') ∧
      s'.fs.lookup (absPath s (backupName o p)) = some (.file [] m) ∧
      s'.trace = s.trace ++ [FsOp.creat (absPath s (backupName o p))] :=
  makeBackupFor_absent_after_dirs o p s
    { s with backedUp := s.backedUp ++ [backupName o p], opCount := s.opCount + (dirPrefixes (backupName o p)).length } hnot
    (ensureParentDirs_run_exist (backupName o p) { s with backedUp := s.backedUp ++ [backupName o p] } (backupName_ne_nil o p) hf hdirs)
    habs hnone hnl hdir hf

/-- **the empty backup of a file which did not exist is neither written through a symbolic link nor into a regular file (which may have
    other names)** (D95, D101, `make_way_for`): the backup name is that of a symbolic link or of a regular file (the directories of the
    backup name are all there): it is unlinked and a new, empty regular file is created in its place — the trace is exactly
    `[unlink bn, creat bn]` —; every other name, in particular whatever a link pointed to, keeps its node -/
theorem makeBackupFor_missing_replaces (o : Options) (p : Bytes) (n : Node) (s : DState)
    (hnot : ¬ s.backedUp.contains (backupName o p) = true)
    (habs : s.fs.stat (absPath s p) = none)
    (hl : s.fs.lookup (absPath s (backupName o p)) = some n) (hn : (∃ t, n = .symlink t) ∨ ∃ old m, n = .file old m)
    (hdirs : ∀ d ∈ dirPrefixes (backupName o p), (s.fs.lookup (absPath s d)).isSome = true)
    (hdir : s.fs.dirExists (parentOf (absPath s (backupName o p))) = true)
    (hf : s.faultAt = none) :
    ∃ s', (makeBackupFor o p).run s = (.ok (), s') ∧
      s'.trace = s.trace ++ [FsOp.unlink (absPath s (backupName o p)), FsOp.creat (absPath s (backupName o p))] ∧
      s'.fs.lookup (absPath s (backupName o p)) = some (.file [] (0o666 - (0o666 &&& s.fs.umask))) ∧
      (∀ q, q ≠ absPath s (backupName o p) → s'.fs.lookup q = s.fs.lookup q) ∧
      s'.backedUp.contains (backupName o p) = true := by
  have hunl : s.fs.apply (.unlink (absPath s (backupName o p))) = .ok (s.fs.erase (absPath s (backupName o p))) := by
    rcases hn with ⟨t, rfl⟩ | ⟨old, m, rfl⟩ <;> simp only [Fs.apply, hl]
  have hway : inWayAt { s with backedUp := s.backedUp ++ [backupName o p], opCount := s.opCount + (dirPrefixes (backupName o p)).length }
      (backupName o p) = true := by
    rcases hn with ⟨t, rfl⟩ | ⟨old, m, rfl⟩
    · exact inWayAt_of_link (s := { s with backedUp := s.backedUp ++ [backupName o p], opCount := s.opCount + (dirPrefixes (backupName o p)).length }) hl
    · exact inWayAt_of_file (s := { s with backedUp := s.backedUp ++ [backupName o p], opCount := s.opCount + (dirPrefixes (backupName o p)).length }) hl
  have hcr : (s.fs.erase (absPath s (backupName o p))).apply (.creat (absPath s (backupName o p))) =
      .ok ((s.fs.erase (absPath s (backupName o p))).set (absPath s (backupName o p)) (.file [] (0o666 - (0o666 &&& s.fs.umask)))) := by
    have hst : (s.fs.erase (absPath s (backupName o p))).stat (absPath s (backupName o p)) = none := by
      unfold Fs.stat; rw [Fs.lookup_erase_self]
    have hd : (s.fs.erase (absPath s (backupName o p))).dirExists (parentOf (absPath s (backupName o p))) = true := by
      unfold Fs.dirExists at hdir ⊢
      rw [Fs.lookup_erase_ne _ _ _ (parentOf_ne_self (absPath_ne_nil s (backupName_ne_nil o p)))]; exact hdir
    simp only [Fs.apply, hst, hd]; rfl
  rw [makeBackupFor_run, if_neg (by rw [notFileAt_of_none habs]; simp), if_neg hnot,
    ensureParentDirs_run_exist (backupName o p) { s with backedUp := s.backedUp ++ [backupName o p] } (backupName_ne_nil o p) hf hdirs]
  simp only []
  have e1 : ∀ (bu : List Bytes) (n : Nat) q, absPath { s with backedUp := bu, opCount := n } q = absPath s q := fun _ _ _ => rfl
  simp only [e1]
  rw [habs, if_neg (by simp), if_pos hway,
    doOp_run_ok (s := { s with backedUp := s.backedUp ++ [backupName o p], opCount := s.opCount + (dirPrefixes (backupName o p)).length }) hf hunl]
  simp only []
  rw [doOp_run_ok (s := { s with backedUp := s.backedUp ++ [backupName o p], fs := s.fs.erase (absPath s (backupName o p)), trace := s.trace ++ [.unlink (absPath s (backupName o p))], opCount := s.opCount + (dirPrefixes (backupName o p)).length + 1 }) hf hcr]
  refine ⟨_, rfl, by simp, Fs.lookup_set_self _ _ _, fun q hq => ?_, by simp⟩
  show ((s.fs.erase (absPath s (backupName o p))).set (absPath s (backupName o p)) _).lookup q = _
  rw [Fs.lookup_set_ne _ _ _ _ hq, Fs.lookup_erase_ne _ _ _ hq]

/-- the symbolic link (D95) -/
theorem makeBackupFor_missing_replaces_link (o : Options) (p t : Bytes) (s : DState)
    (hnot : ¬ s.backedUp.contains (backupName o p) = true)
    (habs : s.fs.stat (absPath s p) = none)
    (hl : s.fs.lookup (absPath s (backupName o p)) = some (.symlink t))
    (hdirs : ∀ d ∈ dirPrefixes (backupName o p), (s.fs.lookup (absPath s d)).isSome = true)
    (hdir : s.fs.dirExists (parentOf (absPath s (backupName o p))) = true)
    (hf : s.faultAt = none) :
    ∃ s', (makeBackupFor o p).run s = (.ok (), s') ∧
      s'.trace = s.trace ++ [FsOp.unlink (absPath s (backupName o p)), FsOp.creat (absPath s (backupName o p))] ∧
      s'.fs.lookup (absPath s (backupName o p)) = some (.file [] (0o666 - (0o666 &&& s.fs.umask))) ∧
      (∀ q, q ≠ absPath s (backupName o p) → s'.fs.lookup q = s.fs.lookup q) ∧
      s'.backedUp.contains (backupName o p) = true :=
  makeBackupFor_missing_replaces o p _ s hnot habs hl (.inl ⟨t, rfl⟩) hdirs hdir hf

/-- the regular file (D101): an old backup, say, which may have other names: it is not truncated in place -/
theorem makeBackupFor_missing_replaces_file (o : Options) (p old : Bytes) (m : Nat) (s : DState)
    (hnot : ¬ s.backedUp.contains (backupName o p) = true)
    (habs : s.fs.stat (absPath s p) = none)
    (hl : s.fs.lookup (absPath s (backupName o p)) = some (.file old m))
    (hdirs : ∀ d ∈ dirPrefixes (backupName o p), (s.fs.lookup (absPath s d)).isSome = true)
    (hdir : s.fs.dirExists (parentOf (absPath s (backupName o p))) = true)
    (hf : s.faultAt = none) :
    ∃ s', (makeBackupFor o p).run s = (.ok (), s') ∧
      s'.trace = s.trace ++ [FsOp.unlink (absPath s (backupName o p)), FsOp.creat (absPath s (backupName o p))] ∧
      s'.fs.lookup (absPath s (backupName o p)) = some (.file [] (0o666 - (0o666 &&& s.fs.umask))) ∧
      (∀ q, q ≠ absPath s (backupName o p) → s'.fs.lookup q = s.fs.lookup q) ∧
      s'.backedUp.contains (backupName o p) = true :=
  makeBackupFor_missing_replaces o p _ s hnot habs hl (.inr ⟨old, m, rfl⟩) hdirs hdir hf

/-- a concrete instance (compiled evaluation of the executable model: a test, not a proof): `-b`, no file `f`, `f.orig` is a link to
    `victim`: the link is replaced by the empty backup, `victim` is as it was -/
def sLinkBak : DState :=
  { fs := { nodes := [(str "f.orig", .symlink (str "victim")), (str "victim", .file (str "keep\n") 0o600)] } }
#guard ((makeBackupFor defaultOptions (str "f")).run sLinkBak).2.trace == [.unlink (str "f.orig"), .creat (str "f.orig")]
#guard ((makeBackupFor defaultOptions (str "f")).run sLinkBak).2.fs.lookup (str "victim") == some (.file (str "keep\n") 0o600)
#guard ((makeBackupFor defaultOptions (str "f")).run sLinkBak).2.fs.lookup (str "f.orig") == some (.file [] 0o644)
/-- the same with a regular file `f.orig` (an old backup, not writable): replaced, not truncated in place (D101) -/
def sFileBak : DState := { fs := { nodes := [(str "f.orig", .file (str "old\n") 0o400)] } }
#guard ((makeBackupFor defaultOptions (str "f")).run sFileBak).2.trace == [.unlink (str "f.orig"), .creat (str "f.orig")]
#guard ((makeBackupFor defaultOptions (str "f")).run sFileBak).2.fs.lookup (str "f.orig") == some (.file [] 0o644)
/-- … and a file is not renamed onto a directory: `f` is there, `f.orig` is a directory: the backup fails, nothing has happened -/
def sDirBak : DState :=
  { fs := { nodes := [(str "f", .file (str "a\n") 0o644), (str "f.orig", .dir 0o755)] } }
#guard (match ((makeBackupFor defaultOptions (str "f")).run sDirBak).1 with | .error .systemError => true | _ => false)
#guard ((makeBackupFor defaultOptions (str "f")).run sDirBak).2.trace == []
#guard ((makeBackupFor defaultOptions (str "f")).run sDirBak).2.fs.lookup (str "f") == some (.file (str "a\n") 0o644)

/-- several patches for one file: only the first backup is made — a later call for the same backup name does nothing at all -/
theorem makeBackupFor_again (o : Options) (p : Bytes) (s : DState) (hin : s.backedUp.contains (backupName o p) = true) :
    (makeBackupFor o p).run s = (.ok (), s) := by
  rw [makeBackupFor_run, if_pos hin]
  split <;> rfl

/-- **only a regular file has a backup** (D106): what exists and is something else — a directory, a device: what `-o` may name — is
    left where it is: `make_backup_for` does nothing at all (no operation, and the name is not recorded as backed up) -/
theorem makeBackupFor_not_regular (o : Options) (p : Bytes) (s : DState) (n : Node)
    (hst : s.fs.stat (absPath s p) = some n) (hn : ∀ b m, n ≠ .file b m) :
    (makeBackupFor o p).run s = (.ok (), s) := by
  have : notFileAt s p = true := by
    unfold notFileAt
    rw [hst]
    cases n with
    | file b m => exact absurd rfl (hn b m)
    | _ => rfl
  rw [makeBackupFor_run, if_pos this]

/-- a concrete instance: `-b -o d` where `d` is a directory: it is not renamed to `d.orig` -/
def sDirOut : DState := { fs := { nodes := [(str "d", .dir 0o755)] } }
#guard ((makeBackupFor defaultOptions (str "d")).run sDirOut).2.trace == []
#guard ((makeBackupFor defaultOptions (str "d")).run sDirOut).2.fs.lookup (str "d") == some (.dir 0o755)
#guard ((makeBackupFor defaultOptions (str "d")).run sDirOut).2.backedUp == []

/-! ### the backup is made right before the write — also for deferred (git) writes

    `write_patched_result_to_file` makes the backup itself (the caller only says whether one is due), before `make_writable` and before
    the file is re-created; for a deferred write the request is recorded (`DeferredWrite.backup`) and `DeferredWriter::finalize` does
    the same steps.  `DriverFacts.writeNow` is that common sequence. -/

/-- what `DeferredWriter::finalize` does for one deferred write -/
def finalizeWrite (o : Options) (w : DeferredWrite) : DM Unit := do
  ensureParentDirs w.dest
  writeNow o w.dest w.perm w.backup w.content w.newMode

/-- what `DeferredWriter::finalize` does for one deferred removal `(p, backup)` — the source of a git rename —, `dWrites` being
    the deferred writes of the run: nothing if something has been written to `p` since (two files swapped); else, with a backup
    due, `p` is MOVED to its backup name (and removed only if it is still there afterwards: an earlier section used that backup
    name already); without, `p` is removed -/
def finalizeRemoval (o : Options) (dWrites : List DeferredWrite) (e : Bytes × Bool) : DM Unit := do
  if !(dWrites.any (·.dest == e.1)) then removeNow o e.1 e.2

/-- `finalizeRemoval` is the body of the second loop of `finalizeDeferred`, as it is written in the model -/
theorem finalizeRemoval_eq (o : Options) (dWrites : List DeferredWrite) (p : Bytes) (backup : Bool) :
    finalizeRemoval o dWrites (p, backup) = (do
      if !(dWrites.any (·.dest == p)) then
        if backup then makeBackupFor o p
        if !backup || (← fsExists p) then removeFileAndEmptyParents p) := by
  unfold finalizeRemoval removeNow
  cases backup
  · simp
  · simp only [Bool.not_true, Bool.false_or, ↓reduceIte]

/-- `DeferredWriter::finalize`: `finalizeWrite` for every deferred write in turn, then `finalizeRemoval` for every removal -/
theorem finalizeDeferred_writes (o : Options) :
    finalizeDeferred o = (do
      let s ← get
      for w in s.dWrites do finalizeWrite o w
      for e in s.dRemovals do finalizeRemoval o s.dWrites e) := by
  rw [finalizeDeferred_eq]
  simp only [finalizeWrite, finalizeRemoval, bind_assoc]
  congr; funext s; congr; funext _; congr; funext e _
  split <;> simp

/-- a test for existence whose answer is not used is no step at all -/
theorem fsExists_bind {α} (p : Bytes) (m : DM α) : (fsExists p >>= fun _ => m) = m := by
  apply ExceptT.ext
  funext s
  rfl

/-! ### the source of a git rename under -b: moved to its backup name, not deleted

    Before the C++ fix "keep a backup of the file a rename moves away" the removal entry was the bare path and the step was
    `removeFileAndEmptyParents p`: with `-b` (or a backup due because of fuzz) the old content of a renamed AND changed file was
    nowhere to be found after the run.  Now the entry carries the backup request of its section. -/

/-- something has been written to the path since (two files swapped, a chain of renames): the removal is dropped -/
theorem finalizeRemoval_skip (o : Options) (dWrites : List DeferredWrite) (p : Bytes) (backup : Bool) (s : DState)
    (hw : dWrites.any (·.dest == p) = true) : (finalizeRemoval o dWrites (p, backup)).run s = (.ok (), s) := by
  unfold finalizeRemoval
  simp only [hw, Bool.not_true, Bool.false_eq_true, ↓reduceIte]
  rfl

/-- **no backup due: the step is `remove_file_and_empty_parent_folders`, as before** (an equation of programs) -/
theorem finalizeRemoval_plain (o : Options) (dWrites : List DeferredWrite) (p : Bytes)
    (hw : dWrites.any (·.dest == p) = false) :
    finalizeRemoval o dWrites (p, false) = removeFileAndEmptyParents p := by
  unfold finalizeRemoval removeNow
  simp [hw, fsExists_bind]

/-- **backup due, regular file, backup name not used yet (its directories are there: `hdirs`, new): the step is exactly
    `rename p (backupName o p)`** — the file, bytes and mode, is found under its backup name afterwards, the path is free, and
    there is no `unlink` of it (`hnd`, new: the backup name is not that of a directory, see `makeBackupFor_existing`) -/
theorem finalizeRemoval_backup (o : Options) (dWrites : List DeferredWrite) (p : Bytes) (s : DState) (b : Bytes) (m : Nat)
    (hw : dWrites.any (·.dest == p) = false)
    (hnot : ¬ s.backedUp.contains (backupName o p) = true)
    (hfile : s.fs.lookup (absPath s p) = some (.file b m))
    (hdirs : ∀ d ∈ dirPrefixes (backupName o p), (s.fs.lookup (absPath s d)).isSome = true)
    (hdir : s.fs.dirExists (parentOf (absPath s (backupName o p))) = true)
    (hnd : ∀ m', s.fs.lookup (absPath s (backupName o p)) ≠ some (.dir m'))
    (hne : absPath s (backupName o p) ≠ absPath s p)
    (hf : s.faultAt = none) :
    ∃ s', (finalizeRemoval o dWrites (p, true)).run s = (.ok (), s') ∧
      s'.trace = s.trace ++ [FsOp.rename (absPath s p) (absPath s (backupName o p))] ∧
      s'.fs.lookup (absPath s (backupName o p)) = some (.file b m) ∧
      s'.fs.lookup (absPath s p) = none ∧
      s'.backedUp.contains (backupName o p) = true := by
  obtain ⟨s', hrun, hbak, hgone, hbu, htr⟩ := makeBackupFor_existing o p s b m hnot hfile hdirs hdir hnd hne hf
  have hcwd : s'.cwd = s.cwd := (backupStep_shape o true p (s := s) (by rw [if_pos rfl]; exact hrun)).1
  refine ⟨s', ?_, htr, hbak, hgone, hbu⟩
  unfold finalizeRemoval removeNow
  simp only [hw, Bool.not_false, ↓reduceIte, Bool.not_true, Bool.false_or]
  rw [run_bind, hrun]
  simp only []
  rw [run_bind, run_fsExists]
  simp only []
  have : s'.fs.stat (absPath s' p) = none := by
    rw [absPath_cwd hcwd]; unfold Fs.stat; rw [hgone]
  rw [this]
  rfl

/-- the same whatever happens (an I/O error injected or real, a directory of the backup name that cannot be made): when a backup is
    due for an existing regular file and its backup name has not been used, the operations of the step are `mkdir`s of directories
    of the backup name, followed by the backup `rename` or by nothing at all — **never an `unlink`**; the step succeeds exactly
    when the rename was made.

    CHANGED with the model change "`make_backup_for` creates the directories of the backup name": the `mkdir`s `M` are new (the
    statement was `s'.trace = s.trace ∧ … ∨ s'.trace = s.trace ++ [rename …] ∧ …`; it is `finalizeRemoval_backup_only_flat` below,
    for a backup name without directory part). -/
theorem finalizeRemoval_backup_only (o : Options) (dWrites : List DeferredWrite) (p : Bytes) (s s' : DState) (b : Bytes) (m : Nat)
    (r : Except Exn Unit)
    (hnot : ¬ s.backedUp.contains (backupName o p) = true)
    (hfile : s.fs.lookup (absPath s p) = some (.file b m))
    (hne : absPath s (backupName o p) ≠ absPath s p)
    (h : (finalizeRemoval o dWrites (p, true)).run s = (r, s')) :
    ∃ M, (∀ op ∈ M, ∃ d ∈ dirPrefixes (backupName o p), op = FsOp.mkdir (absPath s d)) ∧
      ((s'.trace = s.trace ++ M ∧ (r = .ok () → dWrites.any (·.dest == p) = true)) ∨
       (s'.trace = s.trace ++ M ++ [FsOp.rename (absPath s p) (absPath s (backupName o p))] ∧ r = .ok ())) := by
  unfold finalizeRemoval removeNow at h
  cases hw : dWrites.any (·.dest == p)
  · simp only [hw, Bool.not_false, ↓reduceIte, Bool.not_true, Bool.false_or] at h
    rw [run_bind] at h
    rcases hb : (makeBackupFor o p).run s with ⟨r1, s1⟩
    rw [hb] at h
    rw [makeBackupFor_run, if_neg (by rw [notFileAt_of_lookup_file hfile]; simp), if_neg hnot] at hb
    rcases hens : (ensureParentDirs (backupName o p)).run { s with backedUp := s.backedUp ++ [backupName o p] } with ⟨r0, s0⟩
    rw [hens] at hb
    obtain ⟨⟨fs0, t, n, rfl⟩, ⟨M, tM, hM⟩, -, hkeep⟩ := ensureParentDirs_shape _ hens
    have tM : t = s.trace ++ M := tM
    have hM : ∀ op ∈ M, ∃ d ∈ dirPrefixes (backupName o p), op = FsOp.mkdir (absPath s d) := hM
    have hfile0 : fs0.lookup (absPath s p) = some (.file b m) := hkeep _ _ hfile
    refine ⟨M, hM, ?_⟩
    cases r0 with
    | error e0 =>
      simp only [] at hb
      cases hb
      simp only [] at h
      cases h
      exact Or.inl ⟨tM, fun he => by cases he⟩
    | ok u0 =>
      simp only [] at hb
      have e1 : ∀ q, absPath { s with backedUp := s.backedUp ++ [backupName o p], fs := fs0, trace := t, opCount := n } q = absPath s q :=
        fun _ => rfl
      simp only [e1] at hb
      rw [Fs.stat_of_file hfile0, if_pos (by rfl)] at hb
      rcases doOp_cases hb with ⟨rfl, fs', happ, rfl⟩ | ⟨rfl, rfl⟩
      · have hfs : fs' = (fs0.erase (absPath s p)).set (absPath s (backupName o p)) (.file b m) := by
          have happ : fs0.apply (.rename (absPath s p) (absPath s (backupName o p))) = .ok fs' := happ
          simp only [Fs.apply, hfile0] at happ
          repeat' split at happ
          all_goals first | (cases happ; done) | (cases happ; rfl)
        simp only [] at h
        rw [run_bind, run_fsExists] at h
        simp only [] at h
        have hgone : fs'.stat (absPath s p) = none := by
          unfold Fs.stat
          rw [hfs, Fs.lookup_set_ne _ _ _ _ (Ne.symm hne), Fs.lookup_erase_self]
        have habs : ∀ fs1 t n bu, absPath { s with backedUp := bu, fs := fs1, trace := t, opCount := n } p = absPath s p :=
          fun _ _ _ _ => rfl
        rw [habs, hgone] at h
        cases h
        exact Or.inr ⟨by show t ++ _ = _; rw [tM], rfl⟩
      · simp only [] at h
        cases h
        exact Or.inl ⟨tM, fun he => by cases he⟩
  · simp only [hw, Bool.not_true, Bool.false_eq_true, ↓reduceIte] at h
    cases h
    exact ⟨[], by simp, Or.inl ⟨by simp, fun _ => rfl⟩⟩

/-- the statement as it was, for a backup name without directory part (no `/` in prefix and path): the operations of the step are
    the backup `rename` or nothing at all -/
theorem finalizeRemoval_backup_only_flat (o : Options) (dWrites : List DeferredWrite) (p : Bytes) (s s' : DState) (b : Bytes) (m : Nat)
    (r : Except Exn Unit)
    (hflat : dirPrefixes (backupName o p) = [])
    (hnot : ¬ s.backedUp.contains (backupName o p) = true)
    (hfile : s.fs.lookup (absPath s p) = some (.file b m))
    (hne : absPath s (backupName o p) ≠ absPath s p)
    (h : (finalizeRemoval o dWrites (p, true)).run s = (r, s')) :
    (s'.trace = s.trace ∧ (r = .ok () → dWrites.any (·.dest == p) = true)) ∨
    (s'.trace = s.trace ++ [FsOp.rename (absPath s p) (absPath s (backupName o p))] ∧ r = .ok ()) := by
  obtain ⟨M, hM, hr⟩ := finalizeRemoval_backup_only o dWrites p s s' b m r hnot hfile hne h
  have : M = [] := by
    cases M with
    | nil => rfl
    | cons x xs =>
      obtain ⟨d, hd, _⟩ := hM x List.mem_cons_self
      rw [hflat] at hd; cases hd
  subst this
  simpa using hr

/-- backup due but an earlier section made that backup already (the file was patched before it is renamed away: its ORIGINAL
    content is in the backup): the file is still there and is removed as before -/
theorem finalizeRemoval_again (o : Options) (dWrites : List DeferredWrite) (p : Bytes) (s : DState)
    (hw : dWrites.any (·.dest == p) = false)
    (hin : s.backedUp.contains (backupName o p) = true)
    (hex : (s.fs.stat (absPath s p)).isSome = true) :
    (finalizeRemoval o dWrites (p, true)).run s = (removeFileAndEmptyParents p).run s := by
  unfold finalizeRemoval removeNow
  simp only [hw, Bool.not_false, ↓reduceIte, Bool.not_true, Bool.false_or]
  rw [run_bind, makeBackupFor_again o p s hin]
  simp only []
  rw [run_bind, run_fsExists, hex]
  rfl

/-- the operations of `pre; writeNow …` where `pre` only creates directories: `pre ++ bk ++ mw ++ post` with
    * `pre`: `mkdir`s (of the directories of the target and of the backup name),
    * `bk`: the backup — the `rename` of the target to its backup name, or the `creat` of an empty backup —, or nothing,
    * `mw`: the `chmod` that makes a read-only target (one that is still there) writable, or nothing,
    * `post`: the `creat` of the target, followed by its `write` and the `chmod` of the permission callback;
    **if a backup is due (`sb`, and none was made for this name before), nothing happens to the target before the backup operation
    has succeeded** — not even the `chmod` of `make_writable` —; if none is due, none is made; on success the target has been created.

    CHANGED with the model change "the backup is taken before `make_writable`" (D93): the `chmod` of `make_writable` was part of `pre`
    (`∀ op ∈ pre, (∃ d, op = mkdir d) ∨ ∃ m, op = chmod out m`); it is a block of its own now, between the backup and the `creat`.

    CHANGED with the model change `remove_symbolic_link` (D95): `bk` was `[]`, `[rename out bn]` or `[creat bn]`; the empty backup of a
    file which did not exist now replaces a symbolic link which has the backup name: `bk` may also be `[unlink bn, creat bn]`, or
    `[unlink bn]` when the `creat` then failed (`DriverFacts.BackupOps`); as long as the backup has not succeeded (`bk = []` or
    `bk = [unlink bn]`) nothing happens to the target.  (`make_way_for`, D101: the same when a regular file has the backup name; the
    statement is as it was.) -/
/- CHANGED with the model change "only a regular file has a backup" (D106): "nothing happens to the target before the backup has
   succeeded" is said of a target which is a regular file or nothing (`PlainAt s out`, new): what else `-o` may name (a directory, a
   device) gets no backup and is written to all the same.  `hk` says so of `pre` (it does not make the target anything else). -/
theorem writeNow_backup_first {pre : DM Unit} (o : Options) (out : Bytes) (perm : PermResult) (sb : Bool) (content : Bytes) (nm : Nat)
    (hk : ∀ s s1 r, pre.run s = (r, s1) → s1.cwd = s.cwd ∧ s1.backedUp = s.backedUp ∧ (PlainAt s out → PlainAt s1 out))
    (ht : TrExt (fun op => ∃ d, op = FsOp.mkdir d) pre)
    (s s' : DState) (r : Except Exn Unit)
    (h : (pre >>= fun _ => writeNow o out perm sb content nm).run s = (r, s')) :
    ∃ pre bk mw post, s'.trace = s.trace ++ pre ++ bk ++ mw ++ post ∧
      (∀ op ∈ pre, ∃ d, op = FsOp.mkdir d) ∧
      BackupOps (absPath s out) (absPath s (backupName o out)) bk ∧
      (mw = [] ∨ ∃ m, mw = [FsOp.chmod (absPath s out) m]) ∧
      (post = [] ∨ ∃ rest, post = FsOp.creat (absPath s out) :: rest ∧
        ∀ op ∈ rest, (∃ b, op = FsOp.write (absPath s out) b) ∨ ∃ m, op = FsOp.chmod (absPath s out) m) ∧
      (sb = true → PlainAt s out → s.backedUp.contains (backupName o out) = false →
        bk = [] ∨ bk = [FsOp.unlink (absPath s (backupName o out))] → mw = [] ∧ post = []) ∧
      (sb = false ∨ s.backedUp.contains (backupName o out) = true → bk = []) ∧
      (r = .ok () → post ≠ []) := by
  rw [run_bind] at h
  split at h
  · next _ s1 h1 =>
    obtain ⟨c1, b1, p1⟩ := hk _ _ _ h1
    obtain ⟨D, t1, hD⟩ := ht.run h1
    obtain ⟨-, M, B, W, C, t, hM, hB, hW, hC, hfirst, hnone, hok, -⟩ := writeNow_shape _ _ _ _ _ _ h
    rw [absPath_cwd c1] at hW hC
    rw [absPath_cwd c1, absPath_cwd c1] at hB
    rw [b1, absPath_cwd c1] at hfirst
    rw [b1] at hnone
    refine ⟨D ++ M, B, W, C, by rw [t, t1]; simp only [List.append_assoc], ?_, hB, hW, hC,
      fun h1 h2 => hfirst h1 (p1 h2).notFileAt, fun h => (hnone (h.imp_right .inl)).2, hok⟩
    intro op hop
    rcases List.mem_append.1 hop with h | h
    · exact hD op h
    · obtain ⟨d, _, e⟩ := hM op h
      exact ⟨_, e⟩
  · next e s1 h1 =>
    cases h
    obtain ⟨D, t1, hD⟩ := ht.run h1
    exact ⟨D, [], [], [], by rw [t1]; simp, fun op hop => hD op hop, Or.inl rfl, Or.inl rfl, Or.inl rfl,
      fun _ _ _ _ => ⟨rfl, rfl⟩, fun _ => rfl, fun he => (by cases he)⟩

/-- **`DeferredWriter::finalize` backs up before it writes**: for a deferred write with `backup = true` whose backup name has not been
    used yet, the first operation that is not a `mkdir` is the backup (`rename` of the destination to the backup name, or `creat` of an
    empty backup); only then is the destination made writable (if it is still there and read-only) and created.  Without a backup
    request (or when the backup exists already) no backup operation is made.  (CHANGED as `writeNow_backup_first`.) -/
theorem finalize_backup_first (o : Options) (w : DeferredWrite) (s s' : DState) (r : Except Exn Unit)
    (h : (finalizeWrite o w).run s = (r, s')) :
    ∃ pre bk mw post, s'.trace = s.trace ++ pre ++ bk ++ mw ++ post ∧
      (∀ op ∈ pre, ∃ d, op = FsOp.mkdir d) ∧
      BackupOps (absPath s w.dest) (absPath s (backupName o w.dest)) bk ∧
      (mw = [] ∨ ∃ m, mw = [FsOp.chmod (absPath s w.dest) m]) ∧
      (post = [] ∨ ∃ rest, post = FsOp.creat (absPath s w.dest) :: rest ∧
        ∀ op ∈ rest, (∃ b, op = FsOp.write (absPath s w.dest) b) ∨ ∃ m, op = FsOp.chmod (absPath s w.dest) m) ∧
      (w.backup = true → PlainAt s w.dest → s.backedUp.contains (backupName o w.dest) = false →
        bk = [] ∨ bk = [FsOp.unlink (absPath s (backupName o w.dest))] → mw = [] ∧ post = []) ∧
      (w.backup = false ∨ s.backedUp.contains (backupName o w.dest) = true → bk = []) ∧
      (r = .ok () → post ≠ []) :=
  writeNow_backup_first o w.dest w.perm w.backup w.content w.newMode
    (fun _ _ _ h1 => ⟨ensureParentDirs_keeps (·.cwd) (fun _ _ _ _ => rfl) _ h1,
      ensureParentDirs_keeps (·.backedUp) (fun _ _ _ _ => rfl) _ h1, PlainAt.ensureParentDirs h1⟩)
    (ensureParentDirs_trExt (fun d => ⟨d, rfl⟩) w.dest) s s' r h

/-- the same for the immediate write of `write_patched_result_to_file` (anything but a git patch, or a git deletion): the backup
    is made by `writePatchedResult` itself, before `make_writable` and before the file is re-created
    (CHANGED as `writeNow_backup_first`) -/
theorem direct_write_backup_first (o : Options) (p : Patch) (out : Bytes) (perm : PermResult) (sb : Bool) (content : Bytes)
    (hc : (p.format == .git && p.operation != .delete) = false) (s s' : DState) (r : Except Exn Unit)
    (h : (writePatchedResult o p out perm sb content).run s = (r, s')) :
    ∃ pre bk mw post, s'.trace = s.trace ++ pre ++ bk ++ mw ++ post ∧
      (∀ op ∈ pre, ∃ d, op = FsOp.mkdir d) ∧
      BackupOps (absPath s out) (absPath s (backupName o out)) bk ∧
      (mw = [] ∨ ∃ m, mw = [FsOp.chmod (absPath s out) m]) ∧
      (post = [] ∨ ∃ rest, post = FsOp.creat (absPath s out) :: rest ∧
        ∀ op ∈ rest, (∃ b, op = FsOp.write (absPath s out) b) ∨ ∃ m, op = FsOp.chmod (absPath s out) m) ∧
      (sb = true → PlainAt s out → s.backedUp.contains (backupName o out) = false →
        bk = [] ∨ bk = [FsOp.unlink (absPath s (backupName o out))] → mw = [] ∧ post = []) ∧
      (sb = false ∨ s.backedUp.contains (backupName o out) = true → bk = []) ∧
      (r = .ok () → post ≠ []) := by
  rw [writePatchedResult_direct o p out perm sb content hc] at h
  refine writeNow_backup_first o out perm sb content p.newMode ?_ ?_ s s' r h
  · intro s s1 r h1
    split at h1
    · exact ⟨ensureParentDirs_keeps (·.cwd) (fun _ _ _ _ => rfl) _ h1,
        ensureParentDirs_keeps (·.backedUp) (fun _ _ _ _ => rfl) _ h1, PlainAt.ensureParentDirs h1⟩
    · cases h1; exact ⟨rfl, rfl, fun h => h⟩
  · have := ensureParentDirs_trExt (A := fun op => ∃ d, op = FsOp.mkdir d) (fun d => ⟨d, rfl⟩)
    spec_walk (good_ext _)

end PatchModel.C18

#print axioms PatchModel.C18.backupName_spec
#print axioms PatchModel.C18.makeBackupFor_after_dirs
#print axioms PatchModel.C18.makeBackupFor_existing
#print axioms PatchModel.C18.makeBackupFor_existing_mkdir
#print axioms PatchModel.C18.makeBackupFor_absent_after_dirs
#print axioms PatchModel.C18.makeBackupFor_absent
#print axioms PatchModel.C18.makeBackupFor_missing_replaces
#print axioms PatchModel.C18.makeBackupFor_missing_replaces_link
#print axioms PatchModel.C18.makeBackupFor_missing_replaces_file
#print axioms PatchModel.C18.makeBackupFor_again
#print axioms PatchModel.C18.makeBackupFor_not_regular
#print axioms PatchModel.C18.finalizeDeferred_writes
#print axioms PatchModel.C18.finalizeRemoval_eq
#print axioms PatchModel.C18.finalizeRemoval_skip
#print axioms PatchModel.C18.finalizeRemoval_plain
#print axioms PatchModel.C18.finalizeRemoval_backup
#print axioms PatchModel.C18.finalizeRemoval_backup_only
#print axioms PatchModel.C18.finalizeRemoval_backup_only_flat
#print axioms PatchModel.C18.finalizeRemoval_again
#print axioms PatchModel.C18.writeNow_backup_first
#print axioms PatchModel.C18.finalize_backup_first
#print axioms PatchModel.C18.direct_write_backup_first
