/-
  C18 / C04 (exit status) / C09 (driver model).
-/
import PatchModel.Model.Driver
import PatchModel.Lemmas.DriverFacts
namespace PatchModel.C18
open PatchModel PatchModel.DriverFacts

/-- backup name: prefix + path + suffix per -B / -z, ".orig" appended when neither is given -/
theorem backupName_spec (o : Options) (p : Bytes) :
    (o.backupPrefix = [] → o.backupSuffix = [] → backupName o p = p ++ str ".orig") ∧
    (o.backupPrefix ≠ [] ∨ o.backupSuffix ≠ [] → backupName o p = o.backupPrefix ++ p ++ o.backupSuffix) := by
  unfold backupName
  cases h1 : o.backupPrefix <;> cases h2 : o.backupSuffix <;> simp

/-- the first backup of an existing regular file moves its bytes and mode to the backup name; the target path is then free -/
theorem makeBackupFor_existing (o : Options) (p : Bytes) (s : DState) (b : Bytes) (m : Nat)
    (hnot : ¬ s.backedUp.contains (backupName o p) = true)
    (hfile : s.fs.lookup (absPath s p) = some (.file b m))
    (hdir : s.fs.dirExists (parentOf (absPath s (backupName o p))) = true)
    (hne : absPath s (backupName o p) ≠ absPath s p)
    (hf : s.faultAt = none) :
    ∃ s', (makeBackupFor o p).run s = (.ok (), s') ∧
      s'.fs.lookup (absPath s (backupName o p)) = some (.file b m) ∧
      s'.fs.lookup (absPath s p) = none ∧
      s'.backedUp.contains (backupName o p) = true ∧
      s'.trace = s.trace ++ [FsOp.rename (absPath s p) (absPath s (backupName o p))] := by
  have hst := Fs.stat_of_file hfile
  have happ : s.fs.apply (.rename (absPath s p) (absPath s (backupName o p))) =
      .ok ((s.fs.erase (absPath s p)).set (absPath s (backupName o p)) (.file b m)) := by
    simp only [Fs.apply, hfile, hdir]; rfl
  refine ⟨{ s with backedUp := s.backedUp ++ [backupName o p],
                   fs := (s.fs.erase (absPath s p)).set (absPath s (backupName o p)) (.file b m),
                   trace := s.trace ++ [FsOp.rename (absPath s p) (absPath s (backupName o p))],
                   opCount := s.opCount + 1 }, ?_, ?_, ?_, ?_, ?_⟩
  · rw [makeBackupFor_run, if_neg hnot, hst, if_pos (by rfl)]
    exact doOp_run_ok hf happ
  · exact Fs.lookup_set_self _ _ _
  · show (Fs.set _ _ _).lookup _ = none
    rw [Fs.lookup_set_ne _ _ _ _ (Ne.symm hne), Fs.lookup_erase_self]
  · simp
  · rfl

set_option linter.unusedVariables false in
/-- a target that does not exist yields an empty backup file -/
theorem makeBackupFor_absent (o : Options) (p : Bytes) (s : DState)
    (hnot : ¬ s.backedUp.contains (backupName o p) = true)
    (habs : s.fs.stat (absPath s p) = none)
    (hnone : s.fs.stat (absPath s (backupName o p)) = none) (hnl : s.fs.lookup (absPath s (backupName o p)) = none)
    (hdir : s.fs.dirExists (parentOf (absPath s (backupName o p))) = true)
    (hf : s.faultAt = none) :
    ∃ s' m, (makeBackupFor o p).run s = (.ok (), s') ∧
      s'.fs.lookup (absPath s (backupName o p)) = some (.file [] m) := by
  have happ : s.fs.apply (.creat (absPath s (backupName o p))) =
      .ok (s.fs.set (absPath s (backupName o p)) (.file [] (0o666 - (0o666 &&& s.fs.umask)))) := by
    simp only [Fs.apply, hnone, hdir]; rfl
  refine ⟨{ s with backedUp := s.backedUp ++ [backupName o p],
                   fs := s.fs.set (absPath s (backupName o p)) (.file [] (0o666 - (0o666 &&& s.fs.umask))),
                   trace := s.trace ++ [FsOp.creat (absPath s (backupName o p))],
                   opCount := s.opCount + 1 }, (0o666 - (0o666 &&& s.fs.umask)), ?_, ?_⟩
  · rw [makeBackupFor_run, if_neg hnot, habs, if_neg (by simp)]
    exact doOp_run_ok hf happ
  · exact Fs.lookup_set_self _ _ _

/-- several patches for one file: only the first backup is made — a later call for the same backup name does nothing at all -/
theorem makeBackupFor_again (o : Options) (p : Bytes) (s : DState) (hin : s.backedUp.contains (backupName o p) = true) :
    (makeBackupFor o p).run s = (.ok (), s) := by
  rw [makeBackupFor_run, if_pos hin]

end PatchModel.C18

#print axioms PatchModel.C18.backupName_spec
#print axioms PatchModel.C18.makeBackupFor_existing
#print axioms PatchModel.C18.makeBackupFor_absent
#print axioms PatchModel.C18.makeBackupFor_again
