/-
  C01 / C15 at the level of the driver model: one section of a patch stream whose header and body have been parsed into a valid
  script of the target file is carried out exactly — the target gets the new content, keeps its mode, nothing else changes,
  no failure is recorded; with --dry-run the same section leaves the tree alone and records no failure either (fidelity of the
  prediction for this case).  Parsing itself is the subject of C13's round-trip theorems and C11's filler theorems.

  Statement adjustment (C01_section only): the hypothesis
      hdir : s.fs.dirExists (parentOf p) = true
  was added.  `Fs` is a bare list of (path, node) pairs without a well-formedness invariant, and `Fs.apply (.creat p)` answers
  ENOENT when the directory part of `p` is not a directory of the tree — also when `p` itself is present.  Without `hdir` the
  statement is false: `C01_section_needs_parent` below shows that under all the other hypotheses and
  `s.fs.dirExists (parentOf p) = false` the section aborts with `system_error` (tree untouched).  For a target without a slash
  the hypothesis holds by `PatchModel.Section.dirExists_parent_of_noSlash` (`C01_section_flat`).
  `hnh` is not needed by either proof (`hbody` already states the parsed patch); it is kept as given.
  C15_section_fidelity is proved as stated.

  Statement adjustment with the model change D97 (`LineWriter::terminate_last_line`, `terminateInner` in `render`): the bytes written
  are `Render.renderText mode (splice …)` — every line as it is in the mode, except that a line without newline which is not the last
  one gets the newline of the mode — where they were `renderLines mode (splice …)`.  A `Valid` script may put an added line behind an
  unterminated one (`C01.C01_bytes_glue`: file "c", hunk " c" / "+d\n": "c\nd\n" is written, `renderLines` gives "cd\n").  When the
  intended file is a text whose only possibly unterminated line is the last (`Render.LinesTerminated`, true of the lines of every file
  as read: `Render.linesTerminated_splitLines`) the two are the same: `C01_section_terminated`.
-/
import PatchModel.Model.Driver
import PatchModel.Spec.Script
import PatchModel.Props.C01
import PatchModel.Lemmas.Section
namespace PatchModel.C01
open PatchModel PatchModel.Section

/-- the options under which a plain "change" section is carried out in the simplest way -/
structure PlainOpts (o : Options) (p : Bytes) : Prop where
  operand : o.fileToPatch = p
  noOut : o.outFile = []
  noBackup : o.saveBackup = false
  noReverse : o.reverse = false
  noDefine : o.define = []
  fuzz : 0 ≤ o.maxFuzz
  quiet : o.verbose = false

/-- the bytes of what the applier puts out without `-D`, its lines being `ls` (D97: `Render.renderText`, not `renderLines`) -/
theorem render_of_lines {file : List Line} {p0 : Patch} {ao : ApplyOpts} {tty : Option (List Bool)} {r : ApplyResult}
    {ls : List Line} (mode : NewlineOutput) (hD : ao.define = []) (hap : applyPatch file p0 ao tty = .ok r)
    (hrout : r.out.map Out.line = ls) : render mode r.out = Render.renderText mode ls :=
  Render.render_eq_renderText_of_map_line _ (ApplyLoop.applyPatch_noBare hD hap) hrout

/-- … which are `renderLines` when only the last of the lines may lack its newline -/
theorem render_of_lines_terminated {r : ApplyResult} {ls : List Line} (mode : NewlineOutput) (hrout : r.out.map Out.line = ls) (ht : Render.LinesTerminated ls) :
    render mode r.out = renderLines mode ls :=
  Render.render_of_map_line _ hrout ht

/-- the hypotheses of the two theorems give a `PlainSection`: the applier's verdict comes from `applyPatch_valid` -/
theorem plainSection_of_valid (o : Options) (fmt : Format) (s : DState) (p bytes : Bytes) (m : Nat)
    (patch0 : Patch) (info : HeaderInfo) (par1 par2 : Parser) (hs : List Hunk)
    (ho : PlainOpts o p) (hp : p ≠ []) (hcwd : s.cwd = [])
    (hhdr : parseHeader s.par { format := fmt } o.strip = .ok (true, patch0, info, par1))
    (hfmt : patch0.format = .unified ∨ patch0.format = .context ∨ patch0.format = .normal)
    (hop : patch0.operation = .change) (hpre : patch0.prerequisite = []) (hnm : patch0.newMode = 0)
    (hbody : parseBody par1 patch0 = .ok ({ patch0 with hunks := hs }, par2))
    (hfile : s.fs.lookup p = some (.file bytes m)) (hw : m &&& writeMask ≠ 0) (hroot : s.fs.isRoot = true)
    (hvalid : Valid (splitLines bytes) 0 0 hs) (hf : s.faultAt = none) :
    ∃ r, PlainSection o fmt s p bytes m patch0 { patch0 with hunks := hs } info par1 par2 r ∧
      render o.newlineOutput r.out = Render.renderText o.newlineOutput (splice (splitLines bytes) 0 hs) := by
  have hrev : (applyOptsOf o).reverse = false := ho.noReverse
  obtain ⟨r, hap, hrout, _, hrfail, _, hrperf, hrskip, _, hrmsgs, hrtty, hrpatch⟩ :=
    applyPatch_valid (splitLines bytes) hs { patch0 with hunks := hs } (applyOptsOf o)
      (Option.map (fun l => List.map (fun a => !List.isEmpty a && List.head? a != some 110) l) s.tty)
      hvalid (by rw [hrev]; rfl) ho.noDefine ho.fuzz
  refine ⟨r, ?_, render_of_lines _ ho.noDefine hap hrout⟩
  exact {
    operand := ho.operand, noOut := ho.noOut, noBackup := ho.noBackup, pathNe := hp, cwd := hcwd, hdr := hhdr,
    fmt := hfmt, op := hop, pre := hpre, body := hbody, fmt2 := rfl, op2 := hop, newMode2 := hnm, file := hfile,
    writable := hw, root := hroot, noFault := hf, apply := hap, failed := hrfail, perfect := hrperf,
    skipped := hrskip, msgs := hrmsgs ho.quiet, ttyLeft := hrtty,
    patch := by rw [hrpatch, hrev]; rfl }

set_option linter.unusedVariables false in
theorem C01_section (o : Options) (fmt : Format) (s : DState) (p bytes : Bytes) (m : Nat)
    (patch0 : Patch) (info : HeaderInfo) (par1 par2 : Parser) (hs : List Hunk)
    (ho : PlainOpts o p) (hreal : o.dryRun = false) (hp : p ≠ []) (hcwd : s.cwd = [])
    (hhdr : parseHeader s.par { format := fmt } o.strip = .ok (true, patch0, info, par1))
    (hfmt : patch0.format = .unified ∨ patch0.format = .context ∨ patch0.format = .normal)
    (hop : patch0.operation = .change) (hpre : patch0.prerequisite = []) (hnh : patch0.hunks = []) (hnm : patch0.newMode = 0)
    (hbody : parseBody par1 patch0 = .ok ({ patch0 with hunks := hs }, par2))
    (hfile : s.fs.lookup p = some (.file bytes m)) (hw : m &&& writeMask ≠ 0) (hroot : s.fs.isRoot = true)
    (hdir : s.fs.dirExists (parentOf p) = true)   -- added: see the note at the top of the file
    (hvalid : Valid (splitLines bytes) 0 0 hs) (hf : s.faultAt = none) :
    ∃ s', (processSection o fmt).run s = (.ok true, s') ∧
      s'.fs.lookup p = some (.file (Render.renderText o.newlineOutput (splice (splitLines bytes) 0 hs)) m) ∧
      (∀ q, q ≠ p → s'.fs.lookup q = s.fs.lookup q) ∧
      s'.hadFailure = s.hadFailure ∧ s'.par = par2 ∧ s'.dWrites = s.dWrites ∧ s'.dRemovals = s.dRemovals := by
  obtain ⟨r, H, hrender⟩ := plainSection_of_valid o fmt s p bytes m patch0 info par1 par2 hs ho hp hcwd hhdr hfmt hop
    hpre hnm hbody hfile hw hroot hvalid hf
  obtain ⟨s', hrun, hfs, _, hd⟩ := processSection_clean H hreal hdir
  refine ⟨s', hrun, ?_, ?_, hd.hadFailure, hd.par, hd.dWrites, hd.dRemovals⟩
  · rw [hfs, DriverFacts.Fs.lookup_set_self, hrender]
  · intro q hq
    rw [hfs, DriverFacts.Fs.lookup_set_ne _ _ _ _ hq]

set_option linter.unusedVariables false in
/-- the intended new file is a text whose only possibly unterminated line is its last: the target gets its lines, rendered one by one
    (the statement of `C01_section` before D97) -/
theorem C01_section_terminated (o : Options) (fmt : Format) (s : DState) (p bytes : Bytes) (m : Nat)
    (patch0 : Patch) (info : HeaderInfo) (par1 par2 : Parser) (hs : List Hunk)
    (ho : PlainOpts o p) (hreal : o.dryRun = false) (hp : p ≠ []) (hcwd : s.cwd = [])
    (hhdr : parseHeader s.par { format := fmt } o.strip = .ok (true, patch0, info, par1))
    (hfmt : patch0.format = .unified ∨ patch0.format = .context ∨ patch0.format = .normal)
    (hop : patch0.operation = .change) (hpre : patch0.prerequisite = []) (hnh : patch0.hunks = []) (hnm : patch0.newMode = 0)
    (hbody : parseBody par1 patch0 = .ok ({ patch0 with hunks := hs }, par2))
    (hfile : s.fs.lookup p = some (.file bytes m)) (hw : m &&& writeMask ≠ 0) (hroot : s.fs.isRoot = true)
    (hdir : s.fs.dirExists (parentOf p) = true)
    (hvalid : Valid (splitLines bytes) 0 0 hs) (hf : s.faultAt = none)
    (hnew : Render.LinesTerminated (splice (splitLines bytes) 0 hs)) :
    ∃ s', (processSection o fmt).run s = (.ok true, s') ∧
      s'.fs.lookup p = some (.file (renderLines o.newlineOutput (splice (splitLines bytes) 0 hs)) m) ∧
      (∀ q, q ≠ p → s'.fs.lookup q = s.fs.lookup q) ∧
      s'.hadFailure = s.hadFailure ∧ s'.par = par2 ∧ s'.dWrites = s.dWrites ∧ s'.dRemovals = s.dRemovals := by
  have h := C01_section o fmt s p bytes m patch0 info par1 par2 hs ho hreal hp hcwd hhdr hfmt hop hpre hnh hnm hbody hfile hw hroot
    hdir hvalid hf
  rw [Render.renderText_eq_renderLines _ _ hnew] at h
  exact h

set_option linter.unusedVariables false in
/-- the target is in the working directory itself: no side condition about its directory -/
theorem C01_section_flat (o : Options) (fmt : Format) (s : DState) (p bytes : Bytes) (m : Nat)
    (patch0 : Patch) (info : HeaderInfo) (par1 par2 : Parser) (hs : List Hunk)
    (ho : PlainOpts o p) (hreal : o.dryRun = false) (hp : p ≠ []) (hcwd : s.cwd = [])
    (hhdr : parseHeader s.par { format := fmt } o.strip = .ok (true, patch0, info, par1))
    (hfmt : patch0.format = .unified ∨ patch0.format = .context ∨ patch0.format = .normal)
    (hop : patch0.operation = .change) (hpre : patch0.prerequisite = []) (hnh : patch0.hunks = []) (hnm : patch0.newMode = 0)
    (hbody : parseBody par1 patch0 = .ok ({ patch0 with hunks := hs }, par2))
    (hfile : s.fs.lookup p = some (.file bytes m)) (hw : m &&& writeMask ≠ 0) (hroot : s.fs.isRoot = true)
    (hflat : ∀ c ∈ p, c ≠ SLASHB)
    (hvalid : Valid (splitLines bytes) 0 0 hs) (hf : s.faultAt = none) :
    ∃ s', (processSection o fmt).run s = (.ok true, s') ∧
      s'.fs.lookup p = some (.file (Render.renderText o.newlineOutput (splice (splitLines bytes) 0 hs)) m) ∧
      (∀ q, q ≠ p → s'.fs.lookup q = s.fs.lookup q) ∧
      s'.hadFailure = s.hadFailure ∧ s'.par = par2 ∧ s'.dWrites = s.dWrites ∧ s'.dRemovals = s.dRemovals :=
  C01_section o fmt s p bytes m patch0 info par1 par2 hs ho hreal hp hcwd hhdr hfmt hop hpre hnh hnm hbody hfile hw hroot
    (dirExists_parent_of_noSlash s.fs hflat) hvalid hf

set_option linter.unusedVariables false in
/-- why `hdir` is needed: with every other hypothesis of `C01_section`, a target whose directory is missing from the tree
    makes the section abort (`creat` answers ENOENT, a `std::system_error`), the tree as it was -/
theorem C01_section_needs_parent (o : Options) (fmt : Format) (s : DState) (p bytes : Bytes) (m : Nat)
    (patch0 : Patch) (info : HeaderInfo) (par1 par2 : Parser) (hs : List Hunk)
    (ho : PlainOpts o p) (hreal : o.dryRun = false) (hp : p ≠ []) (hcwd : s.cwd = [])
    (hhdr : parseHeader s.par { format := fmt } o.strip = .ok (true, patch0, info, par1))
    (hfmt : patch0.format = .unified ∨ patch0.format = .context ∨ patch0.format = .normal)
    (hop : patch0.operation = .change) (hpre : patch0.prerequisite = []) (hnh : patch0.hunks = []) (hnm : patch0.newMode = 0)
    (hbody : parseBody par1 patch0 = .ok ({ patch0 with hunks := hs }, par2))
    (hfile : s.fs.lookup p = some (.file bytes m)) (hw : m &&& writeMask ≠ 0) (hroot : s.fs.isRoot = true)
    (hnodir : s.fs.dirExists (parentOf p) = false)
    (hvalid : Valid (splitLines bytes) 0 0 hs) (hf : s.faultAt = none) :
    ∃ s', (processSection o fmt).run s = (.error .systemError, s') ∧ s'.fs = s.fs := by
  obtain ⟨r, H, _⟩ := plainSection_of_valid o fmt s p bytes m patch0 info par1 par2 hs ho hp hcwd hhdr hfmt hop
    hpre hnm hbody hfile hw hroot hvalid hf
  exact processSection_clean_noParent H hreal hnodir

set_option linter.unusedVariables false in
/-- the same section under --dry-run: tree untouched, same verdict (no failure recorded), stream advanced identically -/
theorem C15_section_fidelity (o : Options) (fmt : Format) (s : DState) (p bytes : Bytes) (m : Nat)
    (patch0 : Patch) (info : HeaderInfo) (par1 par2 : Parser) (hs : List Hunk)
    (ho : PlainOpts o p) (hdry : o.dryRun = true) (hp : p ≠ []) (hcwd : s.cwd = [])
    (hhdr : parseHeader s.par { format := fmt } o.strip = .ok (true, patch0, info, par1))
    (hfmt : patch0.format = .unified ∨ patch0.format = .context ∨ patch0.format = .normal)
    (hop : patch0.operation = .change) (hpre : patch0.prerequisite = []) (hnh : patch0.hunks = []) (hnm : patch0.newMode = 0)
    (hbody : parseBody par1 patch0 = .ok ({ patch0 with hunks := hs }, par2))
    (hfile : s.fs.lookup p = some (.file bytes m)) (hw : m &&& writeMask ≠ 0) (hroot : s.fs.isRoot = true)
    (hvalid : Valid (splitLines bytes) 0 0 hs) (hf : s.faultAt = none) :
    ∃ s', (processSection o fmt).run s = (.ok true, s') ∧
      s'.fs = s.fs ∧ s'.hadFailure = s.hadFailure ∧ s'.par = par2 := by
  obtain ⟨r, H, _⟩ := plainSection_of_valid o fmt s p bytes m patch0 info par1 par2 hs ho hp hcwd hhdr hfmt hop
    hpre hnm hbody hfile hw hroot hvalid hf
  obtain ⟨s', hrun, hfs, _, hd⟩ := processSection_clean_dry H hdry
  exact ⟨s', hrun, hfs, hd.hadFailure, hd.par⟩

/-! ### `guess_filepath` when a rename or a copy is reversed

    Reversing `rename a → b` (or `copy a → b`) has to start from `b`, the file which the patch made.  Before the C++ fix "reverse a
    rename or copy from the file which it made" the old name was tried first, so with `a` present as well — the other half of two
    files being swapped, a chain `a → b`, `c → a` — the reverse run patched `a`.  The new first rule looks at the new name alone. -/

/-- **under -R the file to patch of a rename / copy is the new name whenever that exists — whether or not the old name exists** -/
theorem guessFilepath_reverse_made (p : Patch) (s : DState)
    (hop : p.operation = .rename ∨ p.operation = .copy)
    (hnew : (s.fs.stat (absPath s p.newPath)).isSome = true) :
    (guessFilepath p true).run s = (.ok p.newPath, s) := by
  unfold guessFilepath
  rw [DriverFacts.run_bind, DriverFacts.run_fsExists]
  have : (p.operation == .rename || p.operation == .copy) = true := by
    rcases hop with h | h <;> simp [h]
  simp only [this, hnew, Bool.and_self, ↓reduceIte]
  rfl

/-- the new rule is for -R only: without it an existing old name still wins, whatever the operation -/
theorem guessFilepath_forward_old (p : Patch) (s : DState) (hold : p.oldPath ≠ devNull)
    (hex : (s.fs.stat (absPath s p.oldPath)).isSome = true) :
    (guessFilepath p false).run s = (.ok p.oldPath, s) := by
  unfold guessFilepath
  rw [DriverFacts.run_bind, DriverFacts.run_fsExists]
  simp only [Bool.false_and, Bool.false_eq_true, ↓reduceIte]
  rw [DriverFacts.run_bind, DriverFacts.run_fsExists]
  have : (p.oldPath != devNull) = true := by simp [hold]
  simp only [this, hex, Bool.and_self, ↓reduceIte]
  rfl

/-- the swap case: both "a" and "b" are there; reversing `rename a → b` starts from "b", applying it from "a" -/
example (s : DState) (hs : s = { fs := { nodes := [([97], .file [] 0o644), ([98], .file [] 0o644)] } }) :
    (guessFilepath { operation := .rename, oldPath := [97], newPath := [98] } true).run s = (.ok [98], s) ∧
    (guessFilepath { operation := .rename, oldPath := [97], newPath := [98] } false).run s = (.ok [97], s) :=
  ⟨guessFilepath_reverse_made _ _ (Or.inl rfl) (by subst hs; decide),
   guessFilepath_forward_old _ _ (by decide +kernel) (by subst hs; decide)⟩

/-- **a file which is to be removed but is not there (any more) is still the file the patch is about** (NEW with the model change
    D88: the last fallback of `guess_filepath` no longer asks for `-R`): for a deletion, when none of the names of the header exists,
    the file to patch is the old name — with or without `-R` (and `processSection` then reads the missing file as empty).
    CHANGED with the model change `first_name_of` (D104): the old name is a name (`hne`, `hnn`, new): `/dev/null` and a name which was
    left out are never the file to patch — the next of old, new and `Index:` name is (`guessFilepath_delete_missing_names`). -/
theorem guessFilepath_delete_missing (p : Patch) (r : Bool) (s : DState) (hop : p.operation = .delete)
    (hne : p.oldPath ≠ []) (hnn : p.oldPath ≠ devNull)
    (hold : (s.fs.stat (absPath s p.oldPath)).isSome = false)
    (hnew : (s.fs.stat (absPath s p.newPath)).isSome = false)
    (hidx : (s.fs.stat (absPath s p.indexPath)).isSome = false) :
    (guessFilepath p r).run s = (.ok p.oldPath, s) := by
  unfold guessFilepath
  simp only [DriverFacts.run_bind, DriverFacts.run_fsExists, DriverFacts.run_ite, DriverFacts.run_pure, hold, hnew, hidx, hop,
    Bool.and_false, Bool.false_eq_true, ↓reduceIte, beq_self_eq_true, DriverFacts.firstNameOf_cons_of_name hne hnn]
  rfl

/-- the general form: for a deletion none of whose names exists the file to patch is the first of the old, the new and the `Index:`
    name which is a name; for a creation the first of the new, the old and the `Index:` name -/
theorem guessFilepath_missing_names (p : Patch) (r : Bool) (s : DState) (hop : p.operation = .delete ∨ p.operation = .add)
    (hold : (s.fs.stat (absPath s p.oldPath)).isSome = false)
    (hnew : (s.fs.stat (absPath s p.newPath)).isSome = false)
    (hidx : (s.fs.stat (absPath s p.indexPath)).isSome = false) :
    (guessFilepath p r).run s =
      (.ok (if p.operation = .add then firstNameOf [p.newPath, p.oldPath, p.indexPath]
            else firstNameOf [p.oldPath, p.newPath, p.indexPath]), s) := by
  unfold guessFilepath
  rcases hop with hop | hop
  all_goals
    simp only [DriverFacts.run_bind, DriverFacts.run_fsExists, DriverFacts.run_ite, DriverFacts.run_pure, hold, hnew, hidx, hop,
      Bool.and_false, Bool.false_eq_true, ↓reduceIte, beq_self_eq_true]
    try rfl

/-- **`/dev/null` is never the file to patch** (D104) — the one rule which does not look: under `-R` the new name of a rename or
    copy, if that exists -/
theorem guessFilepath_never_devnull (p : Patch) (r : Bool) (s s' : DState) (f : Bytes)
    (hr : (r && (p.operation == .rename || p.operation == .copy)) = false)
    (h : (guessFilepath p r).run s = (.ok f, s')) : f ≠ devNull := by
  unfold guessFilepath at h
  simp only [DriverFacts.run_bind, DriverFacts.run_fsExists, DriverFacts.run_ite, DriverFacts.run_pure, hr, Bool.false_and,
    Bool.false_eq_true, ↓reduceIte] at h
  repeat' split at h
  all_goals first
    | (cases h; exact DriverFacts.firstNameOf_ne_devNull _)
    | (cases h; exact fun e => DriverFacts.devNull_ne_nil e.symm)
    | (cases h; simp_all)

/-- **a removal named only by an `Index:` line** (a normal diff has no other name): old and new name left out, the file `f` of the
    `Index:` line missing: the patch is about `f` (so that it can be reversed, or recognised as applied) -/
theorem guessFilepath_index_only (p : Patch) (r : Bool) (s : DState) (f : Bytes) (hop : p.operation = .delete)
    (hold : p.oldPath = []) (hnew : p.newPath = []) (hidx : p.indexPath = f) (hne : f ≠ []) (hnn : f ≠ devNull)
    (hmiss : (s.fs.stat (absPath s f)).isSome = false)
    (hnil : (s.fs.stat (absPath s [])).isSome = false) :
    (guessFilepath p r).run s = (.ok f, s) := by
  rw [guessFilepath_missing_names p r s (.inl hop) (by rw [hold]; exact hnil) (by rw [hnew]; exact hnil) (by rw [hidx]; exact hmiss)]
  rw [if_neg (by rw [hop]; decide), hold, hnew, hidx, DriverFacts.firstNameOf_cons_skip (.inl rfl),
    DriverFacts.firstNameOf_cons_skip (.inl rfl), DriverFacts.firstNameOf_cons_of_name hne hnn]

end PatchModel.C01

#print axioms PatchModel.C01.guessFilepath_delete_missing
#print axioms PatchModel.C01.guessFilepath_missing_names
#print axioms PatchModel.C01.guessFilepath_never_devnull
#print axioms PatchModel.C01.guessFilepath_index_only
#print axioms PatchModel.C01.C01_section
#print axioms PatchModel.C01.C01_section_terminated
#print axioms PatchModel.C01.C01_section_flat
#print axioms PatchModel.C01.C01_section_needs_parent
#print axioms PatchModel.C01.C15_section_fidelity
#print axioms PatchModel.C01.guessFilepath_reverse_made
#print axioms PatchModel.C01.guessFilepath_forward_old
