/-
  C01 end to end for a plain (non-git) unified diff that CREATES a file — the whole modelled program (`runPatch` = `main`
  after option parsing) on the TEXT of the diff:

      patch -i pname            (no file operand: the name comes from the `+++` line)
      patch -i pname name       (`C01_run_create_operand`)

  where the tree holds NOTHING at `name` and the patch file `pname` holds

      --- /dev/null                  or     --- /dev/null TAB oldt
      +++ name                              +++ name TAB newt
      the hunks `hs` as `write_hunk_as_unified` writes them, the first range being `-0,0 +n…` (n ≠ 0)

  and `hs` is a `Valid` script of the EMPTY list of lines.  Then the exit status is 0; `name` is a regular file which holds
  `splice [] 0 hs` rendered, with the mode `open(O_CREAT)` gives a new file, `0666 & ~umask`; no other path of the tree differs (so:
  no reject file, no backup file, no directory made); the trace is the four operations on anonymous temporaries, `creat name` and
  `write name …` — no `chmod` —; and the one event printed is "patching file name".  Under --dry-run the tree is left alone
  ("checking file name").

  The theorems, from the core outwards:
  * `run_create_of_lines`, `run_create_mkdir_of_lines`, `run_create_dry_of_lines`: whatever the bytes of the patch file, if they
    split into inert filler, `--- oldf`, `+++ newf` (of which `parse_file_line` makes the names `opath`, `npath`) and the lines of
    the hunks;
  * name lines with time stamps (what `diff -u /dev/null name` writes; `C01.patchText` / `Run.diffText`):
    `C01_run_create_filler`, `C01_run_create_mkdir_filler`, `C15_run_create_dry_filler`; for a name in the working directory:
    `C01_run_create`, `C01_run_create_operand`, `C15_run_create_dry`;
  * bare name lines (`RunCr.bareText` = the header as `write_patch_header_as_unified` writes it, then the hunks):
    `C01_run_create_bare_filler`, `C01_run_create_bare_mkdir_filler`, `C15_run_create_bare_dry_filler`, `C01_run_create_bare`,
    `C15_run_create_bare_dry`;
  * THE diff that creates a file with the lines `new` (`newFileHunk new` = `@@ -0,0 +1,n @@`, every line with `+`): the file
    holds `renderLines mode new` — `C01_run_newfile` (time stamps), `C01_run_newfile_bare` (the text
    `--- /dev/null`, `+++ name`, `@@ -0,0 +1,n @@`, `+…`), `C15_run_newfile_bare_dry`, and `C01_run_newfile_in_dir`: `name` = `d/b`
    with `-p0`, the directory `d` not there: it is made (`mkdir d`, mode `0777 & ~umask`) before the file is created.

  How "add" is inferred: nothing in a plain unified diff says that it creates a file; `parse_patch_header` infers it from a first
  range that starts at 0 on the old side (`Header.inferredOp`; the name `/dev/null` is not looked at for that).  With the
  operation "add" `guess_filepath` accepts a name which does not exist, a missing input file reads as empty, the directories of
  the name are made (`ensure_parent_directories`, twice over), and — there being no old mode — no `chmod` follows the write.

  Side conditions, and why:
  * the name: in the working directory (`flatName`: not empty, no slash, no TAB, no line feed, does not start with a quote;
    `bareFlatName` for a name without TAB after it: also no blank — `parse_file_line` cuts such a name at the first blank,
    `NewScope.sBlank` — and no CR at its end) — no `-p` given, or `-p0`, leaves such a name alone.  The `_filler` theorems ask
    less: `stripPath new o.strip = name` and either all directories of the name are in the tree (`DirsThere`,
    `dirExists (parentOf name)`) or (`_mkdir_`) the name has one directory prefix, its parent, which is not there while the
    directory that one sits in is.  NOT covered: more than one directory to make, a directory prefix which exists as something
    else than a directory.
  * nothing at `name` (`habsent`) — that is what "creates" means; over an existing file the same diff is applied to its content
    (`NewScope.sThere`).
  * nothing at the EMPTY name (`hnoempty`): a diff without `Index:` line has the empty index name, which `guess_filepath` tries
    (`filesystem::exists("")`) before it settles for the new name (`NewScope.sE`).  A tree is a raw list of (path, node) pairs in
    the model; no real tree has a node with the empty name.  Not asked when the operand names the file.
  * time stamps (where there are any) not empty, without line feed, not ending in CR.
  * the patch file can be read: root, or its owner-read bit (`hread`); nothing else asks for root here (`CreateStart` is
    `C01.CleanStart` without `root`).
  * `1 + new.length ≤ i64Max / 4` (`NewFile.short`): the range line is read back by `parse_unified_range`.
-/
import PatchModel.Props.C01Run
import PatchModel.Lemmas.RunCr
namespace PatchModel.C01Create
open PatchModel PatchModel.Section PatchModel.Run PatchModel.DriverFacts PatchModel.RunB PatchModel.RunCr PatchModel.C01

/-- the state `main` starts `process_patch` in; the user need not be root -/
structure CreateStart (s0 : DState) : Prop where
  cwd : s0.cwd = []
  noFault : s0.faultAt = none
  noFailure : s0.hadFailure = false
  noWrites : s0.dWrites = []
  noRemovals : s0.dRemovals = []

theorem createStart_of_clean {s0 : DState} (h : CleanStart s0) : CreateStart s0 :=
  ⟨h.cwd, h.noFault, h.noFailure, h.noWrites, h.noRemovals⟩

/-- `filler ++ header ++ (h :: hs')` is the text of a unified diff whose first range says that the file is created -/
structure CreateDiff (filler : List Line) (old new oldt newt : Bytes) (h : Hunk) (hs' : List Hunk) : Prop where
  fillerInert : ∀ l ∈ filler, inertLine l.content = true
  fillerPlain : ∀ l ∈ filler, lfPlain l = true
  oldName : Header.plainName old ∧ fieldOk old
  newName : Header.plainName new ∧ fieldOk new
  oldStamp : stampOk oldt
  newStamp : stampOk newt
  writable : ∀ x ∈ h :: hs', x.writable = true
  creates : h.old.start = 0 ∧ h.new.start ≠ 0

theorem plainName_devNull : Header.plainName devNull ∧ fieldOk devNull := by
  unfold Header.plainName fieldOk
  rw [Names.devNull_eq]
  decide

theorem splitLines_createText {filler : List Line} {old new oldt newt : Bytes} {h : Hunk} {hs' : List Hunk}
    (hd : CreateDiff filler old new oldt newt h hs') :
    splitLines (patchText filler old new oldt newt (h :: hs')) = diffLines filler old new oldt newt (h :: hs') := by
  unfold patchText diffLines
  rw [splitLines_linesText _ _ hd.fillerPlain,
    splitLines_diffText old new oldt newt (h :: hs') hd.oldName.2 hd.newName.2 hd.oldStamp.2.1 hd.newStamp.2.1 hd.oldStamp.1
      hd.newStamp.1 hd.oldStamp.2.2 hd.newStamp.2.2 hd.writable]

/-- the trace of a section that creates `name` with `content` -/
abbrev createOps (name content : Bytes) : List FsOp :=
  [.tmpCreate, .tmpUnlink, .tmpCreate, .tmpUnlink] ++ writeOps name content

/-- how the name of the file to create is arrived at: it is the operand, or there is none and it is what `-p` leaves of the
    name on the `+++` line, the name on the `---` line being `/dev/null` -/
def TargetOf (o : Options) (old new name : Bytes) : Prop :=
  o.fileToPatch = name ∨
    (o.fileToPatch = [] ∧ old = devNull ∧ new ≠ devNull ∧ stripPath new o.strip = name ∧ name ≠ devNull)

/-- the options of a run that creates a file (what `C01.PlainOpts` / `C01.GuessOpts` share, apart from the operand) -/
structure CreateOpts (o : Options) (pname : Bytes) : Prop where
  noOut : o.outFile = []
  noBackup : o.saveBackup = false
  noReverse : o.reverse = false
  noDefine : o.define = []
  fuzz : 0 ≤ o.maxFuzz
  quiet : o.verbose = false
  file : FileOpts o pname

theorem createOpts_of_guess {o : Options} {pname : Bytes} (h : GuessOpts o pname) : CreateOpts o pname :=
  ⟨h.noOut, h.noBackup, h.noReverse, h.noDefine, h.fuzz, h.quiet, h.file⟩

theorem createOpts_of_run {o : Options} {name pname : Bytes} (h : RunOpts o name pname) : CreateOpts o pname :=
  ⟨h.plain.noOut, h.plain.noBackup, h.plain.noReverse, h.plain.noDefine, h.plain.fuzz, h.plain.quiet, h.file⟩

/-- the lines `filler`, `--- oldf`, `+++ newf`, hunks `h :: hs'` are a unified diff that creates a file: `parse_file_line`
    reads the names `opath` / `npath` off the two name lines (whatever their shape), the first range says "created" -/
structure CreateLines (o : Options) (filler : List Line) (oldf newf opath npath : Bytes) (h : Hunk) (hs' : List Hunk) : Prop where
  fillerInert : ∀ l ∈ filler, inertLine l.content = true
  fillerPlain : ∀ l ∈ filler, lfPlain l = true
  oldLine : ∃ t, parseFileLine oldf o.strip = .ok (opath, t)
  newLine : ∃ t, parseFileLine newf o.strip = .ok (npath, t)
  writable : ∀ x ∈ h :: hs', x.writable = true
  creates : h.old.start = 0 ∧ h.new.start ≠ 0

/-- `TargetOf` in terms of the names as read (stripped) -/
def TargetRead (o : Options) (opath npath name : Bytes) : Prop :=
  o.fileToPatch = name ∨ (o.fileToPatch = [] ∧ opath = devNull ∧ npath = name ∧ name ≠ devNull)

theorem targetRead_of {o : Options} {old new name : Bytes} (h : TargetOf o old new name) :
    TargetRead o (Header.stripped old o.strip) (Header.stripped new o.strip) name := by
  rcases h with h | ⟨h1, h2, h3, h4, h5⟩
  · exact Or.inl h
  · refine Or.inr ⟨h1, ?_, ?_, h5⟩
    · rw [Header.stripped, if_pos h2, h2]
    · rw [Header.stripped, if_neg h3, h4]

section
variable {o : Options} {s0 : DState} {name pname : Bytes} {pm : Nat}
  {filler : List Line} {oldf newf opath npath : Bytes} {h : Hunk} {hs' : List Hunk}

/-- header scan, body parse and the applier's verdict for the one section of the diff -/
theorem createSection_of_lines (ho : CreateOpts o pname) (ht : TargetRead o opath npath name) (hs0 : CreateStart s0)
    (hname : name ≠ [])
    (habsent : s0.fs.lookup name = none) (hnoempty : o.fileToPatch = [] → s0.fs.lookup [] = none)
    (hd : CreateLines o filler oldf newf opath npath h hs') (hvalid : Valid [] 0 0 (h :: hs')) :
    ∃ patch0 info par1 par2 r,
      CreateSection o (forced o) (loopStart s0 (nameLines filler oldf newf (h :: hs'))) name patch0
        { patch0 with hunks := h :: hs' } info par1 par2 r ∧
      render o.newlineOutput r.out = Render.renderText o.newlineOutput (splice [] 0 (h :: hs')) ∧
      par2.s.eof = true := by
  have hfl : ∀ l ∈ filler, l.newline ≠ .none := by
    intro l hl
    have := hd.fillerPlain l hl
    unfold lfPlain at this
    simp only [Bool.and_eq_true, beq_iff_eq] at this
    rw [this.1]; simp
  have hfmt : forced o = .unknown ∨ forced o = .unified := by
    unfold forced; split
    · exact Or.inr rfl
    · exact Or.inl rfl
  obtain ⟨ot, hof⟩ := hd.oldLine
  obtain ⟨nt, hnf⟩ := hd.newLine
  obtain ⟨patch0, info, par1, par2, hhdr, hf, hop, hpre, _, hnm, hop0, hnp0, hidx, hbody, heof⟩ :=
    parse_nameLines_op o.strip (forced o) hfmt filler oldf newf _ _ h hs' 1 hd.fillerInert hfl hof hnf hd.writable
  have hadd : patch0.operation = .add := by
    rw [hop]; unfold Header.inferredOp; rw [if_neg hd.creates.2, if_pos hd.creates.1]
  have hrev : (applyOptsOf o).reverse = false := ho.noReverse
  obtain ⟨r, hap, hrout, _, hrfail, _, hrperf, hrskip, _, hrmsgs, hrtty, hrpatch⟩ :=
    C01.applyPatch_valid [] (h :: hs') { patch0 with hunks := h :: hs' } (applyOptsOf o)
      (Option.map (fun l => List.map (fun a => !List.isEmpty a && List.head? a != some 110) l) s0.tty)
      hvalid (by rw [hrev]; rfl) ho.noDefine ho.fuzz
  refine ⟨patch0, info, par1, par2, r, ?_, C01.render_of_lines _ ho.noDefine hap hrout, heof⟩
  exact {
    target := by
      rcases ht with hopd | ⟨hno, hold, hnew, hnn⟩
      · exact Or.inl hopd
      · refine Or.inr ⟨hno, hnoempty hno, ?_⟩
        have hnp : patch0.newPath = name := by rw [hnp0]; exact hnew
        have hopth : patch0.oldPath = devNull := by rw [hop0]; exact hold
        intro s' h1 h2 h3
        have := run_guessFilepath_add patch0 o.reverse h1 hadd hopth (by rw [hnp]; exact hnn) (by rw [hnp]; exact hname) hidx
          (by rw [hnp]; exact h2) h3
        rw [hnp] at this
        exact this,
    noOut := ho.noOut, noBackup := ho.noBackup, pathNe := hname, cwd := hs0.cwd, hdr := hhdr,
    fmt := Or.inl hf, op := hadd, pre := hpre, body := hbody, fmt2 := rfl, op2 := hadd, newMode2 := hnm,
    absent := habsent, noFault := hs0.noFault,
    apply := hap, failed := hrfail, perfect := hrperf, skipped := hrskip, msgs := hrmsgs ho.quiet, ttyLeft := hrtty,
    patch := by rw [hrpatch, hrev]; rfl }

/-- from the closed form of the one section to the closed form of the run (whatever the text, given its lines) -/
theorem runPatch_of_create_section (ho : FileOpts o pname) (hs0 : CreateStart s0) (hpn : pname ≠ []) (hpd : pname ≠ [45])
    (ptext : Bytes) (lines : List Line) (hlines : splitLines ptext = lines)
    (hpatch : s0.fs.lookup pname = some (.file ptext pm)) (hread : s0.fs.isRoot = true ∨ pm / 256 % 2 = 1)
    (s' : DState) (par2 : Parser) (dry : Bool)
    (hrun : (processSection o (forced o)).run (loopStart s0 lines) = (.ok true, s'))
    (hdone : SectionDone (loopStart s0 lines) s' name par2 dry)
    (heof : par2.s.eof = true) :
    runPatch o s0 = (0, s') := by
  have hloop := sectionLoop_one o (forced o) lines.length _ s' rfl hrun (by rw [hdone.par]; exact heof)
  have hrunP := run_processPatchM_readable o s0 s' pname ptext pm (forced o) ho.noDir ho.patchFile hpn hpd
    hs0.cwd hpatch hread (diffFormat_plain o ho.noContext ho.noNormal ho.noEd)
    (by rw [hlines]; exact hloop)
    (by rw [hdone.dWrites]; exact hs0.noWrites) (by rw [hdone.dRemovals]; exact hs0.noRemovals)
  rw [runPatch_of_run o s0 s' ho.noHelp ho.noVersion hrunP]
  have : s'.hadFailure = false := by rw [hdone.hadFailure]; exact hs0.noFailure
  rw [this]; rfl

/-- **the whole program on a patch file whose lines are a unified diff that creates a file** — the common core of the
    theorems below: whatever the bytes `ptext` of the patch file, if they split into `filler`, `--- oldf`, `+++ newf` and the
    lines of the hunks -/
theorem run_create_of_lines (ho : CreateOpts o pname) (ht : TargetRead o opath npath name) (hreal : o.dryRun = false)
    (hs0 : CreateStart s0) (hname : name ≠ []) (hdirs : DirsThere s0.fs name)
    (hdir : s0.fs.dirExists (parentOf name) = true) (hpn : pname ≠ []) (hpd : pname ≠ [45])
    (habsent : s0.fs.lookup name = none) (hnoempty : o.fileToPatch = [] → s0.fs.lookup [] = none)
    (ptext : Bytes) (hsplit : splitLines ptext = nameLines filler oldf newf (h :: hs'))
    (hpatch : s0.fs.lookup pname = some (.file ptext pm))
    (hread : s0.fs.isRoot = true ∨ pm / 256 % 2 = 1)
    (hd : CreateLines o filler oldf newf opath npath h hs') (hvalid : Valid [] 0 0 (h :: hs')) :
    (runPatch o s0).1 = 0 ∧
    (runPatch o s0).2.fs.lookup name =
      some (.file (Render.renderText o.newlineOutput (splice [] 0 (h :: hs'))) (0o666 - (0o666 &&& s0.fs.umask))) ∧
    (∀ q, q ≠ name → (runPatch o s0).2.fs.lookup q = s0.fs.lookup q) ∧
    (runPatch o s0).2.trace = s0.trace ++ createOps name (Render.renderText o.newlineOutput (splice [] 0 (h :: hs'))) ∧
    (runPatch o s0).2.out = s0.out ++ [.file name false] := by
  obtain ⟨patch0, info, par1, par2, r, H, hrender, heof⟩ :=
    createSection_of_lines ho ht hs0 hname habsent hnoempty hd hvalid
  obtain ⟨s', hrun, hfs, htr, hdone⟩ := processSection_create H hreal hdirs hdir
  rw [runPatch_of_create_section ho.file hs0 hpn hpd ptext _ hsplit hpatch hread s' par2 false hrun hdone heof]
  refine ⟨rfl, ?_, ?_, ?_, hdone.out⟩
  · show s'.fs.lookup name = _
    rw [hfs, Fs.lookup_set_self, hrender]
  · intro q hq
    show s'.fs.lookup q = _
    rw [hfs, Fs.lookup_set_ne _ _ _ _ hq]
  · show s'.trace = _
    rw [htr, hrender]
    show s0.trace ++ _ ++ _ ++ _ = _
    simp [createOps]

/-- **… into a directory which is not there**: the name has exactly one directory prefix `d`, which is its parent; nothing is at
    `d`; the directory `d` would sit in exists.  The directory is made (`mkdir d`, mode `0777 & ~umask`) after the temporaries and
    before the file is created; no other path differs. -/
theorem run_create_mkdir_of_lines (ho : CreateOpts o pname) (ht : TargetRead o opath npath name) (hreal : o.dryRun = false)
    (hs0 : CreateStart s0) (hname : name ≠ []) {d : Bytes} (hdp : dirPrefixes name = [d]) (hpar : parentOf name = d)
    (hnone : s0.fs.lookup d = none) (hdpar : s0.fs.dirExists (parentOf d) = true) (hpn : pname ≠ []) (hpd : pname ≠ [45])
    (habsent : s0.fs.lookup name = none) (hnoempty : o.fileToPatch = [] → s0.fs.lookup [] = none)
    (ptext : Bytes) (hsplit : splitLines ptext = nameLines filler oldf newf (h :: hs'))
    (hpatch : s0.fs.lookup pname = some (.file ptext pm))
    (hread : s0.fs.isRoot = true ∨ pm / 256 % 2 = 1)
    (hd : CreateLines o filler oldf newf opath npath h hs') (hvalid : Valid [] 0 0 (h :: hs')) :
    (runPatch o s0).1 = 0 ∧
    (runPatch o s0).2.fs.lookup name =
      some (.file (Render.renderText o.newlineOutput (splice [] 0 (h :: hs'))) (0o666 - (0o666 &&& s0.fs.umask))) ∧
    (runPatch o s0).2.fs.lookup d = some (.dir (0o777 - (0o777 &&& s0.fs.umask))) ∧
    (∀ q, q ≠ name → q ≠ d → (runPatch o s0).2.fs.lookup q = s0.fs.lookup q) ∧
    (runPatch o s0).2.trace = s0.trace ++ [.tmpCreate, .tmpUnlink, .tmpCreate, .tmpUnlink] ++ [.mkdir d] ++
      writeOps name (Render.renderText o.newlineOutput (splice [] 0 (h :: hs'))) ∧
    (runPatch o s0).2.out = s0.out ++ [.file name false] := by
  have hnd : d ≠ name := by
    intro e
    have := parentOf_length_lt hname
    rw [hpar, e] at this
    omega
  obtain ⟨patch0, info, par1, par2, r, H, hrender, heof⟩ :=
    createSection_of_lines ho ht hs0 hname habsent hnoempty hd hvalid
  obtain ⟨s', hrun, hfs, htr, hdone⟩ := processSection_create_mkdir H hreal hdp hpar hnone hdpar
  rw [runPatch_of_create_section ho.file hs0 hpn hpd ptext _ hsplit hpatch hread s' par2 false hrun hdone heof]
  refine ⟨rfl, ?_, ?_, ?_, ?_, hdone.out⟩
  · show s'.fs.lookup name = _
    rw [hfs, Fs.lookup_set_self, hrender]
  · show s'.fs.lookup d = _
    rw [hfs, Fs.lookup_set_ne _ _ _ _ hnd, Fs.lookup_set_self]
  · intro q hq1 hq2
    show s'.fs.lookup q = _
    rw [hfs, Fs.lookup_set_ne _ _ _ _ hq1, Fs.lookup_set_ne _ _ _ _ hq2]
  · show s'.trace = _
    rw [htr, hrender]
    show s0.trace ++ _ ++ _ ++ _ ++ _ = _
    simp

/-- the same under --dry-run — exit status 0, the tree untouched, "checking file name" -/
theorem run_create_dry_of_lines (ho : CreateOpts o pname) (ht : TargetRead o opath npath name) (hdry : o.dryRun = true)
    (hs0 : CreateStart s0) (hname : name ≠ []) (hpn : pname ≠ []) (hpd : pname ≠ [45])
    (habsent : s0.fs.lookup name = none) (hnoempty : o.fileToPatch = [] → s0.fs.lookup [] = none)
    (ptext : Bytes) (hsplit : splitLines ptext = nameLines filler oldf newf (h :: hs'))
    (hpatch : s0.fs.lookup pname = some (.file ptext pm))
    (hread : s0.fs.isRoot = true ∨ pm / 256 % 2 = 1)
    (hd : CreateLines o filler oldf newf opath npath h hs') (hvalid : Valid [] 0 0 (h :: hs')) :
    (runPatch o s0).1 = 0 ∧ (runPatch o s0).2.fs = s0.fs ∧
    (runPatch o s0).2.trace = s0.trace ++ [.tmpCreate, .tmpUnlink, .tmpCreate, .tmpUnlink] ∧
    (runPatch o s0).2.out = s0.out ++ [.file name true] := by
  obtain ⟨patch0, info, par1, par2, r, H, _, heof⟩ :=
    createSection_of_lines ho ht hs0 hname habsent hnoempty hd hvalid
  obtain ⟨s', hrun, hfs, htr, hdone⟩ := processSection_create_dry H hdry
  rw [runPatch_of_create_section ho.file hs0 hpn hpd ptext _ hsplit hpatch hread s' par2 true hrun hdone heof]
  refine ⟨rfl, hfs, ?_, hdone.out⟩
  show s'.trace = _
  rw [htr]
  show s0.trace ++ _ ++ _ = _
  simp

end

/-! ### name lines with TAB and time stamp (what `diff -u /dev/null name` writes) -/

section
variable {o : Options} {s0 : DState} {name pname : Bytes} {pm : Nat}
  {filler : List Line} {old new oldt newt : Bytes} {h : Hunk} {hs' : List Hunk}

theorem createLines_of_diff (hd : CreateDiff filler old new oldt newt h hs') :
    CreateLines o filler (old ++ TAB :: oldt) (new ++ TAB :: newt) (Header.stripped old o.strip) (Header.stripped new o.strip)
      h hs' :=
  { fillerInert := hd.fillerInert, fillerPlain := hd.fillerPlain,
    oldLine := ⟨_, Names.file_line_plain old oldt o.strip hd.oldName.1.1 hd.oldName.1.2.2 hd.oldName.1.2.1⟩,
    newLine := ⟨_, Names.file_line_plain new newt o.strip hd.newName.1.1 hd.newName.1.2.2 hd.newName.1.2.1⟩,
    writable := hd.writable, creates := hd.creates }

theorem splitLines_createText' (hd : CreateDiff filler old new oldt newt h hs') :
    splitLines (patchText filler old new oldt newt (h :: hs')) =
      nameLines filler (old ++ TAB :: oldt) (new ++ TAB :: newt) (h :: hs') := by
  rw [splitLines_createText hd, diffLines_eq_nameLines]

/-- **C01, the whole program on the text of a unified diff that creates a file** (inert filler allowed in front of the header;
    the file may sit in a directory of the tree; operand or not: `TargetOf`) -/
theorem C01_run_create_filler (ho : CreateOpts o pname) (ht : TargetOf o old new name) (hreal : o.dryRun = false)
    (hs0 : CreateStart s0) (hname : name ≠ []) (hdirs : DirsThere s0.fs name)
    (hdir : s0.fs.dirExists (parentOf name) = true) (hpn : pname ≠ []) (hpd : pname ≠ [45])
    (habsent : s0.fs.lookup name = none) (hnoempty : o.fileToPatch = [] → s0.fs.lookup [] = none)
    (hpatch : s0.fs.lookup pname = some (.file (patchText filler old new oldt newt (h :: hs')) pm))
    (hread : s0.fs.isRoot = true ∨ pm / 256 % 2 = 1)
    (hd : CreateDiff filler old new oldt newt h hs') (hvalid : Valid [] 0 0 (h :: hs')) :
    (runPatch o s0).1 = 0 ∧
    (runPatch o s0).2.fs.lookup name =
      some (.file (Render.renderText o.newlineOutput (splice [] 0 (h :: hs'))) (0o666 - (0o666 &&& s0.fs.umask))) ∧
    (∀ q, q ≠ name → (runPatch o s0).2.fs.lookup q = s0.fs.lookup q) ∧
    (runPatch o s0).2.trace = s0.trace ++ createOps name (Render.renderText o.newlineOutput (splice [] 0 (h :: hs'))) ∧
    (runPatch o s0).2.out = s0.out ++ [.file name false] :=
  run_create_of_lines ho (targetRead_of ht) hreal hs0 hname hdirs hdir hpn hpd habsent hnoempty _ (splitLines_createText' hd)
    hpatch hread (createLines_of_diff hd) hvalid

/-- **… into a directory which has to be made** (`run_create_mkdir_of_lines` for name lines with time stamps) -/
theorem C01_run_create_mkdir_filler (ho : CreateOpts o pname) (ht : TargetOf o old new name) (hreal : o.dryRun = false)
    (hs0 : CreateStart s0) (hname : name ≠ []) {d : Bytes} (hdp : dirPrefixes name = [d]) (hpar : parentOf name = d)
    (hnone : s0.fs.lookup d = none) (hdpar : s0.fs.dirExists (parentOf d) = true) (hpn : pname ≠ []) (hpd : pname ≠ [45])
    (habsent : s0.fs.lookup name = none) (hnoempty : o.fileToPatch = [] → s0.fs.lookup [] = none)
    (hpatch : s0.fs.lookup pname = some (.file (patchText filler old new oldt newt (h :: hs')) pm))
    (hread : s0.fs.isRoot = true ∨ pm / 256 % 2 = 1)
    (hd : CreateDiff filler old new oldt newt h hs') (hvalid : Valid [] 0 0 (h :: hs')) :
    (runPatch o s0).1 = 0 ∧
    (runPatch o s0).2.fs.lookup name =
      some (.file (Render.renderText o.newlineOutput (splice [] 0 (h :: hs'))) (0o666 - (0o666 &&& s0.fs.umask))) ∧
    (runPatch o s0).2.fs.lookup d = some (.dir (0o777 - (0o777 &&& s0.fs.umask))) ∧
    (∀ q, q ≠ name → q ≠ d → (runPatch o s0).2.fs.lookup q = s0.fs.lookup q) ∧
    (runPatch o s0).2.trace = s0.trace ++ [.tmpCreate, .tmpUnlink, .tmpCreate, .tmpUnlink] ++ [.mkdir d] ++
      writeOps name (Render.renderText o.newlineOutput (splice [] 0 (h :: hs'))) ∧
    (runPatch o s0).2.out = s0.out ++ [.file name false] :=
  run_create_mkdir_of_lines ho (targetRead_of ht) hreal hs0 hname hdp hpar hnone hdpar hpn hpd habsent hnoempty _
    (splitLines_createText' hd) hpatch hread (createLines_of_diff hd) hvalid

/-- **C15 sibling: the same run under --dry-run** — exit status 0, the tree untouched, "checking file name" -/
theorem C15_run_create_dry_filler (ho : CreateOpts o pname) (ht : TargetOf o old new name) (hdry : o.dryRun = true)
    (hs0 : CreateStart s0) (hname : name ≠ []) (hpn : pname ≠ []) (hpd : pname ≠ [45])
    (habsent : s0.fs.lookup name = none) (hnoempty : o.fileToPatch = [] → s0.fs.lookup [] = none)
    (hpatch : s0.fs.lookup pname = some (.file (patchText filler old new oldt newt (h :: hs')) pm))
    (hread : s0.fs.isRoot = true ∨ pm / 256 % 2 = 1)
    (hd : CreateDiff filler old new oldt newt h hs') (hvalid : Valid [] 0 0 (h :: hs')) :
    (runPatch o s0).1 = 0 ∧ (runPatch o s0).2.fs = s0.fs ∧
    (runPatch o s0).2.trace = s0.trace ++ [.tmpCreate, .tmpUnlink, .tmpCreate, .tmpUnlink] ∧
    (runPatch o s0).2.out = s0.out ++ [.file name true] :=
  run_create_dry_of_lines ho (targetRead_of ht) hdry hs0 hname hpn hpd habsent hnoempty _
    (splitLines_createText' hd) hpatch hread (createLines_of_diff hd) hvalid

end

/-! ### bare name lines: `--- /dev/null`, `+++ name` (no TAB, no time stamp) -/

/-- a name that stands alone on its line: a word (not empty, no TAB, no blank — `parse_file_line` cuts a name without TAB at
    the first blank —, does not start with a quote) without line feed and not ending in CR -/
def bareName (n : Bytes) : Prop := Header.wordName n ∧ RunG.endField n

instance (n : Bytes) : Decidable (bareName n) := by unfold bareName Header.wordName RunG.endField; infer_instance

theorem bareName_devNull : bareName devNull := by
  unfold bareName Header.wordName RunG.endField
  rw [Names.devNull_eq]
  decide

/-- `filler`, `--- old`, `+++ new`, hunks `h :: hs'` is the text of a unified diff without time stamps that creates a file -/
structure BareDiff (filler : List Line) (old new : Bytes) (h : Hunk) (hs' : List Hunk) : Prop where
  fillerInert : ∀ l ∈ filler, inertLine l.content = true
  fillerPlain : ∀ l ∈ filler, lfPlain l = true
  oldName : bareName old
  newName : bareName new
  writable : ∀ x ∈ h :: hs', x.writable = true
  creates : h.old.start = 0 ∧ h.new.start ≠ 0

/-- the bytes of the patch file: filler, then the header as `write_patch_header_as_unified` writes it for names without time
    stamps, then the hunks as `write_hunk_as_unified` writes them -/
def barePatchText (filler : List Line) (old new : Bytes) (hs : List Hunk) : Bytes := linesText filler ++ bareText old new hs

section
variable {o : Options} {s0 : DState} {name pname : Bytes} {pm : Nat}
  {filler : List Line} {old new : Bytes} {h : Hunk} {hs' : List Hunk}

theorem createLines_of_bare (hd : BareDiff filler old new h hs') :
    CreateLines o filler old new (Header.stripped old o.strip) (Header.stripped new o.strip) h hs' :=
  { fillerInert := hd.fillerInert, fillerPlain := hd.fillerPlain,
    oldLine := ⟨_, Names.file_line_word old o.strip hd.oldName.1.1 hd.oldName.1.2.2.2 hd.oldName.1.2.1 hd.oldName.1.2.2.1⟩,
    newLine := ⟨_, Names.file_line_word new o.strip hd.newName.1.1 hd.newName.1.2.2.2 hd.newName.1.2.1 hd.newName.1.2.2.1⟩,
    writable := hd.writable, creates := hd.creates }

theorem splitLines_barePatchText (hd : BareDiff filler old new h hs') :
    splitLines (barePatchText filler old new (h :: hs')) = nameLines filler old new (h :: hs') := by
  unfold barePatchText
  rw [splitLines_linesText _ _ hd.fillerPlain, splitLines_bareText old new (h :: hs') hd.oldName.2 hd.newName.2 hd.writable]
  simp [nameLines]

/-- **C01, the whole program on the text of a unified diff WITHOUT TIME STAMPS that creates a file** -/
theorem C01_run_create_bare_filler (ho : CreateOpts o pname) (ht : TargetOf o old new name) (hreal : o.dryRun = false)
    (hs0 : CreateStart s0) (hname : name ≠ []) (hdirs : DirsThere s0.fs name)
    (hdir : s0.fs.dirExists (parentOf name) = true) (hpn : pname ≠ []) (hpd : pname ≠ [45])
    (habsent : s0.fs.lookup name = none) (hnoempty : o.fileToPatch = [] → s0.fs.lookup [] = none)
    (hpatch : s0.fs.lookup pname = some (.file (barePatchText filler old new (h :: hs')) pm))
    (hread : s0.fs.isRoot = true ∨ pm / 256 % 2 = 1)
    (hd : BareDiff filler old new h hs') (hvalid : Valid [] 0 0 (h :: hs')) :
    (runPatch o s0).1 = 0 ∧
    (runPatch o s0).2.fs.lookup name =
      some (.file (Render.renderText o.newlineOutput (splice [] 0 (h :: hs'))) (0o666 - (0o666 &&& s0.fs.umask))) ∧
    (∀ q, q ≠ name → (runPatch o s0).2.fs.lookup q = s0.fs.lookup q) ∧
    (runPatch o s0).2.trace = s0.trace ++ createOps name (Render.renderText o.newlineOutput (splice [] 0 (h :: hs'))) ∧
    (runPatch o s0).2.out = s0.out ++ [.file name false] :=
  run_create_of_lines ho (targetRead_of ht) hreal hs0 hname hdirs hdir hpn hpd habsent hnoempty _ (splitLines_barePatchText hd)
    hpatch hread (createLines_of_bare hd) hvalid

/-- **… into a directory which has to be made** (`run_create_mkdir_of_lines` for name lines without time stamps) -/
theorem C01_run_create_bare_mkdir_filler (ho : CreateOpts o pname) (ht : TargetOf o old new name) (hreal : o.dryRun = false)
    (hs0 : CreateStart s0) (hname : name ≠ []) {d : Bytes} (hdp : dirPrefixes name = [d]) (hpar : parentOf name = d)
    (hnone : s0.fs.lookup d = none) (hdpar : s0.fs.dirExists (parentOf d) = true) (hpn : pname ≠ []) (hpd : pname ≠ [45])
    (habsent : s0.fs.lookup name = none) (hnoempty : o.fileToPatch = [] → s0.fs.lookup [] = none)
    (hpatch : s0.fs.lookup pname = some (.file (barePatchText filler old new (h :: hs')) pm))
    (hread : s0.fs.isRoot = true ∨ pm / 256 % 2 = 1)
    (hd : BareDiff filler old new h hs') (hvalid : Valid [] 0 0 (h :: hs')) :
    (runPatch o s0).1 = 0 ∧
    (runPatch o s0).2.fs.lookup name =
      some (.file (Render.renderText o.newlineOutput (splice [] 0 (h :: hs'))) (0o666 - (0o666 &&& s0.fs.umask))) ∧
    (runPatch o s0).2.fs.lookup d = some (.dir (0o777 - (0o777 &&& s0.fs.umask))) ∧
    (∀ q, q ≠ name → q ≠ d → (runPatch o s0).2.fs.lookup q = s0.fs.lookup q) ∧
    (runPatch o s0).2.trace = s0.trace ++ [.tmpCreate, .tmpUnlink, .tmpCreate, .tmpUnlink] ++ [.mkdir d] ++
      writeOps name (Render.renderText o.newlineOutput (splice [] 0 (h :: hs'))) ∧
    (runPatch o s0).2.out = s0.out ++ [.file name false] :=
  run_create_mkdir_of_lines ho (targetRead_of ht) hreal hs0 hname hdp hpar hnone hdpar hpn hpd habsent hnoempty _
    (splitLines_barePatchText hd) hpatch hread (createLines_of_bare hd) hvalid

theorem C15_run_create_bare_dry_filler (ho : CreateOpts o pname) (ht : TargetOf o old new name) (hdry : o.dryRun = true)
    (hs0 : CreateStart s0) (hname : name ≠ []) (hpn : pname ≠ []) (hpd : pname ≠ [45])
    (habsent : s0.fs.lookup name = none) (hnoempty : o.fileToPatch = [] → s0.fs.lookup [] = none)
    (hpatch : s0.fs.lookup pname = some (.file (barePatchText filler old new (h :: hs')) pm))
    (hread : s0.fs.isRoot = true ∨ pm / 256 % 2 = 1)
    (hd : BareDiff filler old new h hs') (hvalid : Valid [] 0 0 (h :: hs')) :
    (runPatch o s0).1 = 0 ∧ (runPatch o s0).2.fs = s0.fs ∧
    (runPatch o s0).2.trace = s0.trace ++ [.tmpCreate, .tmpUnlink, .tmpCreate, .tmpUnlink] ∧
    (runPatch o s0).2.out = s0.out ++ [.file name true] :=
  run_create_dry_of_lines ho (targetRead_of ht) hdry hs0 hname hpn hpd habsent hnoempty _
    (splitLines_barePatchText hd) hpatch hread (createLines_of_bare hd) hvalid

end

/-! ### the statement for a file in the working directory, no filler -/

/-- the hunks of a diff that creates a file -/
structure CreateHunks (h : Hunk) (hs' : List Hunk) : Prop where
  writable : ∀ x ∈ h :: hs', x.writable = true
  creates : h.old.start = 0 ∧ h.new.start ≠ 0

theorem createDiff_of_flat {name oldt newt : Bytes} {h : Hunk} {hs' : List Hunk} (hn : flatName name) (hot : stampOk oldt)
    (hnt : stampOk newt) (hh : CreateHunks h hs') : CreateDiff [] devNull name oldt newt h hs' :=
  { fillerInert := by simp, fillerPlain := by simp, oldName := plainName_devNull,
    newName := ⟨⟨hn.1, hn.2.2.1, hn.2.2.2.2⟩, hn.2.2.2.1⟩,
    oldStamp := hot, newStamp := hnt, writable := hh.writable, creates := hh.creates }

/-- **C01, end to end, a unified diff that creates a file.**  `patch -i pname` (no `-p`, or `-p0`) in a tree with nothing at
    `name` and the patch file `pname` = the text of a unified diff (`--- /dev/null TAB oldt`, `+++ name TAB newt`, hunks
    `h :: hs'` with a first range `-0,0 +n`), the hunks a valid script of the empty file: exit status 0; `name` is a regular file
    with the intended content and the mode `0666 & ~umask`; nothing else in the tree differs (no reject file, no backup, no
    directory); the trace is the temporaries, `creat name`, `write name …`; the one event is "patching file name". -/
theorem C01_run_create (o : Options) (s0 : DState) (name pname oldt newt : Bytes) (pm : Nat) (h : Hunk) (hs' : List Hunk)
    (ho : GuessOpts o pname) (hstrip : o.strip ≤ 0) (hreal : o.dryRun = false) (hs0 : CreateStart s0)
    (hn : flatName name) (hpn : pname ≠ []) (hpd : pname ≠ [45])
    (habsent : s0.fs.lookup name = none) (hnoempty : s0.fs.lookup [] = none)
    (hot : stampOk oldt) (hnt : stampOk newt)
    (hpatch : s0.fs.lookup pname = some (.file (diffText devNull name oldt newt (h :: hs')) pm))
    (hread : s0.fs.isRoot = true ∨ pm / 256 % 2 = 1)
    (hh : CreateHunks h hs') (hvalid : Valid [] 0 0 (h :: hs')) :
    (runPatch o s0).1 = 0 ∧
    (runPatch o s0).2.fs.lookup name =
      some (.file (Render.renderText o.newlineOutput (splice [] 0 (h :: hs'))) (0o666 - (0o666 &&& s0.fs.umask))) ∧
    (∀ q, q ≠ name → (runPatch o s0).2.fs.lookup q = s0.fs.lookup q) ∧
    (runPatch o s0).2.trace = s0.trace ++ createOps name (Render.renderText o.newlineOutput (splice [] 0 (h :: hs'))) ∧
    (runPatch o s0).2.out = s0.out ++ [.file name false] :=
  C01_run_create_filler (filler := []) (createOpts_of_guess ho)
    (Or.inr ⟨ho.noOperand, rfl, flat_ne_devNull hn.2.1, stripPath_flat hn.2.1 hstrip, flat_ne_devNull hn.2.1⟩)
    hreal hs0 hn.1 (dirsThere_flat s0.fs hn.2.1) (dirExists_parent_of_noSlash s0.fs hn.2.1) hpn hpd habsent (fun _ => hnoempty) hpatch hread
    (createDiff_of_flat hn hot hnt hh) hvalid

/-- the same with the file operand (`patch -i pname name`): the names in the header are not used (they must have the shape of
    names), nothing is asked of the empty name -/
theorem C01_run_create_operand (o : Options) (s0 : DState) (name pname old new oldt newt : Bytes) (pm : Nat) (h : Hunk)
    (hs' : List Hunk)
    (ho : RunOpts o name pname) (hreal : o.dryRun = false) (hs0 : CreateStart s0)
    (hn : flatName name) (hold : flatName old ∨ old = devNull) (hnew : flatName new ∨ new = devNull)
    (hpn : pname ≠ []) (hpd : pname ≠ [45])
    (habsent : s0.fs.lookup name = none)
    (hot : stampOk oldt) (hnt : stampOk newt)
    (hpatch : s0.fs.lookup pname = some (.file (diffText old new oldt newt (h :: hs')) pm))
    (hread : s0.fs.isRoot = true ∨ pm / 256 % 2 = 1)
    (hh : CreateHunks h hs') (hvalid : Valid [] 0 0 (h :: hs')) :
    (runPatch o s0).1 = 0 ∧
    (runPatch o s0).2.fs.lookup name =
      some (.file (Render.renderText o.newlineOutput (splice [] 0 (h :: hs'))) (0o666 - (0o666 &&& s0.fs.umask))) ∧
    (∀ q, q ≠ name → (runPatch o s0).2.fs.lookup q = s0.fs.lookup q) ∧
    (runPatch o s0).2.trace = s0.trace ++ createOps name (Render.renderText o.newlineOutput (splice [] 0 (h :: hs'))) ∧
    (runPatch o s0).2.out = s0.out ++ [.file name false] := by
  have hnm : ∀ n, flatName n ∨ n = devNull → Header.plainName n ∧ fieldOk n := by
    intro n hn
    rcases hn with hn | rfl
    · exact ⟨⟨hn.1, hn.2.2.1, hn.2.2.2.2⟩, hn.2.2.2.1⟩
    · exact plainName_devNull
  exact C01_run_create_filler (filler := []) (createOpts_of_run ho) (Or.inl ho.plain.operand)
    hreal hs0 hn.1 (dirsThere_flat s0.fs hn.2.1) (dirExists_parent_of_noSlash s0.fs hn.2.1) hpn hpd habsent
    (fun h0 => absurd (ho.plain.operand.symm.trans h0) hn.1) hpatch hread
    { fillerInert := by simp, fillerPlain := by simp, oldName := hnm old hold, newName := hnm new hnew,
      oldStamp := hot, newStamp := hnt, writable := hh.writable, creates := hh.creates } hvalid

/-- **C15, end to end**: the same run with --dry-run predicts success and leaves the tree alone -/
theorem C15_run_create_dry (o : Options) (s0 : DState) (name pname oldt newt : Bytes) (pm : Nat) (h : Hunk) (hs' : List Hunk)
    (ho : GuessOpts o pname) (hstrip : o.strip ≤ 0) (hdry : o.dryRun = true) (hs0 : CreateStart s0)
    (hn : flatName name) (hpn : pname ≠ []) (hpd : pname ≠ [45])
    (habsent : s0.fs.lookup name = none) (hnoempty : s0.fs.lookup [] = none)
    (hot : stampOk oldt) (hnt : stampOk newt)
    (hpatch : s0.fs.lookup pname = some (.file (diffText devNull name oldt newt (h :: hs')) pm))
    (hread : s0.fs.isRoot = true ∨ pm / 256 % 2 = 1)
    (hh : CreateHunks h hs') (hvalid : Valid [] 0 0 (h :: hs')) :
    (runPatch o s0).1 = 0 ∧ (runPatch o s0).2.fs = s0.fs ∧
    (runPatch o s0).2.trace = s0.trace ++ [.tmpCreate, .tmpUnlink, .tmpCreate, .tmpUnlink] ∧
    (runPatch o s0).2.out = s0.out ++ [.file name true] :=
  C15_run_create_dry_filler (filler := []) (createOpts_of_guess ho)
    (Or.inr ⟨ho.noOperand, rfl, flat_ne_devNull hn.2.1, stripPath_flat hn.2.1 hstrip, flat_ne_devNull hn.2.1⟩)
    hdry hs0 hn.1 hpn hpd habsent (fun _ => hnoempty) hpatch hread
    (createDiff_of_flat hn hot hnt hh) hvalid

/-- a name in the working directory that stands alone on its line -/
def bareFlatName (n : Bytes) : Prop :=
  n ≠ [] ∧ (∀ c ∈ n, c ≠ SLASHB) ∧ TAB ∉ n ∧ SP ∉ n ∧ NL ∉ n ∧ n.getLast? ≠ some CR ∧ n.head? ≠ some DQUOTE

instance (n : Bytes) : Decidable (bareFlatName n) := by unfold bareFlatName; infer_instance

theorem bareName_of_flat {n : Bytes} (h : bareFlatName n) : bareName n :=
  ⟨⟨h.1, h.2.2.1, h.2.2.2.1, h.2.2.2.2.2.2⟩, ⟨h.2.2.2.2.1, h.2.2.2.2.2.1⟩⟩

/-- **C01, end to end, a unified diff without time stamps that creates a file**: `patch -i pname` (no `-p`, or `-p0`), the patch
    file = `--- /dev/null`, `+++ name`, hunks `h :: hs'` with a first range `-0,0 +n` -/
theorem C01_run_create_bare (o : Options) (s0 : DState) (name pname : Bytes) (pm : Nat) (h : Hunk) (hs' : List Hunk)
    (ho : GuessOpts o pname) (hstrip : o.strip ≤ 0) (hreal : o.dryRun = false) (hs0 : CreateStart s0)
    (hn : bareFlatName name) (hpn : pname ≠ []) (hpd : pname ≠ [45])
    (habsent : s0.fs.lookup name = none) (hnoempty : s0.fs.lookup [] = none)
    (hpatch : s0.fs.lookup pname = some (.file (bareText devNull name (h :: hs')) pm))
    (hread : s0.fs.isRoot = true ∨ pm / 256 % 2 = 1)
    (hh : CreateHunks h hs') (hvalid : Valid [] 0 0 (h :: hs')) :
    (runPatch o s0).1 = 0 ∧
    (runPatch o s0).2.fs.lookup name =
      some (.file (Render.renderText o.newlineOutput (splice [] 0 (h :: hs'))) (0o666 - (0o666 &&& s0.fs.umask))) ∧
    (∀ q, q ≠ name → (runPatch o s0).2.fs.lookup q = s0.fs.lookup q) ∧
    (runPatch o s0).2.trace = s0.trace ++ createOps name (Render.renderText o.newlineOutput (splice [] 0 (h :: hs'))) ∧
    (runPatch o s0).2.out = s0.out ++ [.file name false] :=
  C01_run_create_bare_filler (filler := []) (createOpts_of_guess ho)
    (Or.inr ⟨ho.noOperand, rfl, flat_ne_devNull hn.2.1, stripPath_flat hn.2.1 hstrip, flat_ne_devNull hn.2.1⟩)
    hreal hs0 hn.1 (dirsThere_flat s0.fs hn.2.1) (dirExists_parent_of_noSlash s0.fs hn.2.1) hpn hpd habsent (fun _ => hnoempty) hpatch hread
    { fillerInert := by simp, fillerPlain := by simp, oldName := bareName_devNull, newName := bareName_of_flat hn,
      writable := hh.writable, creates := hh.creates } hvalid

/-- **C15 sibling** of `C01_run_create_bare` -/
theorem C15_run_create_bare_dry (o : Options) (s0 : DState) (name pname : Bytes) (pm : Nat) (h : Hunk) (hs' : List Hunk)
    (ho : GuessOpts o pname) (hstrip : o.strip ≤ 0) (hdry : o.dryRun = true) (hs0 : CreateStart s0)
    (hn : bareFlatName name) (hpn : pname ≠ []) (hpd : pname ≠ [45])
    (habsent : s0.fs.lookup name = none) (hnoempty : s0.fs.lookup [] = none)
    (hpatch : s0.fs.lookup pname = some (.file (bareText devNull name (h :: hs')) pm))
    (hread : s0.fs.isRoot = true ∨ pm / 256 % 2 = 1)
    (hh : CreateHunks h hs') (hvalid : Valid [] 0 0 (h :: hs')) :
    (runPatch o s0).1 = 0 ∧ (runPatch o s0).2.fs = s0.fs ∧
    (runPatch o s0).2.trace = s0.trace ++ [.tmpCreate, .tmpUnlink, .tmpCreate, .tmpUnlink] ∧
    (runPatch o s0).2.out = s0.out ++ [.file name true] :=
  C15_run_create_bare_dry_filler (filler := []) (createOpts_of_guess ho)
    (Or.inr ⟨ho.noOperand, rfl, flat_ne_devNull hn.2.1, stripPath_flat hn.2.1 hstrip, flat_ne_devNull hn.2.1⟩)
    hdry hs0 hn.1 hpn hpd habsent (fun _ => hnoempty) hpatch hread
    { fillerInert := by simp, fillerPlain := by simp, oldName := bareName_devNull, newName := bareName_of_flat hn,
      writable := hh.writable, creates := hh.creates } hvalid

/-! ### THE diff that creates a file with given lines -/

/-- the one hunk of the diff of nothing against the lines `new`: `@@ -0,0 +1,n @@`, every line with `+` -/
def newFileHunk (new : List Line) : Hunk := ⟨⟨0, 0⟩, ⟨1, new.length⟩, new.map fun l => ⟨PLUS, l⟩⟩

/-- lines a diff can state as the content of a new file: at least one; no line feed inside a line and no CR at its end
    (`plainLine`); only the last line may lack its newline; not more than 2^61 of them -/
structure NewFile (new : List Line) : Prop where
  nonEmpty : new ≠ []
  plain : ∀ l ∈ new, plainLine l = true
  terminated : Render.LinesTerminated new
  short : (new.length : Int) + 1 ≤ i64Max / 4

theorem oldOf_plus (new : List Line) : oldOf (new.map fun l => ⟨PLUS, l⟩) = [] := by
  induction new with
  | nil => rfl
  | cons l ls ih =>
    unfold oldOf at ih ⊢
    rw [List.map_cons, List.filter_cons_of_neg (by simp)]
    exact ih

theorem newOf_plus (new : List Line) : newOf (new.map fun l => ⟨PLUS, l⟩) = new := by
  induction new with
  | nil => rfl
  | cons l ls ih =>
    unfold newOf at ih ⊢
    rw [List.map_cons, List.filter_cons_of_pos (by simp [PLUS, MINUS]), List.map_cons, ih]

theorem noNlOnlyLast_plus : ∀ (new : List Line), Render.LinesTerminated new →
    noNlOnlyLast (new.map fun l => ⟨PLUS, l⟩) = true
  | [], _ => rfl
  | [l], _ => by
    simp only [List.map_cons, List.map_nil, noNlOnlyLast, newOf, List.filter_nil, List.map_nil, List.isEmpty_nil]
    split <;> simp [PLUS, MINUS]
  | l :: l2 :: rest, h => by
    have h' := (Render.linesTerminated_cons₂ l l2 rest).1 h
    have ih := noNlOnlyLast_plus (l2 :: rest) h'.2
    rw [List.map_cons, noNlOnlyLast, ih, if_neg h'.1]
    rfl

theorem newFileHunk_writable {new : List Line} (hn : NewFile new) : (newFileHunk new).writable = true := by
  have hne : new.isEmpty = false := by
    cases new with
    | nil => exact absurd rfl hn.nonEmpty
    | cons _ _ => rfl
  have hshort := hn.short
  unfold Hunk.writable Hunk.wfB newFileHunk
  simp only [oldOf_plus, newOf_plus, noNlOnlyLast_plus new hn.terminated, List.length_nil, List.all_map, List.isEmpty_map, hne,
    Bool.and_eq_true, List.all_eq_true, Function.comp, decide_eq_true_eq, Bool.not_false, beq_iff_eq, Bool.or_eq_true]
  refine ⟨⟨⟨⟨⟨⟨⟨⟨⟨?_, rfl⟩, trivial⟩, trivial⟩, ?_⟩, trivial⟩, by decide⟩, by decide⟩, by decide⟩, ?_⟩
  · intro l _; exact Or.inl (Or.inr trivial)
  · intro l hl; exact hn.plain l hl
  · omega

theorem newFileHunk_valid {new : List Line} (hn : NewFile new) : Valid [] 0 0 [newFileHunk new] := by
  have hlen : (new.length : Int) ≠ 0 := by
    have := List.length_pos_iff.2 hn.nonEmpty
    omega
  refine Valid.cons 0 0 _ [] 0 ⟨?_, ?_, ?_⟩ ?_ (Nat.le_refl _) ?_ ?_ ?_ ?_ (Valid.nil _ _ ?_)
  · intro pl hpl
    obtain ⟨l, _, rfl⟩ := List.mem_map.1 hpl
    exact Or.inr (Or.inl rfl)
  · show (0 : Int) = _
    rw [show (newFileHunk new).lines = new.map (fun l => ⟨PLUS, l⟩) from rfl, oldOf_plus]; rfl
  · show (new.length : Int) = _
    rw [show (newFileHunk new).lines = new.map (fun l => ⟨PLUS, l⟩) from rfl, newOf_plus]
  · rfl
  · rw [show (newFileHunk new).lines = new.map (fun l => ⟨PLUS, l⟩) from rfl, oldOf_plus]; rfl
  · rw [show (newFileHunk new).lines = new.map (fun l => ⟨PLUS, l⟩) from rfl, oldOf_plus]; exact Nat.le_refl _
  · show (if (new.length : Int) = 0 then (1 : Int) + 1 else 1) - 1 = ((0 : Nat) : Int) + 0
    rw [if_neg hlen]; rfl
  · rintro ⟨_, _, h⟩; exact h rfl
  · rw [show (newFileHunk new).lines = new.map (fun l => ⟨PLUS, l⟩) from rfl, oldOf_plus]; exact Nat.le_refl _

theorem splice_newFileHunk (new : List Line) : splice [] 0 [newFileHunk new] = new := by
  simp only [splice, show (newFileHunk new).lines = new.map (fun l => ⟨PLUS, l⟩) from rfl, newOf_plus, List.drop_nil,
    List.take_nil, List.nil_append, List.append_nil]

theorem createHunks_newFile {new : List Line} (hnew : NewFile new) : CreateHunks (newFileHunk new) [] :=
  { writable := by intro x hx; rw [List.mem_singleton.1 hx]; exact newFileHunk_writable hnew,
    creates := ⟨rfl, by show (1 : Int) ≠ 0; decide⟩ }

/-- what the theorems on `h :: hs'` say for `[newFileHunk new]`, with "no other path differs" spelled out for the reject file
    and the backup file -/
theorem newfile_of_create {o : Options} {s0 : DState} {name : Bytes} {new : List Line} (hnew : NewFile new)
    (h : (runPatch o s0).1 = 0 ∧
      (runPatch o s0).2.fs.lookup name =
        some (.file (Render.renderText o.newlineOutput (splice [] 0 [newFileHunk new])) (0o666 - (0o666 &&& s0.fs.umask))) ∧
      (∀ q, q ≠ name → (runPatch o s0).2.fs.lookup q = s0.fs.lookup q) ∧
      (runPatch o s0).2.trace =
        s0.trace ++ createOps name (Render.renderText o.newlineOutput (splice [] 0 [newFileHunk new])) ∧
      (runPatch o s0).2.out = s0.out ++ [.file name false]) :
    (runPatch o s0).1 = 0 ∧
    (runPatch o s0).2.fs.lookup name = some (.file (renderLines o.newlineOutput new) (0o666 - (0o666 &&& s0.fs.umask))) ∧
    (∀ q, q ≠ name → (runPatch o s0).2.fs.lookup q = s0.fs.lookup q) ∧
    (s0.fs.lookup (name ++ str ".rej") = none → (runPatch o s0).2.fs.lookup (name ++ str ".rej") = none) ∧
    (s0.fs.lookup (name ++ str ".orig") = none → (runPatch o s0).2.fs.lookup (name ++ str ".orig") = none) ∧
    (runPatch o s0).2.trace = s0.trace ++ createOps name (renderLines o.newlineOutput new) ∧
    (runPatch o s0).2.out = s0.out ++ [.file name false] := by
  rw [splice_newFileHunk, Render.renderText_eq_renderLines _ _ hnew.terminated] at h
  obtain ⟨h1, h2, h3, h4, h5⟩ := h
  have hsuffix : ∀ sfx : Bytes, sfx ≠ [] → name ++ sfx ≠ name := by
    intro sfx hs e
    have := congrArg List.length e
    rw [List.length_append] at this
    have : sfx.length = 0 := by omega
    exact hs (List.length_eq_zero_iff.1 this)
  have hrej : str ".rej" ≠ [] := by rw [RunB.str_rej]; simp
  have horig : str ".orig" ≠ [] := by
    have : str ".orig" = [46, 111, 114, 105, 103] := by
      unfold str String.toUTF8; rw [Cpp.byteArray_toList_eq_data]; rfl
    rw [this]; simp
  refine ⟨h1, h2, h3, ?_, ?_, h4, h5⟩
  · intro h0; rw [h3 _ (hsuffix _ hrej)]; exact h0
  · intro h0; rw [h3 _ (hsuffix _ horig)]; exact h0

/-- the bytes of the diff that creates `name` with the lines `new`, name lines with time stamps -/
def newFileText (name oldt newt : Bytes) (new : List Line) : Bytes := diffText devNull name oldt newt [newFileHunk new]

/-- … and without: `--- /dev/null`, `+++ name`, `@@ -0,0 +1,n @@`, the lines with `+` -/
def newFileBareText (name : Bytes) (new : List Line) : Bytes := bareText devNull name [newFileHunk new]

/-- **C01, end to end: a new file.**  `patch -i pname` (no `-p`, or `-p0`) in a tree with nothing at `name` and the patch file
    `pname` =

        --- /dev/null TAB oldt
        +++ name TAB newt
        @@ -0,0 +1,n @@              (`+1` for n = 1)
        +line 1 … +line n            (a last line without newline is followed by the `\ No newline at end of file` line)

    ends with exit status 0; `name` is a regular file which holds exactly the lines `new` (as `--newline-output` renders them), with
    the mode `0666 & ~umask`; no other path of the tree differs — in particular no `name.rej` and no `name.orig` come into being;
    the tree was touched by `creat name` and `write name …` only; and the one event is "patching file name". -/
theorem C01_run_newfile (o : Options) (s0 : DState) (name pname oldt newt : Bytes) (pm : Nat) (new : List Line)
    (ho : GuessOpts o pname) (hstrip : o.strip ≤ 0) (hreal : o.dryRun = false) (hs0 : CreateStart s0)
    (hn : flatName name) (hpn : pname ≠ []) (hpd : pname ≠ [45])
    (habsent : s0.fs.lookup name = none) (hnoempty : s0.fs.lookup [] = none)
    (hot : stampOk oldt) (hnt : stampOk newt)
    (hpatch : s0.fs.lookup pname = some (.file (newFileText name oldt newt new) pm))
    (hread : s0.fs.isRoot = true ∨ pm / 256 % 2 = 1) (hnew : NewFile new) :
    (runPatch o s0).1 = 0 ∧
    (runPatch o s0).2.fs.lookup name = some (.file (renderLines o.newlineOutput new) (0o666 - (0o666 &&& s0.fs.umask))) ∧
    (∀ q, q ≠ name → (runPatch o s0).2.fs.lookup q = s0.fs.lookup q) ∧
    (s0.fs.lookup (name ++ str ".rej") = none → (runPatch o s0).2.fs.lookup (name ++ str ".rej") = none) ∧
    (s0.fs.lookup (name ++ str ".orig") = none → (runPatch o s0).2.fs.lookup (name ++ str ".orig") = none) ∧
    (runPatch o s0).2.trace = s0.trace ++ createOps name (renderLines o.newlineOutput new) ∧
    (runPatch o s0).2.out = s0.out ++ [.file name false] :=
  newfile_of_create hnew (C01_run_create o s0 name pname oldt newt pm (newFileHunk new) [] ho hstrip hreal hs0 hn hpn hpd habsent
    hnoempty hot hnt hpatch hread (createHunks_newFile hnew) (newFileHunk_valid hnew))

/-- **C01, end to end: a new file, name lines without time stamps.**  The same for the patch file

        --- /dev/null
        +++ name
        @@ -0,0 +1,n @@
        +line 1 … +line n

    (the header as `write_patch_header_as_unified` writes it, the hunk as `write_hunk_as_unified` writes it); `name` must not
    contain a blank (`bareFlatName`: a name without TAB after it is cut at the first blank). -/
theorem C01_run_newfile_bare (o : Options) (s0 : DState) (name pname : Bytes) (pm : Nat) (new : List Line)
    (ho : GuessOpts o pname) (hstrip : o.strip ≤ 0) (hreal : o.dryRun = false) (hs0 : CreateStart s0)
    (hn : bareFlatName name) (hpn : pname ≠ []) (hpd : pname ≠ [45])
    (habsent : s0.fs.lookup name = none) (hnoempty : s0.fs.lookup [] = none)
    (hpatch : s0.fs.lookup pname = some (.file (newFileBareText name new) pm))
    (hread : s0.fs.isRoot = true ∨ pm / 256 % 2 = 1) (hnew : NewFile new) :
    (runPatch o s0).1 = 0 ∧
    (runPatch o s0).2.fs.lookup name = some (.file (renderLines o.newlineOutput new) (0o666 - (0o666 &&& s0.fs.umask))) ∧
    (∀ q, q ≠ name → (runPatch o s0).2.fs.lookup q = s0.fs.lookup q) ∧
    (s0.fs.lookup (name ++ str ".rej") = none → (runPatch o s0).2.fs.lookup (name ++ str ".rej") = none) ∧
    (s0.fs.lookup (name ++ str ".orig") = none → (runPatch o s0).2.fs.lookup (name ++ str ".orig") = none) ∧
    (runPatch o s0).2.trace = s0.trace ++ createOps name (renderLines o.newlineOutput new) ∧
    (runPatch o s0).2.out = s0.out ++ [.file name false] :=
  newfile_of_create hnew (C01_run_create_bare o s0 name pname pm (newFileHunk new) [] ho hstrip hreal hs0 hn hpn hpd habsent
    hnoempty hpatch hread (createHunks_newFile hnew) (newFileHunk_valid hnew))

/-- **C15 sibling**: `patch --dry-run -i pname` on the same patch file: exit status 0, the tree untouched, "checking file name" -/
theorem C15_run_newfile_bare_dry (o : Options) (s0 : DState) (name pname : Bytes) (pm : Nat) (new : List Line)
    (ho : GuessOpts o pname) (hstrip : o.strip ≤ 0) (hdry : o.dryRun = true) (hs0 : CreateStart s0)
    (hn : bareFlatName name) (hpn : pname ≠ []) (hpd : pname ≠ [45])
    (habsent : s0.fs.lookup name = none) (hnoempty : s0.fs.lookup [] = none)
    (hpatch : s0.fs.lookup pname = some (.file (newFileBareText name new) pm))
    (hread : s0.fs.isRoot = true ∨ pm / 256 % 2 = 1) (hnew : NewFile new) :
    (runPatch o s0).1 = 0 ∧ (runPatch o s0).2.fs = s0.fs ∧
    (runPatch o s0).2.trace = s0.trace ++ [.tmpCreate, .tmpUnlink, .tmpCreate, .tmpUnlink] ∧
    (runPatch o s0).2.out = s0.out ++ [.file name true] :=
  C15_run_create_bare_dry o s0 name pname pm (newFileHunk new) [] ho hstrip hdry hs0 hn hpn hpd habsent hnoempty hpatch hread
    (createHunks_newFile hnew) (newFileHunk_valid hnew)

/-- **C01, end to end: a new file in a new directory.**  `patch -p0 -i pname` in a tree with nothing at `d` (a name in the
    working directory) and nothing at `d/b`, the patch file = `--- /dev/null`, `+++ d/b`, `@@ -0,0 +1,n @@`, the lines with `+`:
    exit status 0; the directory `d` is made with the mode `0777 & ~umask`; `d/b` is a regular file which holds exactly the lines
    `new`, mode `0666 & ~umask`; no other path of the tree differs; the tree was touched by `mkdir d`, `creat d/b`,
    `write d/b …`, in this order; the one event is "patching file d/b". -/
theorem C01_run_newfile_in_dir (o : Options) (s0 : DState) (d b pname : Bytes) (pm : Nat) (new : List Line)
    (ho : GuessOpts o pname) (hstrip : o.strip = 0) (hreal : o.dryRun = false) (hs0 : CreateStart s0)
    (hdn : bareFlatName d) (hbn : bareFlatName b) (hpn : pname ≠ []) (hpd : pname ≠ [45])
    (hnone : s0.fs.lookup d = none) (habsent : s0.fs.lookup (d ++ SLASHB :: b) = none) (hnoempty : s0.fs.lookup [] = none)
    (hpatch : s0.fs.lookup pname = some (.file (newFileBareText (d ++ SLASHB :: b) new) pm))
    (hread : s0.fs.isRoot = true ∨ pm / 256 % 2 = 1) (hnew : NewFile new) :
    (runPatch o s0).1 = 0 ∧
    (runPatch o s0).2.fs.lookup (d ++ SLASHB :: b) =
      some (.file (renderLines o.newlineOutput new) (0o666 - (0o666 &&& s0.fs.umask))) ∧
    (runPatch o s0).2.fs.lookup d = some (.dir (0o777 - (0o777 &&& s0.fs.umask))) ∧
    (∀ q, q ≠ d ++ SLASHB :: b → q ≠ d → (runPatch o s0).2.fs.lookup q = s0.fs.lookup q) ∧
    (runPatch o s0).2.trace = s0.trace ++ [.tmpCreate, .tmpUnlink, .tmpCreate, .tmpUnlink] ++ [.mkdir d] ++
      writeOps (d ++ SLASHB :: b) (renderLines o.newlineOutput new) ∧
    (runPatch o s0).2.out = s0.out ++ [.file (d ++ SLASHB :: b) false] := by
  have hne : d ++ SLASHB :: b ≠ [] := by simp
  have hnn : d ++ SLASHB :: b ≠ devNull := by
    intro e
    have h1 := parentOf_in_dir d hbn.2.1
    rw [e, Names.devNull_eq] at h1
    have h2 : parentOf [47, 100, 101, 118, 47, 110, 117, 108, 108] = [47, 100, 101, 118] := by decide
    rw [h2] at h1
    exact hdn.2.1 47 (by rw [← h1]; decide) rfl
  have hbare : bareName (d ++ SLASHB :: b) := by
    obtain ⟨⟨d1, d2, d3, d4⟩, d5, d6⟩ := bareName_of_flat hdn
    obtain ⟨⟨b1, b2, b3, b4⟩, b5, b6⟩ := bareName_of_flat hbn
    refine ⟨⟨hne, ?_, ?_, ?_⟩, ?_, ?_⟩
    · simp only [List.mem_append, List.mem_cons, not_or]; exact ⟨d2, by decide, b2⟩
    · simp only [List.mem_append, List.mem_cons, not_or]; exact ⟨d3, by decide, b3⟩
    · cases d with
      | nil => exact absurd rfl d1
      | cons c r => simpa using d4
    · simp only [List.mem_append, List.mem_cons, not_or]; exact ⟨d5, by decide, b5⟩
    · refine RunG.getLast?_append_ne d6 ?_
      cases b with
      | nil => exact absurd rfl b1
      | cons c r => rw [List.getLast?_cons_cons]; exact b6
  have hst : stripPath (d ++ SLASHB :: b) o.strip = d ++ SLASHB :: b := by
    rw [hstrip, show (0 : Int) = ((0 : Nat) : Int) from rfl, C12.strip_spec, stripSpec]
  have h := C01_run_create_bare_mkdir_filler (filler := []) (createOpts_of_guess ho)
    (Or.inr ⟨ho.noOperand, rfl, hnn, hst, hnn⟩) hreal hs0 hne
    (dirPrefixes_in_dir hdn.1 hdn.2.1 hbn.2.1) (parentOf_in_dir d hbn.2.1) hnone (dirExists_parent_of_noSlash s0.fs hdn.2.1)
    hpn hpd habsent (fun _ => hnoempty) hpatch hread
    { fillerInert := by simp, fillerPlain := by simp, oldName := bareName_devNull, newName := hbare,
      writable := (createHunks_newFile hnew).writable, creates := (createHunks_newFile hnew).creates }
    (newFileHunk_valid hnew)
  rw [splice_newFileHunk, Render.renderText_eq_renderLines _ _ hnew.terminated] at h
  exact h

/-! ### non-vacuity: a concrete run

The tree holds only the patch file `p.diff` (mode 0644) = the diff that creates `n` with the one line `hello`; options
`-i p.diff`, everything else as `main` sets it (`defaultOptions`), umask 022.  Every hypothesis of `C01_run_newfile` is discharged
by evaluation in the kernel (`decide` / `rfl`), the theorem is applied, and — independently — the executable model is run on the
same state (`#guard`, compiled evaluation: an executable test, not a proof). -/
namespace NewInstance

def name : Bytes := [110]                                  -- "n"
def pname : Bytes := [112, 46, 100, 105, 102, 102]         -- "p.diff"
def oldt : Bytes := [50, 48, 50, 48]                       -- "2020"
def newt : Bytes := [50, 48, 50, 49]                       -- "2021"
def new : List Line := [⟨[104, 101, 108, 108, 111], .lf⟩]  -- "hello\n"
def s0 : DState := { fs := { nodes := [(pname, .file (newFileText name oldt newt new) 0o644)] } }
def o : Options := { defaultOptions with patchFile := pname }

-- the spelled-out bytes are the intended texts
#guard name == str "n" && pname == str "p.diff" && new == splitLines (str "hello\n")
#guard newFileText name oldt newt new == str "--- /dev/null\t2020\n+++ n\t2021\n@@ -0,0 +1 @@\n+hello\n"
#guard newFileHunk new == ⟨⟨0, 0⟩, ⟨1, 1⟩, [⟨PLUS, ⟨str "hello", .lf⟩⟩]⟩

theorem guessOpts : GuessOpts o pname :=
  { noOperand := rfl, noOut := rfl, noBackup := rfl, noReverse := rfl, noDefine := rfl, fuzz := by decide, quiet := rfl,
    file := { patchFile := rfl, noDir := rfl, noHelp := rfl, noVersion := rfl, noContext := rfl, noNormal := rfl, noEd := rfl } }

theorem newFile : NewFile new :=
  { nonEmpty := by decide, plain := by decide, terminated := Render.linesTerminated_singleton _, short := by decide }

/-- the theorem applies: all its hypotheses hold of the instance; what it promises is the file "hello\n", mode 0644 -/
theorem applies :
    (runPatch o s0).1 = 0 ∧
    (runPatch o s0).2.fs.lookup name = some (.file [104, 101, 108, 108, 111, 10] 0o644) ∧
    (∀ q, q ≠ name → (runPatch o s0).2.fs.lookup q = s0.fs.lookup q) ∧
    (runPatch o s0).2.fs.lookup (name ++ str ".rej") = none ∧
    (runPatch o s0).2.fs.lookup (name ++ str ".orig") = none ∧
    (runPatch o s0).2.trace = [.tmpCreate, .tmpUnlink, .tmpCreate, .tmpUnlink, .creat name,
                               .write name [104, 101, 108, 108, 111, 10]] ∧
    (runPatch o s0).2.out = [.file name false] := by
  have h := C01_run_newfile o s0 name pname oldt newt 0o644 new guessOpts (by decide) rfl ⟨rfl, rfl, rfl, rfl, rfl⟩
    (by decide) (by decide) (by decide) rfl rfl (by decide) (by decide) rfl (Or.inl rfl) newFile
  have hm : renderLines o.newlineOutput new = [104, 101, 108, 108, 111, 10] := by decide
  have hmode : 0o666 - (0o666 &&& s0.fs.umask) = 0o644 := by decide
  rw [hm, hmode] at h
  obtain ⟨h1, h2, h3, h4, h5, h6, h7⟩ := h
  have hrej : s0.fs.lookup (name ++ str ".rej") = none := by
    rw [RunB.str_rej]; rfl
  have horig : s0.fs.lookup (name ++ str ".orig") = none := by
    have : str ".orig" = [46, 111, 114, 105, 103] := by
      unfold str String.toUTF8; rw [Cpp.byteArray_toList_eq_data]; rfl
    rw [this]; rfl
  exact ⟨h1, h2, h3, h4 hrej, h5 horig, h6, h7⟩

/-- the --dry-run sibling applies as well -/
theorem applies_dry : (runPatch { o with dryRun := true } s0).1 = 0 ∧ (runPatch { o with dryRun := true } s0).2.fs = s0.fs ∧
    (runPatch { o with dryRun := true } s0).2.out = [.file name true] := by
  have h := C15_run_create_dry { o with dryRun := true } s0 name pname oldt newt 0o644 (newFileHunk new) []
    { noOperand := rfl, noOut := rfl, noBackup := rfl, noReverse := rfl, noDefine := rfl, fuzz := by decide, quiet := rfl,
      file := { patchFile := rfl, noDir := rfl, noHelp := rfl, noVersion := rfl, noContext := rfl, noNormal := rfl, noEd := rfl } }
    (by decide) rfl ⟨rfl, rfl, rfl, rfl, rfl⟩ (by decide) (by decide) (by decide) rfl rfl (by decide) (by decide) rfl (Or.inl rfl)
    { writable := by decide, creates := by decide } (validB_sound _ _ _ _ (by decide))
  exact ⟨h.1, h.2.1, h.2.2.2⟩

-- independently: the executable model on the same state (executable tests)
#guard (runPatch o s0).1 == 0
#guard (runPatch o s0).2.fs.lookup name == some (.file (str "hello\n") 0o644)
#guard (runPatch o s0).2.fs.lookup pname == s0.fs.lookup pname
#guard (runPatch o s0).2.fs.nodes.length == 2                                    -- the patch file and the new file, nothing else
#guard (runPatch o s0).2.fs.lookup (str "n.rej") == none && (runPatch o s0).2.fs.lookup (str "n.orig") == none
#guard (runPatch o s0).2.par.s.eof && (runPatch o s0).2.par.s.rest.isEmpty      -- the loop stopped on the end-of-file flag
#guard (runPatch o s0).2.trace == [.tmpCreate, .tmpUnlink, .tmpCreate, .tmpUnlink, .creat name, .write name (str "hello\n")]
#guard (runPatch o s0).2.out == [.file name false]
#guard (runPatch { o with dryRun := true } s0).1 == 0 && (runPatch { o with dryRun := true } s0).2.fs.lookup name == none
-- with the operand: `patch -i p.diff n`
#guard (runPatch { o with fileToPatch := name } s0).1 == 0 &&
  (runPatch { o with fileToPatch := name } s0).2.fs.lookup name == some (.file (str "hello\n") 0o644)
-- another umask: 077 gives mode 0600
#guard (runPatch o { s0 with fs := { s0.fs with umask := 0o077 } }).2.fs.lookup name == some (.file (str "hello\n") 0o600)

/-! #### the same with name lines without time stamps: the text of the task, `--- /dev/null`, `+++ n`, `@@ -0,0 +1 @@`, `+hello` -/

def sB : DState := { fs := { nodes := [(pname, .file (newFileBareText name new) 0o644)] } }

#guard newFileBareText name new == str "--- /dev/null\n+++ n\n@@ -0,0 +1 @@\n+hello\n"
-- the header is the one the program's own writer makes of the two names
#guard newFileBareText name new ==
  writeHeaderUnified { oldPath := devNull, newPath := name } ++ writeHunkUnified (newFileHunk new)

/-- `C01_run_newfile_bare` applies: all its hypotheses hold of the instance (discharged in the kernel) -/
theorem applies_bare :
    (runPatch o sB).1 = 0 ∧
    (runPatch o sB).2.fs.lookup name = some (.file [104, 101, 108, 108, 111, 10] 0o644) ∧
    (∀ q, q ≠ name → (runPatch o sB).2.fs.lookup q = sB.fs.lookup q) ∧
    (runPatch o sB).2.fs.lookup (name ++ str ".rej") = none ∧
    (runPatch o sB).2.fs.lookup (name ++ str ".orig") = none ∧
    (runPatch o sB).2.trace = [.tmpCreate, .tmpUnlink, .tmpCreate, .tmpUnlink, .creat name,
                               .write name [104, 101, 108, 108, 111, 10]] ∧
    (runPatch o sB).2.out = [.file name false] := by
  have h := C01_run_newfile_bare o sB name pname 0o644 new guessOpts (by decide) rfl ⟨rfl, rfl, rfl, rfl, rfl⟩
    (by decide) (by decide) (by decide) rfl rfl rfl (Or.inl rfl) newFile
  have hm : renderLines o.newlineOutput new = [104, 101, 108, 108, 111, 10] := by decide
  have hmode : 0o666 - (0o666 &&& sB.fs.umask) = 0o644 := by decide
  rw [hm, hmode] at h
  obtain ⟨h1, h2, h3, h4, h5, h6, h7⟩ := h
  have hrej : sB.fs.lookup (name ++ str ".rej") = none := by
    rw [RunB.str_rej]; rfl
  have horig : sB.fs.lookup (name ++ str ".orig") = none := by
    have : str ".orig" = [46, 111, 114, 105, 103] := by
      unfold str String.toUTF8; rw [Cpp.byteArray_toList_eq_data]; rfl
    rw [this]; rfl
  exact ⟨h1, h2, h3, h4 hrej, h5 horig, h6, h7⟩

/-- a user who is not root, the patch file readable by its owner (0400): the theorem applies all the same -/
def sU : DState := { fs := { nodes := [(pname, .file (newFileBareText name new) 0o400)], isRoot := false } }
theorem applies_bare_user :
    (runPatch o sU).1 = 0 ∧ (runPatch o sU).2.fs.lookup name = some (.file [104, 101, 108, 108, 111, 10] 0o644) := by
  have h := C01_run_newfile_bare o sU name pname 0o400 new guessOpts (by decide) rfl ⟨rfl, rfl, rfl, rfl, rfl⟩
    (by decide) (by decide) (by decide) rfl rfl rfl (Or.inr (by decide)) newFile
  have hm : renderLines o.newlineOutput new = [104, 101, 108, 108, 111, 10] := by decide
  have hmode : 0o666 - (0o666 &&& sU.fs.umask) = 0o644 := by decide
  rw [hm, hmode] at h
  exact ⟨h.1, h.2.1⟩

theorem applies_bare_dry : (runPatch { o with dryRun := true } sB).1 = 0 ∧ (runPatch { o with dryRun := true } sB).2.fs = sB.fs ∧
    (runPatch { o with dryRun := true } sB).2.out = [.file name true] := by
  have h := C15_run_newfile_bare_dry { o with dryRun := true } sB name pname 0o644 new
    { noOperand := rfl, noOut := rfl, noBackup := rfl, noReverse := rfl, noDefine := rfl, fuzz := by decide, quiet := rfl,
      file := { patchFile := rfl, noDir := rfl, noHelp := rfl, noVersion := rfl, noContext := rfl, noNormal := rfl, noEd := rfl } }
    (by decide) rfl ⟨rfl, rfl, rfl, rfl, rfl⟩ (by decide) (by decide) (by decide) rfl rfl rfl (Or.inl rfl) newFile
  exact ⟨h.1, h.2.1, h.2.2.2⟩

#guard (runPatch o sB).1 == 0
#guard (runPatch o sB).2.fs.lookup name == some (.file (str "hello\n") 0o644)
#guard (runPatch o sB).2.fs.nodes.length == 2
#guard (runPatch o sB).2.fs.lookup (str "n.rej") == none && (runPatch o sB).2.fs.lookup (str "n.orig") == none
#guard (runPatch o sB).2.trace == [.tmpCreate, .tmpUnlink, .tmpCreate, .tmpUnlink, .creat name, .write name (str "hello\n")]
#guard (runPatch o sB).2.out == [.file name false]
#guard (runPatch o sU).1 == 0 && (runPatch o sU).2.fs.lookup name == some (.file (str "hello\n") 0o644)
#guard (runPatch { o with dryRun := true } sB).1 == 0 && (runPatch { o with dryRun := true } sB).2.fs.lookup name == none

/-! #### a new file in a new directory: `patch -p0 -i p.diff`, the diff creates `d/n` -/

def dir : Bytes := [100]                                   -- "d"
def sD : DState := { fs := { nodes := [(pname, .file (newFileBareText (dir ++ SLASHB :: name) new) 0o644)] } }
def o0 : Options := { defaultOptions with patchFile := pname, strip := 0 }

#guard dir ++ SLASHB :: name == str "d/n"
#guard newFileBareText (dir ++ SLASHB :: name) new == str "--- /dev/null\n+++ d/n\n@@ -0,0 +1 @@\n+hello\n"

/-- `C01_run_newfile_in_dir` applies: the directory is made (0755), then the file (0644) -/
theorem applies_in_dir :
    (runPatch o0 sD).1 = 0 ∧
    (runPatch o0 sD).2.fs.lookup [100, 47, 110] = some (.file [104, 101, 108, 108, 111, 10] 0o644) ∧
    (runPatch o0 sD).2.fs.lookup [100] = some (.dir 0o755) ∧
    (∀ q, q ≠ [100, 47, 110] → q ≠ [100] → (runPatch o0 sD).2.fs.lookup q = sD.fs.lookup q) ∧
    (runPatch o0 sD).2.trace = [.tmpCreate, .tmpUnlink, .tmpCreate, .tmpUnlink, .mkdir [100], .creat [100, 47, 110],
                                .write [100, 47, 110] [104, 101, 108, 108, 111, 10]] ∧
    (runPatch o0 sD).2.out = [.file [100, 47, 110] false] := by
  have h := C01_run_newfile_in_dir o0 sD dir name pname 0o644 new
    { noOperand := rfl, noOut := rfl, noBackup := rfl, noReverse := rfl, noDefine := rfl, fuzz := by decide, quiet := rfl,
      file := { patchFile := rfl, noDir := rfl, noHelp := rfl, noVersion := rfl, noContext := rfl, noNormal := rfl, noEd := rfl } }
    rfl rfl ⟨rfl, rfl, rfl, rfl, rfl⟩ (by decide) (by decide) (by decide) (by decide) rfl rfl rfl rfl (Or.inl rfl) newFile
  have hm : renderLines o0.newlineOutput new = [104, 101, 108, 108, 111, 10] := by decide
  have hmode : 0o666 - (0o666 &&& sD.fs.umask) = 0o644 := by decide
  have hdmode : 0o777 - (0o777 &&& sD.fs.umask) = 0o755 := by decide
  rw [hm, hmode, hdmode] at h
  exact h

#guard (runPatch o0 sD).1 == 0
#guard (runPatch o0 sD).2.fs.lookup (str "d/n") == some (.file (str "hello\n") 0o644)
#guard (runPatch o0 sD).2.fs.lookup (str "d") == some (.dir 0o755)
#guard (runPatch o0 sD).2.fs.nodes.length == 3
#guard (runPatch o0 sD).2.trace == [.tmpCreate, .tmpUnlink, .tmpCreate, .tmpUnlink, .mkdir (str "d"), .creat (str "d/n"),
                                    .write (str "d/n") (str "hello\n")]
#guard (runPatch o0 sD).2.out == [.file (str "d/n") false]
-- without `-p0` the base name is taken: `n` is created in the working directory, no directory is made
#guard (runPatch o sD).1 == 0 && (runPatch o sD).2.fs.lookup name == some (.file (str "hello\n") 0o644) &&
  (runPatch o sD).2.fs.lookup (str "d") == none

end NewInstance

/-! ### the scope conditions, evaluated (executable tests) -/
namespace NewScope
open NewInstance

-- a node with the EMPTY name (no real tree has one) is what `guess_filepath` finds through the empty index name: hence `hnoempty`
def sE : DState := { fs := { nodes := [([], .file [] 0o644), (pname, .file (newFileText name oldt newt new) 0o644)] } }
#guard (runPatch o sE).1 != 0 || (runPatch o sE).2.fs.lookup name != some (.file (str "hello\n") 0o644)

-- the file is there already (`habsent` fails): the diff is applied to its content — to an empty file: filled, mode kept
def sThere : DState :=
  { fs := { nodes := [(name, .file [] 0o600), (pname, .file (newFileText name oldt newt new) 0o644)] } }
#guard (runPatch o sThere).1 == 0 && (runPatch o sThere).2.fs.lookup name == some (.file (str "hello\n") 0o600)

-- a last line without newline: the marker line follows it in the text, the file ends without newline
def newNo : List Line := [⟨str "a", .lf⟩, ⟨str "b", .none⟩]
#guard newFileText name oldt newt newNo ==
  str "--- /dev/null\t2020\n+++ n\t2021\n@@ -0,0 +1,2 @@\n+a\n+b\n\\ No newline at end of file\n"
def sNo : DState := { fs := { nodes := [(pname, .file (newFileText name oldt newt newNo) 0o644)] } }
#guard (runPatch o sNo).1 == 0 && (runPatch o sNo).2.fs.lookup name == some (.file (str "a\nb") 0o644)

-- a name in a directory which is not there, name lines with time stamps (`C01_run_create_mkdir_filler`): made, with `-p0`
def deep : Bytes := str "d/n"
def sDeep : DState := { fs := { nodes := [(pname, .file (newFileText deep oldt newt new) 0o644)] } }
#guard (runPatch { o with strip := 0 } sDeep).1 == 0 &&
  (runPatch { o with strip := 0 } sDeep).2.fs.lookup deep == some (.file (str "hello\n") 0o644) &&
  (runPatch { o with strip := 0 } sDeep).2.fs.lookup (str "d") == some (.dir 0o755)

-- bare name lines: a name with a blank is cut at the blank (`bareFlatName` asks for none): "my" is created, not "my n"
def sBlank : DState := { fs := { nodes := [(pname, .file (newFileBareText (str "my n") new) 0o644)] } }
#guard (runPatch o sBlank).2.fs.lookup (str "my n") == none && (runPatch o sBlank).2.fs.lookup (str "my") != none
-- with TAB and time stamp after it the name keeps its blank (`flatName` allows blanks)
def sBlankT : DState := { fs := { nodes := [(pname, .file (newFileText (str "my n") oldt newt new) 0o644)] } }
#guard (runPatch o sBlankT).1 == 0 && (runPatch o sBlankT).2.fs.lookup (str "my n") == some (.file (str "hello\n") 0o644)

end NewScope

end PatchModel.C01Create

#print axioms PatchModel.C01Create.C01_run_create_filler
#print axioms PatchModel.C01Create.C15_run_create_dry_filler
#print axioms PatchModel.C01Create.C01_run_create
#print axioms PatchModel.C01Create.C01_run_create_operand
#print axioms PatchModel.C01Create.C15_run_create_dry
#print axioms PatchModel.C01Create.run_create_of_lines
#print axioms PatchModel.C01Create.run_create_dry_of_lines
#print axioms PatchModel.C01Create.run_create_mkdir_of_lines
#print axioms PatchModel.C01Create.C01_run_create_mkdir_filler
#print axioms PatchModel.C01Create.C01_run_create_bare_mkdir_filler
#print axioms PatchModel.C01Create.C01_run_create_bare_filler
#print axioms PatchModel.C01Create.C15_run_create_bare_dry_filler
#print axioms PatchModel.C01Create.C01_run_create_bare
#print axioms PatchModel.C01Create.C15_run_create_bare_dry
#print axioms PatchModel.C01Create.C01_run_newfile
#print axioms PatchModel.C01Create.C01_run_newfile_bare
#print axioms PatchModel.C01Create.C15_run_newfile_bare_dry
#print axioms PatchModel.C01Create.C01_run_newfile_in_dir
#print axioms PatchModel.C01Create.NewInstance.applies_bare
#print axioms PatchModel.C01Create.NewInstance.applies_bare_user
#print axioms PatchModel.C01Create.NewInstance.applies_bare_dry
#print axioms PatchModel.C01Create.NewInstance.applies_in_dir
#print axioms PatchModel.C01Create.NewInstance.applies
#print axioms PatchModel.C01Create.NewInstance.applies_dry
