/-
  C01 end to end — the whole modelled program (`runPatch` = `main` after option parsing) on the TEXT of a unified diff:

      patch [-u] [-pN] [-F n] [--newline-output=…] -i pname name

  where the tree holds the target `name` (content `bytes`, mode `m`, writable) and the patch file `pname`, whose content is
  (inert filler lines,) `--- old TAB oldt`, `+++ new TAB newt` and the hunks `hs` as `write_hunk_as_unified` writes them, `hs` a
  `Valid` script of `splitLines bytes`.  Then the exit status is 0, `name` holds `splice (splitLines bytes) 0 hs` rendered, with
  its mode, and no other path of the tree differs (`C01_run`, `C01_run_filler`); with --dry-run the exit status is 0 and the
  tree is untouched (`C15_run_dry`, `C15_run_dry_filler`).  The same without the file operand (`patch [-pN] -i pname`), the
  target being the file the `---` line names after stripping: `C01_run_guess`, `C01_run_guess_filler`,
  `C15_run_guess_dry_filler`.

  Composition of: `Header.parseHeader_unified` (C11Header), `Unified.unified_roundtrip` re-proved with the stream flags at the end
  of the input (`Run.unified_roundtrip_eof`), `C01.applyPatch_valid`, `Section.processSection_clean(_dry)`, and the closed forms of
  `sectionLoop` / `processPatchM` / `finalizeDeferred` in Lemmas/Run.lean.

  How the loop stops: every emitted line has a terminator (LF or CR LF; a hunk line without one is followed by the marker line,
  which has), so reading the last hunk line leaves the stream flags clear; the body
  parser then tries to read one more line (is another range line coming?), that read fails and SETS the end-of-file flag; the
  `while (!parser.is_eof())` loop of `process_patch` is left at its next test — there is no second header scan.

  Side conditions that had to be added, and why (details and kernel- or evaluator-checked counterexamples at the end of the file):
  * (GONE: `firstLineOk hs`.  It was REQUIRED up to the C++ fix "do not take a line of the first hunk for a file header": when the
    first body line of the first hunk reads `--- …` (the first changed line of the file is removed and starts with "-- ": SQL / Lua /
    Haskell comments, mail signature separators) or `+++ …`, the header scan took that line for a file name line and THE FIRST HUNK
    WAS DROPPED SILENTLY, exit status 0.  The theorems now cover those diffs; namespace `FirstLineLooksLikeHeader` below applies
    `C01_run` to the former counterexamples.)
  * `changeStart hs` — scope, not a defect: a first range `-0,0` / `+0,0` makes the header scan infer "add" / "delete", which
    take other branches of `process_patch` than the "change" path proved here.
  * (GONE: "no CRLF hunk lines" — `DiffHunks.noCrlf` / `UnifiedDiff.noCrlf`.  `write_hunk_as_unified` used to write every line
    with LF, so a CRLF line did not survive the text (`Hunk.normNl`) while `Valid` compares terminators exactly.  The writer now
    keeps CR LF and the round trip is exact (`Unified.unified_roundtrip`: `hs`, not `hs.map Hunk.normNl`): the theorems cover
    scripts for CRLF files; `Scope.crlf` below, formerly the counterexample, is now an instance of `C01_run`.)
  * header fields without line feed, time stamps not empty and not ending in CR, names `plainName` — the text really has the two
    header lines (`Header.parseHeader_unified` needs the TAB + non-empty time stamp shape).  The names in the header need NOT be
    the name of the target: with the operand given they are not used.  Without operand: `stripPath old o.strip = name` and
    neither is /dev/null (for a name without slash: no `-p`, or `-p0`).
  * `pname ≠ "-"` (that spelling means standard input), root (`isRoot`: the tree's permission bits for reading the patch file /
    re-creating the target are not looked at), directory of the target present in the tree (holds for a name without slash).
-/
import PatchModel.Props.C01Driver
import PatchModel.Props.C11Header
import PatchModel.Lemmas.Run
import PatchModel.Props.C12
namespace PatchModel.C01
open PatchModel PatchModel.Section PatchModel.Run PatchModel.DriverFacts

/-- the options of a plain run: `patch [-u] [-pN] [-F n] [--newline-output=…] -i pname name` -/
structure FileOpts (o : Options) (pname : Bytes) : Prop where
  patchFile : o.patchFile = pname
  noDir : o.directory = []
  noHelp : o.showHelp = false
  noVersion : o.showVersion = false
  noContext : o.asContext = false
  noNormal : o.asNormal = false
  noEd : o.asEd = false

structure RunOpts (o : Options) (name pname : Bytes) : Prop where
  plain : PlainOpts o name
  file : FileOpts o pname

/-- the same without the file operand: `patch [-u] [-pN] [-F n] [--newline-output=…] -i pname` -/
structure GuessOpts (o : Options) (pname : Bytes) : Prop where
  noOperand : o.fileToPatch = []
  noOut : o.outFile = []
  noBackup : o.saveBackup = false
  noReverse : o.reverse = false
  noDefine : o.define = []
  fuzz : 0 ≤ o.maxFuzz
  quiet : o.verbose = false
  file : FileOpts o pname

/-- the state `main` starts `process_patch` in (what is on the terminal / standard input does not matter) -/
structure CleanStart (s0 : DState) : Prop where
  cwd : s0.cwd = []
  noFault : s0.faultAt = none
  noFailure : s0.hadFailure = false
  noWrites : s0.dWrites = []
  noRemovals : s0.dRemovals = []
  root : s0.fs.isRoot = true

/-- a field of a header line that is followed by more text on the line: no line feed -/
def fieldOk (b : Bytes) : Prop := NL ∉ b
/-- a time stamp: not empty, no line feed, does not end in CR (it is the end of its line) -/
def stampOk (t : Bytes) : Prop := t ≠ [] ∧ NL ∉ t ∧ t.getLast? ≠ some CR

/-- `filler ++ header ++ hs` is the text of a unified diff that states the change `hs` -/
structure UnifiedDiff (filler : List Line) (old new oldt newt : Bytes) (hs : List Hunk) : Prop where
  fillerInert : ∀ l ∈ filler, inertLine l.content = true
  fillerPlain : ∀ l ∈ filler, lfPlain l = true
  oldName : Header.plainName old ∧ fieldOk old
  newName : Header.plainName new ∧ fieldOk new
  oldStamp : stampOk oldt
  newStamp : stampOk newt
  nonEmpty : hs ≠ []
  writable : ∀ h ∈ hs, h.writable = true
  change : changeStart hs = true

/-- the bytes of the patch file -/
def patchText (filler : List Line) (old new oldt newt : Bytes) (hs : List Hunk) : Bytes :=
  linesText filler ++ diffText old new oldt newt hs

theorem splitLines_patchText {filler : List Line} {old new oldt newt : Bytes} {hs : List Hunk}
    (hd : UnifiedDiff filler old new oldt newt hs) :
    splitLines (patchText filler old new oldt newt hs) = diffLines filler old new oldt newt hs := by
  unfold patchText diffLines
  rw [splitLines_linesText _ _ hd.fillerPlain,
    splitLines_diffText old new oldt newt hs hd.oldName.2 hd.newName.2 hd.oldStamp.2.1 hd.newStamp.2.1 hd.oldStamp.1
      hd.newStamp.1 hd.oldStamp.2.2 hd.newStamp.2.2 hd.writable]

section
variable {o : Options} {s0 : DState} {name pname bytes : Bytes} {m pm : Nat}
  {filler : List Line} {old new oldt newt : Bytes} {hs : List Hunk}

/-- the state in which the section loop starts -/
abbrev loopStart (s0 : DState) (lines : List Line) : DState := { s0 with par := { s := { rest := lines } } }

/-- the format the options force -/
abbrev forced (o : Options) : Format := if o.asUnified then .unified else .unknown

/-- header scan, body parse and the applier's verdict for the one section of the diff -/
theorem plainSection_of_diff (ho : RunOpts o name pname) (hs0 : CleanStart s0) (hname : name ≠ [])
    (htarget : s0.fs.lookup name = some (.file bytes m)) (hw : m &&& writeMask ≠ 0)
    (hd : UnifiedDiff filler old new oldt newt hs) (hvalid : Valid (splitLines bytes) 0 0 hs) :
    ∃ patch0 info par1 par2 r,
      PlainSection o (forced o) (loopStart s0 (diffLines filler old new oldt newt hs)) name bytes m patch0
        { patch0 with hunks := hs } info par1 par2 r ∧
      render o.newlineOutput r.out = Render.renderText o.newlineOutput (splice (splitLines bytes) 0 hs) ∧
      par2.s.eof = true := by
  have hfl : ∀ l ∈ filler, l.newline ≠ .none := by
    intro l hl
    have := hd.fillerPlain l hl
    unfold lfPlain at this
    simp only [Bool.and_eq_true, beq_iff_eq] at this
    rw [this.1]; simp
  have hfmt : forced o = .unknown ∨ forced o = .unified := by
    unfold forced; split
    · exact Or.inr rfl
    · exact Or.inl rfl
  obtain ⟨patch0, info, par1, par2, hhdr, hf, hop, hpre, _, hnm, _, hbody, heof⟩ :=
    parse_diffLines o.strip (forced o) hfmt filler old new oldt newt hs 1 hd.fillerInert hfl hd.oldName.1 hd.newName.1
      hd.oldStamp.1 hd.newStamp.1 hd.nonEmpty hd.writable hd.change
  obtain ⟨r, H, hrender⟩ := plainSection_of_valid o (forced o) (loopStart s0 (diffLines filler old new oldt newt hs)) name bytes m
    patch0 info par1 par2 hs ho.plain hname hs0.cwd hhdr (Or.inl hf) hop hpre hnm hbody htarget hw hs0.root hvalid hs0.noFault
  exact ⟨patch0, info, par1, par2, r, H, hrender, heof⟩

/-- from the closed form of the one section to the closed form of the run -/
theorem runPatch_of_section (ho : FileOpts o pname) (hs0 : CleanStart s0) (hpn : pname ≠ []) (hpd : pname ≠ [45])
    (hpatch : s0.fs.lookup pname = some (.file (patchText filler old new oldt newt hs) pm))
    (hd : UnifiedDiff filler old new oldt newt hs) (s' : DState) (par2 : Parser) (dry : Bool)
    (hrun : (processSection o (forced o)).run (loopStart s0 (diffLines filler old new oldt newt hs)) = (.ok true, s'))
    (hdone : SectionDone (loopStart s0 (diffLines filler old new oldt newt hs)) s' name par2 dry)
    (heof : par2.s.eof = true) :
    runPatch o s0 = (0, s') := by
  have hloop := sectionLoop_one o (forced o) (diffLines filler old new oldt newt hs).length _ s' rfl hrun
    (by rw [hdone.par]; exact heof)
  have hrunP := run_processPatchM o s0 s' pname (patchText filler old new oldt newt hs) pm (forced o) ho.noDir ho.patchFile hpn hpd
    hs0.cwd hpatch hs0.root (diffFormat_plain o ho.noContext ho.noNormal ho.noEd)
    (by rw [splitLines_patchText hd]; exact hloop)
    (by rw [hdone.dWrites]; exact hs0.noWrites) (by rw [hdone.dRemovals]; exact hs0.noRemovals)
  rw [runPatch_of_run o s0 s' ho.noHelp ho.noVersion hrunP]
  have : s'.hadFailure = false := by rw [hdone.hadFailure]; exact hs0.noFailure
  rw [this]; rfl

/-- **the patch file is only read**: a patch file (`-i pname`) whose mode lacks the owner-read bit, for a user who is not root,
    cannot be opened — exit status 2 and nothing at all has happened.  That bit (or root) is all that is asked since the model
    change "the patch is opened for reading only" (`Run.run_processPatchM_readable`; a read-only patch file used to be refused for
    want of the write bit): the theorems below hold for every mode `pm` of the patch file. -/
theorem patch_file_unreadable (o : Options) (s0 : DState) (pname ptext : Bytes) (pm : Nat) (ho : FileOpts o pname)
    (hpn : pname ≠ []) (hpd : pname ≠ [45]) (hcwd : s0.cwd = []) (hpatch : s0.fs.lookup pname = some (.file ptext pm))
    (hroot : s0.fs.isRoot = false) (hmode : pm / 256 % 2 ≠ 1) :
    runPatch o s0 = (2, s0) := by
  have h := run_processPatchM_unreadable o s0 pname ptext pm ho.noDir ho.patchFile hpn hpd hcwd hpatch hroot hmode
  unfold runPatch
  simp only [ho.noHelp, ho.noVersion, Bool.or_false, Bool.false_eq_true, if_false, h]

/-- **C01, the whole program on the text of a unified diff** (inert filler allowed in front of the header; the names in the
    header need not be the operand's; the target may sit in a directory of the tree) -/
theorem C01_run_filler (ho : RunOpts o name pname) (hreal : o.dryRun = false) (hs0 : CleanStart s0)
    (hname : name ≠ []) (hdir : s0.fs.dirExists (parentOf name) = true) (hpn : pname ≠ []) (hpd : pname ≠ [45])
    (htarget : s0.fs.lookup name = some (.file bytes m)) (hw : m &&& writeMask ≠ 0)
    (hpatch : s0.fs.lookup pname = some (.file (patchText filler old new oldt newt hs) pm))
    (hd : UnifiedDiff filler old new oldt newt hs) (hvalid : Valid (splitLines bytes) 0 0 hs) :
    (runPatch o s0).1 = 0 ∧
    (runPatch o s0).2.fs.lookup name = some (.file (Render.renderText o.newlineOutput (splice (splitLines bytes) 0 hs)) m) ∧
    ∀ q, q ≠ name → (runPatch o s0).2.fs.lookup q = s0.fs.lookup q := by
  obtain ⟨patch0, info, par1, par2, r, H, hrender, heof⟩ := plainSection_of_diff ho hs0 hname htarget hw hd hvalid
  obtain ⟨s', hrun, hfs, _, hdone⟩ := processSection_clean H hreal hdir
  rw [runPatch_of_section ho.file hs0 hpn hpd hpatch hd s' par2 false hrun hdone heof]
  refine ⟨rfl, ?_, ?_⟩
  · show s'.fs.lookup name = _
    rw [hfs, Fs.lookup_set_self, hrender]
  · intro q hq
    show s'.fs.lookup q = _
    rw [hfs, Fs.lookup_set_ne _ _ _ _ hq]

/-- **C15 sibling: the same run under --dry-run** — exit status 0, the tree untouched -/
theorem C15_run_dry_filler (ho : RunOpts o name pname) (hdry : o.dryRun = true) (hs0 : CleanStart s0)
    (hname : name ≠ []) (hpn : pname ≠ []) (hpd : pname ≠ [45])
    (htarget : s0.fs.lookup name = some (.file bytes m)) (hw : m &&& writeMask ≠ 0)
    (hpatch : s0.fs.lookup pname = some (.file (patchText filler old new oldt newt hs) pm))
    (hd : UnifiedDiff filler old new oldt newt hs) (hvalid : Valid (splitLines bytes) 0 0 hs) :
    (runPatch o s0).1 = 0 ∧ (runPatch o s0).2.fs = s0.fs := by
  obtain ⟨patch0, info, par1, par2, r, H, _, heof⟩ := plainSection_of_diff ho hs0 hname htarget hw hd hvalid
  obtain ⟨s', hrun, hfs, _, hdone⟩ := processSection_clean_dry H hdry
  rw [runPatch_of_section ho.file hs0 hpn hpd hpatch hd s' par2 true hrun hdone heof]
  exact ⟨rfl, hfs⟩

/-! #### without the file operand: the name comes from the header (`guess_filepath`) -/

/-- header scan, body parse and the applier's verdict when the file name is taken from the `---` line -/
theorem guessSection_of_diff (ho : GuessOpts o pname) (hs0 : CleanStart s0) (hname : name ≠ []) (hnn : name ≠ devNull)
    (htarget : s0.fs.lookup name = some (.file bytes m)) (hw : m &&& writeMask ≠ 0)
    (hd : UnifiedDiff filler old new oldt newt hs) (hold : old ≠ devNull) (hstrip : stripPath old o.strip = name)
    (hvalid : Valid (splitLines bytes) 0 0 hs) :
    ∃ patch0 info par1 par2 r,
      GuessSection o (forced o) (loopStart s0 (diffLines filler old new oldt newt hs)) name bytes m patch0
        { patch0 with hunks := hs } info par1 par2 r ∧
      render o.newlineOutput r.out = Render.renderText o.newlineOutput (splice (splitLines bytes) 0 hs) ∧
      par2.s.eof = true := by
  have hfl : ∀ l ∈ filler, l.newline ≠ .none := by
    intro l hl
    have := hd.fillerPlain l hl
    unfold lfPlain at this
    simp only [Bool.and_eq_true, beq_iff_eq] at this
    rw [this.1]; simp
  have hfmt : forced o = .unknown ∨ forced o = .unified := by
    unfold forced; split
    · exact Or.inr rfl
    · exact Or.inl rfl
  obtain ⟨patch0, info, par1, par2, hhdr, hf, hop, hpre, _, hnm, hop0, hbody, heof⟩ :=
    parse_diffLines o.strip (forced o) hfmt filler old new oldt newt hs 1 hd.fillerInert hfl hd.oldName.1 hd.newName.1
      hd.oldStamp.1 hd.newStamp.1 hd.nonEmpty hd.writable hd.change
  have hrev : (applyOptsOf o).reverse = false := ho.noReverse
  obtain ⟨r, hap, hrout, _, hrfail, _, hrperf, hrskip, _, hrmsgs, hrtty, hrpatch⟩ :=
    applyPatch_valid (splitLines bytes) hs { patch0 with hunks := hs } (applyOptsOf o)
      (Option.map (fun l => List.map (fun a => !List.isEmpty a && List.head? a != some 110) l) s0.tty)
      hvalid (by rw [hrev]; rfl) ho.noDefine ho.fuzz
  refine ⟨patch0, info, par1, par2, r, ?_, render_of_lines _ ho.noDefine hap hrout, heof⟩
  exact {
    noOperand := ho.noOperand,
    oldPath := by rw [hop0, Header.stripped, if_neg hold, hstrip],
    notNull := hnn, noOut := ho.noOut, noBackup := ho.noBackup, pathNe := hname, cwd := hs0.cwd, hdr := hhdr,
    fmt := Or.inl hf, op := hop, pre := hpre, body := hbody, fmt2 := rfl, op2 := hop, newMode2 := hnm, file := htarget,
    writable := hw, root := hs0.root, noFault := hs0.noFault, apply := hap, failed := hrfail, perfect := hrperf,
    skipped := hrskip, msgs := hrmsgs ho.quiet, ttyLeft := hrtty,
    patch := by rw [hrpatch, hrev]; rfl }

/-- **C01, the whole program, no file operand**: `patch -pN -i pname` — the target is the file the `---` line names after
    stripping (`stripPath old o.strip = name`) -/
theorem C01_run_guess_filler (ho : GuessOpts o pname) (hreal : o.dryRun = false) (hs0 : CleanStart s0)
    (hname : name ≠ []) (hnn : name ≠ devNull) (hdir : s0.fs.dirExists (parentOf name) = true)
    (hpn : pname ≠ []) (hpd : pname ≠ [45])
    (htarget : s0.fs.lookup name = some (.file bytes m)) (hw : m &&& writeMask ≠ 0)
    (hpatch : s0.fs.lookup pname = some (.file (patchText filler old new oldt newt hs) pm))
    (hd : UnifiedDiff filler old new oldt newt hs) (hold : old ≠ devNull) (hstrip : stripPath old o.strip = name)
    (hvalid : Valid (splitLines bytes) 0 0 hs) :
    (runPatch o s0).1 = 0 ∧
    (runPatch o s0).2.fs.lookup name = some (.file (Render.renderText o.newlineOutput (splice (splitLines bytes) 0 hs)) m) ∧
    ∀ q, q ≠ name → (runPatch o s0).2.fs.lookup q = s0.fs.lookup q := by
  obtain ⟨patch0, info, par1, par2, r, H, hrender, heof⟩ :=
    guessSection_of_diff ho hs0 hname hnn htarget hw hd hold hstrip hvalid
  obtain ⟨s', hrun, hfs, _, hdone⟩ := processSection_guess H hreal hdir
  rw [runPatch_of_section ho.file hs0 hpn hpd hpatch hd s' par2 false hrun hdone heof]
  refine ⟨rfl, ?_, ?_⟩
  · show s'.fs.lookup name = _
    rw [hfs, Fs.lookup_set_self, hrender]
  · intro q hq
    show s'.fs.lookup q = _
    rw [hfs, Fs.lookup_set_ne _ _ _ _ hq]

theorem C15_run_guess_dry_filler (ho : GuessOpts o pname) (hdry : o.dryRun = true) (hs0 : CleanStart s0)
    (hname : name ≠ []) (hnn : name ≠ devNull) (hpn : pname ≠ []) (hpd : pname ≠ [45])
    (htarget : s0.fs.lookup name = some (.file bytes m)) (hw : m &&& writeMask ≠ 0)
    (hpatch : s0.fs.lookup pname = some (.file (patchText filler old new oldt newt hs) pm))
    (hd : UnifiedDiff filler old new oldt newt hs) (hold : old ≠ devNull) (hstrip : stripPath old o.strip = name)
    (hvalid : Valid (splitLines bytes) 0 0 hs) :
    (runPatch o s0).1 = 0 ∧ (runPatch o s0).2.fs = s0.fs := by
  obtain ⟨patch0, info, par1, par2, r, H, _, heof⟩ :=
    guessSection_of_diff ho hs0 hname hnn htarget hw hd hold hstrip hvalid
  obtain ⟨s', hrun, hfs, _, hdone⟩ := processSection_guess_dry H hdry
  rw [runPatch_of_section ho.file hs0 hpn hpd hpatch hd s' par2 true hrun hdone heof]
  exact ⟨rfl, hfs⟩

end

/-! ### the statement for a diff of `name` against itself in the working directory, no filler -/

/-- a name in the working directory that a diff tool writes unquoted -/
def flatName (n : Bytes) : Prop := n ≠ [] ∧ (∀ c ∈ n, c ≠ SLASHB) ∧ TAB ∉ n ∧ NL ∉ n ∧ n.head? ≠ some DQUOTE

/-- the hunks of the diff -/
structure DiffHunks (hs : List Hunk) : Prop where
  nonEmpty : hs ≠ []
  writable : ∀ h ∈ hs, h.writable = true
  change : changeStart hs = true

theorem unifiedDiff_of_flat {name oldt newt : Bytes} {hs : List Hunk} (hn : flatName name) (hot : stampOk oldt)
    (hnt : stampOk newt) (hh : DiffHunks hs) : UnifiedDiff [] name name oldt newt hs :=
  { fillerInert := by simp, fillerPlain := by simp,
    oldName := ⟨⟨hn.1, hn.2.2.1, hn.2.2.2.2⟩, hn.2.2.2.1⟩, newName := ⟨⟨hn.1, hn.2.2.1, hn.2.2.2.2⟩, hn.2.2.2.1⟩,
    oldStamp := hot, newStamp := hnt, nonEmpty := hh.nonEmpty, writable := hh.writable, change := hh.change }

theorem takeWhile_all {α} (q : α → Bool) : ∀ (l : List α), (∀ c ∈ l, q c = true) → l.takeWhile q = l
  | [], _ => rfl
  | a :: l, h => by
    rw [List.takeWhile_cons, if_pos (h a List.mem_cons_self),
      takeWhile_all q l (fun c hc => h c (List.mem_cons_of_mem _ hc))]

/-- a name without slash is its own base name, and `-p0` leaves it alone -/
theorem stripPath_flat {n : Bytes} (hflat : ∀ c ∈ n, c ≠ SLASHB) {strip : Int} (hs : strip ≤ 0) : stripPath n strip = n := by
  by_cases h0 : strip < 0
  · rw [C12.strip_negative n strip h0, Names.basenameSpec_eq]
    unfold basename
    rw [takeWhile_all _ _ (by
      intro c hc
      have := hflat c (List.mem_reverse.1 hc)
      simpa [SLASH, SLASHB] using this), List.reverse_reverse]
  · have : strip = ((0 : Nat) : Int) := by omega
    rw [this, C12.strip_spec, stripSpec]

theorem flat_ne_devNull {n : Bytes} (hflat : ∀ c ∈ n, c ≠ SLASHB) : n ≠ devNull := by
  intro h
  rw [h, Names.devNull_eq] at hflat
  exact hflat 47 (by decide) rfl

/-- **C01, end to end.**  `patch -i pname name` in a tree with the target `name` and the patch file `pname` = the text of a
    unified diff (`--- name TAB oldt`, `+++ name TAB newt`, hunks `hs`) of `name`, `hs` a valid script of the target's lines:
    exit status 0, the target holds the intended result with its old mode, nothing else in the tree differs. -/
theorem C01_run (o : Options) (s0 : DState) (name pname bytes oldt newt : Bytes) (m pm : Nat) (hs : List Hunk)
    (ho : RunOpts o name pname) (hreal : o.dryRun = false) (hs0 : CleanStart s0)
    (hn : flatName name) (hpn : pname ≠ []) (hpd : pname ≠ [45])
    (htarget : s0.fs.lookup name = some (.file bytes m)) (hw : m &&& writeMask ≠ 0)
    (hot : stampOk oldt) (hnt : stampOk newt)
    (hpatch : s0.fs.lookup pname = some (.file (diffText name name oldt newt hs) pm))
    (hh : DiffHunks hs) (hvalid : Valid (splitLines bytes) 0 0 hs) :
    (runPatch o s0).1 = 0 ∧
    (runPatch o s0).2.fs.lookup name = some (.file (Render.renderText o.newlineOutput (splice (splitLines bytes) 0 hs)) m) ∧
    ∀ q, q ≠ name → (runPatch o s0).2.fs.lookup q = s0.fs.lookup q :=
  C01_run_filler (filler := []) ho hreal hs0 hn.1 (dirExists_parent_of_noSlash s0.fs hn.2.1) hpn hpd htarget hw hpatch
    (unifiedDiff_of_flat hn hot hnt hh) hvalid

/-- **C15, end to end**: the same run with --dry-run predicts success and leaves the tree alone -/
theorem C15_run_dry (o : Options) (s0 : DState) (name pname bytes oldt newt : Bytes) (m pm : Nat) (hs : List Hunk)
    (ho : RunOpts o name pname) (hdry : o.dryRun = true) (hs0 : CleanStart s0)
    (hn : flatName name) (hpn : pname ≠ []) (hpd : pname ≠ [45])
    (htarget : s0.fs.lookup name = some (.file bytes m)) (hw : m &&& writeMask ≠ 0)
    (hot : stampOk oldt) (hnt : stampOk newt)
    (hpatch : s0.fs.lookup pname = some (.file (diffText name name oldt newt hs) pm))
    (hh : DiffHunks hs) (hvalid : Valid (splitLines bytes) 0 0 hs) :
    (runPatch o s0).1 = 0 ∧ (runPatch o s0).2.fs = s0.fs :=
  C15_run_dry_filler (filler := []) ho hdry hs0 hn.1 hpn hpd htarget hw hpatch (unifiedDiff_of_flat hn hot hnt hh) hvalid

/-- **C01, end to end, no file operand.**  `patch -i pname` (no `-p`, or `-p0`): the target is found through the `---` line -/
theorem C01_run_guess (o : Options) (s0 : DState) (name pname bytes oldt newt : Bytes) (m pm : Nat) (hs : List Hunk)
    (ho : GuessOpts o pname) (hstrip : o.strip ≤ 0) (hreal : o.dryRun = false) (hs0 : CleanStart s0)
    (hn : flatName name) (hpn : pname ≠ []) (hpd : pname ≠ [45])
    (htarget : s0.fs.lookup name = some (.file bytes m)) (hw : m &&& writeMask ≠ 0)
    (hot : stampOk oldt) (hnt : stampOk newt)
    (hpatch : s0.fs.lookup pname = some (.file (diffText name name oldt newt hs) pm))
    (hh : DiffHunks hs) (hvalid : Valid (splitLines bytes) 0 0 hs) :
    (runPatch o s0).1 = 0 ∧
    (runPatch o s0).2.fs.lookup name = some (.file (Render.renderText o.newlineOutput (splice (splitLines bytes) 0 hs)) m) ∧
    ∀ q, q ≠ name → (runPatch o s0).2.fs.lookup q = s0.fs.lookup q :=
  C01_run_guess_filler (filler := []) ho hreal hs0 hn.1 (flat_ne_devNull hn.2.1) (dirExists_parent_of_noSlash s0.fs hn.2.1)
    hpn hpd htarget hw hpatch (unifiedDiff_of_flat hn hot hnt hh) (flat_ne_devNull hn.2.1) (stripPath_flat hn.2.1 hstrip) hvalid

instance (n : Bytes) : Decidable (flatName n) := by unfold flatName; infer_instance
instance (t : Bytes) : Decidable (stampOk t) := by unfold stampOk; infer_instance
instance (b : Bytes) : Decidable (fieldOk b) := by unfold fieldOk; infer_instance

/-! ### non-vacuity: a concrete run

`f` = "a\nb\nc\n" (mode 0644), `p.diff` = a one-hunk unified diff that changes `b` to `B`, options `-i p.diff f`.
Every hypothesis of `C01_run` is discharged by evaluation in the kernel (`decide` / `rfl`), the theorem is applied, and —
independently — the executable model is run on the same state (`#guard`, compiled evaluation: an executable test, not a proof). -/
namespace Instance

def name : Bytes := [102]                                  -- "f"
def pname : Bytes := [112, 46, 100, 105, 102, 102]         -- "p.diff"
def bytes : Bytes := [97, 10, 98, 10, 99, 10]              -- "a\nb\nc\n"
def oldt : Bytes := [50, 48, 50, 48]                       -- "2020"
def newt : Bytes := [50, 48, 50, 49]                       -- "2021"
def hk : Hunk := ⟨⟨1, 3⟩, ⟨1, 3⟩, [⟨SP, ⟨[97], .lf⟩⟩, ⟨MINUS, ⟨[98], .lf⟩⟩, ⟨PLUS, ⟨[66], .lf⟩⟩, ⟨SP, ⟨[99], .lf⟩⟩]⟩
def s0 : DState :=
  { fs := { nodes := [(name, .file bytes 0o644), (pname, .file (diffText name name oldt newt [hk]) 0o644)] } }
def o : Options := { defaultOptions with fileToPatch := name, patchFile := pname }

-- the spelled-out bytes are the intended texts
#guard name == str "f" && pname == str "p.diff" && bytes == str "a\nb\nc\n"
#guard diffText name name oldt newt [hk] == str "--- f\t2020\n+++ f\t2021\n@@ -1,3 +1,3 @@\n a\n-b\n+B\n c\n"

theorem runOpts : RunOpts o name pname :=
  { plain := { operand := rfl, noOut := rfl, noBackup := rfl, noReverse := rfl, noDefine := rfl, fuzz := by decide, quiet := rfl },
    file := { patchFile := rfl, noDir := rfl, noHelp := rfl, noVersion := rfl, noContext := rfl, noNormal := rfl, noEd := rfl } }

theorem diffHunks : DiffHunks [hk] :=
  { nonEmpty := by decide, writable := by decide, change := by decide }

/-- the theorem applies: all its hypotheses hold of the instance -/
theorem applies :
    (runPatch o s0).1 = 0 ∧
    (runPatch o s0).2.fs.lookup name = some (.file (Render.renderText o.newlineOutput (splice (splitLines bytes) 0 [hk])) 0o644) ∧
    ∀ q, q ≠ name → (runPatch o s0).2.fs.lookup q = s0.fs.lookup q :=
  C01_run o s0 name pname bytes oldt newt 0o644 0o644 [hk] runOpts rfl ⟨rfl, rfl, rfl, rfl, rfl, rfl⟩ (by decide) (by decide)
    (by decide) (by decide) (by decide) (by decide) (by decide) rfl diffHunks (validB_sound _ _ _ _ (by decide))

/-- … and what it promises is the expected text: "a\nB\nc\n" -/
example : Render.renderText o.newlineOutput (splice (splitLines bytes) 0 [hk]) = [97, 10, 66, 10, 99, 10] := by decide

/-- the --dry-run sibling applies as well -/
example : (runPatch { o with dryRun := true } s0).1 = 0 ∧ (runPatch { o with dryRun := true } s0).2.fs = s0.fs :=
  C15_run_dry { o with dryRun := true } s0 name pname bytes oldt newt 0o644 0o644 [hk]
    { plain := { operand := rfl, noOut := rfl, noBackup := rfl, noReverse := rfl, noDefine := rfl, fuzz := by decide, quiet := rfl },
      file := { patchFile := rfl, noDir := rfl, noHelp := rfl, noVersion := rfl, noContext := rfl, noNormal := rfl, noEd := rfl } }
    rfl ⟨rfl, rfl, rfl, rfl, rfl, rfl⟩ (by decide) (by decide) (by decide) (by decide) (by decide) (by decide) (by decide) rfl
    diffHunks (validB_sound _ _ _ _ (by decide))

/-- the version without operand applies to the same tree with options `-i p.diff` -/
example : (runPatch { o with fileToPatch := [] } s0).1 = 0 ∧
    (runPatch { o with fileToPatch := [] } s0).2.fs.lookup name =
      some (.file (Render.renderText o.newlineOutput (splice (splitLines bytes) 0 [hk])) 0o644) ∧
    ∀ q, q ≠ name → (runPatch { o with fileToPatch := [] } s0).2.fs.lookup q = s0.fs.lookup q :=
  C01_run_guess { o with fileToPatch := [] } s0 name pname bytes oldt newt 0o644 0o644 [hk]
    { noOperand := rfl, noOut := rfl, noBackup := rfl, noReverse := rfl, noDefine := rfl, fuzz := by decide, quiet := rfl,
      file := { patchFile := rfl, noDir := rfl, noHelp := rfl, noVersion := rfl, noContext := rfl, noNormal := rfl, noEd := rfl } }
    (by decide) rfl ⟨rfl, rfl, rfl, rfl, rfl, rfl⟩ (by decide) (by decide) (by decide) (by decide) (by decide) (by decide)
    (by decide) rfl diffHunks (validB_sound _ _ _ _ (by decide))

-- independently: the executable model on the same state (executable tests)
#guard (runPatch o s0).1 == 0
#guard (runPatch o s0).2.fs.lookup name == some (.file (str "a\nB\nc\n") 0o644)
#guard (runPatch o s0).2.fs.lookup pname == s0.fs.lookup pname
#guard (runPatch o s0).2.par.s.eof && (runPatch o s0).2.par.s.rest.isEmpty      -- the loop stopped on the end-of-file flag
#guard (runPatch o s0).2.trace == [.tmpCreate, .tmpUnlink, .tmpCreate, .tmpUnlink, .creat name,
                                   .write name (str "a\nB\nc\n"), .chmod name 0o644]
#guard (runPatch { o with fileToPatch := [] } s0).1 == 0 &&
  (runPatch { o with fileToPatch := [] } s0).2.fs.lookup name == some (.file (str "a\nB\nc\n") 0o644)
#guard (runPatch { o with dryRun := true } s0).1 == 0
#guard (runPatch { o with dryRun := true } s0).2.fs.lookup name == some (.file bytes 0o644)

-- with a mail header and a commit message in front (C01_run_filler): filler, then the same diff
def filler : List Line := [⟨str "From: someone", .lf⟩, ⟨[], .lf⟩, ⟨str "change b to B", .lf⟩, ⟨[], .lf⟩]
def s0f : DState :=
  { fs := { nodes := [(name, .file bytes 0o644), (pname, .file (patchText filler name name oldt newt [hk]) 0o644)] } }
#guard filler.all fun l => inertLine l.content && lfPlain l
#guard patchText filler name name oldt newt [hk] ==
  str "From: someone\n\nchange b to B\n\n--- f\t2020\n+++ f\t2021\n@@ -1,3 +1,3 @@\n a\n-b\n+B\n c\n"
#guard (runPatch o s0f).1 == 0 && (runPatch o s0f).2.fs.lookup name == some (.file (str "a\nB\nc\n") 0o644)

end Instance

/-! ### regression: a first body line that looks like a file header (`--- x`, `+++ x`)

`f` starts with the line `-- x` (an SQL / Lua / Haskell comment); the diff removes that line (first hunk — the removed line is the
first line of the file, so no context line precedes it) and changes `9` to `nine` (second hunk).  The first body line of the diff
reads `--- x`.  Up to the C++ fix "do not take a line of the first hunk for a file header" the header scan (`parse_patch_header`)
tested for the `--- ` keyword before it looked at whether the previous line was a range line: `--- x` was stored as a file name,
the range line `@@ -1,2 +1 @@` forgotten, the scan went on to the NEXT range line as "first hunk"; the run ended with exit status
0, "patching file f", no message — and the first hunk not applied (with a single hunk: exit status 2, "not a patch").  The theorems
of this file carried a hypothesis `firstLineOk hs` that excluded such diffs, and this namespace (then `DropsFirstHunk`) recorded
the wrong result.  Now the scan looks for the first body line of a unified hunk first; the hypothesis is gone, **`C01_run` applies
to these very diffs** (every hypothesis discharged in the kernel), and the executable model gives the right result. -/
namespace FirstLineLooksLikeHeader

def name : Bytes := [102]
def pname : Bytes := [112, 46, 100, 105, 102, 102]
def bytes : Bytes :=   -- "-- x\n1\n2\n3\n4\n5\n6\n7\n8\n9\n"
  [45, 45, 32, 120, 10, 49, 10, 50, 10, 51, 10, 52, 10, 53, 10, 54, 10, 55, 10, 56, 10, 57, 10]
def t : Bytes := [50, 48, 50, 48]
def h1 : Hunk := ⟨⟨1, 2⟩, ⟨1, 1⟩, [⟨MINUS, ⟨[45, 45, 32, 120], .lf⟩⟩, ⟨SP, ⟨[49], .lf⟩⟩]⟩
def h2 : Hunk := ⟨⟨9, 2⟩, ⟨8, 2⟩, [⟨SP, ⟨[56], .lf⟩⟩, ⟨MINUS, ⟨[57], .lf⟩⟩, ⟨PLUS, ⟨[110, 105, 110, 101], .lf⟩⟩]⟩
def s0 (hs : List Hunk) : DState :=
  { fs := { nodes := [(name, .file bytes 0o644), (pname, .file (diffText name name t t hs) 0o644)] } }
def o : Options := { defaultOptions with fileToPatch := name, patchFile := pname }
/-- the intended result: "1\n2\n3\n4\n5\n6\n7\n8\nnine\n" -/
def result : Bytes := [49, 10, 50, 10, 51, 10, 52, 10, 53, 10, 54, 10, 55, 10, 56, 10, 110, 105, 110, 101, 10]

#guard bytes == str "-- x\n1\n2\n3\n4\n5\n6\n7\n8\n9\n"
#guard result == str "1\n2\n3\n4\n5\n6\n7\n8\nnine\n"
#guard diffText name name t t [h1, h2] ==
  str "--- f\t2020\n+++ f\t2020\n@@ -1,2 +1 @@\n--- x\n 1\n@@ -9,2 +8,2 @@\n 8\n-9\n+nine\n"

-- the first body line of the text does start with the keyword of a file name line
example : startsWith (MINUS :: [45, 45, 32, 120]) "--- " = true := by
  unfold startsWith; rw [Header.str_new4]; decide

theorem diffHunks : DiffHunks [h1, h2] :=
  { nonEmpty := by decide, writable := by decide, change := by decide }

-- what the script means
theorem meaning : Render.renderText o.newlineOutput (splice (splitLines bytes) 0 [h1, h2]) = result := by decide

/-- **`C01_run` applies** (all hypotheses discharged in the kernel): exit status 0, BOTH hunks applied, nothing else touched -/
theorem applies :
    (runPatch o (s0 [h1, h2])).1 = 0 ∧
    (runPatch o (s0 [h1, h2])).2.fs.lookup name = some (.file result 0o644) ∧
    ∀ q, q ≠ name → (runPatch o (s0 [h1, h2])).2.fs.lookup q = (s0 [h1, h2]).fs.lookup q := by
  have h := C01_run o (s0 [h1, h2]) name pname bytes t t 0o644 0o644 [h1, h2] Instance.runOpts rfl ⟨rfl, rfl, rfl, rfl, rfl, rfl⟩
    (by decide) (by decide) (by decide) (by decide) (by decide) (by decide) (by decide) rfl diffHunks
    (validB_sound _ _ _ _ (by decide))
  rw [meaning] at h
  exact h

/-- the single hunk alone (was: exit status 2, "not a patch") -/
theorem applies_single :
    (runPatch o (s0 [h1])).1 = 0 ∧
    (runPatch o (s0 [h1])).2.fs.lookup name =
      some (.file [49, 10, 50, 10, 51, 10, 52, 10, 53, 10, 54, 10, 55, 10, 56, 10, 57, 10] 0o644) := by
  have h := C01_run o (s0 [h1]) name pname bytes t t 0o644 0o644 [h1] Instance.runOpts rfl ⟨rfl, rfl, rfl, rfl, rfl, rfl⟩
    (by decide) (by decide) (by decide) (by decide) (by decide) (by decide) (by decide) rfl
    { nonEmpty := by decide, writable := by decide, change := by decide }
    (validB_sound _ _ _ _ (by decide))
  have hm : Render.renderText o.newlineOutput (splice (splitLines bytes) 0 [h1]) =
      [49, 10, 50, 10, 51, 10, 52, 10, 53, 10, 54, 10, 55, 10, 56, 10, 57, 10] := by decide
  rw [hm] at h
  exact ⟨h.1, h.2.1⟩

-- independently, the executable model (the compiled C++ program does the same): success, both hunks applied, no message
#guard (runPatch o (s0 [h1, h2])).1 == 0
#guard (runPatch o (s0 [h1, h2])).2.out == [.file name false]
#guard (runPatch o (s0 [h1, h2])).2.fs.lookup name == some (.file (str "1\n2\n3\n4\n5\n6\n7\n8\nnine\n") 0o644)
#guard (runPatch o (s0 [h1])).1 == 0 && (runPatch o (s0 [h1])).2.fs.lookup name == some (.file (str "1\n2\n3\n4\n5\n6\n7\n8\n9\n") 0o644)
#guard (runPatch { o with dryRun := true } (s0 [h1, h2])).1 == 0 &&
  (runPatch { o with dryRun := true } (s0 [h1, h2])).2.fs.lookup name == some (.file bytes 0o644)

-- the `+++ ` twin: "++ x" inserted before line 1 of "1\n…9\n", and 9 → nine
def bytes' : Bytes := [49, 10, 50, 10, 51, 10, 52, 10, 53, 10, 54, 10, 55, 10, 56, 10, 57, 10]
def h1' : Hunk := ⟨⟨1, 1⟩, ⟨1, 2⟩, [⟨PLUS, ⟨[43, 43, 32, 120], .lf⟩⟩, ⟨SP, ⟨[49], .lf⟩⟩]⟩
def h2' : Hunk := ⟨⟨8, 2⟩, ⟨9, 2⟩, [⟨SP, ⟨[56], .lf⟩⟩, ⟨MINUS, ⟨[57], .lf⟩⟩, ⟨PLUS, ⟨[110, 105, 110, 101], .lf⟩⟩]⟩
def s0' : DState :=
  { fs := { nodes := [(name, .file bytes' 0o644), (pname, .file (diffText name name t t [h1', h2']) 0o644)] } }
/-- "++ x\n1\n2\n3\n4\n5\n6\n7\n8\nnine\n" -/
def result' : Bytes := [43, 43, 32, 120, 10, 49, 10, 50, 10, 51, 10, 52, 10, 53, 10, 54, 10, 55, 10, 56, 10, 110, 105, 110, 101, 10]
#guard result' == str "++ x\n1\n2\n3\n4\n5\n6\n7\n8\nnine\n"
#guard diffText name name t t [h1', h2'] ==
  str "--- f\t2020\n+++ f\t2020\n@@ -1 +1,2 @@\n+++ x\n 1\n@@ -8,2 +9,2 @@\n 8\n-9\n+nine\n"

theorem applies' :
    (runPatch o s0').1 = 0 ∧ (runPatch o s0').2.fs.lookup name = some (.file result' 0o644) ∧
    ∀ q, q ≠ name → (runPatch o s0').2.fs.lookup q = s0'.fs.lookup q := by
  have h := C01_run o s0' name pname bytes' t t 0o644 0o644 [h1', h2'] Instance.runOpts rfl ⟨rfl, rfl, rfl, rfl, rfl, rfl⟩
    (by decide) (by decide) (by decide) (by decide) (by decide) (by decide) (by decide) rfl
    { nonEmpty := by decide, writable := by decide, change := by decide }
    (validB_sound _ _ _ _ (by decide))
  have hm : Render.renderText o.newlineOutput (splice (splitLines bytes') 0 [h1', h2']) = result' := by decide
  rw [hm] at h
  exact h

#guard (runPatch o s0').1 == 0 && (runPatch o s0').2.fs.lookup name == some (.file result' 0o644)   -- "++ x" is there

end FirstLineLooksLikeHeader

/-! ### the scope conditions, evaluated (executable tests)

* `changeStart` is a restriction of the proof, not of the program: a first range `+0,0` (the first line removed, no context) or
  `-0,0` (text added to an empty file) makes the header scan infer "delete" / "add"; the run still gives the intended result.
* CRLF: `write_hunk_as_unified` used to write LF after every line, so the text of a script for a CRLF file stated LF lines, which did
  not match the file (terminators are compared unless -l / --ignore-whitespace): exit status 1, a reject file.  It now writes
  CR LF lines as such; the condition "no CRLF hunk lines" is gone from the theorems and `C01_run` applies (`crlf_applies`). -/
namespace Scope
def o : Options := { defaultOptions with fileToPatch := str "f", patchFile := str "p.diff" }
def mk (fb : Bytes) (hs : List Hunk) : DState :=
  { fs := { nodes := [(str "f", .file fb 0o644), (str "p.diff", .file (diffText (str "f") (str "f") (str "t") (str "t") hs) 0o644)] } }

def del1 : Hunk := ⟨⟨1, 1⟩, ⟨0, 0⟩, [⟨MINUS, ⟨str "a", .lf⟩⟩]⟩            -- @@ -1 +0,0 @@
#guard validB (splitLines (str "a\nb\n")) 0 0 [del1] && del1.writable && !changeStart [del1]
#guard (runPatch o (mk (str "a\nb\n") [del1])).1 == 0 &&
  (runPatch o (mk (str "a\nb\n") [del1])).2.fs.lookup (str "f") == some (.file (str "b\n") 0o644)

def add1 : Hunk := ⟨⟨0, 0⟩, ⟨1, 1⟩, [⟨PLUS, ⟨str "a", .lf⟩⟩]⟩             -- @@ -0,0 +1 @@
#guard validB (splitLines []) 0 0 [add1] && add1.writable && !changeStart [add1]
#guard (runPatch o (mk [] [add1])).1 == 0 &&
  (runPatch o (mk [] [add1])).2.fs.lookup (str "f") == some (.file (str "a\n") 0o644)

def crlf : Hunk := ⟨⟨1, 2⟩, ⟨1, 2⟩, [⟨SP, ⟨str "a", .crlf⟩⟩, ⟨MINUS, ⟨str "b", .crlf⟩⟩, ⟨PLUS, ⟨str "B", .crlf⟩⟩]⟩
#guard validB (splitLines (str "a\r\nb\r\n")) 0 0 [crlf] && crlf.writable
-- default `--newline-output=native`: the result is written with LF; `--newline-output=keep`: with the terminators of the lines
#guard (runPatch o (mk (str "a\r\nb\r\n") [crlf])).1 == 0 &&
  (runPatch o (mk (str "a\r\nb\r\n") [crlf])).2.fs.lookup (str "f") == some (.file (str "a\nB\n") 0o644) &&
  ((runPatch o (mk (str "a\r\nb\r\n") [crlf])).2.fs.lookup (str "f.rej")).isNone
#guard (runPatch { o with newlineOutput := .keep } (mk (str "a\r\nb\r\n") [crlf])).1 == 0 &&
  (runPatch { o with newlineOutput := .keep } (mk (str "a\r\nb\r\n") [crlf])).2.fs.lookup (str "f") ==
    some (.file (str "a\r\nB\r\n") 0o644)
#guard diffText [102] [102] [116] [116] [crlf] == str "--- f\tt\n+++ f\tt\n@@ -1,2 +1,2 @@\n a\r\n-b\r\n+B\r\n"

/-- `crlf` with its bytes spelled out (for evaluation in the kernel) -/
def crlfK : Hunk := ⟨⟨1, 2⟩, ⟨1, 2⟩, [⟨SP, ⟨[97], .crlf⟩⟩, ⟨MINUS, ⟨[98], .crlf⟩⟩, ⟨PLUS, ⟨[66], .crlf⟩⟩]⟩
#guard crlfK == crlf
def oK : Options := { Instance.o with newlineOutput := .keep }
def sK : DState :=
  { fs := { nodes := [([102], .file [97, 13, 10, 98, 13, 10] 0o644),
      (Instance.pname, .file (diffText [102] [102] [116] [116] [crlfK]) 0o644)] } }

/-- **`C01_run` applies to a script for a CRLF file** — `patch --newline-output=keep -i p.diff f`, `f` = "a\r\nb\r\n" — (all
    hypotheses discharged in the kernel; before the writer kept CR LF this very run ended with exit status 1 and a reject file) -/
theorem crlf_applies :
    (runPatch oK sK).1 = 0 ∧ (runPatch oK sK).2.fs.lookup [102] = some (.file [97, 13, 10, 66, 13, 10] 0o644) := by
  have h := C01_run oK sK [102] Instance.pname [97, 13, 10, 98, 13, 10] [116] [116] 0o644 0o644 [crlfK]
    { plain := { operand := rfl, noOut := rfl, noBackup := rfl, noReverse := rfl, noDefine := rfl, fuzz := by decide, quiet := rfl },
      file := { patchFile := rfl, noDir := rfl, noHelp := rfl, noVersion := rfl, noContext := rfl, noNormal := rfl, noEd := rfl } }
    rfl ⟨rfl, rfl, rfl, rfl, rfl, rfl⟩
    (by decide) (by decide) (by decide) (by decide) (by decide) (by decide) (by decide) rfl
    { nonEmpty := by decide, writable := by decide, change := by decide }
    (validB_sound _ _ _ _ (by decide))
  have hm : Render.renderText oK.newlineOutput (splice (splitLines [97, 13, 10, 98, 13, 10]) 0 [crlfK]) =
      [97, 13, 10, 66, 13, 10] := by decide
  rw [hm] at h
  exact ⟨h.1, h.2.1⟩
end Scope

end PatchModel.C01

#print axioms PatchModel.C01.Instance.applies
#print axioms PatchModel.C01.Scope.crlf_applies
#print axioms PatchModel.C01.FirstLineLooksLikeHeader.applies
#print axioms PatchModel.C01.FirstLineLooksLikeHeader.applies_single
#print axioms PatchModel.C01.FirstLineLooksLikeHeader.applies'
#print axioms PatchModel.C01.patch_file_unreadable
#print axioms PatchModel.C01.C01_run_filler
#print axioms PatchModel.C01.C15_run_dry_filler
#print axioms PatchModel.C01.C01_run
#print axioms PatchModel.C01.C01_run_guess_filler
#print axioms PatchModel.C01.C15_run_guess_dry_filler
#print axioms PatchModel.C01.C01_run_guess
#print axioms PatchModel.C01.C15_run_dry
