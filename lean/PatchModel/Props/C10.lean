/-
  C10 (driver model) — I/O failures are never reported as success.
  Proofs: Lemmas/Fault (`Good k m`: lock-step simulation of the fault-free run and the run with the fault at `k`).
-/
import PatchModel.Model.Driver
import PatchModel.Lemmas.Fault
namespace PatchModel.C10
open PatchModel PatchModel.Fault

/-- **single fault**: if the k-th file system operation of a run fails, the run ends with an exception (`main` prints a diagnostic and
    exits with status 2) — nothing in the driver catches, ignores or retries a failed operation, with one exception (D105): a
    `chmod` to the permissions which the file has at that moment (`ToleratedChmod`: both runs did the same operations `t1` up to
    there, the fault-free run goes on with `chmod path m`, and `path` has the permissions `m` in the tree after `t1`) -/
theorem fault_is_fatal (o : Options) (s0 : DState) (k : Nat) (hk : s0.faultAt = some k) (hc : s0.opCount = 0)
    (hh : o.showHelp = false ∧ o.showVersion = false)
    (hreached : (runPatch o s0).2.opCount > k) :
    (runPatch o s0).1 = 2 ∨
    ToleratedChmod { s0 with faultAt := none } (runPatch o { s0 with faultAt := none }).2 (runPatch o s0).2 := by
  have _ := hh   -- not needed: with help/version the counter stays 0, which `hreached` excludes
  have e : wf k { s0 with faultAt := none } = s0 := by cases s0; cases hk; rfl
  have h := runPatch_out o { s0 with faultAt := none } k rfl (by show s0.opCount ≤ k; omega)
  rw [e] at h
  rcases h with ⟨_, h2, h3⟩ | ⟨_, _, h3, _⟩ | ⟨_, _, h3⟩
  · rw [h2, wf_opCount] at hreached; omega
  · exact .inl h3
  · exact .inr h3

/-- the exception is an exception: a fault which hits anything but a `chmod` is fatal -/
theorem fault_is_fatal_unless_chmod (o : Options) (s0 : DState) (k : Nat) (hk : s0.faultAt = some k) (hc : s0.opCount = 0)
    (hreached : (runPatch o s0).2.opCount > k)
    (hno : ∀ p m, FsOp.chmod p m ∉ (runPatch o { s0 with faultAt := none }).2.trace) :
    (runPatch o s0).1 = 2 := by
  by_cases hh : o.showHelp = false ∧ o.showVersion = false
  · rcases fault_is_fatal o s0 k hk hc hh hreached with h | ⟨t1, path, m, _, ⟨t2, h⟩, _⟩
    · exact h
    · exact absurd (by rw [h]; simp) (hno path m)
  · have e : (o.showHelp || o.showVersion) = true := by
      cases h1 : o.showHelp <;> cases h2 : o.showVersion <;> simp_all
    rw [runPatch_help o s0 e] at hreached
    simp only at hreached
    omega

/-- a fault scheduled beyond the last operation of the run is harmless: the run is identical to the fault-free run -/
theorem fault_not_reached (o : Options) (s0 : DState) (k : Nat) (hc : s0.opCount = 0)
    (hnot : (runPatch o { s0 with faultAt := none }).2.opCount ≤ k) :
    (runPatch o { s0 with faultAt := some k }).1 = (runPatch o { s0 with faultAt := none }).1 ∧
    (runPatch o { s0 with faultAt := some k }).2.fs = (runPatch o { s0 with faultAt := none }).2.fs ∧
    (runPatch o { s0 with faultAt := some k }).2.out = (runPatch o { s0 with faultAt := none }).2.out := by
  have h := runPatch_out o { s0 with faultAt := none } k rfl (by show s0.opCount ≤ k; omega)
  have e : wf k { s0 with faultAt := none } = { s0 with faultAt := some k } := rfl
  rw [e] at h
  rcases h with ⟨h1, h2, _⟩ | ⟨h1, _⟩ | ⟨h1, _⟩
  · exact ⟨h1, by rw [h2, wf_fs], by rw [h2, wf_out]⟩
  · omega
  · omega

/-- up to the fault the two runs are the same run: the operations performed before it are a prefix of the fault-free trace — and
    all of them, unless the fault was a tolerated one (D105), where the trace goes on without the `chmod` which failed -/
theorem fault_prefix (o : Options) (s0 : DState) (k : Nat) (hc : s0.opCount = 0) (ht : s0.trace = []) :
    (∃ rest, (runPatch o { s0 with faultAt := none }).2.trace = (runPatch o { s0 with faultAt := some k }).2.trace ++ rest) ∨
    ToleratedChmod { s0 with faultAt := none } (runPatch o { s0 with faultAt := none }).2 (runPatch o { s0 with faultAt := some k }).2 := by
  have _ := ht   -- not needed: both runs start from the same trace
  have h := runPatch_out o { s0 with faultAt := none } k rfl (by show s0.opCount ≤ k; omega)
  have e : wf k { s0 with faultAt := none } = { s0 with faultAt := some k } := rfl
  rw [e] at h
  rcases h with ⟨_, h2, _⟩ | ⟨_, _, _, h4⟩ | ⟨_, _, h3⟩
  · exact .inl ⟨[], by rw [h2, wf_trace, List.append_nil]⟩
  · exact .inl h4
  · exact .inr h3

end PatchModel.C10

#print axioms PatchModel.C10.fault_is_fatal
#print axioms PatchModel.C10.fault_is_fatal_unless_chmod
#print axioms PatchModel.C10.fault_not_reached
#print axioms PatchModel.C10.fault_prefix
