import PatchModel.Spec.Script
namespace PatchModel.C10
/-- placeholder until the driver model's theorems are in (see DESIGN.md section 5/C10) -/
theorem placeholder : True := trivial
end PatchModel.C10
