/-
  C18 end to end for the CREATION of a file with a backup asked for — the whole modelled program (`runPatch` = `main` after option
  parsing) on the TEXT of the plain (non-git) unified diff

      --- /dev/null
      +++ name
      @@ -0,0 +1,n @@
      +line 1
      …
      +line n                                   (`C01Create.newFileBareText name new`; in general `RunCr.bareText devNull name (h :: hs')`)

  run as   patch -b [-B pfx] [-z sfx] [-u] [-pN] [-F n] -i pname      in a tree WITHOUT `name`.
  The situation of `C01Create.C01_run_create_bare` / `C01_run_newfile_bare` (which ask for `o.saveBackup = false`), with
  `o.saveBackup = true`.  What the model does (`Backup::make_backup_for` of a file which does not exist: `make_way_for bn; creat bn`):

  * `C18_run_create_backup_of_lines` (whatever the text, given its lines) / `C18_run_create_backup_gen` (bare header, hunks
    `h :: hs'`, any backup name without slash) / `C18_run_create_backup` (THE diff for the lines `new`, plain `-b`: the backup is
    `name.orig`) — exit status 0; `name` is a regular file with the rendered lines and the mode `0666 & ~umask`; the BACKUP NAME is an
    EMPTY regular file (bytes `[]`: "the pre-patch bytes" of a file that was not there) with the mode `creat` gives, `0666 & ~umask`
    as well; every other path is as it was (no reject file); the tree is `(fs.set backup (.file [] m)).set name (.file content m)`;
    all that is done to the tree, after the four operations on anonymous temporaries, is `creat backup`, `creat name`,
    `write name content` in this order; the log is exactly "patching file name"; the backup name is the one backup recorded, no
    reject is.
  * `C18_run_create_backup_dry_gen` / `C18_run_create_backup_dry` — the same run under --dry-run (with or without `-b`): exit status
    0, the tree untouched (nothing at `name`, nothing at the backup name), no backup recorded.

  Side conditions, in addition to those of `C01_run_create_bare` (`CreateOptsB` = `CreateOpts` without `noBackup`, no operand, no `-p`
  or `-p0`, `CreateStart`, nothing at `name` nor at the empty name, the patch file readable):
    * `s0.backedUp = []` (what `main` starts with: a backup name already in the list is not backed up again);
    * the backup name has no slash (so its directory is the working directory; a theorem for `name.orig`: `C18Run.orig_flat`);
    * NOTHING is at the backup name (`hfree`).  The neighbouring cases: a regular file or a symbolic link there is unlinked first
      (`make_way_for`) and the outcome is the same tree — `C18_run_create_backup_taken_of_lines` / `C18_run_create_backup_taken`
      (`hl`, `RunCrB.InWay n` in place of `hfree`; the trace has `unlink backup` in front of `creat backup`); a DIRECTORY there makes
      `creat` fail — exit status 2, nothing created (evaluated below, `Scope`; no theorem).
    * NOT needed: `backupName o name ≠ name` (a theorem, `RunB.backupName_ne`); root (the patch file readable is enough: `hread`).
-/
import PatchModel.Props.C01RunCreate
import PatchModel.Props.C18Run
import PatchModel.Lemmas.RunCrB
namespace PatchModel.C18RunCreate
open PatchModel PatchModel.Section PatchModel.Run PatchModel.DriverFacts PatchModel.RunB PatchModel.RunCr PatchModel.RunCrB
  PatchModel.C01 PatchModel.C01Create

/-- `C01Create.CreateOpts` without `noBackup` -/
structure CreateOptsB (o : Options) (pname : Bytes) : Prop where
  noOut : o.outFile = []
  noReverse : o.reverse = false
  noDefine : o.define = []
  fuzz : 0 ≤ o.maxFuzz
  quiet : o.verbose = false
  file : FileOpts o pname

theorem createOpts_flip {o : Options} {pname : Bytes} (h : CreateOptsB o pname) :
    CreateOpts { o with saveBackup := false } pname :=
  { noOut := h.noOut, noBackup := rfl, noReverse := h.noReverse, noDefine := h.noDefine, fuzz := h.fuzz, quiet := h.quiet,
    file := { patchFile := h.file.patchFile, noDir := h.file.noDir, noHelp := h.file.noHelp, noVersion := h.file.noVersion,
              noContext := h.file.noContext, noNormal := h.file.noNormal, noEd := h.file.noEd } }

/-- the trace of a section that creates `name` with `content`, the empty backup `bn` first -/
abbrev createBackupOps (bn name content : Bytes) : List FsOp :=
  [.tmpCreate, .tmpUnlink, .tmpCreate, .tmpUnlink] ++ [.creat bn] ++ writeOps name content

section
variable {o : Options} {s0 : DState} {name pname : Bytes} {pm : Nat}
  {filler : List Line} {oldf newf opath npath : Bytes} {h : Hunk} {hs' : List Hunk}

/-- header scan, body parse and the applier's verdict for the one section of the diff (`C01Create.createSection_of_lines` without
    `o.saveBackup = false`: nothing in it looks at that option) -/
theorem createSectionB_of_lines (ho : CreateOptsB o pname) (ht : TargetRead o opath npath name) (hs0 : CreateStart s0)
    (hname : name ≠ [])
    (habsent : s0.fs.lookup name = none) (hnoempty : o.fileToPatch = [] → s0.fs.lookup [] = none)
    (hd : CreateLines o filler oldf newf opath npath h hs') (hvalid : Valid [] 0 0 (h :: hs')) :
    ∃ patch0 info par1 par2 r,
      CreateSectionB o (forced o) (loopStart s0 (nameLines filler oldf newf (h :: hs'))) name patch0
        { patch0 with hunks := h :: hs' } info par1 par2 r ∧
      render o.newlineOutput r.out = Render.renderText o.newlineOutput (splice [] 0 (h :: hs')) ∧
      par2.s.eof = true := by
  obtain ⟨patch0, info, par1, par2, r, H, hr, heof⟩ :=
    createSection_of_lines (o := { o with saveBackup := false }) (pname := pname) (opath := opath) (npath := npath) (name := name)
      (createOpts_flip ho) ht hs0 hname habsent hnoempty
      { fillerInert := hd.fillerInert, fillerPlain := hd.fillerPlain, oldLine := hd.oldLine, newLine := hd.newLine,
        writable := hd.writable, creates := hd.creates } hvalid
  exact ⟨patch0, info, par1, par2, r, CreateSectionB.of_flip H, hr, heof⟩

/-- from the closed form of the one section to the closed form of the run (`C01Create.runPatch_of_create_section` for a section that
    may have recorded a backup) -/
theorem runPatch_of_create_sectionB (ho : FileOpts o pname) (hs0 : CreateStart s0) (hpn : pname ≠ []) (hpd : pname ≠ [45])
    (ptext : Bytes) (lines : List Line) (hlines : splitLines ptext = lines)
    (hpatch : s0.fs.lookup pname = some (.file ptext pm)) (hread : s0.fs.isRoot = true ∨ pm / 256 % 2 = 1)
    (s' : DState) (par2 : Parser)
    (hrun : (processSection o (forced o)).run (loopStart s0 lines) = (.ok true, s'))
    (hdone : SectionEnd (loopStart s0 lines) s' name par2) (hhf : s'.hadFailure = (loopStart s0 lines).hadFailure)
    (heof : par2.s.eof = true) :
    runPatch o s0 = (0, s') := by
  have hloop := sectionLoop_one o (forced o) lines.length _ s' rfl hrun (by rw [hdone.par]; exact heof)
  have hrunP := run_processPatchM_readable o s0 s' pname ptext pm (forced o) ho.noDir ho.patchFile hpn hpd
    hs0.cwd hpatch hread (diffFormat_plain o ho.noContext ho.noNormal ho.noEd)
    (by rw [hlines]; exact hloop)
    (by rw [hdone.dWrites]; exact hs0.noWrites) (by rw [hdone.dRemovals]; exact hs0.noRemovals)
  rw [runPatch_of_run o s0 s' ho.noHelp ho.noVersion hrunP]
  have : s'.hadFailure = false := by rw [hhf]; exact hs0.noFailure
  rw [this]; rfl

/-- **C18, the whole program on a patch file whose lines are a unified diff that creates a file, `-b`** — the common core: whatever
    the bytes `ptext` of the patch file, if they split into `filler`, `--- oldf`, `+++ newf` and the lines of the hunks; any `-B` /
    `-z` whose directories are in the tree (`hbdirs`, `hbdir`); nothing at the backup name (`hfree`) -/
theorem C18_run_create_backup_of_lines (ho : CreateOptsB o pname) (hb : o.saveBackup = true)
    (ht : TargetRead o opath npath name) (hreal : o.dryRun = false)
    (hs0 : CreateStart s0) (hbu : s0.backedUp = []) (hname : name ≠ []) (hdirs : DirsThere s0.fs name)
    (hdir : s0.fs.dirExists (parentOf name) = true)
    (hbdirs : DirsThere s0.fs (backupName o name)) (hbdir : s0.fs.dirExists (parentOf (backupName o name)) = true)
    (hfree : s0.fs.lookup (backupName o name) = none)
    (hpn : pname ≠ []) (hpd : pname ≠ [45])
    (habsent : s0.fs.lookup name = none) (hnoempty : o.fileToPatch = [] → s0.fs.lookup [] = none)
    (ptext : Bytes) (hsplit : splitLines ptext = nameLines filler oldf newf (h :: hs'))
    (hpatch : s0.fs.lookup pname = some (.file ptext pm))
    (hread : s0.fs.isRoot = true ∨ pm / 256 % 2 = 1)
    (hd : CreateLines o filler oldf newf opath npath h hs') (hvalid : Valid [] 0 0 (h :: hs')) :
    (runPatch o s0).1 = 0 ∧
    (runPatch o s0).2.fs.lookup name =
      some (.file (Render.renderText o.newlineOutput (splice [] 0 (h :: hs'))) (0o666 - (0o666 &&& s0.fs.umask))) ∧
    (runPatch o s0).2.fs.lookup (backupName o name) = some (.file [] (0o666 - (0o666 &&& s0.fs.umask))) ∧
    (∀ q, q ≠ name → q ≠ backupName o name → (runPatch o s0).2.fs.lookup q = s0.fs.lookup q) ∧
    (runPatch o s0).2.fs = (s0.fs.set (backupName o name) (.file [] (0o666 - (0o666 &&& s0.fs.umask)))).set name
      (.file (Render.renderText o.newlineOutput (splice [] 0 (h :: hs'))) (0o666 - (0o666 &&& s0.fs.umask))) ∧
    (runPatch o s0).2.trace = s0.trace ++
      createBackupOps (backupName o name) name (Render.renderText o.newlineOutput (splice [] 0 (h :: hs'))) ∧
    (runPatch o s0).2.out = s0.out ++ [.file name false] ∧
    (runPatch o s0).2.rejWritten = s0.rejWritten ∧ (runPatch o s0).2.backedUp = [backupName o name] := by
  obtain ⟨patch0, info, par1, par2, r, H, hrender, heof⟩ :=
    createSectionB_of_lines ho ht hs0 hname habsent hnoempty hd hvalid
  obtain ⟨s', hrun, hfs, htr, hbk, hrw, hhf, hout, hdone⟩ := processSection_create_backup H hb hreal hdirs hdir
    (by show s0.backedUp.contains _ = false; rw [hbu]; rfl) hbdirs hbdir hfree
  have hfs' : s'.fs = (s0.fs.set (backupName o name) (.file [] (0o666 - (0o666 &&& s0.fs.umask)))).set name
      (.file (Render.renderText o.newlineOutput (splice [] 0 (h :: hs'))) (0o666 - (0o666 &&& s0.fs.umask))) := by
    rw [hfs, hrender]
  have hnb : name ≠ backupName o name := fun e => backupName_ne o name e.symm
  rw [runPatch_of_create_sectionB ho.file hs0 hpn hpd ptext _ hsplit hpatch hread s' par2 hrun hdone hhf heof]
  refine ⟨rfl, ?_, ?_, ?_, hfs', ?_, hout, hrw, ?_⟩
  · show s'.fs.lookup name = _
    rw [hfs', Fs.lookup_set_self]
  · show s'.fs.lookup (backupName o name) = _
    rw [hfs', Fs.lookup_set_ne _ _ _ _ hnb.symm, Fs.lookup_set_self]
  · intro q hq hqb
    show s'.fs.lookup q = _
    rw [hfs', Fs.lookup_set_ne _ _ _ _ hq, Fs.lookup_set_ne _ _ _ _ hqb]
  · show s'.trace = _
    rw [htr, hrender]
    show s0.trace ++ _ ++ _ ++ _ ++ _ = _
    simp [createBackupOps]
  · show s'.backedUp = _
    rw [hbk]; show s0.backedUp ++ _ = _; rw [hbu]; rfl

/-- **… when a regular file or a symbolic link sits at the backup name** (`hl`, `hn` in place of `hfree`): it is unlinked first
    (`make_way_for`: the empty backup is not written through a link, nor into a file which may have other names); the tree afterwards
    is the same — the backup name is an EMPTY regular file, whatever was there is gone -/
theorem C18_run_create_backup_taken_of_lines (ho : CreateOptsB o pname) (hb : o.saveBackup = true)
    (ht : TargetRead o opath npath name) (hreal : o.dryRun = false)
    (hs0 : CreateStart s0) (hbu : s0.backedUp = []) (hname : name ≠ []) (hdirs : DirsThere s0.fs name)
    (hdir : s0.fs.dirExists (parentOf name) = true)
    (hbdirs : DirsThere s0.fs (backupName o name)) (hbdir : s0.fs.dirExists (parentOf (backupName o name)) = true)
    {n : Node} (hl : s0.fs.lookup (backupName o name) = some n) (hn : InWay n)
    (hpn : pname ≠ []) (hpd : pname ≠ [45])
    (habsent : s0.fs.lookup name = none) (hnoempty : o.fileToPatch = [] → s0.fs.lookup [] = none)
    (ptext : Bytes) (hsplit : splitLines ptext = nameLines filler oldf newf (h :: hs'))
    (hpatch : s0.fs.lookup pname = some (.file ptext pm))
    (hread : s0.fs.isRoot = true ∨ pm / 256 % 2 = 1)
    (hd : CreateLines o filler oldf newf opath npath h hs') (hvalid : Valid [] 0 0 (h :: hs')) :
    (runPatch o s0).1 = 0 ∧
    (runPatch o s0).2.fs.lookup name =
      some (.file (Render.renderText o.newlineOutput (splice [] 0 (h :: hs'))) (0o666 - (0o666 &&& s0.fs.umask))) ∧
    (runPatch o s0).2.fs.lookup (backupName o name) = some (.file [] (0o666 - (0o666 &&& s0.fs.umask))) ∧
    (∀ q, q ≠ name → q ≠ backupName o name → (runPatch o s0).2.fs.lookup q = s0.fs.lookup q) ∧
    (runPatch o s0).2.fs = (s0.fs.set (backupName o name) (.file [] (0o666 - (0o666 &&& s0.fs.umask)))).set name
      (.file (Render.renderText o.newlineOutput (splice [] 0 (h :: hs'))) (0o666 - (0o666 &&& s0.fs.umask))) ∧
    (runPatch o s0).2.trace = s0.trace ++ [.tmpCreate, .tmpUnlink, .tmpCreate, .tmpUnlink] ++
      [.unlink (backupName o name), .creat (backupName o name)] ++
      writeOps name (Render.renderText o.newlineOutput (splice [] 0 (h :: hs'))) ∧
    (runPatch o s0).2.out = s0.out ++ [.file name false] ∧
    (runPatch o s0).2.rejWritten = s0.rejWritten ∧ (runPatch o s0).2.backedUp = [backupName o name] := by
  obtain ⟨patch0, info, par1, par2, r, H, hrender, heof⟩ :=
    createSectionB_of_lines ho ht hs0 hname habsent hnoempty hd hvalid
  obtain ⟨s', hrun, hfs, htr, hbk, hrw, hhf, hout, hdone⟩ := processSection_create_backup_taken H hb hreal hdirs hdir
    (by show s0.backedUp.contains _ = false; rw [hbu]; rfl) hbdirs hbdir hl hn
  have hfs' : s'.fs = (s0.fs.set (backupName o name) (.file [] (0o666 - (0o666 &&& s0.fs.umask)))).set name
      (.file (Render.renderText o.newlineOutput (splice [] 0 (h :: hs'))) (0o666 - (0o666 &&& s0.fs.umask))) := by
    rw [hfs, hrender]
  have hnb : name ≠ backupName o name := fun e => backupName_ne o name e.symm
  rw [runPatch_of_create_sectionB ho.file hs0 hpn hpd ptext _ hsplit hpatch hread s' par2 hrun hdone hhf heof]
  refine ⟨rfl, ?_, ?_, ?_, hfs', ?_, hout, hrw, ?_⟩
  · show s'.fs.lookup name = _
    rw [hfs', Fs.lookup_set_self]
  · show s'.fs.lookup (backupName o name) = _
    rw [hfs', Fs.lookup_set_ne _ _ _ _ hnb.symm, Fs.lookup_set_self]
  · intro q hq hqb
    show s'.fs.lookup q = _
    rw [hfs', Fs.lookup_set_ne _ _ _ _ hq, Fs.lookup_set_ne _ _ _ _ hqb]
  · show s'.trace = _
    rw [htr, hrender]
    show s0.trace ++ _ ++ _ ++ _ ++ _ = _
    simp
  · show s'.backedUp = _
    rw [hbk]; show s0.backedUp ++ _ = _; rw [hbu]; rfl

/-- **C15 / C18 sibling: the same run under --dry-run, whatever `-b` says** — exit status 0, the tree untouched, no backup recorded -/
theorem C18_run_create_backup_dry_of_lines (ho : CreateOptsB o pname) (ht : TargetRead o opath npath name) (hdry : o.dryRun = true)
    (hs0 : CreateStart s0) (hname : name ≠ []) (hpn : pname ≠ []) (hpd : pname ≠ [45])
    (habsent : s0.fs.lookup name = none) (hnoempty : o.fileToPatch = [] → s0.fs.lookup [] = none)
    (ptext : Bytes) (hsplit : splitLines ptext = nameLines filler oldf newf (h :: hs'))
    (hpatch : s0.fs.lookup pname = some (.file ptext pm))
    (hread : s0.fs.isRoot = true ∨ pm / 256 % 2 = 1)
    (hd : CreateLines o filler oldf newf opath npath h hs') (hvalid : Valid [] 0 0 (h :: hs')) :
    (runPatch o s0).1 = 0 ∧ (runPatch o s0).2.fs = s0.fs ∧
    (runPatch o s0).2.trace = s0.trace ++ [.tmpCreate, .tmpUnlink, .tmpCreate, .tmpUnlink] ∧
    (runPatch o s0).2.out = s0.out ++ [.file name true] ∧ (runPatch o s0).2.backedUp = s0.backedUp := by
  obtain ⟨patch0, info, par1, par2, r, H, _, heof⟩ :=
    createSectionB_of_lines ho ht hs0 hname habsent hnoempty hd hvalid
  obtain ⟨s', hrun, hfs, htr, hdone⟩ := processSection_create_backup_dry H hdry
  rw [runPatch_of_create_section ho.file hs0 hpn hpd ptext _ hsplit hpatch hread s' par2 true hrun hdone heof]
  refine ⟨rfl, hfs, ?_, hdone.out, hdone.backedUp⟩
  show s'.trace = _
  rw [htr]
  show s0.trace ++ _ ++ _ = _
  simp

end

/-! ### bare header, a name in the working directory -/

/-- **C18, end to end, the creation with `-b [-B pfx] [-z sfx]`: name lines without time stamps, `name` and the backup name in the
    working directory** (no slash in either; nothing at the backup name), hunks `h :: hs'` with a first range `-0,0 +n` -/
theorem C18_run_create_backup_gen (o : Options) (s0 : DState) (name pname : Bytes) (pm : Nat) (h : Hunk) (hs' : List Hunk)
    (ho : CreateOptsB o pname) (hno : o.fileToPatch = []) (hb : o.saveBackup = true) (hstrip : o.strip ≤ 0)
    (hreal : o.dryRun = false) (hs0 : CreateStart s0) (hbu : s0.backedUp = [])
    (hn : bareFlatName name) (hbn : ∀ c ∈ backupName o name, c ≠ SLASHB)
    (hfree : s0.fs.lookup (backupName o name) = none) (hpn : pname ≠ []) (hpd : pname ≠ [45])
    (habsent : s0.fs.lookup name = none) (hnoempty : s0.fs.lookup [] = none)
    (hpatch : s0.fs.lookup pname = some (.file (bareText devNull name (h :: hs')) pm))
    (hread : s0.fs.isRoot = true ∨ pm / 256 % 2 = 1)
    (hh : CreateHunks h hs') (hvalid : Valid [] 0 0 (h :: hs')) :
    (runPatch o s0).1 = 0 ∧
    (runPatch o s0).2.fs.lookup name =
      some (.file (Render.renderText o.newlineOutput (splice [] 0 (h :: hs'))) (0o666 - (0o666 &&& s0.fs.umask))) ∧
    (runPatch o s0).2.fs.lookup (backupName o name) = some (.file [] (0o666 - (0o666 &&& s0.fs.umask))) ∧
    (∀ q, q ≠ name → q ≠ backupName o name → (runPatch o s0).2.fs.lookup q = s0.fs.lookup q) ∧
    (runPatch o s0).2.fs = (s0.fs.set (backupName o name) (.file [] (0o666 - (0o666 &&& s0.fs.umask)))).set name
      (.file (Render.renderText o.newlineOutput (splice [] 0 (h :: hs'))) (0o666 - (0o666 &&& s0.fs.umask))) ∧
    (runPatch o s0).2.trace = s0.trace ++
      createBackupOps (backupName o name) name (Render.renderText o.newlineOutput (splice [] 0 (h :: hs'))) ∧
    (runPatch o s0).2.out = s0.out ++ [.file name false] ∧
    (runPatch o s0).2.rejWritten = s0.rejWritten ∧ (runPatch o s0).2.backedUp = [backupName o name] := by
  have hd : BareDiff [] devNull name h hs' :=
    { fillerInert := by simp, fillerPlain := by simp, oldName := bareName_devNull, newName := bareName_of_flat hn,
      writable := hh.writable, creates := hh.creates }
  have ht : TargetOf o devNull name name :=
    Or.inr ⟨hno, rfl, flat_ne_devNull hn.2.1, stripPath_flat hn.2.1 hstrip, flat_ne_devNull hn.2.1⟩
  exact C18_run_create_backup_of_lines (filler := []) ho hb (targetRead_of ht) hreal hs0 hbu hn.1 (dirsThere_flat s0.fs hn.2.1)
    (dirExists_parent_of_noSlash s0.fs hn.2.1) (dirsThere_flat s0.fs hbn) (dirExists_parent_of_noSlash s0.fs hbn) hfree hpn hpd
    habsent (fun _ => hnoempty) _ (splitLines_barePatchText hd) hpatch hread (createLines_of_bare hd) hvalid

/-- **C15 / C18 sibling** of `C18_run_create_backup_gen`: --dry-run, `-b` or not -/
theorem C18_run_create_backup_dry_gen (o : Options) (s0 : DState) (name pname : Bytes) (pm : Nat) (h : Hunk) (hs' : List Hunk)
    (ho : CreateOptsB o pname) (hno : o.fileToPatch = []) (hstrip : o.strip ≤ 0) (hdry : o.dryRun = true) (hs0 : CreateStart s0)
    (hn : bareFlatName name) (hpn : pname ≠ []) (hpd : pname ≠ [45])
    (habsent : s0.fs.lookup name = none) (hnoempty : s0.fs.lookup [] = none)
    (hpatch : s0.fs.lookup pname = some (.file (bareText devNull name (h :: hs')) pm))
    (hread : s0.fs.isRoot = true ∨ pm / 256 % 2 = 1)
    (hh : CreateHunks h hs') (hvalid : Valid [] 0 0 (h :: hs')) :
    (runPatch o s0).1 = 0 ∧ (runPatch o s0).2.fs = s0.fs ∧
    (runPatch o s0).2.trace = s0.trace ++ [.tmpCreate, .tmpUnlink, .tmpCreate, .tmpUnlink] ∧
    (runPatch o s0).2.out = s0.out ++ [.file name true] ∧ (runPatch o s0).2.backedUp = s0.backedUp := by
  have hd : BareDiff [] devNull name h hs' :=
    { fillerInert := by simp, fillerPlain := by simp, oldName := bareName_devNull, newName := bareName_of_flat hn,
      writable := hh.writable, creates := hh.creates }
  have ht : TargetOf o devNull name name :=
    Or.inr ⟨hno, rfl, flat_ne_devNull hn.2.1, stripPath_flat hn.2.1 hstrip, flat_ne_devNull hn.2.1⟩
  exact C18_run_create_backup_dry_of_lines (filler := []) ho (targetRead_of ht) hdry hs0 hn.1 hpn hpd
    habsent (fun _ => hnoempty) _ (splitLines_barePatchText hd) hpatch hread (createLines_of_bare hd) hvalid

/-- **C18, end to end: a new file with plain `-b`** (no -B, no -z).  `patch -b -i pname` (no `-p`, or `-p0`) in a tree with nothing
    at `name`, nothing at `name.orig`, and the patch file `pname` = `--- /dev/null`, `+++ name`, `@@ -0,0 +1,n @@`, the lines `new` with
    `+` in front: exit status 0; `name` is a regular file which holds exactly the lines `new` (as `--newline-output` renders them),
    mode `0666 & ~umask`; `name.orig` is an EMPTY regular file, mode `0666 & ~umask`; every other path is as it was; the run did
    `creat name.orig`, `creat name`, `write name …` and nothing else to the tree; the log is exactly "patching file name";
    `name.orig` is the one backup recorded, no reject file is. -/
theorem C18_run_create_backup (o : Options) (s0 : DState) (name pname : Bytes) (pm : Nat) (new : List Line)
    (ho : CreateOptsB o pname) (hno : o.fileToPatch = []) (hb : o.saveBackup = true)
    (hpre : o.backupPrefix = []) (hsuf : o.backupSuffix = []) (hstrip : o.strip ≤ 0)
    (hreal : o.dryRun = false) (hs0 : CreateStart s0) (hbu : s0.backedUp = [])
    (hn : bareFlatName name)
    (hfree : s0.fs.lookup (name ++ str ".orig") = none) (hpn : pname ≠ []) (hpd : pname ≠ [45])
    (habsent : s0.fs.lookup name = none) (hnoempty : s0.fs.lookup [] = none)
    (hpatch : s0.fs.lookup pname = some (.file (newFileBareText name new) pm))
    (hread : s0.fs.isRoot = true ∨ pm / 256 % 2 = 1) (hnew : NewFile new) :
    (runPatch o s0).1 = 0 ∧
    (runPatch o s0).2.fs.lookup name = some (.file (renderLines o.newlineOutput new) (0o666 - (0o666 &&& s0.fs.umask))) ∧
    (runPatch o s0).2.fs.lookup (name ++ str ".orig") = some (.file [] (0o666 - (0o666 &&& s0.fs.umask))) ∧
    (∀ q, q ≠ name → q ≠ name ++ str ".orig" → (runPatch o s0).2.fs.lookup q = s0.fs.lookup q) ∧
    (runPatch o s0).2.fs = (s0.fs.set (name ++ str ".orig") (.file [] (0o666 - (0o666 &&& s0.fs.umask)))).set name
      (.file (renderLines o.newlineOutput new) (0o666 - (0o666 &&& s0.fs.umask))) ∧
    (runPatch o s0).2.trace = s0.trace ++ createBackupOps (name ++ str ".orig") name (renderLines o.newlineOutput new) ∧
    (runPatch o s0).2.out = s0.out ++ [.file name false] ∧
    (runPatch o s0).2.rejWritten = s0.rejWritten ∧ (runPatch o s0).2.backedUp = [name ++ str ".orig"] := by
  have e : backupName o name = name ++ str ".orig" := (C18.backupName_spec o name).1 hpre hsuf
  have h := C18_run_create_backup_gen o s0 name pname pm (newFileHunk new) [] ho hno hb hstrip hreal hs0 hbu hn
    (by rw [e]; exact C18Run.orig_flat hn.2.1) (by rw [e]; exact hfree) hpn hpd habsent hnoempty hpatch hread
    (createHunks_newFile hnew) (newFileHunk_valid hnew)
  rw [e, splice_newFileHunk, Render.renderText_eq_renderLines _ _ hnew.terminated] at h
  exact h

/-- **C18, end to end: a new file with plain `-b`, a regular file or a symbolic link already at `name.orig`** — it is unlinked, then as
    `C18_run_create_backup`: `name.orig` is an EMPTY regular file (what was there is gone; what a link pointed to is untouched: it is
    another path), `name` holds the lines `new`; the run did `unlink name.orig`, `creat name.orig`, `creat name`, `write name …` -/
theorem C18_run_create_backup_taken (o : Options) (s0 : DState) (name pname : Bytes) (pm : Nat) (new : List Line) (n : Node)
    (ho : CreateOptsB o pname) (hno : o.fileToPatch = []) (hb : o.saveBackup = true)
    (hpre : o.backupPrefix = []) (hsuf : o.backupSuffix = []) (hstrip : o.strip ≤ 0)
    (hreal : o.dryRun = false) (hs0 : CreateStart s0) (hbu : s0.backedUp = [])
    (hn : bareFlatName name)
    (hl : s0.fs.lookup (name ++ str ".orig") = some n) (hway : InWay n) (hpn : pname ≠ []) (hpd : pname ≠ [45])
    (habsent : s0.fs.lookup name = none) (hnoempty : s0.fs.lookup [] = none)
    (hpatch : s0.fs.lookup pname = some (.file (newFileBareText name new) pm))
    (hread : s0.fs.isRoot = true ∨ pm / 256 % 2 = 1) (hnew : NewFile new) :
    (runPatch o s0).1 = 0 ∧
    (runPatch o s0).2.fs.lookup name = some (.file (renderLines o.newlineOutput new) (0o666 - (0o666 &&& s0.fs.umask))) ∧
    (runPatch o s0).2.fs.lookup (name ++ str ".orig") = some (.file [] (0o666 - (0o666 &&& s0.fs.umask))) ∧
    (∀ q, q ≠ name → q ≠ name ++ str ".orig" → (runPatch o s0).2.fs.lookup q = s0.fs.lookup q) ∧
    (runPatch o s0).2.fs = (s0.fs.set (name ++ str ".orig") (.file [] (0o666 - (0o666 &&& s0.fs.umask)))).set name
      (.file (renderLines o.newlineOutput new) (0o666 - (0o666 &&& s0.fs.umask))) ∧
    (runPatch o s0).2.trace = s0.trace ++ [.tmpCreate, .tmpUnlink, .tmpCreate, .tmpUnlink] ++
      [.unlink (name ++ str ".orig"), .creat (name ++ str ".orig")] ++ writeOps name (renderLines o.newlineOutput new) ∧
    (runPatch o s0).2.out = s0.out ++ [.file name false] ∧
    (runPatch o s0).2.rejWritten = s0.rejWritten ∧ (runPatch o s0).2.backedUp = [name ++ str ".orig"] := by
  have e : backupName o name = name ++ str ".orig" := (C18.backupName_spec o name).1 hpre hsuf
  have hbn : ∀ c ∈ backupName o name, c ≠ SLASHB := by rw [e]; exact C18Run.orig_flat hn.2.1
  have hd : BareDiff [] devNull name (newFileHunk new) [] :=
    { fillerInert := by simp, fillerPlain := by simp, oldName := bareName_devNull, newName := bareName_of_flat hn,
      writable := (createHunks_newFile hnew).writable, creates := (createHunks_newFile hnew).creates }
  have ht : TargetOf o devNull name name :=
    Or.inr ⟨hno, rfl, flat_ne_devNull hn.2.1, stripPath_flat hn.2.1 hstrip, flat_ne_devNull hn.2.1⟩
  have h := C18_run_create_backup_taken_of_lines (filler := []) ho hb (targetRead_of ht) hreal hs0 hbu hn.1
    (dirsThere_flat s0.fs hn.2.1) (dirExists_parent_of_noSlash s0.fs hn.2.1) (dirsThere_flat s0.fs hbn)
    (dirExists_parent_of_noSlash s0.fs hbn) (n := n) (by rw [e]; exact hl) hway hpn hpd
    habsent (fun _ => hnoempty) _ (splitLines_barePatchText hd) hpatch hread (createLines_of_bare hd) (newFileHunk_valid hnew)
  rw [e, splice_newFileHunk, Render.renderText_eq_renderLines _ _ hnew.terminated] at h
  exact h

/-- **C15 / C18 sibling: the creation under --dry-run, `-b` or not** — exit status 0, the tree untouched (nothing at `name`, nothing at
    a backup name that was free), no backup recorded -/
theorem C18_run_create_backup_dry (o : Options) (s0 : DState) (name pname : Bytes) (pm : Nat) (new : List Line)
    (ho : CreateOptsB o pname) (hno : o.fileToPatch = []) (hstrip : o.strip ≤ 0) (hdry : o.dryRun = true) (hs0 : CreateStart s0)
    (hn : bareFlatName name) (hpn : pname ≠ []) (hpd : pname ≠ [45])
    (habsent : s0.fs.lookup name = none) (hnoempty : s0.fs.lookup [] = none)
    (hpatch : s0.fs.lookup pname = some (.file (newFileBareText name new) pm))
    (hread : s0.fs.isRoot = true ∨ pm / 256 % 2 = 1) (hnew : NewFile new) :
    (runPatch o s0).1 = 0 ∧ (runPatch o s0).2.fs = s0.fs ∧
    (runPatch o s0).2.trace = s0.trace ++ [.tmpCreate, .tmpUnlink, .tmpCreate, .tmpUnlink] ∧
    (runPatch o s0).2.out = s0.out ++ [.file name true] ∧ (runPatch o s0).2.backedUp = s0.backedUp :=
  C18_run_create_backup_dry_gen o s0 name pname pm (newFileHunk new) [] ho hno hstrip hdry hs0 hn hpn hpd habsent hnoempty hpatch
    hread (createHunks_newFile hnew) (newFileHunk_valid hnew)

/-! ### non-vacuity: concrete runs

The instance of `C01Create.NewInstance`: nothing at `n`; `p.diff` = "--- /dev/null\n+++ n\n@@ -0,0 +1 @@\n+hello\n"; options
`-b -i p.diff` as `apply_defaults` leaves them.  Every hypothesis of the theorems is discharged by evaluation in the kernel
(`decide` / `rfl`), the theorems are applied, and — independently — the executable model is run on the same states (`#guard`,
compiled evaluation: executable tests, not proofs). -/
namespace Instance
open PatchModel.C01Create.NewInstance (name pname new sB o newFile)

/-- `-b -i p.diff` -/
def ob : Options := { o with saveBackup := true }
def orig : Bytes := [110, 46, 111, 114, 105, 103]            -- "n.orig"
def hello : Bytes := [104, 101, 108, 108, 111, 10]            -- "hello\n"
#guard orig == str "n.orig" && backupName ob name == orig && hello == str "hello\n"
#guard newFileBareText name new == str "--- /dev/null\n+++ n\n@@ -0,0 +1 @@\n+hello\n"

theorem createOptsB : CreateOptsB ob pname :=
  { noOut := rfl, noReverse := rfl, noDefine := rfl, fuzz := by decide, quiet := rfl,
    file := { patchFile := rfl, noDir := rfl, noHelp := rfl, noVersion := rfl, noContext := rfl, noNormal := rfl, noEd := rfl } }

theorem orig_eq : name ++ str ".orig" = orig := by rw [str_orig]; rfl

/-- **`C18_run_create_backup` applies** (all hypotheses discharged in the kernel): exit status 0, `n` = "hello\n" with mode 0644,
    `n.orig` EMPTY with mode 0644, nothing else touched, `creat n.orig`, `creat n`, `write n` is all that was done, "patching file n"
    all that was said -/
theorem applies :
    (runPatch ob sB).1 = 0 ∧
    (runPatch ob sB).2.fs.lookup name = some (.file hello 0o644) ∧
    (runPatch ob sB).2.fs.lookup orig = some (.file [] 0o644) ∧
    (∀ q, q ≠ name → q ≠ orig → (runPatch ob sB).2.fs.lookup q = sB.fs.lookup q) ∧
    (runPatch ob sB).2.fs = (sB.fs.set orig (.file [] 0o644)).set name (.file hello 0o644) ∧
    (runPatch ob sB).2.trace = [.tmpCreate, .tmpUnlink, .tmpCreate, .tmpUnlink, .creat orig, .creat name, .write name hello] ∧
    (runPatch ob sB).2.out = [.file name false] ∧
    (runPatch ob sB).2.rejWritten = [] ∧ (runPatch ob sB).2.backedUp = [orig] := by
  have h := C18_run_create_backup ob sB name pname 0o644 new createOptsB rfl rfl rfl rfl (by decide) rfl
    ⟨rfl, rfl, rfl, rfl, rfl⟩ rfl (by decide) (by rw [orig_eq]; decide) (by decide) (by decide) rfl rfl rfl (Or.inl rfl) newFile
  have hm : renderLines ob.newlineOutput new = hello := by decide
  have hmode : 0o666 - (0o666 &&& sB.fs.umask) = 0o644 := by decide
  rw [orig_eq, hm, hmode] at h
  exact h

/-- the --dry-run sibling applies, `-b` given: nothing at `n`, nothing at `n.orig`, no backup recorded -/
theorem applies_dry :
    (runPatch { ob with dryRun := true } sB).1 = 0 ∧ (runPatch { ob with dryRun := true } sB).2.fs = sB.fs ∧
    (runPatch { ob with dryRun := true } sB).2.backedUp = [] :=
  let h := C18_run_create_backup_dry { ob with dryRun := true } sB name pname 0o644 new
    { noOut := rfl, noReverse := rfl, noDefine := rfl, fuzz := by decide, quiet := rfl,
      file := { patchFile := rfl, noDir := rfl, noHelp := rfl, noVersion := rfl, noContext := rfl, noNormal := rfl, noEd := rfl } }
    rfl (by decide) rfl ⟨rfl, rfl, rfl, rfl, rfl⟩ (by decide) (by decide) (by decide) rfl rfl rfl (Or.inl rfl) newFile
  ⟨h.1, h.2.1, h.2.2.2.2⟩

/-- a FILE already at the backup name: `C18_run_create_backup_taken` applies — it is replaced by the empty backup -/
def sTaken : DState := { fs := { nodes := [(pname, .file (newFileBareText name new) 0o644), (orig, .file [120] 0o600)] } }
theorem applies_taken :
    (runPatch ob sTaken).1 = 0 ∧ (runPatch ob sTaken).2.fs.lookup name = some (.file hello 0o644) ∧
    (runPatch ob sTaken).2.fs.lookup orig = some (.file [] 0o644) ∧
    (runPatch ob sTaken).2.trace =
      [.tmpCreate, .tmpUnlink, .tmpCreate, .tmpUnlink, .unlink orig, .creat orig, .creat name, .write name hello] := by
  have h := C18_run_create_backup_taken ob sTaken name pname 0o644 new (.file [120] 0o600) createOptsB rfl rfl rfl rfl (by decide) rfl
    ⟨rfl, rfl, rfl, rfl, rfl⟩ rfl (by decide) (by rw [orig_eq]; decide) (Or.inr ⟨_, _, rfl⟩) (by decide) (by decide) rfl rfl rfl
    (Or.inl rfl) newFile
  have hm : renderLines ob.newlineOutput new = hello := by decide
  have hmode : 0o666 - (0o666 &&& sTaken.fs.umask) = 0o644 := by decide
  rw [orig_eq, hm, hmode] at h
  exact ⟨h.1, h.2.1, h.2.2.1, h.2.2.2.2.2.1⟩

/-- a symbolic LINK at the backup name: it is replaced, what it pointed to keeps its node -/
def sLink : DState :=
  { fs := { nodes := [(pname, .file (newFileBareText name new) 0o644), (orig, .symlink [118]), ([118], .file [120] 0o600)] } }
theorem applies_link :
    (runPatch ob sLink).1 = 0 ∧ (runPatch ob sLink).2.fs.lookup orig = some (.file [] 0o644) ∧
    (runPatch ob sLink).2.fs.lookup [118] = some (.file [120] 0o600) := by
  have h := C18_run_create_backup_taken ob sLink name pname 0o644 new (.symlink [118]) createOptsB rfl rfl rfl rfl (by decide) rfl
    ⟨rfl, rfl, rfl, rfl, rfl⟩ rfl (by decide) (by rw [orig_eq]; decide) (Or.inl ⟨_, rfl⟩) (by decide) (by decide) rfl rfl rfl
    (Or.inl rfl) newFile
  have hmode : 0o666 - (0o666 &&& sLink.fs.umask) = 0o644 := by decide
  rw [orig_eq, hmode] at h
  refine ⟨h.1, h.2.2.1, ?_⟩
  rw [h.2.2.2.1 [118] (by decide) (by decide)]
  decide

-- independently: the executable model on the same states (executable tests)
#guard (runPatch ob sB).1 == 0
#guard (runPatch ob sB).2.fs.lookup name == some (.file (str "hello\n") 0o644)
#guard (runPatch ob sB).2.fs.lookup (str "n.orig") == some (.file [] 0o644)          -- the backup of nothing: an empty file
#guard (runPatch ob sB).2.fs.nodes ==
  [(pname, .file (newFileBareText name new) 0o644), (str "n.orig", .file [] 0o644), (name, .file (str "hello\n") 0o644)]
#guard (runPatch ob sB).2.trace ==
  [.tmpCreate, .tmpUnlink, .tmpCreate, .tmpUnlink, .creat (str "n.orig"), .creat name, .write name (str "hello\n")]
#guard (runPatch ob sB).2.out == [.file name false]
#guard (runPatch ob sB).2.backedUp == [str "n.orig"] && (runPatch ob sB).2.rejWritten.isEmpty
#guard (runPatch { ob with dryRun := true } sB).1 == 0 && (runPatch { ob with dryRun := true } sB).2.fs.nodes == sB.fs.nodes &&
  (runPatch { ob with dryRun := true } sB).2.backedUp.isEmpty
-- both modes follow the umask
#guard (runPatch ob { sB with fs := { sB.fs with umask := 0o077 } }).2.fs.lookup name == some (.file (str "hello\n") 0o600) &&
  (runPatch ob { sB with fs := { sB.fs with umask := 0o077 } }).2.fs.lookup orig == some (.file [] 0o600)

end Instance

/-! ### the side conditions, evaluated (executable tests) -/
namespace Scope
open PatchModel.C01Create.NewInstance (name pname new sB o)
open PatchModel.C18RunCreate.Instance (ob orig sTaken sLink)

-- `hfree`, a regular FILE already at the backup name: it is unlinked first (`make_way_for`), then the same tree
#guard (runPatch ob sTaken).1 == 0 && (runPatch ob sTaken).2.fs.lookup orig == some (.file [] 0o644) &&
  (runPatch ob sTaken).2.fs.lookup name == some (.file (str "hello\n") 0o644)
#guard (runPatch ob sTaken).2.trace ==
  [.tmpCreate, .tmpUnlink, .tmpCreate, .tmpUnlink, .unlink orig, .creat orig, .creat name, .write name (str "hello\n")]
-- `hfree`, a symbolic LINK at the backup name: unlinked, what it pointed to keeps its bytes
#guard (runPatch ob sLink).1 == 0 && (runPatch ob sLink).2.fs.lookup orig == some (.file [] 0o644) &&
  (runPatch ob sLink).2.fs.lookup (str "v") == some (.file [120] 0o600)
-- `hfree`, a DIRECTORY at the backup name: `creat` fails — exit status 2, nothing at `n`
def sDir : DState := { fs := { nodes := [(pname, .file (newFileBareText name new) 0o644), (orig, .dir 0o755)] } }
#guard (runPatch ob sDir).1 == 2 && (runPatch ob sDir).2.fs.lookup name == none &&
  (runPatch ob sDir).2.fs.lookup orig == some (.dir 0o755)
-- `hbu`: a backup name that is already in the list is not made again — no `n.orig`
#guard (runPatch ob { sB with backedUp := [orig] }).1 == 0 && (runPatch ob { sB with backedUp := [orig] }).2.fs.lookup orig == none &&
  (runPatch ob { sB with backedUp := [orig] }).2.fs.lookup name == some (.file (str "hello\n") 0o644)
-- `-z .bak`: `C18_run_create_backup_gen` covers it
#guard (runPatch { ob with backupSuffix := str ".bak" } sB).2.fs.lookup (str "n.bak") == some (.file [] 0o644) &&
  (runPatch { ob with backupSuffix := str ".bak" } sB).2.fs.lookup orig == none

end Scope

end PatchModel.C18RunCreate
