/-
  C13 — context format round trip (see Wip/C13U.lean for the unified half).
-/
import PatchModel.Spec.Diff
import PatchModel.Lemmas.Context
import PatchModel.Lemmas.Unified
namespace PatchModel.C13
open PatchModel

/-- **context round trip, exact**: the hunks of a context format reject file (separator line between hunks, end of file
    after the last) are read back by `parse_context_patch` as hunks with the same old side and the same new side, line
    by line — contents and the terminator class (LF, CR LF, none) of every line — and the same ranges.  The interleaving
    of '-' and '+' lines may differ: it is not in the text of a context diff.

    (Up to the fix "a line that came with CR LF is written with CR LF" the sides came back with the LF/CRLF class
    forgotten: `sameChange`, now the corollary `context_roundtrip_sameChange`.) -/
theorem context_roundtrip (hs : List Hunk) (hne : hs ≠ []) (hw : ∀ h ∈ hs, h.writable = true)
    (bytes : Bytes) (hb : ctxRejectBody hs = .ok bytes) (lineNo : Nat) (fuel : Nat) (hf : hs.length < fuel) :
    ∃ hs' par', parseContextBody fuel { s := { rest := splitLines bytes }, lineNo := lineNo } [] = .ok (hs', par') ∧
      hs'.length = hs.length ∧
      (∀ i (hi : i < hs.length) (hi' : i < hs'.length),
        oldOf hs'[i].lines = oldOf hs[i].lines ∧ newOf hs'[i].lines = newOf hs[i].lines ∧
        hs'[i].old = hs[i].old ∧ hs'[i].new = hs[i].new) ∧
      par'.s.rest = [] :=
  Context.context_roundtrip_exact_of Unified.number_roundtrip hs hne hw bytes hb lineNo fuel hf

/-- the round trip with the LF/CRLF class forgotten (the statement of `context_roundtrip` before the writer kept CR LF):
    a corollary of the exact one -/
theorem context_roundtrip_sameChange (hs : List Hunk) (hne : hs ≠ []) (hw : ∀ h ∈ hs, h.writable = true)
    (bytes : Bytes) (hb : ctxRejectBody hs = .ok bytes) (lineNo : Nat) (fuel : Nat) (hf : hs.length < fuel) :
    ∃ hs' par', parseContextBody fuel { s := { rest := splitLines bytes }, lineNo := lineNo } [] = .ok (hs', par') ∧
      hs'.length = hs.length ∧
      (∀ i (hi : i < hs.length) (hi' : i < hs'.length), sameChange hs'[i] hs[i]) ∧
      par'.s.rest = [] :=
  Context.context_roundtrip_of Unified.number_roundtrip hs hne hw bytes hb lineNo fuel hf

/-- **the final newline of a context diff can matter** (unlike that of a unified diff, C13U `unified_final_newline_irrelevant`):
    the text `*** 1 ****` / `- a` / `--- 1 ----` / `*** 2 ****` (`Context.danglingRange`: a hunk whose new half is omitted,
    then a dangling range line; fuel 6 is what `parse_patch_body` passes for 4 lines) is refused when the last line ends in a
    newline — the hunk loop goes on with the range line and finds nothing after it — and is accepted, the last line left
    unread, when it does not: reading that line set the end-of-file flag, un-reading it does not clear the flag, and the
    look-ahead of the hunk loop reads nothing.  The program does the same (exit status 2 "Unable to retrieve line for
    context range" against exit status 0 with the hunk applied). -/
theorem context_final_newline_matters :
    (parseContextBody 6 { s := { rest := Context.danglingRange .lf } } []).map (·.1) = .error .runtimeError ∧
    (parseContextBody 6 { s := { rest := Context.danglingRange .none } } []).map (·.1)
      = .ok [⟨⟨1, 1⟩, ⟨1, 0⟩, [⟨MINUS, ⟨[97], .lf⟩⟩]⟩] :=
  ⟨Context.danglingRange_lf, Context.danglingRange_none⟩

/-- writing never fails for writable hunks, in either format -/
theorem context_write_ok (hs : List Hunk) (hw : ∀ h ∈ hs, h.writable = true) : ∃ bytes, ctxRejectBody hs = .ok bytes := by
  induction hs with
  | nil => exact ⟨[], rfl⟩
  | cons h hs ih =>
    obtain ⟨hops, hoc, hnc, _⟩ := Context.writable_spec h (hw h (by simp))
    obtain ⟨b, hb⟩ := Apply.writeHunkContext_ok h ⟨hops, hoc, hnc⟩
    obtain ⟨rest, hr⟩ := ih (fun h' hh' => hw h' (by simp [hh']))
    exact ⟨_, by rw [ctxRejectBody, hb, hr]⟩

/-! ### a last line that ends in a bare CR, context format -/

/-- NEW (`mark_as_unterminated`: the `\ No newline at end of file` marker keeps the CR of the line before it).
    **Context round trip, exact, for the wider class of hunks** of C13U `unified_roundtrip_cr` (`Unified.writableCR`: only
    a line that ends in LF must not end in CR): the last line of a side, without newline and ending in a bare CR, is
    written `content LF` + marker — a CR LF terminated line in the text — and read back with its CR.
    `context_roundtrip` is the special case of hunks none of whose lines ends in CR. -/
theorem context_roundtrip_cr (hs : List Hunk) (hne : hs ≠ []) (hw : ∀ h ∈ hs, Unified.writableCR h = true)
    (bytes : Bytes) (hb : ctxRejectBody hs = .ok bytes) (lineNo : Nat) (fuel : Nat) (hf : hs.length < fuel) :
    ∃ hs' par', parseContextBody fuel { s := { rest := splitLines bytes }, lineNo := lineNo } [] = .ok (hs', par') ∧
      hs'.length = hs.length ∧
      (∀ i (hi : i < hs.length) (hi' : i < hs'.length),
        oldOf hs'[i].lines = oldOf hs[i].lines ∧ newOf hs'[i].lines = newOf hs[i].lines ∧
        hs'[i].old = hs[i].old ∧ hs'[i].new = hs[i].new) ∧
      par'.s.rest = [] :=
  Context.context_roundtrip_exact_cr_of Unified.number_roundtrip hs hne hw bytes hb lineNo fuel hf

/-- hunks whose last old / new / context line ends in a bare CR: in the wider class, not in the old one -/
def bareCrHunks : List Hunk :=
  [⟨⟨1, 1⟩, ⟨1, 1⟩, [⟨MINUS, ⟨[97, CR], .none⟩⟩, ⟨PLUS, ⟨[98], .lf⟩⟩]⟩,
   ⟨⟨1, 2⟩, ⟨1, 2⟩, [⟨SP, ⟨[99], .lf⟩⟩, ⟨MINUS, ⟨[97], .lf⟩⟩, ⟨PLUS, ⟨[98, CR], .none⟩⟩]⟩,
   ⟨⟨1, 1⟩, ⟨1, 1⟩, [⟨SP, ⟨[99, CR], .none⟩⟩]⟩]

example : ∀ h ∈ bareCrHunks, Unified.writableCR h = true ∧ h.writable = false := by decide

-- the same by running the model (compiled evaluation)
#guard (match ctxRejectBody bareCrHunks with
  | .ok b =>
    (match parseContextBody 10 { s := { rest := splitLines b } } [] with
     | .ok (hs, par') =>
         hs.map (fun h => (oldOf h.lines, newOf h.lines, h.old, h.new)) ==
           bareCrHunks.map (fun h => (oldOf h.lines, newOf h.lines, h.old, h.new)) && par'.s.rest.isEmpty
     | _ => false)
  | _ => false)

end PatchModel.C13

#print axioms PatchModel.C13.context_roundtrip
#print axioms PatchModel.C13.context_roundtrip_sameChange
#print axioms PatchModel.C13.context_final_newline_matters
#print axioms PatchModel.C13.context_write_ok
#print axioms PatchModel.C13.context_roundtrip_cr
