/-
  C13 — context format round trip (see Wip/C13U.lean for the unified half).
-/
import PatchModel.Spec.Diff
import PatchModel.Lemmas.Context
import PatchModel.Lemmas.Unified
namespace PatchModel.C13
open PatchModel

/-- **context round trip, exact**: the hunks of a context format reject file (separator line between hunks, end of file
    after the last) are read back by `parse_context_patch` as hunks with the same old side and the same new side, line
    by line — contents and the terminator class (LF, CR LF, none) of every line — and the same ranges.  The interleaving
    of '-' and '+' lines may differ: it is not in the text of a context diff.

    (Up to the fix "a line that came with CR LF is written with CR LF" the sides came back with the LF/CRLF class
    forgotten: `sameChange`, now the corollary `context_roundtrip_sameChange`.) -/
theorem context_roundtrip (hs : List Hunk) (hne : hs ≠ []) (hw : ∀ h ∈ hs, h.writable = true)
    (bytes : Bytes) (hb : ctxRejectBody hs = .ok bytes) (lineNo : Nat) (fuel : Nat) (hf : hs.length < fuel) :
    ∃ hs' par', parseContextBody fuel { s := { rest := splitLines bytes }, lineNo := lineNo } [] = .ok (hs', par') ∧
      hs'.length = hs.length ∧
      (∀ i (hi : i < hs.length) (hi' : i < hs'.length),
        oldOf hs'[i].lines = oldOf hs[i].lines ∧ newOf hs'[i].lines = newOf hs[i].lines ∧
        hs'[i].old = hs[i].old ∧ hs'[i].new = hs[i].new) ∧
      par'.s.rest = [] :=
  Context.context_roundtrip_exact_of Unified.number_roundtrip hs hne hw bytes hb lineNo fuel hf

/-- the round trip with the LF/CRLF class forgotten (the statement of `context_roundtrip` before the writer kept CR LF):
    a corollary of the exact one -/
theorem context_roundtrip_sameChange (hs : List Hunk) (hne : hs ≠ []) (hw : ∀ h ∈ hs, h.writable = true)
    (bytes : Bytes) (hb : ctxRejectBody hs = .ok bytes) (lineNo : Nat) (fuel : Nat) (hf : hs.length < fuel) :
    ∃ hs' par', parseContextBody fuel { s := { rest := splitLines bytes }, lineNo := lineNo } [] = .ok (hs', par') ∧
      hs'.length = hs.length ∧
      (∀ i (hi : i < hs.length) (hi' : i < hs'.length), sameChange hs'[i] hs[i]) ∧
      par'.s.rest = [] :=
  Context.context_roundtrip_of Unified.number_roundtrip hs hne hw bytes hb lineNo fuel hf

/-- **the final newline of a context diff can matter** (unlike that of a unified diff, C13U `unified_final_newline_irrelevant`):
    the text `*** 1 ****` / `- a` / `--- 1 ----` / `*** 2 ****` (`Context.danglingRange`: a hunk whose new half is omitted,
    then a dangling range line; fuel 6 is what `parse_patch_body` passes for 4 lines) is refused when the last line ends in a
    newline — the hunk loop goes on with the range line and finds nothing after it — and is accepted, the last line left
    unread, when it does not: reading that line set the end-of-file flag, un-reading it does not clear the flag, and the
    look-ahead of the hunk loop reads nothing.  The program does the same (exit status 2 "Unable to retrieve line for
    context range" against exit status 0 with the hunk applied). -/
theorem context_final_newline_matters :
    (parseContextBody 6 { s := { rest := Context.danglingRange .lf } } []).map (·.1) = .error .runtimeError ∧
    (parseContextBody 6 { s := { rest := Context.danglingRange .none } } []).map (·.1)
      = .ok [⟨⟨1, 1⟩, ⟨1, 0⟩, [⟨MINUS, ⟨[97], .lf⟩⟩]⟩] :=
  ⟨Context.danglingRange_lf, Context.danglingRange_none⟩

/-- writing never fails for writable hunks, in either format -/
theorem context_write_ok (hs : List Hunk) (hw : ∀ h ∈ hs, h.writable = true) : ∃ bytes, ctxRejectBody hs = .ok bytes := by
  induction hs with
  | nil => exact ⟨[], rfl⟩
  | cons h hs ih =>
    obtain ⟨hops, hoc, hnc, _⟩ := Context.writable_spec h (hw h (by simp))
    obtain ⟨b, hb⟩ := Apply.writeHunkContext_ok h ⟨hops, hoc, hnc⟩
    obtain ⟨rest, hr⟩ := ih (fun h' hh' => hw h' (by simp [hh']))
    exact ⟨_, by rw [ctxRejectBody, hb, hr]⟩

/-! ### a last line that ends in a bare CR, context format -/

/-- NEW (`mark_as_unterminated`: the `\ No newline at end of file` marker keeps the CR of the line before it).
    **Context round trip, exact, for the wider class of hunks** of C13U `unified_roundtrip_cr` (`Unified.writableCR`: only
    a line that ends in LF must not end in CR): the last line of a side, without newline and ending in a bare CR, is
    written `content LF` + marker — a CR LF terminated line in the text — and read back with its CR.
    `context_roundtrip` is the special case of hunks none of whose lines ends in CR. -/
theorem context_roundtrip_cr (hs : List Hunk) (hne : hs ≠ []) (hw : ∀ h ∈ hs, Unified.writableCR h = true)
    (bytes : Bytes) (hb : ctxRejectBody hs = .ok bytes) (lineNo : Nat) (fuel : Nat) (hf : hs.length < fuel) :
    ∃ hs' par', parseContextBody fuel { s := { rest := splitLines bytes }, lineNo := lineNo } [] = .ok (hs', par') ∧
      hs'.length = hs.length ∧
      (∀ i (hi : i < hs.length) (hi' : i < hs'.length),
        oldOf hs'[i].lines = oldOf hs[i].lines ∧ newOf hs'[i].lines = newOf hs[i].lines ∧
        hs'[i].old = hs[i].old ∧ hs'[i].new = hs[i].new) ∧
      par'.s.rest = [] :=
  Context.context_roundtrip_exact_cr_of Unified.number_roundtrip hs hne hw bytes hb lineNo fuel hf

/-- hunks whose last old / new / context line ends in a bare CR: in the wider class, not in the old one -/
def bareCrHunks : List Hunk :=
  [⟨⟨1, 1⟩, ⟨1, 1⟩, [⟨MINUS, ⟨[97, CR], .none⟩⟩, ⟨PLUS, ⟨[98], .lf⟩⟩]⟩,
   ⟨⟨1, 2⟩, ⟨1, 2⟩, [⟨SP, ⟨[99], .lf⟩⟩, ⟨MINUS, ⟨[97], .lf⟩⟩, ⟨PLUS, ⟨[98, CR], .none⟩⟩]⟩,
   ⟨⟨1, 1⟩, ⟨1, 1⟩, [⟨SP, ⟨[99, CR], .none⟩⟩]⟩]

example : ∀ h ∈ bareCrHunks, Unified.writableCR h = true ∧ h.writable = false := by decide

-- the same by running the model (compiled evaluation)
#guard (match ctxRejectBody bareCrHunks with
  | .ok b =>
    (match parseContextBody 10 { s := { rest := splitLines b } } [] with
     | .ok (hs, par') =>
         hs.map (fun h => (oldOf h.lines, newOf h.lines, h.old, h.new)) ==
           bareCrHunks.map (fun h => (oldOf h.lines, newOf h.lines, h.old, h.new)) && par'.s.rest.isEmpty
     | _ => false)
  | _ => false)

/-! ### a half is only left out when the other half has no changed line (C09-motivated) -/

/-- NEW (fix "a half of a context hunk may only be left out if the other half has no '!' line").
    **Changed lines need their counterpart**: when the hunk reader takes the new half for omitted (`nl = []`) although
    the old half has a '!' line, the body is refused with `std::invalid_argument`.  Before the fix the '!' lines of the old
    half were turned into deletions and the hunk applied (`damagedText` below: damaged text of the new half made the
    reader take it for omitted). -/
theorem context_changed_lines_need_counterpart (fuel : Nat) (par par1 : Parser) (hs : List Hunk)
    (ol : List PatchLine) (os ns : Int) (l : PatchLine)
    (hp : parseContextHunk par = .ok (ol, os, [], ns, par1)) (hl : l ∈ ol) (hb : l.op = BANG) :
    parseContextBody (fuel + 1) par hs = .error .invalidArgument := by
  have hany : ol.any (·.op == BANG) = true := List.any_eq_true.mpr ⟨l, hl, by simp [hb]⟩
  rw [parseContextBody]
  simp [hp, hany]

/-- the symmetric one: the old half left out although the new half has a '!' line -/
theorem context_changed_lines_need_counterpart_new (fuel : Nat) (par par1 : Parser) (hs : List Hunk)
    (nl : List PatchLine) (os ns : Int) (l : PatchLine)
    (hp : parseContextHunk par = .ok ([], os, nl, ns, par1)) (hl : l ∈ nl) (hb : l.op = BANG) :
    parseContextBody (fuel + 1) par hs = .error .invalidArgument := by
  have hany : nl.any (·.op == BANG) = true := List.any_eq_true.mpr ⟨l, hl, by simp [hb]⟩
  rw [parseContextBody]
  simp [hp, hany]

/-- the same read from the accepting side: whenever the body parser does not fail with the hunk reader's result in hand, a
    half that is empty comes with a '!'-free other half — in every hunk the body parser goes on with, each '!' line has
    a non-empty opposite half -/
theorem context_accepted_halves (fuel : Nat) (par par1 : Parser) (hs : List Hunk) (ol nl : List PatchLine) (os ns : Int)
    (r : List Hunk × Parser)
    (hp : parseContextHunk par = .ok (ol, os, nl, ns, par1)) (hok : parseContextBody (fuel + 1) par hs = .ok r) :
    (nl = [] → ∀ l ∈ ol, l.op ≠ BANG) ∧ (ol = [] → ∀ l ∈ nl, l.op ≠ BANG) := by
  constructor
  · intro hn l hl hb
    subst hn
    rw [context_changed_lines_need_counterpart fuel par par1 hs ol os ns l hp hl hb] at hok
    cases hok
  · intro ho l hl hb
    subst ho
    rw [context_changed_lines_need_counterpart_new fuel par par1 hs nl os ns l hp hl hb] at hok
    cases hok

/-- a context diff whose new half is damaged (`X a` where `  a` stood): the hunk reader sees no line of a new half after
    `--- 2,4 ----` and takes the half for omitted, although the old half has two '!' lines -/
def damagedText : Bytes :=
  str "*** a/f\n--- b/f\n***************\n*** 2,5 ****\n  a\n! b\n! b\n  b\n--- 2,4 ----\nX a\n! }\n  b\n"

-- the hunk reader on the body of `damagedText`: old half with two '!' lines, new half taken for omitted; what
-- `hunk_from_context_parts` makes of it is a hunk that deletes the two `b` lines (what was applied before the fix) ...
#guard (match parseHeader { s := { rest := splitLines damagedText } } { format := .unknown } 0 with
  | .ok (true, p, _, par1) =>
    p.format == .context &&
    (match parseContextHunk par1 with
     | .ok (ol, os, nl, ns, _) =>
       ol.map (·.op) == [SP, BANG, BANG, SP] && nl.isEmpty &&
       (match hunkFromContextParts os ol ns nl with
        | .ok h => h.lines.map (fun pl => (pl.op, pl.line.content)) == [(SP, [97]), (MINUS, [98]), (MINUS, [98]), (SP, [98])]
        | _ => false)
     | _ => false)
  | _ => false)

-- ... and now `parse_patch_body`, `parse_patch` and the section loop refuse the text with `std::invalid_argument`
#guard (match parseHeader { s := { rest := splitLines damagedText } } { format := .unknown } 0 with
  | .ok (true, p, _, par1) => (match parseBody par1 p with | .error .invalidArgument => true | _ => false)
  | _ => false)
#guard (match parsePatch damagedText .unknown 0 with | .error .invalidArgument => true | _ => false)
#guard (match parsePatch damagedText .context 0 with | .error .invalidArgument => true | _ => false)
#guard (match parseAll .unknown 0 20 { s := { rest := splitLines damagedText } } [] with
  | .error .invalidArgument => true | _ => false)

/-- the lines of `damagedText` after its two header lines -/
def damagedBody : List Line :=
  [⟨[42, 42, 42, 42, 42, 42, 42, 42, 42, 42, 42, 42, 42, 42, 42], .lf⟩, ⟨[42, 42, 42, 32, 50, 44, 53, 32, 42, 42, 42, 42], .lf⟩,
   ⟨[32, 32, 97], .lf⟩, ⟨[33, 32, 98], .lf⟩, ⟨[33, 32, 98], .lf⟩, ⟨[32, 32, 98], .lf⟩,
   ⟨[45, 45, 45, 32, 50, 44, 52, 32, 45, 45, 45, 45], .lf⟩, ⟨[88, 32, 97], .lf⟩, ⟨[33, 32, 125], .lf⟩, ⟨[32, 32, 98], .lf⟩]

#guard (splitLines damagedText).drop 2 == damagedBody
#guard (match parseHeader { s := { rest := splitLines damagedText } } { format := .unknown } 0 with
  | .ok (_, _, _, par1) => par1.s.rest == damagedBody | _ => false)

/-- the same, kernel-checked: the body of `damagedText` (fuel 12 is what `parse_patch_body` passes for 10 lines) is
    refused with `std::invalid_argument` -/
theorem damagedText_refused :
    (parseContextBody 12 { s := { rest := damagedBody }, lineNo := 2 } []).map (·.1) = .error .invalidArgument := by
  open Context in
  simp [damagedBody, parseContextBody, parseContextHunk, ctxSkipToOldRange, Parser.getLine, PStream.getLine,
    startsWith_lit _ _ _ str_old4, endsWith_lit _ _ _ str_old5, startsWith_lit _ _ _ str_new4, endsWith_lit _ _ _ str_new5,
    startsWith_lit _ _ _ str_stars10,
    List.isPrefixOf, ctxRangeText, parseContextRange, consumeLineNumber, isDigit, stringToLineNumber, i64Max, consumeStr,
    ctxParseNewRange, ctxAppendLine, ctxAppendContent, ctxCheckNoNewline, PStream.peek, BACKSLASH, SP, MINUS, PLUS, BANG,
    isToFileLine, PStream.seek, Except.map]

end PatchModel.C13

#print axioms PatchModel.C13.context_roundtrip
#print axioms PatchModel.C13.context_roundtrip_sameChange
#print axioms PatchModel.C13.context_final_newline_matters
#print axioms PatchModel.C13.context_write_ok
#print axioms PatchModel.C13.context_roundtrip_cr
#print axioms PatchModel.C13.context_changed_lines_need_counterpart
#print axioms PatchModel.C13.context_changed_lines_need_counterpart_new
#print axioms PatchModel.C13.context_accepted_halves
#print axioms PatchModel.C13.damagedText_refused
