/-
  C13 — context format round trip (see Wip/C13U.lean for the unified half).
-/
import PatchModel.Spec.Diff
import PatchModel.Lemmas.Context
import PatchModel.Lemmas.Unified
namespace PatchModel.C13
open PatchModel

/-- **context round trip**: the hunks of a context format reject file (separator line between hunks, end of file after the
    last) are read back by `parse_context_patch` as hunks denoting the same changes: same old side, same new side
    (content and missing-newline marker), same ranges — the interleaving of '-' and '+' lines may differ. -/
theorem context_roundtrip (hs : List Hunk) (hne : hs ≠ []) (hw : ∀ h ∈ hs, h.writable = true)
    (bytes : Bytes) (hb : ctxRejectBody hs = .ok bytes) (lineNo : Nat) (fuel : Nat) (hf : hs.length < fuel) :
    ∃ hs' par', parseContextBody fuel { s := { rest := splitLines bytes }, lineNo := lineNo } [] = .ok (hs', par') ∧
      hs'.length = hs.length ∧
      (∀ i (hi : i < hs.length) (hi' : i < hs'.length), sameChange hs'[i] hs[i]) ∧
      par'.s.rest = [] :=
  Context.context_roundtrip_of Unified.number_roundtrip hs hne hw bytes hb lineNo fuel hf

/-- writing never fails for writable hunks, in either format -/
theorem context_write_ok (hs : List Hunk) (hw : ∀ h ∈ hs, h.writable = true) : ∃ bytes, ctxRejectBody hs = .ok bytes := by
  induction hs with
  | nil => exact ⟨[], rfl⟩
  | cons h hs ih =>
    obtain ⟨hops, hoc, hnc, _⟩ := Context.writable_spec h (hw h (by simp))
    obtain ⟨b, hb⟩ := Apply.writeHunkContext_ok h ⟨hops, hoc, hnc⟩
    obtain ⟨rest, hr⟩ := ih (fun h' hh' => hw h' (by simp [hh']))
    exact ⟨_, by rw [ctxRejectBody, hb, hr]⟩

end PatchModel.C13

#print axioms PatchModel.C13.context_roundtrip
#print axioms PatchModel.C13.context_write_ok
