/-
  C04 (apply_patch level) — every hunk is applied or saved as a reject; placing a hunk is never fatal.
-/
import PatchModel.Lemmas.Apply
import PatchModel.Props.C02Apply
namespace PatchModel.C04
open PatchModel

/-- for well-formed hunks `apply_patch` always returns (no `std::out_of_range` from `lines.at`, no "Corrupt patch"
    from the reject formatter), whatever the line numbers, unless it has to ask and there is no tty -/
theorem apply_total (file : List Line) (p0 : Patch) (o : ApplyOpts) (tty : Option (List Bool))
    (hwf : ∀ h ∈ p0.hunks, h.WF) (hD : o.define = [])
    (hnoprompt : o.ignoreReversed = true ∨ o.batch = true ∨ o.force = true ∨ tty ≠ none) :
    ∃ r, applyPatch file p0 o tty = .ok r :=
  Apply.applyPatch_total (C02.locatorSound file _ _) hwf hD hnoprompt

/-- each hunk index is either applied or rejected, exactly once; the failure count is the number of rejects -/
theorem apply_partition (file : List Line) (p0 : Patch) (o : ApplyOpts) (tty : Option (List Bool)) (r : ApplyResult)
    (hr : applyPatch file p0 o tty = .ok r) :
    (r.applied.map (·.1) ++ r.rejected.map (·.1)).Perm (List.range p0.hunks.length) ∧
      r.failed = r.rejected.length ∧ r.patch.hunks.length = p0.hunks.length :=
  Apply.applyPatch_partition hr

/-- a rejected hunk is the hunk of that index with both start lines shifted by the same amount, body untouched -/
theorem rejected_are_shifted (file : List Line) (p0 : Patch) (o : ApplyOpts) (tty : Option (List Bool)) (r : ApplyResult)
    (hr : applyPatch file p0 o tty = .ok r) :
    ∀ ih ∈ r.rejected, ∃ h d, r.patch.hunks[ih.1]? = some h ∧ ih.2.lines = h.lines ∧
      ih.2.old.count = h.old.count ∧ ih.2.new.count = h.new.count ∧
      ih.2.old.start = h.old.start + d ∧ ih.2.new.start = h.new.start + d := by
  intro ih hih
  obtain ⟨h, d, h1, h2⟩ := Apply.applyPatch_rejected_shifted hr ih hih
  refine ⟨h, d, h1, ?_⟩
  rw [h2]
  exact ⟨rfl, rfl, rfl, rfl, rfl⟩

end PatchModel.C04
