/-
  C05 end to end — `-R` is the inverse, for the whole modelled program (`runPatch` = `main` after option parsing):

      patch -R [-u] [-pN] [-F n] [--newline-output=…] -i pname name

  where the tree holds the target `name` in its NEW state (content `newbytes`, whose lines are
  `splice (splitLines bytes) 0 hs`, mode `m`, writable) and the patch file `pname`, whose content is the text of a unified diff
  (`--- old TAB oldt`, `+++ new TAB newt`, the hunks `hs` as `write_hunk_as_unified` writes them), `hs` a `Valid` script of
  `splitLines bytes` — the diff that led from `bytes` to `newbytes`.  Then the exit status is 0, `name` holds the lines of the OLD
  file `bytes`, rendered, with its mode, and no other path of the tree differs (`C05_run`, `C05_run_filler`); when the output mode
  does not rewrite the terminators of the old file (`--newline-output=keep`, or no CR LF line and not `=crlf`) the target holds
  `bytes` itself (`C05_run_bytes`); with --dry-run the exit status is 0 and the tree is untouched (`C05_run_dry`).
  `C05_roundtrip_run`: the forward run of `C01_run` followed by the reverse run on the state it leaves restores the old lines (the
  bytes: `C05_roundtrip_run_bytes`), every other path as it was at the very start.

  Composition of `C05.C05_core` (the applier under `reverse := true`), `RunR.parse_diffLines_modes` (header + body of the text),
  `RunR.processSection_change` (`processSection` for a patch which the applier swapped: the driver then looks at
  `reversePatch patch2` — operation still "change", format unified, new mode = the header's OLD mode = 0) and the closed forms of
  Lemmas/Run.lean (`C01.runPatch_of_section`).

  Hypotheses compared with `C01_run`:
  * `RunOptsR`: `RunOpts` with `o.reverse = true` in place of `= false`.  Nothing is asked of `--ignore-reversed` / `-N` / `-f` /
    `-t`: `C05_core` needs none of it — every hunk applies at its stated place without fuzz, no question is reached.
  * the target: `htarget` (its bytes `newbytes`) + `hnew : splitLines newbytes = splice (splitLines bytes) 0 hs` — the tree holds
    a file whose LINES are the result of the diff.  (`newbytes := Render.renderText .keep (splice …)` is the canonical such file when the
    lines are ones `splitLines` can produce; `C05_roundtrip_run` meets it with the file the forward run wrote.)
  * NOT needed: the reversed-D2 exclusion `NoReversedD2` of `C05_core` ("no hunk states `+0,0` while the new file is not empty" —
    reversed, such a hunk is a context-free insertion at line 0 of a non-empty file, which the program rejects: known finding D2's
    mirror image).  It follows from `Valid` and `changeStart` (`RunR.noReversedD2_of_valid`: stated new positions do not
    decrease and the first hunk does not state new start 0).  But `changeStart`, which for the forward run is a mere scope
    condition of the proof (`C01.Scope.del1`: the run still gives the intended result), is REQUIRED under `-R` for that reason:
    `NeedsChangeStart` below — the diff that removes the first line, `@@ -1 +0,0 @@`, of a two-line file applies forward (exit 0)
    and is REJECTED in reverse (exit 1, target untouched, a reject file).
  * `C05_roundtrip_run`: `pname ≠ name` (the forward run must not overwrite the patch file) and `hrt`: the file written by the
    forward run is read back as the lines written (`splitLines (Render.renderText o.newlineOutput new) = new`; `renderText`, the bytes
    written since D97, is `renderLines` when only the last line may lack its newline); it holds whenever the
    new lines are LF-terminated, without CR at the end, and the mode is not `crlf` (`RunR.splitLines_renderLines_lf`, used by
    `C05_roundtrip_run_bytes`).  It is REQUIRED: `NeedsReadBack` below — forward with `--newline-output=crlf`, the reverse run
    then finds CR LF lines where the diff states LF lines, and every hunk is rejected (exit 1).
-/
import PatchModel.Props.C01Run
import PatchModel.Props.C05
import PatchModel.Props.C14
import PatchModel.Lemmas.RunR
namespace PatchModel.C05
open PatchModel PatchModel.Section PatchModel.Run PatchModel.RunR PatchModel.DriverFacts PatchModel.C01

/-- `C01.PlainOpts` with `-R` -/
structure PlainOptsR (o : Options) (p : Bytes) : Prop where
  operand : o.fileToPatch = p
  noOut : o.outFile = []
  noBackup : o.saveBackup = false
  reverse : o.reverse = true
  noDefine : o.define = []
  fuzz : 0 ≤ o.maxFuzz
  quiet : o.verbose = false

/-- the options of a plain reverse run: `patch -R [-u] [-pN] [-F n] [--newline-output=…] -i pname name` -/
structure RunOptsR (o : Options) (name pname : Bytes) : Prop where
  plain : PlainOptsR o name
  file : FileOpts o pname

/-- the reverse counterpart of `C01.plainSection_of_valid`: the target holds a file whose lines are `splice … hs`; the applier,
    called with `reverse := true`, gives back the lines of the old file (`C05_core`) and hands back the swapped patch -/
theorem reverseSection_of_valid (o : Options) (fmt : Format) (s : DState) (p bytes newbytes : Bytes) (m : Nat)
    (patch0 : Patch) (info : HeaderInfo) (par1 par2 : Parser) (hs : List Hunk)
    (ho : PlainOptsR o p) (hp : p ≠ []) (hcwd : s.cwd = [])
    (hhdr : parseHeader s.par { format := fmt } o.strip = .ok (true, patch0, info, par1))
    (hfmt : patch0.format = .unified ∨ patch0.format = .context ∨ patch0.format = .normal)
    (hop : patch0.operation = .change) (hpre : patch0.prerequisite = []) (hom : patch0.oldMode = 0)
    (hbody : parseBody par1 patch0 = .ok ({ patch0 with hunks := hs }, par2))
    (hfile : s.fs.lookup p = some (.file newbytes m)) (hw : m &&& writeMask ≠ 0) (hroot : s.fs.isRoot = true)
    (hvalid : Valid (splitLines bytes) 0 0 hs) (hx : NoReversedD2 (splitLines bytes) hs)
    (hnew : splitLines newbytes = splice (splitLines bytes) 0 hs) (hf : s.faultAt = none) :
    ∃ r, ChangeSection o fmt s p newbytes m patch0 { patch0 with hunks := hs } (reversePatch { patch0 with hunks := hs })
        info par1 par2 r ∧
      render o.newlineOutput r.out = renderLines o.newlineOutput (splitLines bytes) := by
  have hrev : (applyOptsOf o).reverse = true := ho.reverse
  obtain ⟨r, hap, hrout, _, hrfail, hrperf, hrskip, hrmsgs, hrtty, hrpatch⟩ :=
    C05_core (splitLines bytes) hs { patch0 with hunks := hs } (applyOptsOf o)
      (Option.map (fun l => List.map (fun a => !List.isEmpty a && List.head? a != some 110) l) s.tty)
      hvalid hx rfl ho.noDefine hrev ho.fuzz
  refine ⟨r, ?_, Render.render_of_map_line _ hrout (Render.linesTerminated_splitLines bytes)⟩
  exact {
    operand := ho.operand, noOut := ho.noOut, noBackup := ho.noBackup, pathNe := hp, cwd := hcwd, hdr := hhdr,
    fmt := hfmt, op := hop, pre := hpre, body := hbody, file := hfile,
    writable := hw, root := hroot, noFault := hf, apply := by rw [hnew]; exact hap, failed := hrfail, perfect := hrperf,
    skipped := hrskip, msgs := hrmsgs ho.quiet, ttyLeft := hrtty,
    patch := hrpatch, fmt3 := rfl,
    op3 := by show (match patch0.operation with | .delete => Operation.add | .add => .delete | o => o) = .change
              rw [hop],
    newMode3 := hom }

section
variable {o : Options} {s0 : DState} {name pname bytes newbytes : Bytes} {m pm : Nat}
  {filler : List Line} {old new oldt newt : Bytes} {hs : List Hunk}

/-- header scan, body parse and the applier's verdict for the one section of the diff, under `-R` -/
theorem reverseSection_of_diff (ho : RunOptsR o name pname) (hs0 : CleanStart s0) (hname : name ≠ [])
    (htarget : s0.fs.lookup name = some (.file newbytes m)) (hw : m &&& writeMask ≠ 0)
    (hd : UnifiedDiff filler old new oldt newt hs) (hvalid : Valid (splitLines bytes) 0 0 hs)
    (hnew : splitLines newbytes = splice (splitLines bytes) 0 hs) :
    ∃ patch0 patch3 info par1 par2 r,
      ChangeSection o (forced o) (loopStart s0 (diffLines filler old new oldt newt hs)) name newbytes m patch0
        { patch0 with hunks := hs } patch3 info par1 par2 r ∧
      render o.newlineOutput r.out = renderLines o.newlineOutput (splitLines bytes) ∧
      par2.s.eof = true := by
  have hfl : ∀ l ∈ filler, l.newline ≠ .none := by
    intro l hl
    have := hd.fillerPlain l hl
    unfold lfPlain at this
    simp only [Bool.and_eq_true, beq_iff_eq] at this
    rw [this.1]; simp
  have hfmt : forced o = .unknown ∨ forced o = .unified := by
    unfold forced; split
    · exact Or.inr rfl
    · exact Or.inl rfl
  obtain ⟨patch0, info, par1, par2, hhdr, hf, hop, hpre, _, _, hom, _, hbody, heof⟩ :=
    parse_diffLines_modes o.strip (forced o) hfmt filler old new oldt newt hs 1 hd.fillerInert hfl hd.oldName.1 hd.newName.1
      hd.oldStamp.1 hd.newStamp.1 hd.nonEmpty hd.writable hd.change
  obtain ⟨r, H, hrender⟩ := reverseSection_of_valid o (forced o) (loopStart s0 (diffLines filler old new oldt newt hs)) name
    bytes newbytes m patch0 info par1 par2 hs ho.plain hname hs0.cwd hhdr (Or.inl hf) hop hpre hom hbody htarget hw hs0.root
    hvalid (noReversedD2_of_valid hvalid hd.change) hnew hs0.noFault
  exact ⟨patch0, _, info, par1, par2, r, H, hrender, heof⟩

/-- what a clean one-section run leaves behind is a state a next run can start in -/
theorem cleanStart_of_done {s' : DState} {par2 : Parser} {dry : Bool} {lines : List Line} {node : Node}
    (hs0 : CleanStart s0) (hdone : SectionDone (loopStart s0 lines) s' name par2 dry)
    (hfs : s'.fs = s0.fs.set name node ∨ s'.fs = s0.fs) : CleanStart s' :=
  { cwd := by rw [hdone.cwd]; exact hs0.cwd, noFault := by rw [hdone.faultAt]; exact hs0.noFault,
    noFailure := by rw [hdone.hadFailure]; exact hs0.noFailure, noWrites := by rw [hdone.dWrites]; exact hs0.noWrites,
    noRemovals := by rw [hdone.dRemovals]; exact hs0.noRemovals,
    root := by rcases hfs with h | h <;> rw [h] <;> exact hs0.root }

/-- **the reverse run, as a state**: exit status 0; the tree is the old tree with the target set to the old file's lines,
    rendered; the state left behind is clean again (a further run may start in it) -/
theorem C05_run_state (ho : RunOptsR o name pname) (hreal : o.dryRun = false) (hs0 : CleanStart s0)
    (hname : name ≠ []) (hdir : s0.fs.dirExists (parentOf name) = true) (hpn : pname ≠ []) (hpd : pname ≠ [45])
    (htarget : s0.fs.lookup name = some (.file newbytes m)) (hw : m &&& writeMask ≠ 0)
    (hpatch : s0.fs.lookup pname = some (.file (patchText filler old new oldt newt hs) pm))
    (hd : UnifiedDiff filler old new oldt newt hs) (hvalid : Valid (splitLines bytes) 0 0 hs)
    (hnew : splitLines newbytes = splice (splitLines bytes) 0 hs) :
    ∃ s', runPatch o s0 = (0, s') ∧
      s'.fs = s0.fs.set name (.file (renderLines o.newlineOutput (splitLines bytes)) m) ∧ CleanStart s' := by
  obtain ⟨patch0, patch3, info, par1, par2, r, H, hrender, heof⟩ := reverseSection_of_diff ho hs0 hname htarget hw hd hvalid hnew
  obtain ⟨s', hrun, hfs, _, hdone⟩ := processSection_change H hreal hdir
  refine ⟨s', runPatch_of_section ho.file hs0 hpn hpd hpatch hd s' par2 false hrun hdone heof, ?_,
    cleanStart_of_done hs0 hdone (Or.inl hfs)⟩
  rw [hfs, hrender]

/-- **the forward run of `C01_run_filler`, as a state** (the same composition, keeping what `C01_run_filler` forgets) -/
theorem C01_run_state (ho : RunOpts o name pname) (hreal : o.dryRun = false) (hs0 : CleanStart s0)
    (hname : name ≠ []) (hdir : s0.fs.dirExists (parentOf name) = true) (hpn : pname ≠ []) (hpd : pname ≠ [45])
    (htarget : s0.fs.lookup name = some (.file bytes m)) (hw : m &&& writeMask ≠ 0)
    (hpatch : s0.fs.lookup pname = some (.file (patchText filler old new oldt newt hs) pm))
    (hd : UnifiedDiff filler old new oldt newt hs) (hvalid : Valid (splitLines bytes) 0 0 hs) :
    ∃ s', runPatch o s0 = (0, s') ∧
      s'.fs = s0.fs.set name (.file (Render.renderText o.newlineOutput (splice (splitLines bytes) 0 hs)) m) ∧ CleanStart s' := by
  obtain ⟨patch0, info, par1, par2, r, H, hrender, heof⟩ := plainSection_of_diff ho hs0 hname htarget hw hd hvalid
  obtain ⟨s', hrun, hfs, _, hdone⟩ := processSection_clean H hreal hdir
  refine ⟨s', runPatch_of_section ho.file hs0 hpn hpd hpatch hd s' par2 false hrun hdone heof, ?_,
    cleanStart_of_done hs0 hdone (Or.inl hfs)⟩
  rw [hfs, hrender]

/-- **C05, the whole program on the text of a unified diff** (inert filler allowed in front of the header; the names in the
    header need not be the operand's; the target may sit in a directory of the tree) -/
theorem C05_run_filler (ho : RunOptsR o name pname) (hreal : o.dryRun = false) (hs0 : CleanStart s0)
    (hname : name ≠ []) (hdir : s0.fs.dirExists (parentOf name) = true) (hpn : pname ≠ []) (hpd : pname ≠ [45])
    (htarget : s0.fs.lookup name = some (.file newbytes m)) (hw : m &&& writeMask ≠ 0)
    (hpatch : s0.fs.lookup pname = some (.file (patchText filler old new oldt newt hs) pm))
    (hd : UnifiedDiff filler old new oldt newt hs) (hvalid : Valid (splitLines bytes) 0 0 hs)
    (hnew : splitLines newbytes = splice (splitLines bytes) 0 hs) :
    (runPatch o s0).1 = 0 ∧
    (runPatch o s0).2.fs.lookup name = some (.file (renderLines o.newlineOutput (splitLines bytes)) m) ∧
    ∀ q, q ≠ name → (runPatch o s0).2.fs.lookup q = s0.fs.lookup q := by
  obtain ⟨s', hrun, hfs, _⟩ := C05_run_state ho hreal hs0 hname hdir hpn hpd htarget hw hpatch hd hvalid hnew
  rw [hrun]
  refine ⟨rfl, ?_, ?_⟩
  · show s'.fs.lookup name = _
    rw [hfs, Fs.lookup_set_self]
  · intro q hq
    show s'.fs.lookup q = _
    rw [hfs, Fs.lookup_set_ne _ _ _ _ hq]

/-- **C15 sibling: the same reverse run under --dry-run** — exit status 0, the tree untouched -/
theorem C05_run_dry_filler (ho : RunOptsR o name pname) (hdry : o.dryRun = true) (hs0 : CleanStart s0)
    (hname : name ≠ []) (hpn : pname ≠ []) (hpd : pname ≠ [45])
    (htarget : s0.fs.lookup name = some (.file newbytes m)) (hw : m &&& writeMask ≠ 0)
    (hpatch : s0.fs.lookup pname = some (.file (patchText filler old new oldt newt hs) pm))
    (hd : UnifiedDiff filler old new oldt newt hs) (hvalid : Valid (splitLines bytes) 0 0 hs)
    (hnew : splitLines newbytes = splice (splitLines bytes) 0 hs) :
    (runPatch o s0).1 = 0 ∧ (runPatch o s0).2.fs = s0.fs := by
  obtain ⟨patch0, patch3, info, par1, par2, r, H, _, heof⟩ := reverseSection_of_diff ho hs0 hname htarget hw hd hvalid hnew
  obtain ⟨s', hrun, hfs, _, hdone⟩ := processSection_change_dry H hdry
  rw [runPatch_of_section ho.file hs0 hpn hpd hpatch hd s' par2 true hrun hdone heof]
  exact ⟨rfl, hfs⟩

end

/-! ### the statement for a diff of `name` against itself in the working directory, no filler -/

/-- **C05, end to end.**  `patch -R -i pname name` in a tree with the target `name` — holding the NEW file: its lines are
    `splice (splitLines bytes) 0 hs` — and the patch file `pname` = the text of a unified diff (`--- name TAB oldt`,
    `+++ name TAB newt`, hunks `hs`), `hs` a valid script of the lines of the OLD file `bytes`: exit status 0, the target holds
    the old file's lines with its mode, nothing else in the tree differs. -/
theorem C05_run (o : Options) (s0 : DState) (name pname bytes newbytes oldt newt : Bytes) (m pm : Nat) (hs : List Hunk)
    (ho : RunOptsR o name pname) (hreal : o.dryRun = false) (hs0 : CleanStart s0)
    (hn : flatName name) (hpn : pname ≠ []) (hpd : pname ≠ [45])
    (htarget : s0.fs.lookup name = some (.file newbytes m)) (hw : m &&& writeMask ≠ 0)
    (hot : stampOk oldt) (hnt : stampOk newt)
    (hpatch : s0.fs.lookup pname = some (.file (diffText name name oldt newt hs) pm))
    (hh : DiffHunks hs) (hvalid : Valid (splitLines bytes) 0 0 hs)
    (hnew : splitLines newbytes = splice (splitLines bytes) 0 hs) :
    (runPatch o s0).1 = 0 ∧
    (runPatch o s0).2.fs.lookup name = some (.file (renderLines o.newlineOutput (splitLines bytes)) m) ∧
    ∀ q, q ≠ name → (runPatch o s0).2.fs.lookup q = s0.fs.lookup q :=
  C05_run_filler (filler := []) ho hreal hs0 hn.1 (dirExists_parent_of_noSlash s0.fs hn.2.1) hpn hpd htarget hw hpatch
    (unifiedDiff_of_flat hn hot hnt hh) hvalid hnew

/-- the output mode leaves the terminators of the old file alone: `--newline-output=keep`, or the old file has no CR LF line and
    the mode is not `crlf` (the default, `native`, writes LF) -/
def KeepsTerminators (mode : NewlineOutput) (bytes : Bytes) : Prop :=
  mode = .keep ∨ (mode ≠ .crlf ∧ ∀ l ∈ splitLines bytes, l.newline ≠ .crlf)

theorem renderLines_splitLines {mode : NewlineOutput} {bytes : Bytes} (h : KeepsTerminators mode bytes) :
    renderLines mode (splitLines bytes) = bytes := by
  rcases h with h | ⟨h1, h2⟩
  · rw [h, C14.read_write_id]
  · rw [renderLines_noCrlf mode h1 _ h2, C14.read_write_id]

/-- **C05, end to end, in bytes**: the target gets the old file back, byte for byte -/
theorem C05_run_bytes (o : Options) (s0 : DState) (name pname bytes newbytes oldt newt : Bytes) (m pm : Nat) (hs : List Hunk)
    (ho : RunOptsR o name pname) (hreal : o.dryRun = false) (hs0 : CleanStart s0)
    (hn : flatName name) (hpn : pname ≠ []) (hpd : pname ≠ [45])
    (htarget : s0.fs.lookup name = some (.file newbytes m)) (hw : m &&& writeMask ≠ 0)
    (hot : stampOk oldt) (hnt : stampOk newt)
    (hpatch : s0.fs.lookup pname = some (.file (diffText name name oldt newt hs) pm))
    (hh : DiffHunks hs) (hvalid : Valid (splitLines bytes) 0 0 hs)
    (hnew : splitLines newbytes = splice (splitLines bytes) 0 hs)
    (hnl : KeepsTerminators o.newlineOutput bytes) :
    (runPatch o s0).1 = 0 ∧
    (runPatch o s0).2.fs.lookup name = some (.file bytes m) ∧
    ∀ q, q ≠ name → (runPatch o s0).2.fs.lookup q = s0.fs.lookup q := by
  have h := C05_run o s0 name pname bytes newbytes oldt newt m pm hs ho hreal hs0 hn hpn hpd htarget hw hot hnt hpatch hh hvalid hnew
  rw [renderLines_splitLines hnl] at h
  exact h

/-- **C15 for the reverse run, end to end**: with --dry-run it predicts success and leaves the tree alone -/
theorem C05_run_dry (o : Options) (s0 : DState) (name pname bytes newbytes oldt newt : Bytes) (m pm : Nat) (hs : List Hunk)
    (ho : RunOptsR o name pname) (hdry : o.dryRun = true) (hs0 : CleanStart s0)
    (hn : flatName name) (hpn : pname ≠ []) (hpd : pname ≠ [45])
    (htarget : s0.fs.lookup name = some (.file newbytes m)) (hw : m &&& writeMask ≠ 0)
    (hot : stampOk oldt) (hnt : stampOk newt)
    (hpatch : s0.fs.lookup pname = some (.file (diffText name name oldt newt hs) pm))
    (hh : DiffHunks hs) (hvalid : Valid (splitLines bytes) 0 0 hs)
    (hnew : splitLines newbytes = splice (splitLines bytes) 0 hs) :
    (runPatch o s0).1 = 0 ∧ (runPatch o s0).2.fs = s0.fs :=
  C05_run_dry_filler (filler := []) ho hdry hs0 hn.1 hpn hpd htarget hw hpatch (unifiedDiff_of_flat hn hot hnt hh) hvalid hnew

/-! ### forward, then reverse: two runs of the program -/

/-- **the round trip, two whole runs**: `patch -i pname name` (options `o`), then `patch -R -i pname name` (options `oR`) in the
    state which the first run left (its log, its trace, its consumed patch stream and all): both exit with status 0, the target
    holds the lines it had at the very start (rendered by the second run's output mode) with its mode, and every other path of the
    tree is as it was at the very start.  `hrt`: the file written by the first run is read back as the lines written. -/
theorem C05_roundtrip_run (o oR : Options) (s0 : DState) (name pname bytes oldt newt : Bytes) (m pm : Nat) (hs : List Hunk)
    (ho : RunOpts o name pname) (hoR : RunOptsR oR name pname) (hreal : o.dryRun = false) (hrealR : oR.dryRun = false)
    (hs0 : CleanStart s0) (hn : flatName name) (hpn : pname ≠ []) (hpd : pname ≠ [45]) (hne : pname ≠ name)
    (htarget : s0.fs.lookup name = some (.file bytes m)) (hw : m &&& writeMask ≠ 0)
    (hot : stampOk oldt) (hnt : stampOk newt)
    (hpatch : s0.fs.lookup pname = some (.file (diffText name name oldt newt hs) pm))
    (hh : DiffHunks hs) (hvalid : Valid (splitLines bytes) 0 0 hs)
    (hrt : splitLines (Render.renderText o.newlineOutput (splice (splitLines bytes) 0 hs)) = splice (splitLines bytes) 0 hs) :
    (runPatch o s0).1 = 0 ∧ (runPatch oR (runPatch o s0).2).1 = 0 ∧
    (runPatch oR (runPatch o s0).2).2.fs.lookup name =
      some (.file (renderLines oR.newlineOutput (splitLines bytes)) m) ∧
    ∀ q, q ≠ name → (runPatch oR (runPatch o s0).2).2.fs.lookup q = s0.fs.lookup q := by
  have hd := unifiedDiff_of_flat hn hot hnt hh
  have hpatch' : s0.fs.lookup pname = some (.file (patchText [] name name oldt newt hs) pm) := hpatch
  obtain ⟨s1, hrun1, hfs1, hclean1⟩ := C01_run_state (filler := []) ho hreal hs0 hn.1
    (dirExists_parent_of_noSlash s0.fs hn.2.1) hpn hpd htarget hw hpatch' hd hvalid
  have htarget1 : s1.fs.lookup name =
      some (.file (Render.renderText o.newlineOutput (splice (splitLines bytes) 0 hs)) m) := by
    rw [hfs1, Fs.lookup_set_self]
  have hpatch1 : s1.fs.lookup pname = some (.file (patchText [] name name oldt newt hs) pm) := by
    rw [hfs1, Fs.lookup_set_ne _ _ _ _ hne]; exact hpatch'
  obtain ⟨s2, hrun2, hfs2, _⟩ := C05_run_state (filler := []) hoR hrealR hclean1 hn.1
    (dirExists_parent_of_noSlash s1.fs hn.2.1) hpn hpd htarget1 hw hpatch1 hd hvalid hrt
  rw [hrun1]
  show (0 : Nat) = 0 ∧ (runPatch oR s1).1 = 0 ∧ (runPatch oR s1).2.fs.lookup name = _ ∧
    ∀ q, q ≠ name → (runPatch oR s1).2.fs.lookup q = s0.fs.lookup q
  rw [hrun2]
  refine ⟨rfl, rfl, ?_, ?_⟩
  · show s2.fs.lookup name = _
    rw [hfs2, Fs.lookup_set_self]
  · intro q hq
    show s2.fs.lookup q = _
    rw [hfs2, Fs.lookup_set_ne _ _ _ _ hq, hfs1, Fs.lookup_set_ne _ _ _ _ hq]

/-- **the round trip in bytes**, for text whose new lines are LF terminated (no CR at the end of a line) and output modes other
    than `crlf` (the default `native`, `lf`, `keep`): after the two runs the tree is, path for path, the tree of the very start -/
theorem C05_roundtrip_run_bytes (o oR : Options) (s0 : DState) (name pname bytes oldt newt : Bytes) (m pm : Nat) (hs : List Hunk)
    (ho : RunOpts o name pname) (hoR : RunOptsR oR name pname) (hreal : o.dryRun = false) (hrealR : oR.dryRun = false)
    (hs0 : CleanStart s0) (hn : flatName name) (hpn : pname ≠ []) (hpd : pname ≠ [45]) (hne : pname ≠ name)
    (htarget : s0.fs.lookup name = some (.file bytes m)) (hw : m &&& writeMask ≠ 0)
    (hot : stampOk oldt) (hnt : stampOk newt)
    (hpatch : s0.fs.lookup pname = some (.file (diffText name name oldt newt hs) pm))
    (hh : DiffHunks hs) (hvalid : Valid (splitLines bytes) 0 0 hs)
    (hmode : o.newlineOutput ≠ .crlf) (hlf : ∀ l ∈ splice (splitLines bytes) 0 hs, lfPlain l = true)
    (hnl : KeepsTerminators oR.newlineOutput bytes) :
    (runPatch o s0).1 = 0 ∧ (runPatch oR (runPatch o s0).2).1 = 0 ∧
    ∀ q, (runPatch oR (runPatch o s0).2).2.fs.lookup q = s0.fs.lookup q := by
  obtain ⟨h1, h2, h3, h4⟩ := C05_roundtrip_run o oR s0 name pname bytes oldt newt m pm hs ho hoR hreal hrealR hs0 hn hpn hpd hne
    htarget hw hot hnt hpatch hh hvalid
    (by rw [Render.renderText_eq_renderLines _ _ (Render.linesTerminated_of_all (fun l hl => by
          have := hlf l hl
          unfold lfPlain at this
          simp only [Bool.and_eq_true, beq_iff_eq] at this
          rw [this.1]; simp))]
        exact splitLines_renderLines_lf _ hmode _ hlf)
  refine ⟨h1, h2, ?_⟩
  intro q
  by_cases hq : q = name
  · rw [hq, h3, renderLines_splitLines hnl, htarget]
  · exact h4 q hq

instance (mode : NewlineOutput) (bytes : Bytes) : Decidable (KeepsTerminators mode bytes) := by
  unfold KeepsTerminators; infer_instance

/-! ### non-vacuity: a concrete run

`f` = "a\nB\nc\n" (mode 0644) — the NEW file —, `p.diff` = the one-hunk unified diff that changes `b` to `B` in "a\nb\nc\n",
options `-R -i p.diff f`.  Every hypothesis of `C05_run_bytes` is discharged by evaluation in the kernel (`decide` / `rfl`), the
theorem is applied, and — independently — the executable model is run on the same state (`#guard`, compiled evaluation: an
executable test, not a proof). -/
namespace InstanceR

def name : Bytes := [102]                                  -- "f"
def pname : Bytes := [112, 46, 100, 105, 102, 102]         -- "p.diff"
def bytes : Bytes := [97, 10, 98, 10, 99, 10]              -- "a\nb\nc\n", the OLD file
def oldt : Bytes := [50, 48, 50, 48]                       -- "2020"
def newt : Bytes := [50, 48, 50, 49]                       -- "2021"
def hk : Hunk := ⟨⟨1, 3⟩, ⟨1, 3⟩, [⟨SP, ⟨[97], .lf⟩⟩, ⟨MINUS, ⟨[98], .lf⟩⟩, ⟨PLUS, ⟨[66], .lf⟩⟩, ⟨SP, ⟨[99], .lf⟩⟩]⟩
def newbytes : Bytes := [97, 10, 66, 10, 99, 10]             -- "a\nB\nc\n"
def s0 : DState :=
  { fs := { nodes := [(name, .file newbytes 0o644), (pname, .file (diffText name name oldt newt [hk]) 0o644)] } }
def o : Options := { defaultOptions with fileToPatch := name, patchFile := pname, reverse := true }

#guard newbytes == str "a\nB\nc\n" && bytes == str "a\nb\nc\n" && name == str "f" && pname == str "p.diff"
-- the same names, bytes and hunk as in the instance of `C01_run`
#guard name == C01.Instance.name && pname == C01.Instance.pname && bytes == C01.Instance.bytes && oldt == C01.Instance.oldt &&
  newt == C01.Instance.newt && hk == C01.Instance.hk
#guard diffText name name oldt newt [hk] == str "--- f\t2020\n+++ f\t2021\n@@ -1,3 +1,3 @@\n a\n-b\n+B\n c\n"

theorem runOptsR : RunOptsR o name pname :=
  { plain := { operand := rfl, noOut := rfl, noBackup := rfl, reverse := rfl, noDefine := rfl, fuzz := by decide, quiet := rfl },
    file := { patchFile := rfl, noDir := rfl, noHelp := rfl, noVersion := rfl, noContext := rfl, noNormal := rfl, noEd := rfl } }

/-- the tree holds the new file: its lines are the result of the diff -/
theorem holdsNew : splitLines newbytes = splice (splitLines bytes) 0 [hk] := by decide

/-- the theorem applies: all its hypotheses hold of the instance; the target gets "a\nb\nc\n" back -/
theorem applies :
    (runPatch o s0).1 = 0 ∧
    (runPatch o s0).2.fs.lookup name = some (.file [97, 10, 98, 10, 99, 10] 0o644) ∧
    ∀ q, q ≠ name → (runPatch o s0).2.fs.lookup q = s0.fs.lookup q :=
  C05_run_bytes o s0 name pname bytes newbytes oldt newt 0o644 0o644 [hk] runOptsR rfl ⟨rfl, rfl, rfl, rfl, rfl, rfl⟩
    (by decide) (by decide) (by decide) (by decide) (by decide) (by decide) (by decide) rfl C01.Instance.diffHunks
    (validB_sound _ _ _ _ (by decide)) holdsNew (by decide)

/-- the --dry-run sibling applies as well -/
example : (runPatch { o with dryRun := true } s0).1 = 0 ∧ (runPatch { o with dryRun := true } s0).2.fs = s0.fs :=
  C05_run_dry { o with dryRun := true } s0 name pname bytes newbytes oldt newt 0o644 0o644 [hk]
    { plain := { operand := rfl, noOut := rfl, noBackup := rfl, reverse := rfl, noDefine := rfl, fuzz := by decide, quiet := rfl },
      file := { patchFile := rfl, noDir := rfl, noHelp := rfl, noVersion := rfl, noContext := rfl, noNormal := rfl, noEd := rfl } }
    rfl ⟨rfl, rfl, rfl, rfl, rfl, rfl⟩ (by decide) (by decide) (by decide) (by decide) (by decide) (by decide) (by decide) rfl
    C01.Instance.diffHunks (validB_sound _ _ _ _ (by decide)) holdsNew

/-- the two-run round trip applies to the instance of `C01_run` (tree with "a\nb\nc\n"): forward with `-i p.diff f`, back with
    `-R -i p.diff f`; the tree is the one of the very start -/
theorem roundtrip_applies :
    (runPatch C01.Instance.o C01.Instance.s0).1 = 0 ∧ (runPatch o (runPatch C01.Instance.o C01.Instance.s0).2).1 = 0 ∧
    ∀ q, (runPatch o (runPatch C01.Instance.o C01.Instance.s0).2).2.fs.lookup q = C01.Instance.s0.fs.lookup q :=
  C05_roundtrip_run_bytes C01.Instance.o o C01.Instance.s0 name pname bytes oldt newt 0o644 0o644 [hk] C01.Instance.runOpts
    runOptsR rfl rfl ⟨rfl, rfl, rfl, rfl, rfl, rfl⟩ (by decide) (by decide) (by decide) (by decide) (by decide) (by decide)
    (by decide) (by decide) rfl C01.Instance.diffHunks (validB_sound _ _ _ _ (by decide)) (by decide) (by decide) (by decide)

-- independently: the executable model on the same state (executable tests)
#guard (runPatch o s0).1 == 0
#guard (runPatch o s0).2.fs.lookup name == some (.file (str "a\nb\nc\n") 0o644)
#guard (runPatch o s0).2.fs.lookup pname == s0.fs.lookup pname
#guard (runPatch o s0).2.out == [.file name false]                                  -- "patching file f", nothing else said
#guard (runPatch o s0).2.trace == [.tmpCreate, .tmpUnlink, .tmpCreate, .tmpUnlink, .creat name,
                                   .write name (str "a\nb\nc\n"), .chmod name 0o644]
#guard (runPatch { o with dryRun := true } s0).1 == 0
#guard (runPatch { o with dryRun := true } s0).2.fs.lookup name == some (.file newbytes 0o644)
-- the two runs
#guard (runPatch o (runPatch C01.Instance.o C01.Instance.s0).2).1 == 0
#guard (runPatch o (runPatch C01.Instance.o C01.Instance.s0).2).2.fs.lookup name == some (.file (str "a\nb\nc\n") 0o644)
#guard (runPatch o (runPatch C01.Instance.o C01.Instance.s0).2).2.fs.nodes.length == 2

end InstanceR

/-! ### `changeStart` is REQUIRED under `-R` (it is a mere scope condition of the forward theorems)

`f` = "a\nb\n"; the diff removes the first line: `@@ -1 +0,0 @@` / `-a` (what `diff -U0` writes).  It is a valid script, every
other hypothesis of `C05_run` holds, the forward run succeeds (`C01.Scope.del1`) — but the first range states new start 0, so
`changeStart` fails, and so does the reverse run: reversed, the hunk is a context-free insertion stated at line 0, the program
looks for line "0" of a non-empty file, finds no place and REJECTS the hunk (exit status 1, the target as it was, a reject
file): known finding D2's mirror image, recorded.  (The header scan also infers "delete" from `+0,0`, which `-R` turns into
"add"; the hunk is rejected before that matters.) -/
namespace NeedsChangeStart
def name : Bytes := [102]
def pname : Bytes := [112, 46, 100, 105, 102, 102]
def bytes : Bytes := [97, 10, 98, 10]                       -- "a\nb\n"
def newbytes : Bytes := [98, 10]                            -- "b\n"
def t : Bytes := [116]
def del1 : Hunk := ⟨⟨1, 1⟩, ⟨0, 0⟩, [⟨MINUS, ⟨[97], .lf⟩⟩]⟩  -- @@ -1 +0,0 @@
def s0 : DState :=
  { fs := { nodes := [(name, .file newbytes 0o644), (pname, .file (diffText name name t t [del1]) 0o644)] } }
def o : Options := { defaultOptions with fileToPatch := name, patchFile := pname, reverse := true }

#guard diffText name name t t [del1] == str "--- f\tt\n+++ f\tt\n@@ -1 +0,0 @@\n-a\n"

/-- every hypothesis of `C05_run` about the script but `changeStart` holds (kernel-checked) … -/
theorem others_hold : Valid (splitLines bytes) 0 0 [del1] ∧ splitLines newbytes = splice (splitLines bytes) 0 [del1] ∧
    [del1] ≠ [] ∧ (∀ h ∈ [del1], h.writable = true) ∧ changeStart [del1] = false ∧
    ¬ NoReversedD2 (splitLines bytes) [del1] :=
  ⟨validB_sound _ _ _ _ (by decide), by decide, by decide, by decide, by decide,
   fun h => h del1 List.mem_cons_self ⟨rfl, rfl, by decide⟩⟩

-- … and the reverse run fails: exit status 1, the target untouched, a reject file (executable model)
#guard (runPatch o s0).1 == 1
#guard (runPatch o s0).2.fs.lookup name == some (.file newbytes 0o644)
#guard ((runPatch o s0).2.fs.lookup (str "f.rej")).isSome
-- the forward run of the same diff on the old file succeeds
#guard (runPatch { o with reverse := false }
    { fs := { nodes := [(name, .file bytes 0o644), (pname, .file (diffText name name t t [del1]) 0o644)] } }).2.fs.lookup name
  == some (.file newbytes 0o644)
end NeedsChangeStart

/-! ### `hrt` of the round trip is REQUIRED

The instance of `C01_run`, forward with `--newline-output=crlf`: the first run writes "a\r\nB\r\nc\r\n", which is read back as
three CR LF lines — not the LF lines which the diff states; the reverse run rejects the hunk.  (Not a defect: the file the second
run finds is not the new file of the diff.) -/
namespace NeedsReadBack
open InstanceR (name pname bytes hk)
def oF : Options := { C01.Instance.o with newlineOutput := .crlf }

theorem readBack_fails : splitLines (Render.renderText oF.newlineOutput (splice (splitLines bytes) 0 [hk])) ≠
    splice (splitLines bytes) 0 [hk] := by decide

#guard (runPatch oF C01.Instance.s0).1 == 0
#guard (runPatch oF C01.Instance.s0).2.fs.lookup name == some (.file (str "a\r\nB\r\nc\r\n") 0o644)
#guard (runPatch InstanceR.o (runPatch oF C01.Instance.s0).2).1 == 1
end NeedsReadBack

end PatchModel.C05

#print axioms PatchModel.C05.reverseSection_of_valid
#print axioms PatchModel.C05.C05_run_state
#print axioms PatchModel.C05.C05_run_filler
#print axioms PatchModel.C05.C05_run_dry_filler
#print axioms PatchModel.C05.C05_run
#print axioms PatchModel.C05.C05_run_bytes
#print axioms PatchModel.C05.C05_run_dry
#print axioms PatchModel.C05.C05_roundtrip_run
#print axioms PatchModel.C05.C05_roundtrip_run_bytes
#print axioms PatchModel.C05.InstanceR.applies
#print axioms PatchModel.C05.InstanceR.roundtrip_applies
#print axioms PatchModel.C05.NeedsChangeStart.others_hold
#print axioms PatchModel.C05.NeedsReadBack.readBack_fails
