/-
  C02 / C03 end to end — the whole modelled program (`runPatch` = `main` after option parsing) on the TEXT of a one-hunk unified
  diff whose hunk does NOT sit where it says, or does not match line for line:

      patch [-b] [--[no-]backup-if-mismatch] [-l] [-f] [-u] [-pN] [-F n] [--verbose] [--newline-output=…] -i pname name

  The tree holds the target `name` (content `bytes`, mode `m`, writable) and the patch file `pname`, whose content is
  `diffText name name oldt newt [h]` (`--- name TAB oldt`, `+++ name TAB newt`, the hunk `h` as `write_hunk_as_unified` writes it).

  * `C03_run_located` / `C03_run_located_backup` — the general form: `locate_hunk` places `h` at the 0-based position `p` with fuzz
    `f` and offset `d`, not both 0 (a decidable hypothesis about the locator; C02 `locate_sound` says what such a place is).  Then
    the exit status is 0, nothing is asked, the target holds `spliceAt (splitLines bytes) 0 [(h, p)]` rendered — the file with the
    hunk laid over lines `p+1 …`: additions from the patch, CONTEXT LINES FROM THE FILE — with its old mode, the log is
    `patching file name`, `Hunk #1 succeeded at p+1 [with fuzz f] [(offset d lines)]`, and
      - without a backup due (`o.saveBackup = false`, `o.backupIfMismatch ≠ .yes`: `--no-backup-if-mismatch`, or POSIX mode) no
        other path of the tree differs;
      - with a backup due (`-b`, or `o.backupIfMismatch = .yes` — what `main` sets by default outside POSIX mode,
        `applyDefaults`): the backup name (`name.orig` without -B / -z) holds the OLD bytes with the old mode, no third path
        differs.  That is C18's "a file patched with a mismatch is saved first".
  * `C03_run_offset` / `C03_run_offset_backup` / `C03_run_offset_orig` — **the text has moved**: the target's lines are
    `X ++ oldOf h.lines ++ Y` with `X.length ≠ h.old.start - 1`, and no position that the search visits before `X.length`
    (`RunO.probedBefore`: forward from the stated line to the end of the file, then backward from it) holds the old side exactly.
    Then the target holds `X ++ newOf h.lines ++ Y` rendered, the message is
    `Hunk #1 succeeded at X.length+1 (offset X.length - (h.old.start - 1) lines)`.  `C03_run_offset_unique`: the same under the
    stronger "the old side is found exactly at no other position".
  * `C03_run_fuzz` / `C03_run_fuzz_backup` — **fuzz at the stated line**: no position is admissible with a fuzz below `f`, the
    stated line is admissible with fuzz `f > 0` (`admissibleB`: the outer `fuzzPair h.lines f` context lines are not compared).
    Then the hunk is applied at its stated line, message `Hunk #1 succeeded at h.old.start with fuzz f`, and the result is
    `spliceAt … [(h, h.old.start - 1)]`: the hunk's changed lines applied, the file's own context lines kept.

  Side conditions, each explicit:
    * `h.old.count ≠ 0` — scope: a hunk without an old side (pure insertion without context) is never searched for
      (`C03.locate_insertion_exact`).
    * `o.force = true ∨ h.new.count = 0 ∨ isPerfect (locateHunk … (reverseHunk h) …) = false` — REQUIRED, not a defect: a first hunk
      that is not placed perfectly makes `apply_patch` probe the reversed hunk; if THAT has old lines and sits exactly at its stated
      line the user is asked "Reversed (or previously applied) patch detected!  Assume -R?" (`NeedsNotReversed` below: without a
      terminal the run ends with exit status 2).  `RunO.reversed_not_perfect` gives the third alternative from "the new side is not
      exactly at the line the new range states".
      HISTORY: the hypothesis was `o.force = true ∨ isPerfect (locateHunk … (reverseHunk h) …) = false`.  For a hunk that only REMOVES
      lines (`h.new.count = 0`) the reversed hunk is an insertion without context, which `locate_hunk` always "finds" perfectly — so
      such a hunk, applied with an offset or fuzz, always raised the reversed-patch question (and with `-t` the lines were inserted a
      second time).  That was recorded here as `NeedsNotReversed.pureDeletion`, a counterexample; it was a defect of the program
      (fix 3f5edfc: a reversed hunk without old lines is no evidence), and with the fix mirrored in the model the middle alternative
      `h.new.count = 0` is enough — `NeedsNotReversed.pureDeletion` is now an instance of `C03_run_offset`, under every mode.
    * for the backup: `s0.backedUp = []`, a backup name without slash, and — `hbnd`, new with the model change "a file is not renamed
      onto a directory" — not that of a directory (as in `C18Run.C18_run`, where the reasons are evaluated).
    * `(X.length : Int) ≠ h.old.start - 1` (offset case) / `f ≠ 0` (fuzz case) — scope: otherwise the placement is perfect, which is
      `C01.C01_run` (no message, never a mismatch backup).  `0 ≤ o.maxFuzz` (offset case only): with a negative `-F` nothing is
      ever found.  The hypothesis `FoundFirstAt` is exactly what makes the locator return `X.length` among the exact copies of the
      old side (`Instance.applies_forward_first`: two copies at the same distance, the one after the stated line is taken).
    * NOT needed: `0 ≤ o.maxFuzz` in the general and the fuzz form (the locator's verdict is a hypothesis / follows from
      admissibility), `o.verbose = false` (the one statistics line is printed either way), `Valid`, anything about the terminal.
-/
import PatchModel.Props.C18Run
import PatchModel.Lemmas.RunO
namespace PatchModel.C03Run
open PatchModel PatchModel.Section PatchModel.Run PatchModel.DriverFacts PatchModel.RunB PatchModel.RunO PatchModel.C01
  PatchModel.C18Run

/-- the options: `patch [-b] [--[no-]backup-if-mismatch] [-l] [-f] [-u] [-pN] [-F n] [--verbose] … -i pname name` -/
structure PlaceOpts (o : Options) (name pname : Bytes) : Prop where
  operand : o.fileToPatch = name
  noOut : o.outFile = []
  noReverse : o.reverse = false
  noDefine : o.define = []
  file : FileOpts o pname

/-- the statistics line of `apply_patch` in the log: `Hunk #1 succeeded at LINE [with fuzz F] [(offset D lines)]` -/
abbrev hunkEvent (line fuzz offset : Int) : DEv := .msg (.hunk 1 "succeeded" line fuzz offset)

section
variable {o : Options} {s0 : DState} {name pname bytes : Bytes} {m pm : Nat}
  {filler : List Line} {old new oldt newt : Bytes} {h : Hunk} {p : Nat} {f d : Int}

/-- header scan, body parse and the applier's verdict for a diff whose one hunk is placed, but not perfectly -/
theorem placeSection_of_diff (ho : PlaceOpts o name pname) (hs0 : CleanStart s0) (hname : name ≠ [])
    (htarget : s0.fs.lookup name = some (.file bytes m)) (hw : m &&& writeMask ≠ 0)
    (hd : UnifiedDiff filler old new oldt newt [h]) (hc : h.old.count ≠ 0)
    (hloc : locateHunk (splitLines bytes) h o.ignoreWhitespace 0 o.maxFuzz 0 = some ⟨(p : Int), f, d⟩)
    (hnp : ¬ (d = 0 ∧ f = 0))
    (hrloc : o.force = true ∨ h.new.count = 0 ∨
      isPerfect (locateHunk (splitLines bytes) (reverseHunk h) o.ignoreWhitespace 0 o.maxFuzz 0) = false) :
    ∃ patch0 info par1 par2 r,
      BaseSection o (forced o) (loopStart s0 (diffLines filler old new oldt newt [h])) name bytes m patch0
        { patch0 with hunks := [h] } info par1 par2 r ∧
      r.failed = 0 ∧ r.perfect = false ∧ r.skipped = false ∧
      r.msgs = [Msg.hunk 1 "succeeded" ((p : Int) + 1) f d] ∧
      r.out = spliceAt (splitLines bytes) 0 [(h, p)] ∧
      par2.s.eof = true := by
  have hfl : ∀ l ∈ filler, l.newline ≠ .none := by
    intro l hl
    have := hd.fillerPlain l hl
    unfold lfPlain at this
    simp only [Bool.and_eq_true, beq_iff_eq] at this
    rw [this.1]; simp
  have hfmt : forced o = .unknown ∨ forced o = .unified := by
    unfold forced; split
    · exact Or.inr rfl
    · exact Or.inl rfl
  obtain ⟨patch0, info, par1, par2, hhdr, hf, hop, hpre, _, hnm, _, hbody, heof⟩ :=
    parse_diffLines o.strip (forced o) hfmt filler old new oldt newt [h] 1 hd.fillerInert hfl hd.oldName.1 hd.newName.1
      hd.oldStamp.1 hd.newStamp.1 hd.nonEmpty hd.writable hd.change
  have hrev : (applyOptsOf o).reverse = false := ho.noReverse
  obtain ⟨hops, _, _, _⟩ := Unified.writable_spec h (hd.writable h (List.mem_singleton.2 rfl))
  have hfit : p ≤ (splitLines bytes).length ∧
      ∀ k, (splitLines bytes).length ≤ p + k → Splice.delAt h.lines k = false := by
    obtain ⟨q, _, e, _, _, hadm, _⟩ := C02.locate_sound _ h _ 0 _ 0 _ hloc hc
    have : q = p := by simp only at e; omega
    subst this
    exact ⟨(C02.admissibleB_fit hadm).2, C02.admissibleB_tail hadm⟩
  obtain ⟨r, hap, hrout, _, hrfail, hrskip, hrperf, _, _, hrmsgs, hrtty, hrpatch⟩ :=
    applyPatch_place_one (splitLines bytes) h { patch0 with hunks := [h] } (applyOptsOf o)
      (Option.map (fun l => List.map (fun a => !List.isEmpty a && List.head? a != some 110) l) s0.tty)
      p f d hrev ho.noDefine rfl hops hfit.1 hfit.2 hloc hnp hrloc
  refine ⟨patch0, info, par1, par2, r, ?_, hrfail, hrperf, hrskip, hrmsgs, hrout, heof⟩
  exact {
    operand := ho.operand, noOut := ho.noOut, pathNe := hname, cwd := hs0.cwd, hdr := hhdr,
    fmt := Or.inl hf, op := hop, pre := hpre, body := hbody, fmt2 := rfl, op2 := hop, newMode2 := hnm, file := htarget,
    writable := hw, root := hs0.root, noFault := hs0.noFault, apply := hap, ttyLeft := hrtty, patch := hrpatch }

/-- **C02 / C03, the whole program, the hunk is placed away from its line or with fuzz, no backup due** (inert filler allowed in
    front of the header; the names in the header need not be the operand's; the target may sit in a directory of the tree) -/
theorem C03_run_located_filler (ho : PlaceOpts o name pname) (hnb : o.saveBackup = false) (hbim : o.backupIfMismatch ≠ .yes)
    (hreal : o.dryRun = false) (hs0 : CleanStart s0)
    (hname : name ≠ []) (hdir : s0.fs.dirExists (parentOf name) = true) (hpn : pname ≠ []) (hpd : pname ≠ [45])
    (htarget : s0.fs.lookup name = some (.file bytes m)) (hw : m &&& writeMask ≠ 0)
    (hpatch : s0.fs.lookup pname = some (.file (patchText filler old new oldt newt [h]) pm))
    (hd : UnifiedDiff filler old new oldt newt [h]) (hc : h.old.count ≠ 0)
    (hloc : locateHunk (splitLines bytes) h o.ignoreWhitespace 0 o.maxFuzz 0 = some ⟨(p : Int), f, d⟩)
    (hnp : ¬ (d = 0 ∧ f = 0))
    (hrloc : o.force = true ∨ h.new.count = 0 ∨
      isPerfect (locateHunk (splitLines bytes) (reverseHunk h) o.ignoreWhitespace 0 o.maxFuzz 0) = false) :
    (runPatch o s0).1 = 0 ∧
    (runPatch o s0).2.fs.lookup name =
      some (.file (render o.newlineOutput (spliceAt (splitLines bytes) 0 [(h, p)])) m) ∧
    (∀ q, q ≠ name → (runPatch o s0).2.fs.lookup q = s0.fs.lookup q) ∧
    (runPatch o s0).2.out = s0.out ++ [.file name false, hunkEvent ((p : Int) + 1) f d] ∧
    (runPatch o s0).2.backedUp = s0.backedUp := by
  obtain ⟨patch0, info, par1, par2, r, H, hfail, hperf, hskip, hmsgs, hrout, heof⟩ :=
    placeSection_of_diff ho hs0 hname htarget hw hd hc hloc hnp hrloc
  have hbb : (o.backupIfMismatch == OptionalBool.yes) = false := by
    cases hx : o.backupIfMismatch <;> first | rfl | exact absurd hx hbim
  obtain ⟨s', hrun, hfs, _, hbk, _, hhf, hout, hdone⟩ := processSection_placed H hfail hnb (by rw [hbb]; simp) hreal hdir
  rw [runPatch_of_end ho.file hs0 hpn hpd hpatch hd s' par2 hrun hdone heof]
  have hnf : s'.hadFailure = false := by rw [hhf]; exact hs0.noFailure
  refine ⟨by rw [hnf]; rfl, ?_, ?_, ?_, hbk⟩
  · show s'.fs.lookup name = _
    rw [hfs, Fs.lookup_set_self, hrout]
  · intro q hq
    show s'.fs.lookup q = _
    rw [hfs, Fs.lookup_set_ne _ _ _ _ hq]
  · show s'.out = _
    rw [hout, hmsgs]
    show s0.out ++ _ ++ _ = _
    simp [List.append_assoc]

/-- **the same with a backup due** — `-b`, or `--backup-if-mismatch` (what `main` sets outside POSIX mode unless told otherwise):
    the old file is found under the backup name, bytes and mode -/
theorem C03_run_located_backup_filler (ho : PlaceOpts o name pname)
    (hb : o.saveBackup = true ∨ o.backupIfMismatch = .yes)
    (hreal : o.dryRun = false) (hs0 : CleanStart s0) (hbu : s0.backedUp = [])
    (hname : name ≠ []) (hdir : s0.fs.dirExists (parentOf name) = true)
    (hbdirs : DirsThere s0.fs (backupName o name)) (hbdir : s0.fs.dirExists (parentOf (backupName o name)) = true)
    (hbnd : ∀ m', s0.fs.lookup (backupName o name) ≠ some (.dir m'))
    (hpn : pname ≠ []) (hpd : pname ≠ [45])
    (htarget : s0.fs.lookup name = some (.file bytes m)) (hw : m &&& writeMask ≠ 0)
    (hpatch : s0.fs.lookup pname = some (.file (patchText filler old new oldt newt [h]) pm))
    (hd : UnifiedDiff filler old new oldt newt [h]) (hc : h.old.count ≠ 0)
    (hloc : locateHunk (splitLines bytes) h o.ignoreWhitespace 0 o.maxFuzz 0 = some ⟨(p : Int), f, d⟩)
    (hnp : ¬ (d = 0 ∧ f = 0))
    (hrloc : o.force = true ∨ h.new.count = 0 ∨
      isPerfect (locateHunk (splitLines bytes) (reverseHunk h) o.ignoreWhitespace 0 o.maxFuzz 0) = false) :
    (runPatch o s0).1 = 0 ∧
    (runPatch o s0).2.fs.lookup name =
      some (.file (render o.newlineOutput (spliceAt (splitLines bytes) 0 [(h, p)])) m) ∧
    (runPatch o s0).2.fs.lookup (backupName o name) = some (.file bytes m) ∧
    (∀ q, q ≠ name → q ≠ backupName o name → (runPatch o s0).2.fs.lookup q = s0.fs.lookup q) ∧
    (runPatch o s0).2.out = s0.out ++ [.file name false, hunkEvent ((p : Int) + 1) f d] ∧
    (runPatch o s0).2.backedUp = [backupName o name] := by
  obtain ⟨patch0, info, par1, par2, r, H, hfail, hperf, hskip, hmsgs, hrout, heof⟩ :=
    placeSection_of_diff ho hs0 hname htarget hw hd hc hloc hnp hrloc
  obtain ⟨s', hrun, hfs, _, hbk, _, hhf, hout, hdone⟩ := processSection_placed_backup H hfail
    (hb.imp id fun hy => ⟨hperf, hskip, hy⟩) hreal hdir
    (by show s0.backedUp.contains _ = false; rw [hbu]; rfl) hbdirs hbdir hbnd
  rw [runPatch_of_end ho.file hs0 hpn hpd hpatch hd s' par2 hrun hdone heof]
  have hnf : s'.hadFailure = false := by rw [hhf]; exact hs0.noFailure
  have hne : name ≠ backupName o name := fun e => backupName_ne o name e.symm
  refine ⟨by rw [hnf]; rfl, ?_, ?_, ?_, ?_, ?_⟩
  · show s'.fs.lookup name = _
    rw [hfs, Fs.lookup_set_self, hrout]
  · show s'.fs.lookup _ = _
    rw [hfs, Fs.lookup_set_ne _ _ _ _ hne.symm, Fs.lookup_set_self]
  · intro q hq hqb
    show s'.fs.lookup q = _
    rw [hfs, Fs.lookup_set_ne _ _ _ _ hq, Fs.lookup_set_ne _ _ _ _ hqb, Fs.lookup_erase_ne _ _ _ hq]
  · show s'.out = _
    rw [hout, hmsgs]
    show s0.out ++ _ ++ _ = _
    simp [List.append_assoc]
  · show s'.backedUp = _
    rw [hbk]; show s0.backedUp ++ _ = _; rw [hbu]; rfl

end

/-! ### the statements for a diff of `name` against itself in the working directory, no filler -/

/-- **C02 / C03 end to end, general form, no backup due** (`--no-backup-if-mismatch`, or POSIX mode): `locate_hunk` places the one
    hunk at position `p` with fuzz `f` and offset `d`, not both 0 -/
theorem C03_run_located (o : Options) (s0 : DState) (name pname bytes oldt newt : Bytes) (m pm : Nat) (h : Hunk)
    (p : Nat) (f d : Int)
    (ho : PlaceOpts o name pname) (hnb : o.saveBackup = false) (hbim : o.backupIfMismatch ≠ .yes)
    (hreal : o.dryRun = false) (hs0 : CleanStart s0)
    (hn : flatName name) (hpn : pname ≠ []) (hpd : pname ≠ [45])
    (htarget : s0.fs.lookup name = some (.file bytes m)) (hw : m &&& writeMask ≠ 0)
    (hot : stampOk oldt) (hnt : stampOk newt)
    (hpatch : s0.fs.lookup pname = some (.file (diffText name name oldt newt [h]) pm))
    (hh : DiffHunks [h]) (hc : h.old.count ≠ 0)
    (hloc : locateHunk (splitLines bytes) h o.ignoreWhitespace 0 o.maxFuzz 0 = some ⟨(p : Int), f, d⟩)
    (hnp : ¬ (d = 0 ∧ f = 0))
    (hrloc : o.force = true ∨ h.new.count = 0 ∨
      isPerfect (locateHunk (splitLines bytes) (reverseHunk h) o.ignoreWhitespace 0 o.maxFuzz 0) = false) :
    (runPatch o s0).1 = 0 ∧
    (runPatch o s0).2.fs.lookup name =
      some (.file (render o.newlineOutput (spliceAt (splitLines bytes) 0 [(h, p)])) m) ∧
    (∀ q, q ≠ name → (runPatch o s0).2.fs.lookup q = s0.fs.lookup q) ∧
    (runPatch o s0).2.out = s0.out ++ [.file name false, hunkEvent ((p : Int) + 1) f d] ∧
    (runPatch o s0).2.backedUp = s0.backedUp :=
  C03_run_located_filler (filler := []) ho hnb hbim hreal hs0 hn.1 (dirExists_parent_of_noSlash s0.fs hn.2.1) hpn hpd htarget hw
    hpatch (unifiedDiff_of_flat hn hot hnt hh) hc hloc hnp hrloc

/-- **C02 / C03 / C18 end to end, general form, a backup due** (`-b`, or the default `--backup-if-mismatch`), backup name in the
    working directory -/
theorem C03_run_located_backup (o : Options) (s0 : DState) (name pname bytes oldt newt : Bytes) (m pm : Nat) (h : Hunk)
    (p : Nat) (f d : Int)
    (ho : PlaceOpts o name pname) (hb : o.saveBackup = true ∨ o.backupIfMismatch = .yes)
    (hreal : o.dryRun = false) (hs0 : CleanStart s0) (hbu : s0.backedUp = [])
    (hn : flatName name) (hbn : ∀ c ∈ backupName o name, c ≠ SLASHB)
    (hbnd : ∀ m', s0.fs.lookup (backupName o name) ≠ some (.dir m')) (hpn : pname ≠ []) (hpd : pname ≠ [45])
    (htarget : s0.fs.lookup name = some (.file bytes m)) (hw : m &&& writeMask ≠ 0)
    (hot : stampOk oldt) (hnt : stampOk newt)
    (hpatch : s0.fs.lookup pname = some (.file (diffText name name oldt newt [h]) pm))
    (hh : DiffHunks [h]) (hc : h.old.count ≠ 0)
    (hloc : locateHunk (splitLines bytes) h o.ignoreWhitespace 0 o.maxFuzz 0 = some ⟨(p : Int), f, d⟩)
    (hnp : ¬ (d = 0 ∧ f = 0))
    (hrloc : o.force = true ∨ h.new.count = 0 ∨
      isPerfect (locateHunk (splitLines bytes) (reverseHunk h) o.ignoreWhitespace 0 o.maxFuzz 0) = false) :
    (runPatch o s0).1 = 0 ∧
    (runPatch o s0).2.fs.lookup name =
      some (.file (render o.newlineOutput (spliceAt (splitLines bytes) 0 [(h, p)])) m) ∧
    (runPatch o s0).2.fs.lookup (backupName o name) = some (.file bytes m) ∧
    (∀ q, q ≠ name → q ≠ backupName o name → (runPatch o s0).2.fs.lookup q = s0.fs.lookup q) ∧
    (runPatch o s0).2.out = s0.out ++ [.file name false, hunkEvent ((p : Int) + 1) f d] ∧
    (runPatch o s0).2.backedUp = [backupName o name] :=
  C03_run_located_backup_filler (filler := []) ho hb hreal hs0 hbu hn.1 (dirExists_parent_of_noSlash s0.fs hn.2.1)
    (dirsThere_flat s0.fs hbn) (dirExists_parent_of_noSlash s0.fs hbn) hbnd hpn hpd htarget hw hpatch
    (unifiedDiff_of_flat hn hot hnt hh) hc hloc hnp hrloc

/-! ### the offset case: the text has moved -/

/-- no position that `locate_hunk` visits before `p` holds the old side of `h` exactly -/
def FoundFirstAt (file : List Line) (h : Hunk) (iw : Bool) (maxFuzz : Int) (p : Nat) : Prop :=
  ∀ q, probedBefore (searchStart (h.old.start - 1) 0 file.length) file.length q p → admissibleB file h iw maxFuzz q 0 = false

/-- the same, evaluated (every position visited before `p` is inside the file, or its end: D109) -/
def foundFirstAtB (file : List Line) (h : Hunk) (iw : Bool) (maxFuzz : Int) (p : Nat) : Bool :=
  (List.range (file.length + 1)).all fun q =>
    !decide (probedBefore (searchStart (h.old.start - 1) 0 file.length) file.length q p) || !admissibleB file h iw maxFuzz q 0

theorem foundFirstAtB_sound {file : List Line} {h : Hunk} {iw : Bool} {maxFuzz : Int} {p : Nat} (hp : p < file.length)
    (hb : foundFirstAtB file h iw maxFuzz p = true) : FoundFirstAt file h iw maxFuzz p := by
  intro q hq
  have hs := searchStart_le_size (h.old.start - 1) file.length
  have hlt : q < file.length + 1 := by unfold probedBefore at hq; omega
  unfold foundFirstAtB at hb
  have := List.all_eq_true.1 hb q (List.mem_range.2 hlt)
  simpa [hq] using this

/-- the target's lines, the hunk and the locator in the offset case: the hunk is found at `X.length`, exactly -/
theorem locate_offset {o : Options} {h : Hunk} {X Y : List Line} (hwr : h.writable = true) (hc : h.old.count ≠ 0)
    (hmf : 0 ≤ o.maxFuzz) (hfirst : FoundFirstAt (X ++ oldOf h.lines ++ Y) h o.ignoreWhitespace o.maxFuzz X.length) :
    locateHunk (X ++ oldOf h.lines ++ Y) h o.ignoreWhitespace 0 o.maxFuzz 0 =
      some ⟨(X.length : Int), 0, (X.length : Int) - (h.old.start - 1)⟩ := by
  obtain ⟨hops, h2, h3, hne, _⟩ := Unified.writable_spec h hwr
  exact locateHunk_moved _ h _ _ X.length ⟨hops, h2, h3⟩ hc (admissibleB_of_exact h _ _ X Y hne
    (by intro e; rw [e] at h2; exact hc h2) hmf) hfirst

/-- **C02 / C03 end to end, the offset case, no backup due.**  `patch --no-backup-if-mismatch -i pname name`; the target's lines are
    `X ++ old side of h ++ Y`, the hunk states line `h.old.start ≠ X.length + 1`, and the search does not come across an exact copy
    of the old side before it reaches `X.length`: exit status 0, the target holds `X ++ new side of h ++ Y` with its old mode,
    nothing else in the tree differs, the log says `Hunk #1 succeeded at X.length+1 (offset … lines)` -/
theorem C03_run_offset (o : Options) (s0 : DState) (name pname bytes oldt newt : Bytes) (m pm : Nat) (h : Hunk)
    (X Y : List Line)
    (ho : PlaceOpts o name pname) (hnb : o.saveBackup = false) (hbim : o.backupIfMismatch ≠ .yes)
    (hreal : o.dryRun = false) (hs0 : CleanStart s0)
    (hn : flatName name) (hpn : pname ≠ []) (hpd : pname ≠ [45])
    (htarget : s0.fs.lookup name = some (.file bytes m)) (hw : m &&& writeMask ≠ 0)
    (hot : stampOk oldt) (hnt : stampOk newt)
    (hpatch : s0.fs.lookup pname = some (.file (diffText name name oldt newt [h]) pm))
    (hh : DiffHunks [h]) (hc : h.old.count ≠ 0) (hmf : 0 ≤ o.maxFuzz)
    (hlines : splitLines bytes = X ++ oldOf h.lines ++ Y)
    (hmoved : (X.length : Int) ≠ h.old.start - 1)
    (hfirst : FoundFirstAt (splitLines bytes) h o.ignoreWhitespace o.maxFuzz X.length)
    (hrloc : o.force = true ∨ h.new.count = 0 ∨
      isPerfect (locateHunk (splitLines bytes) (reverseHunk h) o.ignoreWhitespace 0 o.maxFuzz 0) = false) :
    (runPatch o s0).1 = 0 ∧
    (runPatch o s0).2.fs.lookup name = some (.file (Render.renderText o.newlineOutput (X ++ newOf h.lines ++ Y)) m) ∧
    (∀ q, q ≠ name → (runPatch o s0).2.fs.lookup q = s0.fs.lookup q) ∧
    (runPatch o s0).2.out = s0.out ++
      [.file name false, hunkEvent ((X.length : Int) + 1) 0 ((X.length : Int) - (h.old.start - 1))] := by
  have hwr := hh.writable h (List.mem_singleton.2 rfl)
  have hloc := locate_offset (o := o) (X := X) (Y := Y) hwr hc hmf (by rw [← hlines]; exact hfirst)
  rw [← hlines] at hloc
  have := C03_run_located o s0 name pname bytes oldt newt m pm h X.length 0 _ ho hnb hbim hreal hs0 hn hpn hpd htarget hw
    hot hnt hpatch hh hc hloc (by omega) hrloc
  rw [hlines, Render.render_eq_renderText_of_map_line _ (Render.noBare_spliceAt _ _ _)
    (spliceAt_one_exact h X Y (Unified.writable_spec h hwr).1)] at this
  exact ⟨this.1, this.2.1, this.2.2.1, this.2.2.2.1⟩

/-- **C02 / C03 / C18 end to end, the offset case, a backup due** (`-b`, or `--backup-if-mismatch`, the default): in addition the
    backup name holds the old bytes with the old mode -/
theorem C03_run_offset_backup (o : Options) (s0 : DState) (name pname bytes oldt newt : Bytes) (m pm : Nat) (h : Hunk)
    (X Y : List Line)
    (ho : PlaceOpts o name pname) (hb : o.saveBackup = true ∨ o.backupIfMismatch = .yes)
    (hreal : o.dryRun = false) (hs0 : CleanStart s0) (hbu : s0.backedUp = [])
    (hn : flatName name) (hbn : ∀ c ∈ backupName o name, c ≠ SLASHB)
    (hbnd : ∀ m', s0.fs.lookup (backupName o name) ≠ some (.dir m')) (hpn : pname ≠ []) (hpd : pname ≠ [45])
    (htarget : s0.fs.lookup name = some (.file bytes m)) (hw : m &&& writeMask ≠ 0)
    (hot : stampOk oldt) (hnt : stampOk newt)
    (hpatch : s0.fs.lookup pname = some (.file (diffText name name oldt newt [h]) pm))
    (hh : DiffHunks [h]) (hc : h.old.count ≠ 0) (hmf : 0 ≤ o.maxFuzz)
    (hlines : splitLines bytes = X ++ oldOf h.lines ++ Y)
    (hmoved : (X.length : Int) ≠ h.old.start - 1)
    (hfirst : FoundFirstAt (splitLines bytes) h o.ignoreWhitespace o.maxFuzz X.length)
    (hrloc : o.force = true ∨ h.new.count = 0 ∨
      isPerfect (locateHunk (splitLines bytes) (reverseHunk h) o.ignoreWhitespace 0 o.maxFuzz 0) = false) :
    (runPatch o s0).1 = 0 ∧
    (runPatch o s0).2.fs.lookup name = some (.file (Render.renderText o.newlineOutput (X ++ newOf h.lines ++ Y)) m) ∧
    (runPatch o s0).2.fs.lookup (backupName o name) = some (.file bytes m) ∧
    (∀ q, q ≠ name → q ≠ backupName o name → (runPatch o s0).2.fs.lookup q = s0.fs.lookup q) ∧
    (runPatch o s0).2.out = s0.out ++
      [.file name false, hunkEvent ((X.length : Int) + 1) 0 ((X.length : Int) - (h.old.start - 1))] := by
  have hwr := hh.writable h (List.mem_singleton.2 rfl)
  have hloc := locate_offset (o := o) (X := X) (Y := Y) hwr hc hmf (by rw [← hlines]; exact hfirst)
  rw [← hlines] at hloc
  have := C03_run_located_backup o s0 name pname bytes oldt newt m pm h X.length 0 _ ho hb hreal hs0 hbu hn hbn hbnd hpn hpd
    htarget hw hot hnt hpatch hh hc hloc (by omega) hrloc
  rw [hlines, Render.render_eq_renderText_of_map_line _ (Render.noBare_spliceAt _ _ _)
    (spliceAt_one_exact h X Y (Unified.writable_spec h hwr).1)] at this
  exact ⟨this.1, this.2.1, this.2.2.1, this.2.2.2.1, this.2.2.2.2.1⟩

/-- **the offset case as `main` runs it by default**: `patch -i pname name` outside POSIX mode (`applyDefaults` turns the unset
    `--backup-if-mismatch` into "yes"), no -B / -z: the old bytes are in `name.orig` -/
theorem C03_run_offset_orig (o : Options) (s0 : DState) (name pname bytes oldt newt : Bytes) (m pm : Nat) (h : Hunk)
    (X Y : List Line)
    (ho : PlaceOpts o name pname) (hb : o.backupIfMismatch = .yes) (hpre : o.backupPrefix = []) (hsuf : o.backupSuffix = [])
    (hreal : o.dryRun = false) (hs0 : CleanStart s0) (hbu : s0.backedUp = [])
    (hn : flatName name) (hbnd : ∀ m', s0.fs.lookup (name ++ str ".orig") ≠ some (.dir m')) (hpn : pname ≠ []) (hpd : pname ≠ [45])
    (htarget : s0.fs.lookup name = some (.file bytes m)) (hw : m &&& writeMask ≠ 0)
    (hot : stampOk oldt) (hnt : stampOk newt)
    (hpatch : s0.fs.lookup pname = some (.file (diffText name name oldt newt [h]) pm))
    (hh : DiffHunks [h]) (hc : h.old.count ≠ 0) (hmf : 0 ≤ o.maxFuzz)
    (hlines : splitLines bytes = X ++ oldOf h.lines ++ Y)
    (hmoved : (X.length : Int) ≠ h.old.start - 1)
    (hfirst : FoundFirstAt (splitLines bytes) h o.ignoreWhitespace o.maxFuzz X.length)
    (hrloc : o.force = true ∨ h.new.count = 0 ∨
      isPerfect (locateHunk (splitLines bytes) (reverseHunk h) o.ignoreWhitespace 0 o.maxFuzz 0) = false) :
    (runPatch o s0).1 = 0 ∧
    (runPatch o s0).2.fs.lookup name = some (.file (Render.renderText o.newlineOutput (X ++ newOf h.lines ++ Y)) m) ∧
    (runPatch o s0).2.fs.lookup (name ++ str ".orig") = some (.file bytes m) ∧
    (∀ q, q ≠ name → q ≠ name ++ str ".orig" → (runPatch o s0).2.fs.lookup q = s0.fs.lookup q) ∧
    (runPatch o s0).2.out = s0.out ++
      [.file name false, hunkEvent ((X.length : Int) + 1) 0 ((X.length : Int) - (h.old.start - 1))] := by
  have e : backupName o name = name ++ str ".orig" := (C18.backupName_spec o name).1 hpre hsuf
  have := C03_run_offset_backup o s0 name pname bytes oldt newt m pm h X Y ho (Or.inr hb) hreal hs0 hbu hn
    (by rw [e]; exact orig_flat hn.2.1) (by rw [e]; exact hbnd) hpn hpd htarget hw hot hnt hpatch hh hc hmf hlines hmoved hfirst hrloc
  rw [e] at this
  exact this

/-- the offset case under the stronger hypothesis "the old side is found exactly at no other position of the file" -/
theorem C03_run_offset_unique (o : Options) (s0 : DState) (name pname bytes oldt newt : Bytes) (m pm : Nat) (h : Hunk)
    (X Y : List Line)
    (ho : PlaceOpts o name pname) (hnb : o.saveBackup = false) (hbim : o.backupIfMismatch ≠ .yes)
    (hreal : o.dryRun = false) (hs0 : CleanStart s0)
    (hn : flatName name) (hpn : pname ≠ []) (hpd : pname ≠ [45])
    (htarget : s0.fs.lookup name = some (.file bytes m)) (hw : m &&& writeMask ≠ 0)
    (hot : stampOk oldt) (hnt : stampOk newt)
    (hpatch : s0.fs.lookup pname = some (.file (diffText name name oldt newt [h]) pm))
    (hh : DiffHunks [h]) (hc : h.old.count ≠ 0) (hmf : 0 ≤ o.maxFuzz)
    (hlines : splitLines bytes = X ++ oldOf h.lines ++ Y)
    (hmoved : (X.length : Int) ≠ h.old.start - 1)
    (huniq : ∀ q, q ≠ X.length → admissibleB (splitLines bytes) h o.ignoreWhitespace o.maxFuzz q 0 = false)
    (hrloc : o.force = true ∨ h.new.count = 0 ∨
      isPerfect (locateHunk (splitLines bytes) (reverseHunk h) o.ignoreWhitespace 0 o.maxFuzz 0) = false) :
    (runPatch o s0).1 = 0 ∧
    (runPatch o s0).2.fs.lookup name = some (.file (Render.renderText o.newlineOutput (X ++ newOf h.lines ++ Y)) m) ∧
    (∀ q, q ≠ name → (runPatch o s0).2.fs.lookup q = s0.fs.lookup q) ∧
    (runPatch o s0).2.out = s0.out ++
      [.file name false, hunkEvent ((X.length : Int) + 1) 0 ((X.length : Int) - (h.old.start - 1))] :=
  C03_run_offset o s0 name pname bytes oldt newt m pm h X Y ho hnb hbim hreal hs0 hn hpn hpd htarget hw hot hnt hpatch hh hc hmf
    hlines hmoved (fun q hq => huniq q (probedBefore_ne hq)) hrloc

/-! ### the fuzz case: the hunk is applied at its stated line although outer context lines differ -/

/-- **C02 / C03 end to end, fuzz at the stated line, no backup due**: nothing is admissible with a fuzz below `f`, the stated line is
    with fuzz `f > 0` — exit status 0, the hunk is laid over its stated line: its changed lines are applied, the context lines of
    the FILE are kept (`spliceAt`), the log says `Hunk #1 succeeded at h.old.start with fuzz f` -/
theorem C03_run_fuzz (o : Options) (s0 : DState) (name pname bytes oldt newt : Bytes) (m pm : Nat) (h : Hunk) (g f : Nat)
    (ho : PlaceOpts o name pname) (hnb : o.saveBackup = false) (hbim : o.backupIfMismatch ≠ .yes)
    (hreal : o.dryRun = false) (hs0 : CleanStart s0)
    (hn : flatName name) (hpn : pname ≠ []) (hpd : pname ≠ [45])
    (htarget : s0.fs.lookup name = some (.file bytes m)) (hw : m &&& writeMask ≠ 0)
    (hot : stampOk oldt) (hnt : stampOk newt)
    (hpatch : s0.fs.lookup pname = some (.file (diffText name name oldt newt [h]) pm))
    (hh : DiffHunks [h]) (hc : h.old.count ≠ 0)
    (hg : h.old.start - 1 = (g : Int)) (hf : f ≠ 0)
    (hadm : admissibleB (splitLines bytes) h o.ignoreWhitespace o.maxFuzz g f = true)
    (hless : ∀ q f', f' < f → admissibleB (splitLines bytes) h o.ignoreWhitespace o.maxFuzz q f' = false)
    (hrloc : o.force = true ∨ h.new.count = 0 ∨
      isPerfect (locateHunk (splitLines bytes) (reverseHunk h) o.ignoreWhitespace 0 o.maxFuzz 0) = false) :
    (runPatch o s0).1 = 0 ∧
    (runPatch o s0).2.fs.lookup name =
      some (.file (render o.newlineOutput (spliceAt (splitLines bytes) 0 [(h, g)])) m) ∧
    (∀ q, q ≠ name → (runPatch o s0).2.fs.lookup q = s0.fs.lookup q) ∧
    (runPatch o s0).2.out = s0.out ++ [.file name false, hunkEvent h.old.start f 0] := by
  obtain ⟨hops, h2, h3, _⟩ := Unified.writable_spec h (hh.writable h (List.mem_singleton.2 rfl))
  have hloc := locateHunk_fuzz_at_stated (splitLines bytes) h o.ignoreWhitespace o.maxFuzz g f ⟨hops, h2, h3⟩ hc hg hadm hless
  have := C03_run_located o s0 name pname bytes oldt newt m pm h g f 0 ho hnb hbim hreal hs0 hn hpn hpd htarget hw
    hot hnt hpatch hh hc hloc (by omega) hrloc
  have e : (g : Int) + 1 = h.old.start := by omega
  rw [e] at this
  exact ⟨this.1, this.2.1, this.2.2.1, this.2.2.2.1⟩

/-- **the same with a backup due** (`-b`, or `--backup-if-mismatch`, the default) -/
theorem C03_run_fuzz_backup (o : Options) (s0 : DState) (name pname bytes oldt newt : Bytes) (m pm : Nat) (h : Hunk) (g f : Nat)
    (ho : PlaceOpts o name pname) (hb : o.saveBackup = true ∨ o.backupIfMismatch = .yes)
    (hreal : o.dryRun = false) (hs0 : CleanStart s0) (hbu : s0.backedUp = [])
    (hn : flatName name) (hbn : ∀ c ∈ backupName o name, c ≠ SLASHB)
    (hbnd : ∀ m', s0.fs.lookup (backupName o name) ≠ some (.dir m')) (hpn : pname ≠ []) (hpd : pname ≠ [45])
    (htarget : s0.fs.lookup name = some (.file bytes m)) (hw : m &&& writeMask ≠ 0)
    (hot : stampOk oldt) (hnt : stampOk newt)
    (hpatch : s0.fs.lookup pname = some (.file (diffText name name oldt newt [h]) pm))
    (hh : DiffHunks [h]) (hc : h.old.count ≠ 0)
    (hg : h.old.start - 1 = (g : Int)) (hf : f ≠ 0)
    (hadm : admissibleB (splitLines bytes) h o.ignoreWhitespace o.maxFuzz g f = true)
    (hless : ∀ q f', f' < f → admissibleB (splitLines bytes) h o.ignoreWhitespace o.maxFuzz q f' = false)
    (hrloc : o.force = true ∨ h.new.count = 0 ∨
      isPerfect (locateHunk (splitLines bytes) (reverseHunk h) o.ignoreWhitespace 0 o.maxFuzz 0) = false) :
    (runPatch o s0).1 = 0 ∧
    (runPatch o s0).2.fs.lookup name =
      some (.file (render o.newlineOutput (spliceAt (splitLines bytes) 0 [(h, g)])) m) ∧
    (runPatch o s0).2.fs.lookup (backupName o name) = some (.file bytes m) ∧
    (∀ q, q ≠ name → q ≠ backupName o name → (runPatch o s0).2.fs.lookup q = s0.fs.lookup q) ∧
    (runPatch o s0).2.out = s0.out ++ [.file name false, hunkEvent h.old.start f 0] := by
  obtain ⟨hops, h2, h3, _⟩ := Unified.writable_spec h (hh.writable h (List.mem_singleton.2 rfl))
  have hloc := locateHunk_fuzz_at_stated (splitLines bytes) h o.ignoreWhitespace o.maxFuzz g f ⟨hops, h2, h3⟩ hc hg hadm hless
  have := C03_run_located_backup o s0 name pname bytes oldt newt m pm h g f 0 ho hb hreal hs0 hbu hn hbn hbnd hpn hpd htarget hw
    hot hnt hpatch hh hc hloc (by omega) hrloc
  have e : (g : Int) + 1 = h.old.start := by omega
  rw [e] at this
  exact ⟨this.1, this.2.1, this.2.2.1, this.2.2.2.1, this.2.2.2.2.1⟩

/-- nothing is admissible with a fuzz below `f`, evaluated (an admissible position is inside the file) -/
def noLessFuzzB (file : List Line) (h : Hunk) (iw : Bool) (maxFuzz : Int) (f : Nat) : Bool :=
  (List.range f).all fun f' => (List.range (file.length + 1)).all fun q => !admissibleB file h iw maxFuzz q f'

theorem noLessFuzzB_sound {file : List Line} {h : Hunk} {iw : Bool} {maxFuzz : Int} {f : Nat}
    (hb : noLessFuzzB file h iw maxFuzz f = true) :
    ∀ q f', f' < f → admissibleB file h iw maxFuzz q f' = false := by
  intro q f' hf'
  cases ha : admissibleB file h iw maxFuzz q f' with
  | false => rfl
  | true =>
    have hfit := (C02.admissibleB_fit ha).2
    unfold noLessFuzzB at hb
    have := List.all_eq_true.1 (List.all_eq_true.1 hb f' (List.mem_range.2 hf')) q (List.mem_range.2 (by omega))
    rw [ha] at this; cases this

/-! ## non-vacuity: concrete runs

`f` = "x\ny\na\nb\nc\n" (mode 0644): two lines have been put in front of "a\nb\nc\n"; `p.diff` = the one-hunk unified diff of
`C01Run` that changes `b` to `B` and states line 1.  Every hypothesis of `C03_run_offset` (options
`--no-backup-if-mismatch -i p.diff f`) and of `C03_run_offset_orig` (the default: `--backup-if-mismatch`) is discharged by
evaluation in the kernel, the theorems are applied, and — independently — the executable model is run on the same state (`#guard`:
executable tests, not proofs). -/
namespace Instance
open PatchModel.C01.Instance (name pname oldt newt hk diffHunks)

def bytes : Bytes := [120, 10, 121, 10, 97, 10, 98, 10, 99, 10]        -- "x\ny\na\nb\nc\n"
def result : Bytes := [120, 10, 121, 10, 97, 10, 66, 10, 99, 10]       -- "x\ny\na\nB\nc\n"
def orig : Bytes := [102, 46, 111, 114, 105, 103]                      -- "f.orig"
def X : List Line := [⟨[120], .lf⟩, ⟨[121], .lf⟩]
def s0 : DState :=
  { fs := { nodes := [(name, .file bytes 0o644), (pname, .file (diffText name name oldt newt [hk]) 0o644)] } }
/-- `patch --no-backup-if-mismatch -i p.diff f` -/
def oNo : Options := { defaultOptions with fileToPatch := name, patchFile := pname, backupIfMismatch := .no }
/-- `patch -i p.diff f` as `main` hands it to `process_patch` outside POSIX mode -/
def oDef : Options := { defaultOptions with fileToPatch := name, patchFile := pname, backupIfMismatch := .yes }

#guard bytes == str "x\ny\na\nb\nc\n" && result == str "x\ny\na\nB\nc\n" && orig == str "f.orig"
#guard diffText name name oldt newt [hk] == str "--- f\t2020\n+++ f\t2021\n@@ -1,3 +1,3 @@\n a\n-b\n+B\n c\n"
-- `oDef` is what the command line `-i p.diff f` gives in an environment without POSIXLY_CORRECT
#guard (applyDefaults { defaultOptions with fileToPatch := name, patchFile := pname } {}).backupIfMismatch == .yes
#guard (applyDefaults { defaultOptions with fileToPatch := name, patchFile := pname } { posixlyCorrect := true }).backupIfMismatch == .no

theorem placeOptsNo : PlaceOpts oNo name pname :=
  { operand := rfl, noOut := rfl, noReverse := rfl, noDefine := rfl,
    file := { patchFile := rfl, noDir := rfl, noHelp := rfl, noVersion := rfl, noContext := rfl, noNormal := rfl, noEd := rfl } }
theorem placeOptsDef : PlaceOpts oDef name pname :=
  { operand := rfl, noOut := rfl, noReverse := rfl, noDefine := rfl,
    file := { patchFile := rfl, noDir := rfl, noHelp := rfl, noVersion := rfl, noContext := rfl, noNormal := rfl, noEd := rfl } }

theorem lines_eq : splitLines bytes = X ++ oldOf hk.lines ++ [] := by decide

/-- **`C03_run_offset` applies** (all hypotheses discharged in the kernel): exit status 0, `f` = "x\ny\na\nB\nc\n" mode 0644,
    nothing else touched, `Hunk #1 succeeded at 3 (offset 2 lines)` -/
theorem applies :
    (runPatch oNo s0).1 = 0 ∧
    (runPatch oNo s0).2.fs.lookup name = some (.file result 0o644) ∧
    (∀ q, q ≠ name → (runPatch oNo s0).2.fs.lookup q = s0.fs.lookup q) ∧
    (runPatch oNo s0).2.out = [.file name false, .msg (.hunk 1 "succeeded" 3 0 2)] := by
  have h := C03_run_offset oNo s0 name pname bytes oldt newt 0o644 0o644 hk X [] placeOptsNo rfl (by decide) rfl
    ⟨rfl, rfl, rfl, rfl, rfl, rfl⟩ (by decide) (by decide) (by decide) rfl (by decide) (by decide) (by decide) rfl diffHunks
    (by decide) (by decide) lines_eq (by decide) (foundFirstAtB_sound (by decide) (by decide +kernel))
    (Or.inr (Or.inr (by decide +kernel)))
  have hm : Render.renderText oNo.newlineOutput (X ++ newOf hk.lines ++ []) = result := by decide
  rw [hm] at h
  exact h

/-- **`C03_run_offset_orig` applies** — the default `--backup-if-mismatch`: in addition `f.orig` = "x\ny\na\nb\nc\n" mode 0644 -/
theorem applies_orig :
    (runPatch oDef s0).1 = 0 ∧
    (runPatch oDef s0).2.fs.lookup name = some (.file result 0o644) ∧
    (runPatch oDef s0).2.fs.lookup orig = some (.file bytes 0o644) ∧
    (∀ q, q ≠ name → q ≠ orig → (runPatch oDef s0).2.fs.lookup q = s0.fs.lookup q) ∧
    (runPatch oDef s0).2.out = [.file name false, .msg (.hunk 1 "succeeded" 3 0 2)] := by
  have h := C03_run_offset_orig oDef s0 name pname bytes oldt newt 0o644 0o644 hk X [] placeOptsDef rfl rfl rfl rfl
    ⟨rfl, rfl, rfl, rfl, rfl, rfl⟩ rfl (by decide) (by rw [str_orig]; exact notDir_of_none (by decide)) (by decide) (by decide) rfl (by decide) (by decide) (by decide) rfl diffHunks
    (by decide) (by decide) lines_eq (by decide) (foundFirstAtB_sound (by decide) (by decide +kernel))
    (Or.inr (Or.inr (by decide +kernel)))
  have hm : Render.renderText oDef.newlineOutput (X ++ newOf hk.lines ++ []) = result := by decide
  have e : name ++ str ".orig" = orig := by rw [str_orig]; rfl
  rw [hm, e] at h
  exact h

/-- the uniqueness form applies as well: position 2 is the only one at which `a`, `b`, `c` is found -/
example : (runPatch oNo s0).1 = 0 :=
  (C03_run_offset_unique oNo s0 name pname bytes oldt newt 0o644 0o644 hk X [] placeOptsNo rfl (by decide) rfl
    ⟨rfl, rfl, rfl, rfl, rfl, rfl⟩ (by decide) (by decide) (by decide) rfl (by decide) (by decide) (by decide) rfl diffHunks
    (by decide) (by decide) lines_eq (by decide)
    (by
      intro q hq
      cases ha : admissibleB (splitLines bytes) hk oNo.ignoreWhitespace oNo.maxFuzz q 0 with
      | false => rfl
      | true =>
        have hfit := C02.admissibleB_fit_zero ha
        have hl : (splitLines bytes).length = 5 := by decide
        have ho : (oldOf hk.lines).length = 3 := by decide
        rw [hl, ho] at hfit
        have hx : X.length = 2 := rfl
        rw [hx] at hq
        have : q = 0 ∨ q = 1 := by omega
        rcases this with rfl | rfl <;> revert ha <;> decide +kernel)
    (Or.inr (Or.inr (by decide +kernel)))).1

/-- the side condition on the reversed hunk from its sufficient form `RunO.reversed_not_perfect`: the new side `a`, `B`, `c` is not
    at line 1, the line the new range states -/
example : isPerfect (locateHunk (splitLines bytes) (reverseHunk hk) oNo.ignoreWhitespace 0 oNo.maxFuzz 0) = false :=
  reversed_not_perfect _ hk _ _ (by decide) (by
    intro g hg
    have h1 : hk.new.start = 1 := rfl
    have : g = 0 := by omega
    subst this
    decide +kernel)

/-- the general form with the locator's verdict evaluated -/
example : (runPatch oNo s0).2.fs.lookup name =
    some (.file (render oNo.newlineOutput (spliceAt (splitLines bytes) 0 [(hk, 2)])) 0o644) :=
  (C03_run_located oNo s0 name pname bytes oldt newt 0o644 0o644 hk 2 0 2 placeOptsNo rfl (by decide) rfl
    ⟨rfl, rfl, rfl, rfl, rfl, rfl⟩ (by decide) (by decide) (by decide) rfl (by decide) (by decide) (by decide) rfl diffHunks
    (by decide) (by decide +kernel) (by decide) (Or.inr (Or.inr (by decide +kernel)))).2.1

-- independently: the executable model on the same state
#guard (runPatch oNo s0).1 == 0
#guard (runPatch oNo s0).2.fs.lookup name == some (.file (str "x\ny\na\nB\nc\n") 0o644)
#guard (runPatch oNo s0).2.out == [.file name false, .msg (.hunk 1 "succeeded" 3 0 2)]
#guard (runPatch oNo s0).2.fs.nodes.length == 2 && ((runPatch oNo s0).2.fs.lookup (str "f.orig")).isNone
#guard (runPatch oNo s0).2.fs.lookup pname == s0.fs.lookup pname
#guard (runPatch oNo s0).2.trace == [.tmpCreate, .tmpUnlink, .tmpCreate, .tmpUnlink, .creat name,
                                     .write name (str "x\ny\na\nB\nc\n"), .chmod name 0o644]
#guard (runPatch oDef s0).1 == 0
#guard (runPatch oDef s0).2.fs.lookup name == some (.file (str "x\ny\na\nB\nc\n") 0o644)
#guard (runPatch oDef s0).2.fs.lookup (str "f.orig") == some (.file (str "x\ny\na\nb\nc\n") 0o644)
#guard (runPatch oDef s0).2.out == [.file name false, .msg (.hunk 1 "succeeded" 3 0 2)]
#guard (runPatch oDef s0).2.fs.nodes.length == 3 && (runPatch oDef s0).2.backedUp == [str "f.orig"]
#guard (runPatch oDef s0).2.trace == [.tmpCreate, .tmpUnlink, .tmpCreate, .tmpUnlink, .rename name (str "f.orig"), .creat name,
                                      .write name (str "x\ny\na\nB\nc\n"), .chmod name 0o644]
-- the unset option as such (`process_patch` called without `applyDefaults`) takes no mismatch backup
#guard ((runPatch { oNo with backupIfMismatch := .unset } s0).2.fs.lookup (str "f.orig")).isNone
-- --verbose prints the same one line
#guard (runPatch { oNo with verbose := true } s0).2.out == [.file name false, .msg (.hunk 1 "succeeded" 3 0 2)]

/-! backward: the text has moved UP — `g` = "a\nb\nc\n", the hunk states line 3 (`@@ -3,3 +3,3 @@`): found at line 1, offset -2 -/
def hk3 : Hunk := ⟨⟨3, 3⟩, ⟨3, 3⟩, [⟨SP, ⟨[97], .lf⟩⟩, ⟨MINUS, ⟨[98], .lf⟩⟩, ⟨PLUS, ⟨[66], .lf⟩⟩, ⟨SP, ⟨[99], .lf⟩⟩]⟩
def abc : Bytes := [97, 10, 98, 10, 99, 10]
def s0up : DState :=
  { fs := { nodes := [(name, .file abc 0o644), (pname, .file (diffText name name oldt newt [hk3]) 0o644)] } }
theorem applies_up :
    (runPatch oNo s0up).1 = 0 ∧
    (runPatch oNo s0up).2.fs.lookup name = some (.file [97, 10, 66, 10, 99, 10] 0o644) ∧
    (runPatch oNo s0up).2.out = [.file name false, .msg (.hunk 1 "succeeded" 1 0 (-2))] := by
  have h := C03_run_offset oNo s0up name pname abc oldt newt 0o644 0o644 hk3 [] [] placeOptsNo rfl (by decide) rfl
    ⟨rfl, rfl, rfl, rfl, rfl, rfl⟩ (by decide) (by decide) (by decide) rfl (by decide) (by decide) (by decide) rfl
    { nonEmpty := by decide, writable := by decide, change := by decide }
    (by decide) (by decide) (by decide) (by decide) (foundFirstAtB_sound (by decide) (by decide +kernel))
    (Or.inr (Or.inr (by decide +kernel)))
  have hm : Render.renderText oNo.newlineOutput ([] ++ newOf hk3.lines ++ []) = [97, 10, 66, 10, 99, 10] := by decide
  rw [hm] at h
  exact ⟨h.1, h.2.1, h.2.2.2⟩
#guard (runPatch oNo s0up).1 == 0 && (runPatch oNo s0up).2.fs.lookup name == some (.file (str "a\nB\nc\n") 0o644)
#guard (runPatch oNo s0up).2.out == [.file name false, .msg (.hunk 1 "succeeded" 1 0 (-2))]

/-! "first in the search order", not "nearest" and not "unique": `f` = "a\nb\nc\nq\na\nb\nc\n", the hunk states line 3 — the old
    side is at lines 1 and 5, both two lines from line 3; the forward scan comes first, line 5 is taken (`C03_run_offset` with
    `X` = the first four lines; `C03_run_offset_unique` does not apply) -/
def twice : Bytes := [97, 10, 98, 10, 99, 10, 113, 10, 97, 10, 98, 10, 99, 10]
def X4 : List Line := [⟨[97], .lf⟩, ⟨[98], .lf⟩, ⟨[99], .lf⟩, ⟨[113], .lf⟩]
def s0tw : DState :=
  { fs := { nodes := [(name, .file twice 0o644), (pname, .file (diffText name name oldt newt [hk3]) 0o644)] } }
theorem applies_forward_first :
    (runPatch oNo s0tw).1 = 0 ∧
    (runPatch oNo s0tw).2.fs.lookup name = some (.file [97, 10, 98, 10, 99, 10, 113, 10, 97, 10, 66, 10, 99, 10] 0o644) ∧
    (runPatch oNo s0tw).2.out = [.file name false, .msg (.hunk 1 "succeeded" 5 0 2)] := by
  have h := C03_run_offset oNo s0tw name pname twice oldt newt 0o644 0o644 hk3 X4 [] placeOptsNo rfl (by decide) rfl
    ⟨rfl, rfl, rfl, rfl, rfl, rfl⟩ (by decide) (by decide) (by decide) rfl (by decide) (by decide) (by decide) rfl
    { nonEmpty := by decide, writable := by decide, change := by decide }
    (by decide) (by decide) (by decide) (by decide) (foundFirstAtB_sound (by decide) (by decide +kernel))
    (Or.inr (Or.inr (by decide +kernel)))
  have hm : Render.renderText oNo.newlineOutput (X4 ++ newOf hk3.lines ++ []) =
      [97, 10, 98, 10, 99, 10, 113, 10, 97, 10, 66, 10, 99, 10] := by decide
  rw [hm] at h
  exact ⟨h.1, h.2.1, h.2.2.2⟩
#guard twice == str "a\nb\nc\nq\na\nb\nc\n"
#guard (runPatch oNo s0tw).2.fs.lookup name == some (.file (str "a\nb\nc\nq\na\nB\nc\n") 0o644)
#guard admissibleB (splitLines twice) hk3 false 2 0 0 && admissibleB (splitLines twice) hk3 false 2 4 0

end Instance

/-! ### the fuzz case: `f` = "z\nb\nc\n", the same diff (` a`, `-b`, `+B`, ` c` at line 1) — the first context line differs.  Fuzz 1
    ignores one line of context at either end; the hunk is applied at line 1 and the file keeps ITS first line -/
namespace Fuzz
open PatchModel.C01.Instance (name pname oldt newt hk diffHunks)
open PatchModel.C03Run.Instance (oNo oDef placeOptsNo placeOptsDef orig)

def zbc : Bytes := [122, 10, 98, 10, 99, 10]             -- "z\nb\nc\n"
def result : Bytes := [122, 10, 66, 10, 99, 10]          -- "z\nB\nc\n"
def s0 : DState :=
  { fs := { nodes := [(name, .file zbc 0o644), (pname, .file (diffText name name oldt newt [hk]) 0o644)] } }
#guard zbc == str "z\nb\nc\n" && result == str "z\nB\nc\n"

/-- what `spliceAt` says for this placement: the file's `z`, the patch's `B`, the file's `c` -/
theorem meaning : render oNo.newlineOutput (spliceAt (splitLines zbc) 0 [(hk, 0)]) = result := by decide

/-- **`C03_run_fuzz` applies** (all hypotheses discharged in the kernel): exit status 0, `f` = "z\nB\nc\n",
    `Hunk #1 succeeded at 1 with fuzz 1` -/
theorem applies :
    (runPatch oNo s0).1 = 0 ∧
    (runPatch oNo s0).2.fs.lookup name = some (.file result 0o644) ∧
    (∀ q, q ≠ name → (runPatch oNo s0).2.fs.lookup q = s0.fs.lookup q) ∧
    (runPatch oNo s0).2.out = [.file name false, .msg (.hunk 1 "succeeded" 1 1 0)] := by
  have h := C03_run_fuzz oNo s0 name pname zbc oldt newt 0o644 0o644 hk 0 1 placeOptsNo rfl (by decide) rfl
    ⟨rfl, rfl, rfl, rfl, rfl, rfl⟩ (by decide) (by decide) (by decide) rfl (by decide) (by decide) (by decide) rfl diffHunks
    (by decide) (by decide) (by decide) (by decide +kernel) (noLessFuzzB_sound (by decide +kernel))
    (Or.inr (Or.inr (by decide +kernel)))
  rw [meaning] at h
  exact h

/-- … and with the default mismatch backup: `f.orig` = "z\nb\nc\n" -/
theorem applies_backup :
    (runPatch oDef s0).1 = 0 ∧
    (runPatch oDef s0).2.fs.lookup name = some (.file result 0o644) ∧
    (runPatch oDef s0).2.fs.lookup orig = some (.file zbc 0o644) ∧
    (runPatch oDef s0).2.out = [.file name false, .msg (.hunk 1 "succeeded" 1 1 0)] := by
  have h := C03_run_fuzz_backup oDef s0 name pname zbc oldt newt 0o644 0o644 hk 0 1 placeOptsDef (Or.inr rfl) rfl
    ⟨rfl, rfl, rfl, rfl, rfl, rfl⟩ rfl (by decide) (orig_flat (by decide))
    (by rw [(C18.backupName_spec oDef name).1 rfl rfl, str_orig]; exact notDir_of_none (by decide))
    (by decide) (by decide) rfl (by decide) (by decide)
    (by decide) rfl diffHunks
    (by decide) (by decide) (by decide) (by decide +kernel) (noLessFuzzB_sound (by decide +kernel))
    (Or.inr (Or.inr (by decide +kernel)))
  have hm : render oDef.newlineOutput (spliceAt (splitLines zbc) 0 [(hk, 0)]) = result := by decide
  have e : backupName oDef name = orig := by
    rw [(C18.backupName_spec oDef name).1 rfl rfl, str_orig]; rfl
  rw [hm, e] at h
  exact ⟨h.1, h.2.1, h.2.2.1, h.2.2.2.2⟩

#guard (runPatch oNo s0).1 == 0 && (runPatch oNo s0).2.fs.lookup name == some (.file (str "z\nB\nc\n") 0o644)
#guard (runPatch oNo s0).2.out == [.file name false, .msg (.hunk 1 "succeeded" 1 1 0)]
#guard (runPatch oDef s0).2.fs.lookup (str "f.orig") == some (.file (str "z\nb\nc\n") 0o644)
-- `-F 0`: no fuzz allowed, the hunk is rejected
#guard (runPatch { oNo with maxFuzz := 0 } s0).1 == 1

end Fuzz

/-! ### the side condition on the reversed hunk is needed (when the hunk has a new side), and not needed otherwise -/
namespace NeedsNotReversed
open PatchModel.C01.Instance (name pname oldt newt hk)
open PatchModel.C03Run.Instance (oNo)

/-- `f` = "a\nB\nc\nx\na\nb\nc\n": the hunk (`b` → `B`, line 1) is found at line 5 (offset 4), but reversed it sits perfectly at
    line 1 — the program asks whether to assume `-R`; there is no terminal in `s0`: exit status 2, nothing written.  Every other
    hypothesis of `C03_run_offset` holds (`X` = the first four lines). -/
def both : Bytes := [97, 10, 66, 10, 99, 10, 120, 10, 97, 10, 98, 10, 99, 10]
def s0 : DState :=
  { fs := { nodes := [(name, .file both 0o644), (pname, .file (diffText name name oldt newt [hk]) 0o644)] } }
#guard both == str "a\nB\nc\nx\na\nb\nc\n"
theorem others_hold :
    splitLines both = [⟨[97], .lf⟩, ⟨[66], .lf⟩, ⟨[99], .lf⟩, ⟨[120], .lf⟩] ++ oldOf hk.lines ++ [] ∧
    FoundFirstAt (splitLines both) hk oNo.ignoreWhitespace oNo.maxFuzz 4 ∧
    locateHunk (splitLines both) hk false 0 2 0 = some ⟨4, 0, 4⟩ ∧
    isPerfect (locateHunk (splitLines both) (reverseHunk hk) false 0 2 0) = true :=
  ⟨by decide, foundFirstAtB_sound (by decide) (by decide +kernel), by decide +kernel, by decide +kernel⟩
#guard (runPatch oNo s0).1 == 2
#guard (runPatch oNo s0).2.fs.lookup name == some (.file both 0o644)
#guard (runPatch oNo s0).2.out == [.file name false]        -- the question cannot be put: `system_error`
-- with a terminal and the answers "n" (do not assume -R), "y" (apply anyway) the hunk is applied at line 5
#guard (runPatch oNo { s0 with tty := some [str "n", str "y"] }).1 == 0 &&
  (runPatch oNo { s0 with tty := some [str "n", str "y"] }).2.fs.lookup name == some (.file (str "a\nB\nc\nx\na\nB\nc\n") 0o644)
-- with `-f` the probe is skipped and the theorem applies
#guard (runPatch { oNo with force := true } s0).1 == 0 &&
  (runPatch { oNo with force := true } s0).2.fs.lookup name == some (.file (str "a\nB\nc\nx\na\nB\nc\n") 0o644)

/-! #### the context-free removal: formerly a counterexample, now an instance

A hunk that only removes lines and carries no context (`@@ -4,2 +3,0 @@`, as `diff -U0` writes it), applied with an offset.
Reversed it is an insertion without an old side, which `locate_hunk` "finds" at its stated line whatever the file holds
(`C03.locate_insertion_exact`).  Before fix 3f5edfc the probe called every such run a reversed patch: the question was asked (exit
status 2 without a terminal; with `-t` the patch WAS reversed: exit status 0 and the lines were inserted a second time, at the
stated line, instead of removed) — found as the counterexample `pureDeletion` to `C03_run_offset` without its last hypothesis:

    -- theorem pureDeletion :                                       (the OLD statement, true of the model before the fix)
    --     locateHunk (splitLines abcxdef) del false 0 2 0 = some ⟨4, 0, 1⟩ ∧
    --     isPerfect (locateHunk (splitLines abcxdef) (reverseHunk del) false 0 2 0) = true
    -- #guard (runPatch oNo sDel).1 == 2 && (runPatch oNo sDel).2.fs.lookup name == some (.file abcxdef 0o644)
    -- #guard (runPatch { oNo with batch := true } sDel).2.fs.lookup name == some (.file (str "a\nb\nc\nd\ne\nx\nd\ne\nf\n") 0o644)

Now a reversed hunk without old lines is no evidence (`pureDeletion_probe`: the locator says the same as before, it is the verdict
that no longer counts), the hypothesis of `C03_run_offset` is `o.force = true ∨ h.new.count = 0 ∨ …`, and the run is an instance
of the theorem under every mode (`-t`, `-f`, `-N`, any terminal or none): `f` = "a\nb\nc\nx\nd\ne\nf\n", the hunk removes `d`, `e`
and states line 4; they are at line 5; the result is "a\nb\nc\nx\nf\n", `Hunk #1 succeeded at 5 (offset 1 line)`. -/
def del : Hunk := ⟨⟨4, 2⟩, ⟨3, 0⟩, [⟨MINUS, ⟨[100], .lf⟩⟩, ⟨MINUS, ⟨[101], .lf⟩⟩]⟩
def abcxdef : Bytes := [97, 10, 98, 10, 99, 10, 120, 10, 100, 10, 101, 10, 102, 10]
def abcxf : Bytes := [97, 10, 98, 10, 99, 10, 120, 10, 102, 10]
def Xdel : List Line := [⟨[97], .lf⟩, ⟨[98], .lf⟩, ⟨[99], .lf⟩, ⟨[120], .lf⟩]
def Ydel : List Line := [⟨[102], .lf⟩]
def sDel : DState :=
  { fs := { nodes := [(name, .file abcxdef 0o644), (pname, .file (diffText name name oldt newt [del]) 0o644)] } }
/-- `patch --no-backup-if-mismatch [-t] [-f] [-N] -i p.diff f` -/
def oMode (t f n : Bool) : Options := { oNo with batch := t, force := f, ignoreReversed := n }
#guard abcxdef == str "a\nb\nc\nx\nd\ne\nf\n" && abcxf == str "a\nb\nc\nx\nf\n"
#guard diffText name name oldt newt [del] == str "--- f\t2020\n+++ f\t2021\n@@ -4,2 +3,0 @@\n-d\n-e\n"

theorem placeOptsMode (t f n : Bool) : PlaceOpts (oMode t f n) name pname :=
  { operand := rfl, noOut := rfl, noReverse := rfl, noDefine := rfl,
    file := { patchFile := rfl, noDir := rfl, noHelp := rfl, noVersion := rfl, noContext := rfl, noNormal := rfl, noEd := rfl } }

/-- what the locator says has not changed: the hunk is found one line down, the reversed hunk "perfectly" — but the reversed hunk
    has no old lines (`del.new.count = 0`), and that is what the probe now looks at first -/
theorem pureDeletion_probe :
    locateHunk (splitLines abcxdef) del false 0 2 0 = some ⟨4, 0, 1⟩ ∧
    isPerfect (locateHunk (splitLines abcxdef) (reverseHunk del) false 0 2 0) = true ∧
    del.new.count = 0 ∧ (reverseHunk del).old.count = 0 := by decide +kernel

theorem del_lines : splitLines abcxdef = Xdel ++ oldOf del.lines ++ Ydel := by decide
theorem del_first : FoundFirstAt (splitLines abcxdef) del false 2 4 := foundFirstAtB_sound (by decide) (by decide +kernel)
theorem del_diffHunks : DiffHunks [del] := { nonEmpty := by decide, writable := by decide, change := by decide }

/-- **`C03_run_offset` applies to the context-free removal, whatever the mode** (`-t`, `-f`, `-N` each on or off; any terminal or
    none; all hypotheses discharged in the kernel, the last one by `del.new.count = 0`): exit status 0, `f` = "a\nb\nc\nx\nf\n" mode
    0644, nothing else touched, nothing asked, `Hunk #1 succeeded at 5 (offset 1 line)` -/
theorem pureDeletion (t f n : Bool) (tty : Option (List Bytes)) :
    (runPatch (oMode t f n) { sDel with tty := tty }).1 = 0 ∧
    (runPatch (oMode t f n) { sDel with tty := tty }).2.fs.lookup name = some (.file abcxf 0o644) ∧
    (∀ q, q ≠ name → (runPatch (oMode t f n) { sDel with tty := tty }).2.fs.lookup q = sDel.fs.lookup q) ∧
    (runPatch (oMode t f n) { sDel with tty := tty }).2.out = [.file name false, .msg (.hunk 1 "succeeded" 5 0 1)] := by
  have h := C03_run_offset (oMode t f n) { sDel with tty := tty } name pname abcxdef oldt newt 0o644 0o644 del Xdel Ydel
    (placeOptsMode t f n) rfl (by show OptionalBool.no ≠ OptionalBool.yes; decide) rfl
    ⟨rfl, rfl, rfl, rfl, rfl, rfl⟩ (by decide) (by decide) (by decide) rfl (by decide) (by decide) (by decide) rfl del_diffHunks
    (by decide) (by show (0 : Int) ≤ 2; decide) del_lines (by decide) del_first (Or.inr (Or.inl rfl))
  have hm : Render.renderText (oMode t f n).newlineOutput (Xdel ++ newOf del.lines ++ Ydel) = abcxf := by
    show Render.renderText oNo.newlineOutput (Xdel ++ newOf del.lines ++ Ydel) = abcxf
    decide
  rw [hm] at h
  exact h

-- independently: the executable model on the same state — no terminal, `-t`, `-f`, `-N`, and with a terminal (nothing is read)
#guard (runPatch oNo sDel).1 == 0 && (runPatch oNo sDel).2.fs.lookup name == some (.file (str "a\nb\nc\nx\nf\n") 0o644) &&
  (runPatch oNo sDel).2.out == [.file name false, .msg (.hunk 1 "succeeded" 5 0 1)]
#guard (runPatch { oNo with batch := true } sDel).1 == 0 &&
  (runPatch { oNo with batch := true } sDel).2.out == [.file name false, .msg (.hunk 1 "succeeded" 5 0 1)] &&
  (runPatch { oNo with batch := true } sDel).2.fs.lookup name == some (.file (str "a\nb\nc\nx\nf\n") 0o644)
#guard (runPatch { oNo with force := true } sDel).1 == 0 &&
  (runPatch { oNo with force := true } sDel).2.out == [.file name false, .msg (.hunk 1 "succeeded" 5 0 1)] &&
  (runPatch { oNo with force := true } sDel).2.fs.lookup name == some (.file (str "a\nb\nc\nx\nf\n") 0o644)
#guard (runPatch { oNo with ignoreReversed := true } sDel).1 == 0 &&
  (runPatch { oNo with ignoreReversed := true } sDel).2.fs.lookup name == some (.file (str "a\nb\nc\nx\nf\n") 0o644)
#guard (runPatch oNo { sDel with tty := some [str "y"] }).1 == 0 &&
  (runPatch oNo { sDel with tty := some [str "y"] }).2.tty == some [str "y"] &&
  (runPatch oNo { sDel with tty := some [str "y"] }).2.fs.lookup name == some (.file (str "a\nb\nc\nx\nf\n") 0o644)
#guard oMode false false false == oNo && oMode true false false == { oNo with batch := true }

end NeedsNotReversed

end PatchModel.C03Run

#print axioms PatchModel.RunO.locateHunk_first
#print axioms PatchModel.RunO.locateHunk_moved
#print axioms PatchModel.RunO.locateHunk_unique
#print axioms PatchModel.RunO.locateHunk_fuzz_at_stated
#print axioms PatchModel.RunO.reversed_not_perfect
#print axioms PatchModel.RunO.applyPatch_place_one
#print axioms PatchModel.RunO.spliceAt_one_exact
#print axioms PatchModel.RunO.processSection_placed
#print axioms PatchModel.RunO.processSection_placed_backup
#print axioms PatchModel.C03Run.C03_run_located_filler
#print axioms PatchModel.C03Run.C03_run_located_backup_filler
#print axioms PatchModel.C03Run.C03_run_located
#print axioms PatchModel.C03Run.C03_run_located_backup
#print axioms PatchModel.C03Run.C03_run_offset
#print axioms PatchModel.C03Run.C03_run_offset_backup
#print axioms PatchModel.C03Run.C03_run_offset_orig
#print axioms PatchModel.C03Run.C03_run_offset_unique
#print axioms PatchModel.C03Run.C03_run_fuzz
#print axioms PatchModel.C03Run.C03_run_fuzz_backup
#print axioms PatchModel.C03Run.Instance.applies
#print axioms PatchModel.C03Run.Instance.applies_orig
#print axioms PatchModel.C03Run.Instance.applies_up
#print axioms PatchModel.C03Run.Instance.applies_forward_first
#print axioms PatchModel.C03Run.Fuzz.applies
#print axioms PatchModel.C03Run.Fuzz.applies_backup
#print axioms PatchModel.C03Run.NeedsNotReversed.others_hold
#print axioms PatchModel.C03Run.NeedsNotReversed.pureDeletion_probe
#print axioms PatchModel.C03Run.NeedsNotReversed.pureDeletion
