/-
  C01 / C06 end to end for a plain (non-git) unified diff that REMOVES a file — the whole modelled program (`runPatch` = `main` after
  option parsing) on the TEXT of the diff

      --- f
      +++ /dev/null
      @@ -1,n +0,0 @@
      -line 1
      …
      -line n                                   (`delText f old` = `RunDl.bareText f devNull none none [RunDl.delHunk old]`)

  run as   patch [-u] [-pN] [-F n] [--newline-output=…] -i pname [f]     with `-E` in force (`o.removeEmptyFiles = .yes`: what
  `apply_defaults` makes of the option when it is left alone, outside POSIX mode).  The theorems of C01Run.lean exclude such a diff
  (`changeStart`): the range `+0,0` makes the header scan infer the operation "delete", and `process_patch` takes the removal branch.

  or, as `diff -u` writes it, with a TAB and a time stamp after each of the two names (`delTextT f (some oldt) (some newt) old`),

  * `C01_run_delete` — the tree holds `f` (content `bytes`, whose lines are `old`, not empty; mode `m`, writable) and the patch
    file: exit status 0; afterwards there is NO node at `f`; the tree is the old tree with `f` erased (every other path as it was:
    the name has no directory part, so no directory is removed; no reject file, no backup file); all that is done to the tree is
    `unlink f` after the four operations on anonymous temporaries; the log is exactly "patching file f"; no reject or backup is
    recorded.  With or without the file operand (`DelOpts.target`: without it `guess_filepath` finds the old name of the header).
    `C01_run_delete_lf`: the same for a file given as LF terminated lines.  `C15_run_delete_dry`: under --dry-run nothing happens.
    `C01_run_delete_stamped`: the header lines with time stamps.  `C01_run_delete_gen`: either (`DelHeader`).
  * `C06_run_delete_again_N` — the same patch with `-N` on a tree with NO node at `f` (the removal was applied before): exit
    status 1; the tree is the old tree plus the reject file `f.rej`, a new file which holds the text of the diff (header and hunk);
    NO node appears at `f`; the log is "patching file f", "reversed (or previously applied) patch detected", "skipping patch",
    "1 out of 1 hunk ignored".  Mechanism: `guess_filepath` falls back to the old name for a removal; the missing file is read as
    empty; the hunk is not found but its reversal — the insertion of the lines into an empty file — fits exactly; `-N` skips; in the
    removal block of `process_patch` the patch was not applied and there is no file: nothing is written.
    `C06_run_delete_again_N_stamped` / `_gen`: with time stamps — `f.rej` then has `--- f TAB oldt` and `+++ /dev/null` (the header
    writer puts no time stamp after `/dev/null`).

  Composition of `RunDl.parse_bareLines` (header scan + body parse), `C01.applyPatch_valid` / `RunDl.applyPatch_del_again_N` (the
  applier), `RunDl.processSection_delete(_dry)` / `RunDl.processSection_delete_again` (the section) and the closed forms of the
  section loop and of `processPatchM` in Lemmas/Run.lean.

  Side conditions: the name is in the working directory, not empty, without blank, TAB, line feed, not ending in CR, not starting
  with a quote (`delName`: it stands alone on its header line; followed by a TAB and a time stamp it may have blanks:
  `C01.flatName`, `C01.stampOk`); no `-p`, or `-p0`; `(delHunk old).writable` — the lines are plain
  (no line feed in a line, no CR at the end of one), only the last may lack its newline, and there are not absurdly many
  (`RunDl.writable_delHunk`); root, no `-o`, `-R`, `-D`, `--verbose`; for the removal no `-b`; for `-N`: no `-f`, no `-r`, rejects not in
  context format, `f.rej` free, and — without the operand — no node with the empty name in the tree (`guess_filepath` asks whether
  the missing `Index:` name exists).
-/
import PatchModel.Props.C01Run
import PatchModel.Lemmas.RunDl
namespace PatchModel.C01RunDelete
open PatchModel PatchModel.Section PatchModel.Run PatchModel.DriverFacts PatchModel.RunB PatchModel.RunG PatchModel.RunDl
  PatchModel.C01

/-- the options: `patch [-u] [-pN] [-F n] [--newline-output=…] -i pname [name]`, `-E` in force -/
structure DelOpts (o : Options) (name pname : Bytes) : Prop where
  target : o.fileToPatch = name ∨ o.fileToPatch = []
  noOut : o.outFile = []
  noReverse : o.reverse = false
  noDefine : o.define = []
  fuzz : 0 ≤ o.maxFuzz
  quiet : o.verbose = false
  removeEmpty : o.removeEmptyFiles = .yes
  file : FileOpts o pname

/-- a name in the working directory as it stands alone on a `--- ` line: no blank, not quoted -/
def delName (n : Bytes) : Prop :=
  n ≠ [] ∧ (∀ c ∈ n, c ≠ SLASHB) ∧ TAB ∉ n ∧ SP ∉ n ∧ NL ∉ n ∧ n.getLast? ≠ some CR ∧ n.head? ≠ some DQUOTE

instance (n : Bytes) : Decidable (delName n) := by unfold delName; infer_instance

/-- the text of the diff that removes the file `f` whose lines are `old`; `ta`, `tb`: the time stamps after the two names, if any
    (`--- f TAB ta`, `+++ /dev/null TAB tb`) -/
def delTextT (f : Bytes) (ta tb : Option Bytes) (old : List Line) : Bytes := bareText f devNull ta tb [delHunk old]

/-- … without time stamps: `--- f`, `+++ /dev/null` -/
abbrev delText (f : Bytes) (old : List Line) : Bytes := delTextT f none none old

/-- what is asked of the name and the time stamps: the name is in the working directory, and the two header lines are read back -/
structure DelHeader (f : Bytes) (ta tb : Option Bytes) : Prop where
  ne : f ≠ []
  flat : ∀ c ∈ f, c ≠ SLASHB
  oldOk : FieldOk f ta
  newOk : FieldOk devNull tb
  oldEnd : endField (fileField f ta)
  newEnd : endField (fileField devNull tb)

theorem wordName_devNull : Header.wordName devNull := by
  rw [Names.devNull_eq]; unfold Header.wordName; decide

theorem plainName_devNull : Header.plainName devNull := by
  rw [Names.devNull_eq]; unfold Header.plainName; decide

theorem endField_devNull : endField devNull := by
  rw [Names.devNull_eq]; unfold endField; decide

/-- names that stand alone on their lines -/
theorem delHeader_bare {f : Bytes} (hf : delName f) : DelHeader f none none :=
  { ne := hf.1, flat := hf.2.1, oldOk := ⟨hf.1, hf.2.2.1, hf.2.2.2.1, hf.2.2.2.2.2.2⟩, newOk := wordName_devNull,
    oldEnd := ⟨hf.2.2.2.2.1, hf.2.2.2.2.2.1⟩, newEnd := endField_devNull }

/-- names followed by a TAB and a time stamp, as `diff -u` writes them (the name may have blanks then) -/
theorem delHeader_stamped {f oldt newt : Bytes} (hf : flatName f) (hot : stampOk oldt) (hnt : stampOk newt) :
    DelHeader f (some oldt) (some newt) :=
  { ne := hf.1, flat := hf.2.1, oldOk := ⟨⟨hf.1, hf.2.2.1, hf.2.2.2.2⟩, hot.1⟩, newOk := ⟨plainName_devNull, hnt.1⟩,
    oldEnd := endField_stamped hf.2.2.2.1 hot.1 hot.2.1 hot.2.2,
    newEnd := endField_stamped endField_devNull.1 hnt.1 hnt.2.1 hnt.2.2 }

theorem stripped_devNull (strip : Int) : Header.stripped devNull strip = devNull := by
  unfold Header.stripped; rw [if_pos rfl]

theorem stripped_flat {f : Bytes} (hflat : ∀ c ∈ f, c ≠ SLASHB) {strip : Int} (hs : strip ≤ 0) : Header.stripped f strip = f := by
  unfold Header.stripped
  rw [if_neg (flat_ne_devNull hflat), stripPath_flat hflat hs]

theorem forcedOk (o : Options) : forced o = .unknown ∨ forced o = .unified := by
  unfold forced; split
  · exact Or.inr rfl
  · exact Or.inl rfl

/-- the four operations on the two anonymous temporaries of a section (reject file, output file) -/
abbrev tmpOps : List FsOp := [.tmpCreate, .tmpUnlink, .tmpCreate, .tmpUnlink]

/-- the patch the header scan hands back -/
abbrev delPatch (f : Bytes) (ta tb : Option Bytes) : Patch :=
  { format := .unified, operation := .delete, oldPath := f, newPath := devNull, oldTime := ta.getD [], newTime := tb.getD [] }

section
variable {o : Options} {s0 : DState} {f pname bytes : Bytes} {ta tb : Option Bytes} {m pm : Nat} {old : List Line}

theorem splitLines_delText (hd : DelHeader f ta tb) (hwr : (delHunk old).writable = true) :
    splitLines (delTextT f ta tb old) = bareLines f devNull ta tb [delHunk old] :=
  splitLines_bareText f devNull ta tb [delHunk old] hd.oldEnd hd.newEnd
    (by intro h hh; rw [List.mem_singleton.1 hh]; exact hwr)

/-- header scan and body parse of the text -/
theorem parse_delLines (hstrip : o.strip ≤ 0) (hd : DelHeader f ta tb) (hwr : (delHunk old).writable = true) :
    ∃ info par1 par2,
      parseHeader { s := { rest := bareLines f devNull ta tb [delHunk old] } } { format := forced o } o.strip
        = .ok (true, delPatch f ta tb, info, par1) ∧
      parseBody par1 (delPatch f ta tb) = .ok ({ delPatch f ta tb with hunks := [delHunk old] }, par2) ∧
      par2.s.eof = true := by
  obtain ⟨info, par1, par2, hhdr, hbody, heof⟩ := parse_bareLines o.strip (forced o) (forcedOk o) f devNull ta tb [delHunk old] 1
    hd.oldOk hd.newOk (by simp) (by intro h hh; rw [List.mem_singleton.1 hh]; exact hwr)
  have hop : firstOp [delHunk old] = .delete := by
    show Header.inferredOp (delHunk old) = _
    unfold Header.inferredOp
    rw [if_pos (show (delHunk old).new.start = 0 from rfl)]
  rw [hop, stripped_flat hd.flat hstrip, stripped_devNull] at hhdr hbody
  exact ⟨info, par1, par2, hhdr, hbody, heof⟩

/-- from the closed form of the one section to the closed form of the run -/
theorem runPatch_of_one {ptext : Bytes} (ho : FileOpts o pname) (hs0 : CleanStart s0) (hpn : pname ≠ []) (hpd : pname ≠ [45])
    (hpatch : s0.fs.lookup pname = some (.file ptext pm)) (s' : DState) (par2 : Parser)
    (hrun : (processSection o (forced o)).run (loopStart s0 (splitLines ptext)) = (.ok true, s'))
    (hpar : s'.par = par2) (heof : par2.s.eof = true)
    (hdw : s'.dWrites = (loopStart s0 (splitLines ptext)).dWrites)
    (hdr : s'.dRemovals = (loopStart s0 (splitLines ptext)).dRemovals) :
    runPatch o s0 = (if s'.hadFailure then 1 else 0, s') := by
  have hloop := sectionLoop_one o (forced o) (splitLines ptext).length _ s' rfl hrun (by rw [hpar]; exact heof)
  have hrunP := run_processPatchM o s0 s' pname ptext pm (forced o) ho.noDir ho.patchFile hpn hpd
    hs0.cwd hpatch hs0.root (diffFormat_plain o ho.noContext ho.noNormal ho.noEd) hloop
    (by rw [hdw]; exact hs0.noWrites) (by rw [hdr]; exact hs0.noRemovals)
  exact runPatch_of_run o s0 s' ho.noHelp ho.noVersion hrunP

/-- header scan, body parse and the applier's verdict for the one section of the diff -/
theorem delSection_of_text (ho : DelOpts o f pname) (hnb : o.saveBackup = false) (hstrip : o.strip ≤ 0) (hs0 : CleanStart s0)
    (hd : DelHeader f ta tb) (hlines : splitLines bytes = old) (hne : old ≠ []) (hwr : (delHunk old).writable = true)
    (htarget : s0.fs.lookup f = some (.file bytes m)) (hw : m &&& writeMask ≠ 0) :
    ∃ info par1 par2 r,
      DelSection o (forced o) (loopStart s0 (bareLines f devNull ta tb [delHunk old])) f bytes m (delPatch f ta tb)
        { delPatch f ta tb with hunks := [delHunk old] } info par1 par2 r ∧ par2.s.eof = true := by
  obtain ⟨info, par1, par2, hhdr, hbody, heof⟩ := parse_delLines (o := o) hstrip hd hwr
  have hrev : (applyOptsOf o).reverse = false := ho.noReverse
  obtain ⟨r, hap, hrout, _, hrfail, _, hrperf, hrskip, _, hrmsgs, hrtty, hrpatch⟩ :=
    applyPatch_valid old [delHunk old] { delPatch f ta tb with hunks := [delHunk old] } (applyOptsOf o)
      (Option.map (fun l => List.map (fun a => !List.isEmpty a && List.head? a != some 110) l) s0.tty)
      (valid_delHunk old hne) (by rw [hrev]; rfl) ho.noDefine ho.fuzz
  have hout : r.out = [] := by
    rw [splice_delHunk old hne] at hrout
    exact List.map_eq_nil_iff.1 hrout
  refine ⟨info, par1, par2, r, ?_, heof⟩
  exact {
    target := by
      rcases ho.target with h | h
      · exact Or.inl h
      · exact Or.inr ⟨h, rfl, flat_ne_devNull hd.flat⟩
    noOut := ho.noOut, noBackup := hnb, removeEmpty := ho.removeEmpty, pathNe := hd.ne, flat := dirPrefixes_flat hd.flat,
    cwd := hs0.cwd, hdr := hhdr, fmt := Or.inl rfl, op := rfl, pre := rfl, body := hbody, fmt2 := rfl, op2 := rfl,
    file := htarget, writable := hw, root := hs0.root, noFault := hs0.noFault,
    apply := by rw [hlines]; exact hap,
    failed := hrfail, perfect := hrperf, skipped := hrskip, msgs := hrmsgs ho.quiet, ttyLeft := hrtty,
    patch := by rw [hrpatch, hrev]; rfl,
    empty := by rw [hout]; rfl }

/-- **C01, the whole program on the text of a plain unified diff that removes the file** — the header lines with or without time
    stamps (`DelHeader`) -/
theorem C01_run_delete_gen (ho : DelOpts o f pname) (hnb : o.saveBackup = false) (hstrip : o.strip ≤ 0) (hreal : o.dryRun = false)
    (hs0 : CleanStart s0) (hd : DelHeader f ta tb) (hpn : pname ≠ []) (hpd : pname ≠ [45])
    (hlines : splitLines bytes = old) (hne : old ≠ []) (hwr : (delHunk old).writable = true)
    (htarget : s0.fs.lookup f = some (.file bytes m)) (hw : m &&& writeMask ≠ 0)
    (hpatch : s0.fs.lookup pname = some (.file (delTextT f ta tb old) pm)) :
    (runPatch o s0).1 = 0 ∧
    (runPatch o s0).2.fs.lookup f = none ∧
    (∀ q, q ≠ f → (runPatch o s0).2.fs.lookup q = s0.fs.lookup q) ∧
    (runPatch o s0).2.fs = s0.fs.erase f ∧
    (runPatch o s0).2.trace = s0.trace ++ tmpOps ++ [.unlink f] ∧
    (runPatch o s0).2.out = s0.out ++ [.file f false] ∧
    (runPatch o s0).2.rejWritten = s0.rejWritten ∧ (runPatch o s0).2.backedUp = s0.backedUp := by
  obtain ⟨info, par1, par2, r, H, heof⟩ := delSection_of_text ho hnb hstrip hs0 hd hlines hne hwr htarget hw
  obtain ⟨s', hrun, hfs, htr, hrw, hdone⟩ := processSection_delete H hreal
  have hsplit := splitLines_delText (old := old) hd hwr
  have hR := runPatch_of_one ho.file hs0 hpn hpd hpatch s' par2 (by rw [hsplit]; exact hrun) hdone.par heof
    (by rw [hsplit]; exact hdone.dWrites) (by rw [hsplit]; exact hdone.dRemovals)
  have hhf : s'.hadFailure = false := by rw [hdone.hadFailure]; exact hs0.noFailure
  rw [hR, hhf]
  refine ⟨rfl, ?_, ?_, hfs, ?_, hdone.out, hrw, hdone.backedUp⟩
  · show s'.fs.lookup f = none
    rw [hfs]; exact Fs.lookup_erase_self _ _
  · intro q hq
    show s'.fs.lookup q = _
    rw [hfs]; exact Fs.lookup_erase_ne _ _ _ hq
  · show s'.trace = _
    rw [htr]; show s0.trace ++ _ ++ _ ++ _ = _; simp

/-- **C15 sibling: the same run under --dry-run** — exit status 0, the tree untouched, `f` still there -/
theorem C15_run_delete_dry_gen (ho : DelOpts o f pname) (hnb : o.saveBackup = false) (hstrip : o.strip ≤ 0) (hdry : o.dryRun = true)
    (hs0 : CleanStart s0) (hd : DelHeader f ta tb) (hpn : pname ≠ []) (hpd : pname ≠ [45])
    (hlines : splitLines bytes = old) (hne : old ≠ []) (hwr : (delHunk old).writable = true)
    (htarget : s0.fs.lookup f = some (.file bytes m)) (hw : m &&& writeMask ≠ 0)
    (hpatch : s0.fs.lookup pname = some (.file (delTextT f ta tb old) pm)) :
    (runPatch o s0).1 = 0 ∧ (runPatch o s0).2.fs = s0.fs ∧ (runPatch o s0).2.trace = s0.trace ++ tmpOps ∧
    (runPatch o s0).2.out = s0.out ++ [.file f true] := by
  obtain ⟨info, par1, par2, r, H, heof⟩ := delSection_of_text ho hnb hstrip hs0 hd hlines hne hwr htarget hw
  obtain ⟨s', hrun, hfs, htr, hdone⟩ := processSection_delete_dry H hdry
  have hsplit := splitLines_delText (old := old) hd hwr
  have hR := runPatch_of_one ho.file hs0 hpn hpd hpatch s' par2 (by rw [hsplit]; exact hrun) hdone.par heof
    (by rw [hsplit]; exact hdone.dWrites) (by rw [hsplit]; exact hdone.dRemovals)
  have hhf : s'.hadFailure = false := by rw [hdone.hadFailure]; exact hs0.noFailure
  rw [hR, hhf]
  refine ⟨rfl, hfs, ?_, hdone.out⟩
  show s'.trace = _
  rw [htr]; show s0.trace ++ _ ++ _ = _; simp

end

/-- **C01, end to end, a plain unified diff that removes the file.**  `patch -i pname [f]` (`-E` in force; no `-p`, or `-p0`) in a tree
    with the file `f` (its lines: `old`, not empty) and the patch file `pname` = `--- f`, `+++ /dev/null`, `@@ -1,n +0,0 @@` and every
    line of `f` with `-` in front: exit status 0; there is NO node at `f` afterwards; the tree is the old tree without `f` — every
    other path is as it was, so there is no reject file and no backup file —; the run did `unlink f` and nothing else to the tree;
    the log is exactly "patching file f"; no reject file and no backup is recorded. -/
theorem C01_run_delete (o : Options) (s0 : DState) (f pname bytes : Bytes) (old : List Line) (m pm : Nat)
    (ho : DelOpts o f pname) (hnb : o.saveBackup = false) (hstrip : o.strip ≤ 0) (hreal : o.dryRun = false)
    (hs0 : CleanStart s0) (hf : delName f) (hpn : pname ≠ []) (hpd : pname ≠ [45])
    (hlines : splitLines bytes = old) (hne : old ≠ []) (hwr : (delHunk old).writable = true)
    (htarget : s0.fs.lookup f = some (.file bytes m)) (hw : m &&& writeMask ≠ 0)
    (hpatch : s0.fs.lookup pname = some (.file (delText f old) pm)) :
    (runPatch o s0).1 = 0 ∧
    (runPatch o s0).2.fs.lookup f = none ∧
    (∀ q, q ≠ f → (runPatch o s0).2.fs.lookup q = s0.fs.lookup q) ∧
    (runPatch o s0).2.fs = s0.fs.erase f ∧
    (runPatch o s0).2.trace = s0.trace ++ tmpOps ++ [.unlink f] ∧
    (runPatch o s0).2.out = s0.out ++ [.file f false] ∧
    (runPatch o s0).2.rejWritten = s0.rejWritten ∧ (runPatch o s0).2.backedUp = s0.backedUp :=
  C01_run_delete_gen ho hnb hstrip hreal hs0 (delHeader_bare hf) hpn hpd hlines hne hwr htarget hw hpatch

/-- **the same for the diff as `diff -u` writes it**: `--- f TAB oldt`, `+++ /dev/null TAB newt` (the name may have blanks then:
    `C01.flatName`) -/
theorem C01_run_delete_stamped (o : Options) (s0 : DState) (f pname bytes oldt newt : Bytes) (old : List Line) (m pm : Nat)
    (ho : DelOpts o f pname) (hnb : o.saveBackup = false) (hstrip : o.strip ≤ 0) (hreal : o.dryRun = false)
    (hs0 : CleanStart s0) (hf : flatName f) (hot : stampOk oldt) (hnt : stampOk newt) (hpn : pname ≠ []) (hpd : pname ≠ [45])
    (hlines : splitLines bytes = old) (hne : old ≠ []) (hwr : (delHunk old).writable = true)
    (htarget : s0.fs.lookup f = some (.file bytes m)) (hw : m &&& writeMask ≠ 0)
    (hpatch : s0.fs.lookup pname = some (.file (delTextT f (some oldt) (some newt) old) pm)) :
    (runPatch o s0).1 = 0 ∧
    (runPatch o s0).2.fs.lookup f = none ∧
    (∀ q, q ≠ f → (runPatch o s0).2.fs.lookup q = s0.fs.lookup q) ∧
    (runPatch o s0).2.fs = s0.fs.erase f ∧
    (runPatch o s0).2.trace = s0.trace ++ tmpOps ++ [.unlink f] ∧
    (runPatch o s0).2.out = s0.out ++ [.file f false] ∧
    (runPatch o s0).2.rejWritten = s0.rejWritten ∧ (runPatch o s0).2.backedUp = s0.backedUp :=
  C01_run_delete_gen ho hnb hstrip hreal hs0 (delHeader_stamped hf hot hnt) hpn hpd hlines hne hwr htarget hw hpatch

/-- **C15 sibling: the same run under --dry-run** — exit status 0, the tree untouched, `f` still there -/
theorem C15_run_delete_dry (o : Options) (s0 : DState) (f pname bytes : Bytes) (old : List Line) (m pm : Nat)
    (ho : DelOpts o f pname) (hnb : o.saveBackup = false) (hstrip : o.strip ≤ 0) (hdry : o.dryRun = true)
    (hs0 : CleanStart s0) (hf : delName f) (hpn : pname ≠ []) (hpd : pname ≠ [45])
    (hlines : splitLines bytes = old) (hne : old ≠ []) (hwr : (delHunk old).writable = true)
    (htarget : s0.fs.lookup f = some (.file bytes m)) (hw : m &&& writeMask ≠ 0)
    (hpatch : s0.fs.lookup pname = some (.file (delText f old) pm)) :
    (runPatch o s0).1 = 0 ∧ (runPatch o s0).2.fs = s0.fs ∧ (runPatch o s0).2.trace = s0.trace ++ tmpOps ∧
    (runPatch o s0).2.out = s0.out ++ [.file f true] :=
  C15_run_delete_dry_gen ho hnb hstrip hdry hs0 (delHeader_bare hf) hpn hpd hlines hne hwr htarget hw hpatch

/-- **the same for a file given by its lines**: `old` a non-empty list of LF terminated plain lines (no line feed in a line, no CR at
    its end), not absurdly many; `f` holds them as any output mode but `crlf` writes them (`renderLines mode old`: every line
    followed by LF) -/
theorem C01_run_delete_lf (o : Options) (s0 : DState) (f pname : Bytes) (old : List Line) (mode : NewlineOutput) (m pm : Nat)
    (ho : DelOpts o f pname) (hnb : o.saveBackup = false) (hstrip : o.strip ≤ 0) (hreal : o.dryRun = false)
    (hs0 : CleanStart s0) (hf : delName f) (hpn : pname ≠ []) (hpd : pname ≠ [45])
    (hmode : mode ≠ .crlf) (hne : old ≠ []) (hplain : ∀ l ∈ old, lfPlain l = true) (hlen : (old.length : Int) + 1 ≤ i64Max / 4)
    (htarget : s0.fs.lookup f = some (.file (renderLines mode old) m)) (hw : m &&& writeMask ≠ 0)
    (hpatch : s0.fs.lookup pname = some (.file (delText f old) pm)) :
    (runPatch o s0).1 = 0 ∧
    (runPatch o s0).2.fs.lookup f = none ∧
    (∀ q, q ≠ f → (runPatch o s0).2.fs.lookup q = s0.fs.lookup q) ∧
    (runPatch o s0).2.fs = s0.fs.erase f ∧
    (runPatch o s0).2.trace = s0.trace ++ tmpOps ++ [.unlink f] ∧
    (runPatch o s0).2.out = s0.out ++ [.file f false] ∧
    (runPatch o s0).2.rejWritten = s0.rejWritten ∧ (runPatch o s0).2.backedUp = s0.backedUp := by
  have hp : ∀ l ∈ old, plainLine l = true ∧ l.newline ≠ .none := by
    intro l hl
    have := hplain l hl
    unfold lfPlain at this
    simp only [Bool.and_eq_true, beq_iff_eq] at this
    exact ⟨this.2, by rw [this.1]; simp⟩
  exact C01_run_delete o s0 f pname (renderLines mode old) old m pm ho hnb hstrip hreal hs0 hf hpn hpd
    (RunR.splitLines_renderLines_lf mode hmode old hplain) hne
    (writable_delHunk old hne (fun l hl => (hp l hl).1) (fun l hl => (hp l hl).2) hlen) htarget hw hpatch

/-! ## the removal run again with `-N`: the file is gone -/

section
variable {o : Options} {s0 : DState} {f pname : Bytes} {ta tb : Option Bytes} {pm : Nat} {old : List Line}

/-- the reject file of the skipped removal is the text of the diff — but for the time stamp after `/dev/null`, which the header
    writer leaves out -/
theorem rejText_del (hd : DelHeader f ta tb) (old : List Line) :
    writeHeaderUnified { delPatch f ta tb with hunks := [delHunk old] } ++ writeHunkUnified (delHunk old) = delTextT f ta none old := by
  have hnn := flat_ne_devNull hd.flat
  cases ta with
  | none => simp [writeHeaderUnified, headerLine, delTextT, bareText, fileField, List.append_assoc]
  | some t =>
    have ht : t ≠ [] := hd.oldOk.2
    simp [writeHeaderUnified, headerLine, delTextT, bareText, fileField, List.append_assoc, ht, hnn]

/-- header scan, body parse and the applier's verdict for the one section of the diff, run again with `-N` when the file is gone -/
theorem againSection_of_text (ho : DelOpts o f pname) (hN : o.ignoreReversed = true) (hfo : o.force = false)
    (hru : o.rejectFormat ≠ .context) (hstrip : o.strip ≤ 0) (hs0 : CleanStart s0)
    (hd : DelHeader f ta tb) (hne : old ≠ []) (hwr : (delHunk old).writable = true)
    (habsent : s0.fs.lookup f = none) (hnil : o.fileToPatch = [] → s0.fs.lookup [] = none) :
    ∃ info par1 par2 r,
      AgainSection o (forced o) (loopStart s0 (bareLines f devNull ta tb [delHunk old])) f (delPatch f ta tb)
        { delPatch f ta tb with hunks := [delHunk old] } info par1 par2 r ∧
      r.failed = 1 ∧ r.skipped = true ∧ r.rejBytes = delTextT f ta none old ∧
      r.msgs = [Msg.reversedDetected false, Msg.skippingPatch] ∧ par2.s.eof = true := by
  obtain ⟨info, par1, par2, hhdr, hbody, heof⟩ := parse_delLines (o := o) hstrip hd hwr
  have hru' : rejectAsUnified (applyOptsOf o).rejectFormat
      ({ delPatch f ta tb with hunks := [delHunk old] } : Patch).format = true := by
    show rejectAsUnified o.rejectFormat .unified = true
    cases hx : o.rejectFormat <;> first | rfl | exact absurd hx hru
  obtain ⟨r, hap, hout, hskip, hfail, hrb, hmsgs, htty, hpatch⟩ :=
    applyPatch_del_again_N old hne { delPatch f ta tb with hunks := [delHunk old] } (applyOptsOf o)
      (Option.map (fun l => List.map (fun a => !List.isEmpty a && List.head? a != some 110) l) s0.tty)
      rfl hN hfo ho.noReverse ho.fuzz ho.quiet hru'
  have hsl : splitLines [] = [] := rfl
  refine ⟨info, par1, par2, r, ?_, hfail, hskip, hrb.trans (rejText_del hd old), hmsgs, heof⟩
  exact {
    target := by
      rcases ho.target with h | h
      · exact Or.inl h
      · exact Or.inr ⟨h, rfl, flat_ne_devNull hd.flat, rfl, rfl, hnil h⟩
    noOut := ho.noOut, removeEmpty := ho.removeEmpty, pathNe := hd.ne,
    cwd := hs0.cwd, hdr := hhdr, fmt := Or.inl rfl, op := rfl, pre := rfl, body := hbody, fmt2 := rfl, op2 := rfl,
    absent := habsent, noFault := hs0.noFault,
    apply := by rw [hsl]; exact hap,
    ttyLeft := htty, patch := hpatch,
    empty := by rw [hout]; rfl }

/-- **C06, the whole program, the removal run again with `-N` when the file is gone** — the header lines with or without time
    stamps; the reject file holds the header as `write_patch_header_as_unified` writes it (no time stamp after `/dev/null`) and
    the hunk -/
theorem C06_run_delete_again_N_gen (ho : DelOpts o f pname) (hN : o.ignoreReversed = true) (hfo : o.force = false)
    (hrf : o.rejectFile = []) (hru : o.rejectFormat ≠ .context) (hstrip : o.strip ≤ 0) (hreal : o.dryRun = false)
    (hs0 : CleanStart s0) (hrw : s0.rejWritten = [])
    (hd : DelHeader f ta tb) (hpn : pname ≠ []) (hpd : pname ≠ [45])
    (hne : old ≠ []) (hwr : (delHunk old).writable = true)
    (habsent : s0.fs.lookup f = none) (hfree : s0.fs.lookup (f ++ str ".rej") = none)
    (hnil : o.fileToPatch = [] → s0.fs.lookup [] = none)
    (hpatch : s0.fs.lookup pname = some (.file (delTextT f ta tb old) pm)) :
    (runPatch o s0).1 = 1 ∧
    (runPatch o s0).2.fs.lookup f = none ∧
    (runPatch o s0).2.fs.lookup (f ++ str ".rej") = some (.file (delTextT f ta none old) (0o666 - (0o666 &&& s0.fs.umask))) ∧
    (∀ q, q ≠ f ++ str ".rej" → (runPatch o s0).2.fs.lookup q = s0.fs.lookup q) ∧
    (runPatch o s0).2.fs = s0.fs.set (f ++ str ".rej") (.file (delTextT f ta none old) (0o666 - (0o666 &&& s0.fs.umask))) ∧
    (runPatch o s0).2.trace = s0.trace ++ tmpOps ++ writeOps (f ++ str ".rej") (delTextT f ta none old) ∧
    (runPatch o s0).2.out = s0.out ++ [.file f false, .msg (.reversedDetected false), .msg .skippingPatch,
      .failed 1 1 true (some (f ++ str ".rej"))] ∧
    (runPatch o s0).2.backedUp = s0.backedUp := by
  have hrfl : ∀ c ∈ f ++ str ".rej", c ≠ SLASHB := by
    intro c hc
    rcases List.mem_append.1 hc with h | h
    · exact hd.flat c h
    · rw [str_rej] at h
      intro e; subst e
      revert h; decide
  have hpr : f ≠ f ++ str ".rej" := by
    intro e
    have := congrArg List.length e
    rw [str_rej] at this; simp at this
  obtain ⟨info, par1, par2, r, H, hfail, hskip, hrb, hmsgs, heof⟩ :=
    againSection_of_text ho hN hfo hru hstrip hs0 hd hne hwr habsent hnil
  obtain ⟨s', hrun, hfs, htr, hbu, _, hhf, hout, hdone⟩ := processSection_delete_again H (by rw [hfail]; simp) hrf hreal
    (by show s0.rejWritten.contains _ = false; rw [hrw]; rfl) hfree (dirsThere_flat s0.fs hrfl)
    (dirExists_parent_of_noSlash s0.fs hrfl)
  have hsplit := splitLines_delText (old := old) hd hwr
  have hR := runPatch_of_one ho.file hs0 hpn hpd hpatch s' par2 (by rw [hsplit]; exact hrun) hdone.par heof
    (by rw [hsplit]; exact hdone.dWrites) (by rw [hsplit]; exact hdone.dRemovals)
  rw [hR, hhf]
  rw [hrb] at hfs htr
  refine ⟨rfl, ?_, ?_, ?_, hfs, ?_, ?_, hbu⟩
  · show s'.fs.lookup f = none
    rw [hfs, Fs.lookup_set_ne _ _ _ _ hpr]; exact habsent
  · show s'.fs.lookup _ = _
    rw [hfs]; exact Fs.lookup_set_self _ _ _
  · intro q hq
    show s'.fs.lookup q = _
    rw [hfs]; exact Fs.lookup_set_ne _ _ _ _ hq
  · show s'.trace = _
    rw [htr]; show s0.trace ++ _ ++ _ ++ _ = _; simp
  · show s'.out = _
    rw [hout, hmsgs, hfail, hskip]
    show s0.out ++ _ ++ _ ++ _ = _
    simp [List.append_assoc]

end

/-- **C06, end to end, the removal run again with `-N`.**  `patch -N -i pname [f]` (`-E` in force; no `-p`, or `-p0`) in a tree with NO
    node at `f` — the removal `pname` states was applied before —: exit status 1; the tree is the old tree plus the reject file
    `f.rej`, a new file that holds the text of the diff; no node appears at `f`; apart from the temporaries the run did `creat` and
    `write` of `f.rej` and nothing else; the log is "patching file f", "reversed (or previously applied) patch detected",
    "skipping patch", "1 out of 1 hunk ignored". -/
theorem C06_run_delete_again_N (o : Options) (s0 : DState) (f pname : Bytes) (old : List Line) (pm : Nat)
    (ho : DelOpts o f pname) (hN : o.ignoreReversed = true) (hfo : o.force = false)
    (hrf : o.rejectFile = []) (hru : o.rejectFormat ≠ .context) (hstrip : o.strip ≤ 0) (hreal : o.dryRun = false)
    (hs0 : CleanStart s0) (hrw : s0.rejWritten = [])
    (hf : delName f) (hpn : pname ≠ []) (hpd : pname ≠ [45])
    (hne : old ≠ []) (hwr : (delHunk old).writable = true)
    (habsent : s0.fs.lookup f = none) (hfree : s0.fs.lookup (f ++ str ".rej") = none)
    (hnil : o.fileToPatch = [] → s0.fs.lookup [] = none)
    (hpatch : s0.fs.lookup pname = some (.file (delText f old) pm)) :
    (runPatch o s0).1 = 1 ∧
    (runPatch o s0).2.fs.lookup f = none ∧
    (runPatch o s0).2.fs.lookup (f ++ str ".rej") = some (.file (delText f old) (0o666 - (0o666 &&& s0.fs.umask))) ∧
    (∀ q, q ≠ f ++ str ".rej" → (runPatch o s0).2.fs.lookup q = s0.fs.lookup q) ∧
    (runPatch o s0).2.fs = s0.fs.set (f ++ str ".rej") (.file (delText f old) (0o666 - (0o666 &&& s0.fs.umask))) ∧
    (runPatch o s0).2.trace = s0.trace ++ tmpOps ++ writeOps (f ++ str ".rej") (delText f old) ∧
    (runPatch o s0).2.out = s0.out ++ [.file f false, .msg (.reversedDetected false), .msg .skippingPatch,
      .failed 1 1 true (some (f ++ str ".rej"))] ∧
    (runPatch o s0).2.backedUp = s0.backedUp :=
  C06_run_delete_again_N_gen ho hN hfo hrf hru hstrip hreal hs0 hrw (delHeader_bare hf) hpn hpd hne hwr habsent hfree hnil hpatch

/-- **the same for the diff as `diff -u` writes it** (`--- f TAB oldt`, `+++ /dev/null TAB newt`): `f.rej` holds `--- f TAB oldt`,
    `+++ /dev/null` and the hunk -/
theorem C06_run_delete_again_N_stamped (o : Options) (s0 : DState) (f pname oldt newt : Bytes) (old : List Line) (pm : Nat)
    (ho : DelOpts o f pname) (hN : o.ignoreReversed = true) (hfo : o.force = false)
    (hrf : o.rejectFile = []) (hru : o.rejectFormat ≠ .context) (hstrip : o.strip ≤ 0) (hreal : o.dryRun = false)
    (hs0 : CleanStart s0) (hrw : s0.rejWritten = [])
    (hf : flatName f) (hot : stampOk oldt) (hnt : stampOk newt) (hpn : pname ≠ []) (hpd : pname ≠ [45])
    (hne : old ≠ []) (hwr : (delHunk old).writable = true)
    (habsent : s0.fs.lookup f = none) (hfree : s0.fs.lookup (f ++ str ".rej") = none)
    (hnil : o.fileToPatch = [] → s0.fs.lookup [] = none)
    (hpatch : s0.fs.lookup pname = some (.file (delTextT f (some oldt) (some newt) old) pm)) :
    (runPatch o s0).1 = 1 ∧
    (runPatch o s0).2.fs.lookup f = none ∧
    (runPatch o s0).2.fs.lookup (f ++ str ".rej") =
      some (.file (delTextT f (some oldt) none old) (0o666 - (0o666 &&& s0.fs.umask))) ∧
    (∀ q, q ≠ f ++ str ".rej" → (runPatch o s0).2.fs.lookup q = s0.fs.lookup q) ∧
    (runPatch o s0).2.out = s0.out ++ [.file f false, .msg (.reversedDetected false), .msg .skippingPatch,
      .failed 1 1 true (some (f ++ str ".rej"))] := by
  have h := C06_run_delete_again_N_gen ho hN hfo hrf hru hstrip hreal hs0 hrw (delHeader_stamped hf hot hnt) hpn hpd hne hwr
    habsent hfree hnil hpatch
  exact ⟨h.1, h.2.1, h.2.2.1, h.2.2.2.1, h.2.2.2.2.2.2.1⟩

/-! ### non-vacuity: concrete runs

`f` = "a\nb\n" (mode 0644), `p.diff` = "--- f\n+++ /dev/null\n@@ -1,2 +0,0 @@\n-a\n-b\n"; options `-i p.diff` as `apply_defaults` leaves them
(`removeEmptyFiles = .yes`), with and without the operand `f`; and `-N -i p.diff` on the tree without `f`.  Every hypothesis of the
theorems is discharged by evaluation in the kernel (`decide` / `rfl`), the theorems are applied, and — independently — the
executable model is run on the same states (`#guard`, compiled evaluation: executable tests, not proofs). -/
namespace DelInstance

def f : Bytes := [102]                                     -- "f"
def pname : Bytes := [112, 46, 100, 105, 102, 102]         -- "p.diff"
def rej : Bytes := [102, 46, 114, 101, 106]                -- "f.rej"
def bytes : Bytes := [97, 10, 98, 10]                      -- "a\nb\n"
def old : List Line := [⟨[97], .lf⟩, ⟨[98], .lf⟩]
/-- the tree with `f` and the patch file -/
def s0 : DState := { fs := { nodes := [(f, .file bytes 0o644), (pname, .file (delText f old) 0o644)] } }
/-- the tree after the removal: the patch file only -/
def s1 : DState := { fs := { nodes := [(pname, .file (delText f old) 0o644)] } }
/-- `-i p.diff`, after `apply_defaults` -/
def o : Options := { defaultOptions with patchFile := pname, removeEmptyFiles := .yes, backupIfMismatch := .yes }
/-- `-i p.diff f` -/
def oF : Options := { o with fileToPatch := f }
/-- `-N -i p.diff` -/
def oN : Options := { o with ignoreReversed := true }

-- the spelled-out bytes are the intended texts; the options are what `main` hands to `process_patch` for `-i p.diff`
#guard f == str "f" && pname == str "p.diff" && rej == str "f.rej" && bytes == str "a\nb\n" && splitLines bytes == old
#guard delText f old == str "--- f\n+++ /dev/null\n@@ -1,2 +0,0 @@\n-a\n-b\n"
#guard applyDefaults { defaultOptions with patchFile := pname } {} == { o with quotingStyle := .shell }
#guard delHunk old == ⟨⟨1, 2⟩, ⟨0, 0⟩, [⟨MINUS, ⟨str "a", .lf⟩⟩, ⟨MINUS, ⟨str "b", .lf⟩⟩]⟩

theorem delOpts : DelOpts o f pname :=
  { target := Or.inr rfl, noOut := rfl, noReverse := rfl, noDefine := rfl, fuzz := by decide, quiet := rfl, removeEmpty := rfl,
    file := { patchFile := rfl, noDir := rfl, noHelp := rfl, noVersion := rfl, noContext := rfl, noNormal := rfl, noEd := rfl } }
theorem delOptsF : DelOpts oF f pname :=
  { target := Or.inl rfl, noOut := rfl, noReverse := rfl, noDefine := rfl, fuzz := by decide, quiet := rfl, removeEmpty := rfl,
    file := { patchFile := rfl, noDir := rfl, noHelp := rfl, noVersion := rfl, noContext := rfl, noNormal := rfl, noEd := rfl } }
theorem delOptsN : DelOpts oN f pname :=
  { target := Or.inr rfl, noOut := rfl, noReverse := rfl, noDefine := rfl, fuzz := by decide, quiet := rfl, removeEmpty := rfl,
    file := { patchFile := rfl, noDir := rfl, noHelp := rfl, noVersion := rfl, noContext := rfl, noNormal := rfl, noEd := rfl } }

/-- **`C01_run_delete` applies** (no operand; all hypotheses discharged in the kernel): exit status 0, no node at `f`, the tree is the
    old tree without `f`, `unlink f` is all that was done, "patching file f" is all that was said -/
theorem applies :
    (runPatch o s0).1 = 0 ∧
    (runPatch o s0).2.fs.lookup f = none ∧
    (∀ q, q ≠ f → (runPatch o s0).2.fs.lookup q = s0.fs.lookup q) ∧
    (runPatch o s0).2.fs = s0.fs.erase f ∧
    (runPatch o s0).2.trace = [.tmpCreate, .tmpUnlink, .tmpCreate, .tmpUnlink, .unlink f] ∧
    (runPatch o s0).2.out = [.file f false] ∧
    (runPatch o s0).2.rejWritten = [] ∧ (runPatch o s0).2.backedUp = [] :=
  C01_run_delete o s0 f pname bytes old 0o644 0o644 delOpts rfl (by decide) rfl ⟨rfl, rfl, rfl, rfl, rfl, rfl⟩ (by decide)
    (by decide) (by decide) (by decide) (by decide) (by decide) rfl (by decide) rfl

/-- … and with the operand: `patch -i p.diff f` -/
theorem applies_operand :
    (runPatch oF s0).1 = 0 ∧ (runPatch oF s0).2.fs.lookup f = none ∧
    (∀ q, q ≠ f → (runPatch oF s0).2.fs.lookup q = s0.fs.lookup q) := by
  have h := C01_run_delete oF s0 f pname bytes old 0o644 0o644 delOptsF rfl (by decide) rfl ⟨rfl, rfl, rfl, rfl, rfl, rfl⟩
    (by decide) (by decide) (by decide) (by decide) (by decide) (by decide) rfl (by decide) rfl
  exact ⟨h.1, h.2.1, h.2.2.1⟩

/-- the form for a file given by its lines applies as well -/
example : (runPatch o s0).1 = 0 ∧ (runPatch o s0).2.fs.lookup f = none :=
  let h := C01_run_delete_lf o s0 f pname old .lf 0o644 0o644 delOpts rfl (by decide) rfl ⟨rfl, rfl, rfl, rfl, rfl, rfl⟩
    (by decide) (by decide) (by decide) (by decide) (by decide) (by decide) (by decide) rfl (by decide) rfl
  ⟨h.1, h.2.1⟩

/-- the --dry-run sibling -/
theorem applies_dry :
    (runPatch { o with dryRun := true } s0).1 = 0 ∧ (runPatch { o with dryRun := true } s0).2.fs = s0.fs :=
  let h := C15_run_delete_dry { o with dryRun := true } s0 f pname bytes old 0o644 0o644
    { target := Or.inr rfl, noOut := rfl, noReverse := rfl, noDefine := rfl, fuzz := by decide, quiet := rfl, removeEmpty := rfl,
      file := { patchFile := rfl, noDir := rfl, noHelp := rfl, noVersion := rfl, noContext := rfl, noNormal := rfl, noEd := rfl } }
    rfl (by decide) rfl ⟨rfl, rfl, rfl, rfl, rfl, rfl⟩ (by decide) (by decide) (by decide) (by decide) (by decide) (by decide) rfl
    (by decide) rfl
  ⟨h.1, h.2.1⟩

/-- **`C06_run_delete_again_N` applies** (all hypotheses discharged in the kernel): on the tree without `f`, `-N`: exit status 1,
    still no node at `f`, `f.rej` = the text of the diff (mode 0644 under the umask 022), nothing else differs, and the log -/
theorem applies_again_N :
    (runPatch oN s1).1 = 1 ∧
    (runPatch oN s1).2.fs.lookup f = none ∧
    (runPatch oN s1).2.fs.lookup rej = some (.file (delText f old) 0o644) ∧
    (∀ q, q ≠ rej → (runPatch oN s1).2.fs.lookup q = s1.fs.lookup q) ∧
    (runPatch oN s1).2.out = [.file f false, .msg (.reversedDetected false), .msg .skippingPatch, .failed 1 1 true (some rej)] := by
  have e : f ++ str ".rej" = rej := by rw [str_rej]; rfl
  have h := C06_run_delete_again_N oN s1 f pname old 0o644 delOptsN rfl rfl rfl (by decide) (by decide) rfl
    ⟨rfl, rfl, rfl, rfl, rfl, rfl⟩ rfl (by decide) (by decide) (by decide) (by decide) (by decide) rfl (by rw [e]; rfl)
    (fun _ => rfl) rfl
  rw [e] at h
  exact ⟨h.1, h.2.1, h.2.2.1, h.2.2.2.1, h.2.2.2.2.2.2.1⟩

-- independently: the executable model on the same states (executable tests)
#guard (runPatch o s0).1 == 0
#guard (runPatch o s0).2.fs.lookup f == none
#guard (runPatch o s0).2.fs.nodes == [(pname, .file (delText f old) 0o644)]          -- nothing but the patch file is left
#guard (runPatch o s0).2.trace == [.tmpCreate, .tmpUnlink, .tmpCreate, .tmpUnlink, .unlink f]
#guard (runPatch o s0).2.out == [.file f false]
#guard (runPatch o s0).2.par.s.eof && (runPatch o s0).2.par.s.rest.isEmpty          -- the loop stopped on the end-of-file flag
#guard (runPatch oF s0).1 == 0 && (runPatch oF s0).2.fs.nodes == [(pname, .file (delText f old) 0o644)]
#guard (runPatch { o with dryRun := true } s0).1 == 0 &&
  (runPatch { o with dryRun := true } s0).2.fs.lookup f == some (.file bytes 0o644)
#guard (runPatch oN s1).1 == 1
#guard (runPatch oN s1).2.fs.nodes == [(pname, .file (delText f old) 0o644),
  (str "f.rej", .file (str "--- f\n+++ /dev/null\n@@ -1,2 +0,0 @@\n-a\n-b\n") 0o644)]   -- no `f`
#guard (runPatch oN s1).2.trace == [.tmpCreate, .tmpUnlink, .tmpCreate, .tmpUnlink, .creat rej, .write rej (delText f old)]
#guard (runPatch oN s1).2.out == [.file f false, .msg (.reversedDetected false), .msg .skippingPatch,
  .failed 1 1 true (some (str "f.rej"))]
-- `-N` with the operand: the same
#guard (runPatch { oN with fileToPatch := f } s1).1 == 1 && ((runPatch { oN with fileToPatch := f } s1).2.fs.lookup f).isNone
-- `-N` on the tree WITH `f`: the removal simply applies
#guard (runPatch oN s0).1 == 0 && ((runPatch oN s0).2.fs.lookup f).isNone

-- the diff as `diff -u` writes it: a TAB and a time stamp after each name
def oldt : Bytes := [50, 48, 50, 48]                       -- "2020"
def newt : Bytes := [49, 57, 55, 48]                       -- "1970"
def s0T : DState := { fs := { nodes := [(f, .file bytes 0o644), (pname, .file (delTextT f (some oldt) (some newt) old) 0o644)] } }
def s1T : DState := { fs := { nodes := [(pname, .file (delTextT f (some oldt) (some newt) old) 0o644)] } }
#guard delTextT f (some oldt) (some newt) old == str "--- f\t2020\n+++ /dev/null\t1970\n@@ -1,2 +0,0 @@\n-a\n-b\n"

/-- **`C01_run_delete_stamped` applies** -/
theorem applies_stamped :
    (runPatch o s0T).1 = 0 ∧ (runPatch o s0T).2.fs.lookup f = none ∧
    (∀ q, q ≠ f → (runPatch o s0T).2.fs.lookup q = s0T.fs.lookup q) ∧
    (runPatch o s0T).2.out = [.file f false] := by
  have h := C01_run_delete_stamped o s0T f pname bytes oldt newt old 0o644 0o644 delOpts rfl (by decide) rfl
    ⟨rfl, rfl, rfl, rfl, rfl, rfl⟩ (by decide) (by decide) (by decide) (by decide) (by decide) (by decide) (by decide) (by decide)
    rfl (by decide) rfl
  exact ⟨h.1, h.2.1, h.2.2.1, h.2.2.2.2.2.1⟩

/-- **`C06_run_delete_again_N_stamped` applies**: the reject file keeps the time stamp of the old name and has none after `/dev/null` -/
theorem applies_again_N_stamped :
    (runPatch oN s1T).1 = 1 ∧ (runPatch oN s1T).2.fs.lookup f = none ∧
    (runPatch oN s1T).2.fs.lookup rej = some (.file (delTextT f (some oldt) none old) 0o644) ∧
    (∀ q, q ≠ rej → (runPatch oN s1T).2.fs.lookup q = s1T.fs.lookup q) := by
  have e : f ++ str ".rej" = rej := by rw [str_rej]; rfl
  have h := C06_run_delete_again_N_stamped oN s1T f pname oldt newt old 0o644 delOptsN rfl rfl rfl (by decide) (by decide) rfl
    ⟨rfl, rfl, rfl, rfl, rfl, rfl⟩ rfl (by decide) (by decide) (by decide) (by decide) (by decide) (by decide) (by decide) rfl
    (by rw [e]; rfl) (fun _ => rfl) rfl
  rw [e] at h
  exact ⟨h.1, h.2.1, h.2.2.1, h.2.2.2.1⟩

#guard (runPatch o s0T).1 == 0 && (runPatch o s0T).2.fs.nodes == s1T.fs.nodes &&
  (runPatch o s0T).2.trace == [.tmpCreate, .tmpUnlink, .tmpCreate, .tmpUnlink, .unlink f]
#guard (runPatch oN s1T).1 == 1 && ((runPatch oN s1T).2.fs.lookup f).isNone &&
  (runPatch oN s1T).2.fs.lookup rej == some (.file (str "--- f\t2020\n+++ /dev/null\n@@ -1,2 +0,0 @@\n-a\n-b\n") 0o644)

end DelInstance

/-! ### the side conditions, evaluated (executable tests) -/
namespace DelScope
open DelInstance

-- without `-E` in force (`--posix`: `removeEmptyFiles = .no`) the file is not removed: it is left empty
#guard (runPatch { o with removeEmptyFiles := .no } s0).1 == 0 &&
  (runPatch { o with removeEmptyFiles := .no } s0).2.fs.lookup f == some (.file [] 0o644)
-- the file holds MORE than the diff removes (a third line `c`): the hunk still applies at line 1, the result is not empty, the
-- file is kept with what is left and the run fails ("not deleting file f as content differs from patch"): `hlines` is needed
def s2 : DState := { fs := { nodes := [(f, .file (str "a\nb\nc\n") 0o644), (pname, .file (delText f old) 0o644)] } }
#guard (runPatch o s2).1 == 1 && (runPatch o s2).2.fs.lookup f == some (.file (str "c\n") 0o644) &&
  (runPatch o s2).2.out == [.file f false, .notDeleting]
-- a name with a blank: `--- my f` is cut at the blank when no TAB follows (`delName`)
def blank : Bytes := str "my f"
def sB : DState := { fs := { nodes := [(blank, .file bytes 0o644), (pname, .file (delText blank old) 0o644)] } }
#guard (runPatch o sB).1 == 2 && (runPatch o sB).2.fs.lookup blank == some (.file bytes 0o644)
-- a file in a directory (not covered: `delName` asks for a flat name): the emptied directory is removed as well
def deep : Bytes := str "d/f"
def sD : DState :=
  { fs := { nodes := [(str "d", .dir 0o755), (deep, .file bytes 0o644), (pname, .file (delText deep old) 0o644)] } }
#guard (runPatch { o with strip := 0 } sD).1 == 0 &&
  (runPatch { o with strip := 0 } sD).2.fs.nodes == [(pname, .file (delText deep old) 0o644)] &&
  (runPatch { o with strip := 0 } sD).2.trace == [.tmpCreate, .tmpUnlink, .tmpCreate, .tmpUnlink, .unlink deep, .rmdir (str "d")]
-- run again WITHOUT `-N` and without a terminal: the question "Assume -R?" cannot be asked — exit status 2, nothing written
#guard (runPatch o s1).1 == 2 && (runPatch o s1).2.fs.nodes == s1.fs.nodes
-- run again with `-f`: the hunk fails, `f.rej` is written, no `f` appears
#guard (runPatch { o with force := true } s1).1 == 1 && ((runPatch { o with force := true } s1).2.fs.lookup f).isNone &&
  ((runPatch { o with force := true } s1).2.fs.lookup rej).isSome

end DelScope

end PatchModel.C01RunDelete

#print axioms PatchModel.RunDl.parseHeader_bare
#print axioms PatchModel.RunDl.parse_bareLines
#print axioms PatchModel.RunDl.valid_delHunk
#print axioms PatchModel.RunDl.writable_delHunk
#print axioms PatchModel.RunDl.locateHunk_del_empty
#print axioms PatchModel.RunDl.applyPatch_del_again_N
#print axioms PatchModel.RunDl.processSection_delete
#print axioms PatchModel.RunDl.processSection_delete_dry
#print axioms PatchModel.RunDl.processSection_delete_again
#print axioms PatchModel.C01RunDelete.C01_run_delete_gen
#print axioms PatchModel.C01RunDelete.C15_run_delete_dry_gen
#print axioms PatchModel.C01RunDelete.C06_run_delete_again_N_gen
#print axioms PatchModel.C01RunDelete.C01_run_delete
#print axioms PatchModel.C01RunDelete.C01_run_delete_stamped
#print axioms PatchModel.C01RunDelete.C06_run_delete_again_N_stamped
#print axioms PatchModel.C01RunDelete.C01_run_delete_lf
#print axioms PatchModel.C01RunDelete.C15_run_delete_dry
#print axioms PatchModel.C01RunDelete.C06_run_delete_again_N
#print axioms PatchModel.C01RunDelete.DelInstance.applies
#print axioms PatchModel.C01RunDelete.DelInstance.applies_operand
#print axioms PatchModel.C01RunDelete.DelInstance.applies_dry
#print axioms PatchModel.C01RunDelete.DelInstance.applies_again_N
#print axioms PatchModel.C01RunDelete.DelInstance.applies_stamped
#print axioms PatchModel.C01RunDelete.DelInstance.applies_again_N_stamped
