/-
  Second wave, part 1: the trace is a complete account of the run (C16 frame).

  All three statements hold as first written; nothing had to be adjusted.  The point that needed checking in the model
  (Model/Driver): the tree `DState.fs` is only ever assigned in `doOp` / `tryOp`, in the branch where `Fs.apply op` succeeded,
  and that same assignment appends `op` to `DState.trace`.  An operation that fails — by its errno (tolerated or not) or by the
  injected fault `faultAt` — only advances `opCount`: it changes neither the tree nor the trace (failed operations are NOT
  logged), so `replayOps` needs no "skip failing operations" clause and every logged operation replays successfully.  Every
  other `set`/`modify` of the driver touches `cwd`, `out`, `tty`, `par`, `stdout`, `hadFailure`, `firstPatch`, `backedUp`,
  `dWrites`, `dRemovals`, `sections` only.  The temporaries (`tmpCreate`, `tmpUnlink`) are logged and are the identity on the
  tree.  Formally this is the instance `Frame.runPatch_all` of the invariant framework of Lemmas/DM with the invariant
  `replayOps fs0 s.trace = some s.fs`, which every successful operation keeps (`replay_opOk`) without any path condition.
-/
import PatchModel.Model.Driver
import PatchModel.Spec.Script
import PatchModel.Lemmas.DM
import PatchModel.Lemmas.Frame
namespace PatchModel.W2
open PatchModel PatchModel.DM PatchModel.Frame

/-- replay a list of operations on a tree -/
def replayOps : Fs → List FsOp → Option Fs
  | fs, [] => some fs
  | fs, op :: rest => match fs.apply op with
    | .ok fs' => replayOps fs' rest
    | .error _ => none

theorem replayOps_append {fs fs1 fs2 : Fs} {ops : List FsOp} {op : FsOp} (h1 : replayOps fs ops = some fs1)
    (h2 : fs1.apply op = .ok fs2) : replayOps fs (ops ++ [op]) = some fs2 := by
  induction ops generalizing fs with
  | nil =>
    simp only [replayOps, Option.some.injEq] at h1
    subst h1
    simp only [List.nil_append, replayOps, h2]
  | cons a ops ih =>
    simp only [List.cons_append, replayOps] at h1 ⊢
    cases ha : fs.apply a with
    | error e => rw [ha] at h1; cases h1
    | ok fs' => rw [ha] at h1; exact ih h1

/-- the invariant: the tree is the initial tree `fs0` with the trace replayed on it -/
def Replay (fs0 : Fs) (s : DState) : Prop := replayOps fs0 s.trace = some s.fs

theorem replay_fsTrace (fs0 : Fs) : FsTrace (Replay fs0) :=
  ⟨fun s s' hs h1 h2 => by unfold Replay at *; rw [h1, h2]; exact hs⟩

/-- every successful operation, being logged, keeps the invariant -/
theorem replay_opOk (fs0 : Fs) (op : FsOp) : OpOk (Replay fs0) op :=
  ⟨fun _ _ hs h => replayOps_append hs h⟩

/-- **the trace is the complete account of what happened to the tree**: the final tree of any run (successful, failed or aborted,
    with or without a fault) is exactly the initial tree with the logged operations replayed on it -/
theorem fs_is_replay (o : Options) (s0 : DState) (h0 : s0.trace = []) :
    replayOps s0.fs (runPatch o s0).2.trace = some (runPatch o s0).2.fs :=
  runPatch_all (replay_fsTrace s0.fs) (replay_opOk s0.fs) o s0 (by unfold Replay; rw [h0]; rfl)

/-- the same for a run that starts with a non-empty trace: what is logged after `s0.trace` accounts for the change of the tree -/
theorem fs_is_replay_from (o : Options) (s0 : DState) :
    ∃ ops, (runPatch o s0).2.trace = s0.trace ++ ops ∧ replayOps s0.fs ops = some (runPatch o s0).2.fs := by
  have hT : FsTrace (fun s => ∃ ops, s.trace = s0.trace ++ ops ∧ replayOps s0.fs ops = some s.fs) :=
    ⟨fun s s' ⟨ops, h, hr⟩ h1 h2 => ⟨ops, by rw [h2]; exact h, by rw [h1]; exact hr⟩⟩
  refine runPatch_all hT (fun op => ⟨fun s fs' ⟨ops, h, hr⟩ ha => ⟨ops ++ [op], ?_, replayOps_append hr ha⟩⟩) o s0
    ⟨[], by simp, rfl⟩
  show s.trace ++ [op] = _
  rw [h, List.append_assoc]

/-- a tree without symbolic links -/
def noSymlinks (fs : Fs) : Prop := ∀ p n, (p, n) ∈ fs.nodes → ∀ t, n ≠ Node.symlink t

theorem lookup_ne_symlink {fs : Fs} (hn : noSymlinks fs) (p t : Bytes) : fs.lookup p ≠ some (.symlink t) :=
  fun h => hn p _ (mem_of_lookup h) t rfl

theorem not_mem_one {q p : Bytes} (h : q ∉ [p]) : q ≠ p := fun e => h (e ▸ List.mem_singleton.2 rfl)

/-- an operation only changes the entries of the paths it names (in a tree without symbolic links, where no path resolves elsewhere) -/
theorem apply_local (fs fs' : Fs) (op : FsOp) (h : fs.apply op = .ok fs') (hn : noSymlinks fs) (q : Bytes) (hq : q ∉ op.paths) :
    fs'.lookup q = fs.lookup q := by
  have hl := lookup_ne_symlink hn
  cases op with
  | creat p =>
    have hqp := not_mem_one hq
    simp only [Fs.apply] at h
    repeat' split at h
    all_goals first
      | (exfalso; apply hl; assumption)
      | (injection h with h; subst h; exact lookup_set_ne _ _ hqp)
      | (cases h; done)
  | write p b =>
    have hqp := not_mem_one hq
    simp only [Fs.apply] at h
    repeat' split at h
    all_goals first
      | (exfalso; apply hl; assumption)
      | (injection h with h; subst h; exact lookup_set_ne _ _ hqp)
      | (cases h; done)
  | rename a b =>
    simp only [FsOp.paths, List.mem_cons, List.not_mem_nil, or_false, not_or] at hq
    simp only [Fs.apply] at h
    repeat' split at h
    all_goals first
      | (injection h with h; subst h; rw [lookup_set_ne _ _ hq.2, lookup_erase_ne _ hq.1])
      | (cases h; done)
  | unlink p =>
    have hqp := not_mem_one hq
    simp only [Fs.apply] at h
    repeat' split at h
    all_goals first
      | (injection h with h; subst h; exact lookup_erase_ne _ hqp)
      | (cases h; done)
  | rmdir p =>
    have hqp := not_mem_one hq
    simp only [Fs.apply] at h
    repeat' split at h
    all_goals first
      | (injection h with h; subst h; exact lookup_erase_ne _ hqp)
      | (cases h; done)
  | mkdir p =>
    have hqp := not_mem_one hq
    simp only [Fs.apply] at h
    repeat' split at h
    all_goals first
      | (injection h with h; subst h; exact lookup_set_ne _ _ hqp)
      | (cases h; done)
  | chmod p m =>
    have hqp := not_mem_one hq
    simp only [Fs.apply] at h
    repeat' split at h
    all_goals first
      | (exfalso; apply hl; assumption)
      | (injection h with h; subst h; exact lookup_set_ne _ _ hqp)
      | (cases h; done)
  | symlink t p =>
    have hqp := not_mem_one hq
    simp only [Fs.apply] at h
    repeat' split at h
    all_goals first
      | (injection h with h; subst h; exact lookup_set_ne _ _ hqp)
      | (cases h; done)
  | tmpCreate => injection h with h; subst h; rfl
  | tmpUnlink => injection h with h; subst h; rfl

/-- the hypothesis `noSymlinks` of `apply_local` is needed: writing through the link `l → t` changes the entry of `t`, a path the
    operation does not name -/
example : ∃ (fs fs' : Fs) (op : FsOp) (q : Bytes), fs.apply op = .ok fs' ∧ q ∉ op.paths ∧ fs'.lookup q ≠ fs.lookup q :=
  ⟨{ nodes := [([108], .symlink [116]), ([116], .file [] 0o644)] }, _, .write [108] [120], [116], rfl, by decide, by decide⟩

theorem noSymlinks_erase {fs : Fs} (hn : noSymlinks fs) (p : Bytes) : noSymlinks (fs.erase p) :=
  fun q n h => hn q n (mem_erase h)

theorem noSymlinks_set {fs : Fs} (hn : noSymlinks fs) (p : Bytes) {n : Node} (h : ∀ t, n ≠ Node.symlink t) :
    noSymlinks (fs.set p n) := by
  intro q n' hm
  rcases mem_set hm with hm | rfl
  · exact hn q n' hm
  · exact h

/-- no operation other than `symlink` creates a symbolic link -/
theorem apply_noSymlinks (fs fs' : Fs) (op : FsOp) (h : fs.apply op = .ok fs') (hn : noSymlinks fs)
    (hop : ∀ t p, op ≠ FsOp.symlink t p) : noSymlinks fs' := by
  cases op with
  | symlink t p => exact absurd rfl (hop t p)
  | tmpCreate => injection h with h; subst h; exact hn
  | tmpUnlink => injection h with h; subst h; exact hn
  | rename a b =>
    simp only [Fs.apply] at h
    repeat' split at h
    all_goals first
      | (injection h with h; subst h
         exact noSymlinks_set (noSymlinks_erase hn _) _ (fun t e => hn _ _ (mem_of_lookup ‹fs.lookup a = some _›) t e))
      | (cases h; done)
  | creat p =>
    simp only [Fs.apply] at h
    repeat' split at h
    all_goals first
      | (injection h with h; subst h; exact noSymlinks_set hn _ nofun)
      | (cases h; done)
  | write p b =>
    simp only [Fs.apply] at h
    repeat' split at h
    all_goals first
      | (injection h with h; subst h; exact noSymlinks_set hn _ nofun)
      | (cases h; done)
  | mkdir p =>
    simp only [Fs.apply] at h
    repeat' split at h
    all_goals first
      | (injection h with h; subst h; exact noSymlinks_set hn _ nofun)
      | (cases h; done)
  | chmod p m =>
    simp only [Fs.apply] at h
    repeat' split at h
    all_goals first
      | (injection h with h; subst h; exact noSymlinks_set hn _ nofun)
      | (cases h; done)
  | unlink p =>
    simp only [Fs.apply] at h
    repeat' split at h
    all_goals first
      | (injection h with h; subst h; exact noSymlinks_erase hn _)
      | (cases h; done)
  | rmdir p =>
    simp only [Fs.apply] at h
    repeat' split at h
    all_goals first
      | (injection h with h; subst h; exact noSymlinks_erase hn _)
      | (cases h; done)

/-- replaying operations that create no symbolic link, on a tree without one, gives a tree without one -/
theorem replay_noSymlinks {fs fs' : Fs} {ops : List FsOp} (h : replayOps fs ops = some fs') (hn : noSymlinks fs)
    (hnl : ∀ op ∈ ops, ∀ t p, op ≠ FsOp.symlink t p) : noSymlinks fs' := by
  induction ops generalizing fs with
  | nil =>
    simp only [replayOps, Option.some.injEq] at h
    subst h
    exact hn
  | cons a ops ih =>
    simp only [replayOps] at h
    cases ha : fs.apply a with
    | error e => rw [ha] at h; cases h
    | ok fs1 =>
      rw [ha] at h
      exact ih h (apply_noSymlinks fs fs1 a ha hn (hnl a List.mem_cons_self)) (fun op hop => hnl op (List.mem_cons_of_mem _ hop))

/-- … and leaves every path they do not name alone -/
theorem replay_local {fs fs' : Fs} {ops : List FsOp} (h : replayOps fs ops = some fs') (hn : noSymlinks fs)
    (hnl : ∀ op ∈ ops, ∀ t p, op ≠ FsOp.symlink t p) (q : Bytes) (hq : ∀ op ∈ ops, q ∉ op.paths) :
    fs'.lookup q = fs.lookup q := by
  induction ops generalizing fs with
  | nil =>
    simp only [replayOps, Option.some.injEq] at h
    subst h
    rfl
  | cons a ops ih =>
    simp only [replayOps] at h
    cases ha : fs.apply a with
    | error e => rw [ha] at h; cases h
    | ok fs1 =>
      rw [ha] at h
      have h1 := apply_noSymlinks fs fs1 a ha hn (hnl a List.mem_cons_self)
      have h2 := ih h h1 (fun op hop => hnl op (List.mem_cons_of_mem _ hop)) (fun op hop => hq op (List.mem_cons_of_mem _ hop))
      exact h2.trans (apply_local fs fs1 a ha hn q (hq a List.mem_cons_self))

/-- **C16 frame**: a path that no logged operation names keeps its entry (bytes and mode) through the whole run, provided no symbolic
    link is involved (none in the tree, none created) -/
theorem untouched_paths_unchanged (o : Options) (s0 : DState) (h0 : s0.trace = []) (hn : noSymlinks s0.fs)
    (hnl : ∀ op ∈ (runPatch o s0).2.trace, ∀ t p, op ≠ FsOp.symlink t p)
    (q : Bytes) (hq : ∀ op ∈ (runPatch o s0).2.trace, q ∉ op.paths) :
    (runPatch o s0).2.fs.lookup q = s0.fs.lookup q :=
  replay_local (fs_is_replay o s0 h0) hn hnl q hq

/-- … and the tree still has no symbolic link at the end -/
theorem noSymlinks_preserved (o : Options) (s0 : DState) (h0 : s0.trace = []) (hn : noSymlinks s0.fs)
    (hnl : ∀ op ∈ (runPatch o s0).2.trace, ∀ t p, op ≠ FsOp.symlink t p) : noSymlinks (runPatch o s0).2.fs :=
  replay_noSymlinks (fs_is_replay o s0 h0) hn hnl

/-! ### non-vacuity: a concrete run

  Working directory with the file `a` = "x\n" (mode 644), the bystander `b` = "z\n" (mode 600) and the patch file `p` =
  "--- a\n+++ a\n@@ -1 +1 @@\n-x\n+y\n"; command line `patch -i p`.  All facts below are evaluated by the kernel
  (`decide +kernel`: the parser is defined by well-founded recursion, which plain `decide` does not unfold). -/

def exOptions : Options := { (default : Options) with patchFile := [112], maxFuzz := 2 }

def exPatch : Bytes :=
  [45, 45, 45, 32, 97, 10, 43, 43, 43, 32, 97, 10, 64, 64, 32, 45, 49, 32, 43, 49, 32, 64, 64, 10, 45, 120, 10, 43, 121, 10]

def exState : DState :=
  { fs := { nodes := [([97], .file [120, 10] 0o644), ([98], .file [122, 10] 0o600), ([112], .file exPatch 0o644)] } }

/-- the run succeeds, logs seven operations and rewrites `a` to "y\n" -/
theorem exState_run : (runPatch exOptions exState).1 = 0 ∧
    (runPatch exOptions exState).2.trace =
      [.tmpCreate, .tmpUnlink, .tmpCreate, .tmpUnlink, .creat [97], .write [97] [121, 10], .chmod [97] 0o644] ∧
    (runPatch exOptions exState).2.fs.nodes =
      [([98], .file [122, 10] 0o600), ([112], .file exPatch 0o644), ([97], .file [121, 10] 0o644)] := by decide +kernel

theorem exState_noSymlinks : noSymlinks exState.fs := by
  intro p n h t e
  subst e
  simp [exState] at h

/-- `fs_is_replay` on the example: the (non-empty) trace replayed on the initial tree gives the final tree -/
example : (runPatch exOptions exState).2.trace ≠ [] ∧
    (replayOps exState.fs (runPatch exOptions exState).2.trace).map (·.nodes) =
      some [([98], .file [122, 10] 0o600), ([112], .file exPatch 0o644), ([97], .file [121, 10] 0o644)] :=
  ⟨by rw [exState_run.2.1]; nofun, by rw [fs_is_replay exOptions exState rfl, Option.map_some, exState_run.2.2]⟩

/-- `untouched_paths_unchanged` on the example: all hypotheses hold, `b` and `p` keep their entries … -/
example : ∀ q ∈ [[98], [112]], (runPatch exOptions exState).2.fs.lookup q = exState.fs.lookup q := by
  intro q hq'
  refine untouched_paths_unchanged exOptions exState rfl exState_noSymlinks ?_ q ?_
  · rw [exState_run.2.1]
    intro op hop t p e
    subst e
    simp at hop
  · rw [exState_run.2.1]
    simp only [List.mem_cons, List.not_mem_nil, or_false] at hq'
    rcases hq' with rfl | rfl <;> decide

/-- … while the entry of `a`, which the trace names, does change: the conclusion is not true of every path -/
example : (runPatch exOptions exState).2.fs.lookup [97] = some (.file [121, 10] 0o644) ∧
    exState.fs.lookup [97] = some (.file [120, 10] 0o644) := by decide +kernel

/-- the same run with the sixth operation (the `write` of the new content) made to fail: exit status 2, the tree is left with `a`
    truncated — and that is exactly what the five logged operations replay to -/
def exFault : DState := { exState with faultAt := some 5 }

theorem exFault_run : (runPatch exOptions exFault).1 = 2 ∧
    (runPatch exOptions exFault).2.trace = [.tmpCreate, .tmpUnlink, .tmpCreate, .tmpUnlink, .creat [97]] ∧
    (runPatch exOptions exFault).2.fs.nodes =
      [([98], .file [122, 10] 0o600), ([112], .file exPatch 0o644), ([97], .file [] 0o644)] := by decide +kernel

example : (replayOps exFault.fs (runPatch exOptions exFault).2.trace).map (·.nodes) =
    some [([98], .file [122, 10] 0o600), ([112], .file exPatch 0o644), ([97], .file [] 0o644)] := by
  rw [fs_is_replay exOptions exFault rfl, Option.map_some, exFault_run.2.2]

end PatchModel.W2

#print axioms PatchModel.W2.fs_is_replay
#print axioms PatchModel.W2.fs_is_replay_from
#print axioms PatchModel.W2.apply_local
#print axioms PatchModel.W2.untouched_paths_unchanged
#print axioms PatchModel.W2.noSymlinks_preserved
#print axioms PatchModel.W2.exState_run
