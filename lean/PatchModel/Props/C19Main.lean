/-
  C19Main — from the command line to the result.

  `patchMain argv env s0` is the whole program the way `main` composes it (Main.lean, request `drive`, lines 128–131:
  `match commandLine optionTable argv {posixlyCorrect := pc} with | .error e => "exit=2 …" | .ok o => runPatch o {…}`):
  the command line is parsed (`commandLine`: parse, option handler, environment defaults); a command line error is exit status
  2 with the state untouched; otherwise the run (`runPatch`).  `argv` is argv[1..] (no program name), as in Model/Cmdline and in
  the harness (lib/rich.py builds `opts + ["-p1", "-i", patch]`).

  * `C01_main`  — the literal statement "`patch -i p.diff f` in a tree with `f` and a unified diff of `f` in `p.diff` yields the
    new `f`": exit status 0, target = intended result with its mode, every other path unchanged.  In ANY spelling of the two words
    (`-i p`, `-ip`, `--input p`, `--input=p`, unambiguous prefixes `--in…`, operand before or after, `--` before the operand,
    and the two-operand form `patch f p.diff`): `Spelled` / `PlainArgv`; `C01_main_literal` is `argv = ["-i", pname, name]`.
  * `C15_main` (`--dry-run`), `C05_main` (`-R`), `C18_main` (`-b`), `C20_main` (`-D sym`), `C06_main` (`-N` on an applied patch): the
    same with one more word, in any order and any spelling of the three words.
  * `commandLine_plain` / `_dry` / `_reverse` / `_backup` / `_ifdef` / `_forward`: the option record — exactly the defaults with
    the file operand, the patch file and that one field set.
  * `bad_command_line`: every C19 rejection class is exit status 2 with the state untouched.

  ENVIRONMENT: all theorems hold for EVERY `env` (POSIXLY_CORRECT set or not, QUOTING_STYLE anything): `apply_defaults` only sets
  posix, quotingStyle, backupIfMismatch, removeEmptyFiles (`MainL.applyDefaults_frame`), none of which the run theorems look at.

  Side conditions on the names, and why:
  * operand `name`: `OperandOk name` = does not start with '-' (or is "-" itself) — REQUIRED (unless it follows `--`): an argument
    `-f` IS the option --force (`needs_operandOk`: the file operand is then empty); `flatName name` (from `C01_run`: not empty, no
    slash / TAB / LF, no leading '"') does not imply it.
  * `pname ≠ []` and `pname ≠ "-"` (from `C01_run`: `-i -` is standard input); `-ipname` needs `pname ≠ []` on its own (`-i` alone
    takes the NEXT argument); as the argument of `-i` / `--input` the patch name may start with '-'.
-/
import PatchModel.Lemmas.MainL
import PatchModel.Props.C01Run
import PatchModel.Props.C05Run
import PatchModel.Props.C18Run
import PatchModel.Props.C20Run
import PatchModel.Props.C06Run
namespace PatchModel.C19Main
open PatchModel PatchModel.Cmdline PatchModel.C19 PatchModel.MainL PatchModel.C01 PatchModel.Run

/-- **the whole program**: Main.lean lines 128–131 (`drive`): command line error → exit status 2, nothing touched; else the run.
    `argv` = argv[1..]. -/
def patchMain (argv : List Bytes) (env : Env) (s0 : DState) : Nat × DState :=
  match commandLine optionTable argv env with
  | .error _ => (2, s0)
  | .ok o => runPatch o s0

theorem patchMain_ok {argv : List Bytes} {env : Env} {o : Options} (s0 : DState)
    (h : commandLine optionTable argv env = .ok o) : patchMain argv env s0 = runPatch o s0 := by
  unfold patchMain; rw [h]

/-- a rejected command line: exit status 2 and nothing at all has happened -/
theorem patchMain_reject {argv : List Bytes} {env : Env} (s0 : DState)
    (h : (commandLine optionTable argv env).toOption = none) : patchMain argv env s0 = (2, s0) := by
  obtain ⟨e, he⟩ := exists_error_of_toOption h
  unfold patchMain; rw [he]

/-! ### the rows of the table used below -/

def optInput : Opt := ⟨105, [45, 45, 105, 110, 112, 117, 116], true⟩                         -- -i --input
def optReverse : Opt := ⟨82, [45, 45, 114, 101, 118, 101, 114, 115, 101], false⟩              -- -R --reverse
def optBackup : Opt := ⟨98, [45, 45, 98, 97, 99, 107, 117, 112], false⟩                       -- -b --backup
def optDryRun : Opt := ⟨132, [45, 45, 100, 114, 121, 45, 114, 117, 110], false⟩               -- --dry-run
def optIfdef : Opt := ⟨68, [45, 45, 105, 102, 100, 101, 102], true⟩                           -- -D --ifdef
def optForward : Opt := ⟨78, [45, 45, 102, 111, 114, 119, 97, 114, 100], false⟩               -- -N --forward
def optFuzz : Opt := ⟨70, [45, 45, 102, 117, 122, 122], true⟩                                 -- -F --fuzz
def optStrip : Opt := ⟨112, [45, 45, 115, 116, 114, 105, 112], true⟩                          -- -p --strip

#guard optInput.longName == str "--input" && optReverse.longName == str "--reverse" && optBackup.longName == str "--backup" &&
  optDryRun.longName == str "--dry-run" && optIfdef.longName == str "--ifdef" && optForward.longName == str "--forward" &&
  optFuzz.longName == str "--fuzz" && optStrip.longName == str "--strip"

theorem input_mem : optInput ∈ optionTable := by decide
theorem reverse_mem : optReverse ∈ optionTable := by decide
theorem backup_mem : optBackup ∈ optionTable := by decide
theorem dryRun_mem : optDryRun ∈ optionTable := by decide
theorem ifdef_mem : optIfdef ∈ optionTable := by decide
theorem forward_mem : optForward ∈ optionTable := by decide
theorem fuzz_mem : optFuzz ∈ optionTable := by decide
theorem strip_mem : optStrip ∈ optionTable := by decide

/-! ### the option records -/

/-- `patch -i pname name`: the defaults with the two names -/
def plainOptions (name pname : Bytes) : Options := { defaultOptions with fileToPatch := name, patchFile := pname }

/-- `commandLine` on a command line that spells `ws`, given what the option handler makes of the calls -/
theorem commandLine_words (ws : List Word) (argv : List Bytes) (env : Env) (o : Options)
    (h : Spelled optionTable ws argv)
    (hf : ∃ st, foldCalls { o := defaultOptions } (ws.map Word.call) = .ok st ∧ st.o = o) :
    commandLine optionTable argv env = .ok (applyDefaults o env) := by
  obtain ⟨st, hst, rfl⟩ := hf
  exact commandLine_of_words optionTable table_wf ws argv env st h hst

/-- the two words of the plain run, in either order — or the two-operand form `patch name pname` -/
def PlainWords (ws : List Word) (name pname : Bytes) : Prop :=
  ws.Perm [.opt optInput pname, .operand name] ∨ ws = [.operand name, .operand pname]

/-- the words of the plain run plus one more word, in any order -/
def WordsWith (w : Word) (ws : List Word) (name pname : Bytes) : Prop :=
  ws.Perm [w, .opt optInput pname, .operand name]

theorem fold_plain {ws : List Word} {name pname : Bytes} (h : PlainWords ws name pname) :
    ∃ st, foldCalls { o := defaultOptions } (ws.map Word.call) = .ok st ∧ st.o = plainOptions name pname := by
  rcases h with h | rfl
  · rcases perm_two h with rfl | rfl <;> exact ⟨_, rfl, rfl⟩
  · exact ⟨_, rfl, rfl⟩

theorem fold_dry {ws : List Word} {name pname : Bytes} (h : WordsWith (.flag optDryRun) ws name pname) :
    ∃ st, foldCalls { o := defaultOptions } (ws.map Word.call) = .ok st ∧
      st.o = { plainOptions name pname with dryRun := true } := by
  rcases perm_three h with rfl | rfl | rfl | rfl | rfl | rfl <;> exact ⟨_, rfl, rfl⟩

theorem fold_reverse {ws : List Word} {name pname : Bytes} (h : WordsWith (.flag optReverse) ws name pname) :
    ∃ st, foldCalls { o := defaultOptions } (ws.map Word.call) = .ok st ∧
      st.o = { plainOptions name pname with reverse := true } := by
  rcases perm_three h with rfl | rfl | rfl | rfl | rfl | rfl <;> exact ⟨_, rfl, rfl⟩

theorem fold_backup {ws : List Word} {name pname : Bytes} (h : WordsWith (.flag optBackup) ws name pname) :
    ∃ st, foldCalls { o := defaultOptions } (ws.map Word.call) = .ok st ∧
      st.o = { plainOptions name pname with saveBackup := true } := by
  rcases perm_three h with rfl | rfl | rfl | rfl | rfl | rfl <;> exact ⟨_, rfl, rfl⟩

theorem fold_ifdef {ws : List Word} {name pname sym : Bytes} (h : WordsWith (.opt optIfdef sym) ws name pname) :
    ∃ st, foldCalls { o := defaultOptions } (ws.map Word.call) = .ok st ∧
      st.o = { plainOptions name pname with define := sym } := by
  rcases perm_three h with rfl | rfl | rfl | rfl | rfl | rfl <;> exact ⟨_, rfl, rfl⟩

theorem fold_forward {ws : List Word} {name pname : Bytes} (h : WordsWith (.flag optForward) ws name pname) :
    ∃ st, foldCalls { o := defaultOptions } (ws.map Word.call) = .ok st ∧
      st.o = { plainOptions name pname with ignoreReversed := true } := by
  rcases perm_three h with rfl | rfl | rfl | rfl | rfl | rfl <;> exact ⟨_, rfl, rfl⟩

/-! #### the option-record lemmas: the command line sets the two names and exactly the one extra field -/

/-- **`patch -i pname name`** (any spelling, either order; or `patch name pname`): the defaults with the two names -/
theorem commandLine_plain (ws : List Word) (argv : List Bytes) (env : Env) (name pname : Bytes)
    (hws : PlainWords ws name pname) (hargv : Spelled optionTable ws argv) :
    commandLine optionTable argv env = .ok (applyDefaults (plainOptions name pname) env) :=
  commandLine_words ws argv env _ hargv (fold_plain hws)

theorem commandLine_dry (ws : List Word) (argv : List Bytes) (env : Env) (name pname : Bytes)
    (hws : WordsWith (.flag optDryRun) ws name pname) (hargv : Spelled optionTable ws argv) :
    commandLine optionTable argv env = .ok (applyDefaults { plainOptions name pname with dryRun := true } env) :=
  commandLine_words ws argv env _ hargv (fold_dry hws)

theorem commandLine_reverse (ws : List Word) (argv : List Bytes) (env : Env) (name pname : Bytes)
    (hws : WordsWith (.flag optReverse) ws name pname) (hargv : Spelled optionTable ws argv) :
    commandLine optionTable argv env = .ok (applyDefaults { plainOptions name pname with reverse := true } env) :=
  commandLine_words ws argv env _ hargv (fold_reverse hws)

theorem commandLine_backup (ws : List Word) (argv : List Bytes) (env : Env) (name pname : Bytes)
    (hws : WordsWith (.flag optBackup) ws name pname) (hargv : Spelled optionTable ws argv) :
    commandLine optionTable argv env = .ok (applyDefaults { plainOptions name pname with saveBackup := true } env) :=
  commandLine_words ws argv env _ hargv (fold_backup hws)

theorem commandLine_ifdef (ws : List Word) (argv : List Bytes) (env : Env) (name pname sym : Bytes)
    (hws : WordsWith (.opt optIfdef sym) ws name pname) (hargv : Spelled optionTable ws argv) :
    commandLine optionTable argv env = .ok (applyDefaults { plainOptions name pname with define := sym } env) :=
  commandLine_words ws argv env _ hargv (fold_ifdef hws)

theorem commandLine_forward (ws : List Word) (argv : List Bytes) (env : Env) (name pname : Bytes)
    (hws : WordsWith (.flag optForward) ws name pname) (hargv : Spelled optionTable ws argv) :
    commandLine optionTable argv env = .ok (applyDefaults { plainOptions name pname with ignoreReversed := true } env) :=
  commandLine_words ws argv env _ hargv (fold_forward hws)

/-! #### the environment defaults keep the option structures of the run theorems -/

section
variable {o : Options} {name pname sym : Bytes} (env : Env)

theorem ad_dryRun (o : Options) : (applyDefaults o env).dryRun = o.dryRun :=
  applyDefaults_proj (·.dryRun) (fun _ _ _ _ _ => rfl) o env
theorem ad_newlineOutput (o : Options) : (applyDefaults o env).newlineOutput = o.newlineOutput :=
  applyDefaults_proj (·.newlineOutput) (fun _ _ _ _ _ => rfl) o env
theorem ad_saveBackup (o : Options) : (applyDefaults o env).saveBackup = o.saveBackup :=
  applyDefaults_proj (·.saveBackup) (fun _ _ _ _ _ => rfl) o env
theorem ad_backupPrefix (o : Options) : (applyDefaults o env).backupPrefix = o.backupPrefix :=
  applyDefaults_proj (·.backupPrefix) (fun _ _ _ _ _ => rfl) o env
theorem ad_backupSuffix (o : Options) : (applyDefaults o env).backupSuffix = o.backupSuffix :=
  applyDefaults_proj (·.backupSuffix) (fun _ _ _ _ _ => rfl) o env
theorem ad_ignoreReversed (o : Options) : (applyDefaults o env).ignoreReversed = o.ignoreReversed :=
  applyDefaults_proj (·.ignoreReversed) (fun _ _ _ _ _ => rfl) o env
theorem ad_force (o : Options) : (applyDefaults o env).force = o.force :=
  applyDefaults_proj (·.force) (fun _ _ _ _ _ => rfl) o env
theorem ad_rejectFile (o : Options) : (applyDefaults o env).rejectFile = o.rejectFile :=
  applyDefaults_proj (·.rejectFile) (fun _ _ _ _ _ => rfl) o env
theorem ad_rejectFormat (o : Options) : (applyDefaults o env).rejectFormat = o.rejectFormat :=
  applyDefaults_proj (·.rejectFormat) (fun _ _ _ _ _ => rfl) o env
theorem ad_strip (o : Options) : (applyDefaults o env).strip = o.strip :=
  applyDefaults_proj (·.strip) (fun _ _ _ _ _ => rfl) o env
theorem ad_applyOpts (o : Options) : applyOptsOf (applyDefaults o env) = applyOptsOf o :=
  applyDefaults_proj applyOptsOf (fun _ _ _ _ _ => rfl) o env

theorem fileOpts_ad (h : FileOpts o pname) : FileOpts (applyDefaults o env) pname := by
  obtain ⟨p, q, b, r, e⟩ := applyDefaults_frame o env
  rw [e]
  exact { patchFile := h.patchFile, noDir := h.noDir, noHelp := h.noHelp, noVersion := h.noVersion,
          noContext := h.noContext, noNormal := h.noNormal, noEd := h.noEd }

theorem runOpts_ad (h : RunOpts o name pname) : RunOpts (applyDefaults o env) name pname := by
  refine { plain := ?_, file := fileOpts_ad env h.file }
  obtain ⟨p, q, b, r, e⟩ := applyDefaults_frame o env
  rw [e]
  exact { operand := h.plain.operand, noOut := h.plain.noOut, noBackup := h.plain.noBackup, noReverse := h.plain.noReverse,
          noDefine := h.plain.noDefine, fuzz := h.plain.fuzz, quiet := h.plain.quiet }

theorem runOptsR_ad (h : C05.RunOptsR o name pname) : C05.RunOptsR (applyDefaults o env) name pname := by
  refine { plain := ?_, file := fileOpts_ad env h.file }
  obtain ⟨p, q, b, r, e⟩ := applyDefaults_frame o env
  rw [e]
  exact { operand := h.plain.operand, noOut := h.plain.noOut, noBackup := h.plain.noBackup, reverse := h.plain.reverse,
          noDefine := h.plain.noDefine, fuzz := h.plain.fuzz, quiet := h.plain.quiet }

theorem runOptsB_ad (h : C18Run.RunOptsB o name pname) : C18Run.RunOptsB (applyDefaults o env) name pname := by
  refine { base := ?_, file := fileOpts_ad env h.file }
  obtain ⟨p, q, b, r, e⟩ := applyDefaults_frame o env
  rw [e]
  exact { operand := h.base.operand, noOut := h.base.noOut, noReverse := h.base.noReverse,
          noDefine := h.base.noDefine, fuzz := h.base.fuzz, quiet := h.base.quiet }

theorem runOptsD_ad (h : C20Run.RunOptsD o name pname sym) : C20Run.RunOptsD (applyDefaults o env) name pname sym := by
  refine { plain := ?_, file := fileOpts_ad env h.file }
  obtain ⟨p, q, b, r, e⟩ := applyDefaults_frame o env
  rw [e]
  exact { operand := h.plain.operand, noOut := h.plain.noOut, noBackup := h.plain.noBackup, noReverse := h.plain.noReverse,
          define := h.plain.define, fuzz := h.plain.fuzz, quiet := h.plain.quiet }

end

theorem fileOpts_plain (name pname : Bytes) : FileOpts (plainOptions name pname) pname :=
  { patchFile := rfl, noDir := rfl, noHelp := rfl, noVersion := rfl, noContext := rfl, noNormal := rfl, noEd := rfl }

/-- the record of the plain run satisfies `RunOpts`, and so it does with --dry-run or -N set -/
theorem runOpts_plain (name pname : Bytes) (dry fwd : Bool) :
    RunOpts { plainOptions name pname with dryRun := dry, ignoreReversed := fwd } name pname :=
  { plain := { operand := rfl, noOut := rfl, noBackup := rfl, noReverse := rfl, noDefine := rfl, fuzz := (by decide : (0 : Int) ≤ 2), quiet := rfl },
    file := { patchFile := rfl, noDir := rfl, noHelp := rfl, noVersion := rfl, noContext := rfl, noNormal := rfl, noEd := rfl } }

theorem runOptsR_reverse (name pname : Bytes) : C05.RunOptsR { plainOptions name pname with reverse := true } name pname :=
  { plain := { operand := rfl, noOut := rfl, noBackup := rfl, reverse := rfl, noDefine := rfl, fuzz := (by decide : (0 : Int) ≤ 2), quiet := rfl },
    file := { patchFile := rfl, noDir := rfl, noHelp := rfl, noVersion := rfl, noContext := rfl, noNormal := rfl, noEd := rfl } }

theorem runOptsB_backup (name pname : Bytes) : C18Run.RunOptsB { plainOptions name pname with saveBackup := true } name pname :=
  { base := { operand := rfl, noOut := rfl, noReverse := rfl, noDefine := rfl, fuzz := (by decide : (0 : Int) ≤ 2), quiet := rfl },
    file := { patchFile := rfl, noDir := rfl, noHelp := rfl, noVersion := rfl, noContext := rfl, noNormal := rfl, noEd := rfl } }

theorem runOptsD_ifdef (name pname sym : Bytes) :
    C20Run.RunOptsD { plainOptions name pname with define := sym } name pname sym :=
  { plain := { operand := rfl, noOut := rfl, noBackup := rfl, noReverse := rfl, define := rfl, fuzz := (by decide : (0 : Int) ≤ 2), quiet := rfl },
    file := { patchFile := rfl, noDir := rfl, noHelp := rfl, noVersion := rfl, noContext := rfl, noNormal := rfl, noEd := rfl } }

/-- **the option record of `patch -i pname name`** (any spelling): `commandLine` succeeds, the record satisfies `RunOpts` and is
    not a dry run — for every environment -/
theorem commandLine_plain_runOpts (ws : List Word) (argv : List Bytes) (env : Env) (name pname : Bytes)
    (hws : PlainWords ws name pname) (hargv : Spelled optionTable ws argv) :
    ∃ o, commandLine optionTable argv env = .ok o ∧ RunOpts o name pname ∧ o.dryRun = false ∧ o.newlineOutput = .native :=
  ⟨_, commandLine_plain ws argv env name pname hws hargv, runOpts_ad env (runOpts_plain name pname false false),
    ad_dryRun env _, ad_newlineOutput env _⟩

/-! ### C01: `patch -i pname name` -/

/-- **C01, from the command line to the result.**  `argv` spells `-i pname` and the operand `name` (any spelling, either order;
    or the two operands `name pname`); the tree holds the target `name` and, in `pname`, the text of a unified diff of `name`,
    `hs` a valid script of the target's lines.  Then — whatever the environment — the exit status is 0, the target holds the
    intended result with its old mode, and every other path is unchanged. -/
theorem C01_main (argv : List Bytes) (env : Env) (s0 : DState) (ws : List Word)
    (name pname bytes oldt newt : Bytes) (m pm : Nat) (hs : List Hunk)
    (hws : PlainWords ws name pname) (hargv : Spelled optionTable ws argv)
    (hs0 : CleanStart s0) (hn : flatName name) (hpn : pname ≠ []) (hpd : pname ≠ [45])
    (htarget : s0.fs.lookup name = some (.file bytes m)) (hw : m &&& writeMask ≠ 0)
    (hot : stampOk oldt) (hnt : stampOk newt)
    (hpatch : s0.fs.lookup pname = some (.file (diffText name name oldt newt hs) pm))
    (hh : DiffHunks hs) (hvalid : Valid (splitLines bytes) 0 0 hs) :
    (patchMain argv env s0).1 = 0 ∧
    (patchMain argv env s0).2.fs.lookup name = some (.file (Render.renderText .native (splice (splitLines bytes) 0 hs)) m) ∧
    ∀ q, q ≠ name → (patchMain argv env s0).2.fs.lookup q = s0.fs.lookup q := by
  rw [patchMain_ok s0 (commandLine_plain ws argv env name pname hws hargv)]
  have h := C01_run (applyDefaults (plainOptions name pname) env) s0 name pname bytes oldt newt m pm hs
    (runOpts_ad env (runOpts_plain name pname false false)) (ad_dryRun env _) hs0 hn hpn hpd htarget hw hot hnt hpatch hh hvalid
  rw [ad_newlineOutput] at h
  exact h

/-- an argument the parser takes for an operand: it does not start with '-', or it is "-" -/
def OperandOk (x : Bytes) : Prop := x.head? ≠ some MINUS ∨ x = [MINUS]
instance (x : Bytes) : Decidable (OperandOk x) := by unfold OperandOk; infer_instance

/-- the unambiguous long spellings of `--input`: "--input", "--inpu", "--inp", "--in" ("--i" also matches --ifdef and
    --ignore-whitespace) -/
def inputLongNames : List Bytes :=
  [[45, 45, 105, 110, 112, 117, 116], [45, 45, 105, 110, 112, 117], [45, 45, 105, 110, 112], [45, 45, 105, 110]]
#guard inputLongNames == [str "--input", str "--inpu", str "--inp", str "--in"]

theorem inputLongNames_ok : ∀ f ∈ inputLongNames, longNameOf optionTable optInput f = true := by decide

/-- the spellings of `-i pname`: `-i pname`, `-ipname`, `--in[put] pname`, `--in[put]=pname` -/
inductive InputArgs (pname : Bytes) : List Bytes → Prop
  | shortSep : InputArgs pname [[45, 105], pname]
  | shortAtt : InputArgs pname [45 :: 105 :: pname]
  | longSep (f : Bytes) (hf : f ∈ inputLongNames) : InputArgs pname [f, pname]
  | longEq (f : Bytes) (hf : f ∈ inputLongNames) : InputArgs pname [f ++ 61 :: pname]

theorem spells_input {pname : Bytes} {a : List Bytes} (h : InputArgs pname a) (hpn : pname ≠ []) :
    Spells optionTable (.opt optInput pname) a := by
  cases h with
  | shortSep => exact .optShortSep optInput input_mem rfl 105 (by decide) pname
  | shortAtt => exact .optShortAtt optInput input_mem rfl 105 (by decide) pname hpn
  | longSep f hf => exact .optLongSep optInput input_mem rfl f (inputLongNames_ok f hf) pname
  | longEq f hf => exact .optLongEq optInput input_mem rfl f (inputLongNames_ok f hf) pname

/-- the command lines of the plain run, spelled out -/
inductive PlainArgv (name pname : Bytes) : List Bytes → Prop
  /-- `-i pname name` -/
  | after (a : List Bytes) (ha : InputArgs pname a) (hname : OperandOk name) : PlainArgv name pname (a ++ [name])
  /-- `name -i pname` -/
  | before (a : List Bytes) (ha : InputArgs pname a) (hname : OperandOk name) : PlainArgv name pname (name :: a)
  /-- `-i pname -- name` (any name) -/
  | dashdash (a : List Bytes) (ha : InputArgs pname a) : PlainArgv name pname (a ++ [[45, 45], name])
  /-- `name pname` -/
  | operands (hname : OperandOk name) (hp : OperandOk pname) : PlainArgv name pname [name, pname]

theorem plainArgv_spelled {name pname : Bytes} {argv : List Bytes} (h : PlainArgv name pname argv) (hpn : pname ≠ []) :
    ∃ ws, PlainWords ws name pname ∧ Spelled optionTable ws argv := by
  cases h with
  | after a ha hname =>
    exact ⟨[.opt optInput pname, .operand name], .inl (List.Perm.refl _),
      .cons (spells_input ha hpn) (.cons (.operand name hname) .nil)⟩
  | before a ha hname =>
    refine ⟨[.operand name, .opt optInput pname], .inl (List.Perm.swap _ _ _), ?_⟩
    have := Spelled.cons (.operand name hname) (Spelled.cons (spells_input ha hpn) .nil)
    rwa [List.append_nil] at this
  | dashdash a ha =>
    exact ⟨[.opt optInput pname, .operand name], .inl (List.Perm.refl _),
      .cons (spells_input ha hpn) (.dashdash [name])⟩
  | operands hname hp =>
    exact ⟨[.operand name, .operand pname], .inr rfl, .cons (.operand name hname) (.cons (.operand pname hp) .nil)⟩

/-- **C01 for the spelled-out command lines** -/
theorem C01_main_spellings (argv : List Bytes) (env : Env) (s0 : DState)
    (name pname bytes oldt newt : Bytes) (m pm : Nat) (hs : List Hunk)
    (hargv : PlainArgv name pname argv)
    (hs0 : CleanStart s0) (hn : flatName name) (hpn : pname ≠ []) (hpd : pname ≠ [45])
    (htarget : s0.fs.lookup name = some (.file bytes m)) (hw : m &&& writeMask ≠ 0)
    (hot : stampOk oldt) (hnt : stampOk newt)
    (hpatch : s0.fs.lookup pname = some (.file (diffText name name oldt newt hs) pm))
    (hh : DiffHunks hs) (hvalid : Valid (splitLines bytes) 0 0 hs) :
    (patchMain argv env s0).1 = 0 ∧
    (patchMain argv env s0).2.fs.lookup name = some (.file (Render.renderText .native (splice (splitLines bytes) 0 hs)) m) ∧
    ∀ q, q ≠ name → (patchMain argv env s0).2.fs.lookup q = s0.fs.lookup q := by
  obtain ⟨ws, hws, hsp⟩ := plainArgv_spelled hargv hpn
  exact C01_main argv env s0 ws name pname bytes oldt newt m pm hs hws hsp hs0 hn hpn hpd htarget hw hot hnt hpatch hh hvalid

/-- **C01, literally**: `patch -i pname name` (argv = ["-i", pname, name]) in a tree with `name` and a unified diff of `name` in
    `pname` yields the new `name`: exit status 0, the new content with the old mode, nothing else touched. -/
theorem C01_main_literal (env : Env) (s0 : DState) (name pname bytes oldt newt : Bytes) (m pm : Nat) (hs : List Hunk)
    (hname : OperandOk name)
    (hs0 : CleanStart s0) (hn : flatName name) (hpn : pname ≠ []) (hpd : pname ≠ [45])
    (htarget : s0.fs.lookup name = some (.file bytes m)) (hw : m &&& writeMask ≠ 0)
    (hot : stampOk oldt) (hnt : stampOk newt)
    (hpatch : s0.fs.lookup pname = some (.file (diffText name name oldt newt hs) pm))
    (hh : DiffHunks hs) (hvalid : Valid (splitLines bytes) 0 0 hs) :
    (patchMain [[45, 105], pname, name] env s0).1 = 0 ∧
    (patchMain [[45, 105], pname, name] env s0).2.fs.lookup name =
      some (.file (Render.renderText .native (splice (splitLines bytes) 0 hs)) m) ∧
    ∀ q, q ≠ name → (patchMain [[45, 105], pname, name] env s0).2.fs.lookup q = s0.fs.lookup q :=
  C01_main_spellings _ env s0 name pname bytes oldt newt m pm hs (.after _ .shortSep hname) hs0 hn hpn hpd htarget hw hot hnt hpatch
    hh hvalid

/-- `OperandOk` is REQUIRED: with the name "-f" the command line `-i p -f` is accepted — as `--force` without file operand -/
theorem needs_operandOk :
    (commandLine optionTable [[45, 105], [112], [45, 102]] {}).toOption.map (fun o => (o.fileToPatch, o.force)) = some ([], true) := by
  decide +kernel

/-! ### one more word: --dry-run, -R, -b, -D sym, -N -/

/-- three words, each in one of its spellings -/
theorem spelled3 {w1 w2 w3 : Word} {a1 a2 a3 : List Bytes} (h1 : Spells optionTable w1 a1) (h2 : Spells optionTable w2 a2)
    (h3 : Spells optionTable w3 a3) : Spelled optionTable [w1, w2, w3] (a1 ++ (a2 ++ a3)) := by
  have := Spelled.cons h1 (Spelled.cons h2 (Spelled.cons h3 .nil))
  rwa [List.append_nil] at this

/-- **C15, from the command line**: `patch --dry-run -i pname name` (three words, any order, any spelling): exit status 0, the tree
    untouched -/
theorem C15_main (argv : List Bytes) (env : Env) (s0 : DState) (ws : List Word)
    (name pname bytes oldt newt : Bytes) (m pm : Nat) (hs : List Hunk)
    (hws : WordsWith (.flag optDryRun) ws name pname) (hargv : Spelled optionTable ws argv)
    (hs0 : CleanStart s0) (hn : flatName name) (hpn : pname ≠ []) (hpd : pname ≠ [45])
    (htarget : s0.fs.lookup name = some (.file bytes m)) (hw : m &&& writeMask ≠ 0)
    (hot : stampOk oldt) (hnt : stampOk newt)
    (hpatch : s0.fs.lookup pname = some (.file (diffText name name oldt newt hs) pm))
    (hh : DiffHunks hs) (hvalid : Valid (splitLines bytes) 0 0 hs) :
    (patchMain argv env s0).1 = 0 ∧ (patchMain argv env s0).2.fs = s0.fs := by
  rw [patchMain_ok s0 (commandLine_dry ws argv env name pname hws hargv)]
  exact C15_run_dry _ s0 name pname bytes oldt newt m pm hs (runOpts_ad env (runOpts_plain name pname true false))
    (ad_dryRun env _) hs0 hn hpn hpd htarget hw hot hnt hpatch hh hvalid

/-- **C05, from the command line**: `patch -R -i pname name`, the target holding the NEW file: exit status 0, the target holds the
    old file's lines with its mode, nothing else differs -/
theorem C05_main (argv : List Bytes) (env : Env) (s0 : DState) (ws : List Word)
    (name pname bytes newbytes oldt newt : Bytes) (m pm : Nat) (hs : List Hunk)
    (hws : WordsWith (.flag optReverse) ws name pname) (hargv : Spelled optionTable ws argv)
    (hs0 : CleanStart s0) (hn : flatName name) (hpn : pname ≠ []) (hpd : pname ≠ [45])
    (htarget : s0.fs.lookup name = some (.file newbytes m)) (hw : m &&& writeMask ≠ 0)
    (hot : stampOk oldt) (hnt : stampOk newt)
    (hpatch : s0.fs.lookup pname = some (.file (diffText name name oldt newt hs) pm))
    (hh : DiffHunks hs) (hvalid : Valid (splitLines bytes) 0 0 hs)
    (hnew : splitLines newbytes = splice (splitLines bytes) 0 hs) :
    (patchMain argv env s0).1 = 0 ∧
    (patchMain argv env s0).2.fs.lookup name = some (.file (renderLines .native (splitLines bytes)) m) ∧
    ∀ q, q ≠ name → (patchMain argv env s0).2.fs.lookup q = s0.fs.lookup q := by
  rw [patchMain_ok s0 (commandLine_reverse ws argv env name pname hws hargv)]
  have h := C05.C05_run _ s0 name pname bytes newbytes oldt newt m pm hs (runOptsR_ad env (runOptsR_reverse name pname))
    (ad_dryRun env _) hs0 hn hpn hpd htarget hw hot hnt hpatch hh hvalid hnew
  rw [ad_newlineOutput] at h
  exact h

/-- **C18, from the command line**: `patch -b -i pname name`: exit status 0, the target holds the intended result, `name.orig`
    holds the old bytes, both with the old mode, nothing else differs (`hbnd`, new with the model change "a file is not renamed onto a
    directory": `name.orig` is not a directory — else the backup fails and the exit status is 2, `C18Run.BackupNameTaken`) -/
theorem C18_main (argv : List Bytes) (env : Env) (s0 : DState) (ws : List Word)
    (name pname bytes oldt newt : Bytes) (m pm : Nat) (hs : List Hunk)
    (hws : WordsWith (.flag optBackup) ws name pname) (hargv : Spelled optionTable ws argv)
    (hs0 : CleanStart s0) (hbu : s0.backedUp = [])
    (hn : flatName name) (hbnd : ∀ m', s0.fs.lookup (name ++ str ".orig") ≠ some (.dir m')) (hpn : pname ≠ []) (hpd : pname ≠ [45])
    (htarget : s0.fs.lookup name = some (.file bytes m)) (hw : m &&& writeMask ≠ 0)
    (hot : stampOk oldt) (hnt : stampOk newt)
    (hpatch : s0.fs.lookup pname = some (.file (diffText name name oldt newt hs) pm))
    (hh : DiffHunks hs) (hvalid : Valid (splitLines bytes) 0 0 hs) :
    (patchMain argv env s0).1 = 0 ∧
    (patchMain argv env s0).2.fs.lookup name = some (.file (Render.renderText .native (splice (splitLines bytes) 0 hs)) m) ∧
    (patchMain argv env s0).2.fs.lookup (name ++ str ".orig") = some (.file bytes m) ∧
    (∀ q, q ≠ name → q ≠ name ++ str ".orig" → (patchMain argv env s0).2.fs.lookup q = s0.fs.lookup q) := by
  rw [patchMain_ok s0 (commandLine_backup ws argv env name pname hws hargv)]
  have h := C18Run.C18_run_orig _ s0 name pname bytes oldt newt m pm hs (runOptsB_ad env (runOptsB_backup name pname))
    (ad_saveBackup env _) (ad_backupPrefix env _) (ad_backupSuffix env _) (ad_dryRun env _) hs0 hbu hn hbnd hpn hpd htarget hw hot hnt
    hpatch hh hvalid
  rw [ad_newlineOutput] at h
  exact h

/-- **C20, from the command line**: `patch -D sym -i pname name` -/
theorem C20_main (argv : List Bytes) (env : Env) (s0 : DState) (ws : List Word)
    (name pname bytes sym oldt newt : Bytes) (m pm : Nat) (hs : List Hunk)
    (hws : WordsWith (.opt optIfdef sym) ws name pname) (hargv : Spelled optionTable ws argv)
    (hsym : sym ≠ []) (hsnl : NL ∉ sym) (hscr : sym.getLast? ≠ some CR)
    (hs0 : CleanStart s0) (hn : flatName name) (hpn : pname ≠ []) (hpd : pname ≠ [45])
    (htarget : s0.fs.lookup name = some (.file bytes m)) (hw : m &&& writeMask ≠ 0)
    (hot : stampOk oldt) (hnt : stampOk newt)
    (hpatch : s0.fs.lookup pname = some (.file (diffText name name oldt newt hs) pm))
    (hh : DiffHunks hs) (hvalid : Valid (splitLines bytes) 0 0 hs)
    (hfileLF : ∀ l ∈ splitLines bytes, l.newline = .lf)
    (hpatchLF : ∀ h ∈ hs, ∀ pl ∈ h.lines, pl.line.newline = .lf)
    (hfileD : ∀ l ∈ splitLines bytes, notDirective sym l)
    (hpatchD : ∀ h ∈ hs, ∀ pl ∈ h.lines, notDirective sym pl.line) :
    (patchMain argv env s0).1 = 0 ∧
    (∃ c, (patchMain argv env s0).2.fs.lookup name = some (.file c m) ∧
      cppEval sym true (splitLines c) = some (splice (splitLines bytes) 0 hs) ∧
      cppEval sym false (splitLines c) = some (splitLines bytes)) ∧
    ∀ q, q ≠ name → (patchMain argv env s0).2.fs.lookup q = s0.fs.lookup q := by
  rw [patchMain_ok s0 (commandLine_ifdef ws argv env name pname sym hws hargv)]
  exact C20Run.C20_run _ s0 name pname bytes sym oldt newt m pm hs (runOptsD_ad env (runOptsD_ifdef name pname sym)) hsym hsnl hscr
    (by rw [ad_newlineOutput]; exact (by decide : NewlineOutput.native ≠ .crlf)) (ad_dryRun env _) hs0 hn hpn hpd htarget hw hot hnt hpatch hh hvalid hfileLF hpatchLF
    hfileD hpatchD

/-- **C06, from the command line**: `patch -N -i pname name` in a tree whose target already holds the result of the diff: exit
    status 1; the target holds its own lines again, mode kept; `name.rej` — a new file — holds the text of the diff; nothing else
    differs; the log is as stated.  (`applyOptsOf defaultOptions`: no `-l`, fuzz 2 — all that `FirstHunkNoLongerFits` looks at.) -/
theorem C06_main (argv : List Bytes) (env : Env) (s0 : DState) (ws : List Word)
    (name pname bytes newbytes oldt newt : Bytes) (m pm : Nat) (h1 : Hunk) (rest : List Hunk)
    (hws : WordsWith (.flag optForward) ws name pname) (hargv : Spelled optionTable ws argv)
    (hs0 : CleanStart s0) (hrw : s0.rejWritten = [])
    (hn : flatName name) (hfree : s0.fs.lookup (name ++ str ".rej") = none) (hpn : pname ≠ []) (hpd : pname ≠ [45])
    (htarget : s0.fs.lookup name = some (.file newbytes m)) (hw : m &&& writeMask ≠ 0)
    (hot : stampOk oldt) (hnt : stampOk newt)
    (hpatch : s0.fs.lookup pname = some (.file (diffText name name oldt newt (h1 :: rest)) pm))
    (hh : DiffHunks (h1 :: rest)) (hvalid : Valid (splitLines bytes) 0 0 (h1 :: rest))
    (hnew : splitLines newbytes = splice (splitLines bytes) 0 (h1 :: rest))
    (hamb : C06.FirstHunkNoLongerFits (splitLines newbytes) h1 (applyOptsOf defaultOptions)) :
    (patchMain argv env s0).1 = 1 ∧
    (patchMain argv env s0).2.fs.lookup name = some (.file (renderLines .native (splitLines newbytes)) m) ∧
    (patchMain argv env s0).2.fs.lookup (name ++ str ".rej") =
      some (.file (diffText name name oldt newt (h1 :: rest)) (0o666 - (0o666 &&& s0.fs.umask))) ∧
    (∀ q, q ≠ name → q ≠ name ++ str ".rej" → (patchMain argv env s0).2.fs.lookup q = s0.fs.lookup q) ∧
    (patchMain argv env s0).2.out = s0.out ++ [.file name false, .msg (.reversedDetected false), .msg .skippingPatch,
      .failed (h1 :: rest).length (h1 :: rest).length true (some (name ++ str ".rej"))] := by
  rw [patchMain_ok s0 (commandLine_forward ws argv env name pname hws hargv)]
  have h := C06Run.C06_run_N _ s0 name pname bytes newbytes oldt newt m pm h1 rest
    (runOpts_ad env (runOpts_plain name pname false true)) (ad_ignoreReversed env _) (ad_force env _) (ad_rejectFile env _)
    (by rw [ad_rejectFormat]; exact (by decide : RejectFormat.default ≠ .context))
    (by rw [ad_strip]; exact (by decide : (-1 : Int) ≤ 0)) (ad_dryRun env _) hs0 hrw hn hfree hpn hpd htarget hw hot hnt
    hpatch hh hvalid hnew (by rw [ad_applyOpts]; exact hamb)
  rw [ad_newlineOutput] at h
  exact h

/-! #### the literal command lines `X -i pname name` -/

theorem spelled_flag_literal {o : Opt} (ho : o ∈ optionTable) (hflag : o.hasArg = false) (f : Bytes)
    (hf : longNameOf optionTable o f = true ∨ ∃ c, shortByte o = some c ∧ f = [MINUS, c])
    {name pname : Bytes} (hname : OperandOk name) :
    Spelled optionTable [.flag o, .opt optInput pname, .operand name] [f, [45, 105], pname, name] := by
  have h1 : Spells optionTable (.flag o) [f] := by
    rcases hf with hf | ⟨c, hc, rfl⟩
    · exact .flagLong o ho hflag f hf
    · exact .flagShort o ho hflag c hc
  exact spelled3 h1 (.optShortSep optInput input_mem rfl 105 (by decide) pname) (.operand name hname)

/-- `patch -R -i pname name`, literally -/
theorem C05_main_literal (env : Env) (s0 : DState) (name pname bytes newbytes oldt newt : Bytes) (m pm : Nat) (hs : List Hunk)
    (hname : OperandOk name)
    (hs0 : CleanStart s0) (hn : flatName name) (hpn : pname ≠ []) (hpd : pname ≠ [45])
    (htarget : s0.fs.lookup name = some (.file newbytes m)) (hw : m &&& writeMask ≠ 0)
    (hot : stampOk oldt) (hnt : stampOk newt)
    (hpatch : s0.fs.lookup pname = some (.file (diffText name name oldt newt hs) pm))
    (hh : DiffHunks hs) (hvalid : Valid (splitLines bytes) 0 0 hs)
    (hnew : splitLines newbytes = splice (splitLines bytes) 0 hs) :
    (patchMain [[45, 82], [45, 105], pname, name] env s0).1 = 0 ∧
    (patchMain [[45, 82], [45, 105], pname, name] env s0).2.fs.lookup name =
      some (.file (renderLines .native (splitLines bytes)) m) ∧
    ∀ q, q ≠ name → (patchMain [[45, 82], [45, 105], pname, name] env s0).2.fs.lookup q = s0.fs.lookup q :=
  C05_main _ env s0 _ name pname bytes newbytes oldt newt m pm hs (List.Perm.refl _)
    (spelled_flag_literal reverse_mem rfl _ (.inr ⟨82, by decide, rfl⟩) hname) hs0 hn hpn hpd htarget hw hot hnt hpatch hh hvalid hnew

/-! ### bad command lines -/

/-- a non-numeric argument to -F / -p (in any spelling of the option, after any operands) is rejected -/
theorem reject_not_number (o : Opt) (ho : o.shortName = 70 ∨ o.shortName = 112) (v : Bytes)
    (hv : (stoi v).toOption = none) (a : List Bytes) (hsp : Spells optionTable (.opt o v) a)
    (pre rest : List Bytes) (hpre : ∀ x ∈ pre, x.head? ≠ some MINUS) (env : Env) :
    (commandLine optionTable (pre ++ (a ++ rest)) env).toOption = none := by
  apply commandLine_handler_error
  rw [parse_operands_word optionTable table_wf pre hpre _ a hsp rest]
  exact foldCalls_bad_call _ _ _ _ (fun st' => reject_non_numeric v hv o.shortName ho st')

/-- an ambiguous prefix of a long option (with or without `=value`, after any operands) is rejected -/
theorem reject_ambiguous (o1 o2 : Opt) (h1 : o1 ∈ optionTable) (h2 : o2 ∈ optionTable) (hne : o1 ≠ o2)
    (p : Bytes) (hlen : p.length > 2) (hp1 : p.isPrefixOf o1.longName = true) (hp2 : p.isPrefixOf o2.longName = true)
    (hno : ∀ o ∈ optionTable, o.longName ≠ p)
    (suffix : Bytes) (hs : suffix = [] ∨ suffix.head? = some EQ)
    (pre rest : List Bytes) (hpre : ∀ x ∈ pre, x.head? ≠ some MINUS) (env : Env) :
    (commandLine optionTable (pre ++ (p ++ suffix) :: rest) env).toOption = none := by
  apply reject_of_step_error optionTable pre _ rest env hpre .cmdlineError
  obtain ⟨_, _, hall⟩ := wf_parts optionTable table_wf
  obtain ⟨⟨c, more, hn⟩, heq, _⟩ := hall o1 h1
  have hnoeq : ¬ p.contains EQ := by
    have := not_mem_of_isPrefixOf p _ hp1 heq
    simpa using this
  have h2' : [MINUS, MINUS].isPrefixOf (p ++ suffix) = true := by
    rw [hn] at hp1
    match p, hlen, hp1 with
    | a :: b :: d :: f', _, hp =>
      simp only [List.isPrefixOf, Bool.and_eq_true, beq_iff_eq] at hp
      obtain ⟨rfl, rfl, _⟩ := hp
      simp [List.isPrefixOf]
  have hl : (p ++ suffix).length > 2 := by rw [List.length_append]; omega
  rw [parse_long optionTable (p ++ suffix) rest h2' hl,
    prefix_ambiguous optionTable table_wf o1 o2 h1 h2 hne p hp1 hp2 hno hnoeq suffix hs rest]

/-- the command lines `commandLine` rejects (the C19 error classes); `pre` = operands in front -/
inductive BadCommandLine : List Bytes → Prop
  /-- `-x…`: no such short option -/
  | unknownShort (c : UInt8) (hc : ∀ o ∈ optionTable, o.shortName ≠ charVal c) (hm : c ≠ MINUS) (more : Bytes)
      (pre rest : List Bytes) (hpre : ∀ a ∈ pre, a.head? ≠ some MINUS) :
      BadCommandLine (pre ++ ([MINUS, c] ++ more) :: rest)
  /-- `--xyz…`: prefix of no long option -/
  | unknownLong (arg : Bytes) (h2 : [MINUS, MINUS].isPrefixOf arg = true) (hlen : arg.length > 2)
      (hnone : ∀ o ∈ optionTable, (arg.takeWhile (· != EQ)).isPrefixOf o.longName = false)
      (pre rest : List Bytes) (hpre : ∀ a ∈ pre, a.head? ≠ some MINUS) : BadCommandLine (pre ++ arg :: rest)
  /-- `--re…`: prefix of two long options, equal to none -/
  | ambiguous (o1 o2 : Opt) (h1 : o1 ∈ optionTable) (h2 : o2 ∈ optionTable) (hne : o1 ≠ o2)
      (p : Bytes) (hlen : p.length > 2) (hp1 : p.isPrefixOf o1.longName = true) (hp2 : p.isPrefixOf o2.longName = true)
      (hno : ∀ o ∈ optionTable, o.longName ≠ p) (suffix : Bytes) (hs : suffix = [] ∨ suffix.head? = some EQ)
      (pre rest : List Bytes) (hpre : ∀ x ∈ pre, x.head? ≠ some MINUS) : BadCommandLine (pre ++ (p ++ suffix) :: rest)
  /-- `… -i`: the option's argument is missing -/
  | missingArgument (o : Opt) (ho : o ∈ optionTable) (harg : o.hasArg = true) (f : Bytes)
      (hf : f = o.longName ∨ ∃ c, shortByte o = some c ∧ f = [MINUS, c])
      (pre : List Bytes) (hpre : ∀ a ∈ pre, a.head? ≠ some MINUS) : BadCommandLine (pre ++ [f])
  /-- `--reverse=x`: a flag with a value -/
  | flagWithValue (o : Opt) (ho : o ∈ optionTable) (hflag : o.hasArg = false) (v : Bytes)
      (pre rest : List Bytes) (hpre : ∀ a ∈ pre, a.head? ≠ some MINUS) :
      BadCommandLine (pre ++ (o.longName ++ [EQ] ++ v) :: rest)
  /-- `-F x`, `-px`, `--fuzz=x`, `--strip x`: not a number (or out of the 32-bit range) -/
  | notANumber (o : Opt) (ho : o.shortName = 70 ∨ o.shortName = 112) (v : Bytes) (hv : (stoi v).toOption = none)
      (a : List Bytes) (hsp : Spells optionTable (.opt o v) a)
      (pre rest : List Bytes) (hpre : ∀ x ∈ pre, x.head? ≠ some MINUS) : BadCommandLine (pre ++ (a ++ rest))
  /-- three operands -/
  | thirdOperand (a b c : Bytes) (ha : a.head? ≠ some MINUS) (hb : b.head? ≠ some MINUS) (hc : c.head? ≠ some MINUS) :
      BadCommandLine [a, b, c]

theorem bad_rejected {argv : List Bytes} (h : BadCommandLine argv) (env : Env) :
    (commandLine optionTable argv env).toOption = none := by
  cases h with
  | unknownShort c hc hm more pre rest hpre => exact reject_unknown_short optionTable c hc hm more pre rest env hpre
  | unknownLong arg h2 hlen hnone pre rest hpre => exact reject_unknown_long optionTable arg h2 hlen hnone pre rest env hpre
  | ambiguous o1 o2 h1 h2 hne p hlen hp1 hp2 hno suffix hs pre rest hpre =>
    exact reject_ambiguous o1 o2 h1 h2 hne p hlen hp1 hp2 hno suffix hs pre rest hpre env
  | missingArgument o ho harg f hf pre hpre => exact reject_missing_argument optionTable table_wf o ho harg f hf pre env hpre
  | flagWithValue o ho hflag v pre rest hpre => exact reject_flag_with_value optionTable table_wf o ho hflag v pre rest env hpre
  | notANumber o ho v hv a hsp pre rest hpre => exact reject_not_number o ho v hv a hsp pre rest hpre env
  | thirdOperand a b c ha hb hc => exact third_operand_rejected optionTable a b c ha hb hc env

/-- **a bad command line: exit status 2 and nothing touched** — unknown option, ambiguous prefix, missing argument, value given to
    a flag, non-numeric argument to -F / -p, third operand; for every environment and every start state -/
theorem bad_command_line (argv : List Bytes) (env : Env) (s0 : DState) (h : BadCommandLine argv) :
    patchMain argv env s0 = (2, s0) :=
  patchMain_reject s0 (bad_rejected h env)

/-! ### non-vacuity: the instance of `C01_run` (`f` = "a\nb\nc\n", `p.diff` changes `b` to `B`), from the command line -/
namespace Instance
open PatchModel.C01.Instance (name pname bytes oldt newt hk s0 diffHunks)

/-- `-i p.diff f` -/
def argv : List Bytes := [[45, 105], pname, name]
#guard argv == [str "-i", str "p.diff", str "f"]

/-- **`C01_main_literal` applies** (every hypothesis discharged in the kernel): `patch -i p.diff f` → exit status 0, `f` =
    "a\nB\nc\n" mode 0644, nothing else touched — in every environment -/
theorem applies (env : Env) :
    (patchMain argv env s0).1 = 0 ∧
    (patchMain argv env s0).2.fs.lookup name = some (.file [97, 10, 66, 10, 99, 10] 0o644) ∧
    ∀ q, q ≠ name → (patchMain argv env s0).2.fs.lookup q = s0.fs.lookup q := by
  have h := C01_main_literal env s0 name pname bytes oldt newt 0o644 0o644 [hk] (by decide) ⟨rfl, rfl, rfl, rfl, rfl, rfl⟩
    (by decide) (by decide) (by decide) (by decide) (by decide) (by decide) (by decide) rfl diffHunks
    (validB_sound _ _ _ _ (by decide))
  have hm : Render.renderText .native (splice (splitLines bytes) 0 [hk]) = [97, 10, 66, 10, 99, 10] := by decide
  rw [hm] at h
  exact h

/-- other spellings: `--inp=p.diff f`, `f -ip.diff`, `-i p.diff -- f`, `f p.diff` -/
theorem applies_spellings (env : Env) (argv' : List Bytes)
    (h : argv' = [[45, 45, 105, 110, 112] ++ 61 :: pname, name] ∨ argv' = [name, 45 :: 105 :: pname] ∨
      argv' = [[45, 105], pname, [45, 45], name] ∨ argv' = [name, pname]) :
    (patchMain argv' env s0).1 = 0 ∧
    (patchMain argv' env s0).2.fs.lookup name = some (.file [97, 10, 66, 10, 99, 10] 0o644) := by
  have hp : PlainArgv name pname argv' := by
    rcases h with rfl | rfl | rfl | rfl
    · exact .after _ (.longEq _ (by decide)) (by decide)
    · exact .before _ .shortAtt (by decide)
    · exact .dashdash _ .shortSep
    · exact .operands (by decide) (by decide)
  have h := C01_main_spellings argv' env s0 name pname bytes oldt newt 0o644 0o644 [hk] hp ⟨rfl, rfl, rfl, rfl, rfl, rfl⟩
    (by decide) (by decide) (by decide) (by decide) (by decide) (by decide) (by decide) rfl diffHunks
    (validB_sound _ _ _ _ (by decide))
  have hm : Render.renderText .native (splice (splitLines bytes) 0 [hk]) = [97, 10, 66, 10, 99, 10] := by decide
  rw [hm] at h
  exact ⟨h.1, h.2.1⟩

/-- `-R -i p.diff f` on the tree that holds the new file: `C05_main_literal` applies, `f` = "a\nb\nc\n" again -/
theorem applies_R (env : Env) :
    (patchMain [[45, 82], [45, 105], pname, name] env C05.InstanceR.s0).1 = 0 ∧
    (patchMain [[45, 82], [45, 105], pname, name] env C05.InstanceR.s0).2.fs.lookup name =
      some (.file [97, 10, 98, 10, 99, 10] 0o644) := by
  have h := C05_main_literal env C05.InstanceR.s0 name pname bytes C05.InstanceR.newbytes oldt newt 0o644 0o644 [hk] (by decide)
    ⟨rfl, rfl, rfl, rfl, rfl, rfl⟩ (by decide) (by decide) (by decide) (by decide) (by decide) (by decide) (by decide) rfl
    diffHunks (validB_sound _ _ _ _ (by decide)) C05.InstanceR.holdsNew
  have hm : renderLines .native (splitLines bytes) = [97, 10, 98, 10, 99, 10] := by decide
  rw [hm] at h
  exact ⟨h.1, h.2.1⟩

/-- `--dry-run -i p.diff f`: `C15_main` applies — exit status 0, the tree as it was -/
theorem applies_dry (env : Env) :
    (patchMain [[45, 45, 100, 114, 121, 45, 114, 117, 110], [45, 105], pname, name] env s0).1 = 0 ∧
    (patchMain [[45, 45, 100, 114, 121, 45, 114, 117, 110], [45, 105], pname, name] env s0).2.fs = s0.fs :=
  C15_main _ env s0 _ name pname bytes oldt newt 0o644 0o644 [hk] (List.Perm.refl _)
    (spelled_flag_literal dryRun_mem rfl _ (.inl (by decide)) (by decide)) ⟨rfl, rfl, rfl, rfl, rfl, rfl⟩
    (by decide) (by decide) (by decide) rfl (by decide) (by decide) (by decide) rfl diffHunks (validB_sound _ _ _ _ (by decide))

/-- `-b -i p.diff f`: `C18_main` applies — `f` = "a\nB\nc\n", `f.orig` = "a\nb\nc\n" -/
theorem applies_b (env : Env) :
    (patchMain [[45, 98], [45, 105], pname, name] env s0).1 = 0 ∧
    (patchMain [[45, 98], [45, 105], pname, name] env s0).2.fs.lookup name = some (.file [97, 10, 66, 10, 99, 10] 0o644) ∧
    (patchMain [[45, 98], [45, 105], pname, name] env s0).2.fs.lookup C18Run.Instance.orig = some (.file bytes 0o644) := by
  have h := C18_main _ env s0 _ name pname bytes oldt newt 0o644 0o644 [hk] (List.Perm.refl _)
    (spelled_flag_literal backup_mem rfl _ (.inr ⟨98, by decide, rfl⟩) (by decide)) ⟨rfl, rfl, rfl, rfl, rfl, rfl⟩ rfl
    (by decide) (by rw [RunB.str_orig]; exact RunB.notDir_of_none (by decide))
    (by decide) (by decide) rfl (by decide) (by decide) (by decide) rfl diffHunks (validB_sound _ _ _ _ (by decide))
  have e : name ++ str ".orig" = C18Run.Instance.orig := by rw [RunB.str_orig]; rfl
  have hm : Render.renderText .native (splice (splitLines bytes) 0 [hk]) = [97, 10, 66, 10, 99, 10] := by decide
  rw [e, hm] at h
  exact ⟨h.1, h.2.1, h.2.2.1⟩

/-- `-DX -i p.diff f`: `C20_main` applies -/
theorem applies_D (env : Env) :
    (patchMain [[45, 68, 88], [45, 105], pname, name] env s0).1 = 0 ∧
    (∃ c, (patchMain [[45, 68, 88], [45, 105], pname, name] env s0).2.fs.lookup name = some (.file c 0o644) ∧
      cppEval [88] true (splitLines c) = some [⟨[97], .lf⟩, ⟨[66], .lf⟩, ⟨[99], .lf⟩] ∧
      cppEval [88] false (splitLines c) = some [⟨[97], .lf⟩, ⟨[98], .lf⟩, ⟨[99], .lf⟩]) := by
  have hsp : Spelled optionTable [.opt optIfdef [88], .opt optInput pname, .operand name]
      [[45, 68, 88], [45, 105], pname, name] :=
    spelled3 (.optShortAtt optIfdef ifdef_mem rfl 68 (by decide) [88] (by decide))
      (.optShortSep optInput input_mem rfl 105 (by decide) pname) (.operand name (by decide))
  have h := C20_main _ env s0 _ name pname bytes [88] oldt newt 0o644 0o644 [hk] (List.Perm.refl _) hsp
    (by decide) (by decide) (by decide) ⟨rfl, rfl, rfl, rfl, rfl, rfl⟩ (by decide) (by decide) (by decide) rfl (by decide)
    (by decide) (by decide) rfl diffHunks (validB_sound _ _ _ _ (by decide))
    (by rw [C20Run.InstanceD.fileLines]; decide) (by decide)
    (by intro l hl; exact C20Run.notDirective_of_head? [88] l (by rw [C20Run.InstanceD.fileLines] at hl; revert l; decide))
    (by intro h hh pl hpl
        exact C20Run.notDirective_of_head? [88] pl.line (by
          simp only [List.mem_singleton] at hh; subst hh; revert pl; decide))
  have hm : splice (splitLines bytes) 0 [hk] = [⟨[97], .lf⟩, ⟨[66], .lf⟩, ⟨[99], .lf⟩] := by decide
  rw [hm, C20Run.InstanceD.fileLines] at h
  exact ⟨h.1, h.2.1⟩

/-- `-N -i p.diff f` on the tree that holds the new file: `C06_main` applies — exit status 1, `f` as it was, `f.rej` = the diff -/
theorem applies_N (env : Env) :
    (patchMain [[45, 78], [45, 105], pname, name] env C05.InstanceR.s0).1 = 1 ∧
    (patchMain [[45, 78], [45, 105], pname, name] env C05.InstanceR.s0).2.fs.lookup name =
      some (.file C05.InstanceR.newbytes 0o644) ∧
    (patchMain [[45, 78], [45, 105], pname, name] env C05.InstanceR.s0).2.fs.lookup C06Run.InstanceAgain.rej =
      some (.file (diffText name name oldt newt [hk]) 0o644) := by
  have e : name ++ str ".rej" = C06Run.InstanceAgain.rej := by rw [RunB.str_rej]; rfl
  have h := C06_main _ env C05.InstanceR.s0 _ name pname bytes C05.InstanceR.newbytes oldt newt 0o644 0o644 hk []
    (List.Perm.refl _) (spelled_flag_literal forward_mem rfl _ (.inr ⟨78, by decide, rfl⟩) (by decide))
    ⟨rfl, rfl, rfl, rfl, rfl, rfl⟩ rfl (by decide) (by rw [e]; decide) (by decide) (by decide) rfl (by decide) (by decide)
    (by decide) rfl diffHunks (validB_sound _ _ _ _ (by decide)) C05.InstanceR.holdsNew
    (C06Run.InstanceAgain.noLongerFits _ rfl rfl)
  have hm : renderLines .native (splitLines C05.InstanceR.newbytes) = C05.InstanceR.newbytes := by decide
  rw [e, hm] at h
  exact ⟨h.1, h.2.1, h.2.2.1⟩

/-- bad command lines on the same tree: `bad_command_line` applies -/
theorem bad_unknown (env : Env) : patchMain [[45, 105], pname, [45, 120], name] env s0 = (2, s0) := by
  -- "-x": no such option; it follows the words `-i p.diff`, so go through the parse directly
  apply patchMain_reject
  apply commandLine_parse_error optionTable _ env .cmdlineError
  decide +kernel

theorem bad_unknown_first (env : Env) : patchMain [[45, 120], [45, 105], pname, name] env s0 = (2, s0) :=
  bad_command_line _ env s0 (.unknownShort 120 (by decide) (by decide) [] [] _ (by simp))

theorem bad_ambiguous (env : Env) : patchMain [name, [45, 45, 105] ++ 61 :: pname] env s0 = (2, s0) :=
  bad_command_line _ env s0
    (.ambiguous optInput optIfdef input_mem ifdef_mem (by decide) [45, 45, 105] (by decide) (by decide) (by decide) (by decide)
      (61 :: pname) (.inr rfl) [name] [] (by decide))

theorem bad_missing (env : Env) : patchMain [name, [45, 105]] env s0 = (2, s0) :=
  bad_command_line _ env s0 (.missingArgument optInput input_mem rfl _ (.inr ⟨105, by decide, rfl⟩) [name] (by decide))

theorem bad_number (env : Env) : patchMain [name, [45, 70], [120], [45, 105], pname] env s0 = (2, s0) :=
  bad_command_line _ env s0
    (.notANumber optFuzz (.inl rfl) [120] (by decide) _ (.optShortSep optFuzz fuzz_mem rfl 70 (by decide) [120]) [name]
      [[45, 105], pname] (by decide))

theorem bad_third (env : Env) : patchMain [name, pname, [103]] env s0 = (2, s0) :=
  bad_command_line _ env s0 (.thirdOperand _ _ _ (by decide) (by decide) (by decide))

-- independently: the executable model (compiled evaluation: executable tests, not proofs)
#guard (patchMain [str "-i", str "p.diff", str "f"] {} s0).1 == 0
#guard (patchMain [str "-i", str "p.diff", str "f"] {} s0).2.fs.lookup (str "f") == some (.file (str "a\nB\nc\n") 0o644)
#guard (patchMain [str "-i", str "p.diff", str "f"] {} s0).2.fs.lookup (str "p.diff") == s0.fs.lookup (str "p.diff")
#guard (patchMain [str "-i", str "p.diff", str "f"] {} s0).2.fs.nodes.length == 2
-- other spellings, other orders
#guard [[str "-ip.diff", str "f"], [str "--input=p.diff", str "f"], [str "--input", str "p.diff", str "f"],
        [str "--inp=p.diff", str "f"], [str "--in", str "p.diff", str "f"], [str "f", str "-i", str "p.diff"],
        [str "f", str "--inpu=p.diff"], [str "-i", str "p.diff", str "--", str "f"], [str "f", str "p.diff"],
        [str "-u", str "-i", str "p.diff", str "f"]].all fun a =>
  (patchMain a {} s0).1 == 0 && (patchMain a {} s0).2.fs.lookup (str "f") == some (.file (str "a\nB\nc\n") 0o644)
-- the environment does not matter
#guard (patchMain argv { posixlyCorrect := true, quotingStyle := some (str "c") } s0).1 == 0 &&
  (patchMain argv { posixlyCorrect := true, quotingStyle := some (str "c") } s0).2.fs.lookup name ==
    some (.file (str "a\nB\nc\n") 0o644)
-- one more word
#guard (patchMain [str "--dry-run", str "-i", str "p.diff", str "f"] {} s0).1 == 0 &&
  (patchMain [str "--dry-run", str "-i", str "p.diff", str "f"] {} s0).2.fs.nodes == s0.fs.nodes
#guard (patchMain [str "f", str "-b", str "--input=p.diff"] {} s0).1 == 0 &&
  (patchMain [str "f", str "-b", str "--input=p.diff"] {} s0).2.fs.lookup (str "f.orig") == some (.file (str "a\nb\nc\n") 0o644)
#guard (patchMain [str "-i", str "p.diff", str "--rev", str "f"] {} C05.InstanceR.s0).1 == 0 &&
  (patchMain [str "-i", str "p.diff", str "--rev", str "f"] {} C05.InstanceR.s0).2.fs.lookup (str "f") ==
    some (.file (str "a\nb\nc\n") 0o644)
#guard (patchMain [str "-DX", str "-i", str "p.diff", str "f"] {} s0).1 == 0 &&
  (patchMain [str "-DX", str "-i", str "p.diff", str "f"] {} s0).2.fs.lookup (str "f") ==
    some (.file (str "a\n#ifndef X\nb\n#else\nB\n#endif\nc\n") 0o644)
#guard (patchMain [str "-N", str "-i", str "p.diff", str "f"] {} C05.InstanceR.s0).1 == 1 &&
  (patchMain [str "-N", str "-i", str "p.diff", str "f"] {} C05.InstanceR.s0).2.fs.lookup (str "f") ==
    some (.file (str "a\nB\nc\n") 0o644)
-- bad command lines: exit status 2, the tree as it was
#guard [[str "-i", str "p.diff", str "-x", str "f"], [str "--i=p.diff", str "f"], [str "f", str "-i"],
        [str "-F", str "x", str "-i", str "p.diff", str "f"], [str "-p", str " 1", str "-i", str "p.diff", str "f"],
        [str "f", str "p.diff", str "g"], [str "--reverse=yes", str "-i", str "p.diff", str "f"],
        [str "--nonsense", str "-i", str "p.diff", str "f"]].all fun a =>
  (patchMain a {} s0).1 == 2 && (patchMain a {} s0).2.fs.nodes == s0.fs.nodes && (patchMain a {} s0).2.trace == []
-- `OperandOk` is needed: the name "-f" is the option --force
#guard (commandLine optionTable [str "-i", str "p", str "-f"] {}).toOption.map (fun o => (o.fileToPatch, o.force)) == some ([], true)

end Instance

end PatchModel.C19Main

#print axioms PatchModel.C19Main.commandLine_plain_runOpts
#print axioms PatchModel.C19Main.C01_main
#print axioms PatchModel.C19Main.C01_main_spellings
#print axioms PatchModel.C19Main.C01_main_literal
#print axioms PatchModel.C19Main.C15_main
#print axioms PatchModel.C19Main.C05_main
#print axioms PatchModel.C19Main.C05_main_literal
#print axioms PatchModel.C19Main.C18_main
#print axioms PatchModel.C19Main.C20_main
#print axioms PatchModel.C19Main.C06_main
#print axioms PatchModel.C19Main.bad_command_line
#print axioms PatchModel.C19Main.needs_operandOk
#print axioms PatchModel.C19Main.Instance.applies
#print axioms PatchModel.C19Main.Instance.applies_spellings
#print axioms PatchModel.C19Main.Instance.applies_R
#print axioms PatchModel.C19Main.Instance.applies_dry
#print axioms PatchModel.C19Main.Instance.applies_b
#print axioms PatchModel.C19Main.Instance.applies_D
#print axioms PatchModel.C19Main.Instance.applies_N
#print axioms PatchModel.C19Main.Instance.bad_unknown
#print axioms PatchModel.C19Main.Instance.bad_ambiguous
#print axioms PatchModel.C19Main.Instance.bad_number
