/-
  Second wave, part 2: apply_patch level facts (C13 reject shift, C14 output sources, C03 for rejected hunks of a whole run).
-/
import PatchModel.Model.Driver
import PatchModel.Spec.Script
import PatchModel.Props.C02Apply
import PatchModel.Props.C03Step
import PatchModel.Props.C04
import PatchModel.Lemmas.ApplyLoop
namespace PatchModel.W2A
open PatchModel

/-! ### C13: the shift of the rejected hunks -/

/-- net growth of the hunks applied before hunk `i` -/
def growthBefore (hunks : List Hunk) (applied : List (Nat × Location)) (i : Nat) : Int :=
  ((applied.filter (·.1 < i)).map fun (j, _) => match hunks[j]? with
    | some h => h.new.count - h.old.count
    | none => 0).sum

theorem growthBefore_append (hunks : List Hunk) (a b : List (Nat × Location)) (i : Nat) :
    growthBefore hunks (a ++ b) i = growthBefore hunks a i + growthBefore hunks b i := by
  unfold growthBefore
  rw [List.filter_append, List.map_append, List.sum_append]

theorem growthBefore_single_lt {hunks : List Hunk} {j i : Nat} {l : Location} {h : Hunk} (hj : j < i)
    (hh : hunks[j]? = some h) : growthBefore hunks [(j, l)] i = h.new.count - h.old.count := by
  unfold growthBefore
  have : List.filter (fun x : Nat × Location => decide (x.1 < i)) [(j, l)] = [(j, l)] := by
    simp [hj]
  rw [this]
  simp [hh]

theorem growthBefore_single_ge (hunks : List Hunk) {j i : Nat} (l : Location) (hj : ¬ j < i) :
    growthBefore hunks [(j, l)] i = 0 := by
  unfold growthBefore
  have : List.filter (fun x : Nat × Location => decide (x.1 < i)) [(j, l)] = [] := by
    simp [hj]
  rw [this]
  rfl

/-- when all applied hunks come before `i`, a later bound sees the same hunks -/
theorem growthBefore_of_all_lt {hunks : List Hunk} {applied : List (Nat × Location)} {i i' : Nat}
    (hall : ∀ a ∈ applied, a.1 < i) (hle : i ≤ i') : growthBefore hunks applied i' = growthBefore hunks applied i := by
  unfold growthBefore
  have h1 : applied.filter (fun x => decide (x.1 < i)) = applied :=
    List.filter_eq_self.2 (fun a ha => by simpa using hall a ha)
  have h2 : applied.filter (fun x => decide (x.1 < i')) = applied :=
    List.filter_eq_self.2 (fun a ha => by have := hall a ha; simp; omega)
  rw [h1, h2]

/-- loop invariant for C13, `s` being the state before hunk number `num` -/
def ShiftInv (all : List Hunk) (num : Nat) (s : AState) : Prop :=
  (∀ a ∈ s.applied, a.1 < num) ∧ s.offNew = growthBefore all s.applied num ∧
  ∀ ih ∈ s.rejected, ih.1 < num ∧
    ∃ h, all[ih.1]? = some h ∧ ih.2 = Apply.shiftHunk h (growthBefore all s.applied ih.1)

theorem finishHunk_shiftInv {file : List Line} {o : ApplyOpts} {p : Patch} {s s' : AState} {num : Nat} {h : Hunk}
    {loc : Option Location} {all : List Hunk} (hnum : all[num]? = some h) (hinv : ShiftInv all num s)
    (hs : finishHunk file o p s num h loc = .ok s') : ShiftInv all (num + 1) s' := by
  obtain ⟨ha, hoff, hrej⟩ := hinv
  rcases ApplyLoop.finishHunk_ok' hs with ⟨l, _, _, _, _, _, _, _, _, _, happ, hrj, _, hoff'⟩ |
      ⟨_, _, _, _, happ, hrj, _, hoff'⟩
  · refine ⟨?_, ?_, ?_⟩
    · intro a hm
      rw [happ] at hm
      rcases List.mem_append.1 hm with hm | hm
      · have := ha a hm; omega
      · rw [List.mem_singleton.1 hm]; exact Nat.lt_succ_self _
    · rw [hoff', happ, growthBefore_append, growthBefore_single_lt (Nat.lt_succ_self _) hnum,
        growthBefore_of_all_lt ha (Nat.le_succ _), hoff]
    · intro ih hm
      rw [hrj] at hm
      obtain ⟨hlt, h0, hh0, he⟩ := hrej ih hm
      refine ⟨by omega, h0, hh0, ?_⟩
      rw [happ, growthBefore_append, growthBefore_single_ge all l (by omega), Int.add_zero]
      exact he
  · refine ⟨?_, ?_, ?_⟩
    · intro a hm
      rw [happ] at hm
      have := ha a hm; omega
    · rw [hoff', happ, growthBefore_of_all_lt ha (Nat.le_succ _), hoff]
    · intro ih hm
      rw [hrj] at hm
      rw [happ]
      rcases List.mem_append.1 hm with hm | hm
      · obtain ⟨hlt, h0, hh0, he⟩ := hrej ih hm
        exact ⟨by omega, h0, hh0, he⟩
      · rw [List.mem_singleton.1 hm]
        exact ⟨Nat.lt_succ_self _, h, hnum, by rw [hoff]⟩

/-- **C13 reject shift**: the start lines of a rejected hunk are the stated ones shifted by exactly the net growth of the hunks that
    were applied before it (and nothing else: hunks skipped or rejected do not count) -/
theorem reject_shift (file : List Line) (p0 : Patch) (o : ApplyOpts) (tty : Option (List Bool)) (r : ApplyResult)
    (hr : applyPatch file p0 o tty = .ok r) :
    ∀ ih ∈ r.rejected, ∃ h, r.patch.hunks[ih.1]? = some h ∧
      ih.2.old.start = h.old.start + growthBefore r.patch.hunks r.applied ih.1 ∧
      ih.2.new.start = h.new.start + growthBefore r.patch.hunks r.applied ih.1 := by
  obtain ⟨s3, hinv, hres, _⟩ := ApplyLoop.applyPatch_induct hr (ShiftInv r.patch.hunks)
    (by
      intro s1 hi h0
      refine ⟨?_, ?_, ?_⟩
      · intro a hm; rw [hi.applied] at hm; cases hm
      · rw [h0, hi.applied]; rfl
      · intro ih hm; rw [hi.rejected] at hm; cases hm)
    (fun s s' num h hnum hinv hs => finishHunk_shiftInv hnum hinv hs)
  intro ih hm
  have hrj : r.rejected = s3.rejected := by rw [hres]; rfl
  have hap : r.applied = s3.applied := by rw [hres]; rfl
  rw [hrj] at hm
  obtain ⟨_, h, hh, he⟩ := hinv.2.2 ih hm
  refine ⟨h, hh, ?_, ?_⟩
  · rw [he, hap]; rfl
  · rw [he, hap]; rfl

/-! ### C14: where the output comes from -/

theorem copyRange_sources (file : List Line) : ∀ n c, ∀ x ∈ copyRange file c n,
    ∃ i l, x = Out.fromFile i l ∧ file[i]? = some l := by
  intro n
  induction n with
  | zero => intro c x hx; rw [Splice.copyRange_zero] at hx; cases hx
  | succ n ih =>
    intro c x hx
    rw [Splice.copyRange_succ] at hx
    split at hx
    · cases hx
    · next l hl =>
      rcases List.mem_cons.1 hx with hx | hx
      · exact ⟨c, l, hx, hl⟩
      · exact ih (c + 1) x hx

theorem hunkOutput_sources (file : List Line) : ∀ ls p, ∀ x ∈ hunkOutput file ls p,
    (∃ i l, x = Out.fromFile i l ∧ file[i]? = some l) ∨
    (∃ pl ∈ ls, pl.op = PLUS ∧ x = Out.fromPatch pl.line) := by
  intro ls
  induction ls with
  | nil => intro p x hx; cases hx
  | cons pl rest ih =>
    intro p x hx
    have lift : ∀ q, x ∈ hunkOutput file rest q →
        (∃ i l, x = Out.fromFile i l ∧ file[i]? = some l) ∨
        (∃ pl' ∈ pl :: rest, pl'.op = PLUS ∧ x = Out.fromPatch pl'.line) := by
      intro q hq
      rcases ih q x hq with h | ⟨pl', hm, h1, h2⟩
      · exact Or.inl h
      · exact Or.inr ⟨pl', List.mem_cons_of_mem _ hm, h1, h2⟩
    rw [hunkOutput] at hx
    split at hx
    · next hp =>
      rcases List.mem_cons.1 hx with hx | hx
      · exact Or.inr ⟨pl, List.mem_cons_self .., by simpa using hp, hx⟩
      · exact lift p hx
    · split at hx
      · rcases List.mem_append.1 hx with hx | hx
        · split at hx
          · next l hl =>
            rw [List.mem_singleton.1 hx]
            exact Or.inl ⟨p, l, rfl, hl⟩
          · cases hx
        · exact lift (p + 1) hx
      · exact lift (p + 1) hx

theorem spliceAt_sources (file : List Line) : ∀ (pls : List (Hunk × Nat)) (c : Nat), ∀ x ∈ spliceAt file c pls,
    (∃ i l, x = Out.fromFile i l ∧ file[i]? = some l) ∨
    (∃ hp ∈ pls, ∃ pl ∈ hp.1.lines, pl.op = PLUS ∧ x = Out.fromPatch pl.line) := by
  intro pls
  induction pls with
  | nil => intro c x hx; rw [Splice.spliceAt_nil] at hx; exact Or.inl (copyRange_sources file _ _ x hx)
  | cons hp rest ih =>
    intro c x hx
    obtain ⟨h, p⟩ := hp
    rw [Splice.spliceAt_cons] at hx
    rcases List.mem_append.1 hx with hx | hx
    · rcases List.mem_append.1 hx with hx | hx
      · exact Or.inl (copyRange_sources file _ _ x hx)
      · rcases hunkOutput_sources file _ _ x hx with h1 | ⟨pl, hm, h1, h2⟩
        · exact Or.inl h1
        · exact Or.inr ⟨(h, p), List.mem_cons_self .., pl, hm, h1, h2⟩
    · rcases ih _ x hx with h1 | ⟨hp', hm, h1⟩
      · exact Or.inl h1
      · exact Or.inr ⟨hp', List.mem_cons_of_mem _ hm, h1⟩

/-- **C14 preserve at apply_patch level**: without -D every item of the output is either an original line of the file with its own bytes
    and terminator, or an added line of an applied hunk with the terminator it has in the patch -/
theorem output_sources (file : List Line) (p0 : Patch) (o : ApplyOpts) (tty : Option (List Bool)) (r : ApplyResult)
    (hwf : ∀ h ∈ p0.hunks, h.WF) (hD : o.define = []) (hr : applyPatch file p0 o tty = .ok r) :
    ∀ x ∈ r.out,
      (∃ i l, x = Out.fromFile i l ∧ file[i]? = some l) ∨
      (∃ h ∈ r.patch.hunks, ∃ pl ∈ h.lines, pl.op = PLUS ∧ x = Out.fromPatch pl.line) := by
  obtain ⟨pls, hout, _, _, hmem, _⟩ := C02.C02_apply file p0 o tty r hwf hD hr
  intro x hx
  rw [hout] at hx
  rcases spliceAt_sources file pls 0 x hx with h | ⟨hp, hm, h1⟩
  · exact Or.inl h
  · exact Or.inr ⟨hp.1, (hmem hp hm).1, h1⟩

/-! ### C03 for the rejected hunks of a whole run -/

/-- the cursor (`line_number`, relative to the old file) when the turn of hunk `i` comes: the end of the old side of the
    last hunk applied before it — or the end of the file, if that hunk reaches beyond it (D99: context at the end of a hunk which
    fuzz ignores need not be in the file; `nextCursor`) —, 0 if there is none -/
def cursorBefore (file : List Line) (hunks : List Hunk) (applied : List (Nat × Location)) (i : Nat) : Nat :=
  match (applied.filter (·.1 < i)).getLast? with
  | none => 0
  | some (j, l) => (match hunks[j]? with
    | some h => nextCursor file h l.line.toNat
    | none => l.line.toNat)

theorem cursorBefore_of_all_lt {file : List Line} {hunks : List Hunk} {applied : List (Nat × Location)} {i i' : Nat}
    (hall : ∀ a ∈ applied, a.1 < i) (hle : i ≤ i') :
    cursorBefore file hunks applied i' = cursorBefore file hunks applied i := by
  unfold cursorBefore
  have h1 : applied.filter (fun x => decide (x.1 < i)) = applied :=
    List.filter_eq_self.2 (fun a ha => by simpa using hall a ha)
  have h2 : applied.filter (fun x => decide (x.1 < i')) = applied :=
    List.filter_eq_self.2 (fun a ha => by have := hall a ha; simp; omega)
  rw [h1, h2]

theorem cursorBefore_snoc_ge (file : List Line) (hunks : List Hunk) (applied : List (Nat × Location)) {j i : Nat} (l : Location)
    (hj : ¬ j < i) : cursorBefore file hunks (applied ++ [(j, l)]) i = cursorBefore file hunks applied i := by
  unfold cursorBefore
  have : List.filter (fun x : Nat × Location => decide (x.1 < i)) [(j, l)] = [] := by
    simp [hj]
  rw [List.filter_append, this, List.append_nil]

theorem cursorBefore_snoc_lt {file : List Line} {hunks : List Hunk} (applied : List (Nat × Location)) {j i : Nat} (l : Location)
    {h : Hunk} (hj : j < i) (hh : hunks[j]? = some h) :
    cursorBefore file hunks (applied ++ [(j, l)]) i = nextCursor file h l.line.toNat := by
  unfold cursorBefore
  have : List.filter (fun x : Nat × Location => decide (x.1 < i)) [(j, l)] = [(j, l)] := by
    simp [hj]
  rw [List.filter_append, this, List.getLast?_concat]
  simp only [hh]

/-- loop invariant for C03 (when the run is not in the skip state), `s` being the state before hunk number `num` -/
def NoPlaceInv (file : List Line) (o : ApplyOpts) (all : List Hunk) (num : Nat) (s : AState) : Prop :=
  s.skip = false →
    (∀ a ∈ s.applied, a.1 < num) ∧ s.cursor = cursorBefore file all s.applied num ∧ s.cursor ≤ file.length ∧
    ∀ ih ∈ s.rejected, ih.1 < num ∧ ∃ h, all[ih.1]? = some h ∧
      cursorBefore file all s.applied ih.1 ≤ file.length ∧
      (h.old.count ≠ 0 → ∀ q f, cursorBefore file all s.applied ih.1 ≤ q →
        admissibleB file h o.ignoreWhitespace o.maxFuzz q f = false)

theorem finishHunk_noPlaceInv {file : List Line} {o : ApplyOpts} {p : Patch} {s s' : AState} {num : Nat} {h : Hunk}
    {all : List Hunk} (hwf : h.WF) (hD : o.define = []) (hnum : all[num]? = some h)
    (hinv : NoPlaceInv file o all num s)
    (hs : finishHunk file o p s num h (locateHunk file h o.ignoreWhitespace s.offErr o.maxFuzz s.cursor) = .ok s') :
    NoPlaceInv file o all (num + 1) s' := by
  intro hsk'
  rcases ApplyLoop.finishHunk_ok' hs with ⟨l, emitted, cur, hsk, hl, _, hw, _, hcur, _, happ, hrj, _, _⟩ |
      ⟨hno, _, hcur, _, happ, hrj, hsk, _⟩
  · obtain ⟨ha, hc, hcl, hrej⟩ := hinv hsk
    obtain ⟨q, hq, hge, hfit, htail, _⟩ := C02.locatorSound file o.ignoreWhitespace o.maxFuzz h s.offErr s.cursor hwf l hl
    have hq' : l.line.toNat = q := by omega
    rw [hD, Apply.writeHunkD_nil, hq', Splice.writeHunk_eq_min file h.lines q hwf.1 hfit htail] at hw
    cases hw
    refine ⟨?_, ?_, ?_, ?_⟩
    · intro a hm
      rw [happ] at hm
      rcases List.mem_append.1 hm with hm | hm
      · have := ha a hm; omega
      · rw [List.mem_singleton.1 hm]; exact Nat.lt_succ_self _
    · rw [hcur, happ, cursorBefore_snoc_lt s.applied l (Nat.lt_succ_self _) hnum, hq']; rfl
    · rw [hcur]; exact Nat.min_le_right _ _
    · intro ih hm
      rw [hrj] at hm
      obtain ⟨hlt, h0, hh0, he⟩ := hrej ih hm
      refine ⟨by omega, h0, hh0, ?_⟩
      rw [happ, cursorBefore_snoc_ge file all s.applied l (by omega)]
      exact he
  · have hsk0 : s.skip = false := by rw [← hsk]; exact hsk'
    obtain ⟨ha, hc, hcl, hrej⟩ := hinv hsk0
    have hnone : locateHunk file h o.ignoreWhitespace s.offErr o.maxFuzz s.cursor = none := by
      rcases hno with hno | hno
      · rw [hsk0] at hno; cases hno
      · exact hno
    refine ⟨?_, ?_, ?_, ?_⟩
    · intro a hm
      rw [happ] at hm
      have := ha a hm; omega
    · rw [hcur, happ, cursorBefore_of_all_lt ha (Nat.le_succ _)]; exact hc
    · rw [hcur]; exact hcl
    · intro ih hm
      rw [hrj] at hm
      rw [happ]
      rcases List.mem_append.1 hm with hm | hm
      · obtain ⟨hlt, hrest⟩ := hrej ih hm
        exact ⟨by omega, hrest⟩
      · rw [List.mem_singleton.1 hm]
        refine ⟨Nat.lt_succ_self _, h, hnum, ?_, ?_⟩
        · show cursorBefore file all s.applied num ≤ file.length
          rw [← hc]; exact hcl
        · intro hcnt q f hq
          show admissibleB file h o.ignoreWhitespace o.maxFuzz q f = false
          cases hadm : admissibleB file h o.ignoreWhitespace o.maxFuzz q f
          · rfl
          · have hq' : s.cursor ≤ q := by rw [hc]; exact hq
            obtain ⟨loc, hloc, _⟩ := C03.locate_complete file h o.ignoreWhitespace s.offErr o.maxFuzz s.cursor q f
              hwf hcnt hq' hadm
            rw [hnone] at hloc; cases hloc

/-- **C03 for the whole loop, with the cursor named**: if the run is not in the "skip" state, every hunk that was rejected had no
    admissible placement, at any permitted fuzz, at or after the end of the last hunk applied before it -/
theorem rejected_had_no_placement_at (file : List Line) (p0 : Patch) (o : ApplyOpts) (tty : Option (List Bool)) (r : ApplyResult)
    (hwf : ∀ h ∈ p0.hunks, h.WF) (hD : o.define = []) (hr : applyPatch file p0 o tty = .ok r) (hs : r.skipped = false) :
    ∀ ih ∈ r.rejected, ∃ h, r.patch.hunks[ih.1]? = some h ∧
      cursorBefore file r.patch.hunks r.applied ih.1 ≤ file.length ∧
      (h.old.count ≠ 0 → ∀ q f, cursorBefore file r.patch.hunks r.applied ih.1 ≤ q →
        admissibleB file h o.ignoreWhitespace o.maxFuzz q f = false) := by
  have hwf' : ∀ h ∈ r.patch.hunks, h.WF := by
    obtain ⟨_, _, _, hp⟩ := ApplyLoop.applyPatch_induct hr (fun _ _ => True) (fun _ _ _ => trivial)
      (fun _ _ _ _ _ _ _ => trivial)
    exact Apply.hunks_WF_of_cases hwf hp
  obtain ⟨s3, hinv, hres, _⟩ := ApplyLoop.applyPatch_induct hr (NoPlaceInv file o r.patch.hunks)
    (by
      intro s1 hi _ _
      refine ⟨?_, ?_, ?_, ?_⟩
      · intro a hm; rw [hi.applied] at hm; cases hm
      · rw [hi.cursor, hi.applied]; rfl
      · rw [hi.cursor]; exact Nat.zero_le _
      · intro ih hm; rw [hi.rejected] at hm; cases hm)
    (fun s s' num h hnum hinv hs =>
      finishHunk_noPlaceInv (hwf' h (List.mem_of_getElem? hnum)) hD hnum hinv hs)
  intro ih hm
  have hrj : r.rejected = s3.rejected := by rw [hres]; rfl
  have hap : r.applied = s3.applied := by rw [hres]; rfl
  have hsk : s3.skip = false := by rw [← hs, hres]; rfl
  rw [hrj] at hm
  obtain ⟨_, h, hh, he⟩ := (hinv hsk).2.2.2 ih hm
  rw [hap]
  exact ⟨h, hh, he⟩

/-- **C03 for the whole loop**: if the run is not in the "skip" state, every hunk that was rejected had no admissible placement in the
    part of the file not yet consumed when its turn came: there is a cursor position (the end of the hunks applied before it) from
    which no placement at any permitted fuzz existed -/
theorem rejected_had_no_placement (file : List Line) (p0 : Patch) (o : ApplyOpts) (tty : Option (List Bool)) (r : ApplyResult)
    (hwf : ∀ h ∈ p0.hunks, h.WF) (hD : o.define = []) (hr : applyPatch file p0 o tty = .ok r) (hs : r.skipped = false) :
    ∀ ih ∈ r.rejected, ∃ h c, r.patch.hunks[ih.1]? = some h ∧ c ≤ file.length ∧
      (h.old.count ≠ 0 → ∀ q f, c ≤ q → admissibleB file h o.ignoreWhitespace o.maxFuzz q f = false) := by
  intro ih hm
  obtain ⟨h, hh, hc, hno⟩ := rejected_had_no_placement_at file p0 o tty r hwf hD hr hs ih hm
  exact ⟨h, _, hh, hc, hno⟩

/-- remark: no placement exists beyond the end of the file (`admissibleB` says so itself: what fuzz ignores at the end of a hunk is
    part of its old side; the two hypotheses on the hunk are not needed).  Since D109 the end of the file itself IS a position (for a
    hunk whose whole old side is trailing context which fuzz ignores — `C03.D99.eof_admissible` in Props/C03Step), so the hypothesis
    is `file.length < q` (it was `file.length ≤ q` between D99 and D109), and `c = file.length` no longer satisfies the statement
    above for free; `rejected_had_no_placement_at` is the statement that names the cursor -/
theorem no_placement_at_end {file : List Line} {h : Hunk} (iw : Bool) (maxFuzz : Int) {q : Nat} (f : Nat)
    (_hwf : h.WF) (_hc : h.old.count ≠ 0) (hq : file.length < q) : admissibleB file h iw maxFuzz q f = false := by
  cases hadm : admissibleB file h iw maxFuzz q f
  · rfl
  · have h1 := (C02.admissibleB_fit hadm).2
    omega

/-! ### non-vacuity: a run with an applied hunk that grows the file, a rejected hunk, and another applied hunk -/

namespace Ex
def ln (c : UInt8) : Line := ⟨[c], .lf⟩
/-- a b c d e -/
def file : List Line := [ln 97, ln 98, ln 99, ln 100, ln 101]
/-- `@@ -1,2 +1,4 @@`: adds x y between a and b (growth +2) -/
def h0 : Hunk := ⟨⟨1, 2⟩, ⟨1, 4⟩, [⟨SP, ln 97⟩, ⟨PLUS, ln 120⟩, ⟨PLUS, ln 121⟩, ⟨SP, ln 98⟩]⟩
/-- `@@ -1,2 +1,1 @@`: removes b after a; its only place is line 1, which hunk 0 has consumed -/
def h1 : Hunk := ⟨⟨1, 2⟩, ⟨1, 1⟩, [⟨SP, ln 97⟩, ⟨MINUS, ln 98⟩]⟩
/-- `@@ -4,2 +4,1 @@`: removes e after d (growth -1, applied after the reject: must not count) -/
def h2 : Hunk := ⟨⟨4, 2⟩, ⟨4, 1⟩, [⟨SP, ln 100⟩, ⟨MINUS, ln 101⟩]⟩
def patch : Patch := { hunks := [h0, h1, h2] }

theorem patch_WF : ∀ h ∈ patch.hunks, h.WF := by
  intro h hm
  simp only [patch, List.mem_cons, List.not_mem_nil, or_false] at hm
  rcases hm with rfl | rfl | rfl <;> (unfold Hunk.WF; decide)

/-- `reject_shift`: hunk 1 is rejected after hunk 0 was applied; it is stated at 1/1 and saved at 3/3, the growth before it is +2
    (the -1 of hunk 2, applied later, is not included) -/
example : ∃ r, applyPatch file patch {} none = .ok r ∧
    r.applied.map (·.1) = [0, 2] ∧
    r.rejected.map (fun ih => (ih.1, ih.2.old.start, ih.2.new.start)) = [(1, 3, 3)] ∧
    r.patch.hunks.map (fun h => (h.old.start, h.new.start)) = [(1, 1), (1, 1), (4, 4)] ∧
    growthBefore r.patch.hunks r.applied 1 = 2 ∧ growthBefore r.patch.hunks r.applied 3 = 1 :=
  ⟨_, rfl, by decide⟩

/-- `output_sources`: the output has items of both kinds -/
example : ∃ r, applyPatch file patch {} none = .ok r ∧ ({} : ApplyOpts).define = [] ∧
    r.out = [.fromFile 0 (ln 97), .fromPatch (ln 120), .fromPatch (ln 121), .fromFile 1 (ln 98), .fromFile 2 (ln 99),
      .fromFile 3 (ln 100)] :=
  ⟨_, rfl, by decide⟩

/-- `rejected_had_no_placement(_at)`: the run does not skip, hunk 1 is rejected, the cursor at its turn is 2 (the end of hunk 0), the
    hunk has an old side and *has* an admissible placement before the cursor (at 0, fuzz 0), none from the cursor on -/
example : ∃ r, applyPatch file patch {} none = .ok r ∧ r.skipped = false ∧ ({} : ApplyOpts).define = [] ∧
    r.rejected.map (·.1) = [1] ∧ r.patch.hunks[1]? = some h1 ∧ h1.old.count ≠ 0 ∧
    cursorBefore file r.patch.hunks r.applied 1 = 2 ∧
    admissibleB file h1 false 2 0 0 = true ∧
    (∀ q < 7, ∀ f < 4, 2 ≤ q → admissibleB file h1 false 2 q f = false) :=
  ⟨_, rfl, by decide⟩

/-- D99 and the cursor: the hunk of `C03.D99` (placed at index 1 with fuzz 1, old side of 4 lines, file of 4 lines) is followed by a hunk
    that removes a line `x` which the file does not have.  The second hunk is rejected; the cursor at its turn is the end of the file
    (4), not "the end of the old side of the hunk before" (1 + 4 = 5: there is no such line) — which is why `cursorBefore` is
    stated with `nextCursor` -/
example : ∃ r, applyPatch C03.D99.file { hunks := [C03.D99.hunk, ⟨⟨1, 1⟩, ⟨1, 0⟩, [⟨MINUS, ln 120⟩]⟩] } {} none = .ok r ∧
    r.skipped = false ∧ r.applied = [(0, ⟨1, 1, 0⟩)] ∧ r.rejected.map (·.1) = [1] ∧
    cursorBefore C03.D99.file r.patch.hunks r.applied 1 = 4 ∧ C03.D99.file.length = 4 ∧
    1 + (oldOf C03.D99.hunk.lines).length = 5 :=
  ⟨_, rfl, by decide⟩

end Ex

end PatchModel.W2A

#print axioms PatchModel.W2A.reject_shift
#print axioms PatchModel.W2A.output_sources
#print axioms PatchModel.W2A.rejected_had_no_placement_at
#print axioms PatchModel.W2A.rejected_had_no_placement
#print axioms PatchModel.W2A.no_placement_at_end
