/-
  C20 end to end — `-D SYM`, for the whole modelled program (`runPatch` = `main` after option parsing) on the TEXT of a unified diff:

      patch -D SYM [-u] [-pN] [-F n] [--newline-output=native|lf|keep] -i pname name

  The situation of `C01.C01_run` (tree with the writable target `name` — content `bytes`, mode `m` — and the patch file `pname`
  whose content is the text of a unified diff with the hunks `hs`, a `Valid` script of `splitLines bytes`), but with
  `o.define = sym ≠ []` (`C01.PlainOpts.noDefine` is gone: `DefOpts`).  Then (`C20_run_filler`, `C20_run`): the exit status is 0;
  the target holds — with its old mode — a content `c` such that, READ BACK AS LINES (`splitLines c`),

      cppEval sym true  (splitLines c) = some (splice (splitLines bytes) 0 hs)      -- SYM defined: the new file
      cppEval sym false (splitLines c) = some (splitLines bytes)                    -- SYM not defined: the old file

  (`cppEval` = the four-directive preprocessor of Spec/Cpp.lean; `some`: every conditional that is opened is closed); no other
  path of the tree differs.  (`c` is `render o.newlineOutput` of what the applier put out; for the instance below it is
  "a\n#ifndef X\nb\n#else\nB\n#endif\nc\n".)

  Composition of `RunV.applyPatch_define_full` (= `C20.C20_merge`, re-proved with the rest of the applier's verdict — nothing
  rejected, nothing said, no question, the run "perfect" — and with the invariant "every line written is LF-plain"),
  `RunR.splitLines_renderLines_lf` (LF-plain lines written by a mode other than `crlf` are read back as they were),
  `Section.processSection_clean` and `C01.runPatch_of_section`.

  Side conditions in addition to those of `C01_run`, and why:
  * the file and the patch are LF text: every line of `splitLines bytes` and every hunk line is terminated by LF (`hfileLF`,
    `hpatchLF`) — for a last line without newline the statement as it stands is false, by design of the output, not by defect: the
    preprocessor directives need lines of their own, so `write_define_hunk` terminates an unterminated line before a directive,
    and the evaluation gives `B LF` where the new file has `B` without newline (`Scope.unterminated`, evaluated);
  * `o.newlineOutput ≠ .crlf` — REQUIRED for the read-back: with `=crlf` the LF lines are written with CR LF and read back as CR LF
    lines, which are not the lines of the new file (`Scope.crlf`, evaluated; the evaluation of what the applier put out is still
    right — `C20_merge` —, it is the comparison of re-read lines with `splice …` that fails);
  * no line of the file or of the patch is one of the four directives for `sym` (`hfileD`, `hpatchD`) — REQUIRED, inherent to
    `-D` (`Scope.directiveInFile`: a file that contains the line `#endif`; the merged output is unbalanced, `cppEval … = none`);
  * `NL ∉ sym` and `sym` does not end in CR (`hsnl`, `hscr`) — REQUIRED for the read-back: `-D $'X\nY'` writes the directive
    `#ifdef X⏎Y`, which is read back as two lines (`Scope.symWithNewline`, evaluated).  Garbage in, not a defect.
  None of these is a defect of the C++ code.
-/
import PatchModel.Props.C01Run
import PatchModel.Props.C20
import PatchModel.Lemmas.RunV
namespace PatchModel.C20Run
open PatchModel PatchModel.Section PatchModel.Run PatchModel.DriverFacts PatchModel.RunV PatchModel.C01 PatchModel.Cpp

/-- `C01.PlainOpts` with `-D sym` in place of `noDefine` -/
structure DefOpts (o : Options) (p sym : Bytes) : Prop where
  operand : o.fileToPatch = p
  noOut : o.outFile = []
  noBackup : o.saveBackup = false
  noReverse : o.reverse = false
  define : o.define = sym
  fuzz : 0 ≤ o.maxFuzz
  quiet : o.verbose = false

/-- the options of the run: `patch -D sym [-u] [-pN] [-F n] [--newline-output=…] -i pname name` -/
structure RunOptsD (o : Options) (name pname sym : Bytes) : Prop where
  plain : DefOpts o name sym
  file : FileOpts o pname

/-- LF text: every line is terminated by LF (so the content has no CR at its end: it would be a CR LF line) -/
theorem lfPlain_of_splitLines (bytes : Bytes) (h : ∀ l ∈ splitLines bytes, l.newline = .lf) :
    ∀ l ∈ splitLines bytes, lfPlain l = true := by
  intro l hl
  have h1 := C14.splitLines_noNL bytes l hl
  have h2 := C14.splitLines_lf_noCR bytes l hl (h l hl)
  unfold lfPlain plainLine
  rw [h l hl]
  simp only [beq_self_eq_true, Bool.true_and, Bool.and_eq_true, Bool.not_eq_true', bne_iff_ne, ne_eq]
  exact ⟨by simpa using h1, h2⟩

/-- the lines of writable hunks are plain; terminated by LF they are LF-plain -/
theorem lfPlain_of_writable {hs : List Hunk} (hw : ∀ h ∈ hs, h.writable = true)
    (hlf : ∀ h ∈ hs, ∀ pl ∈ h.lines, pl.line.newline = .lf) : ∀ h ∈ hs, ∀ pl ∈ h.lines, lfPlain pl.line = true := by
  intro h hh pl hpl
  obtain ⟨_, _, _, _, hplain, _⟩ := Unified.writable_spec h (hw h hh)
  unfold lfPlain
  rw [hlf h hh pl hpl, hplain pl hpl]; rfl

section
variable {o : Options} {s0 : DState} {name pname bytes sym : Bytes} {m pm : Nat}
  {filler : List Line} {old new oldt newt : Bytes} {hs : List Hunk}

/-- header scan, body parse and the applier's verdict for the one section of the diff, under `-D sym` -/
theorem defineSection_of_diff (ho : RunOptsD o name pname sym) (hsym : sym ≠ []) (hsnl : NL ∉ sym)
    (hscr : sym.getLast? ≠ some CR) (hs0 : CleanStart s0) (hname : name ≠ [])
    (htarget : s0.fs.lookup name = some (.file bytes m)) (hw : m &&& writeMask ≠ 0)
    (hd : UnifiedDiff filler old new oldt newt hs) (hvalid : Valid (splitLines bytes) 0 0 hs)
    (hfileLF : ∀ l ∈ splitLines bytes, l.newline = .lf)
    (hpatchLF : ∀ h ∈ hs, ∀ pl ∈ h.lines, pl.line.newline = .lf)
    (hfileD : ∀ l ∈ splitLines bytes, notDirective sym l)
    (hpatchD : ∀ h ∈ hs, ∀ pl ∈ h.lines, notDirective sym pl.line) :
    ∃ patch0 info par1 par2 r,
      PlainSection o (forced o) (loopStart s0 (diffLines filler old new oldt newt hs)) name bytes m patch0
        { patch0 with hunks := hs } info par1 par2 r ∧
      cppEval sym true (r.out.map Out.line) = some (splice (splitLines bytes) 0 hs) ∧
      cppEval sym false (r.out.map Out.line) = some (splitLines bytes) ∧
      (∀ l ∈ r.out.map Out.line, lfPlain l = true) ∧
      par2.s.eof = true := by
  have hfl : ∀ l ∈ filler, l.newline ≠ .none := by
    intro l hl
    have := hd.fillerPlain l hl
    unfold lfPlain at this
    simp only [Bool.and_eq_true, beq_iff_eq] at this
    rw [this.1]; simp
  have hfmt : forced o = .unknown ∨ forced o = .unified := by
    unfold forced; split
    · exact Or.inr rfl
    · exact Or.inl rfl
  obtain ⟨patch0, info, par1, par2, hhdr, hf, hop, hpre, _, hnm, _, hbody, heof⟩ :=
    parse_diffLines o.strip (forced o) hfmt filler old new oldt newt hs 1 hd.fillerInert hfl hd.oldName.1 hd.newName.1
      hd.oldStamp.1 hd.newStamp.1 hd.nonEmpty hd.writable hd.change
  obtain ⟨r, hap, he1, he0, hgood, hrfail, hrperf, hrskip, hrmsgs, hrtty, hrpatch⟩ :=
    applyPatch_define_full (splitLines bytes) hs { patch0 with hunks := hs } (applyOptsOf o)
      (Option.map (fun l => List.map (fun a => !List.isEmpty a && List.head? a != some 110) l) s0.tty) sym
      hvalid rfl hsym (symOk_of hsnl hscr) ho.plain.define ho.plain.noReverse ho.plain.quiet ho.plain.fuzz
      (lfPlain_of_splitLines bytes hfileLF) (lfPlain_of_writable hd.writable hpatchLF) hfileD hpatchD
  refine ⟨patch0, info, par1, par2, r, ?_, he1, he0, hgood, heof⟩
  exact {
    operand := ho.plain.operand, noOut := ho.plain.noOut, noBackup := ho.plain.noBackup, pathNe := hname, cwd := hs0.cwd,
    hdr := hhdr, fmt := Or.inl hf, op := hop, pre := hpre, body := hbody, fmt2 := rfl, op2 := hop, newMode2 := hnm,
    file := htarget, writable := hw, root := hs0.root, noFault := hs0.noFault, apply := hap, failed := hrfail,
    perfect := hrperf, skipped := hrskip, msgs := hrmsgs, ttyLeft := hrtty, patch := hrpatch }

/-- **C20, the whole program on the text of a unified diff, `-D sym`** (inert filler allowed in front of the header; the target
    may sit in a directory of the tree) -/
theorem C20_run_filler (ho : RunOptsD o name pname sym) (hsym : sym ≠ []) (hsnl : NL ∉ sym) (hscr : sym.getLast? ≠ some CR)
    (hmode : o.newlineOutput ≠ .crlf) (hreal : o.dryRun = false) (hs0 : CleanStart s0)
    (hname : name ≠ []) (hdir : s0.fs.dirExists (parentOf name) = true) (hpn : pname ≠ []) (hpd : pname ≠ [45])
    (htarget : s0.fs.lookup name = some (.file bytes m)) (hw : m &&& writeMask ≠ 0)
    (hpatch : s0.fs.lookup pname = some (.file (patchText filler old new oldt newt hs) pm))
    (hd : UnifiedDiff filler old new oldt newt hs) (hvalid : Valid (splitLines bytes) 0 0 hs)
    (hfileLF : ∀ l ∈ splitLines bytes, l.newline = .lf)
    (hpatchLF : ∀ h ∈ hs, ∀ pl ∈ h.lines, pl.line.newline = .lf)
    (hfileD : ∀ l ∈ splitLines bytes, notDirective sym l)
    (hpatchD : ∀ h ∈ hs, ∀ pl ∈ h.lines, notDirective sym pl.line) :
    (runPatch o s0).1 = 0 ∧
    (∃ c, (runPatch o s0).2.fs.lookup name = some (.file c m) ∧
      cppEval sym true (splitLines c) = some (splice (splitLines bytes) 0 hs) ∧
      cppEval sym false (splitLines c) = some (splitLines bytes)) ∧
    ∀ q, q ≠ name → (runPatch o s0).2.fs.lookup q = s0.fs.lookup q := by
  obtain ⟨patch0, info, par1, par2, r, H, he1, he0, hgood, heof⟩ :=
    defineSection_of_diff ho hsym hsnl hscr hs0 hname htarget hw hd hvalid hfileLF hpatchLF hfileD hpatchD
  obtain ⟨s', hrun, hfs, _, hdone⟩ := processSection_clean H hreal hdir
  rw [runPatch_of_section ho.file hs0 hpn hpd hpatch hd s' par2 false hrun hdone heof]
  have hback : splitLines (render o.newlineOutput r.out) = r.out.map Out.line := by
    rw [Render.render_of_all_terminated _ (fun x hx => by
      have := hgood x.line (List.mem_map_of_mem hx)
      unfold lfPlain at this
      simp only [Bool.and_eq_true, beq_iff_eq] at this
      rw [this.1]; simp)]
    exact RunR.splitLines_renderLines_lf _ hmode _ hgood
  refine ⟨rfl, ⟨render o.newlineOutput r.out, ?_, ?_, ?_⟩, ?_⟩
  · show s'.fs.lookup name = _
    rw [hfs, Fs.lookup_set_self]
  · rw [hback]; exact he1
  · rw [hback]; exact he0
  · intro q hq
    show s'.fs.lookup q = _
    rw [hfs, Fs.lookup_set_ne _ _ _ _ hq]

end

/-- **C20, end to end.**  `patch -D sym -i pname name` in a tree with the target `name` and the patch file `pname` = the text of a
    unified diff of `name`, `hs` a valid script of the target's lines, LF text free of the four directives: exit status 0; the
    target keeps its mode and holds a merge which — read back as lines — a preprocessor with `sym` defined turns into the new
    file and one with `sym` undefined into the old file; nothing else in the tree differs. -/
theorem C20_run (o : Options) (s0 : DState) (name pname bytes sym oldt newt : Bytes) (m pm : Nat) (hs : List Hunk)
    (ho : RunOptsD o name pname sym) (hsym : sym ≠ []) (hsnl : NL ∉ sym) (hscr : sym.getLast? ≠ some CR)
    (hmode : o.newlineOutput ≠ .crlf) (hreal : o.dryRun = false) (hs0 : CleanStart s0)
    (hn : flatName name) (hpn : pname ≠ []) (hpd : pname ≠ [45])
    (htarget : s0.fs.lookup name = some (.file bytes m)) (hw : m &&& writeMask ≠ 0)
    (hot : stampOk oldt) (hnt : stampOk newt)
    (hpatch : s0.fs.lookup pname = some (.file (diffText name name oldt newt hs) pm))
    (hh : DiffHunks hs) (hvalid : Valid (splitLines bytes) 0 0 hs)
    (hfileLF : ∀ l ∈ splitLines bytes, l.newline = .lf)
    (hpatchLF : ∀ h ∈ hs, ∀ pl ∈ h.lines, pl.line.newline = .lf)
    (hfileD : ∀ l ∈ splitLines bytes, notDirective sym l)
    (hpatchD : ∀ h ∈ hs, ∀ pl ∈ h.lines, notDirective sym pl.line) :
    (runPatch o s0).1 = 0 ∧
    (∃ c, (runPatch o s0).2.fs.lookup name = some (.file c m) ∧
      cppEval sym true (splitLines c) = some (splice (splitLines bytes) 0 hs) ∧
      cppEval sym false (splitLines c) = some (splitLines bytes)) ∧
    ∀ q, q ≠ name → (runPatch o s0).2.fs.lookup q = s0.fs.lookup q :=
  C20_run_filler (filler := []) ho hsym hsnl hscr hmode hreal hs0 hn.1 (dirExists_parent_of_noSlash s0.fs hn.2.1) hpn hpd
    htarget hw hpatch (unifiedDiff_of_flat hn hot hnt hh) hvalid hfileLF hpatchLF hfileD hpatchD

/-- a line that does not start with `#` is none of the four directives, whatever the symbol (also an empty line) -/
theorem notDirective_of_head? (sym : Bytes) (l : Line) (h : l.content.head? ≠ some 35) : notDirective sym l := by
  rcases l with ⟨c, nl⟩
  cases c with
  | nil =>
    unfold notDirective dIfdef dIfndef dElse dEndif
    rw [str_ifdef, str_ifndef, str_else, str_endif]
    simp
  | cons a cs => exact C20.notDirective_of_head sym a cs nl (by simpa using h)

/-! ### non-vacuity: a concrete run

The instance of `C01Run` (`f` = "a\nb\nc\n", mode 0644, `p.diff` = the one-hunk unified diff that changes `b` to `B`) with
`-D X`.  Every hypothesis of `C20_run` is discharged in the kernel, the theorem is applied; independently the executable model is
run on the same state (`#guard`: executable tests, not proofs). -/
namespace InstanceD
open PatchModel.C01.Instance (name pname bytes oldt newt hk s0 diffHunks)

def symX : Bytes := [88]                                    -- "X"
def o : Options := { PatchModel.C01.Instance.o with define := symX }
def merged : Bytes := str "a\n#ifndef X\nb\n#else\nB\n#endif\nc\n"

theorem runOptsD : RunOptsD o name pname symX :=
  { plain := { operand := rfl, noOut := rfl, noBackup := rfl, noReverse := rfl, define := rfl, fuzz := by decide, quiet := rfl },
    file := { patchFile := rfl, noDir := rfl, noHelp := rfl, noVersion := rfl, noContext := rfl, noNormal := rfl, noEd := rfl } }

theorem fileLines : splitLines bytes = [⟨[97], .lf⟩, ⟨[98], .lf⟩, ⟨[99], .lf⟩] := by decide

/-- **`C20_run` applies** (all hypotheses discharged in the kernel) -/
theorem applies :
    (runPatch o s0).1 = 0 ∧
    (∃ c, (runPatch o s0).2.fs.lookup name = some (.file c 0o644) ∧
      cppEval symX true (splitLines c) = some [⟨[97], .lf⟩, ⟨[66], .lf⟩, ⟨[99], .lf⟩] ∧
      cppEval symX false (splitLines c) = some [⟨[97], .lf⟩, ⟨[98], .lf⟩, ⟨[99], .lf⟩]) ∧
    ∀ q, q ≠ name → (runPatch o s0).2.fs.lookup q = s0.fs.lookup q := by
  have h := C20_run o s0 name pname bytes symX oldt newt 0o644 0o644 [hk] runOptsD (by decide) (by decide) (by decide) (by decide)
    rfl ⟨rfl, rfl, rfl, rfl, rfl, rfl⟩ (by decide) (by decide) (by decide) rfl (by decide) (by decide) (by decide) rfl diffHunks
    (validB_sound _ _ _ _ (by decide))
    (by rw [fileLines]; decide) (by decide)
    (by intro l hl; exact notDirective_of_head? symX l (by rw [fileLines] at hl; revert l; decide))
    (by intro h hh pl hpl
        exact notDirective_of_head? symX pl.line (by
          simp only [List.mem_singleton] at hh; subst hh; revert pl; decide))
  have hm : splice (splitLines bytes) 0 [hk] = [⟨[97], .lf⟩, ⟨[66], .lf⟩, ⟨[99], .lf⟩] := by decide
  rw [hm, fileLines] at h
  exact h

-- independently: the executable model on the same state
#guard (runPatch o s0).1 == 0
#guard (runPatch o s0).2.fs.lookup name == some (.file merged 0o644)
#guard (runPatch o s0).2.fs.lookup pname == s0.fs.lookup pname && (runPatch o s0).2.fs.nodes.length == 2
#guard cppEval symX true (splitLines merged) == some (splitLines (str "a\nB\nc\n"))
#guard cppEval symX false (splitLines merged) == some (splitLines (str "a\nb\nc\n"))
#guard (runPatch o s0).2.trace == [.tmpCreate, .tmpUnlink, .tmpCreate, .tmpUnlink, .creat name, .write name merged,
                                   .chmod name 0o644]
#guard (runPatch o s0).2.out == [.file name false]
-- `--newline-output=keep` and `=lf` are covered as well
#guard (runPatch { o with newlineOutput := .keep } s0).2.fs.lookup name == some (.file merged 0o644)

end InstanceD

/-! ### the side conditions, evaluated (executable tests) -/
namespace Scope
open PatchModel.C01.Instance (name pname bytes oldt newt hk s0)
open InstanceD (symX o)

def content (s : DState) : Bytes := match s.fs.lookup name with | some (.file c _) => c | _ => []

/-- `--newline-output=crlf`: the file is written with CR LF; read back, its lines are CR LF lines — the evaluation is the new
    file with CR LF terminators, not `splice …` -/
def ocrlf : Options := { o with newlineOutput := .crlf }
#guard (runPatch ocrlf s0).1 == 0
#guard content (runPatch ocrlf s0).2 == str "a\r\n#ifndef X\r\nb\r\n#else\r\nB\r\n#endif\r\nc\r\n"
#guard cppEval symX true (splitLines (content (runPatch ocrlf s0).2)) != some (splice (splitLines bytes) 0 [hk])
#guard cppEval symX true (splitLines (content (runPatch ocrlf s0).2)) == some (splitLines (str "a\r\nB\r\nc\r\n"))

/-- a symbol with a line feed in it: the directive line is read back as two lines -/
def osym : Options := { o with define := str "X\nY" }
#guard (runPatch osym s0).1 == 0
#guard content (runPatch osym s0).2 == str "a\n#ifndef X\nY\nb\n#else\nB\n#endif\nc\n"
#guard cppEval (str "X\nY") true (splitLines (content (runPatch osym s0).2)) == none

/-- a file that contains a directive line (`#endif`, as context of the hunk): the merge is unbalanced -/
def bytesE : Bytes := str "a\nb\n#endif\n"
def hkE : Hunk := ⟨⟨1, 3⟩, ⟨1, 3⟩, [⟨SP, ⟨[97], .lf⟩⟩, ⟨MINUS, ⟨[98], .lf⟩⟩, ⟨PLUS, ⟨[66], .lf⟩⟩, ⟨SP, ⟨str "#endif", .lf⟩⟩]⟩
def directiveInFile : DState :=
  { fs := { nodes := [(name, .file bytesE 0o644), (pname, .file (diffText name name oldt newt [hkE]) 0o644)] } }
#guard validB (splitLines bytesE) 0 0 [hkE] && hkE.writable
#guard (runPatch o directiveInFile).1 == 0
#guard content (runPatch o directiveInFile).2 == str "a\n#ifndef X\nb\n#else\nB\n#endif\n#endif\n"
#guard cppEval symX true (splitLines (content (runPatch o directiveInFile).2)) == none

/-- a last line without newline: the merge terminates it (the `#endif` needs a line of its own); the evaluation gives `B LF`
    where the new file has `B` without newline.  By design of the output, not a defect. -/
def hkU : Hunk := ⟨⟨1, 2⟩, ⟨1, 2⟩, [⟨SP, ⟨[97], .lf⟩⟩, ⟨MINUS, ⟨[98], .none⟩⟩, ⟨PLUS, ⟨[66], .none⟩⟩]⟩
def unterminated : DState :=
  { fs := { nodes := [(name, .file (str "a\nb") 0o644), (pname, .file (diffText name name oldt newt [hkU]) 0o644)] } }
#guard validB (splitLines (str "a\nb")) 0 0 [hkU] && hkU.writable
#guard (runPatch o unterminated).1 == 0
#guard content (runPatch o unterminated).2 == str "a\n#ifndef X\nb\n#else\nB\n#endif\n"
#guard cppEval symX true (splitLines (content (runPatch o unterminated).2)) == some [⟨[97], .lf⟩, ⟨[66], .lf⟩]
#guard splice (splitLines (str "a\nb")) 0 [hkU] == [⟨[97], .lf⟩, ⟨[66], .none⟩]

end Scope

end PatchModel.C20Run

#print axioms PatchModel.C20Run.defineSection_of_diff
#print axioms PatchModel.C20Run.C20_run_filler
#print axioms PatchModel.C20Run.C20_run
#print axioms PatchModel.C20Run.InstanceD.applies
#print axioms PatchModel.RunV.applyPatch_define_full
