/-
  C03 — hunks that fit are found, with the least fuzz, at the stated place.
-/
import PatchModel.Spec.Script
import PatchModel.Lemmas.Locate
namespace PatchModel.C03
open PatchModel

/-- if any admissible placement exists at or after `min_line`, the hunk is found, with fuzz no larger -/
theorem locate_complete (file : List Line) (h : Hunk) (iw : Bool) (offset maxFuzz : Int) (minLine : Nat)
    (p f : Nat) (hwf : h.WF) (hc : h.old.count ≠ 0) (hp : minLine ≤ p)
    (hadm : admissibleB file h iw maxFuzz p f = true) :
    ∃ loc, locateHunk file h iw offset maxFuzz minLine = some loc ∧ loc.fuzz ≤ (f : Int) := by
  obtain ⟨loc, hloc⟩ := locateHunk_complete file h iw offset maxFuzz minLine p f hc hp hadm
  obtain ⟨p0, f0, e, _, _, _, hmin⟩ := locateHunk_some file h iw offset maxFuzz minLine loc hc hloc
  refine ⟨loc, hloc, ?_⟩
  subst e
  have := hmin p f hp hadm
  simp only
  omega

/-- the fuzz used is the smallest at which any placement exists -/
theorem locate_least_fuzz (file : List Line) (h : Hunk) (iw : Bool) (offset maxFuzz : Int) (minLine : Nat)
    (loc : Location) (hloc : locateHunk file h iw offset maxFuzz minLine = some loc) (hwf : h.WF) (hc : h.old.count ≠ 0) :
    ∀ p f : Nat, minLine ≤ p → admissibleB file h iw maxFuzz p f = true → loc.fuzz ≤ (f : Int) := by
  intro p f hp hadm
  obtain ⟨p0, f0, e, _, _, _, hmin⟩ := locateHunk_some file h iw offset maxFuzz minLine loc hc hloc
  subst e
  have := hmin p f hp hadm
  simp only
  omega

/-- a hunk whose text sits exactly at its stated line (plus the accumulated offset) is applied exactly there -/
theorem locate_exact (file : List Line) (h : Hunk) (iw : Bool) (offset maxFuzz : Int) (minLine : Nat) (g : Nat)
    (hwf : h.WF) (hc : h.old.count ≠ 0) (hg : expectedLine h - 1 + offset = (g : Int)) (hm : minLine ≤ g)
    (hadm : admissibleB file h iw maxFuzz g 0 = true) :
    locateHunk file h iw offset maxFuzz minLine = some ⟨g, 0, 0⟩ :=
  locateHunk_exact file h iw offset maxFuzz minLine g hc hg hm hadm

/-- an insertion that carries no context goes exactly to its stated line (the exclusion is known finding D2) -/
theorem locate_insertion_exact (file : List Line) (h : Hunk) (iw : Bool) (offset maxFuzz : Int) (minLine : Nat) (g : Nat)
    (hc : h.old.count = 0) (hg : expectedLine h - 1 + offset = (g : Int)) (hm : minLine ≤ g) (hle : g ≤ file.length)
    (hD2 : ¬ (h.old.start = 0 ∧ file ≠ [])) :
    locateHunk file h iw offset maxFuzz minLine = some ⟨g, 0, 0⟩ := by
  unfold locateHunk
  simp only [hc, if_true, hD2, if_false, hg]
  have : ¬ ((g : Int) < (minLine : Int) ∨ (g : Int) > (file.length : Int)) := by omega
  rw [if_neg this]

end PatchModel.C03
