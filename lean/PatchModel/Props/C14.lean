/-
  C14 — line endings and the final newline are written as promised.
-/
import PatchModel.Spec.Script
import PatchModel.Model.Stream
import PatchModel.Lemmas.Render
import PatchModel.Model.Parse
namespace PatchModel.C14
open PatchModel PatchModel.Render

/-- reading a file into lines and writing the lines back in `preserve` mode is the identity on all byte strings -/
theorem read_write_id (bs : Bytes) : renderLines .keep (splitLines bs) = bs := by
  exact renderLines_keep_splitLinesGo [] bs

/-- lf (and native on Unix): contents unchanged, every terminator written is LF, a line without one gets none -/
theorem render_lf (m : NewlineOutput) (hm : m = .lf ∨ m = .native) (ls : List Line) :
    renderLines m ls = ls.flatMap fun l => l.content ++ (if l.newline = .none then [] else [NL]) := by
  unfold renderLines
  congr 1
  funext l
  exact renderLine_lf m hm l

theorem render_crlf (ls : List Line) :
    renderLines .crlf ls = ls.flatMap fun l => l.content ++ (if l.newline = .none then [] else [CR, NL]) := by
  unfold renderLines
  congr 1
  funext l
  exact renderLine_crlf l

/-- preserve: every line keeps exactly the terminator it carries -/
theorem render_keep (ls : List Line) :
    renderLines .keep ls = ls.flatMap fun l => l.content ++
      (match l.newline with | .none => [] | .lf => [NL] | .crlf => [CR, NL]) := by
  unfold renderLines
  congr 1
  funext l
  exact renderLine_keep l

/-- in all modes the output ends without a newline exactly when its last line has none -/
theorem final_newline (m : NewlineOutput) (ls : List Line) (last : Line) (h : ls.getLast? = some last) :
    (last.newline ≠ .none → (renderLines m ls).getLast? = some NL) ∧
    (last.newline = .none → last.content ≠ [] → last.content.getLast? ≠ some NL →
      (renderLines m ls).getLast? ≠ some NL) := by
  obtain ⟨init, rfl⟩ : ∃ init, ls = init ++ [last] := by
    rcases List.eq_nil_or_concat ls with rfl | ⟨i, b, rfl⟩
    · simp at h
    · simp at h; subst h; exact ⟨i, by simp⟩
  rw [renderLines_append, renderLines_cons, renderLines_nil, List.append_nil]
  constructor
  · intro hn
    have h1 := renderLine_getLast_of_terminated m last hn
    rw [List.getLast?_append, h1]; rfl
  · intro hn hne hl
    rw [renderLine_of_none m last hn, List.getLast?_append]
    cases hc : last.content.getLast? with
    | none => simp [List.getLast?_eq_none_iff] at hc; exact absurd hc hne
    | some b => rw [hc] at hl; simpa using hl

/-- invariants of every line ever read from a file -/
theorem splitLines_noNL (bs : Bytes) : ∀ l ∈ splitLines bs, NL ∉ l.content := by
  exact splitLinesGo_noNL [] bs (by simp)

theorem splitLines_none_nonempty (bs : Bytes) : ∀ l ∈ splitLines bs, l.newline = .none → l.content ≠ [] := by
  exact splitLinesGo_none_nonempty [] bs

theorem splitLines_lf_noCR (bs : Bytes) : ∀ l ∈ splitLines bs, l.newline = .lf → l.content.getLast? ≠ some CR := by
  exact splitLinesGo_lf_noCR [] bs

/-- only the last line of a file can lack a terminator -/
theorem splitLines_none_last (bs : Bytes) (pre post : List Line) (l : Line)
    (h : splitLines bs = pre ++ l :: post) (hn : l.newline = .none) : post = [] := by
  exact splitLinesGo_none_last [] bs pre post l h hn

/-- what a placed hunk writes: original lines come from the file (with the file's terminator), added lines from the
    patch (with the patch's terminator); nothing else -/
theorem hunkOutput_sources (file : List Line) (ls : List PatchLine) (p : Nat) :
    ∀ o ∈ hunkOutput file ls p,
      (∃ i l, o = Out.fromFile i l ∧ file[i]? = some l) ∨
      (∃ pl ∈ ls, pl.op = PLUS ∧ o = Out.fromPatch pl.line) := by
  induction ls generalizing p with
  | nil => intro o ho; simp [hunkOutput] at ho
  | cons pl rest ih =>
    intro o ho
    have lift : ((∃ i l, o = Out.fromFile i l ∧ file[i]? = some l) ∨
        (∃ pl ∈ rest, pl.op = PLUS ∧ o = Out.fromPatch pl.line)) →
        ((∃ i l, o = Out.fromFile i l ∧ file[i]? = some l) ∨
        (∃ pl' ∈ pl :: rest, pl'.op = PLUS ∧ o = Out.fromPatch pl'.line)) := by
      rintro (h | ⟨q, hq, h⟩)
      · exact .inl h
      · exact .inr ⟨q, List.mem_cons_of_mem _ hq, h⟩
    unfold hunkOutput at ho
    split at ho
    · rename_i hop
      rcases List.mem_cons.mp ho with rfl | ho
      · exact .inr ⟨pl, List.mem_cons_self, by simpa using hop, rfl⟩
      · exact lift (ih p o ho)
    · split at ho
      · rcases List.mem_append.mp ho with ho | ho
        · split at ho
          · rename_i l hl
            simp at ho; subst ho
            exact .inl ⟨p, l, rfl, hl⟩
          · simp at ho
        · exact lift (ih (p + 1) o ho)
      · exact lift (ih (p + 1) o ho)

theorem spliceAt_sources (file : List Line) (c : Nat) (pls : List (Hunk × Nat)) :
    ∀ o ∈ spliceAt file c pls,
      (∃ i l, o = Out.fromFile i l ∧ file[i]? = some l) ∨
      (∃ hp ∈ pls, ∃ pl ∈ hp.1.lines, pl.op = PLUS ∧ o = Out.fromPatch pl.line) := by
  induction pls generalizing c with
  | nil =>
    intro o ho
    unfold spliceAt at ho
    exact .inl (mem_copyRange file _ _ o ho)
  | cons hp rest ih =>
    obtain ⟨h, p⟩ := hp
    intro o ho
    unfold spliceAt at ho
    rcases List.mem_append.mp ho with ho | ho
    · rcases List.mem_append.mp ho with ho | ho
      · exact .inl (mem_copyRange file _ _ o ho)
      · rcases hunkOutput_sources file h.lines p o ho with h1 | ⟨pl, hpl, h1⟩
        · exact .inl h1
        · exact .inr ⟨(h, p), List.mem_cons_self, pl, hpl, h1⟩
    · rcases ih _ o ho with h1 | ⟨hp', hm, h1⟩
      · exact .inl h1
      · exact .inr ⟨hp', List.mem_cons_of_mem _ hm, h1⟩

/-! ### the lines of a patch -/

/-- **`get_line` never hands out a line without newline**: the last line of a patch text whose own final newline went
    missing is a line like any other (`.lf`, or `.crlf` if what is left of its terminator is a CR, D85); only the
    `\ No newline at end of file` marker makes a hunk line `.none`
    (C13 `none_only_by_marker`) -/
theorem getLine_never_none (p : Parser) (l : Line) (p' : Parser) (h : p.getLine = (some l, p')) :
    l.newline ≠ .none := by
  unfold Parser.getLine at h
  split at h
  · simp at h
  · rename_i l0 s' _
    simp only [Prod.mk.injEq, Option.some.injEq] at h
    obtain ⟨rfl, _⟩ := h
    split
    · split <;> simp
    · assumption

/-- what `get_line` hands out in terms of the line of the text (all three cases): a terminated line as it is; the last line
    without its newline as an LF line, unless it ends in CR: then as a CR LF line without that CR (D85) -/
theorem getLine_cases (p : Parser) (l : Line) (p' : Parser) (h : p.getLine = (some l, p')) :
    ∃ l0 r, p.s.rest = l0 :: r ∧ p'.s.rest = r ∧
      l = (if l0.newline = .none then
             (if l0.content.getLast? = some CR then ⟨l0.content.dropLast, .crlf⟩ else ⟨l0.content, .lf⟩)
           else l0) := by
  unfold Parser.getLine PStream.getLine at h
  split at h <;> rename_i heq
  · simp at h
  · rename_i l0 s'
    simp only [Prod.mk.injEq, Option.some.injEq] at h
    obtain ⟨rfl, rfl⟩ := h
    split at heq
    · simp at heq
    · split at heq
      · simp at heq
      · split at heq
        · simp at heq
        · rename_i a r hr
          refine ⟨a, r, hr, ?_⟩
          split at heq <;>
            (simp only [Prod.mk.injEq, Option.some.injEq] at heq
             obtain ⟨rfl, rfl⟩ := heq
             exact ⟨rfl, rfl⟩)

/-- what is handed out is the line of the text: same content, same terminator unless there was none.
    (`hcr`: not the last line of a text that ends in a bare CR — that one is `getLine_line_cr`) -/
theorem getLine_line (p : Parser) (l : Line) (p' : Parser) (h : p.getLine = (some l, p'))
    (hcr : ∀ l0 r, p.s.rest = l0 :: r → l0.newline = .none → l0.content.getLast? ≠ some CR) :
    ∃ l0 r, p.s.rest = l0 :: r ∧ p'.s.rest = r ∧ l.content = l0.content ∧
      l.newline = (if l0.newline = .none then .lf else l0.newline) := by
  obtain ⟨l0, r, hr, hr', hl⟩ := getLine_cases p l p' h
  refine ⟨l0, r, hr, hr', ?_⟩
  subst hl
  by_cases hn : l0.newline = .none
  · simp [hn, hcr l0 r hr hn]
  · simp [hn]

/-- NEW (D85): the case `getLine_line` leaves out.  A CR at the very end of the patch text is what is left of a CR LF:
    the line is handed out as a CR LF line, its content without the CR -/
theorem getLine_line_cr (p : Parser) (l : Line) (p' : Parser) (h : p.getLine = (some l, p'))
    (l0 : Line) (r : List Line) (hr : p.s.rest = l0 :: r) (hn : l0.newline = .none) (hc : l0.content.getLast? = some CR) :
    p'.s.rest = r ∧ l.content = l0.content.dropLast ∧ l.newline = .crlf := by
  obtain ⟨l1, r1, hr1, hr', hl⟩ := getLine_cases p l p' h
  rw [hr] at hr1
  obtain ⟨rfl, rfl⟩ := List.cons.inj hr1
  subst hl
  simp [hn, hc, hr']

/-- the last line of a text that does not end in a newline (nor in a bare CR) is read as an LF terminated line, and the stream
    has seen its end -/
theorem getLine_last_unterminated (c : Bytes) (n : Nat) (hcr : c.getLast? ≠ some CR) :
    Parser.getLine ⟨⟨[⟨c, .none⟩], false, false⟩, n⟩ = (some ⟨c, .lf⟩, ⟨⟨[], true, false⟩, n + 1⟩) := by
  simp [Parser.getLine, PStream.getLine, hcr]

/-- NEW (D85): the last line of a text that ends in a bare CR is read as a CR LF terminated line without the CR -/
theorem getLine_last_bare_cr (c : Bytes) (n : Nat) :
    Parser.getLine ⟨⟨[⟨c ++ [CR], .none⟩], false, false⟩, n⟩ = (some ⟨c, .crlf⟩, ⟨⟨[], true, false⟩, n + 1⟩) := by
  simp [Parser.getLine, PStream.getLine]

/-! ### the `\ No newline at end of file` marker -/

/-- NEW (`mark_as_unterminated`): **the marker takes away the newline and nothing else**.  The last hunk line before a marker
    line — read from the patch as `c` with its terminator class `nl` (LF or CR LF, `getLine_never_none`) — becomes a line
    without newline whose bytes are the bytes it had in the patch less the final LF: for a line that ended in CR LF the CR
    stays, as the last byte of the content (there is no newline after the line which it could be a part of).  Before the
    change the CR was dropped with the LF, and the last line of a file ending in a bare CR could not be matched or written. -/
theorem marker_removes_only_the_newline (L : List PatchLine) (op : UInt8) (c : Bytes) (nl : NewLine) (hnl : nl ≠ .none) :
    ∃ c', markLastNone (L ++ [⟨op, ⟨c, nl⟩⟩]) = L ++ [⟨op, ⟨c', .none⟩⟩] ∧
      renderLine .keep ⟨c', .none⟩ ++ [NL] = renderLine .keep ⟨c, nl⟩ := by
  refine ⟨if nl = .crlf then c ++ [CR] else c, by unfold markLastNone; simp, ?_⟩
  cases nl with
  | lf => simp [renderLine, renderNewline]
  | crlf => simp [renderLine, renderNewline]
  | none => exact absurd rfl hnl

/-- the two cases: a CR LF line keeps its CR, an LF line its content; on an empty list the marker does nothing -/
theorem marker_keeps_cr (L : List PatchLine) (op : UInt8) (c : Bytes) :
    markLastNone (L ++ [⟨op, ⟨c, .crlf⟩⟩]) = L ++ [⟨op, ⟨c ++ [CR], .none⟩⟩] ∧
    markLastNone (L ++ [⟨op, ⟨c, .lf⟩⟩]) = L ++ [⟨op, ⟨c, .none⟩⟩] ∧
    markLastNone [] = [] := by
  refine ⟨?_, ?_, rfl⟩ <;> (unfold markLastNone; simp)

/-- so a file whose last line ends in a bare CR, patched by a hunk that keeps that line (context, no newline, CR kept by the
    marker), still ends in that CR: the line as the marker leaves it is the line as `get_line` reads it from the file -/
theorem bare_cr_line_matches_file (c : Bytes) (hne : NL ∉ c) :
    splitLines (c ++ [CR]) = [⟨c ++ [CR], .none⟩] ∧
    markLastNone [⟨SP, ⟨c, .crlf⟩⟩] = [⟨SP, ⟨c ++ [CR], .none⟩⟩] ∧
    renderLines .keep [⟨c ++ [CR], .none⟩] = c ++ [CR] := by
  refine ⟨?_, (marker_keeps_cr [] SP c).1, by simp [renderLines, renderLine, renderNewline]⟩
  have h : ∀ (bs cur : Bytes), NL ∉ bs → splitLinesGo cur bs = if cur ++ bs = [] then [] else [⟨cur ++ bs, .none⟩] := by
    intro bs
    induction bs with
    | nil => intro cur _; simp [splitLinesGo]
    | cons b r ih =>
      intro cur hb
      have hb1 : (b == NL) = false := by
        simp only [List.mem_cons, not_or] at hb
        simpa using fun e => hb.1 e.symm
      rw [splitLinesGo, hb1]
      simp only [Bool.false_eq_true, if_false]
      rw [ih (cur ++ [b]) (fun hm => hb (List.mem_cons_of_mem _ hm))]
      simp
  unfold splitLines
  rw [h _ _ (by
    intro hm
    rcases List.mem_append.1 hm with h1 | h1
    · exact hne h1
    · simp at h1; exact absurd h1 (by decide))]
  simp

/-! ### the writer's rule (D97): only the last line of the output can be without its newline

  `render mode os` (what is written to the file) is `renderLines mode` of the items with a bare LF line added behind every
  unterminated line that something else follows (`terminateInner`).  For an output made without `-D` that is
  `Render.renderText mode (os.map Out.line)` (`Render.render_eq_renderText`, `ApplyLoop.applyPatch_render`). -/

/-- what is written for a list of lines: the lines one by one (`render_lf`, `render_crlf`, `render_keep` say how), every line
    but the last first given the terminator LF if it has none -/
theorem text_spec (m : NewlineOutput) (ls : List Line) :
    renderText m ls = renderLines m (ls.dropLast.map forceNewline ++ ls.getLast?.toList) := by
  rw [renderText_eq, terminate'_eq]

/-- so among the lines written only the last can be without newline; contents, number and the last line are as intended -/
theorem text_lines (ls : List Line) :
    LinesTerminated (terminate' ls) ∧ (terminate' ls).length = ls.length ∧
    (terminate' ls).map (·.content) = ls.map (·.content) ∧ (terminate' ls).getLast? = ls.getLast? :=
  ⟨linesTerminated_terminate' ls, terminate'_length ls, terminate'_content ls, terminate'_getLast? ls⟩

/-- a text whose only unterminated line (if any) is its last — every file as it is read — is written line by line -/
theorem text_of_terminated (m : NewlineOutput) (ls : List Line) (h : LinesTerminated ls) :
    renderText m ls = renderLines m ls :=
  renderText_eq_renderLines m ls h

/-- reading a file and writing it back in `preserve` mode is still the identity on all byte strings -/
theorem text_read_write_id (bs : Bytes) : renderText .keep (splitLines bs) = bs := by
  rw [text_of_terminated _ _ (linesTerminated_splitLines bs)]; exact read_write_id bs

theorem output_read_write_id (bs : Bytes) :
    render .keep (copyRange (splitLines bs) 0 (splitLines bs).length) = bs := by
  rw [render_of_map_line .keep (copyRange_map_line _ _ _) ((linesTerminated_splitLines bs).drop 0 |>.take _)]
  rw [List.drop_zero, List.take_length]; exact read_write_id bs

/-- the reported case: an unterminated line followed by an added line -/
theorem text_glue_example (m : NewlineOutput) (c d : Bytes) :
    renderText m [⟨c, .none⟩, ⟨d, .lf⟩] = c ++ renderNewline m .lf ++ d ++ renderNewline m .lf := by
  simp [renderText, terminate, renderLine, renderNewline]

/-- in all modes the file written ends without a newline exactly when its last item has none -/
theorem output_final_newline (m : NewlineOutput) (os : List Out) (last : Out) (h : os.getLast? = some last) :
    (last.line.newline ≠ .none → (render m os).getLast? = some NL) ∧
    (last.line.newline = .none → last.line.content ≠ [] → last.line.content.getLast? ≠ some NL →
      (render m os).getLast? ≠ some NL) := by
  unfold render
  refine final_newline m _ last.line ?_
  rw [List.getLast?_map, terminateInner_getLast?, h]; rfl

theorem text_final_newline (m : NewlineOutput) (ls : List Line) (last : Line) (h : ls.getLast? = some last) :
    (last.newline ≠ .none → (renderText m ls).getLast? = some NL) ∧
    (last.newline = .none → last.content ≠ [] → last.content.getLast? ≠ some NL →
      (renderText m ls).getLast? ≠ some NL) := by
  rw [renderText_eq]
  exact final_newline m _ last (by rw [terminate'_getLast?, h])

/-- in what is written (with or without `-D`), a line without newline that is not the last is followed by a bare terminator -/
theorem output_inner_terminated (os pre : List Out) (o o2 : Out) (rest : List Out)
    (h : terminateInner os = pre ++ o :: o2 :: rest) (hn : o.line.newline = .none) : o2.isBare = true :=
  terminateInner_inner os pre o o2 rest h hn

/-- and that is all the rule does: without `-D` the items written are the intended ones plus bare LF lines -/
theorem output_items (os : List Out) (h : NoBare os) : (terminateInner os).filter (fun o => !o.isBare) = os :=
  terminateInner_filter os h

end PatchModel.C14
