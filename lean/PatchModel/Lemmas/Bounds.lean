/-
  Lemmas/Bounds — numbers read from a patch are bounded (C07): `string_to_line_number` / `consume_line_number`
  return values in [0, i64Max / 4], and the three range parsers store only such numbers (or small
  differences of them).  Normal ranges: no count is negative (`parseNormalRange_bounds`), and the new range of a `d`
  command has no lines (`parseNormalRange_cmd`, `normalCmdOf`).
-/
import PatchModel.Lemmas.Unified
namespace PatchModel.Bounds
open PatchModel

/-- `[0, i64Max / 4]` -/
def Small (v : Int) : Prop := 0 ≤ v ∧ v ≤ i64Max / 4

theorem i64Max_div4 : i64Max / 4 = 2305843009213693951 := by decide

theorem small_iff (v : Int) : Small v ↔ 0 ≤ v ∧ v ≤ 2305843009213693951 := by
  unfold Small; rw [i64Max_div4]

theorem small_zero : Small 0 := by rw [small_iff]; omega
theorem small_one : Small 1 := by rw [small_iff]; omega

/-- `string_to_line_number` never makes its accumulator negative (whether it succeeds or not) -/
theorem stringToLineNumber_nonneg (ds : Bytes) (acc : Int) (h : 0 ≤ acc) : 0 ≤ (stringToLineNumber ds acc).2 := by
  induction ds generalizing acc with
  | nil => exact h
  | cons c ds ih =>
    rw [stringToLineNumber]
    split
    · exact h
    · simp only
      split
      · show 0 ≤ acc * 10; omega
      · apply ih; omega

/-- a successful `string_to_line_number` only grows its accumulator and stays within `int64_t` -/
theorem stringToLineNumber_ok (ds : Bytes) (acc : Int) (h : 0 ≤ acc) (ha : acc ≤ i64Max)
    (hok : (stringToLineNumber ds acc).1 = true) :
    acc ≤ (stringToLineNumber ds acc).2 ∧ (stringToLineNumber ds acc).2 ≤ i64Max := by
  induction ds generalizing acc with
  | nil => exact ⟨Int.le_refl _, ha⟩
  | cons c ds ih =>
    rw [stringToLineNumber] at hok ⊢
    split at hok
    · cases hok
    · simp only at hok ⊢
      split at hok
      · cases hok
      · next h1 h2 =>
        rw [if_neg h1, if_neg h2]
        have := ih (acc * 10 + ((c.toNat - 48 : Nat) : Int)) (by omega) (by omega) hok
        omega

/-- the shape of a successful `consume_line_number` -/
theorem consumeLineNumber_small (r : Bytes) (cur : Int) (h : (consumeLineNumber r cur).1 = true) :
    Small (consumeLineNumber r cur).2.1 := by
  unfold consumeLineNumber at h ⊢
  cases r with
  | nil => cases h
  | cons c r =>
    simp only at h ⊢
    split
    · next hd =>
      rw [if_pos hd] at h
      simp only [Bool.and_eq_true, decide_eq_true_eq] at h
      exact ⟨stringToLineNumber_nonneg _ 0 (Int.le_refl 0), h.2⟩
    · next hd =>
      rw [if_neg hd] at h
      cases h

/-- same, with the triple destructured -/
theorem consumeLineNumber_small' {r : Bytes} {cur v : Int} {rest : Bytes}
    (h : consumeLineNumber r cur = (true, v, rest)) : Small v := by
  have := consumeLineNumber_small r cur (by rw [h])
  rw [h] at this; exact this

/-- the `consumeRange` closure of `parseUnifiedRange`: both numbers bounded on success -/
theorem consumeRange_small (r : Range) (inp : Bytes) (h : (Unified.consumeRange r inp).1 = true) :
    Small (Unified.consumeRange r inp).2.1.start ∧ Small (Unified.consumeRange r inp).2.1.count := by
  unfold Unified.consumeRange at h ⊢
  have h1 := consumeLineNumber_small inp r.start
  generalize consumeLineNumber inp r.start = t at h h1 ⊢
  obtain ⟨ok, v, rest⟩ := t
  simp only at h h1 ⊢
  cases ok with
  | false => simp at h
  | true =>
    have hv := h1 rfl
    simp only [Bool.not_true, Bool.false_eq_true, if_false] at h ⊢
    generalize consumeStr [44] rest = oc at h ⊢
    cases oc with
    | none => exact ⟨hv, small_one⟩
    | some rest2 =>
      simp only at h ⊢
      have h2 := consumeLineNumber_small rest2 r.count
      generalize consumeLineNumber rest2 r.count = t2 at h h2 ⊢
      obtain ⟨ok2, c, rest3⟩ := t2
      simp only at h h2 ⊢
      exact ⟨hv, h2 h⟩

theorem parseUnifiedRange_small (h0 : Hunk) (l : Bytes) (h : (parseUnifiedRange h0 l).1 = true) :
    Small (parseUnifiedRange h0 l).2.old.start ∧ Small (parseUnifiedRange h0 l).2.old.count ∧
    Small (parseUnifiedRange h0 l).2.new.start ∧ Small (parseUnifiedRange h0 l).2.new.count := by
  rw [Unified.parseUnifiedRange_eq] at h ⊢
  split at h
  · cases h
  · next r1 _ =>
    simp only at h ⊢
    have ho := consumeRange_small h0.old r1
    generalize Unified.consumeRange h0.old r1 = t at h ho ⊢
    obtain ⟨ok, oldR, r2⟩ := t
    simp only at h ho ⊢
    cases ok with
    | false => simp at h
    | true =>
      have ho' := ho rfl
      simp only [Bool.not_true, Bool.false_eq_true, if_false] at h ⊢
      split at h
      · cases h
      · next r3 _ =>
        have hn := consumeRange_small h0.new r3
        generalize Unified.consumeRange h0.new r3 = t2 at h hn ⊢
        obtain ⟨ok2, newR, r4⟩ := t2
        simp only at h hn ⊢
        cases ok2 with
        | false => simp at h
        | true =>
          have hn' := hn rfl
          simp only [Bool.not_true, Bool.false_eq_true, if_false] at h ⊢
          split at h
          · cases h
          · exact ⟨ho'.1, ho'.2, hn'.1, hn'.2⟩

theorem parseContextRange_small (s e : Int) (t : Bytes) (h : (parseContextRange s e t).1 = true) :
    Small (parseContextRange s e t).2.1 ∧ Small (parseContextRange s e t).2.2 := by
  unfold parseContextRange at h ⊢
  have h1 := consumeLineNumber_small t s
  generalize consumeLineNumber t s = t1 at h h1 ⊢
  obtain ⟨ok, v, r1⟩ := t1
  simp only at h h1 ⊢
  cases ok with
  | false => simp at h
  | true =>
    have hv := h1 rfl
    simp only [Bool.not_true, Bool.false_eq_true, if_false] at h ⊢
    generalize consumeStr [44] r1 = oc at h ⊢
    cases oc with
    | none => exact ⟨hv, hv⟩
    | some r2 =>
      simp only at h ⊢
      have h2 := consumeLineNumber_small r2 e
      generalize consumeLineNumber r2 e = t2 at h h2 ⊢
      obtain ⟨ok2, c, r3⟩ := t2
      simp only at h h2 ⊢
      exact ⟨hv, h2 h⟩


/-! ### `parse_normal_range` in pieces -/

/-- the command letter and what follows it -/
def normalCmd (r3 : Bytes) : UInt8 × Bytes :=
  match r3 with
  | c :: r => (c, r)
  | [] => (0, [])

/-- the old count when the old range has no comma -/
def normalH3 (hasComma : Bool) (command : UInt8) (h2 : Hunk) : Hunk :=
  if !hasComma then { h2 with old := { h2.old with count := if command == 97 then 0 else 1 } } else h2

/-- the end of the new range -/
def normalEnd (hasComma : Bool) (command : UInt8) (ns : Int) (r5 : Bytes) : Option (Int × Bytes) :=
  match consumeStr [44] r5 with
  | some r6 =>
    if hasComma && command != 99 then none
    else if command == 100 then none
    else
      let (ok4, e, r7) := consumeLineNumber r6 0
      if !ok4 then none else some (e, r7)
  | none => some (ns, r5)

/-- the new count: a range that ends before it starts is empty -/
def normalCount (command : UInt8) (ns newEnd : Int) : Int :=
  let cnt := max (newEnd - ns + 1) 0
  if command == 100 then cnt - 1 else cnt

/-- everything after the old range -/
def normalTail (hasComma : Bool) (h2 : Hunk) (r3 : Bytes) : Bool × Hunk :=
  let (command, r4) := normalCmd r3
  if command != 99 && command != 97 && command != 100 then (false, h2)
  else
    let h3 : Hunk := normalH3 hasComma command h2
    let (ok3, ns, r5) := consumeLineNumber r4 h3.new.start
    let h4 : Hunk := { h3 with new := { h3.new with start := ns } }
    if !ok3 then (false, h4)
    else
      match normalEnd hasComma command h4.new.start r5 with
      | none => (false, h4)
      | some (newEnd, r8) =>
        (r8.isEmpty, { h4 with new := { h4.new with count := normalCount command h4.new.start newEnd } })

/-- the end of the old range -/
def normalStep1 (hasComma : Bool) (h1 : Hunk) (r2 : Bytes) : Option (Hunk × Bytes) :=
  if hasComma then
    let (ok2, e, r3) := consumeLineNumber r2 0
    if !ok2 then none
    else if e < h1.old.start then none
    else some ({ h1 with old := { h1.old with count := e - h1.old.start + 1 } }, r3)
  else some (h1, r2)

theorem parseNormalRange_eq (h : Hunk) (line : Bytes) : parseNormalRange h line =
    (let (ok, os, r1) := consumeLineNumber line h.old.start
     let h1 : Hunk := { h with old := { h.old with start := os } }
     if !ok then (false, h1)
     else
       let (hasComma, r2) := match consumeStr [44] r1 with
         | some r => (true, r)
         | none => (false, r1)
       match normalStep1 hasComma h1 r2 with
       | none => (false, h1)
       | some (h2, r3) => normalTail hasComma h2 r3) := rfl


theorem normalEnd_small {hc : Bool} {cmd : UInt8} {ns : Int} {r5 : Bytes} {e : Int} {r8 : Bytes} (hns : Small ns)
    (h : normalEnd hc cmd ns r5 = some (e, r8)) : Small e := by
  unfold normalEnd at h
  generalize consumeStr [44] r5 = oc at h
  cases oc with
  | none => simp only [Option.some.injEq, Prod.mk.injEq] at h; rw [← h.1]; exact hns
  | some r6 =>
    simp only at h
    split at h
    · cases h
    · split at h
      · cases h
      · have h2 := consumeLineNumber_small r6 0
        generalize consumeLineNumber r6 0 = t at h h2
        obtain ⟨ok4, e', r7⟩ := t
        simp only at h h2
        cases ok4 with
        | false => simp at h
        | true =>
          simp only [Bool.not_true, Bool.false_eq_true, if_false, Option.some.injEq, Prod.mk.injEq] at h
          rw [← h.1]; exact h2 rfl

/-- a `d` command has no range of lines in the new file: its new range ends where it starts -/
theorem normalEnd_d {hc : Bool} {cmd : UInt8} {ns : Int} {r5 : Bytes} {e : Int} {r8 : Bytes} (hd : (cmd == 100) = true)
    (h : normalEnd hc cmd ns r5 = some (e, r8)) : e = ns ∧ r8 = r5 := by
  unfold normalEnd at h
  generalize consumeStr [44] r5 = oc at h
  cases oc with
  | none => simp only [Option.some.injEq, Prod.mk.injEq] at h; exact ⟨h.1.symm, h.2.symm⟩
  | some r6 =>
    simp only at h
    split at h
    · cases h
    · first | cases h | (rw [if_pos hd] at h; cases h)

/-- (statement changed with the model: the lower bound was `-(i64Max / 4) - 1`, the count of a range that ends before it
    starts; such a range is empty now) -/
theorem normalCount_bounds (cmd : UInt8) {ns e : Int} (hns : Small ns) (he : Small e) :
    -1 ≤ normalCount cmd ns e ∧ normalCount cmd ns e ≤ i64Max / 4 + 1 ∧ ((cmd == 100) = false → 0 ≤ normalCount cmd ns e) := by
  rw [small_iff] at hns he
  rw [i64Max_div4]
  unfold normalCount
  simp only
  refine ⟨?_, ?_, ?_⟩
  · split <;> omega
  · split <;> omega
  · intro hc; rw [hc]; simp only [Bool.false_eq_true, if_false]; omega

theorem normalCount_d (cmd : UInt8) (ns : Int) (hd : (cmd == 100) = true) : normalCount cmd ns ns = 0 := by
  unfold normalCount
  simp only [hd, if_true]
  omega

/-- the new count of a normal range is never negative: `max` for `a` and `c`, and a `d` command has none -/
theorem normalEnd_count {hc : Bool} {cmd : UInt8} {ns : Int} {r5 : Bytes} {e : Int} {r8 : Bytes} (hns : Small ns)
    (h : normalEnd hc cmd ns r5 = some (e, r8)) :
    0 ≤ normalCount cmd ns e ∧ normalCount cmd ns e ≤ i64Max / 4 + 1 ∧ ((cmd == 100) = true → normalCount cmd ns e = 0) := by
  have he := normalEnd_small hns h
  have hb := normalCount_bounds cmd hns he
  cases hd : cmd == 100 with
  | false => exact ⟨hb.2.2 hd, hb.2.1, fun x => by cases x⟩
  | true =>
    obtain ⟨rfl, _⟩ := normalEnd_d hd h
    have := normalCount_d cmd e hd
    refine ⟨by omega, hb.2.1, fun _ => this⟩

theorem normalStep1_some {hc : Bool} {h1 h2 : Hunk} {r2 r3 : Bytes} (hs : Small h1.old.start)
    (h : normalStep1 hc h1 r2 = some (h2, r3)) :
    h2.old.start = h1.old.start ∧ h2.new = h1.new ∧
    (hc = true → 1 ≤ h2.old.count ∧ h2.old.count ≤ i64Max / 4 + 1) := by
  unfold normalStep1 at h
  cases hc with
  | false =>
    simp only [Bool.false_eq_true, if_false, Option.some.injEq, Prod.mk.injEq] at h
    rw [← h.1]; exact ⟨rfl, rfl, fun x => by cases x⟩
  | true =>
    simp only [if_true] at h
    have hl := consumeLineNumber_small r2 0
    generalize consumeLineNumber r2 0 = t at h hl
    obtain ⟨ok2, e, r3'⟩ := t
    simp only at h hl
    cases ok2 with
    | false => simp at h
    | true =>
      have he := hl rfl
      simp only [Bool.not_true, Bool.false_eq_true, if_false] at h
      split at h
      · cases h
      · next hlt =>
        simp only [Option.some.injEq, Prod.mk.injEq] at h
        rw [← h.1]
        refine ⟨rfl, rfl, fun _ => ?_⟩
        rw [small_iff] at hs he
        rw [i64Max_div4]
        simp only
        omega

theorem normalTail_ok {hc : Bool} {h2 : Hunk} {r3 : Bytes} (h : (normalTail hc h2 r3).1 = true) :
    (normalTail hc h2 r3).2.old.start = h2.old.start ∧
    (hc = true → (normalTail hc h2 r3).2.old.count = h2.old.count) ∧
    (hc = false → (normalTail hc h2 r3).2.old.count = 0 ∨ (normalTail hc h2 r3).2.old.count = 1) ∧
    Small (normalTail hc h2 r3).2.new.start ∧
    0 ≤ (normalTail hc h2 r3).2.new.count ∧ (normalTail hc h2 r3).2.new.count ≤ i64Max / 4 + 1 ∧
    (((normalCmd r3).1 == 100) = true → (normalTail hc h2 r3).2.new.count = 0) := by
  unfold normalTail at h ⊢
  generalize normalCmd r3 = t0 at h ⊢
  obtain ⟨cmd, r4⟩ := t0
  simp only at h ⊢
  split at h
  · cases h
  · next hcmd =>
    rw [if_neg hcmd]
    have h3s : (normalH3 hc cmd h2).old.start = h2.old.start := by unfold normalH3; split <;> rfl
    have h3c1 : hc = true → (normalH3 hc cmd h2).old.count = h2.old.count := by
      intro e; subst e; rfl
    have h3c0 : hc = false → (normalH3 hc cmd h2).old.count = 0 ∨ (normalH3 hc cmd h2).old.count = 1 := by
      intro e; subst e; unfold normalH3; simp only [Bool.not_false, if_true]; split
      · exact Or.inl rfl
      · exact Or.inr rfl
    generalize normalH3 hc cmd h2 = h3 at h h3s h3c1 h3c0 ⊢
    have hl := consumeLineNumber_small r4 h3.new.start
    generalize consumeLineNumber r4 h3.new.start = t at h hl ⊢
    obtain ⟨ok3, ns, r5⟩ := t
    simp only at h hl ⊢
    cases ok3 with
    | false => simp at h
    | true =>
      have hns := hl rfl
      simp only [Bool.not_true, Bool.false_eq_true, if_false] at h ⊢
      have he := @normalEnd_count hc cmd ns r5
      generalize normalEnd hc cmd ns r5 = oe at h he ⊢
      cases oe with
      | none => cases h
      | some p =>
        obtain ⟨e, r8⟩ := p
        simp only at h ⊢
        have := he hns rfl
        exact ⟨h3s, h3c1, h3c0, hns, this.1, this.2.1, this.2.2⟩

/-- (statement changed with the model: the lower bound of the new count was `-(i64Max / 4) - 1`) -/
theorem parseNormalRange_bounds (h0 : Hunk) (l : Bytes) (h : (parseNormalRange h0 l).1 = true) :
    Small (parseNormalRange h0 l).2.old.start ∧
    0 ≤ (parseNormalRange h0 l).2.old.count ∧ (parseNormalRange h0 l).2.old.count ≤ i64Max / 4 + 1 ∧
    Small (parseNormalRange h0 l).2.new.start ∧
    0 ≤ (parseNormalRange h0 l).2.new.count ∧ (parseNormalRange h0 l).2.new.count ≤ i64Max / 4 + 1 := by
  rw [parseNormalRange_eq] at h ⊢
  have h1 := consumeLineNumber_small l h0.old.start
  generalize consumeLineNumber l h0.old.start = t1 at h h1 ⊢
  obtain ⟨ok, os, r1⟩ := t1
  simp only at h h1 ⊢
  cases ok with
  | false => simp at h
  | true =>
    have hos := h1 rfl
    simp only [Bool.not_true, Bool.false_eq_true, if_false] at h ⊢
    have key : ∀ (hc : Bool) (r2 : Bytes),
        ((match normalStep1 hc { h0 with old := { h0.old with start := os } } r2 with
          | none => (false, ({ h0 with old := { h0.old with start := os } } : Hunk))
          | some (h2, r3) => normalTail hc h2 r3).1 = true) →
        let R := (match normalStep1 hc { h0 with old := { h0.old with start := os } } r2 with
          | none => (false, ({ h0 with old := { h0.old with start := os } } : Hunk))
          | some (h2, r3) => normalTail hc h2 r3).2
        Small R.old.start ∧ 0 ≤ R.old.count ∧ R.old.count ≤ i64Max / 4 + 1 ∧ Small R.new.start ∧
          0 ≤ R.new.count ∧ R.new.count ≤ i64Max / 4 + 1 := by
      intro hc r2 hk
      have hst := fun h2 r3 => @normalStep1_some hc { h0 with old := { h0.old with start := os } } h2 r2 r3 hos
      generalize normalStep1 hc { h0 with old := { h0.old with start := os } } r2 = st at hk hst ⊢
      cases st with
      | none => cases hk
      | some p =>
        obtain ⟨h2, r3⟩ := p
        simp only at hk ⊢
        obtain ⟨a1, a2, a3⟩ := hst h2 r3 rfl
        obtain ⟨b1, b2, b3, b4, b5, b6, _⟩ := normalTail_ok hk
        refine ⟨?_, ?_, ?_, b4, b5, b6⟩
        · rw [b1, a1]; exact hos
        · cases hc with
          | true => rw [b2 rfl]; have := (a3 rfl).1; omega
          | false => rcases b3 rfl with e | e <;> rw [e] <;> omega
        · rw [i64Max_div4]
          cases hc with
          | true => rw [b2 rfl]; have := (a3 rfl).2; rw [i64Max_div4] at this; exact this
          | false => rcases b3 rfl with e | e <;> rw [e] <;> omega
    generalize consumeStr [44] r1 = oc at h ⊢
    cases oc with
    | none => exact key false r1 h
    | some r2 => exact key true r2 h


/-! ### the command letter of a normal range line -/

/-- a digit or a comma: what the ranges of a normal command line are made of -/
def rangeByte (c : UInt8) : Bool := isDigit c || c == 44

/-- the command letter of a normal range line: the first byte that is neither a digit nor a comma (0 if there is none) -/
def normalCmdOf (l : Bytes) : UInt8 := (normalCmd (l.dropWhile rangeByte)).1

theorem consumeLineNumber_rest (r : Bytes) (cur : Int) (h : (consumeLineNumber r cur).1 = true) :
    (consumeLineNumber r cur).2.2 = r.dropWhile isDigit := by
  unfold consumeLineNumber at h ⊢
  cases r with
  | nil => cases h
  | cons c r =>
    simp only at h ⊢
    split
    · rfl
    · next hd => rw [if_neg hd] at h; cases h

theorem dropWhile_rangeByte_digits (r : Bytes) : (r.dropWhile isDigit).dropWhile rangeByte = r.dropWhile rangeByte := by
  induction r with
  | nil => rfl
  | cons c r ih =>
    by_cases hd : isDigit c = true
    · have : rangeByte c = true := by unfold rangeByte; rw [hd]; rfl
      rw [List.dropWhile_cons_of_pos hd, List.dropWhile_cons_of_pos this, ih]
    · rw [List.dropWhile_cons_of_neg hd]

theorem consumeStr_comma_some {r r2 : Bytes} (h : consumeStr [44] r = some r2) : r = 44 :: r2 := by
  unfold consumeStr at h
  cases r with
  | nil => simp [List.isPrefixOf] at h
  | cons c r =>
    simp only [List.isPrefixOf, Bool.and_true, beq_iff_eq] at h
    split at h
    · next hc => simp only [List.length_cons, List.length_nil, List.drop_succ_cons, List.drop_zero, Option.some.injEq] at h
                 rw [← hc, h]
    · cases h

theorem normalStep1_rest {hc : Bool} {h1 h2 : Hunk} {r2 r3 : Bytes} (h : normalStep1 hc h1 r2 = some (h2, r3)) :
    r3.dropWhile rangeByte = r2.dropWhile rangeByte := by
  unfold normalStep1 at h
  cases hc with
  | false =>
    simp only [Bool.false_eq_true, if_false, Option.some.injEq, Prod.mk.injEq] at h
    rw [h.2]
  | true =>
    simp only [if_true] at h
    have hl := consumeLineNumber_rest r2 0
    generalize consumeLineNumber r2 0 = t at h hl
    obtain ⟨ok2, e, r3'⟩ := t
    simp only at h hl
    cases ok2 with
    | false => simp at h
    | true =>
      simp only [Bool.not_true, Bool.false_eq_true, if_false] at h
      split at h
      · cases h
      · simp only [Option.some.injEq, Prod.mk.injEq] at h
        rw [← h.2, hl rfl, dropWhile_rangeByte_digits]

/-- the command letter of an accepted line is `a`, `c` or `d`, and the ranges before it are digits and commas -/
theorem normalTail_cmd {hc : Bool} {h2 : Hunk} {r3 : Bytes} (h : (normalTail hc h2 r3).1 = true) :
    r3.dropWhile rangeByte = r3 ∧
    ((normalCmd r3).1 = 99 ∨ (normalCmd r3).1 = 97 ∨ (normalCmd r3).1 = 100) := by
  unfold normalTail at h
  generalize hcr : normalCmd r3 = t0 at h ⊢
  obtain ⟨cmd, r4⟩ := t0
  simp only at h ⊢
  split at h
  · cases h
  · next hcmd =>
    have hc3 : cmd = 99 ∨ cmd = 97 ∨ cmd = 100 := by
      by_cases h1 : cmd = 99
      · exact Or.inl h1
      · by_cases h2 : cmd = 97
        · exact Or.inr (Or.inl h2)
        · by_cases h3 : cmd = 100
          · exact Or.inr (Or.inr h3)
          · exact absurd (by simp [h1, h2, h3]) hcmd
    refine ⟨?_, hc3⟩
    cases r3 with
    | nil =>
      simp only [normalCmd, Prod.mk.injEq] at hcr
      rcases hc3 with e | e | e <;> rw [e] at hcr <;> exact absurd hcr.1 (by decide)
    | cons c r =>
      simp only [normalCmd, Prod.mk.injEq] at hcr
      have : rangeByte c = false := by rw [hcr.1]; rcases hc3 with e | e | e <;> rw [e] <;> decide
      rw [List.dropWhile_cons_of_neg (by rw [this]; decide)]

/-- **a `d` command adds nothing**: an accepted normal range line whose command letter is `d` has a new range of no lines;
    and every accepted line has one of the three command letters -/
theorem parseNormalRange_cmd (h0 : Hunk) (l : Bytes) (h : (parseNormalRange h0 l).1 = true) :
    (normalCmdOf l = 99 ∨ normalCmdOf l = 97 ∨ normalCmdOf l = 100) ∧
    (normalCmdOf l = 100 → (parseNormalRange h0 l).2.new.count = 0) := by
  rw [parseNormalRange_eq] at h ⊢
  have h1 := consumeLineNumber_rest l h0.old.start
  generalize consumeLineNumber l h0.old.start = t1 at h h1 ⊢
  obtain ⟨ok, os, r1⟩ := t1
  simp only at h h1 ⊢
  cases ok with
  | false => simp at h
  | true =>
    have hr1 := h1 rfl
    simp only [Bool.not_true, Bool.false_eq_true, if_false] at h ⊢
    have key : ∀ (hc : Bool) (r2 : Bytes), r2.dropWhile rangeByte = l.dropWhile rangeByte →
        ((match normalStep1 hc { h0 with old := { h0.old with start := os } } r2 with
          | none => (false, ({ h0 with old := { h0.old with start := os } } : Hunk))
          | some (h2, r3) => normalTail hc h2 r3).1 = true) →
        let R := (match normalStep1 hc { h0 with old := { h0.old with start := os } } r2 with
          | none => (false, ({ h0 with old := { h0.old with start := os } } : Hunk))
          | some (h2, r3) => normalTail hc h2 r3).2
        (normalCmdOf l = 99 ∨ normalCmdOf l = 97 ∨ normalCmdOf l = 100) ∧ (normalCmdOf l = 100 → R.new.count = 0) := by
      intro hc r2 hr2 hk
      have hst := fun h2 r3 => @normalStep1_rest hc { h0 with old := { h0.old with start := os } } h2 r2 r3
      generalize normalStep1 hc { h0 with old := { h0.old with start := os } } r2 = st at hk hst ⊢
      cases st with
      | none => cases hk
      | some p =>
        obtain ⟨h2, r3⟩ := p
        simp only at hk ⊢
        obtain ⟨c1, c2⟩ := normalTail_cmd hk
        have e : normalCmdOf l = (normalCmd r3).1 := by
          unfold normalCmdOf; rw [← hr2, ← hst h2 r3 rfl, c1]
        rw [e]
        refine ⟨c2, fun hd => ?_⟩
        exact (normalTail_ok hk).2.2.2.2.2.2 (by rw [hd]; rfl)
    have hl1 : r1.dropWhile rangeByte = l.dropWhile rangeByte := by rw [hr1, dropWhile_rangeByte_digits]
    cases hoc : consumeStr [44] r1 with
    | none => exact key false r1 hl1 (by rw [hoc] at h; exact h)
    | some r2 =>
      have := consumeStr_comma_some hoc
      refine key true r2 ?_ (by rw [hoc] at h; exact h)
      rw [← hl1, this, List.dropWhile_cons_of_pos (by decide)]

/-! ### the hunk loop -/

theorem oldOf_length_le (ls : List PatchLine) : (oldOf ls).length ≤ ls.length := by
  unfold oldOf; rw [List.length_map]; exact List.length_filter_le _ _

theorem newOf_length_le (ls : List PatchLine) : (newOf ls).length ≤ ls.length := by
  unfold newOf; rw [List.length_map]; exact List.length_filter_le _ _

/-- what `finishHunk` does to `offset_old_lines_to_new`: unchanged, or the net growth of the hunk -/
theorem finishHunk_offNew {file : List Line} {o : ApplyOpts} {p : Patch} {s s' : AState} {num : Nat} {h : Hunk}
    {loc : Option Location} (hs : finishHunk file o p s num h loc = .ok s') :
    s'.offNew = s.offNew ∨ s'.offNew = s.offNew + (h.new.count - h.old.count) := by
  unfold finishHunk at hs
  simp only [] at hs
  split at hs
  · cases hs
  · next s1 hs1 =>
    have h1 : s1.offNew = s.offNew := by
      split at hs1
      · split at hs1
        · cases hs1
        · split at hs1
          · cases hs1
          · cases hs1; rfl
      · split at hs1
        · cases hs1
        · cases hs1; rfl
    cases hs
    rw [← h1]
    (repeat' split) <;> simp

/-- the only exception of the hunk loop over well-formed hunks (no -D): none -/
theorem runLoop_ok {file : List Line} {o : ApplyOpts} {p : Patch} {s : AState}
    (hsound : Apply.LocatorSound file o.ignoreWhitespace o.maxFuzz) (hD : o.define = [])
    (hwf : ∀ h ∈ p.hunks, h.WF) : ∃ r, Apply.runLoop file o p s = .ok r := by
  obtain ⟨s3, h3⟩ := Apply.applyRest_total (p := p) hsound hD p.hunks s 0 hwf
  exact ⟨_, by unfold Apply.runLoop; rw [h3]⟩

/-- for well-formed hunks without -D the only exception `apply_patch` can end in is the missing tty -/
theorem applyPatch_error {file : List Line} {p0 : Patch} {o : ApplyOpts} {tty : Option (List Bool)} {e : Exn}
    (hsound : Apply.LocatorSound file o.ignoreWhitespace o.maxFuzz)
    (hwf : ∀ h ∈ p0.hunks, h.WF) (hD : o.define = []) (he : applyPatch file p0 o tty = .error e) :
    e = .systemError ∧ o.ignoreReversed = false ∧ o.batch = false ∧ o.force = false ∧ tty = none := by
  rcases Apply.applyPatch_cases file p0 o tty with ⟨h0, h1, h2, h3, h4⟩ | ⟨p', s1, _, hp, heq⟩
  · rw [h0] at he; cases he; exact ⟨rfl, h1, h2, h3, h4⟩
  · obtain ⟨r, hr⟩ := runLoop_ok (p := p') (s := s1) hsound hD (Apply.hunks_WF_of_cases hwf hp)
    rw [heq, hr] at he; cases he

end PatchModel.Bounds
