/-
  Lemmas/Bounds — numbers read from a patch are bounded (C07): `string_to_line_number` / `consume_line_number`
  return values in [0, i64Max / 4], and the three range parsers store only such numbers (or small
  differences of them).
-/
import PatchModel.Lemmas.Unified
namespace PatchModel.Bounds
open PatchModel

/-- `[0, i64Max / 4]` -/
def Small (v : Int) : Prop := 0 ≤ v ∧ v ≤ i64Max / 4

theorem i64Max_div4 : i64Max / 4 = 2305843009213693951 := by decide

theorem small_iff (v : Int) : Small v ↔ 0 ≤ v ∧ v ≤ 2305843009213693951 := by
  unfold Small; rw [i64Max_div4]

theorem small_zero : Small 0 := by rw [small_iff]; omega
theorem small_one : Small 1 := by rw [small_iff]; omega

/-- `string_to_line_number` never makes its accumulator negative (whether it succeeds or not) -/
theorem stringToLineNumber_nonneg (ds : Bytes) (acc : Int) (h : 0 ≤ acc) : 0 ≤ (stringToLineNumber ds acc).2 := by
  induction ds generalizing acc with
  | nil => exact h
  | cons c ds ih =>
    rw [stringToLineNumber]
    split
    · exact h
    · simp only
      split
      · show 0 ≤ acc * 10; omega
      · apply ih; omega

/-- a successful `string_to_line_number` only grows its accumulator and stays within `int64_t` -/
theorem stringToLineNumber_ok (ds : Bytes) (acc : Int) (h : 0 ≤ acc) (ha : acc ≤ i64Max)
    (hok : (stringToLineNumber ds acc).1 = true) :
    acc ≤ (stringToLineNumber ds acc).2 ∧ (stringToLineNumber ds acc).2 ≤ i64Max := by
  induction ds generalizing acc with
  | nil => exact ⟨Int.le_refl _, ha⟩
  | cons c ds ih =>
    rw [stringToLineNumber] at hok ⊢
    split at hok
    · cases hok
    · simp only at hok ⊢
      split at hok
      · cases hok
      · next h1 h2 =>
        rw [if_neg h1, if_neg h2]
        have := ih (acc * 10 + ((c.toNat - 48 : Nat) : Int)) (by omega) (by omega) hok
        omega

/-- the shape of a successful `consume_line_number` -/
theorem consumeLineNumber_small (r : Bytes) (cur : Int) (h : (consumeLineNumber r cur).1 = true) :
    Small (consumeLineNumber r cur).2.1 := by
  unfold consumeLineNumber at h ⊢
  cases r with
  | nil => cases h
  | cons c r =>
    simp only at h ⊢
    split
    · next hd =>
      rw [if_pos hd] at h
      simp only [Bool.and_eq_true, decide_eq_true_eq] at h
      exact ⟨stringToLineNumber_nonneg _ 0 (Int.le_refl 0), h.2⟩
    · next hd =>
      rw [if_neg hd] at h
      cases h

/-- same, with the triple destructured -/
theorem consumeLineNumber_small' {r : Bytes} {cur v : Int} {rest : Bytes}
    (h : consumeLineNumber r cur = (true, v, rest)) : Small v := by
  have := consumeLineNumber_small r cur (by rw [h])
  rw [h] at this; exact this

/-- the `consumeRange` closure of `parseUnifiedRange`: both numbers bounded on success -/
theorem consumeRange_small (r : Range) (inp : Bytes) (h : (Unified.consumeRange r inp).1 = true) :
    Small (Unified.consumeRange r inp).2.1.start ∧ Small (Unified.consumeRange r inp).2.1.count := by
  unfold Unified.consumeRange at h ⊢
  have h1 := consumeLineNumber_small inp r.start
  generalize consumeLineNumber inp r.start = t at h h1 ⊢
  obtain ⟨ok, v, rest⟩ := t
  simp only at h h1 ⊢
  cases ok with
  | false => simp at h
  | true =>
    have hv := h1 rfl
    simp only [Bool.not_true, Bool.false_eq_true, if_false] at h ⊢
    split
    · next rest2 _ =>
      simp only at h
      have h2 := consumeLineNumber_small rest2 r.count
      generalize consumeLineNumber rest2 r.count = t2 at h h2 ⊢
      obtain ⟨ok2, c, rest3⟩ := t2
      simp only at h h2 ⊢
      exact ⟨hv, h2 h⟩
    · exact ⟨hv, small_one⟩

theorem parseUnifiedRange_small (h0 : Hunk) (l : Bytes) (h : (parseUnifiedRange h0 l).1 = true) :
    Small (parseUnifiedRange h0 l).2.old.start ∧ Small (parseUnifiedRange h0 l).2.old.count ∧
    Small (parseUnifiedRange h0 l).2.new.start ∧ Small (parseUnifiedRange h0 l).2.new.count := by
  rw [Unified.parseUnifiedRange_eq] at h ⊢
  split at h
  · cases h
  · next r1 _ =>
    simp only at h ⊢
    have ho := consumeRange_small h0.old r1
    generalize Unified.consumeRange h0.old r1 = t at h ho ⊢
    obtain ⟨ok, oldR, r2⟩ := t
    simp only at h ho ⊢
    cases ok with
    | false => simp at h
    | true =>
      have ho' := ho rfl
      simp only [Bool.not_true, Bool.false_eq_true, if_false] at h ⊢
      split at h
      · cases h
      · next r3 _ =>
        simp only at h ⊢
        have hn := consumeRange_small h0.new r3
        generalize Unified.consumeRange h0.new r3 = t2 at h hn ⊢
        obtain ⟨ok2, newR, r4⟩ := t2
        simp only at h hn ⊢
        cases ok2 with
        | false => simp at h
        | true =>
          have hn' := hn rfl
          simp only [Bool.not_true, Bool.false_eq_true, if_false] at h ⊢
          split at h
          · cases h
          · exact ⟨ho'.1, ho'.2, hn'.1, hn'.2⟩

theorem parseContextRange_small (s e : Int) (t : Bytes) (h : (parseContextRange s e t).1 = true) :
    Small (parseContextRange s e t).2.1 ∧ Small (parseContextRange s e t).2.2 := by
  unfold parseContextRange at h ⊢
  have h1 := consumeLineNumber_small t s
  generalize consumeLineNumber t s = t1 at h h1 ⊢
  obtain ⟨ok, v, r1⟩ := t1
  simp only at h h1 ⊢
  cases ok with
  | false => simp at h
  | true =>
    have hv := h1 rfl
    simp only [Bool.not_true, Bool.false_eq_true, if_false] at h ⊢
    split
    · exact ⟨hv, hv⟩
    · next r2 _ =>
      simp only at h
      have h2 := consumeLineNumber_small r2 e
      generalize consumeLineNumber r2 e = t2 at h h2 ⊢
      obtain ⟨ok2, c, r3⟩ := t2
      simp only at h h2 ⊢
      exact ⟨hv, h2 h⟩

end PatchModel.Bounds
