/-
  Lemmas/RunR — what the reverse (`-R`) run of the whole modelled program needs on top of Lemmas/Section and Lemmas/Run:

  * `ChangeSection` / `change_run` / `processSection_change(_dry)`: `Section.PlainSection` / `section_run` /
    `processSection_clean(_dry)` stated for a patch `patch3` that the APPLIER hands back (`r.patch = patch3`) and that need not be
    the parsed patch `patch2` — with `-R`, `apply_patch` swaps the sides of the patch it was given and the driver afterwards
    looks at the swapped one (`operation`, `format`, `newMode`, which is the OLD mode of the header).  `processSection` itself
    looks at `o.reverse` in two places only: `guess_filepath` (not called when the file operand is given) and `outputPath`
    (for a rename or copy only), so nothing about `o.reverse` is asked here.
  * `parse_diffLines_modes`: `Run.parse_diffLines` with the additional fact `patch0.oldMode = 0` (a unified header without
    mode lines states no mode on either side; under `-R` the old mode becomes the new one).
  * `noReversedD2_of_valid`: the mirror image of known finding D2 (a hunk that states `+0,0`, i.e. after reversal a context-free
    insertion at line 0) cannot occur in a `Valid` script whose first hunk states a new start other than 0.
  * `splitLines_renderLines_lf`, `renderLines_noCrlf`: LF-only text is read back as it was written.
-/
import PatchModel.Lemmas.Run
import PatchModel.Props.C05
import PatchModel.Props.C14
namespace PatchModel.RunR
open PatchModel PatchModel.DriverFacts PatchModel.Section PatchModel.Run PatchModel.Unified

/-! ### one clean "change" section, the applier's patch not tied to the parsed one -/

/-- `Section.PlainSection` with `patch3`, the patch `apply_patch` hands back, in place of `patch2` where the driver looks at the
    patch AFTER the applier ran -/
structure ChangeSection (o : Options) (fmt : Format) (s : DState) (p bytes : Bytes) (m : Nat)
    (patch0 patch2 patch3 : Patch) (info : HeaderInfo) (par1 par2 : Parser) (r : ApplyResult) : Prop where
  operand : o.fileToPatch = p
  noOut : o.outFile = []
  noBackup : o.saveBackup = false
  pathNe : p ≠ []
  cwd : s.cwd = []
  hdr : parseHeader s.par { format := fmt } o.strip = .ok (true, patch0, info, par1)
  fmt : patch0.format = .unified ∨ patch0.format = .context ∨ patch0.format = .normal
  op : patch0.operation = .change
  pre : patch0.prerequisite = []
  body : parseBody par1 patch0 = .ok (patch2, par2)
  file : s.fs.lookup p = some (.file bytes m)
  writable : m &&& writeMask ≠ 0
  root : s.fs.isRoot = true
  noFault : s.faultAt = none
  apply : applyPatch (splitLines bytes) patch2 (applyOptsOf o)
      (Option.map (fun l => List.map (fun a => !List.isEmpty a && List.head? a != some 110) l) s.tty) = .ok r
  failed : r.failed = 0
  perfect : r.perfect = true
  skipped : r.skipped = false
  msgs : r.msgs = []
  ttyLeft : r.tty = Option.map (fun l => List.map (fun a => !List.isEmpty a && List.head? a != some 110) l) s.tty
  patch : r.patch = patch3
  fmt3 : patch3.format = patch0.format
  op3 : patch3.operation = .change
  newMode3 : patch3.newMode = 0

/-- a `PlainSection` is a `ChangeSection` whose applier hands the parsed patch back -/
theorem ChangeSection.of_plain {o : Options} {fmt : Format} {s : DState} {p bytes : Bytes} {m : Nat}
    {patch0 patch2 : Patch} {info : HeaderInfo} {par1 par2 : Parser} {r : ApplyResult}
    (H : PlainSection o fmt s p bytes m patch0 patch2 info par1 par2 r) :
    ChangeSection o fmt s p bytes m patch0 patch2 patch2 info par1 par2 r :=
  { operand := H.operand, noOut := H.noOut, noBackup := H.noBackup, pathNe := H.pathNe, cwd := H.cwd, hdr := H.hdr,
    fmt := H.fmt, op := H.op, pre := H.pre, body := H.body, file := H.file, writable := H.writable, root := H.root,
    noFault := H.noFault, apply := H.apply, failed := H.failed, perfect := H.perfect, skipped := H.skipped, msgs := H.msgs,
    ttyLeft := H.ttyLeft, patch := H.patch, fmt3 := H.fmt2, op3 := H.op2, newMode3 := H.newMode2 }

section
variable {o : Options} {fmt : Format} {s : DState} {p bytes : Bytes} {m : Nat}
  {patch0 patch2 patch3 : Patch} {info : HeaderInfo} {par1 par2 : Parser} {r : ApplyResult}

/-- `Section.section_run` for a `ChangeSection` -/
syntax "change_run " "[" Lean.Parser.Tactic.simpLemma,* "]" : tactic
set_option hygiene false in
macro_rules | `(tactic| change_run [$ls,*]) => `(tactic| (
  have hfu : (patch0.format == Format.unknown) = false := by
    rcases H.fmt with h | h | h <;> rw [h] <;> rfl
  have hfg : (patch3.format == Format.git) = false := by
    rw [H.fmt3]; rcases H.fmt with h | h | h <;> rw [h] <;> rfl
  have hob : (patch0.operation == Operation.binary) = false := by rw [H.op]; rfl
  have hor : (patch0.operation == Operation.rename) = false := by rw [H.op]; rfl
  have hoc : (patch0.operation == Operation.copy) = false := by rw [H.op]; rfl
  have hoa3 : (patch3.operation == Operation.add) = false := by rw [H.op3]; rfl
  have hor3 : (patch3.operation == Operation.rename) = false := by rw [H.op3]; rfl
  have hoc3 : (patch3.operation == Operation.copy) = false := by rw [H.op3]; rfl
  have hod3 : (patch3.operation == Operation.delete) = false := by rw [H.op3]; rfl
  have hpe : List.isEmpty p = false := by
    cases p with
    | nil => exact absurd rfl H.pathNe
    | cons _ _ => rfl
  have hout : outputPath o patch0 p = p := by
    unfold outputPath; simp [H.noOut, hor, hoc]
  have hdash : (o.outFile == [45]) = false := by rw [H.noOut]; rfl
  unfold processSection
  simp only [↓run_bind, ↓run_get, ↓run_liftE, ↓run_modify, ↓run_pure, ↓run_emit,
    H.hdr, hfu, hob, H.operand, hpe, hout, hor, hdash,
    Bool.false_eq_true, ↓reduceIte, Bool.false_and, Bool.and_false, Bool.not_true, Bool.not_false,
    Bool.or_false, Bool.false_or, Bool.and_true, Bool.true_and,
    run_createTemp, H.noFault, H.cwd,
    run_fsExists_file (b := bytes) (m := m), run_fsIsRegular_file (b := bytes) (m := m),
    run_fsIsSymlink_file (b := bytes) (m := m), H.file,
    (fun s' => @run_fixPermissions_writable o s' p bytes m), H.writable, ne_eq, not_false_eq_true,
    absPath_nil, readFile_root (b := bytes) (m := m), H.root,
    H.pre, List.isEmpty_nil,
    run_parseBodyM_true (pt' := patch2) (par' := par2), H.body,
    H.apply, H.msgs, H.failed, H.perfect, H.skipped, H.patch, H.noBackup, hoa3, hor3, hoc3, hod3,
    bne_self_eq_false, beq_self_eq_true, H.ttyLeft, hfg, H.newMode3, $ls,*]))

/-- **a clean "change" section, real run** (`Section.processSection_clean` for a `ChangeSection`) -/
theorem processSection_change (H : ChangeSection o fmt s p bytes m patch0 patch2 patch3 info par1 par2 r)
    (hreal : o.dryRun = false) (hdir : s.fs.dirExists (parentOf p) = true) :
    ∃ s', (processSection o fmt).run s = (.ok true, s') ∧
      s'.fs = s.fs.set p (.file (render o.newlineOutput r.out) m) ∧
      s'.trace = s.trace ++ [.tmpCreate, .tmpUnlink] ++ [.tmpCreate, .tmpUnlink] ++
        resultOps p (render o.newlineOutput r.out) m ∧
      SectionDone s s' p par2 false := by
  change_run [hreal, (fun s' pt c perm => @run_writePatchedResult_plain s' p bytes m o pt c m perm), hdir]
  refine ⟨_, rfl, rfl, rfl, ⟨rfl, rfl, rfl, rfl, ?_, ?_, H.cwd.symm, H.noFault.symm, rfl, rfl, rfl, rfl, rfl⟩⟩
  · generalize s.tty = t
    cases t <;> simp
  · simp

/-- **a clean "change" section under --dry-run** -/
theorem processSection_change_dry (H : ChangeSection o fmt s p bytes m patch0 patch2 patch3 info par1 par2 r)
    (hdry : o.dryRun = true) :
    ∃ s', (processSection o fmt).run s = (.ok true, s') ∧
      s'.fs = s.fs ∧
      s'.trace = s.trace ++ [.tmpCreate, .tmpUnlink] ++ [.tmpCreate, .tmpUnlink] ∧
      SectionDone s s' p par2 true := by
  change_run [hdry]
  refine ⟨_, rfl, rfl, rfl, ⟨rfl, rfl, rfl, rfl, ?_, ?_, H.cwd.symm, H.noFault.symm, rfl, rfl, rfl, rfl, rfl⟩⟩
  · generalize s.tty = t
    cases t <;> simp
  · simp

end

/-! ### the header of a unified diff states no mode -/

/-- `Run.parse_diffLines` with the old mode: a header of two file name lines leaves both modes of the patch at 0 -/
theorem parse_diffLines_modes (strip : Int) (fmt : Format) (hfmt : fmt = .unknown ∨ fmt = .unified)
    (filler : List Line) (old new oldt newt : Bytes) (hs : List Hunk) (lineNo : Nat)
    (hin : ∀ l ∈ filler, inertLine l.content = true) (hft : ∀ l ∈ filler, l.newline ≠ .none)
    (hold : Header.plainName old) (hnew : Header.plainName new) (hot : oldt ≠ []) (hnt : newt ≠ [])
    (hne : hs ≠ []) (hw : ∀ h ∈ hs, h.writable = true) (hchg : changeStart hs = true) :
    ∃ patch0 info par1 par2,
      parseHeader { s := { rest := diffLines filler old new oldt newt hs }, lineNo := lineNo } { format := fmt } strip
        = .ok (true, patch0, info, par1) ∧
      patch0.format = .unified ∧ patch0.operation = .change ∧ patch0.prerequisite = [] ∧ patch0.hunks = [] ∧
      patch0.newMode = 0 ∧ patch0.oldMode = 0 ∧ patch0.oldPath = Header.stripped old strip ∧
      parseBody par1 patch0 = .ok ({ patch0 with hunks := hs }, par2) ∧ par2.s.eof = true := by
  cases hs with
  | nil => exact absurd rfl hne
  | cons h hs' =>
    have hwh := hw h List.mem_cons_self
    obtain ⟨pl, more, -, hop, hlines⟩ := flatMap_hunkLines_first h hs' hwh
    have hb : Header.bodyStart (pl.op :: pl.line.content) := by
      rcases hop with e | e | e
      · exact Or.inr (Or.inr ((Header.startsWith_one _ _ _ Header.str_sp).2 (by rw [e]; rfl)))
      · exact Or.inl ((Header.startsWith_one _ _ _ Header.str_plus).2 (by rw [e]; rfl))
      · exact Or.inr (Or.inl ((Header.startsWith_one _ _ _ Header.str_minus).2 (by rw [e]; rfl)))
    have hchg' : h.old.start ≠ 0 ∧ h.new.start ≠ 0 := by simpa [changeStart] using hchg
    have hp := Header.parseHeader_unified' strip
      { s := { rest := diffLines filler old new oldt newt (h :: hs') }, lineNo := lineNo } { format := fmt } filler
      old new oldt newt h ⟨pl.op :: pl.line.content, wireNl pl.line⟩ more hin hft hold hnew hot hnt (rangeOk_of_writable h hwh) hb
      (wireNl_ne_none _) hfmt rfl rfl rfl (by simp only [diffLines]; rw [hlines])
    obtain ⟨par2, hbody, _, heof, _⟩ := unified_roundtrip_eof (h :: hs') hne hw (lineNo + (filler.length + 2))
    rw [hlines] at hbody
    have hinf : Header.inferredOp h = .change := by
      unfold Header.inferredOp; rw [if_neg hchg'.2, if_neg hchg'.1]
    refine ⟨_, _, _, par2, hp, rfl, hinf, rfl, rfl, rfl, rfl, rfl, ?_, heof⟩
    simp only [parseBody]
    rw [hbody]
    rfl

/-! ### D2's mirror image does not occur in the scripts of the end-to-end theorems -/

/-- past the top of the new file no hunk states `+0,0` -/
theorem no_new_zero_of_valid {file : List Line} : ∀ {c : Nat} {d : Int} {hs : List Hunk}, Valid file c d hs →
    0 < (c : Int) + d → ∀ h ∈ hs, ¬ (h.new.count = 0 ∧ h.new.start = 0) := by
  intro c d hs hv
  induction hv with
  | nil c d _ => intro _ h hm; exact absurd hm (by simp)
  | cons c d h hs p hw hp hcp hold hfit hnew hex hv' ih =>
    intro hpos x hx
    rcases List.mem_cons.1 hx with rfl | hx
    · rintro ⟨e1, e2⟩
      unfold Hunk.newPos0 at hnew
      rw [if_pos e1, e2] at hnew
      omega
    · refine ih ?_ x hx
      have h1 := hw.2.1
      have h2 := hw.2.2
      have : (0 : Int) ≤ h.new.count := by rw [h2]; omega
      push_cast
      omega

/-- **the reversed-D2 exclusion of `C05_core` holds of every valid script whose first hunk states a new start other than 0**
    (`changeStart`, the scope condition of the end-to-end theorems): the positions stated on the new side do not decrease -/
theorem noReversedD2_of_valid {file : List Line} {hs : List Hunk} (hv : Valid file 0 0 hs)
    (hchg : changeStart hs = true) : C05.NoReversedD2 file hs := by
  cases hv with
  | nil _ _ _ => intro h hm; exact absurd hm (by simp)
  | cons _ _ h hs p hw hp hcp hold hfit hnew hex hv' =>
    have hchg' : h.old.start ≠ 0 ∧ h.new.start ≠ 0 := by simpa [changeStart] using hchg
    intro x hx
    rcases List.mem_cons.1 hx with rfl | hx
    · rintro ⟨_, e2, _⟩; exact hchg'.2 e2
    · rintro ⟨e1, e2, _⟩
      refine no_new_zero_of_valid hv' ?_ x hx ⟨e1, e2⟩
      have h1 := hw.2.1
      have h2 := hw.2.2
      unfold Hunk.newPos0 at hnew
      push_cast
      by_cases hc : h.new.count = 0
      · rw [if_pos hc] at hnew
        have := hchg'.2
        omega
      · have : (0 : Int) ≤ h.new.count := by rw [h2]; omega
        omega

/-! ### LF-only text -/

/-- lines without CR LF are written alike by every mode but `crlf` -/
theorem renderLines_noCrlf (mode : NewlineOutput) (hm : mode ≠ .crlf) (ls : List Line)
    (h : ∀ l ∈ ls, l.newline ≠ .crlf) : renderLines mode ls = renderLines .keep ls := by
  unfold renderLines
  induction ls with
  | nil => rfl
  | cons l ls ih =>
    rw [List.flatMap_cons, List.flatMap_cons, ih (fun x hx => h x (List.mem_cons_of_mem _ hx))]
    congr 1
    have hl := h l List.mem_cons_self
    rcases l with ⟨c, nl⟩
    cases nl
    · cases mode <;> first | rfl | exact absurd rfl hm
    · exact absurd rfl hl
    · rfl

/-- LF terminated plain lines, written by any mode but `crlf`, are read back as they were -/
theorem splitLines_renderLines_lf (mode : NewlineOutput) (hm : mode ≠ .crlf) (ls : List Line)
    (h : ∀ l ∈ ls, lfPlain l = true) : splitLines (renderLines mode ls) = ls := by
  have e : renderLines mode ls = linesText ls := by
    unfold renderLines linesText
    induction ls with
    | nil => rfl
    | cons l ls ih =>
      rw [List.flatMap_cons, List.flatMap_cons, ih (fun x hx => h x (List.mem_cons_of_mem _ hx))]
      congr 1
      have hl := h l List.mem_cons_self
      unfold lfPlain at hl
      simp only [Bool.and_eq_true, beq_iff_eq] at hl
      rcases l with ⟨c, nl⟩
      simp only at hl
      rw [hl.1]
      cases mode <;> first | rfl | exact absurd rfl hm
  have := splitLines_linesText ls [] h
  rw [List.append_nil] at this
  rw [e, this]
  simp [splitLines, splitLinesGo]

end PatchModel.RunR
