/-
  Lemmas/RunN — the pieces needed to run the whole modelled program on the text of a NORMAL diff (`diff` without options):

  * the range line `s[,e]{a|c|d}t[,f]` (`rangeTextN`) read back by `parseNormalRange` (`parseNormalRange_rangeTextN`);
  * the lines of a hunk (`hunkLinesN`: range line, `< ` lines, `---`, `> ` lines, the `\ No newline at end of file` marker after the
    last line of a side that has no terminator), `NormalShape` (what the reader needs of a hunk), `normalReadSide` on them
    (`readSide_lines`), the body loop on the lines of a script with nothing after them (`parseNormalBody_hunks`: the hunks come
    back exactly and the stream is left with its end-of-file flag SET — which is what stops the section loop);
  * the header scan on such lines (`headerStep_rangeN`, `headerStep_firstN`, `parseHeader_normal`): format `.normal`, no names,
    first hunk on line 1, the stream back at the start;
  * `parse_normalLines`: header scan + body parse as one statement (the analogue of `Run.parse_diffLines`);
  * bytes: `wireBytes`, `splitLines_wireBytes` (lines written with their own terminator are read back as they are).
-/
import PatchModel.Lemmas.Run
import PatchModel.Lemmas.Bounds
namespace PatchModel.RunN
open PatchModel PatchModel.Unified PatchModel.Inert

/-! ### literals -/

theorem str_dashes : str "---" = [45, 45, 45] := by
  unfold str String.toUTF8; rw [Cpp.byteArray_toList_eq_data]; rfl
theorem str_dashes_nl : str "---\n" = [45, 45, 45, 10] := by
  unfold str String.toUTF8; rw [Cpp.byteArray_toList_eq_data]; rfl
theorem str_lt : str "< " = [60, 32] := by
  unfold str String.toUTF8; rw [Cpp.byteArray_toList_eq_data]; rfl
theorem str_gt : str "> " = [62, 32] := by
  unfold str String.toUTF8; rw [Cpp.byteArray_toList_eq_data]; rfl
theorem str_atat : str "@@ -" = [64, 64, 32, 45] := Unified.str_atat_minus

/-! ### the range line -/

/-- one side of the range line: `start`, or `start,last` for more than one line -/
def sideText (r : Range) : Bytes :=
  intDigits r.start ++ (if 1 < r.count then [44] ++ intDigits (r.start + r.count - 1) else [])

/-- the command letter: `a` when nothing is removed, `d` when nothing is added, `c` otherwise -/
def cmdOf (h : Hunk) : UInt8 := if h.old.count = 0 then 97 else if h.new.count = 0 then 100 else 99

/-- the text of the range line of a hunk in a normal diff (without terminator) -/
def rangeTextN (h : Hunk) : Bytes := sideText h.old ++ cmdOf h :: sideText h.new

theorem natDigits_head (n : Nat) : ∃ c r, natDigits n = c :: r ∧ isDigit c = true := by
  cases hd : natDigits n with
  | nil => exact absurd hd (natDigits_ne_nil n)
  | cons c r => exact ⟨c, r, rfl, natDigits_all_digit n c (by rw [hd]; exact List.mem_cons_self)⟩

theorem rangeTextN_head (h : Hunk) (hs : 0 ≤ h.old.start) : ∃ c r, rangeTextN h = c :: r ∧ isDigit c = true := by
  obtain ⟨n, hn⟩ := Int.eq_ofNat_of_zero_le hs
  obtain ⟨c, r, e, hc⟩ := natDigits_head n
  refine ⟨c, r ++ ((if 1 < h.old.count then [44] ++ intDigits (h.old.start + h.old.count - 1) else []) ++ cmdOf h :: sideText h.new), ?_, hc⟩
  unfold rangeTextN sideText
  rw [hn, intDigits_natCast, e]
  simp

theorem cmdOf_cases (h : Hunk) : cmdOf h = 99 ∨ cmdOf h = 97 ∨ cmdOf h = 100 := by
  unfold cmdOf; split
  · exact Or.inr (Or.inl rfl)
  · split
    · exact Or.inr (Or.inr rfl)
    · exact Or.inl rfl

theorem number_roundtrip_nil (n : Nat) (hn : (n : Int) ≤ i64Max / 4) (cur : Int) :
    consumeLineNumber (intDigits (n : Int)) cur = (true, (n : Int), []) := by
  have := number_roundtrip n hn [] cur (by intro c hc; cases hc)
  simpa using this

/-- **the range line is read back**: `parse_normal_range` on `s[,e]{a|c|d}t[,f]` gives the two ranges -/
theorem parseNormalRange_rangeTextN (h0 h : Hunk)
    (hos : 0 ≤ h.old.start) (hoc : 0 ≤ h.old.count) (hob : h.old.start + h.old.count ≤ i64Max / 4)
    (hns : 0 ≤ h.new.start) (hnc : 0 ≤ h.new.count) (hnb : h.new.start + h.new.count ≤ i64Max / 4)
    (hne : ¬ (h.old.count = 0 ∧ h.new.count = 0)) :
    parseNormalRange h0 (rangeTextN h) = (true, { h0 with old := h.old, new := h.new }) := by
  obtain ⟨⟨os, oc⟩, ⟨ns, nc⟩, ls⟩ := h
  simp only at hos hoc hob hns hnc hnb hne
  obtain ⟨s, rfl⟩ := Int.eq_ofNat_of_zero_le hos
  obtain ⟨n, rfl⟩ := Int.eq_ofNat_of_zero_le hoc
  obtain ⟨t, rfl⟩ := Int.eq_ofNat_of_zero_le hns
  obtain ⟨k, rfl⟩ := Int.eq_ofNat_of_zero_le hnc
  have e4 : i64Max / 4 = 2305843009213693951 := Bounds.i64Max_div4
  have hcmd := cmdOf_cases ⟨⟨(s : Int), (n : Int)⟩, ⟨(t : Int), (k : Int)⟩, ls⟩
  generalize hc : cmdOf ⟨⟨(s : Int), (n : Int)⟩, ⟨(t : Int), (k : Int)⟩, ls⟩ = cmd at hcmd
  have hcmd_nd : isDigit cmd = false := by rcases hcmd with rfl | rfl | rfl <;> decide
  have hcmd_nc : cmd ≠ 44 := by rcases hcmd with rfl | rfl | rfl <;> decide
  have hca : (cmd = 97) ↔ n = 0 := by
    rw [← hc]; unfold cmdOf; simp only
    constructor
    · intro h; split at h
      · omega
      · split at h <;> cases h
    · intro h; rw [if_pos (by omega)]
  have hcd : (cmd = 100) ↔ (n ≠ 0 ∧ k = 0) := by
    rw [← hc]; unfold cmdOf; simp only
    constructor
    · intro h; split at h
      · cases h
      · split at h
        · omega
        · cases h
    · intro h; rw [if_neg (by omega), if_pos (by omega)]
  -- the tail: the command letter and the new side
  have htail : ∀ (hcm : Bool) (h2 : Hunk), (hcm = true → 1 < n) →
      Bounds.normalTail hcm h2 (cmd :: sideText ⟨(t : Int), (k : Int)⟩) =
        (true, { h2 with old := { h2.old with count := if hcm then h2.old.count else if cmd == 97 then 0 else 1 },
                         new := ⟨(t : Int), (k : Int)⟩ }) := by
    intro hcm h2 hcmn
    unfold Bounds.normalTail Bounds.normalCmd
    have hok : (cmd != 99 && cmd != 97 && cmd != 100) = false := by rcases hcmd with rfl | rfl | rfl <;> decide
    simp only [hok, Bool.false_eq_true, if_false]
    unfold sideText
    simp only
    by_cases hk : 1 < (k : Int)
    · -- `t,f`
      rw [if_pos hk, number_roundtrip t (by omega) _ _ (by intro x hx; simp at hx; subst hx; decide)]
      simp only [Bool.not_true, Bool.false_eq_true, if_false]
      unfold Bounds.normalEnd
      rw [consumeStr_append]
      have hc99 : hcm = true → cmd = 99 := by
        intro hh
        have := hcmn hh
        rcases hcmd with e | e | e
        · exact e
        · exact absurd (hca.1 e) (by omega)
        · exact absurd (hcd.1 e).2 (by omega)
      have h1 : (hcm && cmd != 99) = false := by
        cases hcm with
        | false => rfl
        | true => rw [hc99 rfl]; rfl
      have h2' : (cmd == 100) = false := by
        have : cmd ≠ 100 := fun e => absurd (hcd.1 e).2 (by omega)
        simpa using this
      simp only [h1, h2', Bool.false_eq_true, if_false]
      have ee : (t : Int) + (k : Int) - 1 = ((t + k - 1 : Nat) : Int) := by omega
      rw [ee, number_roundtrip_nil _ (by omega)]
      simp only [Bool.not_true, Bool.false_eq_true, if_false, List.isEmpty_nil]
      unfold Bounds.normalCount Bounds.normalH3
      simp only [h2', Bool.false_eq_true, if_false]
      have : max (((t + k - 1 : Nat) : Int) - (t : Int) + 1) 0 = (k : Int) := by omega
      rw [this]
      cases hcm <;> simp
    · -- `t`
      rw [if_neg hk, List.append_nil, number_roundtrip_nil t (by omega)]
      simp only [Bool.not_true, Bool.false_eq_true, if_false]
      unfold Bounds.normalEnd
      rw [consumeStr_comma_none [] (by simp)]
      simp only [List.isEmpty_nil]
      unfold Bounds.normalCount Bounds.normalH3
      have hmax : max ((t : Int) - (t : Int) + 1) 0 = 1 := by omega
      rw [hmax]
      by_cases hd : cmd = 100
      · have hk0 := (hcd.1 hd).2
        subst hd
        simp only [beq_self_eq_true, if_true]
        have : (1 : Int) - 1 = (k : Int) := by omega
        rw [this]
        cases hcm <;> simp
      · have hd' : (cmd == 100) = false := by simpa using hd
        have hk1 : (k : Int) = 1 := by
          have : ¬ (n ≠ 0 ∧ k = 0) := fun hh => hd (hcd.2 hh)
          omega
        simp only [hd', Bool.false_eq_true, if_false, hk1]
        cases hcm <;> simp
  rw [Bounds.parseNormalRange_eq]
  unfold rangeTextN
  rw [hc]
  simp only
  unfold sideText
  simp only
  by_cases hn : 1 < (n : Int)
  · -- `s,e`
    rw [if_pos hn, List.append_assoc, number_roundtrip s (by omega) _ _ (by intro x hx; simp at hx; subst hx; decide)]
    simp only [Bool.not_true, Bool.false_eq_true, if_false]
    rw [List.append_assoc, consumeStr_append]
    simp only
    unfold Bounds.normalStep1
    simp only [if_true]
    have ee : (s : Int) + (n : Int) - 1 = ((s + n - 1 : Nat) : Int) := by omega
    rw [ee, number_roundtrip _ (by omega) _ _ (by intro x hx; simp at hx; subst hx; exact hcmd_nd)]
    simp only [Bool.not_true, Bool.false_eq_true, if_false]
    rw [if_neg (by omega)]
    have := htail true { h0 with old := ⟨(s : Int), ((s + n - 1 : Nat) : Int) - (s : Int) + 1⟩ } (fun _ => by omega)
    unfold sideText at this
    simp only at this
    simp only [this, if_true]
    have : ((s + n - 1 : Nat) : Int) - (s : Int) + 1 = (n : Int) := by omega
    rw [this]
  · -- `s`
    rw [if_neg hn, List.append_nil, number_roundtrip s (by omega) _ _ (by intro x hx; simp at hx; subst hx; exact hcmd_nd)]
    simp only [Bool.not_true, Bool.false_eq_true, if_false]
    rw [consumeStr_comma_none _ (by simpa using hcmd_nc)]
    simp only
    unfold Bounds.normalStep1
    simp only [Bool.false_eq_true, if_false]
    have := htail false { h0 with old := { h0.old with start := (s : Int) } } (fun hh => by cases hh)
    unfold sideText at this
    simp only at this
    simp only [this, Bool.false_eq_true, if_false]
    by_cases ha : cmd = 97
    · have hn0 := hca.1 ha
      subst ha
      subst hn0
      simp
    · have ha' : (cmd == 97) = false := by simpa using ha
      have hn1 : (n : Int) = 1 := by
        have : n ≠ 0 := fun hh => ha (hca.2 hh)
        omega
      simp [ha', hn1]

/-! ### the lines of a hunk -/

/-- the last line of a side has no terminator (it is the last line of its file and that file does not end in a newline) -/
def lastNone (ls : List Line) : Bool :=
  match ls.getLast? with
  | some l => l.newline == .none
  | none => false

/-- `\ No newline at end of file`, if the side ends in a line without terminator -/
def markerIf (ls : List Line) : List Line := if lastNone ls then [markerLine] else []

/-- a line of a side as it stands in the diff: marker byte (`<` / `>`), blank, the line; CR LF if the line has it, LF otherwise -/
def wireSide (mk : UInt8) (l : Line) : Line := ⟨mk :: 32 :: l.content, wireNl l⟩

/-- the `---` line -/
def dashes : Line := ⟨[45, 45, 45], .lf⟩

/-- the separator stands between the two sides of a `c` command only -/
def sepLines (h : Hunk) : List Line := if h.old.count ≠ 0 ∧ h.new.count ≠ 0 then [dashes] else []

/-- the body of a hunk (everything after the range line) followed by `tail` -/
def bodyLinesN (h : Hunk) (tail : List Line) : List Line :=
  (oldOf h.lines).map (wireSide 60) ++ (markerIf (oldOf h.lines) ++ (sepLines h ++
    ((newOf h.lines).map (wireSide 62) ++ (markerIf (newOf h.lines) ++ tail))))

/-- the lines of a hunk of a normal diff -/
def hunkLinesN (h : Hunk) : List Line := ⟨rangeTextN h, .lf⟩ :: bodyLinesN h []

theorem bodyLinesN_append (h : Hunk) (tail : List Line) : bodyLinesN h [] ++ tail = bodyLinesN h tail := by
  unfold bodyLinesN; simp only [List.append_assoc, List.nil_append]

theorem hunkLinesN_append (h : Hunk) (tail : List Line) : hunkLinesN h ++ tail = ⟨rangeTextN h, .lf⟩ :: bodyLinesN h tail := by
  unfold hunkLinesN; rw [List.cons_append, bodyLinesN_append]

/-- what the reader needs of a hunk: removals then additions and nothing else, the counts of the ranges are those of the two
    sides, at least one line, line numbers the text can carry (0 … 2^61 - 1, last lines included), and only the last line of a
    side may lack its terminator -/
structure NormalShape (h : Hunk) : Prop where
  shape : h.lines = (oldOf h.lines).map (PatchLine.mk MINUS) ++ (newOf h.lines).map (PatchLine.mk PLUS)
  oldCount : h.old.count = ((oldOf h.lines).length : Int)
  newCount : h.new.count = ((newOf h.lines).length : Int)
  nonEmpty : h.lines ≠ []
  oldStart : 0 ≤ h.old.start
  newStart : 0 ≤ h.new.start
  oldBound : h.old.start + h.old.count ≤ i64Max / 4
  newBound : h.new.start + h.new.count ≤ i64Max / 4
  oldTerm : ∀ l ∈ (oldOf h.lines).dropLast, l.newline ≠ .none
  newTerm : ∀ l ∈ (newOf h.lines).dropLast, l.newline ≠ .none

instance (h : Hunk) : Decidable (NormalShape h) :=
  decidable_of_iff
    (h.lines = (oldOf h.lines).map (PatchLine.mk MINUS) ++ (newOf h.lines).map (PatchLine.mk PLUS) ∧
     h.old.count = ((oldOf h.lines).length : Int) ∧ h.new.count = ((newOf h.lines).length : Int) ∧ h.lines ≠ [] ∧
     0 ≤ h.old.start ∧ 0 ≤ h.new.start ∧ h.old.start + h.old.count ≤ i64Max / 4 ∧ h.new.start + h.new.count ≤ i64Max / 4 ∧
     (∀ l ∈ (oldOf h.lines).dropLast, l.newline ≠ .none) ∧ (∀ l ∈ (newOf h.lines).dropLast, l.newline ≠ .none))
    ⟨fun ⟨a, b, c, d, e, f, g, i, j, k⟩ => ⟨a, b, c, d, e, f, g, i, j, k⟩,
     fun ⟨a, b, c, d, e, f, g, i, j, k⟩ => ⟨a, b, c, d, e, f, g, i, j, k⟩⟩

theorem NormalShape.sides_ne {h : Hunk} (hs : NormalShape h) : ¬ (h.old.count = 0 ∧ h.new.count = 0) := by
  rintro ⟨h1, h2⟩
  rw [hs.oldCount] at h1
  rw [hs.newCount] at h2
  have e1 : oldOf h.lines = [] := List.eq_nil_of_length_eq_zero (by omega)
  have e2 : newOf h.lines = [] := List.eq_nil_of_length_eq_zero (by omega)
  have := hs.shape
  rw [e1, e2] at this
  exact hs.nonEmpty this

theorem NormalShape.range {h : Hunk} (hs : NormalShape h) (h0 : Hunk) :
    parseNormalRange h0 (rangeTextN h) = (true, { h0 with old := h.old, new := h.new }) :=
  parseNormalRange_rangeTextN h0 h hs.oldStart (by rw [hs.oldCount]; omega) hs.oldBound hs.newStart
    (by rw [hs.newCount]; omega) hs.newBound hs.sides_ne

/-! ### reading one side -/

theorem readSide_lines (mk op : UInt8) : ∀ (ls : List Line) (after : List Line) (fuel n : Nat) (acc : List PatchLine) (c : Int),
    c = (ls.length : Int) → ls.length + 1 ≤ fuel →
    normalReadSide fuel ⟨⟨ls.map (wireSide mk) ++ after, false, false⟩, n⟩ c mk op acc =
      .ok (acc ++ ls.map (fun l => ⟨op, ⟨l.content, wireNl l⟩⟩), ⟨⟨after, false, false⟩, n + ls.length⟩)
  | [], after, fuel, n, acc, c, hc, hf => by
    obtain ⟨f, rfl⟩ : ∃ f, fuel = f + 1 := ⟨fuel - 1, by simp at hf; omega⟩
    subst hc
    simp [normalReadSide]
  | l :: ls, after, fuel, n, acc, c, hc, hf => by
    obtain ⟨f, rfl⟩ : ∃ f, fuel = f + 1 := ⟨fuel - 1, by simp at hf; omega⟩
    have hc' : ¬ c ≤ 0 := by simp at hc; omega
    rw [normalReadSide, if_neg hc', List.map_cons, List.cons_append]
    unfold wireSide
    rw [getLine_wire _ _ (wireNl_ne_none l)]
    have hws : isWs 32 = true := rfl
    simp only [bne_self_eq_false, hws, Bool.not_true, Bool.or_self, Bool.false_eq_true, if_false]
    have := readSide_lines mk op ls after f (n + 1) (acc ++ [⟨op, ⟨l.content, wireNl l⟩⟩]) (c - 1)
      (by simp at hc; omega) (by simp at hf; omega)
    unfold wireSide at this
    rw [this]
    simp only [List.append_assoc, List.singleton_append, List.map_cons, List.length_cons]
    have : n + 1 + ls.length = n + (ls.length + 1) := by omega
    rw [this]

/-- the marker check after a side -/
def markStep (ls : List PatchLine) (par : Parser) : List PatchLine × Parser :=
  if !ls.isEmpty ∧ par.s.peek = BACKSLASH then (markLastNone ls, (par.getLine).2) else (ls, par)

/-- the `---` check between the sides -/
def dashStep (par3 : Parser) : Parser :=
  if par3.s.peek = MINUS then
    match par3.getLine with
    | (some l, p') => if l.content = str "---" then p' else { s := p'.s.seek par3.s.rest, lineNo := p'.lineNo - 1 }
    | (none, p') => { s := p'.s.seek par3.s.rest, lineNo := p'.lineNo - 1 }
  else par3

theorem map_wire_term (op : UInt8) (ls : List Line) (h : ∀ l ∈ ls, l.newline ≠ .none) :
    ls.map (fun l => (⟨op, ⟨l.content, wireNl l⟩⟩ : PatchLine)) = ls.map (PatchLine.mk op) := by
  apply List.map_congr_left
  intro l hl
  rw [wireNl_of_ne_none (h l hl)]

theorem markStep_side (op : UInt8) (acc : List PatchLine) (ls : List Line) (after : List Line) (m : Nat)
    (hterm : ∀ l ∈ ls.dropLast, l.newline ≠ .none) (hpk : PStream.peek ⟨after, false, false⟩ ≠ BACKSLASH) :
    ∃ m', markStep (acc ++ ls.map (fun l => ⟨op, ⟨l.content, wireNl l⟩⟩)) ⟨⟨markerIf ls ++ after, false, false⟩, m⟩
      = (acc ++ ls.map (PatchLine.mk op), ⟨⟨after, false, false⟩, m'⟩) := by
  rcases List.eq_nil_or_concat ls with rfl | ⟨init, last, rfl⟩
  · refine ⟨m, ?_⟩
    unfold markStep markerIf lastNone
    simp only [List.getLast?_nil, Bool.false_eq_true, if_false, List.nil_append, List.map_nil, List.append_nil]
    rw [if_neg (fun hh => hpk hh.2)]
  · rw [List.concat_eq_append] at hterm ⊢
    rw [List.dropLast_concat] at hterm
    have hinit := map_wire_term op init hterm
    unfold markStep markerIf lastNone
    simp only [List.getLast?_append, List.getLast?_singleton, Option.some_or, List.map_append, List.map_cons, List.map_nil,
      hinit]
    by_cases hl : last.newline = .none
    · refine ⟨m + 1, ?_⟩
      simp only [hl, beq_self_eq_true, if_true, List.cons_append, List.nil_append]
      rw [if_pos ⟨by simp, peek_marker _ _ _⟩, wireNl_of_none hl, ← List.append_assoc, markLastNone_snoc_lf]
      unfold markerLine
      rw [getLine_lf]
      rcases last with ⟨c, nl⟩
      simp only at hl
      subst hl
      simp
    · refine ⟨m, ?_⟩
      have hb : (last.newline == NewLine.none) = false := by simpa using hl
      simp only [hb, Bool.false_eq_true, if_false, List.nil_append]
      rw [if_neg (fun hh => hpk hh.2), wireNl_of_ne_none hl]

/-- the stream after the hunks so far goes on with a range line or ends -/
def TailOK (tail : List Line) : Prop :=
  tail = [] ∨ ∃ c r nl rest, tail = ⟨c :: r, nl⟩ :: rest ∧ isDigit c = true

theorem peek_tail {tail : List Line} (h : TailOK tail) :
    PStream.peek ⟨tail, false, false⟩ ≠ BACKSLASH ∧ PStream.peek ⟨tail, false, false⟩ ≠ MINUS := by
  rcases h with rfl | ⟨c, r, nl, rest, rfl, hd⟩
  · exact ⟨by decide, by decide⟩
  · show c ≠ BACKSLASH ∧ c ≠ MINUS
    constructor <;> (intro e; subst e; revert hd; decide)

theorem peek_side (mk : UInt8) (ls : List Line) (after : List Line) (hne : ls ≠ []) :
    PStream.peek ⟨ls.map (wireSide mk) ++ after, false, false⟩ = mk := by
  cases ls with
  | nil => exact absurd rfl hne
  | cons l ls => rfl

theorem markerIf_nil : markerIf [] = [] := rfl

/-- what follows the old side does not start with a backslash -/
theorem peek_afterOld (h : Hunk) (tail : List Line) (ht : TailOK tail) :
    PStream.peek ⟨sepLines h ++ ((newOf h.lines).map (wireSide 62) ++ (markerIf (newOf h.lines) ++ tail)), false, false⟩
      ≠ BACKSLASH := by
  unfold sepLines
  split
  · show (45 : UInt8) ≠ BACKSLASH
    decide
  · rw [List.nil_append]
    by_cases hn : newOf h.lines = []
    · rw [hn, markerIf_nil]; exact (peek_tail ht).1
    · rw [peek_side _ _ _ hn]; decide

theorem dashStep_sep (h : Hunk) (after : List Line) (m : Nat) (hpk : PStream.peek ⟨after, false, false⟩ ≠ MINUS) :
    ∃ m', dashStep ⟨⟨sepLines h ++ after, false, false⟩, m⟩ = ⟨⟨after, false, false⟩, m'⟩ := by
  unfold sepLines dashStep
  split
  · refine ⟨m + 1, ?_⟩
    have : PStream.peek ⟨[dashes] ++ after, false, false⟩ = MINUS := rfl
    simp only [this, if_true]
    unfold dashes
    rw [List.singleton_append, getLine_lf]
    simp only [str_dashes, if_true]
  · refine ⟨m, ?_⟩
    rw [List.nil_append]
    simp only [hpk, if_false]

theorem peek_afterSep (h : Hunk) (tail : List Line) (ht : TailOK tail) :
    PStream.peek ⟨(newOf h.lines).map (wireSide 62) ++ (markerIf (newOf h.lines) ++ tail), false, false⟩ ≠ MINUS := by
  by_cases hn : newOf h.lines = []
  · rw [hn, markerIf_nil]; exact (peek_tail ht).2
  · rw [peek_side _ _ _ hn]; decide

/-! ### reading one hunk -/

/-- what `parse_normal_patch` does between a range line and the next -/
def readHunk (par1 : Parser) (h : Hunk) : Except Exn (List PatchLine × Parser) :=
  let f := par1.s.rest.length + 2
  match normalReadSide f par1 h.old.count 60 MINUS [] with
  | .error e => .error e
  | .ok (olds, par2) =>
    let (ls1, par3) := markStep olds par2
    let par4 := dashStep par3
    match normalReadSide f par4 h.new.count 62 PLUS ls1 with
    | .error e => .error e
    | .ok (ls2, par5) => .ok (markStep ls2 par5)

theorem parseNormalBody_succ (fuel : Nat) (par : Parser) (hs : List Hunk) (l : Line) (par1 : Parser) (h : Hunk)
    (hg : par.getLine = (some l, par1)) (he : par1.s.eof = false) (hne : l.content.isEmpty = false)
    (hr : parseNormalRange defaultHunk l.content = (true, h)) :
    parseNormalBody (fuel + 1) par hs =
      match readHunk par1 h with
      | .error e => .error e
      | .ok (ls3, par6) => parseNormalBody fuel par6 (hs ++ [{ h with lines := ls3 }]) := by
  rw [parseNormalBody]
  simp only [hg, he, hne, hr, Bool.or_self, Bool.false_eq_true, if_false, Bool.not_true]
  unfold readHunk
  simp only []
  generalize normalReadSide (par1.s.rest.length + 2) par1 h.old.count 60 MINUS [] = A
  cases A with
  | error e => rfl
  | ok a =>
    obtain ⟨olds, par2⟩ := a
    simp only []
    change (match normalReadSide (par1.s.rest.length + 2) (dashStep (markStep olds par2).2) h.new.count 62 PLUS
        (markStep olds par2).1 with
      | Except.error e => Except.error e
      | Except.ok (ls2, par5) =>
        parseNormalBody fuel (markStep ls2 par5).2 (hs ++ [{ h with lines := (markStep ls2 par5).1 }])) = _
    generalize normalReadSide (par1.s.rest.length + 2) (dashStep (markStep olds par2).2) h.new.count 62 PLUS
      (markStep olds par2).1 = B
    cases B with
    | error e => rfl
    | ok b => rfl

theorem readHunk_lines (h : Hunk) (hsh : NormalShape h) (tail : List Line) (ht : TailOK tail) (m : Nat) :
    ∃ m', readHunk ⟨⟨bodyLinesN h tail, false, false⟩, m⟩ ⟨h.old, h.new, []⟩ =
      .ok (h.lines, ⟨⟨tail, false, false⟩, m'⟩) := by
  unfold readHunk bodyLinesN
  simp only []
  rw [readSide_lines 60 MINUS (oldOf h.lines) _ _ m [] h.old.count hsh.oldCount
    (by simp only [List.length_append, List.length_map]; omega)]
  simp only []
  obtain ⟨m1, e1⟩ := markStep_side MINUS [] (oldOf h.lines) _ (m + (oldOf h.lines).length) hsh.oldTerm
    (peek_afterOld h tail ht)
  rw [e1]
  simp only []
  obtain ⟨m2, e2⟩ := dashStep_sep h _ m1 (peek_afterSep h tail ht)
  rw [e2, readSide_lines 62 PLUS (newOf h.lines) _ _ m2 _ h.new.count hsh.newCount
    (by simp only [List.length_append, List.length_map]; omega)]
  simp only []
  obtain ⟨m3, e3⟩ := markStep_side PLUS ([] ++ (oldOf h.lines).map (PatchLine.mk MINUS)) (newOf h.lines) tail
    (m2 + (newOf h.lines).length) hsh.newTerm (peek_tail ht).1
  rw [e3, List.nil_append, ← hsh.shape]
  exact ⟨m3, rfl⟩

/-! ### the body loop -/

theorem tailOK_hunks (hs : List Hunk) (h : ∀ x ∈ hs, NormalShape x) : TailOK (hs.flatMap hunkLinesN) := by
  cases hs with
  | nil => exact Or.inl rfl
  | cons x xs =>
    obtain ⟨c, r, e, hd⟩ := rangeTextN_head x (h x List.mem_cons_self).oldStart
    refine Or.inr ⟨c, r, .lf, bodyLinesN x [] ++ xs.flatMap hunkLinesN, ?_, hd⟩
    rw [List.flatMap_cons, hunkLinesN, e]; rfl

/-- **normal round trip at the end of the input**: the body parser on the lines of the hunks, nothing after them — the hunks
    come back exactly, nothing is left, and the stream has seen its end (the read after the last line failed) -/
theorem parseNormalBody_hunks : ∀ (hs : List Hunk) (fuel n : Nat) (acc : List Hunk),
    (∀ h ∈ hs, NormalShape h) → hs.length + 1 ≤ fuel →
    ∃ n', parseNormalBody fuel ⟨⟨hs.flatMap hunkLinesN, false, false⟩, n⟩ acc = .ok (acc ++ hs, ⟨⟨[], true, false⟩, n'⟩)
  | [], fuel, n, acc, _, hf => by
    obtain ⟨f, rfl⟩ : ∃ f, fuel = f + 1 := ⟨fuel - 1, by simp at hf; omega⟩
    refine ⟨n, ?_⟩
    rw [parseNormalBody]
    simp [Parser.getLine, PStream.getLine]
  | h :: hs, fuel, n, acc, hall, hf => by
    obtain ⟨f, rfl⟩ : ∃ f, fuel = f + 1 := ⟨fuel - 1, by simp at hf; omega⟩
    have hsh := hall h List.mem_cons_self
    have hrest : ∀ x ∈ hs, NormalShape x := fun x hx => hall x (List.mem_cons_of_mem _ hx)
    obtain ⟨c, r, e, _⟩ := rangeTextN_head h hsh.oldStart
    rw [List.flatMap_cons, hunkLinesN_append,
      parseNormalBody_succ f _ acc ⟨rangeTextN h, .lf⟩ _ ⟨h.old, h.new, []⟩ (getLine_lf _ _ _) rfl (by rw [e]; rfl)
        (hsh.range defaultHunk)]
    obtain ⟨m', e1⟩ := readHunk_lines h hsh (hs.flatMap hunkLinesN) (tailOK_hunks hs hrest) (n + 1)
    rw [e1]
    simp only []
    obtain ⟨n', e2⟩ := parseNormalBody_hunks hs f m' (acc ++ [h]) hrest (by simp at hf; omega)
    refine ⟨n', ?_⟩
    have : ({ old := h.old, new := h.new, lines := h.lines } : Hunk) = h := by cases h; rfl
    rw [this, e2, List.append_assoc, List.singleton_append]

theorem length_le_flatMap (hs : List Hunk) : hs.length ≤ (hs.flatMap hunkLinesN).length := by
  induction hs with
  | nil => simp
  | cons h hs ih =>
    rw [List.flatMap_cons, List.length_append, hunkLinesN]
    simp only [List.length_cons]; omega

/-! ### the header scan -/

open PatchModel.Header in
/-- a normal range line outside a git section, no format known yet (or `-n`): remembered as "looks normal" -/
theorem headerStep_rangeN (st : HState) (l : Bytes) (strip : Int) (f : NoKeyword l) (hg : st.isGit = false)
    (hf : st.patch.format = .unknown ∨ st.patch.format = .normal) (h' : Hunk)
    (hnb : ¬ firstBodyLine st l) (hu : startsWith l "@@ -" = false)
    (hgt : startsWith l "> " = false) (hlt : startsWith l "< " = false)
    (hp : parseNormalRange st.hunk l = (true, h')) :
    headerStep st l strip = .ok ({ entered st with hunk := h', thisLooks := .normal, ltfh := st.lines + 1 }, true) := by
  rw [headerStep_tail st l strip f hnb]
  unfold Cost.hdrTail Cost.hdrUnified Cost.hdrNormal
  rcases hf with hf | hf
  · simp only [hg, hf, parseUnifiedRange_none _ _ hu, hgt, hlt, hp, Bool.false_eq_true, if_false, if_true, true_or,
      or_self, and_false]
  · simp only [hg, hf, hgt, hlt, hp, Bool.false_eq_true, if_false, if_true, or_true, or_self, and_false, reduceCtorEq]

open PatchModel.Header in
/-- the line after a normal range line that starts with `< ` or `> `: the scan stops, the format is normal, the names are
    cleared and the first hunk is marked as found -/
theorem headerStep_firstN (st : HState) (l : Bytes) (strip : Int) (f : NoKeyword l) (hg : st.isGit = false)
    (hf : st.patch.format = .unknown ∨ st.patch.format = .normal) (hl : st.thisLooks = .normal)
    (hu : startsWith l "@@ -" = false) (hb : startsWith l "> " = true ∨ startsWith l "< " = true) :
    headerStep st l strip =
      .ok ({ entered st with patch := { st.patch with format := .normal, newPath := [], oldPath := [] },
                             foundFirstHunk := true }, false) := by
  rw [headerStep_tail st l strip f (not_firstBodyLine_of_looks (by rw [hl]; decide))]
  unfold Cost.hdrTail Cost.hdrUnified Cost.hdrNormal
  rcases hf with hf | hf
  · simp only [hg, hf, hl, parseUnifiedRange_none _ _ hu, hb, Bool.false_eq_true, if_false, if_true, true_or,
      and_self]
  · simp only [hg, hf, hl, hb, Bool.false_eq_true, if_false, if_true, or_true, and_self, or_self, reduceCtorEq]

theorem head_ne_of_digit {c : UInt8} (r : Bytes) (hd : isDigit c = true) (x : UInt8) (hx : isDigit x = false) :
    (c :: r).head? ≠ some x := by
  intro h
  simp only [List.head?_cons, Option.some.injEq] at h
  subst h
  rw [hd] at hx; cases hx

open PatchModel.Header in
theorem noKeyword_of_digit {c : UInt8} (r : Bytes) (hd : isDigit c = true) : NoKeyword (c :: r) := by
  apply noKeyword_of_head <;> exact head_ne_of_digit r hd _ (by decide)

open PatchModel.Header in
/-- the first body line of a normal hunk: `< …` or `> …` -/
def sideStart (l : Bytes) : Prop := ∃ body, l = 60 :: 32 :: body ∨ l = 62 :: 32 :: body

open PatchModel.Header in
theorem sideStart_facts {l : Bytes} (h : sideStart l) :
    NoKeyword l ∧ startsWith l "@@ -" = false ∧ (startsWith l "> " = true ∨ startsWith l "< " = true) := by
  obtain ⟨body, rfl | rfl⟩ := h
  · refine ⟨by apply noKeyword_of_head <;> simp, startsWith_false_of_head _ _ _ _ str_atat (by simp), Or.inr ?_⟩
    unfold startsWith; rw [str_lt]; simp [List.isPrefixOf]
  · refine ⟨by apply noKeyword_of_head <;> simp, startsWith_false_of_head _ _ _ _ str_atat (by simp), Or.inl ?_⟩
    unfold startsWith; rw [str_gt]; simp [List.isPrefixOf]

open PatchModel.Header in
/-- **the header scan on a normal diff**: a range line followed by a `< ` / `> ` line gives a patch of format normal without
    names (the file operand is needed), first hunk on line 1, the stream back where it was; the operation is the one inferred
    from the first range — `Header.inferredOp`: "delete" for `NdO` with O = 0, "add" for `0aN` -/
theorem parseHeader_normal (strip : Int) (par : Parser) (fmt : Format) (hfmt : fmt = .unknown ∨ fmt = .normal)
    (h : Hunk) (hsh : NormalShape h) (first : Line) (more : List Line)
    (hb : sideStart first.content) (hterm : first.newline ≠ .none)
    (heof : par.s.eof = false) (hbad : par.s.bad = false)
    (hrest : par.s.rest = ⟨rangeTextN h, .lf⟩ :: first :: more) :
    parseHeader par { format := fmt } strip =
      .ok (true, { format := .normal, operation := inferredOp h },
           { linesTillFirstHunk := 1, format := .normal },
           { s := { rest := ⟨rangeTextN h, .lf⟩ :: first :: more, eof := false, bad := false }, lineNo := par.lineNo }) := by
  obtain ⟨⟨r0, e0, b0⟩, n0⟩ := par
  simp only at heof hbad hrest
  subst heof hbad hrest
  obtain ⟨c, r, e, hd⟩ := rangeTextN_head h hsh.oldStart
  obtain ⟨hk, hu, hside⟩ := sideStart_facts hb
  have hfmt' : (({ format := fmt } : Patch).format = .unknown ∨ ({ format := fmt } : Patch).format = .normal) := hfmt
  have hk1 : NoKeyword (rangeTextN h) := by rw [e]; exact noKeyword_of_digit r hd
  have hu1 : startsWith (rangeTextN h) "@@ -" = false :=
    startsWith_false_of_head _ _ _ _ str_atat (by rw [e]; exact head_ne_of_digit r hd _ (by decide))
  have hgt1 : startsWith (rangeTextN h) "> " = false :=
    startsWith_false_of_head _ _ _ _ str_gt (by rw [e]; exact head_ne_of_digit r hd _ (by decide))
  have hlt1 : startsWith (rangeTextN h) "< " = false :=
    startsWith_false_of_head _ _ _ _ str_lt (by rw [e]; exact head_ne_of_digit r hd _ (by decide))
  unfold parseHeader
  simp only [List.length_cons]
  rw [show more.length + 1 + 1 + 2 = (more.length + 2 + 1) + 1 from rfl,
    headerLoop_step strip _ _ _ ⟨_, .lf⟩ _ rfl rfl rfl (by simp) true
      (headerStep_rangeN _ _ strip hk1 rfl hfmt' _
        (not_firstBodyLine_of_looks (by show Format.unknown ≠ Format.unified; decide)) hu1 hgt1 hlt1 (hsh.range _))]
  simp only [if_true]
  rw [headerLoop_step strip _ _ _ first _ rfl rfl rfl hterm false
      (headerStep_firstN _ _ strip hk rfl hfmt' rfl hu hside)]
  simp only [Bool.false_eq_true, if_false, PStream.clear, PStream.seek, Bool.not_true, Bool.not_false, true_or, and_true]
  rw [show 0 + 1 - 1 = 0 from rfl, skipLines]
  simp only [inferredOp, if_true]
  split
  · rfl
  · split <;> rfl

/-! ### header scan + body parse of a whole normal diff -/

theorem bodyLinesN_first (h : Hunk) (hsh : NormalShape h) (tail : List Line) :
    ∃ first rest, bodyLinesN h tail = first :: rest ∧ sideStart first.content ∧ first.newline ≠ .none := by
  unfold bodyLinesN
  cases ho : oldOf h.lines with
  | cons l ls =>
    exact ⟨wireSide 60 l, _, rfl, ⟨l.content, Or.inl rfl⟩, wireNl_ne_none l⟩
  | nil =>
    have hoc : h.old.count = 0 := by rw [hsh.oldCount, ho]; rfl
    cases hn : newOf h.lines with
    | nil =>
      exfalso
      have := hsh.shape
      rw [ho, hn] at this
      exact hsh.nonEmpty this
    | cons l ls =>
      refine ⟨wireSide 62 l, ls.map (wireSide 62) ++ (markerIf (l :: ls) ++ tail), ?_, ⟨l.content, Or.inr rfl⟩,
        wireNl_ne_none l⟩
      unfold sepLines
      rw [if_neg (fun hh => hh.1 hoc)]
      rfl

/-- the operation the header scan infers from the first command of the script -/
def firstOp : List Hunk → Operation
  | [] => .change
  | h :: _ => Header.inferredOp h

/-- **header scan and body parse of the lines of a normal diff**, as one statement: format normal, the operation inferred from
    the first command, no names, no prerequisite, no mode; the body parser gives the hunks back and leaves the stream at its
    end, flag set -/
theorem parse_normalLines_op (strip : Int) (fmt : Format) (hfmt : fmt = .unknown ∨ fmt = .normal) (hs : List Hunk) (lineNo : Nat)
    (hne : hs ≠ []) (hsh : ∀ h ∈ hs, NormalShape h) :
    ∃ patch0 info par1 par2,
      parseHeader { s := { rest := hs.flatMap hunkLinesN }, lineNo := lineNo } { format := fmt } strip
        = .ok (true, patch0, info, par1) ∧
      patch0.format = .normal ∧ patch0.operation = firstOp hs ∧ patch0.prerequisite = [] ∧ patch0.hunks = [] ∧
      patch0.newMode = 0 ∧ patch0.newPath = [] ∧
      parseBody par1 patch0 = .ok ({ patch0 with hunks := hs }, par2) ∧ par2.s.eof = true := by
  cases hs with
  | nil => exact absurd rfl hne
  | cons h hs' =>
    have hh := hsh h List.mem_cons_self
    obtain ⟨first, more, hlines, hb, hterm⟩ := bodyLinesN_first h hh (hs'.flatMap hunkLinesN)
    have hrest : (h :: hs').flatMap hunkLinesN = ⟨rangeTextN h, .lf⟩ :: first :: more := by
      rw [List.flatMap_cons, hunkLinesN_append, hlines]
    have hp := parseHeader_normal strip { s := { rest := (h :: hs').flatMap hunkLinesN }, lineNo := lineNo } fmt hfmt h hh
      first more hb hterm rfl rfl hrest
    obtain ⟨n', hbody⟩ := parseNormalBody_hunks (h :: hs') (((h :: hs').flatMap hunkLinesN).length + 2) lineNo []
      hsh (by have := length_le_flatMap (h :: hs'); omega)
    rw [hrest] at hbody
    refine ⟨_, _, _, ⟨⟨[], true, false⟩, n'⟩, hp, rfl, rfl, rfl, rfl, rfl, rfl, ?_, rfl⟩
    simp only [parseBody]
    rw [hbody]
    rfl

/-- the same for a script whose first command states a change (neither `NdM` with M = 0 nor `0aN`) -/
theorem parse_normalLines (strip : Int) (fmt : Format) (hfmt : fmt = .unknown ∨ fmt = .normal) (hs : List Hunk) (lineNo : Nat)
    (hne : hs ≠ []) (hsh : ∀ h ∈ hs, NormalShape h) (hchg : Run.changeStart hs = true) :
    ∃ patch0 info par1 par2,
      parseHeader { s := { rest := hs.flatMap hunkLinesN }, lineNo := lineNo } { format := fmt } strip
        = .ok (true, patch0, info, par1) ∧
      patch0.format = .normal ∧ patch0.operation = .change ∧ patch0.prerequisite = [] ∧ patch0.hunks = [] ∧
      patch0.newMode = 0 ∧
      parseBody par1 patch0 = .ok ({ patch0 with hunks := hs }, par2) ∧ par2.s.eof = true := by
  obtain ⟨patch0, info, par1, par2, h1, h2, h3, h4, h5, h6, _, h8, h9⟩ := parse_normalLines_op strip fmt hfmt hs lineNo hne hsh
  refine ⟨patch0, info, par1, par2, h1, h2, ?_, h4, h5, h6, h8, h9⟩
  rw [h3]
  cases hs with
  | nil => exact absurd rfl hne
  | cons h hs' =>
    have hchg' : h.old.start ≠ 0 ∧ h.new.start ≠ 0 := by simpa [Run.changeStart] using hchg
    show Header.inferredOp h = .change
    unfold Header.inferredOp; rw [if_neg hchg'.2, if_neg hchg'.1]

/-! ### bytes: lines written with their own terminator -/

/-- a line as bytes: content, then CR LF or LF -/
def wireBytes (l : Line) : Bytes := l.content ++ lineEnd l

/-- a line that is read back as it is: no line feed inside, a terminator, no CR at the end unless the terminator is CR LF -/
def WireLineOK (l : Line) : Prop :=
  NL ∉ l.content ∧ l.newline ≠ .none ∧ (l.newline ≠ .crlf → l.content.getLast? ≠ some CR)

theorem splitLines_wireBytes (ls : List Line) (rest : Bytes) (h : ∀ l ∈ ls, WireLineOK l) :
    splitLines (ls.flatMap wireBytes ++ rest) = ls ++ splitLines rest := by
  induction ls with
  | nil => rfl
  | cons l ls ih =>
    obtain ⟨h1, h2, h3⟩ := h l List.mem_cons_self
    rw [List.flatMap_cons, wireBytes, List.append_assoc, List.append_assoc,
      splitLines_wire' l.content l _ h1 h3, ih (fun x hx => h x (List.mem_cons_of_mem _ hx)), wireNl_of_ne_none h2]
    rfl

/-- a hunk line the text can carry: no line feed inside, and no CR at the end unless it ends in CR LF -/
def plainN (l : Line) : Prop := NL ∉ l.content ∧ (l.newline ≠ .crlf → l.content.getLast? ≠ some CR)

theorem intDigits_bytes (i : Int) : ∀ c ∈ intDigits i, isDigit c = true ∨ c = 45 := by
  intro c hc
  unfold intDigits at hc
  split at hc
  · rcases List.mem_cons.1 hc with h | h
    · exact Or.inr h
    · exact Or.inl (natDigits_all_digit _ c h)
  · exact Or.inl (natDigits_all_digit _ c hc)

theorem sideText_bytes (r : Range) : ∀ c ∈ sideText r, isDigit c = true ∨ c = 45 ∨ c = 44 := by
  intro c hc
  unfold sideText at hc
  rcases List.mem_append.1 hc with h | h
  · rcases intDigits_bytes _ c h with h | h
    · exact Or.inl h
    · exact Or.inr (Or.inl h)
  · split at h
    · rcases List.mem_append.1 h with h | h
      · simp at h; exact Or.inr (Or.inr h)
      · rcases intDigits_bytes _ c h with h | h
        · exact Or.inl h
        · exact Or.inr (Or.inl h)
    · cases h

theorem rangeTextN_bytes (h : Hunk) : ∀ c ∈ rangeTextN h, c ≠ NL ∧ c ≠ CR := by
  intro c hc
  have key : isDigit c = true ∨ c = 45 ∨ c = 44 ∨ c = 99 ∨ c = 97 ∨ c = 100 := by
    unfold rangeTextN at hc
    rcases List.mem_append.1 hc with h1 | h1
    · rcases sideText_bytes _ c h1 with h | h | h
      · exact Or.inl h
      · exact Or.inr (Or.inl h)
      · exact Or.inr (Or.inr (Or.inl h))
    · rcases List.mem_cons.1 h1 with h1 | h1
      · rcases cmdOf_cases h with e | e | e <;> rw [e] at h1
        · exact Or.inr (Or.inr (Or.inr (Or.inl h1)))
        · exact Or.inr (Or.inr (Or.inr (Or.inr (Or.inl h1))))
        · exact Or.inr (Or.inr (Or.inr (Or.inr (Or.inr h1))))
      · rcases sideText_bytes _ c h1 with h | h | h
        · exact Or.inl h
        · exact Or.inr (Or.inl h)
        · exact Or.inr (Or.inr (Or.inl h))
  constructor <;> (intro e; subst e; revert key; decide)

theorem wireOK_of_bytes (c : Bytes) (h : ∀ x ∈ c, x ≠ NL ∧ x ≠ CR) : WireLineOK ⟨c, .lf⟩ := by
  refine ⟨fun hm => (h _ hm).1 rfl, by simp, fun _ hl => ?_⟩
  exact (h CR (List.mem_of_getLast? hl)).2 rfl

theorem wireOK_wireSide (mk : UInt8) (hmk : mk ≠ NL) (l : Line) (hp : plainN l) : WireLineOK (wireSide mk l) := by
  refine ⟨?_, wireNl_ne_none l, ?_⟩
  · intro hm
    rcases List.mem_cons.1 hm with h | h
    · exact hmk h.symm
    · rcases List.mem_cons.1 h with h | h
      · revert h; decide
      · exact hp.1 h
  · intro hn
    have hn' : l.newline ≠ .crlf := by
      intro e; apply hn; show wireNl l = .crlf; unfold wireNl; rw [if_pos e]
    show (mk :: 32 :: l.content).getLast? ≠ some CR
    cases hc : l.content with
    | nil => simp; decide
    | cons c cs =>
      rw [List.getLast?_cons_cons, List.getLast?_cons_cons, ← hc]
      exact hp.2 hn'

theorem mem_oldOf {ls : List PatchLine} {l : Line} (h : l ∈ oldOf ls) : ∃ pl ∈ ls, pl.line = l := by
  unfold oldOf at h
  obtain ⟨pl, hpl, e⟩ := List.mem_map.1 h
  exact ⟨pl, (List.mem_filter.1 hpl).1, e⟩

theorem mem_newOf {ls : List PatchLine} {l : Line} (h : l ∈ newOf ls) : ∃ pl ∈ ls, pl.line = l := by
  unfold newOf at h
  obtain ⟨pl, hpl, e⟩ := List.mem_map.1 h
  exact ⟨pl, (List.mem_filter.1 hpl).1, e⟩

/-- every line of the text of a hunk with plain lines is read back as it is -/
theorem wireOK_hunkLinesN (h : Hunk) (hpl : ∀ pl ∈ h.lines, plainN pl.line) : ∀ l ∈ hunkLinesN h, WireLineOK l := by
  have hmarker : WireLineOK markerLine := ⟨by decide, by decide, fun _ => by decide⟩
  have hdash : WireLineOK dashes := ⟨by decide, by decide, fun _ => by decide⟩
  intro l hl
  unfold hunkLinesN bodyLinesN at hl
  rcases List.mem_cons.1 hl with rfl | hl
  · exact wireOK_of_bytes _ (rangeTextN_bytes h)
  rcases List.mem_append.1 hl with hl | hl
  · obtain ⟨x, hx, rfl⟩ := List.mem_map.1 hl
    obtain ⟨pl, hpl', rfl⟩ := mem_oldOf hx
    exact wireOK_wireSide 60 (by decide) _ (hpl pl hpl')
  rcases List.mem_append.1 hl with hl | hl
  · unfold markerIf at hl
    split at hl
    · simp at hl; subst hl; exact hmarker
    · cases hl
  rcases List.mem_append.1 hl with hl | hl
  · unfold sepLines at hl
    split at hl
    · simp at hl; subst hl; exact hdash
    · cases hl
  rcases List.mem_append.1 hl with hl | hl
  · obtain ⟨x, hx, rfl⟩ := List.mem_map.1 hl
    obtain ⟨pl, hpl', rfl⟩ := mem_newOf hx
    exact wireOK_wireSide 62 (by decide) _ (hpl pl hpl')
  · rw [List.append_nil] at hl
    unfold markerIf at hl
    split at hl
    · simp at hl; subst hl; exact hmarker
    · cases hl

/-- the bytes of the lines of a script are read back as those lines -/
theorem splitLines_hunksN (hs : List Hunk) (hpl : ∀ h ∈ hs, ∀ pl ∈ h.lines, plainN pl.line) :
    splitLines ((hs.flatMap hunkLinesN).flatMap wireBytes) = hs.flatMap hunkLinesN := by
  have := splitLines_wireBytes (hs.flatMap hunkLinesN) [] (by
    intro l hl
    obtain ⟨h, hh, hl'⟩ := List.mem_flatMap.1 hl
    exact wireOK_hunkLinesN h (hpl h hh) l hl')
  simpa [splitLines, splitLinesGo] using this

theorem lineEnd_wireSide (mk : UInt8) (l : Line) : lineEnd (wireSide mk l) = lineEnd l := by
  unfold lineEnd wireSide wireNl
  by_cases h : l.newline = .crlf
  · simp [h]
  · simp [h]

/-! ### a section whose first command removes the first lines of the file

`NdM` with M = 0 as the first command: the header scan infers the operation "delete" (`Header.inferredOp`).  `process_patch`
then looks at `-E`: an EMPTY result is removed instead of written; a result that is not empty is written as for a "change"
(`patch.new_file_path` is not /dev/null for a normal diff: it is empty).  `TopSection` = `Section.PlainSection` for that
operation, `processSection_top(_dry)` the closed forms. -/

open PatchModel.Section PatchModel.DriverFacts

structure TopSection (o : Options) (fmt : Format) (s : DState) (p bytes : Bytes) (m : Nat)
    (patch0 patch2 : Patch) (info : HeaderInfo) (par1 par2 : Parser) (r : ApplyResult) : Prop where
  operand : o.fileToPatch = p
  noOut : o.outFile = []
  noBackup : o.saveBackup = false
  pathNe : p ≠ []
  cwd : s.cwd = []
  hdr : parseHeader s.par { format := fmt } o.strip = .ok (true, patch0, info, par1)
  fmt : patch0.format = .unified ∨ patch0.format = .context ∨ patch0.format = .normal
  op : patch0.operation = .delete
  pre : patch0.prerequisite = []
  body : parseBody par1 patch0 = .ok (patch2, par2)
  fmt2 : patch2.format = patch0.format
  op2 : patch2.operation = .delete
  newMode2 : patch2.newMode = 0
  newPath2 : patch2.newPath = []
  file : s.fs.lookup p = some (.file bytes m)
  writable : m &&& writeMask ≠ 0
  root : s.fs.isRoot = true
  noFault : s.faultAt = none
  apply : applyPatch (splitLines bytes) patch2 (applyOptsOf o)
      (Option.map (fun l => List.map (fun a => !List.isEmpty a && List.head? a != some 110) l) s.tty) = .ok r
  failed : r.failed = 0
  perfect : r.perfect = true
  skipped : r.skipped = false
  msgs : r.msgs = []
  ttyLeft : r.tty = Option.map (fun l => List.map (fun a => !List.isEmpty a && List.head? a != some 110) l) s.tty
  patch : r.patch = patch2
  /-- something is left of the file, or empty files are not removed -/
  keep : (o.removeEmptyFiles == .yes) = true → (render o.newlineOutput r.out).isEmpty = false

section
variable {o : Options} {fmt : Format} {s : DState} {p bytes : Bytes} {m : Nat}
  {patch0 patch2 : Patch} {info : HeaderInfo} {par1 par2 : Parser} {r : ApplyResult}

/-- `Section.section_run` for the operation "delete" -/
syntax "top_run " "[" Lean.Parser.Tactic.simpLemma,* "]" : tactic
set_option hygiene false in
macro_rules | `(tactic| top_run [$ls,*]) => `(tactic| (
  have hfu : (patch0.format == Format.unknown) = false := by
    rcases H.fmt with h | h | h <;> rw [h] <;> rfl
  have hfg : (patch2.format == Format.git) = false := by
    rw [H.fmt2]; rcases H.fmt with h | h | h <;> rw [h] <;> rfl
  have hob : (patch0.operation == Operation.binary) = false := by rw [H.op]; rfl
  have hor : (patch0.operation == Operation.rename) = false := by rw [H.op]; rfl
  have hoc : (patch0.operation == Operation.copy) = false := by rw [H.op]; rfl
  have hoa2 : (patch2.operation == Operation.add) = false := by rw [H.op2]; rfl
  have hor2 : (patch2.operation == Operation.rename) = false := by rw [H.op2]; rfl
  have hoc2 : (patch2.operation == Operation.copy) = false := by rw [H.op2]; rfl
  have hod2 : (patch2.operation == Operation.delete) = true := by rw [H.op2]; rfl
  have hnp2 : (patch2.newPath == devNull) = false := by rw [H.newPath2, Names.devNull_eq]; rfl
  have hpe : List.isEmpty p = false := by
    cases p with
    | nil => exact absurd rfl H.pathNe
    | cons _ _ => rfl
  have hout : outputPath o patch0 p = p := by
    unfold outputPath; simp [H.noOut, hor, hoc]
  have hdash : (o.outFile == [45]) = false := by rw [H.noOut]; rfl
  unfold processSection
  simp only [↓run_bind, ↓run_get, ↓run_liftE, ↓run_modify, ↓run_pure, ↓run_emit,
    H.hdr, hfu, hob, H.operand, hpe, hout, hor, hdash,
    Bool.false_eq_true, ↓reduceIte, Bool.false_and, Bool.and_false, Bool.not_true, Bool.not_false,
    Bool.or_false, Bool.false_or, Bool.and_true, Bool.true_and,
    run_createTemp, H.noFault, H.cwd,
    run_fsExists_file (b := bytes) (m := m), run_fsIsRegular_file (b := bytes) (m := m),
    run_fsIsSymlink_file (b := bytes) (m := m), H.file,
    (fun s' => @run_fixPermissions_writable o s' p bytes m), H.writable, ne_eq, not_false_eq_true,
    absPath_nil, readFile_root (b := bytes) (m := m), H.root,
    H.pre, List.isEmpty_nil,
    run_parseBodyM_true (pt' := patch2) (par' := par2), H.body,
    H.apply, H.msgs, H.failed, H.perfect, H.skipped, H.patch, H.noBackup, hoa2, hor2, hoc2, hod2, hnp2,
    bne_self_eq_false, beq_self_eq_true, H.ttyLeft, hfg, H.newMode2, $ls,*]))

/-- a clean "delete" section that leaves something of the file (or runs without `-E`), real run: as `processSection_clean` -/
theorem processSection_top (H : TopSection o fmt s p bytes m patch0 patch2 info par1 par2 r)
    (hreal : o.dryRun = false) (hdir : s.fs.dirExists (parentOf p) = true) :
    ∃ s', (processSection o fmt).run s = (.ok true, s') ∧
      s'.fs = s.fs.set p (.file (render o.newlineOutput r.out) m) ∧
      SectionDone s s' p par2 false := by
  cases hE : (o.removeEmptyFiles == OptionalBool.yes)
  · top_run [hreal, (fun s' pt c perm => @run_writePatchedResult_plain s' p bytes m o pt c m perm), hdir, hE]
    refine ⟨_, rfl, rfl, ⟨rfl, rfl, rfl, rfl, ?_, ?_, H.cwd.symm, H.noFault.symm, rfl, rfl, rfl, rfl, rfl⟩⟩
    · generalize s.tty = t
      cases t <;> simp
    · simp
  · have hk := H.keep hE
    top_run [hreal, (fun s' pt c perm => @run_writePatchedResult_plain s' p bytes m o pt c m perm), hdir, hE, hk]
    refine ⟨_, rfl, rfl, ⟨rfl, rfl, rfl, rfl, ?_, ?_, H.cwd.symm, H.noFault.symm, rfl, rfl, rfl, rfl, rfl⟩⟩
    · generalize s.tty = t
      cases t <;> simp
    · simp

/-- the same under --dry-run: the tree is untouched -/
theorem processSection_top_dry (H : TopSection o fmt s p bytes m patch0 patch2 info par1 par2 r)
    (hdry : o.dryRun = true) :
    ∃ s', (processSection o fmt).run s = (.ok true, s') ∧ s'.fs = s.fs ∧ SectionDone s s' p par2 true := by
  cases hE : (o.removeEmptyFiles == OptionalBool.yes)
  · top_run [hdry, hE]
    refine ⟨_, rfl, rfl, ⟨rfl, rfl, rfl, rfl, ?_, ?_, H.cwd.symm, H.noFault.symm, rfl, rfl, rfl, rfl, rfl⟩⟩
    · generalize s.tty = t
      cases t <;> simp
    · simp
  · have hk := H.keep hE
    top_run [hdry, hE, hk]
    refine ⟨_, rfl, rfl, ⟨rfl, rfl, rfl, rfl, ?_, ?_, H.cwd.symm, H.noFault.symm, rfl, rfl, rfl, rfl, rfl⟩⟩
    · generalize s.tty = t
      cases t <;> simp
    · simp

end

end PatchModel.RunN
