/-
  Lemmas/RunG — the pieces needed to run the whole modelled program (`runPatch`) on the text of a GIT-format patch
  (`diff --git a/X b/X`, optional `index …` line, `--- a/X`, `+++ b/X`, unified hunks; and the pure rename
  `diff --git a/old b/new`, `similarity index N%`, `rename from old`, `rename to new`), whose result is written by
  `DeferredWriter::finalize` (`finalizeDeferred`) after the section loop:

  * header: `gitExt_index`, `headerStep_index_git`, `headerLoop_git_tail`, `headerLoop_git_ext`, `parseHeader_git_ext`
    (the git section header with or without an `index` line), `headerLoop_git_rename`, `parseHeader_git_rename`;
  * text: `gitDiffText` / `gitDiffLines` / `splitLines_gitDiffText`, `renameText` / `renameLines` / `splitLines_renameText`;
  * parse: `parse_gitDiffLines`, `parse_renameLines` (header scan + body parse as one statement);
  * driver: `GitSection`, `processSection_git(_dry)` (the write is only RECORDED), `RenameSection`,
    `processSection_rename(_dry)`, `run_finalizeDeferred_one` (one deferred write over an existing file),
    `run_finalizeDeferred_rename` (one deferred write of a new file + one deferred removal), `run_processPatchM_fin`
    (`processPatchM` = section loop, then `finalizeDeferred`).
-/
import PatchModel.Lemmas.Run
import PatchModel.Lemmas.RunB
namespace PatchModel.RunG
open PatchModel PatchModel.DriverFacts PatchModel.Section PatchModel.Unified PatchModel.Run PatchModel.Header
  PatchModel.Inert

/-! ### literals -/

theorem str_index_lc : str "index " = [105, 110, 100, 101, 120, 32] := by
  unfold str String.toUTF8; rw [Cpp.byteArray_toList_eq_data]; rfl
theorem str_similarity : str "similarity index " =
    [115, 105, 109, 105, 108, 97, 114, 105, 116, 121, 32, 105, 110, 100, 101, 120, 32] := by
  unfold str String.toUTF8; rw [Cpp.byteArray_toList_eq_data]; rfl
theorem str_deleted : str "deleted file mode " =
    100 :: [101, 108, 101, 116, 101, 100, 32, 102, 105, 108, 101, 32, 109, 111, 100, 101, 32] := by
  unfold str String.toUTF8; rw [Cpp.byteArray_toList_eq_data]; rfl
theorem str_newfile : str "new file mode " = 110 :: [101, 119, 32, 102, 105, 108, 101, 32, 109, 111, 100, 101, 32] := by
  unfold str String.toUTF8; rw [Cpp.byteArray_toList_eq_data]; rfl
theorem str_oldmode : str "old mode " = 111 :: [108, 100, 32, 109, 111, 100, 101, 32] := by
  unfold str String.toUTF8; rw [Cpp.byteArray_toList_eq_data]; rfl
theorem str_newmode : str "new mode " = 110 :: [101, 119, 32, 109, 111, 100, 101, 32] := by
  unfold str String.toUTF8; rw [Cpp.byteArray_toList_eq_data]; rfl

/-! ### the `index …` line of a git section -/

/-- `parse_git_extended_info` on an `index <hash>..<hash> <mode>` line: recognised, nothing is taken from it -/
theorem gitExt_index (x : Bytes) (p : Patch) (strip : Int) :
    parseGitExtendedInfo (str "index " ++ x) p strip = .ok (true, p) := by
  have hd : (str "index " ++ x).head? = some 105 := by rw [str_index_lc]; rfl
  have k : ∀ (kw : String) (c : UInt8) (bs : Bytes), str kw = c :: bs → c ≠ 105 →
      consumeStr (str kw) (str "index " ++ x) = none :=
    fun kw c bs hk hc => consumeStr_none_of_startsWith (startsWith_false_of_head _ kw c bs hk (by
      rw [hd]; intro h; exact hc (Option.some.inj h).symm))
  unfold parseGitExtendedInfo
  simp only [k _ _ _ Names.str_rename_from (by decide), k _ _ _ Names.str_rename_to (by decide),
    k _ _ _ Names.str_copy_to (by decide), k _ _ _ Names.str_copy_from (by decide), k _ _ _ str_deleted (by decide),
    k _ _ _ str_newfile (by decide), k _ _ _ str_oldmode (by decide), k _ _ _ str_newmode (by decide),
    Unified.consumeStr_append]

theorem noKeyword_index (x : Bytes) : NoKeyword (str "index " ++ x) := by
  have hd : (str "index " ++ x).head? = some 105 := by rw [str_index_lc]; rfl
  apply noKeyword_of_head <;> rw [hd] <;> decide

/-- an `index` line inside a git section: it belongs to the header (the first hunk can only start after it) -/
theorem headerStep_index_git (st : HState) (x : Bytes) (strip : Int) (hg : st.isGit = true) :
    headerStep st (str "index " ++ x) strip = .ok ({ entered st with ltfh := st.lines + 2 }, true) := by
  have hd : (str "index " ++ x).head? = some 105 := by rw [str_index_lc]; rfl
  rw [headerStep_tail st _ strip (noKeyword_index x)
    (not_firstBodyLine_of_head (by rw [hd]; decide) (by rw [hd]; decide) (by rw [hd]; decide) (by rw [hd]; decide))]
  unfold Cost.hdrTail
  simp only [hg, if_true, gitExt_index]

/-! ### the last four lines of a git section header -/

/-- `--- old`, `+++ new`, the range line and a first body line, read in git mode (after the `diff --git` line and any
    extended header lines) -/
theorem headerLoop_git_tail (strip : Int) (st : HState) (old new : Bytes) (h : Hunk) (first : Line)
    (more : List Line) (fuel : Nat)
    (hold : wordName old) (hnew : wordName new) (hr : rangeOk h)
    (hb : bodyStart first.content) (hterm : first.newline ≠ .none)
    (hg : st.isGit = true) (hf : st.patch.format = .unified) (hlooks : st.thisLooks ≠ .unified)
    (heof : st.par.s.eof = false) (hbad : st.par.s.bad = false)
    (hrest : st.par.s.rest = ⟨str "--- " ++ old, .lf⟩ :: ⟨str "+++ " ++ new, .lf⟩ ::
                               ⟨Unified.rangeText h, .lf⟩ :: first :: more) :
    headerLoop strip (fuel + 4) st =
      .ok { st with par := { s := { st.par.s with rest := more }, lineNo := st.par.lineNo + 4 },
                    patch := { st.patch with format := .unified, oldPath := stripped old strip, newPath := stripped new strip,
                                             oldTime := st.patch.newTime, newTime := st.patch.oldTime },
                    lines := st.lines + 4, thisLooks := .unknown,
                    hunk := { st.hunk with old := h.old, new := h.new }, ltfh := st.lines + 3,
                    foundFirstHunk := true } := by
  obtain ⟨⟨⟨r0, e0, b0⟩, n0⟩, p, tl, li, g, sb, hk, lt⟩ := st
  simp only at hg hf heof hbad hrest hlooks
  subst hg heof hbad hrest
  have hfl1 := Names.file_line_word old strip hold.1 hold.2.2.2 hold.2.1 hold.2.2.1
  have hfl2 := Names.file_line_word new strip hnew.1 hnew.2.2.2 hnew.2.1 hnew.2.2.1
  obtain ⟨h1, h2, h3, h4, h5, h6, h7, h8⟩ := hr
  have hrng := fun h0 => Unified.unified_range_roundtrip h h0 h1 h3 h5 h7 h2 h4 h6 h8
  have hrh := rangeText_head h
  -- `--- old`
  rw [show fuel + 4 = (fuel + 3) + 1 from rfl,
    headerLoop_step strip _ _ _ ⟨_, .lf⟩ _ rfl rfl rfl (by simp) true (by
      simp only []
      rw [headerStep_minus _ _ _ (not_firstBodyLine_of_looks hlooks), hfl1]
      rfl)]
  simp only [if_true]
  -- `+++ new`
  rw [show fuel + 3 = (fuel + 2) + 1 from rfl,
    headerLoop_step strip _ _ _ ⟨_, .lf⟩ _ rfl rfl rfl (by simp) true (by
      simp only []
      rw [headerStep_plus _ _ _ (not_firstBodyLine_of_looks (by simp)), hfl2]
      rfl)]
  simp only [if_true]
  -- the range line
  rw [show fuel + 2 = (fuel + 1) + 1 from rfl,
    headerLoop_step strip _ _ _ ⟨_, .lf⟩ _ rfl rfl rfl (by simp) true
      (headerStep_range_git _ _ strip (noKeyword_rangeText h) rfl
        (gitExt_of_head _ _ _ (by rw [hrh]; decide) (by rw [hrh]; decide) (by rw [hrh]; decide) (by rw [hrh]; decide)
          (by rw [hrh]; decide) (by rw [hrh]; decide) (by rw [hrh]; decide))
        (Or.inr hf) _ (fun hh => not_bodyStart_rangeText h hh.2) (hrng _))]
  simp only [if_true]
  -- the first body line
  rw [headerLoop_step strip _ _ _ first _ rfl rfl rfl hterm false
      (headerStep_first' _ _ strip (Or.inr hf) rfl hb)]
  simp only [Bool.false_eq_true, if_false, stripped]

/-! ### the header of a git section, with or without an `index` line -/

/-- the optional `index <hash>..<hash> <mode>` line -/
def extLines : Option Bytes → List Line
  | none => []
  | some x => [⟨str "index " ++ x, .lf⟩]

theorem headerLoop_git_ext (strip : Int) (st : HState) (r name old new : Bytes) (ix : Option Bytes) (h : Hunk) (first : Line)
    (more : List Line) (fuel : Nat)
    (hname : parseGitHeaderName r strip = .ok name)
    (hold : wordName old) (hnew : wordName new) (hr : rangeOk h)
    (hb : bodyStart first.content) (hterm : first.newline ≠ .none)
    (hg : st.isGit = false)
    (heof : st.par.s.eof = false) (hbad : st.par.s.bad = false)
    (hrest : st.par.s.rest = ⟨str "diff --git " ++ r, .lf⟩ :: (extLines ix ++ ⟨str "--- " ++ old, .lf⟩ ::
                               ⟨str "+++ " ++ new, .lf⟩ :: ⟨Unified.rangeText h, .lf⟩ :: first :: more)) :
    headerLoop strip (fuel + 5 + (extLines ix).length) st =
      .ok { st with par := { s := { st.par.s with rest := more }, lineNo := st.par.lineNo + (5 + (extLines ix).length) },
                    patch := { st.patch with format := .unified, oldPath := stripped old strip, newPath := stripped new strip,
                                             oldTime := st.patch.newTime, newTime := st.patch.oldTime },
                    lines := st.lines + (5 + (extLines ix).length), thisLooks := .unknown, isGit := true,
                    hunk := { st.hunk with old := h.old, new := h.new }, ltfh := st.lines + (4 + (extLines ix).length),
                    foundFirstHunk := true } := by
  cases ix with
  | none =>
    simp only [extLines, List.nil_append, List.length_nil, Nat.add_zero] at hrest ⊢
    exact headerLoop_git strip st r name old new h first more fuel hname hold hnew hr hb hterm hg heof hbad hrest
  | some x =>
    obtain ⟨⟨⟨r0, e0, b0⟩, n0⟩, p, tl, li, g, sb, hk, lt⟩ := st
    simp only [extLines, List.cons_append, List.nil_append, List.length_cons, List.length_nil] at hrest ⊢
    simp only at hg heof hbad hrest
    subst hg heof hbad hrest
    -- the `diff --git` line
    rw [show fuel + 5 + (0 + 1) = (fuel + 5) + 1 from rfl,
      headerLoop_step strip _ _ _ ⟨_, .lf⟩ _ rfl rfl rfl (by simp) true (by
        simp only []
        rw [headerStep_git_first _ _ _ rfl, hname]
        rfl)]
    simp only [if_true]
    -- the `index` line
    rw [show fuel + 5 = (fuel + 4) + 1 from rfl,
      headerLoop_step strip _ _ _ ⟨_, .lf⟩ _ rfl rfl rfl (by simp) true
        (headerStep_index_git _ x strip rfl)]
    simp only [if_true]
    -- the rest
    rw [headerLoop_git_tail strip _ old new h first more fuel hold hnew hr hb hterm rfl rfl (by simp) rfl rfl rfl]

/-- **the header of a git section (with or without an `index` line) is read back**: a git patch with the two names
    (stripped by `-p`), the stream left at the range line, the operation `gitInferredOp` -/
theorem parseHeader_git_ext (strip : Int) (par : Parser) (pt : Patch) (r name old new : Bytes) (ix : Option Bytes) (h : Hunk)
    (first : Line) (more : List Line)
    (hname : parseGitHeaderName r strip = .ok name)
    (hold : wordName old) (hnew : wordName new) (hr : rangeOk h)
    (hb : bodyStart first.content) (hterm : first.newline ≠ .none)
    (hop : pt.operation = .change)
    (heof : par.s.eof = false) (hbad : par.s.bad = false)
    (hrest : par.s.rest = ⟨str "diff --git " ++ r, .lf⟩ :: (extLines ix ++ ⟨str "--- " ++ old, .lf⟩ ::
                               ⟨str "+++ " ++ new, .lf⟩ :: ⟨Unified.rangeText h, .lf⟩ :: first :: more)) :
    parseHeader par pt strip =
      .ok (true,
           { pt with format := .git, operation := gitInferredOp h (stripped old strip) (stripped new strip),
                     oldPath := stripped old strip, newPath := stripped new strip,
                     oldTime := pt.newTime, newTime := pt.oldTime },
           { linesTillFirstHunk := 4 + (extLines ix).length, format := .git },
           { s := { rest := ⟨Unified.rangeText h, .lf⟩ :: first :: more, eof := false, bad := false },
             lineNo := par.lineNo + (3 + (extLines ix).length) }) := by
  have hloop := headerLoop_git_ext strip { par := par, patch := pt } r name old new ix h first more (more.length + 2)
    hname hold hnew hr hb hterm rfl heof hbad hrest
  have hlen : par.s.rest.length + 2 = (more.length + 2) + 5 + (extLines ix).length := by
    rw [hrest]; simp only [List.length_cons, List.length_append]; omega
  unfold parseHeader
  rw [hlen, hloop]
  simp only [PStream.clear, PStream.seek, if_true, hop, Bool.not_true, Bool.false_eq_true, false_or]
  have hsk := skipLines_terminated
    (⟨str "diff --git " ++ r, .lf⟩ :: (extLines ix ++ [⟨str "--- " ++ old, .lf⟩, (⟨str "+++ " ++ new, .lf⟩ : Line)]))
    (⟨Unified.rangeText h, .lf⟩ :: first :: more) { s := { rest := par.s.rest }, lineNo := par.lineNo } rfl rfl
    (by rw [hrest]; simp)
    (by
      intro l hl
      cases ix with
      | none =>
        simp only [extLines, List.nil_append, List.mem_cons, List.not_mem_nil, or_false] at hl
        rcases hl with rfl | rfl | rfl <;> simp
      | some x =>
        simp only [extLines, List.cons_append, List.nil_append, List.mem_cons, List.not_mem_nil, or_false] at hl
        rcases hl with rfl | rfl | rfl | rfl <;> simp)
  have e : 0 + (4 + (extLines ix).length) - 1 =
      ((⟨str "diff --git " ++ r, .lf⟩ : Line) :: (extLines ix ++ [⟨str "--- " ++ old, .lf⟩, (⟨str "+++ " ++ new, .lf⟩ : Line)])).length := by
    simp only [List.length_cons, List.length_append, List.length_nil]; omega
  rw [e, hsk]
  have e2 : par.lineNo + ((⟨str "diff --git " ++ r, .lf⟩ : Line) ::
      (extLines ix ++ [⟨str "--- " ++ old, .lf⟩, (⟨str "+++ " ++ new, .lf⟩ : Line)])).length = par.lineNo + (3 + (extLines ix).length) := by
    simp only [List.length_cons, List.length_append, List.length_nil]; omega
  simp only [e2, Nat.zero_add, gitInferredOp]
  split
  · rfl
  · split <;> rfl

/-! ### the text of a git-format diff, as lines -/

/-- the bytes of the optional `index` line -/
def extText : Option Bytes → Bytes
  | none => []
  | some x => (str "index " ++ x) ++ [NL]

/-- the bytes of a git-format diff of `name` against itself: `diff --git a/name b/name`, the optional `index` line,
    `--- a/name`, `+++ b/name`, the hunks as `write_hunk_as_unified` writes them -/
def gitDiffText (name : Bytes) (ix : Option Bytes) (hs : List Hunk) : Bytes :=
  (str "diff --git " ++ (str "a/" ++ name ++ str " b/" ++ name)) ++ NL :: (extText ix ++
    ((str "--- " ++ (str "a/" ++ name)) ++ NL :: ((str "+++ " ++ (str "b/" ++ name)) ++ NL :: hs.flatMap writeHunkUnified)))

/-- … and its lines -/
def gitDiffLines (name : Bytes) (ix : Option Bytes) (hs : List Hunk) : List Line :=
  ⟨str "diff --git " ++ (str "a/" ++ name ++ str " b/" ++ name), .lf⟩ :: (extLines ix ++
    ⟨str "--- " ++ (str "a/" ++ name), .lf⟩ :: ⟨str "+++ " ++ (str "b/" ++ name), .lf⟩ :: hs.flatMap hunkLines)

/-- a field that ends a header line: no line feed in it, and it does not end in CR -/
def endField (b : Bytes) : Prop := NL ∉ b ∧ b.getLast? ≠ some CR

theorem getLast?_append_ne {pre b : Bytes} {c : UInt8} (hp : pre.getLast? ≠ some c) (hb : b.getLast? ≠ some c) :
    (pre ++ b).getLast? ≠ some c := by
  rw [List.getLast?_append]
  cases hb' : b.getLast? with
  | none => simpa using hp
  | some d => rw [hb'] at hb; simpa using hb

theorem splitLines_gitDiffText (name : Bytes) (ix : Option Bytes) (hs : List Hunk)
    (hn : endField name) (hx : ∀ x, ix = some x → endField x) (hw : ∀ h ∈ hs, h.writable = true) :
    splitLines (gitDiffText name ix hs) = gitDiffLines name ix hs := by
  have hA : NL ∉ str "a/" := by rw [Names.str_a]; decide
  have hB : NL ∉ str "b/" := by rw [Names.str_b]; decide
  have hSB : NL ∉ str " b/" := by rw [Names.str_sp_b]; decide
  have hG : NL ∉ str "diff --git " := by rw [str_git]; decide
  have hM : NL ∉ str "--- " := by rw [str_new4]; decide
  have hP : NL ∉ str "+++ " := by rw [str_plus4]; decide
  have hI : NL ∉ str "index " := by rw [str_index_lc]; decide
  have lA : (str "a/").getLast? ≠ some CR := by rw [Names.str_a]; decide
  have lB : (str "b/").getLast? ≠ some CR := by rw [Names.str_b]; decide
  have lSB : (str " b/").getLast? ≠ some CR := by rw [Names.str_sp_b]; decide
  have lI : (str "index ").getLast? ≠ some CR := by rw [str_index_lc]; decide
  have lM : (str "--- ").getLast? ≠ some CR := by rw [str_new4]; decide
  have lP : (str "+++ ").getLast? ≠ some CR := by rw [str_plus4]; decide
  have lG : (str "diff --git ").getLast? ≠ some CR := by rw [str_git]; decide
  unfold gitDiffText gitDiffLines
  rw [splitLines_line _ _ (by simp only [List.mem_append, not_or]; exact ⟨hG, ⟨⟨hA, hn.1⟩, hSB⟩, hn.1⟩)
    (getLast?_append_ne lG (getLast?_append_ne (getLast?_append_ne (getLast?_append_ne lA hn.2) lSB) hn.2))]
  have hrest : splitLines ((str "--- " ++ (str "a/" ++ name)) ++ NL :: ((str "+++ " ++ (str "b/" ++ name)) ++ NL ::
      hs.flatMap writeHunkUnified)) =
      ⟨str "--- " ++ (str "a/" ++ name), .lf⟩ :: ⟨str "+++ " ++ (str "b/" ++ name), .lf⟩ :: hs.flatMap hunkLines := by
    rw [splitLines_line _ _ (by simp only [List.mem_append, not_or]; exact ⟨hM, hA, hn.1⟩)
        (getLast?_append_ne lM (getLast?_append_ne lA hn.2)),
      splitLines_line _ _ (by simp only [List.mem_append, not_or]; exact ⟨hP, hB, hn.1⟩)
        (getLast?_append_ne lP (getLast?_append_ne lB hn.2)),
      splitLines_hunks hs (fun h hh => (writable_spec h (hw h hh)).1) (fun h hh => (writable_spec h (hw h hh)).2.2.2.2.1)]
  generalize ((str "--- " ++ (str "a/" ++ name)) ++ NL :: ((str "+++ " ++ (str "b/" ++ name)) ++ NL ::
      hs.flatMap writeHunkUnified)) = R at hrest ⊢
  cases ix with
  | none => simp only [extText, extLines, List.nil_append]; rw [hrest]
  | some x =>
    have hx' := hx x rfl
    simp only [extText, extLines]
    rw [List.append_assoc (str "index " ++ x) [NL] R, List.singleton_append,
      splitLines_line _ _ (by simp only [List.mem_append, not_or]; exact ⟨hI, hx'.1⟩) (getLast?_append_ne lI hx'.2), hrest]
    rfl

/-! ### header scan + body parse of a whole git-format diff -/

theorem parse_gitDiffLines (strip : Int) (fmt : Format) (name : Bytes) (ix : Option Bytes) (hs : List Hunk) (lineNo : Nat)
    (ha : wordName (str "a/" ++ name)) (hb : wordName (str "b/" ++ name))
    (hne : hs ≠ []) (hw : ∀ h ∈ hs, h.writable = true)
    (hna : stripped (str "a/" ++ name) strip ≠ devNull) (hnb : stripped (str "b/" ++ name) strip ≠ devNull) :
    ∃ patch0 info par1 par2,
      parseHeader { s := { rest := gitDiffLines name ix hs }, lineNo := lineNo } { format := fmt } strip
        = .ok (true, patch0, info, par1) ∧
      patch0.format = .git ∧ patch0.operation = .change ∧ patch0.prerequisite = [] ∧ patch0.hunks = [] ∧
      patch0.newMode = 0 ∧ patch0.oldMode = 0 ∧
      patch0.oldPath = stripped (str "a/" ++ name) strip ∧ patch0.newPath = stripped (str "b/" ++ name) strip ∧
      parseBody par1 patch0 = .ok ({ patch0 with hunks := hs }, par2) ∧ par2.s.eof = true := by
  cases hs with
  | nil => exact absurd rfl hne
  | cons h hs' =>
    have hwh := hw h List.mem_cons_self
    obtain ⟨pl, more, -, hop, hlines⟩ := flatMap_hunkLines_first h hs' hwh
    have hbs : Header.bodyStart (pl.op :: pl.line.content) := by
      rcases hop with e | e | e
      · exact Or.inr (Or.inr ((Header.startsWith_one _ _ _ Header.str_sp).2 (by rw [e]; rfl)))
      · exact Or.inl ((Header.startsWith_one _ _ _ Header.str_plus).2 (by rw [e]; rfl))
      · exact Or.inr (Or.inl ((Header.startsWith_one _ _ _ Header.str_minus).2 (by rw [e]; rfl)))
    have hp := parseHeader_git_ext strip
      { s := { rest := gitDiffLines name ix (h :: hs') }, lineNo := lineNo } { format := fmt }
      (str "a/" ++ name ++ str " b/" ++ name) _ (str "a/" ++ name) (str "b/" ++ name) ix h
      ⟨pl.op :: pl.line.content, wireNl pl.line⟩ more (Names.git_header_same_name name strip) ha hb
      (rangeOk_of_writable h hwh) hbs (wireNl_ne_none _) rfl rfl rfl (by simp only [gitDiffLines]; rw [hlines])
    obtain ⟨par2, hbody, _, heof, _⟩ := unified_roundtrip_eof (h :: hs') hne hw (lineNo + (3 + (extLines ix).length))
    rw [hlines] at hbody
    have hinf : gitInferredOp h (stripped (str "a/" ++ name) strip) (stripped (str "b/" ++ name) strip) = .change := by
      unfold gitInferredOp
      rw [if_neg (fun hh => hnb hh.2), if_neg (fun hh => hna hh.2)]
    refine ⟨_, _, _, par2, hp, rfl, hinf, rfl, rfl, rfl, rfl, rfl, rfl, ?_, heof⟩
    simp only [parseBody]
    rw [hbody]
    rfl

/-! ### one git section: the write is only recorded -/

/-- what `write_patched_result_to_file` hands to the `DeferredWriter` -/
abbrev deferredOf (out content : Bytes) (newMode : Nat) (perm : PermResult) (sb : Bool) : DeferredWrite :=
  { dest := out, content := content, newMode := newMode, perm := perm, backup := sb }

/-- `write_patched_result_to_file` for a git patch that neither adds nor removes the file (and is not about a symbolic
    link): nothing is done, the write is recorded -/
theorem run_writePatchedResult_git (o : Options) (pt : Patch) (out : Bytes) (perm : PermResult) (sb : Bool) (content : Bytes)
    (s : DState) (hfmt : (pt.format == .git) = true) (hop : (pt.operation == .add) = false)
    (hod : (pt.operation == .delete) = false) (hnm : pt.newMode = 0) :
    (writePatchedResult o pt out perm sb content).run s =
      (.ok (), { s with dWrites := s.dWrites ++ [deferredOf out content 0 perm sb] }) := by
  have hsym : isSymlinkMode 0 = false := by decide
  unfold writePatchedResult
  simp only [hfmt, hop, hod, hnm, hsym, Bool.false_eq_true, if_false, bne, Bool.not_false, Bool.and_self, if_true,
    run_modify]

/-- the hypotheses shared by the real and the dry run of a git "change" section -/
structure GitSection (o : Options) (fmt : Format) (s : DState) (p bytes : Bytes) (m : Nat)
    (patch0 patch2 : Patch) (info : HeaderInfo) (par1 par2 : Parser) (r : ApplyResult) : Prop where
  noOperand : o.fileToPatch = []
  oldPath : patch0.oldPath = p
  notNull : p ≠ devNull
  noOut : o.outFile = []
  noBackup : o.saveBackup = false
  pathNe : p ≠ []
  cwd : s.cwd = []
  hdr : parseHeader s.par { format := fmt } o.strip = .ok (true, patch0, info, par1)
  fmt : patch0.format = .git
  op : patch0.operation = .change
  pre : patch0.prerequisite = []
  body : parseBody par1 patch0 = .ok (patch2, par2)
  fmt2 : patch2.format = .git
  op2 : patch2.operation = .change
  newMode2 : patch2.newMode = 0
  file : s.fs.lookup p = some (.file bytes m)
  writable : m &&& writeMask ≠ 0
  root : s.fs.isRoot = true
  noFault : s.faultAt = none
  apply : applyPatch (splitLines bytes) patch2 (applyOptsOf o)
      (Option.map (fun l => List.map (fun a => !List.isEmpty a && List.head? a != some 110) l) s.tty) = .ok r
  failed : r.failed = 0
  perfect : r.perfect = true
  skipped : r.skipped = false
  msgs : r.msgs = []
  ttyLeft : r.tty = Option.map (fun l => List.map (fun a => !List.isEmpty a && List.head? a != some 110) l) s.tty
  patch : r.patch = patch2

/-- what a cleanly applied git section leaves behind, apart from the tree and the trace: as `Section.SectionDone`, but the
    deferred writes `ws` are added to the list (`output ≠ input` for a rename) -/
structure GitDone (s s' : DState) (p outp : Bytes) (par2 : Parser) (dry : Bool) (ws : List DeferredWrite)
    (rs : List (Bytes × Bool)) : Prop where
  par : s'.par = par2
  hadFailure : s'.hadFailure = s.hadFailure
  dWrites : s'.dWrites = s.dWrites ++ ws
  dRemovals : s'.dRemovals = s.dRemovals ++ rs
  tty : s'.tty = s.tty
  out : s'.out = s.out ++ [.file outp dry]
  cwd : s'.cwd = s.cwd
  faultAt : s'.faultAt = s.faultAt
  backedUp : s'.backedUp = s.backedUp
  stdin : s'.stdin = s.stdin
  stdout : s'.stdout = s.stdout
  firstPatch : s'.firstPatch = false
  sections : s'.sections = s.sections ++ [(p, outp)]

section
variable {o : Options} {fmt : Format} {s : DState} {p bytes : Bytes} {m : Nat}
  {patch0 patch2 : Patch} {info : HeaderInfo} {par1 par2 : Parser} {r : ApplyResult}

syntax "git_run " "[" Lean.Parser.Tactic.simpLemma,* "]" : tactic
set_option hygiene false in
macro_rules | `(tactic| git_run [$ls,*]) => `(tactic| (
  have hfu : (patch0.format == Format.unknown) = false := by rw [H.fmt]; rfl
  have hfg : (patch2.format == Format.git) = true := by rw [H.fmt2]; rfl
  have hob : (patch0.operation == Operation.binary) = false := by rw [H.op]; rfl
  have hor : (patch0.operation == Operation.rename) = false := by rw [H.op]; rfl
  have hoc : (patch0.operation == Operation.copy) = false := by rw [H.op]; rfl
  have hoa2 : (patch2.operation == Operation.add) = false := by rw [H.op2]; rfl
  have hor2 : (patch2.operation == Operation.rename) = false := by rw [H.op2]; rfl
  have hoc2 : (patch2.operation == Operation.copy) = false := by rw [H.op2]; rfl
  have hod2 : (patch2.operation == Operation.delete) = false := by rw [H.op2]; rfl
  have hpe : List.isEmpty p = false := by
    cases p with
    | nil => exact absurd rfl H.pathNe
    | cons _ _ => rfl
  have hout : outputPath o patch0 p = p := by
    unfold outputPath; simp [H.noOut, hor, hoc]
  have hdash : (o.outFile == [45]) = false := by rw [H.noOut]; rfl
  have hguess : ∀ s' : DState, s'.cwd = [] → s'.fs.lookup p = some (.file bytes m) →
      (guessFilepath patch0 o.reverse).run s' = (.ok p, s') := by
    intro s' h1 h2
    have := run_guessFilepath_old patch0 o.reverse (s := s') (b := bytes) (m := m) h1 (by rw [hor, hoc]; simp)
      (by rw [H.oldPath]; exact H.notNull)
      (by rw [H.oldPath]; exact h2)
    rw [H.oldPath] at this
    exact this
  unfold processSection
  simp only [↓run_bind, ↓run_get, ↓run_liftE, ↓run_modify, ↓run_pure, ↓run_emit,
    H.hdr, hfu, hob, H.noOperand, List.isEmpty_nil, hguess, hpe, hout, hor, hdash,
    Bool.false_eq_true, ↓reduceIte, Bool.false_and, Bool.and_false, Bool.not_true, Bool.not_false,
    Bool.or_false, Bool.false_or, Bool.and_true, Bool.true_and,
    run_createTemp, H.noFault, H.cwd,
    run_fsExists_file (b := bytes) (m := m), run_fsIsRegular_file (b := bytes) (m := m),
    run_fsIsSymlink_file (b := bytes) (m := m), H.file,
    (fun s' => @run_fixPermissions_writable o s' p bytes m), H.writable, ne_eq, not_false_eq_true,
    absPath_nil, readFile_root (b := bytes) (m := m), H.root,
    H.pre,
    run_parseBodyM_true (pt' := patch2) (par' := par2), H.body,
    H.apply, H.msgs, H.failed, H.perfect, H.skipped, H.patch, H.noBackup, hoa2, hor2, hoc2, hod2,
    bne_self_eq_false, beq_self_eq_true, H.ttyLeft, hfg, H.newMode2, $ls,*]))

/-- **a clean git section, real run**: NOTHING of the tree is touched (two anonymous temporaries apart); the result is handed
    to the deferred writer -/
theorem processSection_git (H : GitSection o fmt s p bytes m patch0 patch2 info par1 par2 r) (hreal : o.dryRun = false) :
    ∃ s', (processSection o fmt).run s = (.ok true, s') ∧
      s'.fs = s.fs ∧
      s'.trace = s.trace ++ [.tmpCreate, .tmpUnlink] ++ [.tmpCreate, .tmpUnlink] ∧
      s'.opCount = s.opCount + 4 ∧
      GitDone s s' p p par2 false
        [deferredOf p (render o.newlineOutput r.out) 0 { oldPerms := some m, needFix := false, hadFailure := false } false] [] := by
  git_run [hreal, (fun pt out perm sb c s' => run_writePatchedResult_git o pt out perm sb c s')]
  refine ⟨_, rfl, rfl, rfl, rfl, ⟨rfl, rfl, rfl, by simp, ?_, ?_, (by first | rfl | exact H.cwd.symm), (by first | rfl | exact H.noFault.symm), rfl, rfl, rfl, rfl, rfl⟩⟩
  · generalize s.tty = t
    cases t <;> simp
  · simp

/-- **a clean git section under --dry-run** -/
theorem processSection_git_dry (H : GitSection o fmt s p bytes m patch0 patch2 info par1 par2 r) (hdry : o.dryRun = true) :
    ∃ s', (processSection o fmt).run s = (.ok true, s') ∧
      s'.fs = s.fs ∧
      s'.trace = s.trace ++ [.tmpCreate, .tmpUnlink] ++ [.tmpCreate, .tmpUnlink] ∧
      GitDone s s' p p par2 true [] [] := by
  git_run [hdry]
  refine ⟨_, rfl, rfl, rfl, ⟨rfl, rfl, by simp, by simp, ?_, ?_, (by first | rfl | exact H.cwd.symm), (by first | rfl | exact H.noFault.symm), rfl, rfl, rfl, rfl, rfl⟩⟩
  · generalize s.tty = t
    cases t <;> simp
  · simp

end

/-! ### `DeferredWriter::finalize` -/

/-- the deferred write of one file over an existing, writable regular file whose directories exist, no backup, no mode in
    the patch: (the `mkdir`s are attempted and answered EEXIST,) `creat`, `write`, `chmod` back to the remembered mode -/
theorem run_finalizeDeferred_one (o : Options) (s : DState) (p content b : Bytes) (m m0 : Nat) (perm : PermResult)
    (hw : s.dWrites = [deferredOf p content 0 perm false]) (hr : s.dRemovals = [])
    (hperm : perm.oldPerms = some m) (hnf : perm.needFix = false)
    (hp : p ≠ []) (hcwd : s.cwd = []) (hfile : s.fs.lookup p = some (.file b m0)) (hroot : s.fs.isRoot = true)
    (hdir : s.fs.dirExists (parentOf p) = true) (hpre : ∀ d ∈ dirPrefixes p, (s.fs.lookup d).isSome = true)
    (hf : s.faultAt = none) :
    (finalizeDeferred o).run s =
      (.ok (), { s with fs := s.fs.set p (.file content m), trace := s.trace ++ resultOps p content m,
                        opCount := s.opCount + (dirPrefixes p).length + (resultOps p content m).length }) := by
  rw [finalizeDeferred_eq]
  simp only [run_bind, run_get, hw, hr, List.forIn_cons, List.forIn_nil, run_pure]
  rw [ensureParentDirs_run_exist p s hp hf (by intro d hd; rw [absPath_nil hcwd]; exact hpre d hd)]
  simp only []
  unfold writeNow
  simp only [run_bind, run_makeWritable_noFix hnf, Bool.false_eq_true, if_false, run_pure]
  rw [run_writeFile_existing content (by exact hcwd) (by exact hfile) (by exact hroot) (by exact hdir) (by exact hf)]
  simp only []
  rw [run_permissionCallback_old m perm hperm (by exact hcwd) (Fs.lookup_set_self _ _ _) (by exact hf)]
  simp only [resultOps, Fs.set_set, List.append_assoc, Nat.add_assoc, List.length_append, List.length_cons, List.length_nil,
    Nat.zero_add, hw, hr]
  rfl

/-- `process_patch` with the patch read from a regular file of the tree (`-i pname`), no `-d`: the section loop on the lines
    of that file, then `DeferredWriter::finalize` -/
theorem run_processPatchM_fin (o : Options) (s0 s' : DState) (pname ptext : Bytes) (pm : Nat) (fmt : Format)
    (hdir : o.directory = []) (hpf : o.patchFile = pname) (hpne : pname ≠ []) (hpd : pname ≠ [45])
    (hcwd : s0.cwd = []) (hfile : s0.fs.lookup pname = some (.file ptext pm)) (hroot : s0.fs.isRoot = true)
    (hfmt : diffFormatFromOptions o = .ok fmt)
    (hloop : (sectionLoop o fmt ((splitLines ptext).length + 2)).run { s0 with par := { s := { rest := splitLines ptext } } }
      = (.ok (), s')) :
    (processPatchM o).run s0 = (finalizeDeferred o).run s' := by
  have hpe : pname.isEmpty = false := by
    cases pname with
    | nil => exact absurd rfl hpne
    | cons _ _ => rfl
  have hpd' : (pname == [45]) = false := by simpa using hpd
  unfold processPatchM
  simp only [hdir, List.isEmpty_nil, Bool.not_true, Bool.false_eq_true, if_false, ↓run_bind, ↓run_get, ↓run_pure, hpf,
    hpe, hpd', Bool.or_false, absPath_nil hcwd, Fs.stat_of_file hfile, hroot, Bool.true_or, if_true, ↓run_liftE, hfmt,
    ↓run_modify, hloop]

/-! ## the pure rename: `diff --git a/old b/new`, `similarity index N%`, `rename from old`, `rename to new` -/

/-! ### the header -/

/-- `parse_git_header_name` does not fail on a line that does not start with a quote -/
theorem parseGitHeaderName_ok (r : Bytes) (strip : Int) (hq : r.head? ≠ some DQUOTE) :
    ∃ n, parseGitHeaderName r strip = .ok n := by
  cases r with
  | nil => exact ⟨_, rfl⟩
  | cons c rest =>
    have hc : (c == DQUOTE) = false := by simpa using hq
    unfold parseGitHeaderName
    simp only [hc, Bool.false_eq_true, if_false]
    split <;> exact ⟨_, rfl⟩

theorem noKeyword_similarity (x : Bytes) : NoKeyword (str "similarity index " ++ x) := by
  have hd : (str "similarity index " ++ x).head? = some 115 := by rw [str_similarity]; rfl
  apply noKeyword_of_head <;> rw [hd] <;> decide

/-- a `similarity index` line inside a git section says nothing to the header scan -/
theorem headerStep_similarity_git (st : HState) (x : Bytes) (strip : Int) (hg : st.isGit = true)
    (hf : st.patch.format = .unified) :
    headerStep st (str "similarity index " ++ x) strip = .ok (entered st, true) := by
  obtain ⟨par, p, tl, li, g, sb, hk, lt, ff⟩ := st
  simp only at hg hf
  subst hg
  have hd : (str "similarity index " ++ x).head? = some 115 := by rw [str_similarity]; rfl
  have hat : startsWith (str "similarity index " ++ x) "@@ -" = false :=
    startsWith_false_of_head _ _ _ _ Unified.str_atat_minus (by rw [hd]; decide)
  rw [headerStep_tail _ _ strip (noKeyword_similarity x)
    (not_firstBodyLine_of_head (by rw [hd]; decide) (by rw [hd]; decide) (by rw [hd]; decide) (by rw [hd]; decide))]
  unfold Cost.hdrTail Cost.hdrUnified Cost.hdrNormal Cost.hdrContext
  simp only [if_true, gitExt_of_head _ _ _ (by rw [hd]; decide) (by rw [hd]; decide) (by rw [hd]; decide)
    (by rw [hd]; decide) (by rw [hd]; decide) (by rw [hd]; decide) (by rw [hd]; decide), hf, parseUnifiedRange_none _ _ hat,
    or_true, Bool.false_eq_true, if_false, reduceCtorEq, or_self]
  try rfl

/-- `rename from n` under `-p1`: the name as it stands -/
theorem gitExt_rename_from_p1 (n : Bytes) (p : Patch) (hq : n.head? ≠ some DQUOTE) :
    parseGitExtendedInfo (str "rename from " ++ n) p 1 = .ok (true, { p with operation := .rename, oldPath := n }) := by
  unfold parseGitExtendedInfo
  simp only [Names.consumeStr_self_append]
  cases n with
  | nil => simp [Names.stripPath_zero, Except.map]
  | cons c r =>
    have hc : (c == DQUOTE) = false := by simpa using hq
    simp [hc, Names.stripPath_zero, Except.map]

/-- `rename to n` under `-p1` -/
theorem gitExt_rename_to_p1 (n : Bytes) (p : Patch) (hq : n.head? ≠ some DQUOTE) :
    parseGitExtendedInfo (str "rename to " ++ n) p 1 = .ok (true, { p with operation := .rename, newPath := n }) := by
  have h1 : consumeStr (str "rename from ") (str "rename to " ++ n) = none := by
    rw [Names.str_rename_from, Names.str_rename_to]; simp [consumeStr, List.isPrefixOf]
  unfold parseGitExtendedInfo
  simp only [h1, Names.consumeStr_self_append]
  cases n with
  | nil => simp [Names.stripPath_zero, Except.map]
  | cons c r =>
    have hc : (c == DQUOTE) = false := by simpa using hq
    simp [hc, Names.stripPath_zero, Except.map]

theorem headerStep_ext_git (st : HState) (l : Bytes) (strip : Int) (p' : Patch) (hg : st.isGit = true)
    (hh : l.head? = some 114) (hx : parseGitExtendedInfo l st.patch strip = .ok (true, p')) :
    headerStep st l strip = .ok ({ entered st with patch := p', ltfh := st.lines + 2 }, true) := by
  rw [headerStep_tail st _ strip (by apply noKeyword_of_head <;> rw [hh] <;> decide)
    (not_firstBodyLine_of_head (by rw [hh]; decide) (by rw [hh]; decide) (by rw [hh]; decide) (by rw [hh]; decide))]
  unfold Cost.hdrTail
  simp only [hg, if_true]
  rw [show (entered st).patch = st.patch from rfl, hx]

/-- the header loop over the four lines of a pure rename, up to the end of the input -/
theorem headerLoop_git_rename (st : HState) (r name old new sim : Bytes) (fuel : Nat)
    (hname : parseGitHeaderName r 1 = .ok name)
    (hold : old.head? ≠ some DQUOTE) (hnew : new.head? ≠ some DQUOTE)
    (hg : st.isGit = false)
    (heof : st.par.s.eof = false) (hbad : st.par.s.bad = false)
    (hrest : st.par.s.rest = [⟨str "diff --git " ++ r, .lf⟩, ⟨str "similarity index " ++ sim, .lf⟩,
                               ⟨str "rename from " ++ old, .lf⟩, ⟨str "rename to " ++ new, .lf⟩]) :
    headerLoop 1 (fuel + 5) st =
      .ok { st with par := { s := { st.par.s with rest := [], eof := true }, lineNo := st.par.lineNo + 4 },
                    patch := { st.patch with format := .unified, operation := .rename, oldPath := old, newPath := new },
                    lines := st.lines + 4, thisLooks := .unknown, isGit := true, ltfh := st.lines + 5 } := by
  obtain ⟨⟨⟨r0, e0, b0⟩, n0⟩, p, tl, li, g, sb, hk, lt⟩ := st
  simp only at hg heof hbad hrest
  subst hg heof hbad hrest
  have h114a : (str "rename from " ++ old).head? = some 114 := by rw [Names.str_rename_from]; rfl
  have h114b : (str "rename to " ++ new).head? = some 114 := by rw [Names.str_rename_to]; rfl
  -- the `diff --git` line
  rw [show fuel + 5 = (fuel + 4) + 1 from rfl,
    headerLoop_step 1 _ _ _ ⟨_, .lf⟩ _ rfl rfl rfl (by simp) true (by
      simp only []
      rw [headerStep_git_first _ _ _ rfl, hname]
      rfl)]
  simp only [if_true]
  -- `similarity index`
  rw [show fuel + 4 = (fuel + 3) + 1 from rfl,
    headerLoop_step 1 _ _ _ ⟨_, .lf⟩ _ rfl rfl rfl (by simp) true (headerStep_similarity_git _ sim 1 rfl rfl)]
  simp only [if_true]
  -- `rename from`
  rw [show fuel + 3 = (fuel + 2) + 1 from rfl,
    headerLoop_step 1 _ _ _ ⟨_, .lf⟩ _ rfl rfl rfl (by simp) true
      (headerStep_ext_git _ _ 1 _ rfl h114a (gitExt_rename_from_p1 old _ hold))]
  simp only [if_true]
  -- `rename to`
  rw [show fuel + 2 = (fuel + 1) + 1 from rfl,
    headerLoop_step 1 _ _ _ ⟨_, .lf⟩ _ rfl rfl rfl (by simp) true
      (headerStep_ext_git _ _ 1 _ rfl h114b (gitExt_rename_to_p1 new _ hnew))]
  simp only [if_true]
  -- the end of the input
  rw [headerLoop, getLine_nil _ rfl rfl rfl]

/-- **the header of a pure git rename is read back** (`-p1`): a git patch, operation "rename", the two names as they stand
    on the `rename from` / `rename to` lines; the body (there is none) is to be parsed from the end of the input -/
theorem parseHeader_git_rename (par : Parser) (pt : Patch) (r name old new sim : Bytes)
    (hname : parseGitHeaderName r 1 = .ok name)
    (hold : old.head? ≠ some DQUOTE) (hnew : new.head? ≠ some DQUOTE)
    (heof : par.s.eof = false) (hbad : par.s.bad = false)
    (hrest : par.s.rest = [⟨str "diff --git " ++ r, .lf⟩, ⟨str "similarity index " ++ sim, .lf⟩,
                           ⟨str "rename from " ++ old, .lf⟩, ⟨str "rename to " ++ new, .lf⟩]) :
    parseHeader par pt 1 =
      .ok (true, { pt with format := .git, operation := .rename, oldPath := old, newPath := new },
           { linesTillFirstHunk := 5, format := .git },
           { s := { rest := [], eof := false, bad := false }, lineNo := par.lineNo + 4 }) := by
  have hloop := headerLoop_git_rename { par := par, patch := pt } r name old new sim 1 hname hold hnew rfl heof hbad hrest
  have hlen : par.s.rest.length + 2 = 1 + 5 := by rw [hrest]; rfl
  unfold parseHeader
  rw [hlen, hloop]
  simp only [PStream.clear, PStream.seek, if_true, reduceCtorEq, if_false]
  have hsk := skipLines_terminated
    [⟨str "diff --git " ++ r, .lf⟩, ⟨str "similarity index " ++ sim, .lf⟩,
      ⟨str "rename from " ++ old, .lf⟩, (⟨str "rename to " ++ new, .lf⟩ : Line)]
    [] { s := { rest := par.s.rest }, lineNo := par.lineNo } rfl rfl (by rw [hrest]; rfl)
    (by intro l hl; simp only [List.mem_cons, List.not_mem_nil, or_false] at hl; rcases hl with rfl | rfl | rfl | rfl <;> simp)
  have e : 0 + 5 - 1 = [(⟨str "diff --git " ++ r, .lf⟩ : Line), ⟨str "similarity index " ++ sim, .lf⟩,
      ⟨str "rename from " ++ old, .lf⟩, ⟨str "rename to " ++ new, .lf⟩].length := rfl
  rw [e, hsk]
  rfl

/-! ### the text -/

/-- the bytes of a pure git rename -/
def renameText (old new sim : Bytes) : Bytes :=
  (str "diff --git " ++ (str "a/" ++ old ++ str " b/" ++ new)) ++ NL :: ((str "similarity index " ++ sim) ++ NL ::
    ((str "rename from " ++ old) ++ NL :: ((str "rename to " ++ new) ++ NL :: [])))

def renameLines (old new sim : Bytes) : List Line :=
  [⟨str "diff --git " ++ (str "a/" ++ old ++ str " b/" ++ new), .lf⟩, ⟨str "similarity index " ++ sim, .lf⟩,
   ⟨str "rename from " ++ old, .lf⟩, ⟨str "rename to " ++ new, .lf⟩]

theorem splitLines_renameText (old new sim : Bytes) (ho : endField old) (hn : endField new) (hs : endField sim) :
    splitLines (renameText old new sim) = renameLines old new sim := by
  have hA : NL ∉ str "a/" := by rw [Names.str_a]; decide
  have hSB : NL ∉ str " b/" := by rw [Names.str_sp_b]; decide
  have hG : NL ∉ str "diff --git " := by rw [str_git]; decide
  have hS : NL ∉ str "similarity index " := by rw [str_similarity]; decide
  have hF : NL ∉ str "rename from " := by rw [Names.str_rename_from]; decide
  have hT : NL ∉ str "rename to " := by rw [Names.str_rename_to]; decide
  have lA : (str "a/").getLast? ≠ some CR := by rw [Names.str_a]; decide
  have lSB : (str " b/").getLast? ≠ some CR := by rw [Names.str_sp_b]; decide
  have lG : (str "diff --git ").getLast? ≠ some CR := by rw [str_git]; decide
  have lS : (str "similarity index ").getLast? ≠ some CR := by rw [str_similarity]; decide
  have lF : (str "rename from ").getLast? ≠ some CR := by rw [Names.str_rename_from]; decide
  have lT : (str "rename to ").getLast? ≠ some CR := by rw [Names.str_rename_to]; decide
  unfold renameText renameLines
  rw [splitLines_line _ _ (by simp only [List.mem_append, not_or]; exact ⟨hG, ⟨⟨hA, ho.1⟩, hSB⟩, hn.1⟩)
      (getLast?_append_ne lG (getLast?_append_ne (getLast?_append_ne (getLast?_append_ne lA ho.2) lSB) hn.2)),
    splitLines_line _ _ (by simp only [List.mem_append, not_or]; exact ⟨hS, hs.1⟩) (getLast?_append_ne lS hs.2),
    splitLines_line _ _ (by simp only [List.mem_append, not_or]; exact ⟨hF, ho.1⟩) (getLast?_append_ne lF ho.2),
    splitLines_line _ _ (by simp only [List.mem_append, not_or]; exact ⟨hT, hn.1⟩) (getLast?_append_ne lT hn.2)]
  rfl

/-- header scan and body parse of a pure rename: the patch has no hunks, and the stream has seen its end -/
theorem parse_renameLines (fmt : Format) (old new sim : Bytes) (lineNo : Nat)
    (hold : old.head? ≠ some DQUOTE) (hnew : new.head? ≠ some DQUOTE) :
    ∃ info par1 par2,
      parseHeader { s := { rest := renameLines old new sim }, lineNo := lineNo } { format := fmt } 1
        = .ok (true, { format := .git, operation := .rename, oldPath := old, newPath := new }, info, par1) ∧
      parseBody par1 { format := .git, operation := .rename, oldPath := old, newPath := new }
        = .ok ({ format := .git, operation := .rename, oldPath := old, newPath := new }, par2) ∧
      par2.s.eof = true := by
  obtain ⟨name, hname⟩ := parseGitHeaderName_ok (str "a/" ++ old ++ str " b/" ++ new) 1 (by rw [Names.str_a]; simp [DQUOTE])
  have hp := parseHeader_git_rename { s := { rest := renameLines old new sim }, lineNo := lineNo } { format := fmt }
    _ name old new sim hname hold hnew rfl rfl rfl
  exact ⟨_, _, _, hp, rfl, rfl⟩

/-! ### the applier on a patch without hunks -/

/-- `apply_patch` with nothing to apply: the file is copied -/
theorem applyPatch_nohunks (file : List Line) (p0 : Patch) (o : ApplyOpts) (tty : Option (List Bool))
    (hr : o.reverse = false) (hh : p0.hunks = []) :
    applyPatch file p0 o tty =
      .ok { out := [] ++ copyRange file 0 (file.length - 0), rejBytes := [], failed := 0, skipped := false, perfect := true,
            rejected := [], applied := [], msgs := [], patch := p0, tty := tty } := by
  unfold applyPatch
  simp only [hr, Bool.false_eq_true, if_false, hh]
  rfl

/-- (`hfile`: only the last line of the file may lack its newline — true of the lines of every file as read,
    `Render.linesTerminated_splitLines` —, needed since the writer puts a newline behind any other such line: D97) -/
theorem render_copy_all (mode : NewlineOutput) (file : List Line) (hfile : Render.LinesTerminated file) :
    render mode ([] ++ copyRange file 0 (file.length - 0)) = renderLines mode file :=
  Render.render_of_map_line mode
    (by rw [List.nil_append, Render.copyRange_map_line, List.drop_zero, Nat.sub_zero, List.take_length]) hfile

/-! ### queries about a path where nothing is -/

theorem run_fsExists_absent {s : DState} {p : Bytes} (hcwd : s.cwd = []) (h : s.fs.lookup p = none) :
    (fsExists p).run s = (.ok false, s) := by
  rw [run_fsExists, absPath_nil hcwd]
  have : s.fs.stat p = none := by unfold Fs.stat; rw [h]
  rw [this]; rfl

theorem run_fsIsRegular_absent {s : DState} {p : Bytes} (hcwd : s.cwd = []) (h : s.fs.lookup p = none) :
    (fsIsRegular p).run s = (.ok false, s) := by
  rw [run_fsIsRegular, absPath_nil hcwd]
  have : s.fs.stat p = none := by unfold Fs.stat; rw [h]
  rw [this]

theorem run_fsIsSymlink_absent {s : DState} {p : Bytes} (hcwd : s.cwd = []) (h : s.fs.lookup p = none) :
    (fsIsSymlink p).run s = (.ok false, s) := by
  rw [run_fsIsSymlink, absPath_nil hcwd, h]

/-- `fix_permissions_if_needed` on a path where nothing is: nothing to fix, no mode known -/
theorem run_fixPermissions_absent (o : Options) {s : DState} {p : Bytes} (hcwd : s.cwd = []) (h : s.fs.lookup p = none) :
    (fixPermissionsIfNeeded o p).run s = (.ok { oldPerms := none, needFix := false, hadFailure := false }, s) := by
  have hst : s.fs.stat p = none := by unfold Fs.stat; rw [h]
  unfold fixPermissionsIfNeeded
  simp only [run_bind, run_fsGetPerms, absPath_nil hcwd, hst, Bool.false_eq_true, if_false, run_pure]

theorem run_fsGetPerms_file {s : DState} {p b : Bytes} {m : Nat} (hcwd : s.cwd = []) (h : s.fs.lookup p = some (.file b m)) :
    (fsGetPerms p).run s = (.ok (some m), s) := by
  rw [run_fsGetPerms, absPath_nil hcwd, Fs.stat_of_file h]

/-- `ensure_parent_directories` of a name without directories -/
theorem run_ensureParentDirs_flat {p : Bytes} (hp : p ≠ []) (hflat : dirPrefixes p = []) (s : DState) :
    (ensureParentDirs p).run s = (.ok (), s) := by
  rw [ensureParentDirs_eq, if_neg (by simpa using hp), hflat]
  rfl

/-- `remove_file_and_empty_parent_folders` of a regular file without directories in its name: one `unlink` -/
theorem run_removeFile_flat {s : DState} {p b : Bytes} {m : Nat} (hflat : dirPrefixes p = []) (hcwd : s.cwd = [])
    (h : s.fs.lookup p = some (.file b m)) (hf : s.faultAt = none) :
    (removeFileAndEmptyParents p).run s =
      (.ok (), { s with fs := s.fs.erase p, trace := s.trace ++ [.unlink p], opCount := s.opCount + 1 }) := by
  have hap : s.fs.apply (.unlink p) = .ok (s.fs.erase p) := by simp only [Fs.apply, h]
  unfold removeFileAndEmptyParents
  simp only [run_bind, run_get, absPath_nil hcwd, doOp_run_ok hf hap, hflat, List.reverse_nil, List.forIn_nil, run_pure]

/-! ### one rename section -/

/-- the hypotheses shared by the real and the dry run of a pure git rename section (the applier's verdict is
    `applyPatch_nohunks`) -/
structure RenameSection (o : Options) (fmt : Format) (s : DState) (old new bytes : Bytes) (m : Nat)
    (patch0 : Patch) (info : HeaderInfo) (par1 par2 : Parser) (r : ApplyResult) : Prop where
  noOperand : o.fileToPatch = []
  noOut : o.outFile = []
  noBackup : o.saveBackup = false
  noReverse : o.reverse = false
  oldNe : old ≠ []
  oldNotNull : old ≠ devNull
  newNe : new ≠ []
  newFlat : dirPrefixes new = []
  differ : old ≠ new
  cwd : s.cwd = []
  hdr : parseHeader s.par { format := fmt } o.strip = .ok (true, patch0, info, par1)
  fmt : patch0.format = .git
  op : patch0.operation = .rename
  pre : patch0.prerequisite = []
  oldPath : patch0.oldPath = old
  newPath : patch0.newPath = new
  newMode : patch0.newMode = 0
  body : parseBody par1 patch0 = .ok (patch0, par2)
  file : s.fs.lookup old = some (.file bytes m)
  absent : s.fs.lookup new = none
  root : s.fs.isRoot = true
  noFault : s.faultAt = none
  apply : applyPatch (splitLines bytes) patch0 (applyOptsOf o)
      (Option.map (fun l => List.map (fun a => !List.isEmpty a && List.head? a != some 110) l) s.tty) = .ok r
  failed : r.failed = 0
  perfect : r.perfect = true
  skipped : r.skipped = false
  msgs : r.msgs = []
  ttyLeft : r.tty = Option.map (fun l => List.map (fun a => !List.isEmpty a && List.head? a != some 110) l) s.tty
  patch : r.patch = patch0

section
variable {o : Options} {fmt : Format} {s : DState} {old new bytes : Bytes} {m : Nat}
  {patch0 : Patch} {info : HeaderInfo} {par1 par2 : Parser} {r : ApplyResult}

syntax "rename_run " "[" Lean.Parser.Tactic.simpLemma,* "]" : tactic
set_option hygiene false in
macro_rules | `(tactic| rename_run [$ls,*]) => `(tactic| (
  have hfu : (patch0.format == Format.unknown) = false := by rw [H.fmt]; rfl
  have hfg : (patch0.format == Format.git) = true := by rw [H.fmt]; rfl
  have hob : (patch0.operation == Operation.binary) = false := by rw [H.op]; rfl
  have hor : (patch0.operation == Operation.rename) = true := by rw [H.op]; rfl
  have hoa : (patch0.operation == Operation.add) = false := by rw [H.op]; rfl
  have hod : (patch0.operation == Operation.delete) = false := by rw [H.op]; rfl
  have hpe : List.isEmpty old = false := by
    cases old with
    | nil => exact absurd rfl H.oldNe
    | cons _ _ => rfl
  have hout : outputPath o patch0 old = new := by
    unfold outputPath; simp [H.noOut, hor, H.noReverse, H.newPath]
  have hdash : (o.outFile == [45]) = false := by rw [H.noOut]; rfl
  have hdash2 : (([] : Bytes) == [45]) = false := rfl
  have hne1 : (new != old) = true := by simpa using Ne.symm H.differ
  have hne2 : (old == new) = false := by simpa using H.differ
  have hguess : ∀ s' : DState, s'.cwd = [] → s'.fs.lookup old = some (.file bytes m) →
      (guessFilepath patch0 o.reverse).run s' = (.ok old, s') := by
    intro s' h1 h2
    have := run_guessFilepath_old patch0 o.reverse (s := s') (b := bytes) (m := m) h1 (by rw [H.noReverse]; rfl)
      (by rw [H.oldPath]; exact H.oldNotNull)
      (by rw [H.oldPath]; exact h2)
    rw [H.oldPath] at this
    exact this
  unfold processSection
  simp only [↓run_bind, ↓run_get, ↓run_liftE, ↓run_modify, ↓run_pure, ↓run_emit,
    H.hdr, hfu, hob, H.noOperand, List.isEmpty_nil, hguess, hpe, hout, hor, hdash, hdash2, hne1, hne2,
    Bool.false_eq_true, ↓reduceIte, Bool.false_and, Bool.and_false, Bool.not_true, Bool.not_false,
    Bool.or_false, Bool.false_or, Bool.and_true, Bool.true_and, Bool.or_true, Bool.true_or,
    run_createTemp, H.noFault, H.cwd,
    run_fsExists_file (b := bytes) (m := m), run_fsIsRegular_file (b := bytes) (m := m),
    run_fsIsSymlink_file (b := bytes) (m := m), H.file,
    run_fsExists_absent, run_fsIsSymlink_absent, run_fsIsRegular_absent, H.absent, H.noOut,
    (fun s' => @run_fixPermissions_absent o s' new), Option.isNone_none,
    run_fsGetPerms_file (b := bytes) (m := m), ne_eq, not_false_eq_true,
    absPath_nil, readFile_root (b := bytes) (m := m), H.root,
    H.pre,
    run_parseBodyM_true (pt' := patch0) (par' := par2), H.body,
    H.apply, H.msgs, H.failed, H.perfect, H.skipped, H.patch, H.noBackup, hoa, hod,
    bne_self_eq_false, beq_self_eq_true, H.ttyLeft, hfg, H.newMode, $ls,*]))

/-- **a pure rename section, real run**: nothing of the tree is touched; the write of the new name and the removal of
    the old one are handed to the deferred writer -/
theorem processSection_rename (H : RenameSection o fmt s old new bytes m patch0 info par1 par2 r) (hreal : o.dryRun = false) :
    ∃ s', (processSection o fmt).run s = (.ok true, s') ∧
      s'.fs = s.fs ∧
      s'.trace = s.trace ++ [.tmpCreate, .tmpUnlink] ++ [.tmpCreate, .tmpUnlink] ∧
      GitDone s s' old new par2 false
        [deferredOf new (render o.newlineOutput r.out) 0 { oldPerms := some m, needFix := false, hadFailure := false } false]
        [(old, false)] := by
  rename_run [hreal, (fun pt out perm sb c s' => run_writePatchedResult_git o pt out perm sb c s'),
    run_ensureParentDirs_flat H.newNe H.newFlat]
  refine ⟨_, rfl, rfl, rfl, ⟨rfl, rfl, rfl, rfl, ?_, ?_, (by first | rfl | exact H.cwd.symm),
    (by first | rfl | exact H.noFault.symm), rfl, rfl, rfl, rfl, rfl⟩⟩
  · generalize s.tty = t
    cases t <;> simp
  · simp

/-- **a pure rename section under --dry-run** -/
theorem processSection_rename_dry (H : RenameSection o fmt s old new bytes m patch0 info par1 par2 r) (hdry : o.dryRun = true) :
    ∃ s', (processSection o fmt).run s = (.ok true, s') ∧
      s'.fs = s.fs ∧
      s'.trace = s.trace ++ [.tmpCreate, .tmpUnlink] ++ [.tmpCreate, .tmpUnlink] ∧
      GitDone s s' old new par2 true [] [] := by
  rename_run [hdry]
  refine ⟨_, rfl, rfl, rfl, ⟨rfl, rfl, by simp, by simp, ?_, ?_, (by first | rfl | exact H.cwd.symm),
    (by first | rfl | exact H.noFault.symm), rfl, rfl, rfl, rfl, rfl⟩⟩
  · generalize s.tty = t
    cases t <;> simp
  · simp

end

/-- the operations of a deferred pure rename: the new name is created, written and given the mode of the old one, then the
    old name is unlinked -/
def renameOps (old new content : Bytes) (m : Nat) : List FsOp := resultOps new content m ++ [.unlink old]

/-- `DeferredWriter::finalize` for one rename between two names without directories, the new name free: the new file is
    created (with the umask default), written, `chmod`ed to the mode of the old one; the old one is unlinked afterwards -/
theorem run_finalizeDeferred_rename (o : Options) (s : DState) (old new content b : Bytes) (m : Nat) (perm : PermResult)
    (hw : s.dWrites = [deferredOf new content 0 perm false]) (hr : s.dRemovals = [(old, false)])
    (hperm : perm.oldPerms = some m) (hnf : perm.needFix = false)
    (hnew : new ≠ []) (hnflat : dirPrefixes new = []) (hoflat : dirPrefixes old = []) (hne : old ≠ new)
    (hcwd : s.cwd = []) (hfile : s.fs.lookup old = some (.file b m)) (habsent : s.fs.lookup new = none)
    (hdir : s.fs.dirExists (parentOf new) = true) (hf : s.faultAt = none) :
    (finalizeDeferred o).run s =
      (.ok (), { s with fs := (s.fs.set new (.file content m)).erase old, trace := s.trace ++ renameOps old new content m,
                        opCount := s.opCount + (renameOps old new content m).length }) := by
  have hany : ([deferredOf new content 0 perm false].any (·.dest == old)) = false := by
    simp only [List.any_cons, List.any_nil, Bool.or_false]
    exact beq_false_of_ne (Ne.symm hne)
  rw [finalizeDeferred_eq]
  simp only [run_bind, run_get, hw, hr, List.forIn_cons, List.forIn_nil, run_pure, hany, Bool.not_false, if_true]
  rw [run_ensureParentDirs_flat hnew hnflat]
  simp only []
  unfold writeNow
  simp only [run_bind, run_makeWritable_noFix hnf, Bool.false_eq_true, if_false, run_pure]
  rw [RunB.run_writeFile_new content (by exact hcwd) (by exact habsent) (by exact hdir) (by exact hf)]
  simp only []
  rw [run_permissionCallback_old m perm hperm (by exact hcwd) (Fs.lookup_set_self _ _ _) (by exact hf)]
  simp only []
  unfold removeNow
  have hold' : ((s.fs.set new (.file content (0o666 - (0o666 &&& s.fs.umask)))).set new (.file content m)).lookup old =
      some (.file b m) := by
    rw [Fs.lookup_set_ne _ _ _ _ hne, Fs.lookup_set_ne _ _ _ _ hne]; exact hfile
  simp only [Bool.false_eq_true, if_false, run_bind, run_pure]
  rw [run_fsExists_file (by exact hcwd) (by exact hold')]
  simp only [Bool.not_false, Bool.true_or, if_true]
  rw [run_removeFile_flat hoflat (by exact hcwd) (by exact hold') (by exact hf)]
  simp only [renameOps, resultOps, Fs.set_set, List.append_assoc, Nat.add_assoc, List.length_append, List.length_cons,
    List.length_nil, Nat.zero_add, hw, hr]
  rfl

end PatchModel.RunG
