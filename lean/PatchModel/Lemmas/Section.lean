/-
  Lemmas/Section — closed forms (`….run s = (.ok …, s')` with `s'` explicit) of the helper calls made by
  `processSection` on its plain path: a "change" section for an existing, writable, regular file that is reached
  directly (no symbolic link) from the working directory (`s.cwd = []`), no fault scheduled.
  Used by the driver-level C01 / C15 theorems (wip/C01Driver.lean); meant to be used as `simp only` rewrite rules
  (side conditions about the current state are closed by the simp discharger after projection reduction).

  * tree: `absPath_nil`, `Fs.set_set`, `dirExists_parent_of_noSlash`, `readFile_root`, `apply_creat_file`,
    `apply_write_file`, `apply_creat_noParent`;
  * helper calls: `run_fsIsRegular`, `run_fsGetPerms`, `run_fsExists_file`, `run_fsIsRegular_file`, `run_fsIsSymlink(_file)`, `run_createTemp`,
    `run_fixPermissions_writable`, `run_parseBodyM_true/_false`, `run_writeFile_existing` (`writeOps`),
    `run_permissionCallback_old`, `run_writePatchedResult_plain` (`resultOps`);
  * one section: `PlainSection` (hypotheses, the applier's verdict included), `SectionDone` (what is left behind),
    `processSection_clean` (real run), `processSection_clean_dry` (--dry-run), `processSection_clean_noParent`
    (the parent-directory side condition of the real run is necessary); tactic `section_run [extra simp lemmas]`:
    the symbolic run of `processSection` by `simp only` with pre-order (`↓`) rewriting, so that each `>>=` is run
    before its continuation is looked at and dead branches are never visited.
-/
import PatchModel.Model.Driver
import PatchModel.Lemmas.DriverFacts
import PatchModel.Lemmas.Modes
import PatchModel.Props.C17
namespace PatchModel.Section
open PatchModel PatchModel.DriverFacts

/-! ### paths and the tree -/

theorem absPath_nil {s : DState} (h : s.cwd = []) (p : Bytes) : absPath s p = p := by
  unfold absPath; rw [h]; rfl

/-- writing a node twice at the same path: the second one wins -/
theorem Fs.set_set (fs : Fs) (p : Bytes) (a b : Node) : (fs.set p a).set p b = fs.set p b := by
  unfold Fs.set
  simp only [List.filter_append, List.filter_filter, Bool.and_self]
  simp

theorem Fs.isRoot_set (fs : Fs) (p : Bytes) (n : Node) : (fs.set p n).isRoot = fs.isRoot := rfl
theorem Fs.umask_set (fs : Fs) (p : Bytes) (n : Node) : (fs.set p n).umask = fs.umask := rfl

theorem dropWhile_all {α} (q : α → Bool) : ∀ (l : List α), (∀ c ∈ l, q c = true) → l.dropWhile q = []
  | [], _ => rfl
  | a :: l, h => by
    rw [List.dropWhile_cons, if_pos (h a (List.mem_cons_self ..))]
    exact dropWhile_all q l (fun c hc => h c (List.mem_cons_of_mem _ hc))

/-- a path without a slash lives in the working directory, which always exists -/
theorem dirExists_parent_of_noSlash (fs : Fs) {p : Bytes} (h : ∀ c ∈ p, c ≠ SLASHB) :
    fs.dirExists (parentOf p) = true := by
  have : parentOf p = [] := by
    unfold parentOf
    have e : p.reverse.dropWhile (· != SLASHB) = [] := by
      apply dropWhile_all
      intro c hc
      simpa using h c (List.mem_reverse.1 hc)
    simp only [e]; rfl
  rw [this]; rfl

theorem readFile_root {fs : Fs} {p b : Bytes} {m : Nat} (h : fs.lookup p = some (.file b m))
    (hroot : fs.isRoot = true) : fs.readFile p = .ok b := by
  unfold Fs.readFile; rw [Fs.stat_of_file h]; simp only [hroot, Bool.true_or, if_true]

/-- `open(O_CREAT|O_TRUNC)` of an existing regular file by root: emptied, same mode -/
theorem apply_creat_file {fs : Fs} {p b : Bytes} {m : Nat} (h : fs.lookup p = some (.file b m))
    (hroot : fs.isRoot = true) (hdir : fs.dirExists (parentOf p) = true) :
    fs.apply (.creat p) = .ok (fs.set p (.file [] m)) := by
  simp only [Fs.apply, hdir, Fs.stat_of_file h, h, hroot]; rfl

theorem apply_write_file {fs : Fs} {p b c : Bytes} {m : Nat} (h : fs.lookup p = some (.file b m)) :
    fs.apply (.write p c) = .ok (fs.set p (.file (b ++ c) m)) := by
  simp only [Fs.apply, h]

/-! ### read-only calls -/

theorem run_fsIsRegular (p : Bytes) (s : DState) :
    (fsIsRegular p).run s = (.ok (match s.fs.stat (absPath s p) with | some (.file _ _) => true | _ => false), s) := rfl

theorem run_fsGetPerms (p : Bytes) (s : DState) :
    (fsGetPerms p).run s = (.ok (match s.fs.stat (absPath s p) with
      | some (.file _ m) => some m | some (.dir m) => some m | some (.other m) => some m | _ => none), s) := rfl

theorem run_fsExists_file {s : DState} {p b : Bytes} {m : Nat} (hcwd : s.cwd = [])
    (h : s.fs.lookup p = some (.file b m)) : (fsExists p).run s = (.ok true, s) := by
  rw [run_fsExists, absPath_nil hcwd, Fs.stat_of_file h]; rfl

theorem run_fsIsRegular_file {s : DState} {p b : Bytes} {m : Nat} (hcwd : s.cwd = [])
    (h : s.fs.lookup p = some (.file b m)) : (fsIsRegular p).run s = (.ok true, s) := by
  rw [run_fsIsRegular, absPath_nil hcwd, Fs.stat_of_file h]

theorem run_fsIsSymlink (p : Bytes) (s : DState) :
    (fsIsSymlink p).run s = (.ok (match s.fs.lookup (absPath s p) with | some (.symlink _) => true | _ => false), s) := rfl

/-- a regular file is not a symbolic link (`lstat`) -/
theorem run_fsIsSymlink_file {s : DState} {p b : Bytes} {m : Nat} (hcwd : s.cwd = [])
    (h : s.fs.lookup p = some (.file b m)) : (fsIsSymlink p).run s = (.ok false, s) := by
  rw [run_fsIsSymlink, absPath_nil hcwd, h]

/-! ### the mutating helpers -/

/-- `File::create_temporary`: two operations outside the tree -/
theorem run_createTemp {s : DState} (hf : s.faultAt = none) :
    createTemp.run s =
      (.ok (), { s with trace := s.trace ++ [.tmpCreate, .tmpUnlink], opCount := s.opCount + 2 }) := by
  unfold createTemp
  rw [run_bind, doOp_run_ok hf (fs' := s.fs) rfl]
  simp only []
  rw [doOp_run_ok (fs' := s.fs) (by exact hf) rfl]
  simp [List.append_assoc]

/-- `fix_permissions_if_needed` on a writable regular file: nothing happens, the old mode is reported -/
theorem run_fixPermissions_writable (o : Options) {s : DState} {p b : Bytes} {m : Nat} (hcwd : s.cwd = [])
    (h : s.fs.lookup p = some (.file b m)) (hw : m &&& writeMask ≠ 0) :
    (fixPermissionsIfNeeded o p).run s = (.ok { oldPerms := some m, needFix := false, hadFailure := false }, s) :=
  C17.writable_untouched o p s m b (by rw [absPath_nil hcwd]; exact Fs.stat_of_file h) hw

/-- `parseBodyM true`: the body parser runs on the stream and the stream advances -/
theorem run_parseBodyM_true {s : DState} {pt pt' : Patch} {par' : Parser}
    (h : parseBody s.par pt = .ok (pt', par')) :
    (parseBodyM true pt).run s = (.ok pt', { s with par := par' }) := by
  unfold parseBodyM
  simp only [if_true, run_bind, run_get, run_liftE, h, run_modify, run_pure]

theorem run_parseBodyM_false (s : DState) (pt : Patch) : (parseBodyM false pt).run s = (.ok pt, s) := rfl

/-- the trace of `writeFile`: `creat`, then one `write` unless there is nothing to write -/
def writeOps (p content : Bytes) : List FsOp :=
  if content.isEmpty then [.creat p] else [.creat p, .write p content]

/-- `writeFile` over an existing regular file (root; the parent directory exists): new content, same mode -/
theorem run_writeFile_existing {s : DState} {p b : Bytes} {m : Nat} (content : Bytes) (hcwd : s.cwd = [])
    (h : s.fs.lookup p = some (.file b m)) (hroot : s.fs.isRoot = true)
    (hdir : s.fs.dirExists (parentOf p) = true) (hf : s.faultAt = none) :
    (writeFile p content).run s =
      (.ok (), { s with fs := s.fs.set p (.file content m), trace := s.trace ++ writeOps p content,
                        opCount := s.opCount + (writeOps p content).length }) := by
  unfold writeFile
  rw [run_bind, run_opCreat, absPath_nil hcwd, doOp_run_ok hf (apply_creat_file h hroot hdir)]
  simp only []
  rw [run_opWrite]
  by_cases hc : content.isEmpty = true
  · have : content = [] := List.isEmpty_iff.1 hc
    subst this
    simp [writeOps]
  · rw [if_neg hc, absPath_nil (by exact hcwd),
      doOp_run_ok (by exact hf) (apply_write_file (Fs.lookup_set_self _ _ _))]
    simp [writeOps, hc, Fs.set_set, List.append_assoc]

/-- the permission callback without a mode in the patch header: `chmod` back to the remembered mode -/
theorem run_permissionCallback_old {s : DState} {p b : Bytes} {m0 : Nat} (m : Nat) (perm : PermResult)
    (hperm : perm.oldPerms = some m) (hcwd : s.cwd = [])
    (h : s.fs.lookup p = some (.file b m0)) (hf : s.faultAt = none) :
    (permissionCallback 0 perm p).run s =
      (.ok (), { s with fs := s.fs.set p (.file b m), trace := s.trace ++ [.chmod p m],
                        opCount := s.opCount + 1 }) := by
  unfold permissionCallback
  simp only [bne_self_eq_false, Bool.false_eq_true, if_false, hperm]
  have := Modes.run_opChmod_file (p := p) (s := s) m (by rw [absPath_nil hcwd]; exact h) hf
  rw [absPath_nil hcwd] at this
  exact this

/-- the operations of the immediate (non-git) write of a patched result -/
def resultOps (p content : Bytes) (m : Nat) : List FsOp := writeOps p content ++ [.chmod p m]

/-- `make_writable` for a target that was writable already: nothing happens -/
theorem run_makeWritable_noFix {perm : PermResult} (hnf : perm.needFix = false) (p : Bytes) (s : DState) :
    (makeWritable perm p).run s = (.ok (), s) := by
  unfold makeWritable; rw [hnf]; rfl

/-- `write_patched_result_to_file` for a non-git "change" patch without a mode line over an existing, writable regular file,
    no backup asked for: no `chmod` before the write (`make_writable` has nothing to do), the file gets the new content and
    keeps (is set back to) the mode remembered in `perm` -/
theorem run_writePatchedResult_plain {s : DState} {p b : Bytes} {m0 : Nat} (o : Options) (pt : Patch) (content : Bytes) (m : Nat)
    (perm : PermResult) (hfmt : (pt.format == .git) = false) (hop : (pt.operation == .add) = false)
    (hnm : pt.newMode = 0) (hperm : perm.oldPerms = some m) (hnf : perm.needFix = false) (hcwd : s.cwd = [])
    (h : s.fs.lookup p = some (.file b m0)) (hroot : s.fs.isRoot = true)
    (hdir : s.fs.dirExists (parentOf p) = true) (hf : s.faultAt = none) :
    (writePatchedResult o pt p perm false content).run s =
      (.ok (), { s with fs := s.fs.set p (.file content m), trace := s.trace ++ resultOps p content m,
                        opCount := s.opCount + (resultOps p content m).length }) := by
  unfold writePatchedResult
  simp only [hfmt, hop, Bool.false_eq_true, if_false, Bool.false_and, hnm]
  rw [run_bind, run_makeWritable_noFix hnf]
  simp only []
  rw [run_bind, run_writeFile_existing content hcwd h hroot hdir hf]
  simp only []
  rw [run_permissionCallback_old m perm hperm (by exact hcwd) (Fs.lookup_set_self _ _ _) (by exact hf)]
  simp [resultOps, Fs.set_set, List.append_assoc, Nat.add_assoc]

/-! ### the tty bookkeeping after `apply_patch` asked nothing -/

theorem tty_unconsumed {α β} (t : Option (List α)) (f : α → β) :
    (match t, t.map (fun l => l.map f) with
      | some l, some rest => some (l.drop (l.length - rest.length))
      | t', _ => t') = t := by
  cases t with
  | none => rfl
  | some l => simp

theorem apply_creat_noParent {fs : Fs} {p : Bytes} (hdir : fs.dirExists (parentOf p) = false) :
    fs.apply (.creat p) = .error .enoent := by
  simp only [Fs.apply, hdir]; rfl

/-! ### one clean section

`processSection` on its plain path, as a closed form.  The applier's verdict is a hypothesis here (`hap` and the
facts about `r`): PatchModel.C01.applyPatch_valid provides it for a valid script. -/

/-- what a cleanly applied "change" section leaves behind, apart from the tree and the trace -/
structure SectionDone (s s' : DState) (p : Bytes) (par2 : Parser) (dry : Bool) : Prop where
  par : s'.par = par2
  hadFailure : s'.hadFailure = s.hadFailure
  dWrites : s'.dWrites = s.dWrites
  dRemovals : s'.dRemovals = s.dRemovals
  tty : s'.tty = s.tty
  out : s'.out = s.out ++ [.file p dry]
  cwd : s'.cwd = s.cwd
  faultAt : s'.faultAt = s.faultAt
  backedUp : s'.backedUp = s.backedUp
  stdin : s'.stdin = s.stdin
  stdout : s'.stdout = s.stdout
  firstPatch : s'.firstPatch = false
  sections : s'.sections = s.sections ++ [(p, p)]

/-- the hypotheses shared by the real and the dry run of a plain section -/
structure PlainSection (o : Options) (fmt : Format) (s : DState) (p bytes : Bytes) (m : Nat)
    (patch0 patch2 : Patch) (info : HeaderInfo) (par1 par2 : Parser) (r : ApplyResult) : Prop where
  operand : o.fileToPatch = p
  noOut : o.outFile = []
  noBackup : o.saveBackup = false
  pathNe : p ≠ []
  cwd : s.cwd = []
  hdr : parseHeader s.par { format := fmt } o.strip = .ok (true, patch0, info, par1)
  fmt : patch0.format = .unified ∨ patch0.format = .context ∨ patch0.format = .normal
  op : patch0.operation = .change
  pre : patch0.prerequisite = []
  body : parseBody par1 patch0 = .ok (patch2, par2)
  fmt2 : patch2.format = patch0.format
  op2 : patch2.operation = .change
  newMode2 : patch2.newMode = 0
  file : s.fs.lookup p = some (.file bytes m)
  writable : m &&& writeMask ≠ 0
  root : s.fs.isRoot = true
  noFault : s.faultAt = none
  apply : applyPatch (splitLines bytes) patch2 (applyOptsOf o)
      (Option.map (fun l => List.map (fun a => !List.isEmpty a && List.head? a != some 110) l) s.tty) = .ok r
  failed : r.failed = 0
  perfect : r.perfect = true
  skipped : r.skipped = false
  msgs : r.msgs = []
  ttyLeft : r.tty = Option.map (fun l => List.map (fun a => !List.isEmpty a && List.head? a != some 110) l) s.tty
  patch : r.patch = patch2

section
variable {o : Options} {fmt : Format} {s : DState} {p bytes : Bytes} {m : Nat}
  {patch0 patch2 : Patch} {info : HeaderInfo} {par1 par2 : Parser} {r : ApplyResult}

/-- the symbolic run of `processSection` on the plain path; `tail` is the simp set for what differs between runs -/
syntax "section_run " "[" Lean.Parser.Tactic.simpLemma,* "]" : tactic
set_option hygiene false in
macro_rules | `(tactic| section_run [$ls,*]) => `(tactic| (
  have hfu : (patch0.format == Format.unknown) = false := by
    rcases H.fmt with h | h | h <;> rw [h] <;> rfl
  have hfg : (patch2.format == Format.git) = false := by
    rw [H.fmt2]; rcases H.fmt with h | h | h <;> rw [h] <;> rfl
  have hob : (patch0.operation == Operation.binary) = false := by rw [H.op]; rfl
  have hor : (patch0.operation == Operation.rename) = false := by rw [H.op]; rfl
  have hoc : (patch0.operation == Operation.copy) = false := by rw [H.op]; rfl
  have hoa2 : (patch2.operation == Operation.add) = false := by rw [H.op2]; rfl
  have hor2 : (patch2.operation == Operation.rename) = false := by rw [H.op2]; rfl
  have hoc2 : (patch2.operation == Operation.copy) = false := by rw [H.op2]; rfl
  have hod2 : (patch2.operation == Operation.delete) = false := by rw [H.op2]; rfl
  have hpe : List.isEmpty p = false := by
    cases p with
    | nil => exact absurd rfl H.pathNe
    | cons _ _ => rfl
  have hout : outputPath o patch0 p = p := by
    unfold outputPath; simp [H.noOut, hor, hoc]
  have hdash : (o.outFile == [45]) = false := by rw [H.noOut]; rfl
  unfold processSection
  simp only [↓run_bind, ↓run_get, ↓run_liftE, ↓run_modify, ↓run_pure, ↓run_emit,
    H.hdr, hfu, hob, H.operand, hpe, hout, hor, hdash,
    Bool.false_eq_true, ↓reduceIte, Bool.false_and, Bool.and_false, Bool.not_true, Bool.not_false,
    Bool.or_false, Bool.false_or, Bool.and_true, Bool.true_and,
    run_createTemp, H.noFault, H.cwd,
    run_fsExists_file (b := bytes) (m := m), run_fsIsRegular_file (b := bytes) (m := m),
    run_fsIsSymlink_file (b := bytes) (m := m), H.file,
    (fun s' => @run_fixPermissions_writable o s' p bytes m), H.writable, ne_eq, not_false_eq_true,
    absPath_nil, readFile_root (b := bytes) (m := m), H.root,
    H.pre, List.isEmpty_nil,
    run_parseBodyM_true (pt' := patch2) (par' := par2), H.body,
    H.apply, H.msgs, H.failed, H.perfect, H.skipped, H.patch, H.noBackup, hoa2, hor2, hoc2, hod2,
    bne_self_eq_false, beq_self_eq_true, H.ttyLeft, hfg, H.newMode2, $ls,*]))

/-- **a clean section, real run**: the target gets the rendered output with its old mode; the parser is where the
    body parse left it; nothing else in the state moves except the log, the trace and the operation counter -/
theorem processSection_clean (H : PlainSection o fmt s p bytes m patch0 patch2 info par1 par2 r)
    (hreal : o.dryRun = false) (hdir : s.fs.dirExists (parentOf p) = true) :
    ∃ s', (processSection o fmt).run s = (.ok true, s') ∧
      s'.fs = s.fs.set p (.file (render o.newlineOutput r.out) m) ∧
      s'.trace = s.trace ++ [.tmpCreate, .tmpUnlink] ++ [.tmpCreate, .tmpUnlink] ++
        resultOps p (render o.newlineOutput r.out) m ∧
      SectionDone s s' p par2 false := by
  section_run [hreal, (fun s' pt c perm => @run_writePatchedResult_plain s' p bytes m o pt c m perm), hdir]
  refine ⟨_, rfl, rfl, rfl, ⟨rfl, rfl, rfl, rfl, ?_, ?_, H.cwd.symm, H.noFault.symm, rfl, rfl, rfl, rfl, rfl⟩⟩
  · generalize s.tty = t
    cases t <;> simp
  · simp

/-- **a clean section under --dry-run**: the tree and the trace (apart from the two anonymous temporaries) are
    untouched; the verdict and the position of the parser are those of the real run -/
theorem processSection_clean_dry (H : PlainSection o fmt s p bytes m patch0 patch2 info par1 par2 r)
    (hdry : o.dryRun = true) :
    ∃ s', (processSection o fmt).run s = (.ok true, s') ∧
      s'.fs = s.fs ∧
      s'.trace = s.trace ++ [.tmpCreate, .tmpUnlink] ++ [.tmpCreate, .tmpUnlink] ∧
      SectionDone s s' p par2 true := by
  section_run [hdry]
  refine ⟨_, rfl, rfl, rfl, ⟨rfl, rfl, rfl, rfl, ?_, ?_, H.cwd.symm, H.noFault.symm, rfl, rfl, rfl, rfl, rfl⟩⟩
  · generalize s.tty = t
    cases t <;> simp
  · simp

/-- the side condition of `processSection_clean` is needed: when the directory of the target is missing from the
    tree (an ill-formed tree: the file is there), re-creating the target fails and the section aborts -/
theorem processSection_clean_noParent (H : PlainSection o fmt s p bytes m patch0 patch2 info par1 par2 r)
    (hreal : o.dryRun = false) (hdir : s.fs.dirExists (parentOf p) = false) :
    ∃ s', (processSection o fmt).run s = (.error .systemError, s') ∧ s'.fs = s.fs := by
  have hW : ∀ (s' : DState) (pt : Patch) (c : Bytes) (perm : PermResult), (pt.format == .git) = false →
      (pt.operation == .add) = false → s'.cwd = [] → s'.fs.dirExists (parentOf p) = false → s'.faultAt = none →
      perm.needFix = false →
      (writePatchedResult o pt p perm false c).run s' = (.error .systemError, { s' with opCount := s'.opCount + 1 }) := by
    intro s' pt c perm h1 h2 h3 h4 h5 h6
    unfold writePatchedResult writeFile
    simp only [h1, h2, Bool.false_eq_true, if_false, Bool.false_and, ↓run_bind, run_makeWritable_noFix h6,
      run_opCreat, absPath_nil h3, doOp_run, h5, apply_creat_noParent h4]
    simp
  section_run [hreal, hW, hdir]
  exact ⟨_, rfl, rfl⟩

end

end PatchModel.Section
