/-
  Lemmas/Section — closed forms (`….run s = (.ok …, s')` with `s'` explicit) of the helper calls made by
  `processSection` on its plain path: a "change" section for an existing, writable, regular file that is reached
  directly (no symbolic link) from the working directory (`s.cwd = []`), no fault scheduled.
  Used by the driver-level C01 / C15 theorems (wip/C01Driver.lean); meant to be used as `simp only` rewrite rules
  (side conditions about the current state are closed by the simp discharger after projection reduction).
-/
import PatchModel.Model.Driver
import PatchModel.Lemmas.DriverFacts
import PatchModel.Lemmas.Modes
import PatchModel.Props.C17
namespace PatchModel.Section
open PatchModel PatchModel.DriverFacts

/-! ### paths and the tree -/

theorem absPath_nil {s : DState} (h : s.cwd = []) (p : Bytes) : absPath s p = p := by
  unfold absPath; rw [h]; rfl

/-- writing a node twice at the same path: the second one wins -/
theorem Fs.set_set (fs : Fs) (p : Bytes) (a b : Node) : (fs.set p a).set p b = fs.set p b := by
  unfold Fs.set
  simp only [List.filter_append, List.filter_filter, Bool.and_self]
  simp

theorem Fs.isRoot_set (fs : Fs) (p : Bytes) (n : Node) : (fs.set p n).isRoot = fs.isRoot := rfl
theorem Fs.umask_set (fs : Fs) (p : Bytes) (n : Node) : (fs.set p n).umask = fs.umask := rfl

theorem dropWhile_all {α} (q : α → Bool) : ∀ (l : List α), (∀ c ∈ l, q c = true) → l.dropWhile q = []
  | [], _ => rfl
  | a :: l, h => by
    rw [List.dropWhile_cons, if_pos (h a (List.mem_cons_self ..))]
    exact dropWhile_all q l (fun c hc => h c (List.mem_cons_of_mem _ hc))

/-- a path without a slash lives in the working directory, which always exists -/
theorem dirExists_parent_of_noSlash (fs : Fs) {p : Bytes} (h : ∀ c ∈ p, c ≠ SLASHB) :
    fs.dirExists (parentOf p) = true := by
  have : parentOf p = [] := by
    unfold parentOf
    have e : p.reverse.dropWhile (· != SLASHB) = [] := by
      apply dropWhile_all
      intro c hc
      simpa using h c (List.mem_reverse.1 hc)
    simp only [e]; rfl
  rw [this]; rfl

theorem readFile_root {fs : Fs} {p b : Bytes} {m : Nat} (h : fs.lookup p = some (.file b m))
    (hroot : fs.isRoot = true) : fs.readFile p = .ok b := by
  unfold Fs.readFile; rw [Fs.stat_of_file h]; simp only [hroot, Bool.true_or, if_true]

/-- `open(O_CREAT|O_TRUNC)` of an existing regular file by root: emptied, same mode -/
theorem apply_creat_file {fs : Fs} {p b : Bytes} {m : Nat} (h : fs.lookup p = some (.file b m))
    (hroot : fs.isRoot = true) (hdir : fs.dirExists (parentOf p) = true) :
    fs.apply (.creat p) = .ok (fs.set p (.file [] m)) := by
  simp only [Fs.apply, hdir, Fs.stat_of_file h, h, hroot]; rfl

theorem apply_write_file {fs : Fs} {p b c : Bytes} {m : Nat} (h : fs.lookup p = some (.file b m)) :
    fs.apply (.write p c) = .ok (fs.set p (.file (b ++ c) m)) := by
  simp only [Fs.apply, h]

/-! ### read-only calls -/

theorem run_fsIsRegular (p : Bytes) (s : DState) :
    (fsIsRegular p).run s = (.ok (match s.fs.stat (absPath s p) with | some (.file _ _) => true | _ => false), s) := rfl

theorem run_fsGetPerms (p : Bytes) (s : DState) :
    (fsGetPerms p).run s = (.ok (match s.fs.stat (absPath s p) with
      | some (.file _ m) => some m | some (.dir m) => some m | some (.other m) => some m | _ => none), s) := rfl

theorem run_fsExists_file {s : DState} {p b : Bytes} {m : Nat} (hcwd : s.cwd = [])
    (h : s.fs.lookup p = some (.file b m)) : (fsExists p).run s = (.ok true, s) := by
  rw [run_fsExists, absPath_nil hcwd, Fs.stat_of_file h]; rfl

theorem run_fsIsRegular_file {s : DState} {p b : Bytes} {m : Nat} (hcwd : s.cwd = [])
    (h : s.fs.lookup p = some (.file b m)) : (fsIsRegular p).run s = (.ok true, s) := by
  rw [run_fsIsRegular, absPath_nil hcwd, Fs.stat_of_file h]

/-! ### the mutating helpers -/

/-- `File::create_temporary`: two operations outside the tree -/
theorem run_createTemp {s : DState} (hf : s.faultAt = none) :
    createTemp.run s =
      (.ok (), { s with trace := s.trace ++ [.tmpCreate, .tmpUnlink], opCount := s.opCount + 2 }) := by
  unfold createTemp
  rw [run_bind, doOp_run_ok hf (fs' := s.fs) rfl]
  simp only []
  rw [doOp_run_ok (fs' := s.fs) (by exact hf) rfl]
  simp [List.append_assoc]

/-- `fix_permissions_if_needed` on a writable regular file: nothing happens, the old mode is reported -/
theorem run_fixPermissions_writable (o : Options) {s : DState} {p b : Bytes} {m : Nat} (hcwd : s.cwd = [])
    (h : s.fs.lookup p = some (.file b m)) (hw : m &&& writeMask ≠ 0) :
    (fixPermissionsIfNeeded o p).run s = (.ok { oldPerms := some m, needFix := false, hadFailure := false }, s) :=
  C17.writable_untouched o p s m b (by rw [absPath_nil hcwd]; exact Fs.stat_of_file h) hw

/-- `parseBodyM true`: the body parser runs on the stream and the stream advances -/
theorem run_parseBodyM_true {s : DState} {pt pt' : Patch} {par' : Parser}
    (h : parseBody s.par pt = .ok (pt', par')) :
    (parseBodyM true pt).run s = (.ok pt', { s with par := par' }) := by
  unfold parseBodyM
  simp only [if_true, run_bind, run_get, run_liftE, h, run_modify, run_pure]

theorem run_parseBodyM_false (s : DState) (pt : Patch) : (parseBodyM false pt).run s = (.ok pt, s) := rfl

/-- the trace of `writeFile`: `creat`, then one `write` unless there is nothing to write -/
def writeOps (p content : Bytes) : List FsOp :=
  if content.isEmpty then [.creat p] else [.creat p, .write p content]

/-- `writeFile` over an existing regular file (root; the parent directory exists): new content, same mode -/
theorem run_writeFile_existing {s : DState} {p b : Bytes} {m : Nat} (content : Bytes) (hcwd : s.cwd = [])
    (h : s.fs.lookup p = some (.file b m)) (hroot : s.fs.isRoot = true)
    (hdir : s.fs.dirExists (parentOf p) = true) (hf : s.faultAt = none) :
    (writeFile p content).run s =
      (.ok (), { s with fs := s.fs.set p (.file content m), trace := s.trace ++ writeOps p content,
                        opCount := s.opCount + (writeOps p content).length }) := by
  unfold writeFile
  rw [run_bind, run_opCreat, absPath_nil hcwd, doOp_run_ok hf (apply_creat_file h hroot hdir)]
  simp only []
  rw [run_opWrite]
  by_cases hc : content.isEmpty = true
  · have : content = [] := List.isEmpty_iff.1 hc
    subst this
    simp [writeOps]
  · rw [if_neg hc, absPath_nil (by exact hcwd),
      doOp_run_ok (by exact hf) (apply_write_file (Fs.lookup_set_self _ _ _))]
    simp [writeOps, hc, Fs.set_set, List.append_assoc]

/-- the permission callback without a mode in the patch header: `chmod` back to the remembered mode -/
theorem run_permissionCallback_old {s : DState} {p b : Bytes} {m0 : Nat} (m : Nat) (perm : PermResult)
    (hperm : perm.oldPerms = some m) (hcwd : s.cwd = [])
    (h : s.fs.lookup p = some (.file b m0)) (hf : s.faultAt = none) :
    (permissionCallback 0 perm p).run s =
      (.ok (), { s with fs := s.fs.set p (.file b m), trace := s.trace ++ [.chmod p m],
                        opCount := s.opCount + 1 }) := by
  unfold permissionCallback
  simp only [bne_self_eq_false, Bool.false_eq_true, if_false, hperm]
  have := Modes.run_opChmod_file (p := p) (s := s) m (by rw [absPath_nil hcwd]; exact h) hf
  rw [absPath_nil hcwd] at this
  exact this

/-- the operations of the immediate (non-git) write of a patched result -/
def resultOps (p content : Bytes) (m : Nat) : List FsOp := writeOps p content ++ [.chmod p m]

/-- `write_patched_result_to_file` for a non-git "change" patch without a mode line over an existing regular file:
    the file gets the new content and keeps (is set back to) the mode remembered in `perm` -/
theorem run_writePatchedResult_plain {s : DState} {p b : Bytes} {m0 : Nat} (pt : Patch) (content : Bytes) (m : Nat)
    (perm : PermResult) (hfmt : (pt.format == .git) = false) (hop : (pt.operation == .add) = false)
    (hnm : pt.newMode = 0) (hperm : perm.oldPerms = some m) (hcwd : s.cwd = [])
    (h : s.fs.lookup p = some (.file b m0)) (hroot : s.fs.isRoot = true)
    (hdir : s.fs.dirExists (parentOf p) = true) (hf : s.faultAt = none) :
    (writePatchedResult pt p perm content).run s =
      (.ok (), { s with fs := s.fs.set p (.file content m), trace := s.trace ++ resultOps p content m,
                        opCount := s.opCount + (resultOps p content m).length }) := by
  unfold writePatchedResult
  simp only [hfmt, hop, Bool.false_eq_true, if_false, Bool.false_and, hnm]
  rw [run_bind, run_writeFile_existing content hcwd h hroot hdir hf]
  simp only []
  rw [run_permissionCallback_old m perm hperm (by exact hcwd) (Fs.lookup_set_self _ _ _) (by exact hf)]
  simp [resultOps, Fs.set_set, List.append_assoc, Nat.add_assoc]

/-! ### the tty bookkeeping after `apply_patch` asked nothing -/

theorem tty_unconsumed {α β} (t : Option (List α)) (f : α → β) :
    (match t, t.map (fun l => l.map f) with
      | some l, some rest => some (l.drop (l.length - rest.length))
      | t', _ => t') = t := by
  cases t with
  | none => rfl
  | some l => simp

end PatchModel.Section
