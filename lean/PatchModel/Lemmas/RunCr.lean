/-
  Lemmas/RunCr — the pieces needed to run the whole modelled program on the text of a plain (non-git) unified diff that CREATES
  a file (`--- /dev/null`, first range `-0,0`):

  * parse: `parse_diffLines_op` = `Run.parse_diffLines` without `changeStart`: the operation is the one the header scan infers
    from the first range (`Header.inferredOp`), both names and the (empty) index name are reported;
  * `run_guessFilepath_add`: `guess_filepath` for an "add" patch whose new name is free in the tree;
  * tree: `parentOf_in_dir`, `dirPrefixes_in_dir` (a name `d/b`), `readFile_absent`, `run_writePatchedResult_create` (the immediate write of a result to a free path: `creat`, `write`,
    no `chmod` — the mode is the one `creat` gives, `0666 & ~umask`);
  * one section: `CreateSection` (hypotheses), tactic `create_run`, `processSection_create(_dry)`.
-/
import PatchModel.Lemmas.Run
import PatchModel.Lemmas.RunB
import PatchModel.Lemmas.RunG
namespace PatchModel.RunCr
open PatchModel PatchModel.DriverFacts PatchModel.Section PatchModel.Unified PatchModel.Run PatchModel.RunB PatchModel.RunG

/-! ### header scan + body parse of a whole unified diff, whatever its first range says -/

/-- `Run.parse_diffLines` without the hypothesis `changeStart`: the operation is `Header.inferredOp` of the first hunk -/
theorem parse_diffLines_op (strip : Int) (fmt : Format) (hfmt : fmt = .unknown ∨ fmt = .unified)
    (filler : List Line) (old new oldt newt : Bytes) (h : Hunk) (hs' : List Hunk) (lineNo : Nat)
    (hin : ∀ l ∈ filler, inertLine l.content = true) (hft : ∀ l ∈ filler, l.newline ≠ .none)
    (hold : Header.plainName old) (hnew : Header.plainName new) (hot : oldt ≠ []) (hnt : newt ≠ [])
    (hw : ∀ x ∈ h :: hs', x.writable = true) :
    ∃ patch0 info par1 par2,
      parseHeader { s := { rest := diffLines filler old new oldt newt (h :: hs') }, lineNo := lineNo } { format := fmt } strip
        = .ok (true, patch0, info, par1) ∧
      patch0.format = .unified ∧ patch0.operation = Header.inferredOp h ∧ patch0.prerequisite = [] ∧ patch0.hunks = [] ∧
      patch0.newMode = 0 ∧ patch0.oldPath = Header.stripped old strip ∧ patch0.newPath = Header.stripped new strip ∧
      patch0.indexPath = [] ∧
      parseBody par1 patch0 = .ok ({ patch0 with hunks := h :: hs' }, par2) ∧ par2.s.eof = true := by
  have hwh := hw h List.mem_cons_self
  obtain ⟨pl, more, -, hop, hlines⟩ := flatMap_hunkLines_first h hs' hwh
  have hb : Header.bodyStart (pl.op :: pl.line.content) := by
    rcases hop with e | e | e
    · exact Or.inr (Or.inr ((Header.startsWith_one _ _ _ Header.str_sp).2 (by rw [e]; rfl)))
    · exact Or.inl ((Header.startsWith_one _ _ _ Header.str_plus).2 (by rw [e]; rfl))
    · exact Or.inr (Or.inl ((Header.startsWith_one _ _ _ Header.str_minus).2 (by rw [e]; rfl)))
  have hp := Header.parseHeader_unified' strip
    { s := { rest := diffLines filler old new oldt newt (h :: hs') }, lineNo := lineNo } { format := fmt } filler
    old new oldt newt h ⟨pl.op :: pl.line.content, wireNl pl.line⟩ more hin hft hold hnew hot hnt (rangeOk_of_writable h hwh) hb
    (wireNl_ne_none _) hfmt rfl rfl rfl (by simp only [diffLines]; rw [hlines])
  obtain ⟨par2, hbody, _, heof, _⟩ := unified_roundtrip_eof (h :: hs') (by simp) hw (lineNo + (filler.length + 2))
  rw [hlines] at hbody
  refine ⟨_, _, _, par2, hp, rfl, rfl, rfl, rfl, rfl, rfl, rfl, rfl, ?_, heof⟩
  simp only [parseBody]
  rw [hbody]
  rfl

/-! ### the header scan over `--- …` / `+++ …` lines of any shape

`Header.headerLoop_unified_e` / `Header.parseHeader_unified_e` for two name lines of which only this is known: what
`parse_file_line` makes of the text after the keyword (with TAB + time stamp: `Names.file_line_plain`; a bare word:
`Names.file_line_word`). -/

theorem headerLoop_names (strip : Int) (st : HState) (oldf newf : Bytes) (ores nres : Bytes × Option Bytes) (h : Hunk)
    (first : Line) (more : List Line) (fuel : Nat)
    (hof : parseFileLine oldf strip = .ok ores) (hnf : parseFileLine newf strip = .ok nres) (hr : Header.rangeOk h)
    (hb : Header.firstLineOk h first.content) (hterm : first.newline ≠ .none)
    (hg : st.isGit = false) (hf : st.patch.format = .unknown ∨ st.patch.format = .unified)
    (hlooks : st.thisLooks ≠ .unified)
    (heof : st.par.s.eof = false) (hbad : st.par.s.bad = false)
    (hrest : st.par.s.rest = ⟨str "--- " ++ oldf, .lf⟩ :: ⟨str "+++ " ++ newf, .lf⟩ ::
                               ⟨Unified.rangeText h, .lf⟩ :: first :: more) :
    headerLoop strip (fuel + 4) st =
      .ok { st with par := { s := { st.par.s with rest := more }, lineNo := st.par.lineNo + 4 },
                    patch := { st.patch with format := .unified, oldPath := ores.1, newPath := nres.1,
                                             oldTime := (match ores.2 with | some t => t | none => st.patch.newTime),
                                             newTime := (match nres.2 with | some t => t | none => st.patch.oldTime) },
                    lines := st.lines + 4, thisLooks := .unknown,
                    hunk := { st.hunk with old := h.old, new := h.new }, ltfh := st.lines + 3,
                    foundFirstHunk := true } := by
  obtain ⟨⟨⟨r0, e0, b0⟩, n0⟩, p, tl, li, g, sb, hk, lt⟩ := st
  simp only at hg hf heof hbad hrest hlooks
  subst hg heof hbad hrest
  obtain ⟨h1, h2, h3, h4, h5, h6, h7, h8⟩ := hr
  have hrng := fun h0 => Unified.unified_range_roundtrip h h0 h1 h3 h5 h7 h2 h4 h6 h8
  -- line 1
  rw [show fuel + 4 = (fuel + 3) + 1 from rfl,
    Header.headerLoop_step strip _ _ _ ⟨_, .lf⟩ _ rfl rfl rfl (by simp) true (by
      simp only []
      rw [Header.headerStep_minus _ _ _ (Header.not_firstBodyLine_of_looks hlooks), hof]
      rfl)]
  simp only [if_true]
  -- line 2
  rw [show fuel + 3 = (fuel + 2) + 1 from rfl,
    Header.headerLoop_step strip _ _ _ ⟨_, .lf⟩ _ rfl rfl rfl (by simp) true (by
      simp only []
      rw [Header.headerStep_plus _ _ _ (Header.not_firstBodyLine_of_looks (by simp)), hnf]
      rfl)]
  simp only [if_true]
  -- line 3
  rw [show fuel + 2 = (fuel + 1) + 1 from rfl,
    Header.headerLoop_step strip _ _ _ ⟨_, .lf⟩ _ rfl rfl rfl (by simp) true
      (Header.headerStep_range _ _ strip (Header.noKeyword_rangeText h) rfl hf _
        (fun hh => Header.not_bodyStart_rangeText h hh.2) (hrng _))]
  simp only [if_true]
  -- line 4
  rw [Header.headerLoop_step strip _ _ _ first _ rfl rfl rfl hterm false
      (by exact Header.headerStep_firstBody _ _ strip ⟨hf, rfl, hb⟩)]
  simp only [Bool.false_eq_true, if_false]
  rfl

open PatchModel.Inert in
/-- the header of a unified diff (after inert filler) is read back, whatever shape its two name lines have -/
theorem parseHeader_names (strip : Int) (par : Parser) (pt : Patch) (filler : List Line)
    (oldf newf : Bytes) (ores nres : Bytes × Option Bytes) (h : Hunk) (first : Line) (more : List Line)
    (hin : ∀ l ∈ filler, inertLine l.content = true) (hft : ∀ l ∈ filler, l.newline ≠ .none)
    (hof : parseFileLine oldf strip = .ok ores) (hnf : parseFileLine newf strip = .ok nres) (hr : Header.rangeOk h)
    (hb : Header.firstLineOk h first.content)
    (hterm : first.newline ≠ .none)
    (hf : pt.format = .unknown ∨ pt.format = .unified) (hop : pt.operation = .change)
    (heof : par.s.eof = false) (hbad : par.s.bad = false)
    (hrest : par.s.rest = filler ++ ⟨str "--- " ++ oldf, .lf⟩ :: ⟨str "+++ " ++ newf, .lf⟩ ::
                               ⟨Unified.rangeText h, .lf⟩ :: first :: more) :
    parseHeader par pt strip =
      .ok (true,
           { pt with format := .unified, operation := Header.inferredOp h, oldPath := ores.1, newPath := nres.1,
                     oldTime := (match ores.2 with | some t => t | none => pt.newTime),
                     newTime := (match nres.2 with | some t => t | none => pt.oldTime) },
           { linesTillFirstHunk := filler.length + 3, format := .unified },
           { s := { rest := ⟨Unified.rangeText h, .lf⟩ :: first :: more, eof := false, bad := false },
             lineNo := par.lineNo + (filler.length + 2) }) := by
  generalize hT : (⟨str "--- " ++ oldf, .lf⟩ :: ⟨str "+++ " ++ newf, .lf⟩ ::
                               ⟨Unified.rangeText h, .lf⟩ :: first :: more : List Line) = T at hrest
  have hskip := headerLoop_skip strip filler { par := par, patch := pt } (by simpa [inertFor] using hin) hft
    (Or.inr calm_unknown) heof hbad T hrest (more.length + 2 + 4)
  have hloop := headerLoop_names strip
    (advance { par := par, patch := pt } T filler.length (if filler = [] then ({ par := par, patch := pt } : HState).thisLooks else .unknown))
    oldf newf ores nres h first more (more.length + 2) hof hnf hr hb hterm rfl hf
    (by simp only [advance]; split <;> simp) heof hbad hT.symm
  have hlen : par.s.rest.length + 2 = (more.length + 2 + 4) + filler.length := by
    rw [hrest, ← hT]; simp only [List.length_append, List.length_cons]; omega
  unfold parseHeader
  rw [hlen, hskip, hloop]
  simp only [advance, PStream.clear, PStream.seek, Bool.not_true, Bool.false_eq_true, if_false, hop, if_true]
  have hsk := Header.skipLines_terminated
    (filler ++ [⟨str "--- " ++ oldf, .lf⟩, ⟨str "+++ " ++ newf, .lf⟩])
    (⟨Unified.rangeText h, .lf⟩ :: first :: more) { s := { rest := par.s.rest }, lineNo := par.lineNo } rfl rfl
    (by rw [hrest, ← hT]; simp)
    (by
      intro l hl
      rcases List.mem_append.1 hl with hl | hl
      · exact hft l hl
      · simp only [List.mem_cons, List.not_mem_nil, or_false] at hl
        rcases hl with rfl | rfl <;> simp)
  have e : 0 + filler.length + 3 - 1 =
      (filler ++ [(⟨str "--- " ++ oldf, .lf⟩ : Line), ⟨str "+++ " ++ newf, .lf⟩]).length := by
    simp only [List.length_append, List.length_cons, List.length_nil]; omega
  rw [e, hsk]
  simp only [List.length_append, List.length_cons, List.length_nil, Nat.zero_add, Header.inferredOp, Bool.not_false, true_or,
    and_true]
  split
  · rfl
  · split <;> rfl

/-- the lines of a unified diff whose name lines read `--- oldf`, `+++ newf` -/
def nameLines (filler : List Line) (oldf newf : Bytes) (hs : List Hunk) : List Line :=
  filler ++ ⟨str "--- " ++ oldf, .lf⟩ :: ⟨str "+++ " ++ newf, .lf⟩ :: hs.flatMap hunkLines

theorem diffLines_eq_nameLines (filler : List Line) (old new oldt newt : Bytes) (hs : List Hunk) :
    diffLines filler old new oldt newt hs = nameLines filler (old ++ TAB :: oldt) (new ++ TAB :: newt) hs := by
  simp [diffLines, nameLines]

/-- header scan + body parse of a whole unified diff with name lines of any shape -/
theorem parse_nameLines_op (strip : Int) (fmt : Format) (hfmt : fmt = .unknown ∨ fmt = .unified)
    (filler : List Line) (oldf newf : Bytes) (ores nres : Bytes × Option Bytes) (h : Hunk) (hs' : List Hunk) (lineNo : Nat)
    (hin : ∀ l ∈ filler, inertLine l.content = true) (hft : ∀ l ∈ filler, l.newline ≠ .none)
    (hof : parseFileLine oldf strip = .ok ores) (hnf : parseFileLine newf strip = .ok nres)
    (hw : ∀ x ∈ h :: hs', x.writable = true) :
    ∃ patch0 info par1 par2,
      parseHeader { s := { rest := nameLines filler oldf newf (h :: hs') }, lineNo := lineNo } { format := fmt } strip
        = .ok (true, patch0, info, par1) ∧
      patch0.format = .unified ∧ patch0.operation = Header.inferredOp h ∧ patch0.prerequisite = [] ∧ patch0.hunks = [] ∧
      patch0.newMode = 0 ∧ patch0.oldPath = ores.1 ∧ patch0.newPath = nres.1 ∧ patch0.indexPath = [] ∧
      parseBody par1 patch0 = .ok ({ patch0 with hunks := h :: hs' }, par2) ∧ par2.s.eof = true := by
  have hwh := hw h List.mem_cons_self
  obtain ⟨pl, more, -, hop, hlines⟩ := flatMap_hunkLines_first h hs' hwh
  have hb : Header.bodyStart (pl.op :: pl.line.content) := by
    rcases hop with e | e | e
    · exact Or.inr (Or.inr ((Header.startsWith_one _ _ _ Header.str_sp).2 (by rw [e]; rfl)))
    · exact Or.inl ((Header.startsWith_one _ _ _ Header.str_plus).2 (by rw [e]; rfl))
    · exact Or.inr (Or.inl ((Header.startsWith_one _ _ _ Header.str_minus).2 (by rw [e]; rfl)))
  have hp := parseHeader_names strip
    { s := { rest := nameLines filler oldf newf (h :: hs') }, lineNo := lineNo } { format := fmt } filler
    oldf newf ores nres h ⟨pl.op :: pl.line.content, wireNl pl.line⟩ more hin hft hof hnf (rangeOk_of_writable h hwh)
    (Or.inl hb) (wireNl_ne_none _) hfmt rfl rfl rfl (by simp only [nameLines]; rw [hlines])
  obtain ⟨par2, hbody, _, heof, _⟩ := unified_roundtrip_eof (h :: hs') (by simp) hw (lineNo + (filler.length + 2))
  rw [hlines] at hbody
  refine ⟨_, _, _, par2, hp, rfl, rfl, rfl, rfl, rfl, rfl, rfl, rfl, ?_, heof⟩
  simp only [parseBody]
  rw [hbody]
  rfl

/-- the two header lines without time stamps, followed by the hunks, as bytes — what the program itself writes in front of
    the hunks of a reject file (`write_patch_header_as_unified` for a patch without time stamps) -/
def bareText (old new : Bytes) (hs : List Hunk) : Bytes :=
  writeHeaderUnified { oldPath := old, newPath := new } ++ hs.flatMap writeHunkUnified

theorem bareText_eq (old new : Bytes) (hs : List Hunk) :
    bareText old new hs = str "--- " ++ old ++ [NL] ++ (str "+++ " ++ new ++ [NL] ++ hs.flatMap writeHunkUnified) := by
  simp [bareText, writeHeaderUnified, headerLine]

theorem splitLines_bareText (old new : Bytes) (hs : List Hunk) (ho : endField old) (hn : endField new)
    (hw : ∀ h ∈ hs, h.writable = true) :
    splitLines (bareText old new hs) = nameLines [] old new hs := by
  have hl : ∀ (kw : String) (b rest : Bytes), NL ∉ str kw → (str kw).getLast? ≠ some CR → endField b →
      splitLines (str kw ++ b ++ [NL] ++ rest) = ⟨str kw ++ b, .lf⟩ :: splitLines rest := by
    intro kw b rest h1 h2 hb
    rw [List.append_assoc _ [NL] rest, List.singleton_append]
    apply splitLines_line
    · simp only [List.mem_append, not_or]; exact ⟨h1, hb.1⟩
    · exact getLast?_append_ne h2 hb.2
  rw [bareText_eq, hl "--- " old _ (by rw [Header.str_new4]; decide) (by rw [Header.str_new4]; decide) ho,
    hl "+++ " new _ (by rw [Header.str_plus4]; decide) (by rw [Header.str_plus4]; decide) hn,
    splitLines_hunks hs (fun h hh => (writable_spec h (hw h hh)).1) (fun h hh => (writable_spec h (hw h hh)).2.2.2.2.1)]
  rfl

/-! ### the name of the file to create -/

/-- `guess_filepath` for a patch that creates a file: the old name is `/dev/null`, nothing is at the new name (nor at the
    empty name: the index name of a diff without an `Index:` line is empty), the operation is "add" — the new name -/
theorem run_guessFilepath_add (pt : Patch) (r : Bool) {s : DState} (hcwd : s.cwd = [])
    (hop : pt.operation = .add) (hold : pt.oldPath = devNull) (hnn : pt.newPath ≠ devNull) (hne : pt.newPath ≠ [])
    (hidx : pt.indexPath = []) (habs : s.fs.lookup pt.newPath = none) (h0 : s.fs.lookup [] = none) :
    (guessFilepath pt r).run s = (.ok pt.newPath, s) := by
  have hnn' : (pt.newPath != devNull) = true := by simpa using hnn
  have hne' : pt.newPath.isEmpty = false := by
    cases hq : pt.newPath with
    | nil => exact absurd hq hne
    | cons _ _ => rfl
  have hd : (([] : Bytes) != devNull) = true := by
    rw [Names.devNull_eq]; rfl
  have hst1 : s.fs.stat pt.newPath = none := by unfold Fs.stat; rw [habs]
  have hst0 : s.fs.stat [] = none := by unfold Fs.stat; rw [h0]
  unfold guessFilepath
  simp only [run_bind, run_fsExists, absPath_nil hcwd, hst1, hst0, Option.isSome_none, Bool.and_false, Bool.false_eq_true,
    if_false, hold, bne_self_eq_false, Bool.false_and, hidx, hop, beq_self_eq_true, if_true,
    firstNameOf, List.find?, hne', hnn', Bool.not_false, Bool.and_self, Option.getD_some]
  rfl

/-! ### the tree -/

/-- the parent of `d/b` (no slash in `b`) is `d` -/
theorem parentOf_in_dir (d : Bytes) {b : Bytes} (hb : ∀ c ∈ b, c ≠ SLASHB) : parentOf (d ++ SLASHB :: b) = d := by
  unfold parentOf
  have e : (d ++ SLASHB :: b).reverse = b.reverse ++ SLASHB :: d.reverse := by simp
  have h1 : (b.reverse ++ SLASHB :: d.reverse).dropWhile (· != SLASHB) = SLASHB :: d.reverse := by
    rw [List.dropWhile_append_of_pos (by
      intro c hc
      simpa using hb c (List.mem_reverse.1 hc))]
    rw [List.dropWhile_cons_of_neg (by simp)]
  simp only [e, h1, List.drop_succ_cons, List.drop_zero, List.reverse_reverse]

/-- `d/b` (no slash in `d` nor in `b`, `d` not empty) has the one directory prefix `d` -/
theorem dirPrefixes_in_dir {d b : Bytes} (hd : d ≠ []) (hdf : ∀ c ∈ d, c ≠ SLASHB) (hb : ∀ c ∈ b, c ≠ SLASHB) :
    dirPrefixes (d ++ SLASHB :: b) = [d] := by
  have hidx : (List.range (d ++ SLASHB :: b).length).filter (fun i => (d ++ SLASHB :: b)[i]! == SLASHB) = [d.length] := by
    have hlen : (d ++ SLASHB :: b).length = d.length + (b.length + 1) := by simp
    rw [hlen, List.range_add, List.filter_append, List.range_succ_eq_map, List.map_cons, List.filter_cons_of_pos (by simp)]
    have h1 : (List.range d.length).filter (fun i => (d ++ SLASHB :: b)[i]! == SLASHB) = [] := by
      rw [List.filter_eq_nil_iff]
      intro i hi
      have hi : i < d.length := List.mem_range.1 hi
      rw [getElem!_pos _ i (by simp; omega), List.getElem_append_left hi]
      simpa using hdf _ (List.getElem_mem hi)
    have h2 : ((List.map Nat.succ (List.range b.length)).map (d.length + ·)).filter
        (fun i => (d ++ SLASHB :: b)[i]! == SLASHB) = [] := by
      rw [List.filter_eq_nil_iff]
      intro i hi
      simp only [List.mem_map, List.mem_range] at hi
      obtain ⟨_, ⟨j, hj, rfl⟩, rfl⟩ := hi
      rw [getElem!_pos _ _ (by simp; omega), List.getElem_append_right (by omega)]
      have : d.length + j.succ - d.length = j + 1 := by omega
      simp only [this, List.getElem_cons_succ]
      simpa using hb _ (List.getElem_mem hj)
    rw [h1, h2]
    simp
  unfold dirPrefixes
  simp only [hidx, List.map_cons, List.map_nil, List.take_left', List.filter_cons, List.filter_nil]
  have : d.isEmpty = false := by
    cases d with
    | nil => exact absurd rfl hd
    | cons _ _ => rfl
  simp [this]

/-- reading a path where nothing is: ENOENT -/
theorem readFile_absent {fs : Fs} {p : Bytes} (h : fs.lookup p = none) : fs.readFile p = .error .enoent := by
  have hst : fs.stat p = none := by unfold Fs.stat; rw [h]
  unfold Fs.readFile; rw [hst]

/-- the permission callback when neither the patch nor the tree gave a mode: nothing -/
theorem run_permissionCallback_none (perm : PermResult) (hperm : perm.oldPerms = none) (p : Bytes) (s : DState) :
    (permissionCallback 0 perm p).run s = (.ok (), s) := by
  unfold permissionCallback
  simp only [bne_self_eq_false, Bool.false_eq_true, if_false, hperm]
  rfl

/-- `write_patched_result_to_file` for a non-git "add" patch without a mode line onto a free path all of whose directories are
    there, no backup asked for: the directories are looked at (twice over: `process_patch` did so already), the file is created
    (`creat` gives it `0666 & ~umask`) and written; NO `chmod` follows: there is no mode to give it -/
theorem run_writePatchedResult_create {s : DState} {p : Bytes} (o : Options) (pt : Patch) (content : Bytes)
    (perm : PermResult) (hp : p ≠ []) (hfmt : (pt.format == .git) = false) (hop : (pt.operation == .add) = true)
    (hnm : pt.newMode = 0) (hperm : perm.oldPerms = none) (hnf : perm.needFix = false)
    (hcwd : s.cwd = []) (h : s.fs.lookup p = none) (hdirs : DirsThere s.fs p)
    (hdir : s.fs.dirExists (parentOf p) = true) (hf : s.faultAt = none) :
    (writePatchedResult o pt p perm false content).run s =
      (.ok (), { s with fs := s.fs.set p (.file content (0o666 - (0o666 &&& s.fs.umask))),
                        trace := s.trace ++ writeOps p content,
                        opCount := s.opCount + (dirPrefixes p).length + (writeOps p content).length }) := by
  unfold writePatchedResult
  simp only [hfmt, hop, Bool.false_eq_true, if_false, if_true, Bool.false_and, hnm]
  rw [run_bind, run_ensureParentDirs_there hp hcwd hdirs hf]
  simp only []
  rw [run_bind, run_makeWritable_noFix hnf]
  simp only []
  rw [run_bind, run_writeFile_new content (by exact hcwd) (by exact h) (by exact hdir) (by exact hf)]
  simp only []
  rw [run_permissionCallback_none perm hperm]

/-! ### one section that creates a file -/

/-- the hypotheses shared by the real and the dry run of a section that creates `p` (the name comes from the operand, or from
    the header: `target`; the applier's verdict is part of the hypotheses) -/
structure CreateSection (o : Options) (fmt : Format) (s : DState) (p : Bytes)
    (patch0 patch2 : Patch) (info : HeaderInfo) (par1 par2 : Parser) (r : ApplyResult) : Prop where
  target : o.fileToPatch = p ∨ (o.fileToPatch = [] ∧ s.fs.lookup [] = none ∧ ∀ s' : DState, s'.cwd = [] →
    s'.fs.lookup p = none → s'.fs.lookup [] = none → (guessFilepath patch0 o.reverse).run s' = (.ok p, s'))
  noOut : o.outFile = []
  noBackup : o.saveBackup = false
  pathNe : p ≠ []
  cwd : s.cwd = []
  hdr : parseHeader s.par { format := fmt } o.strip = .ok (true, patch0, info, par1)
  fmt : patch0.format = .unified ∨ patch0.format = .context ∨ patch0.format = .normal
  op : patch0.operation = .add
  pre : patch0.prerequisite = []
  body : parseBody par1 patch0 = .ok (patch2, par2)
  fmt2 : patch2.format = patch0.format
  op2 : patch2.operation = .add
  newMode2 : patch2.newMode = 0
  absent : s.fs.lookup p = none
  noFault : s.faultAt = none
  apply : applyPatch [] patch2 (applyOptsOf o)
      (Option.map (fun l => List.map (fun a => !List.isEmpty a && List.head? a != some 110) l) s.tty) = .ok r
  failed : r.failed = 0
  perfect : r.perfect = true
  skipped : r.skipped = false
  msgs : r.msgs = []
  ttyLeft : r.tty = Option.map (fun l => List.map (fun a => !List.isEmpty a && List.head? a != some 110) l) s.tty
  patch : r.patch = patch2

theorem splitLines_nil : splitLines [] = [] := rfl

section
variable {o : Options} {fmt : Format} {s : DState} {p : Bytes}
  {patch0 patch2 : Patch} {info : HeaderInfo} {par1 par2 : Parser} {r : ApplyResult}

syntax "create_run " "[" Lean.Parser.Tactic.simpLemma,* "]" : tactic
set_option hygiene false in
macro_rules | `(tactic| create_run [$ls,*]) => `(tactic| (
  have hfu : (patch0.format == Format.unknown) = false := by
    rcases H.fmt with h | h | h <;> rw [h] <;> rfl
  have hfg : (patch2.format == Format.git) = false := by
    rw [H.fmt2]; rcases H.fmt with h | h | h <;> rw [h] <;> rfl
  have hob : (patch0.operation == Operation.binary) = false := by rw [H.op]; rfl
  have hor : (patch0.operation == Operation.rename) = false := by rw [H.op]; rfl
  have hoc : (patch0.operation == Operation.copy) = false := by rw [H.op]; rfl
  have hoa : (patch0.operation == Operation.add) = true := by rw [H.op]; rfl
  have hoa2 : (patch2.operation == Operation.add) = true := by rw [H.op2]; rfl
  have hor2 : (patch2.operation == Operation.rename) = false := by rw [H.op2]; rfl
  have hoc2 : (patch2.operation == Operation.copy) = false := by rw [H.op2]; rfl
  have hod2 : (patch2.operation == Operation.delete) = false := by rw [H.op2]; rfl
  have hpe : List.isEmpty p = false := by
    cases p with
    | nil => exact absurd rfl H.pathNe
    | cons _ _ => rfl
  have hout : outputPath o patch0 p = p := by
    unfold outputPath; simp [H.noOut, hor, hoc]
  have hdash : (o.outFile == [45]) = false := by rw [H.noOut]; rfl
  unfold processSection
  simp only [↓run_bind, ↓run_get, ↓run_liftE, ↓run_modify, ↓run_pure, ↓run_emit,
    H.hdr, hfu, hob, hpe, hout, hor, hdash,
    Bool.false_eq_true, ↓reduceIte, Bool.false_and, Bool.and_false, Bool.not_true, Bool.not_false,
    Bool.or_false, Bool.false_or, Bool.and_true, Bool.true_and, Bool.or_true, Bool.true_or,
    run_createTemp, H.noFault, H.cwd,
    run_fsExists_absent, run_fsIsSymlink_absent, run_fsIsRegular_absent, H.absent,
    (fun s' => @run_fixPermissions_absent o s' p), Option.isNone_none, ne_eq, not_false_eq_true,
    absPath_nil, readFile_absent, splitLines_nil,
    H.pre, List.isEmpty_nil,
    run_parseBodyM_true (pt' := patch2) (par' := par2), H.body,
    H.apply, H.msgs, H.failed, H.perfect, H.skipped, H.patch, H.noBackup, hoa, hoa2, hor2, hoc2, hod2,
    bne_self_eq_false, beq_self_eq_true, H.ttyLeft, hfg, H.newMode2, $ls,*]))

/-- **a section that creates a file, real run** (all directories of the name are in the tree): the new file holds the rendered
    output, with the mode `creat` gives it; the trace holds the two pairs of temporaries, `creat` and (unless there is nothing to
    write) `write` — no `mkdir`, no `rename`, no `chmod`; nothing else in the state moves except the log and the operation
    counter -/
theorem processSection_create (H : CreateSection o fmt s p patch0 patch2 info par1 par2 r) (hreal : o.dryRun = false)
    (hdirs : DirsThere s.fs p) (hparent : s.fs.dirExists (parentOf p) = true) :
    ∃ s', (processSection o fmt).run s = (.ok true, s') ∧
      s'.fs = s.fs.set p (.file (render o.newlineOutput r.out) (0o666 - (0o666 &&& s.fs.umask))) ∧
      s'.trace = s.trace ++ [.tmpCreate, .tmpUnlink] ++ [.tmpCreate, .tmpUnlink] ++
        writeOps p (render o.newlineOutput r.out) ∧
      SectionDone s s' p par2 false := by
  rcases H.target with hname | ⟨hno, hne0, hguess⟩
  · create_run [hname, hreal, (fun s' => @run_ensureParentDirs_there s' p H.pathNe), hdirs,
      (fun s' pt c perm => @run_writePatchedResult_create s' p o pt c perm H.pathNe), hparent]
    refine ⟨_, rfl, rfl, rfl, ⟨rfl, rfl, rfl, rfl, ?_, ?_, (by first | rfl | exact H.cwd.symm),
      (by first | rfl | exact H.noFault.symm), rfl, rfl, rfl, rfl, rfl⟩⟩
    · generalize s.tty = t
      cases t <;> simp
    · simp
  · create_run [hno, hne0, hguess, hreal, (fun s' => @run_ensureParentDirs_there s' p H.pathNe), hdirs,
      (fun s' pt c perm => @run_writePatchedResult_create s' p o pt c perm H.pathNe), hparent]
    refine ⟨_, rfl, rfl, rfl, ⟨rfl, rfl, rfl, rfl, ?_, ?_, (by first | rfl | exact H.cwd.symm),
      (by first | rfl | exact H.noFault.symm), rfl, rfl, rfl, rfl, rfl⟩⟩
    · generalize s.tty = t
      cases t <;> simp
    · simp

/-- **a section that creates a file in a directory which is not there** (the name has exactly one directory prefix `d`, its
    own parent; nothing is at `d`, and the directory `d` would sit in exists): `mkdir d` — mode `0777 & ~umask` — comes after the
    temporaries and before `creat` -/
theorem processSection_create_mkdir (H : CreateSection o fmt s p patch0 patch2 info par1 par2 r) (hreal : o.dryRun = false)
    {d : Bytes} (hd : dirPrefixes p = [d]) (hpar : parentOf p = d) (hnone : s.fs.lookup d = none)
    (hdpar : s.fs.dirExists (parentOf d) = true) :
    ∃ s', (processSection o fmt).run s = (.ok true, s') ∧
      s'.fs = (s.fs.set d (.dir (0o777 - (0o777 &&& s.fs.umask)))).set p
        (.file (render o.newlineOutput r.out) (0o666 - (0o666 &&& s.fs.umask))) ∧
      s'.trace = s.trace ++ [.tmpCreate, .tmpUnlink] ++ [.tmpCreate, .tmpUnlink] ++ [.mkdir d] ++
        writeOps p (render o.newlineOutput r.out) ∧
      SectionDone s s' p par2 false := by
  have hpd : p ≠ d := by
    intro e
    have := parentOf_length_lt H.pathNe
    rw [hpar, ← e] at this
    omega
  have hD : ∀ m, DirsThere (s.fs.set d (.dir m)) p := by
    intro m x hx
    rw [hd] at hx
    rw [List.mem_singleton.1 hx, Fs.lookup_set_self]; rfl
  have hA : ∀ m, (s.fs.set d (.dir m)).lookup p = none := by
    intro m; rw [Fs.lookup_set_ne _ _ _ _ hpd]; exact H.absent
  have hP : ∀ m, (s.fs.set d (.dir m)).dirExists (parentOf p) = true := by
    intro m; rw [hpar]; unfold Fs.dirExists; rw [Fs.lookup_set_self]; simp
  have hone : ∀ s' : DState, s'.faultAt = none → s'.cwd = [] → s'.fs.lookup d = none →
      s'.fs.dirExists (parentOf d) = true →
      (ensureParentDirs p).run s' =
        (.ok (), { s' with
          fs := s'.fs.set d (.dir (0o777 - (0o777 &&& s'.fs.umask))),
          trace := s'.trace ++ [.mkdir d], opCount := s'.opCount + 1 }) := by
    intro s' h1 h2 h3 h4
    have := ensureParentDirs_run_one p d s' H.pathNe h1 hd (by rw [absPath_nil h2]; exact h3) (by rw [absPath_nil h2]; exact h4)
    rw [absPath_nil h2] at this
    exact this
  rcases H.target with hname | ⟨hno, hne0, hguess⟩
  · create_run [hname, hreal, hone, hnone, hdpar, hD, hA, hP, Fs.umask_set,
      (fun s' pt c perm => @run_writePatchedResult_create s' p o pt c perm H.pathNe)]
    refine ⟨_, rfl, rfl, ?_, ⟨rfl, rfl, rfl, rfl, ?_, ?_, (by first | rfl | exact H.cwd.symm),
      (by first | rfl | exact H.noFault.symm), rfl, rfl, rfl, rfl, rfl⟩⟩
    · simp
    · generalize s.tty = t
      cases t <;> simp
    · simp
  · create_run [hno, hne0, hguess, hreal, hone, hnone, hdpar, hD, hA, hP, Fs.umask_set,
      (fun s' pt c perm => @run_writePatchedResult_create s' p o pt c perm H.pathNe)]
    refine ⟨_, rfl, rfl, ?_, ⟨rfl, rfl, rfl, rfl, ?_, ?_, (by first | rfl | exact H.cwd.symm),
      (by first | rfl | exact H.noFault.symm), rfl, rfl, rfl, rfl, rfl⟩⟩
    · simp
    · generalize s.tty = t
      cases t <;> simp
    · simp

/-- **the same section under --dry-run**: the tree and the trace (apart from the temporaries) are untouched — whatever
    directories there are -/
theorem processSection_create_dry (H : CreateSection o fmt s p patch0 patch2 info par1 par2 r) (hdry : o.dryRun = true) :
    ∃ s', (processSection o fmt).run s = (.ok true, s') ∧
      s'.fs = s.fs ∧
      s'.trace = s.trace ++ [.tmpCreate, .tmpUnlink] ++ [.tmpCreate, .tmpUnlink] ∧
      SectionDone s s' p par2 true := by
  rcases H.target with hname | ⟨hno, hne0, hguess⟩
  · create_run [hname, hdry]
    refine ⟨_, rfl, rfl, rfl, ⟨rfl, rfl, rfl, rfl, ?_, ?_, (by first | rfl | exact H.cwd.symm),
      (by first | rfl | exact H.noFault.symm), rfl, rfl, rfl, rfl, rfl⟩⟩
    · generalize s.tty = t
      cases t <;> simp
    · simp
  · create_run [hno, hne0, hguess, hdry]
    refine ⟨_, rfl, rfl, rfl, ⟨rfl, rfl, rfl, rfl, ?_, ?_, (by first | rfl | exact H.cwd.symm),
      (by first | rfl | exact H.noFault.symm), rfl, rfl, rfl, rfl, rfl⟩⟩
    · generalize s.tty = t
      cases t <;> simp
    · simp

end

end PatchModel.RunCr
