/-
  Lemmas/RunB — closed forms for one section of `processSection` that (a) takes a backup of its target (`-b`) or (b) has its
  hunks rejected; companion of Lemmas/Section (whose `PlainSection` / `section_run` fix `o.saveBackup = false` and a clean
  verdict of the applier).

  * tree: `Fs.dirExists_set_ne`, `Fs.dirExists_erase_ne`, `parentOf_length_lt`, `backupName_length`, `backupName_ne`,
    `parentOf_ne_backupName`, `dirPrefixes_flat`, `apply_creat_new`, `apply_rename_file`;
  * helper calls: `run_makeBackupFor_file` (the closed form of `Backup::make_backup_for` for an existing regular file whose
    backup name has its directories), `run_writeFile_new` (`writeFile` at a free path), `run_writePatchedResult_backup`
    (`backupOps`);
  * one section: `BaseSection` (= `Section.PlainSection` without `noBackup` and without the applier's verdict), the tactic
    `base_run [extra simp lemmas]`, `SectionEnd` (what every such section leaves behind), `processSection_backup` (real run
    with `-b`), `processSection_dry_any` (--dry-run, whatever `-b` says), `processSection_rejected` (all hunks of the
    section rejected, real run without backup).
-/
import PatchModel.Lemmas.Section
import PatchModel.Props.C18
import PatchModel.Lemmas.Render
namespace PatchModel.RunB
open PatchModel PatchModel.DriverFacts PatchModel.Section

/-! ### the tree -/

theorem Fs.dirExists_set_ne (fs : Fs) (q d : Bytes) (n : Node) (h : d ≠ q) : (fs.set q n).dirExists d = fs.dirExists d := by
  unfold Fs.dirExists; rw [Fs.lookup_set_ne _ _ _ _ h]

theorem Fs.dirExists_erase_ne (fs : Fs) (q d : Bytes) (h : d ≠ q) : (fs.erase q).dirExists d = fs.dirExists d := by
  unfold Fs.dirExists; rw [Fs.lookup_erase_ne _ _ _ h]

/-- the directory part of a non-empty path is shorter than the path -/
theorem parentOf_length_lt {p : Bytes} (hp : p ≠ []) : (parentOf p).length < p.length := by
  unfold parentOf
  have h1 : (p.reverse.dropWhile (· != SLASHB)).length ≤ p.length := by
    have := (List.dropWhile_sublist (l := p.reverse) (· != SLASHB)).length_le
    simpa using this
  have h2 : 0 < p.length := List.length_pos_iff.2 hp
  simp only [List.length_reverse, List.length_drop]
  omega

theorem str_orig : str ".orig" = [46, 111, 114, 105, 103] := by
  unfold str String.toUTF8; rw [Cpp.byteArray_toList_eq_data]; rfl

/-- a backup name is longer than the name: prefix and suffix are not both empty, or `.orig` is appended -/
theorem backupName_length (o : Options) (p : Bytes) : p.length < (backupName o p).length := by
  unfold backupName
  cases h1 : o.backupPrefix <;> cases h2 : o.backupSuffix <;> simp [str_orig] <;> omega

/-- … so it is never the name itself (`Fs.apply (.rename a a)` would lose the file in the model) -/
theorem backupName_ne (o : Options) (p : Bytes) : backupName o p ≠ p := by
  intro h
  have := backupName_length o p
  rw [h] at this
  omega

/-- … nor the directory of the name -/
theorem parentOf_ne_backupName (o : Options) {p : Bytes} (hp : p ≠ []) : parentOf p ≠ backupName o p := by
  intro h
  have h1 := backupName_length o p
  have h2 := parentOf_length_lt hp
  rw [h] at h2
  omega

/-- a path without slash has no directories to make -/
theorem dirPrefixes_flat {p : Bytes} (h : ∀ c ∈ p, c ≠ SLASHB) : dirPrefixes p = [] := by
  unfold dirPrefixes
  have : (List.range p.length).filter (fun i => p[i]! == SLASHB) = [] := by
    rw [List.filter_eq_nil_iff]
    intro i hi
    have hi : i < p.length := List.mem_range.1 hi
    rw [getElem!_pos p i hi]
    have := h p[i] (List.getElem_mem hi)
    simpa using this
  simp only [this, List.map_nil, List.filter_nil]

/-- `open(O_CREAT|O_TRUNC)` of a free path: a new empty file, mode `0666 & ~umask` -/
theorem apply_creat_new {fs : Fs} {p : Bytes} (h : fs.lookup p = none) (hdir : fs.dirExists (parentOf p) = true) :
    fs.apply (.creat p) = .ok (fs.set p (.file [] (0o666 - (0o666 &&& fs.umask)))) := by
  have hst : fs.stat p = none := by unfold Fs.stat; rw [h]
  simp only [Fs.apply, hdir, hst]; rfl

/-- the name is not that of a directory -/
def NotDir (fs : Fs) (q : Bytes) : Prop := ∀ m, fs.lookup q ≠ some (.dir m)

theorem notDir_of_none {fs : Fs} {q : Bytes} (h : fs.lookup q = none) : NotDir fs q := fun m e => by rw [h] at e; cases e
theorem notDir_of_file {fs : Fs} {q b : Bytes} {m : Nat} (h : fs.lookup q = some (.file b m)) : NotDir fs q :=
  fun m e => by rw [h] at e; cases e

/-- `rename a b` in the model: needs `a` to be there, the directory of `b` to be a directory, and `b` not to be a directory (a file is not
    renamed onto a directory: EISDIR); whatever else is at `b` is replaced -/
theorem apply_rename_file {fs : Fs} {a b : Bytes} {n : Node} (h : fs.lookup a = some n)
    (hdir : fs.dirExists (parentOf b) = true) (hnd : NotDir fs b) :
    fs.apply (.rename a b) = .ok ((fs.erase a).set b n) :=
  C18.apply_rename_nondir h hdir hnd

/-! ### `Backup::make_backup_for`, closed form -/

/-- every directory of the path is in the tree (as whatever: `mkdir` answers EEXIST, which is tolerated) -/
def DirsThere (fs : Fs) (p : Bytes) : Prop := ∀ d ∈ dirPrefixes p, (fs.lookup d).isSome = true

theorem dirsThere_flat (fs : Fs) {p : Bytes} (h : ∀ c ∈ p, c ≠ SLASHB) : DirsThere fs p := by
  unfold DirsThere; rw [dirPrefixes_flat h]; simp

/-- the first backup of an existing regular file (all directories of the backup name are there): one `rename`; bytes and mode
    move to the backup name, the path is free afterwards, the name is recorded -/
theorem run_makeBackupFor_file (o : Options) {s : DState} {p b : Bytes} {m : Nat} (hcwd : s.cwd = [])
    (h : s.fs.lookup p = some (.file b m)) (hnot : s.backedUp.contains (backupName o p) = false)
    (hdirs : DirsThere s.fs (backupName o p)) (hdir : s.fs.dirExists (parentOf (backupName o p)) = true)
    (hnd : NotDir s.fs (backupName o p)) (hf : s.faultAt = none) :
    (makeBackupFor o p).run s =
      (.ok (), { s with backedUp := s.backedUp ++ [backupName o p],
                        fs := (s.fs.erase p).set (backupName o p) (.file b m),
                        trace := s.trace ++ [.rename p (backupName o p)],
                        opCount := s.opCount + (dirPrefixes (backupName o p)).length + 1 }) := by
  rw [makeBackupFor_run, if_neg (by rw [notFileAt_of_lookup_file (by rw [absPath_nil hcwd]; exact h)]; simp),
    if_neg (by rw [hnot]; simp),
    ensureParentDirs_run_exist (backupName o p) { s with backedUp := s.backedUp ++ [backupName o p] } (C18.backupName_ne_nil o p) hf
      (by intro d hd; show (s.fs.lookup (absPath s d)).isSome = true; rw [absPath_nil hcwd]; exact hdirs d hd)]
  simp only []
  have e1 : ∀ (bu : List Bytes) (n : Nat) q, absPath { s with backedUp := bu, opCount := n } q = q := fun _ _ q => absPath_nil hcwd q
  rw [e1, e1]
  have hst : (s.fs.stat p).isSome = true := by rw [Fs.stat_of_file h]; rfl
  rw [if_pos hst]
  exact doOp_run_ok (s := { s with backedUp := s.backedUp ++ [backupName o p], opCount := s.opCount + (dirPrefixes (backupName o p)).length })
    hf (apply_rename_file h hdir hnd)

/-! ### writing to a free path -/

/-- `writeFile` at a path where nothing is (the target has just been moved to its backup name): a new file, mode `0666 & ~umask` -/
theorem run_writeFile_new {s : DState} {p : Bytes} (content : Bytes) (hcwd : s.cwd = [])
    (h : s.fs.lookup p = none) (hdir : s.fs.dirExists (parentOf p) = true) (hf : s.faultAt = none) :
    (writeFile p content).run s =
      (.ok (), { s with fs := s.fs.set p (.file content (0o666 - (0o666 &&& s.fs.umask))), trace := s.trace ++ writeOps p content,
                        opCount := s.opCount + (writeOps p content).length }) := by
  unfold writeFile
  rw [run_bind, run_opCreat, absPath_nil hcwd, doOp_run_ok hf (apply_creat_new h hdir)]
  simp only []
  rw [run_opWrite]
  by_cases hc : content.isEmpty = true
  · have : content = [] := List.isEmpty_iff.1 hc
    subst this
    simp [writeOps]
  · rw [if_neg hc, absPath_nil (by exact hcwd),
      doOp_run_ok (by exact hf) (apply_write_file (Fs.lookup_set_self _ _ _))]
    simp [writeOps, hc, Fs.set_set, List.append_assoc]

/-- the operations of the immediate write of a patched result with a backup: `rename` to the backup name, then as without -/
def backupOps (o : Options) (p content : Bytes) (m : Nat) : List FsOp :=
  .rename p (backupName o p) :: resultOps p content m

/-- `write_patched_result_to_file` with a backup due (`shouldBackup = true`), for a non-git "change" patch without a mode line
    over an existing, writable regular file whose backup has not been made in this run: the file is MOVED to its backup name
    (bytes and mode), re-created (`creat` gives it `0666 & ~umask`), written, and set to the mode remembered in `perm` -/
theorem run_writePatchedResult_backup {s : DState} {p b : Bytes} {m0 : Nat} (o : Options) (pt : Patch) (content : Bytes) (m : Nat)
    (perm : PermResult) (hfmt : (pt.format == .git) = false) (hop : (pt.operation == .add) = false)
    (hnm : pt.newMode = 0) (hperm : perm.oldPerms = some m) (hnf : perm.needFix = false) (hcwd : s.cwd = [])
    (h : s.fs.lookup p = some (.file b m0)) (hpne : p ≠ [])
    (hdir : s.fs.dirExists (parentOf p) = true)
    (hnot : s.backedUp.contains (backupName o p) = false)
    (hdirs : DirsThere s.fs (backupName o p)) (hbdir : s.fs.dirExists (parentOf (backupName o p)) = true)
    (hnd : NotDir s.fs (backupName o p)) (hf : s.faultAt = none) :
    (writePatchedResult o pt p perm true content).run s =
      (.ok (), { s with backedUp := s.backedUp ++ [backupName o p],
                        fs := ((s.fs.erase p).set (backupName o p) (.file b m0)).set p (.file content m),
                        trace := s.trace ++ backupOps o p content m,
                        opCount := s.opCount + (dirPrefixes (backupName o p)).length + (backupOps o p content m).length }) := by
  have hne : p ≠ backupName o p := fun e => backupName_ne o p e.symm
  unfold writePatchedResult
  simp only [hfmt, hop, Bool.false_eq_true, if_false, Bool.false_and, hnm, if_true]
  rw [run_bind, run_makeBackupFor_file o hcwd h hnot hdirs hbdir hnd hf]
  simp only []
  rw [run_bind, run_makeWritable_noFix hnf]
  simp only []
  rw [run_bind, run_writeFile_new content (by exact hcwd)
    (by show (Fs.set _ _ _).lookup p = none
        rw [Fs.lookup_set_ne _ _ _ _ hne, Fs.lookup_erase_self])
    (by show Fs.dirExists (Fs.set _ _ _) _ = true
        rw [Fs.dirExists_set_ne _ _ _ _ (parentOf_ne_backupName o hpne),
          Fs.dirExists_erase_ne _ _ _ (fun e => by have := parentOf_length_lt hpne; rw [e] at this; omega)]
        exact hdir)
    (by exact hf)]
  simp only []
  rw [run_permissionCallback_old m perm hperm (by exact hcwd) (Fs.lookup_set_self _ _ _) (by exact hf)]
  simp [backupOps, resultOps, Fs.set_set, List.append_assoc, Nat.add_assoc, Nat.add_comm, Nat.add_left_comm]

/-! ### the reject file -/

/-- `ensure_parent_directories` when every directory of the path is there: no operation (the tolerated `mkdir` failures count as
    operations for the fault schedule only) -/
theorem run_ensureParentDirs_there {s : DState} {p : Bytes} (hp : p ≠ []) (hcwd : s.cwd = []) (hdirs : DirsThere s.fs p)
    (hf : s.faultAt = none) :
    (ensureParentDirs p).run s = (.ok (), { s with opCount := s.opCount + (dirPrefixes p).length }) :=
  ensureParentDirs_run_exist p s hp hf (by intro d hd; rw [absPath_nil hcwd]; exact hdirs d hd)

theorem str_rej : str ".rej" = [46, 114, 101, 106] := by
  unfold str String.toUTF8; rw [Cpp.byteArray_toList_eq_data]; rfl

/-- without `-r` the rejects of `p` go to `p.rej` -/
theorem rejectPath_default (o : Options) (p : Bytes) (h : o.rejectFile = []) : rejectPath o p = p ++ str ".rej" := by
  unfold rejectPath; rw [h]; rfl

/-- the first rejects of a run written to a path where nothing is: a new file (mode `0666 & ~umask`) with exactly these bytes -/
theorem run_writeRejects_new (o : Options) {s : DState} {rej : Bytes} (b : Bytes) (hcwd : s.cwd = [])
    (hnot : s.rejWritten.contains rej = false) (h : s.fs.lookup rej = none)
    (hdir : s.fs.dirExists (parentOf rej) = true) (hf : s.faultAt = none) :
    (writeRejects o rej b).run s =
      (.ok (), { s with rejWritten := s.rejWritten ++ [rej],
                        fs := s.fs.set rej (.file b (0o666 - (0o666 &&& s.fs.umask))), trace := s.trace ++ writeOps rej b,
                        opCount := s.opCount + (writeOps rej b).length }) := by
  unfold writeRejects
  rw [run_bind, openRejects_run, if_neg (by rw [hnot]; simp),
    if_neg (by rw [inWayAt_of_none (by rw [absPath_nil hcwd]; exact h)]; simp), absPath_nil hcwd,
    doOp_run_ok (s := { s with rejWritten := s.rejWritten ++ [rej] }) hf (apply_creat_new h hdir)]
  simp only []
  rw [run_opWrite]
  by_cases hc : b.isEmpty = true
  · have : b = [] := List.isEmpty_iff.1 hc
    subst this
    simp [writeOps]
  · rw [if_neg hc, absPath_nil (by exact hcwd),
      doOp_run_ok (by exact hf) (apply_write_file (Fs.lookup_set_self _ _ _))]
    simp [writeOps, hc, Fs.set_set, List.append_assoc]

/-! ### the applier on a single hunk that cannot be placed -/

/-- `apply_patch` for a patch with one hunk which `locate_hunk` does not find (and which, reversed, is not found either — or `-f`,
    which skips that probe): nothing is asked, the output is the input, the hunk — unshifted, there is no earlier hunk — goes to the
    reject bytes after the header, one failure is counted and reported -/
theorem applyPatch_reject_one (file : List Line) (h : Hunk) (p0 : Patch) (o : ApplyOpts) (tty : Option (List Bool))
    (hrev : o.reverse = false) (hp : p0.hunks = [h])
    (hloc : locateHunk file h o.ignoreWhitespace 0 o.maxFuzz 0 = none)
    (hrloc : o.force = true ∨ locateHunk file (reverseHunk h) o.ignoreWhitespace 0 o.maxFuzz 0 = none)
    (hfmt : rejectAsUnified o.rejectFormat p0.format = true) :
    ∃ r, applyPatch file p0 o tty = .ok r ∧ r.out.map Out.line = file ∧
      r.rejBytes = writeHeaderUnified p0 ++ writeHunkUnified h ∧ r.failed = 1 ∧ r.skipped = false ∧ r.perfect = false ∧
      r.rejected = [(0, h)] ∧ r.applied = [] ∧
      r.msgs = [Msg.hunk 1 "FAILED" (expectedLine h) 0 0] ∧ r.tty = tty ∧ r.patch = p0 := by
  have hfin : finishHunk file o p0 { tty := tty } 0 h none =
      .ok { tty := tty, perfect := false, rejBytes := writeHeaderUnified p0 ++ writeHunkUnified h, rejected := [(0, h)],
            msgs := [Msg.hunk 1 "FAILED" (expectedLine h) 0 0] } := by
    unfold finishHunk
    simp [writeReject, hfmt, isPerfect, hunkMsg]
  unfold applyPatch
  simp only [hrev, Bool.false_eq_true, if_false, hp, hloc]
  cases hf : o.force
  · have hr : locateHunk file (reverseHunk h) o.ignoreWhitespace 0 o.maxFuzz 0 = none := by
      rcases hrloc with h1 | h1
      · rw [hf] at h1; cases h1
      · exact h1
    simp only [shouldCheckReversed, hf, Bool.not_false, if_true, hr, isPerfect, Option.isNone_none, Option.isSome_none,
      Bool.and_false, Bool.or_self, Bool.false_eq_true, if_false, hfin, applyRest]
    refine ⟨_, rfl, ?_, rfl, rfl, rfl, rfl, rfl, rfl, rfl, rfl, rfl⟩
    simp [Render.copyRange_map_line]
  · simp only [shouldCheckReversed, hf, Bool.not_true, Bool.false_eq_true, if_false, hfin, applyRest]
    refine ⟨_, rfl, ?_, rfl, rfl, rfl, rfl, rfl, rfl, rfl, rfl, rfl⟩
    simp [Render.copyRange_map_line]

/-! ### one section

`BaseSection`: the hypotheses of `Section.PlainSection` without `noBackup` and without the applier's verdict (`failed`, `perfect`,
`skipped`, `msgs`), which the theorems below take separately. -/

structure BaseSection (o : Options) (fmt : Format) (s : DState) (p bytes : Bytes) (m : Nat)
    (patch0 patch2 : Patch) (info : HeaderInfo) (par1 par2 : Parser) (r : ApplyResult) : Prop where
  operand : o.fileToPatch = p
  noOut : o.outFile = []
  pathNe : p ≠ []
  cwd : s.cwd = []
  hdr : parseHeader s.par { format := fmt } o.strip = .ok (true, patch0, info, par1)
  fmt : patch0.format = .unified ∨ patch0.format = .context ∨ patch0.format = .normal
  op : patch0.operation = .change
  pre : patch0.prerequisite = []
  body : parseBody par1 patch0 = .ok (patch2, par2)
  fmt2 : patch2.format = patch0.format
  op2 : patch2.operation = .change
  newMode2 : patch2.newMode = 0
  file : s.fs.lookup p = some (.file bytes m)
  writable : m &&& writeMask ≠ 0
  root : s.fs.isRoot = true
  noFault : s.faultAt = none
  apply : applyPatch (splitLines bytes) patch2 (applyOptsOf o)
      (Option.map (fun l => List.map (fun a => !List.isEmpty a && List.head? a != some 110) l) s.tty) = .ok r
  ttyLeft : r.tty = Option.map (fun l => List.map (fun a => !List.isEmpty a && List.head? a != some 110) l) s.tty
  patch : r.patch = patch2

/-- a `PlainSection` is a `BaseSection` -/
theorem BaseSection.of_plain {o : Options} {fmt : Format} {s : DState} {p bytes : Bytes} {m : Nat}
    {patch0 patch2 : Patch} {info : HeaderInfo} {par1 par2 : Parser} {r : ApplyResult}
    (H : PlainSection o fmt s p bytes m patch0 patch2 info par1 par2 r) :
    BaseSection o fmt s p bytes m patch0 patch2 info par1 par2 r :=
  { operand := H.operand, noOut := H.noOut, pathNe := H.pathNe, cwd := H.cwd, hdr := H.hdr, fmt := H.fmt, op := H.op,
    pre := H.pre, body := H.body, fmt2 := H.fmt2, op2 := H.op2, newMode2 := H.newMode2, file := H.file,
    writable := H.writable, root := H.root, noFault := H.noFault, apply := H.apply, ttyLeft := H.ttyLeft, patch := H.patch }

/-- what a "change" section that got as far as writing its result leaves behind, apart from the tree, the trace, the log, the
    failure flag and the list of backups made -/
structure SectionEnd (s s' : DState) (p : Bytes) (par2 : Parser) : Prop where
  par : s'.par = par2
  dWrites : s'.dWrites = s.dWrites
  dRemovals : s'.dRemovals = s.dRemovals
  tty : s'.tty = s.tty
  cwd : s'.cwd = s.cwd
  faultAt : s'.faultAt = s.faultAt
  stdin : s'.stdin = s.stdin
  stdout : s'.stdout = s.stdout
  firstPatch : s'.firstPatch = false
  sections : s'.sections = s.sections ++ [(p, p)]

section
variable {o : Options} {fmt : Format} {s : DState} {p bytes : Bytes} {m : Nat}
  {patch0 patch2 : Patch} {info : HeaderInfo} {par1 par2 : Parser} {r : ApplyResult}

/-- the symbolic run of `processSection` (as `Section.section_run`, for `H : BaseSection …`); the verdict of the applier and the
    facts about the options that matter for the run at hand go into the list -/
syntax "base_run " "[" Lean.Parser.Tactic.simpLemma,* "]" : tactic
set_option hygiene false in
macro_rules | `(tactic| base_run [$ls,*]) => `(tactic| (
  have hfu : (patch0.format == Format.unknown) = false := by
    rcases H.fmt with h | h | h <;> rw [h] <;> rfl
  have hfg : (patch2.format == Format.git) = false := by
    rw [H.fmt2]; rcases H.fmt with h | h | h <;> rw [h] <;> rfl
  have hob : (patch0.operation == Operation.binary) = false := by rw [H.op]; rfl
  have hor : (patch0.operation == Operation.rename) = false := by rw [H.op]; rfl
  have hoc : (patch0.operation == Operation.copy) = false := by rw [H.op]; rfl
  have hoa2 : (patch2.operation == Operation.add) = false := by rw [H.op2]; rfl
  have hor2 : (patch2.operation == Operation.rename) = false := by rw [H.op2]; rfl
  have hoc2 : (patch2.operation == Operation.copy) = false := by rw [H.op2]; rfl
  have hod2 : (patch2.operation == Operation.delete) = false := by rw [H.op2]; rfl
  have hpe : List.isEmpty p = false := by
    cases p with
    | nil => exact absurd rfl H.pathNe
    | cons _ _ => rfl
  have hout : outputPath o patch0 p = p := by
    unfold outputPath; simp [H.noOut, hor, hoc]
  have hdash : (o.outFile == [45]) = false := by rw [H.noOut]; rfl
  unfold processSection
  simp only [↓run_bind, ↓run_get, ↓run_liftE, ↓run_modify, ↓run_pure, ↓run_emit,
    H.hdr, hfu, hob, H.operand, hpe, hout, hor, hdash,
    Bool.false_eq_true, ↓reduceIte, Bool.false_and, Bool.and_false, Bool.not_true, Bool.not_false,
    Bool.or_false, Bool.false_or, Bool.and_true, Bool.true_and, Bool.true_or, Bool.or_true,
    run_createTemp, H.noFault, H.cwd,
    run_fsExists_file (b := bytes) (m := m), run_fsIsRegular_file (b := bytes) (m := m),
    run_fsIsSymlink_file (b := bytes) (m := m), H.file,
    (fun s' => @run_fixPermissions_writable o s' p bytes m), H.writable, ne_eq, not_false_eq_true,
    absPath_nil, readFile_root (b := bytes) (m := m), H.root,
    H.pre, List.isEmpty_nil,
    run_parseBodyM_true (pt' := patch2) (par' := par2), H.body,
    H.apply, H.patch, hoa2, hor2, hoc2, hod2,
    bne_self_eq_false, beq_self_eq_true, H.ttyLeft, hfg, H.newMode2, $ls,*]))

/-- **a clean section with `-b`, real run**: the target's old bytes and mode are found under the backup name, the target holds the
    rendered output with its old mode, the backup name is recorded; the trace is `rename`, `creat`, (`write`,) `chmod` after the
    two anonymous temporaries (`hnd`: the backup name is not that of a directory — a file is not renamed onto a directory) -/
theorem processSection_backup (H : BaseSection o fmt s p bytes m patch0 patch2 info par1 par2 r)
    (hfail : r.failed = 0) (hmsgs : r.msgs = [])
    (hb : o.saveBackup = true) (hreal : o.dryRun = false) (hdir : s.fs.dirExists (parentOf p) = true)
    (hnot : s.backedUp.contains (backupName o p) = false)
    (hdirs : DirsThere s.fs (backupName o p)) (hbdir : s.fs.dirExists (parentOf (backupName o p)) = true)
    (hnd : NotDir s.fs (backupName o p)) :
    ∃ s', (processSection o fmt).run s = (.ok true, s') ∧
      s'.fs = ((s.fs.erase p).set (backupName o p) (.file bytes m)).set p (.file (render o.newlineOutput r.out) m) ∧
      s'.trace = s.trace ++ [.tmpCreate, .tmpUnlink] ++ [.tmpCreate, .tmpUnlink] ++
        backupOps o p (render o.newlineOutput r.out) m ∧
      s'.backedUp = s.backedUp ++ [backupName o p] ∧
      s'.hadFailure = s.hadFailure ∧ s'.out = s.out ++ [.file p false] ∧
      SectionEnd s s' p par2 := by
  base_run [hfail, hmsgs, hb, hreal,
    (fun s' pt c perm => @run_writePatchedResult_backup s' p bytes m o pt c m perm), hdir, hnot, hdirs, hbdir, hnd, H.pathNe]
  refine ⟨_, rfl, rfl, rfl, rfl, rfl, ?_, ⟨rfl, rfl, rfl, ?_, H.cwd.symm, H.noFault.symm, rfl, rfl, rfl, rfl⟩⟩
  · simp
  · generalize s.tty = t
    cases t <;> simp

/-- **a clean section under --dry-run, with or without `-b`**: the tree and the trace (apart from the two anonymous temporaries)
    are untouched, no backup is recorded -/
theorem processSection_dry_any (H : BaseSection o fmt s p bytes m patch0 patch2 info par1 par2 r)
    (hfail : r.failed = 0) (hmsgs : r.msgs = [])
    (hdry : o.dryRun = true) :
    ∃ s', (processSection o fmt).run s = (.ok true, s') ∧
      s'.fs = s.fs ∧
      s'.trace = s.trace ++ [.tmpCreate, .tmpUnlink] ++ [.tmpCreate, .tmpUnlink] ∧
      s'.backedUp = s.backedUp ∧
      s'.hadFailure = s.hadFailure ∧ s'.out = s.out ++ [.file p true] ∧
      SectionEnd s s' p par2 := by
  base_run [hfail, hmsgs, hdry]
  refine ⟨_, rfl, rfl, rfl, rfl, rfl, ?_, ⟨rfl, rfl, rfl, ?_, H.cwd.symm, H.noFault.symm, rfl, rfl, rfl, rfl⟩⟩
  · simp
  · generalize s.tty = t
    cases t <;> simp

/-- **a section whose hunks are (partly or all) rejected, real run, no backup**: the failure flag is set; the rejects are
    written to `p.rej`, a new file; the target is re-written with what the applier put out (for a single rejected hunk: its own
    lines) and keeps its mode -/
theorem processSection_rejected (H : BaseSection o fmt s p bytes m patch0 patch2 info par1 par2 r)
    (hfail : r.failed ≠ 0)
    (hnb : o.saveBackup = false) (hbim : o.backupIfMismatch ≠ .yes) (hrf : o.rejectFile = [])
    (hreal : o.dryRun = false) (hdir : s.fs.dirExists (parentOf p) = true)
    (hnot : s.rejWritten.contains (p ++ str ".rej") = false) (hfree : s.fs.lookup (p ++ str ".rej") = none)
    (hdirs : DirsThere s.fs (p ++ str ".rej")) (hrdir : s.fs.dirExists (parentOf (p ++ str ".rej")) = true) :
    ∃ s', (processSection o fmt).run s = (.ok true, s') ∧
      s'.fs = (s.fs.set (p ++ str ".rej") (.file r.rejBytes (0o666 - (0o666 &&& s.fs.umask)))).set p
                (.file (render o.newlineOutput r.out) m) ∧
      s'.trace = s.trace ++ [.tmpCreate, .tmpUnlink] ++ [.tmpCreate, .tmpUnlink] ++ writeOps (p ++ str ".rej") r.rejBytes ++
        resultOps p (render o.newlineOutput r.out) m ∧
      s'.backedUp = s.backedUp ∧ s'.rejWritten = s.rejWritten ++ [p ++ str ".rej"] ∧
      s'.hadFailure = true ∧
      s'.out = s.out ++ [.file p false] ++ r.msgs.map DEv.msg ++
        [.failed r.failed patch2.hunks.length r.skipped (some (p ++ str ".rej"))] ∧
      SectionEnd s s' p par2 := by
  have hfb : (r.failed != 0) = true := by simpa using hfail
  have hfe : (r.failed == 0) = false := by simpa using hfail
  have hbb : (o.backupIfMismatch == OptionalBool.yes) = false := by
    cases hx : o.backupIfMismatch <;> first | rfl | exact absurd hx hbim
  have hrne : p ++ str ".rej" ≠ [] := by rw [str_rej]; simp
  have hpr : p ≠ p ++ str ".rej" := by
    intro e
    have := congrArg List.length e
    rw [str_rej] at this; simp at this
  have hlk : ∀ n, (s.fs.set (p ++ str ".rej") n).lookup p = some (.file bytes m) := by
    intro n; rw [Fs.lookup_set_ne _ _ _ _ hpr]; exact H.file
  have hde : ∀ n, (s.fs.set (p ++ str ".rej") n).dirExists (parentOf p) = true := by
    intro n
    rw [Fs.dirExists_set_ne _ _ _ _ (by
      intro e
      have h1 := parentOf_length_lt H.pathNe
      rw [e, str_rej] at h1; simp at h1; omega)]
    exact hdir
  base_run [hfb, hfe, hnb, hbb, hreal, ↓run_failNow, rejectPath_default o p hrf,
    (fun s' => @run_ensureParentDirs_there s' (p ++ str ".rej") hrne), hdirs,
    (fun s' b => @run_writeRejects_new o s' (p ++ str ".rej") b), hnot, hfree, hrdir,
    (fun s' pt c perm => @run_writePatchedResult_plain s' p bytes m o pt c m perm), hlk, hde, Section.Fs.isRoot_set]
  refine ⟨_, rfl, rfl, ?_, rfl, rfl, rfl, ?_, ⟨rfl, rfl, rfl, ?_, H.cwd.symm, H.noFault.symm, rfl, rfl, rfl, rfl⟩⟩
  · simp [List.append_assoc]
  · simp [List.append_assoc]
  · generalize s.tty = t
    cases t <;> simp

end

end PatchModel.RunB
